import Autd3.Lemmas.Modulation
/-!
# C16 — generated modulations are the requested waveform at the requested frequency

Property theorems only (helpers live in `Lemmas/Flt.lean`, `Lemmas/Modulation.lean`).  The model is
`Model/Modulation.lean` (mirror of `sampling_mode.rs`, `sine.rs`, `square.rs`, `fourier.rs`,
`cache.rs`, `fir.rs`, `radiation_pressure.rs`, `boxed.rs`) over the exact IEEE model
`Model/Flt.lean`; it is tied to the Rust code by the `modgen` correspondence stream.

Clauses of the property and what carries them:

* *buffer of 2..=65536 samples, periodic at exactly the requested frequency (exact modes)* —
  `nyquist_test_exact`, `exact_len_rep`, `exact_len_rep_arith` (integer mode: complete
  characterisation for every `u32` frequency and every division), `exact_f_search_sound`
  (float mode: whatever the search returns was checked), `exact_f_len_range` (`2 ≤ n ≤ 65536`,
  `k ≥ 1` for every `f32` bit pattern), `nearest_len_range`
  (nearest mode: every `f32` incl. 0, ±inf, NaN, subnormals), `fourier_len_spec`, `fourier_len_range`.
* *never leaves 0..=255, error unless clamping* — `range_or_error`, `sine_calc_spec`,
  `fourier_calc_spec` (for **every** function `raw`, i.e. whatever `sinf` returns),
  `square_calc_spec`.
* *Square is `rep` periods filling the buffer* — `square_partition`, `squareRuns_eq_spec`,
  `square_calc_spec`, `square_duty_error`.
* *wrappers preserve length and configuration, Cache is stable* — `wrappers_preserve_cfg`,
  `wrappers_preserve_len`, `cache_stable`.

Residue (not carried by a theorem, see the end of the file): the sample *values* of Sine/Fourier
against the ideal waveform (`sinf` is libm), the nearest-in-frequency choice between the two
candidate lengths, and the even spread of Square's periods (violated: known finding).
-/
namespace Autd3.Modulation
open Autd3.Flt

/-! ## exact (integer) mode -/

/-- **The Nyquist test in `f32` is exact for integer frequencies**: for every `u32` frequency and
every division, `freq as f32 >= sampling_freq / 2.` (two `f32` divisions and a conversion that rounds
above `2^24`) holds iff `2·f·division ≥ 40000`. -/
theorem nyquist_test_exact (f d : ℕ) (hf : f < 2 ^ 32) (h1 : 1 ≤ d) (h2 : d ≤ 65535) :
    ∃ fs : Fl, cfgFreq (some d) = .ok fs ∧
      ((b32.div fs two).le (b32.ofNat f) = true ↔ 40000 ≤ 2 * f * d) :=
  nyquist_exact f d hf h1 h2

/-- **`validate_exact`, completely**: for every `u32` frequency and every division `1..=65535` the
result is the Nyquist error iff `f·division ≥ 20000`, else the zero error iff `f = 0`, else
`(n, rep) = (40000/g, f·division/g)` with `g = gcd(40000, f·division)`. -/
theorem exact_len_rep (f d : ℕ) (hf : f < 2 ^ 32) (h1 : 1 ≤ d) (h2 : d ≤ 65535) :
    validateExact f (some d) =
      if 40000 ≤ 2 * f * d then .error (.err .nyquist)
      else if f = 0 then .error (.err .zero)
      else .ok (40000 / Nat.gcd 40000 (f * d), f * d / Nat.gcd 40000 (f * d)) := by
  obtain ⟨fs, hfs, hiff⟩ := nyquist_exact f d hf h1 h2
  unfold validateExact
  rw [hfs]
  simp only [bind, Except.bind, cfgDiv, ULTRASOUND_FREQ, Gen.ModConsts.ULTRASOUND_FREQ, pure, Except.pure]
  by_cases hny : 40000 ≤ 2 * f * d
  · have := hiff.mpr hny
    simp [this, hny, throw, throwThe, MonadExceptOf.throw]
  · have : ¬ ((b32.div fs two).le (b32.ofNat f) = true) := fun h => hny (hiff.mp h)
    simp only [this, hny, if_false]
    by_cases h0 : f = 0
    · simp [h0, throw, throwThe, MonadExceptOf.throw]
    · simp [h0]

/-- **the accepted `(n, rep)`**: `rep/n = f·division/40000` in lowest terms (so `n` samples at
`40000/division` Hz hold exactly `rep` periods of `f` Hz and no shorter buffer does), `3 ≤ n ≤ 40000`,
at least one period, more than two samples per period. -/
theorem exact_len_rep_arith (f d : ℕ) (h0 : 0 < f) (h1 : 0 < d) (hny : 2 * f * d < 40000) :
    let g := Nat.gcd 40000 (f * d)
    let n := 40000 / g
    let rep := f * d / g
    rep * 40000 = n * (f * d) ∧ Nat.Coprime n rep ∧ 3 ≤ n ∧ n ≤ 40000 ∧ 1 ≤ rep ∧ 2 * rep < n := by
  intro g n rep
  have hfd : 0 < f * d := Nat.mul_pos h0 h1
  have hg : 0 < g := Nat.gcd_pos_of_pos_left _ (by norm_num)
  obtain ⟨a, ha⟩ : g ∣ 40000 := Nat.gcd_dvd_left _ _
  obtain ⟨b, hb⟩ : g ∣ f * d := Nat.gcd_dvd_right _ _
  have hn : n = a := by show 40000 / g = a; rw [ha]; exact Nat.mul_div_cancel_left _ hg
  have hr : rep = b := by show f * d / g = b; rw [hb]; exact Nat.mul_div_cancel_left _ hg
  have hcop : Nat.Coprime n rep := Nat.coprime_div_gcd_div_gcd hg
  rw [hn, hr] at hcop ⊢
  have hb1 : 1 ≤ b := by
    rcases Nat.eq_zero_or_pos b with h | h
    · subst h; simp at hb; omega
    · exact h
  have h2b : 2 * b < a := by
    have : g * (2 * b) < g * a := by
      calc g * (2 * b) = 2 * (g * b) := by ring
        _ = 2 * (f * d) := by rw [hb]
        _ = 2 * f * d := by ring
        _ < 40000 := hny
        _ = g * a := ha
    exact Nat.lt_of_mul_lt_mul_left this
  refine ⟨?_, hcop, by omega, ?_, hb1, h2b⟩
  · rw [ha, hb]; ring
  · calc a = 1 * a := by ring
      _ ≤ g * a := Nat.mul_le_mul_right _ hg
      _ = 40000 := ha.symm


example : validateExact 150 (some 10) = .ok (80, 3) := by
  rw [exact_len_rep 150 10 (by norm_num) (by norm_num) (by norm_num)]; decide
example : validateExact 19999 (some 1) = .ok (40000, 19999) := by
  rw [exact_len_rep 19999 1 (by norm_num) (by norm_num) (by norm_num)]; decide
example : validateExact 2000 (some 10) = .error (.err .nyquist) := by
  rw [exact_len_rep 2000 10 (by norm_num) (by norm_num) (by norm_num)]; decide

/-! ## exact (float) mode -/

/-- the search loop only returns candidates it has checked -/
theorem exact_f_search_sound (fd : Fl) (start fuel n k : ℕ) (h : searchF fd start fuel = some (n, k)) :
    start ≤ n ∧ n < start + fuel ∧
      isInteger (b64.mul fd (b64.ofNat n)) = true ∧
      (b64.mul fd (b64.ofNat n)).toNatSat (2 ^ 64 - 1) = 40000 * k := by
  induction fuel generalizing start with
  | zero => simp [searchF] at h
  | succ fuel ih =>
    unfold searchF at h
    simp only [] at h
    split at h
    · obtain ⟨a, b, c, d⟩ := ih (start + 1) h
      exact ⟨by omega, by omega, c, d⟩
    · rename_i hint
      by_cases hm : (b64.mul fd (b64.ofNat start)).toNatSat (2 ^ 64 - 1) % ULTRASOUND_FREQ = 0
      · rw [if_neg (by simpa using hm)] at h
        simp only [Option.some.injEq, Prod.mk.injEq] at h
        obtain ⟨rfl, rfl⟩ := h
        refine ⟨le_refl _, by omega, by simpa using hint, ?_⟩
        have := Nat.div_add_mod ((b64.mul fd (b64.ofNat start)).toNatSat (2 ^ 64 - 1)) 40000
        have e : ULTRASOUND_FREQ = 40000 := rfl
        rw [e] at hm ⊢
        omega
      · rw [if_pos hm] at h
        obtain ⟨a, b, c, d⟩ := ih (start + 1) h
        exact ⟨by omega, by omega, c, d⟩

/-- **`validate_exact_f` returns only what it checked, and at most 65536 samples**: with
`fd = freq as f64 * division as f64`, the returned `(n, k)` satisfies `is_integer(fd * n)` and
`(fd * n) as u64 = 40000·k`, both evaluated in `f64` exactly as the Rust code does. -/
theorem exact_f_accepts_checked (f : Fl) (d n k : ℕ) (h : validateExactF f (some d) = .ok (n, k)) :
    n ≤ 65536 ∧
      isInteger (b64.mul (b64.mul f (b64.ofNat d)) (b64.ofNat n)) = true ∧
      (b64.mul (b64.mul f (b64.ofNat d)) (b64.ofNat n)).toNatSat (2 ^ 64 - 1) = 40000 * k := by
  unfold validateExactF at h
  simp only [bind, Except.bind, cfgDiv, pure, Except.pure] at h
  by_cases c1 : (f.lt (Fl.fin 0) || f.isNaN) = true
  · simp [c1, throw, throwThe, MonadExceptOf.throw] at h
  · simp only [c1] at h
    by_cases c2 : f.eq (Fl.fin 0) = true
    · simp [c2, throw, throwThe, MonadExceptOf.throw] at h
    · simp only [c2] at h
      cases hfs : cfgFreq (some d) with
      | error e => simp [hfs] at h
      | ok fs =>
        simp only [hfs] at h
        by_cases c3 : (b32.div fs two).le f = true
        · simp [c3, throw, throwThe, MonadExceptOf.throw] at h
        · simp only [c3] at h
          simp only [Bool.false_eq_true, if_false] at h
          cases hr : searchF (b64.mul f (b64.ofNat d)) (searchStart (b64.mul f (b64.ofNat d)))
              (MOD_BUF_SIZE_MAX + 1 - searchStart (b64.mul f (b64.ofNat d))) with
          | none => simp [hr, throw, throwThe, MonadExceptOf.throw] at h
          | some r =>
            simp only [hr] at h
            cases h
            obtain ⟨h1, h2, h3, h4⟩ := exact_f_search_sound _ _ _ _ _ hr
            have e : MOD_BUF_SIZE_MAX = 65536 := rfl
            rw [e] at h2
            exact ⟨by omega, h3, h4⟩

/-- **exact float mode: the accepted buffer has 2..=65536 samples and at least one period** -/
theorem exact_f_len_range (b d n k : ℕ) (h1 : 1 ≤ d) (h2 : d ≤ 65535)
    (h : validateExactF (ofBits32 b) (some d) = .ok (n, k)) : 2 ≤ n ∧ n ≤ 65536 ∧ 1 ≤ k := by
  obtain ⟨fsv, T, hfsv, hT, hTerr, _⟩ := thr_spec d h1 h2
  have hdq : (0 : ℚ) < d := by exact_mod_cast h1
  have hd1 : (1 : ℚ) ≤ d := by exact_mod_cast h1
  have hd2 : (d : ℚ) ≤ 65535 := by exact_mod_cast h2
  unfold validateExactF at h
  simp only [bind, Except.bind, cfgDiv, pure, Except.pure, hfsv, hT] at h
  generalize hf : ofBits32 b = f at h
  by_cases c1 : (f.lt (Fl.fin 0) || f.isNaN) = true
  · simp [c1, throw, throwThe, MonadExceptOf.throw] at h
  simp only [c1] at h
  by_cases c2 : f.eq (Fl.fin 0) = true
  · simp [c2, throw, throwThe, MonadExceptOf.throw] at h
  simp only [c2] at h
  by_cases c3 : (Fl.fin T).le f = true
  · simp [c3, throw, throwThe, MonadExceptOf.throw] at h
  simp only [c3, Bool.false_eq_true, if_false] at h
  cases hr : searchF (b64.mul f (b64.ofNat d)) (searchStart (b64.mul f (b64.ofNat d)))
      (MOD_BUF_SIZE_MAX + 1 - searchStart (b64.mul f (b64.ofNat d))) with
  | none => simp [hr, throw, throwThe, MonadExceptOf.throw] at h
  | some r =>
    simp only [hr] at h
    cases h
    obtain ⟨hs1, hs2, _, hs4⟩ := exact_f_search_sound _ _ _ _ _ hr
    have e : MOD_BUF_SIZE_MAX = 65536 := rfl
    rw [e] at hs2
    have hn2 : n ≤ 65536 := by omega
    -- the frequency is a positive finite value below the threshold
    cases f with
    | nan => simp [Fl.isNaN] at c1
    | inf neg =>
      cases neg
      · simp [Fl.le] at c3
      · simp [Fl.lt] at c1
    | fin v =>
      have hv0 : ¬ v < 0 := by simpa [Fl.lt, Fl.isNaN] using c1
      have hvne : v ≠ 0 := by simpa [Fl.eq] using c2
      have hvpos : 0 < v := lt_of_le_of_ne (not_lt.mp hv0) (Ne.symm hvne)
      have hvT : v < T := by simpa [Fl.le] using c3
      have hv149 := ofBits32_pos b v hf hvpos
      obtain ⟨t1, t2⟩ := abs_lt.mp hTerr
      -- v d < 20001
      have hvd : v * d < 20001 := by
        have h3 : (20000 : ℚ) / d * d = 20000 := by field_simp
        have h4 : (1 : ℚ) / d * d = 1 := by field_simp
        nlinarith
      have hvdlo : (2 : ℚ) ^ (-149 : ℤ) ≤ v * d := by
        have := two_zpow_pos (-149)
        nlinarith
      -- fd
      rw [b64_ofNat d (by omega)] at hr hs4 hs1 hs2
      have hmul : b64.mul (Fl.fin v) (Fl.fin (d : ℚ)) = b64.rnd (v * d) := rfl
      obtain ⟨fd, hfd, hfdpos, hfdlo, hfdhi⟩ := b64_rnd_crude (v * d)
        (pow_m1022_le _ (le_trans (zpow_le_zpow_right₀ (by norm_num) (by norm_num)) hvdlo))
        (lt_pow_1023 _ (lt_trans hvd (by norm_num)))
      rw [hmul, hfd] at hr hs4 hs1 hs2
      have hfd_hi : fd < 20022 := by nlinarith
      have hfd_lo : (2 : ℚ) ^ (-150 : ℤ) ≤ fd := by
        have e150 : (2 : ℚ) ^ (-149 : ℤ) = 2 * (2 : ℚ) ^ (-150 : ℤ) := by
          rw [show (-149 : ℤ) = 1 + -150 by norm_num, zpow_add₀ (by norm_num : (2 : ℚ) ≠ 0)]; norm_num
        have := two_zpow_pos (-150)
        nlinarith
      -- start
      set z : ℚ := 40000 / fd with hz
      have hzfd : z * fd = 40000 := by rw [hz]; field_simp
      have hzpos : 0 < z := by positivity
      have hz1 : 1 < z := by
        by_contra hc
        have : z ≤ 1 := not_lt.mp hc
        nlinarith
      have hzhi : z < (2 : ℚ) ^ (200 : ℤ) := by
        have e1 : (2 : ℚ) ^ (200 : ℤ) * (2 : ℚ) ^ (-150 : ℤ) = (2 : ℚ) ^ (50 : ℤ) := by
          rw [← zpow_add₀ (by norm_num : (2 : ℚ) ≠ 0)]; norm_num
        have e2 : (40000 : ℚ) < (2 : ℚ) ^ (50 : ℤ) := by norm_num
        by_contra hc
        have hc' : (2 : ℚ) ^ (200 : ℤ) ≤ z := not_lt.mp hc
        have : (2 : ℚ) ^ (200 : ℤ) * (2 : ℚ) ^ (-150 : ℤ) ≤ z * fd :=
          mul_le_mul hc' hfd_lo (two_zpow_pos _).le hzpos.le
        rw [e1, hzfd] at this
        linarith
      obtain ⟨q, hq, hqpos, hqlo, _⟩ := b64_rnd_crude z
        (pow_m1022_le _ (le_trans (by
          have : (2 : ℚ) ^ (-151 : ℤ) ≤ (2 : ℚ) ^ (0 : ℤ) := zpow_le_zpow_right₀ (by norm_num) (by norm_num)
          simpa using this) hz1.le))
        (lt_pow_1023 _ hzhi)
      have hstart : searchStart (Fl.fin fd) = Nat.min q.floor.toNat (2 ^ 32 - 1) := by
        unfold searchStart
        rw [b64_ofNat _ (by decide)]
        unfold Fmt.div
        have : ¬ fd.num = 0 := by
          have := Rat.num_pos.mpr hfdpos; omega
        simp only [this, if_false]
        have e40 : ((ULTRASOUND_FREQ : ℕ) : ℚ) / fd = z := by rw [hz]; norm_num [ULTRASOUND_FREQ, Gen.ModConsts.ULTRASOUND_FREQ]
        rw [e40, hq]
        simp only [Fl.floor]
        have hfl : (0 : ℚ) ≤ ((q.floor : ℤ) : ℚ) := by
          have : (0 : ℤ) ≤ q.floor := Int.floor_nonneg.mpr hqpos.le
          exact_mod_cast this
        rw [toNatSat_fin_pos _ hfl]
        simp [Rat.floor_intCast]
      rw [hstart] at hs1
      -- n ≥ 1 : otherwise ⌊q⌋ ≤ 0 although q > 1.9
      have hq19 : (19 : ℚ) / 10 < q := by
        have : (199 : ℚ) / 100 < z := by
          by_contra hc
          have : z ≤ 199 / 100 := not_lt.mp hc
          nlinarith
        nlinarith
      have hn1 : 1 ≤ n := by
        by_contra hc
        have hn0 : n = 0 := by omega
        have hm : Nat.min q.floor.toNat (2 ^ 32 - 1) = 0 := by omega
        have : q.floor.toNat = 0 := min_eq_zero (M := 2 ^ 32 - 1) (by norm_num) hm
        have h1f : (1 : ℤ) ≤ ⌊q⌋ := Int.le_floor.mpr (by push_cast; linarith)
        have : (1 : ℤ) ≤ q.floor := h1f
        omega
      -- the product fd * n
      have hnq1 : (1 : ℚ) ≤ n := by exact_mod_cast hn1
      have hnq2 : (n : ℚ) ≤ 65536 := by exact_mod_cast hn2
      rw [b64_ofNat n (by omega)] at hs4
      have hmul2 : b64.mul (Fl.fin fd) (Fl.fin (n : ℚ)) = b64.rnd (fd * n) := rfl
      obtain ⟨y, hy, hypos, hylo, hyhi⟩ := b64_rnd_crude (fd * n)
        (pow_m1022_le _ (by
          have : (2 : ℚ) ^ (-151 : ℤ) ≤ (2 : ℚ) ^ (-150 : ℤ) := zpow_le_zpow_right₀ (by norm_num) (by norm_num)
          nlinarith [two_zpow_pos (-150)]))
        (lt_pow_1023 _ (by
          have : fd * n < 20022 * 65536 := by nlinarith
          calc fd * n < 20022 * 65536 := this
            _ < (2 : ℚ) ^ (200 : ℤ) := by norm_num))
      rw [hmul2, hy, toNatSat_fin_pos _ hypos.le] at hs4
      -- k ≥ 1
      have hk1 : 1 ≤ k := by
        by_contra hc
        have hk0 : k = 0 := by omega
        rw [hk0] at hs4
        have hs4' : Nat.min y.floor.toNat (2 ^ 64 - 1) = 0 := by rw [hs4]
        have hy0 : y.floor.toNat = 0 := min_eq_zero (M := 2 ^ 64 - 1) (by norm_num) hs4'
        have hyfl : y.floor ≤ 0 := by omega
        have hy1 : y < 1 := by
          have := Int.lt_floor_add_one y
          have h' : ((⌊y⌋ : ℤ) : ℚ) ≤ 0 := by exact_mod_cast hyfl
          linarith
        -- fd n < 1.002, so z > 39900 n, q > 39800 n, start > n
        have hfdn : fd * n < 1002 / 1000 := by nlinarith
        have hzn : 39900 * (n : ℚ) < z := by
          by_contra hc2
          have hc2' : z ≤ 39900 * (n : ℚ) := not_lt.mp hc2
          have : z * fd ≤ 39900 * (n : ℚ) * fd := mul_le_mul_of_nonneg_right hc2' hfdpos.le
          rw [hzfd] at this
          have e' : 39900 * (n : ℚ) * fd = 39900 * (fd * n) := by ring
          rw [e'] at this
          linarith
        have hqn : 39800 * (n : ℚ) < q := by linarith
        have hfq : ((39800 * n : ℕ) : ℤ) ≤ ⌊q⌋ := Int.le_floor.mpr (by push_cast; linarith)
        have hfq' : ((39800 * n : ℕ) : ℤ) ≤ q.floor := hfq
        have : 39800 * n ≤ q.floor.toNat := by omega
        have : n < Nat.min q.floor.toNat (2 ^ 32 - 1) :=
          Nat.lt_min.mpr ⟨by omega, lt_of_le_of_lt hn2 (by norm_num)⟩
        omega
      refine ⟨?_, hn2, hk1⟩
      -- n ≠ 1
      by_contra hc
      have hn1' : n = 1 := by omega
      have hy2 : y < 20043 := by
        rw [hn1'] at hyhi; norm_num at hyhi; linarith
      have hfy : y.floor < 40000 := by
        have h' : ((⌊y⌋ : ℤ) : ℚ) ≤ y := Int.floor_le y
        have : ((⌊y⌋ : ℤ) : ℚ) < ((40000 : ℤ) : ℚ) := by push_cast; linarith
        exact_mod_cast this
      have : Nat.min y.floor.toNat (2 ^ 64 - 1) < 40000 :=
        lt_of_le_of_lt (Nat.min_le_left _ _) (by omega)
      omega


example : validateExactF (ofBits32 0x44435000) (some 10) = .ok (128, 25) := by decide +kernel   -- 781.25 Hz

/-! ## nearest mode -/

/-- **nearest mode, every `f32`**: NaN is the `nan` error, everything else (zero, negative,
infinite, subnormal, huge) yields a length in `2..=65536` with one period per buffer; no panic -/
theorem nearest_len_range (f : Fl) (d : ℕ) (h1 : 1 ≤ d) (h2 : d ≤ 65535) :
    (f.isNaN = true → validateNearest f (some d) = .error (.err .nan)) ∧
    (f.isNaN = false → ∃ n, validateNearest f (some d) = .ok (n, 1) ∧ 2 ≤ n ∧ n ≤ 65536) := by
  obtain ⟨fs, hfs, hpos, hlt, hnan, hfin⟩ := freqNearest_spec f d h1 h2
  constructor
  · intro hn
    unfold validateNearest
    simp [hnan hn, bind, Except.bind, Fl.isNaN, throw, throwThe, MonadExceptOf.throw]
  · intro hn
    obtain ⟨c, hc, hc1, hc2⟩ := hfin hn
    have hcpos : 0 < c := by linarith [div_pos hpos (by norm_num : (0 : ℚ) < 65536)]
    -- x = fs / c ∈ [2, 65536]
    have hx1 : (2 : ℚ) ≤ fs / c := by rw [le_div_iff₀ hcpos]; linarith
    have hx2 : fs / c ≤ 65536 := by rw [div_le_iff₀ hcpos]; linarith
    have hxpos : 0 < fs / c := by positivity
    have hxlt : fs / c < (2 : ℚ) ^ ((24 : ℕ) : ℤ) := by norm_num; linarith
    have hr1 := roundTo_ge_nat 24 (-149) (fs / c) 2 hxpos (by norm_num) hxlt (by exact_mod_cast hx1)
    have hr2 := roundTo_le_nat 24 (-149) (fs / c) 65536 hxpos (by norm_num) hxlt (by exact_mod_cast hx2)
    set rv := roundTo 24 (-149) (fs / c) with hrv
    push_cast at hr1 hr2
    have hrnd : b32.rnd (fs / c) = .fin rv := by
      apply rnd_fin b32 _ (by show 0 ≤ rv; linarith)
      show rv < _
      calc rv ≤ 65536 := hr2
        _ < (2 : ℚ) ^ (128 : ℤ) := by norm_num
    have hdiv : b32.div (.fin fs) (.fin c) = .fin rv := by
      unfold Fmt.div
      have : ¬ c.num = 0 := by
        have := Rat.num_pos.mpr hcpos; omega
      simp only [this, if_false]
      exact hrnd
    have hf1 : (2 : ℤ) ≤ rv.floor := Int.le_floor.mpr (by exact_mod_cast hr1)
    have hf2 : rv.floor ≤ 65536 := by
      have : ((rv.floor : ℤ) : ℚ) ≤ rv := Int.floor_le rv
      have : ((rv.floor : ℤ) : ℚ) ≤ ((65536 : ℤ) : ℚ) := by push_cast; linarith
      exact_mod_cast this
    have hc1' : (2 : ℤ) ≤ -((-rv).floor) := by
      have : (((-rv).floor : ℤ) : ℚ) ≤ -rv := Int.floor_le (-rv)
      have : (((-rv).floor : ℤ) : ℚ) ≤ ((-2 : ℤ) : ℚ) := by push_cast; linarith
      have : (-rv).floor ≤ -2 := by exact_mod_cast this
      omega
    have hc2' : -((-rv).floor) ≤ 65536 := by
      have : (-65536 : ℤ) ≤ ⌊-rv⌋ := by
        apply Int.le_floor.mpr
        have e : (((-65536 : ℤ)) : ℚ) = -65536 := by norm_num
        rw [e]; linarith
      have : (-65536 : ℤ) ≤ (-rv).floor := this
      omega
    unfold validateNearest
    simp only [hc, hfs, bind, Except.bind, Fl.isNaN, hdiv, Fl.floor, Fl.ceil, pure, Except.pure,
      Bool.false_eq_true, if_false]
    split
    · refine ⟨rv.floor.toNat, ?_, by omega, by omega⟩
      rw [toNatSat_int rv.floor (by omega) _ (by omega)]
    · refine ⟨(-((-rv).floor)).toNat, ?_, by omega, by omega⟩
      rw [toNatSat_int (-((-rv).floor)) (by omega) _ (by omega)]


example : validateNearest (ofBits32 0x44ce4000) (some 10) = .ok (3, 1) := by decide +kernel   -- 1650 Hz
example : validateNearest (ofBits32 0x7f800000) (some 1) = .ok (2, 1) := by decide +kernel    -- +inf
example : validateNearest (ofBits32 0) (some 65535) = .ok (65536, 1) := by decide +kernel     -- 0 Hz
example : (ofBits32 0x7fc00000).isNaN = true := by decide +kernel

/-! ## Square -/

/-- **Square partition**: the `rep` period sizes `⌊(n+i)/rep⌋`, `i < rep`, add up to `n`. -/
theorem square_partition_sum (n rep : ℕ) (hrep : 0 < rep) :
    ((List.range rep).map (fun i => (n + i) / rep)).sum = n :=
  square_partition n rep hrep

/-- the run list the driver computes (two evaluations of `n_high`) is the one the Rust code
computes (one per period) -/
theorem squareRuns_is_spec (n rep : ℕ) (duty : Fl) : squareRuns n rep duty = squareRunsSpec n rep duty :=
  squareRuns_eq_spec n rep duty

/-- every period: `high + low = ⌊(n+i)/rep⌋`, `high = ⌊size·duty⌋ ≤ size` (no underflow panic) -/
theorem square_runs_spec (n rep : ℕ) (dv : ℚ) (h0 : 0 ≤ dv) (h1 : dv ≤ 1) (hrep : 0 < rep) (hn : n < 2 ^ 24) :
    ∃ runs, squareRuns n rep (.fin dv) = .ok runs ∧ runs.length = rep ∧
      (runs.map (fun x => x.1 + x.2)).sum = n ∧
      ∀ i (hi : i < runs.length), runs[i].1 + runs[i].2 = (n + i) / rep ∧ runs[i].1 = nHigh (.fin dv) ((n + i) / rep) :=
  squareRuns_ok n rep dv h0 h1 hrep hn

/-- **Square**: a valid duty ratio never panics and yields exactly `n` samples, each the low or the
high level; an invalid duty ratio is the `duty` error before anything else -/
theorem square_calc_spec (p : SquareP) (n rep : ℕ) (dv : ℚ)
    (hv : validate p.mode p.cfg = .ok (n, rep)) (hrep : 0 < rep) (hn : n < 2 ^ 24)
    (hd : p.duty = .fin dv) (h0 : 0 ≤ dv) (h1 : dv ≤ 1) :
    ∃ buf, squareCalc p = .ok buf ∧ buf.length = n ∧ ∀ v ∈ buf, v = p.high ∨ v = p.low := by
  obtain ⟨runs, hr, hlen, hsum, _⟩ := squareRuns_ok n rep dv h0 h1 hrep hn
  refine ⟨runs.flatMap fun (h, l) => List.replicate h p.high ++ List.replicate l p.low, ?_, ?_, ?_⟩
  · unfold squareCalc
    rw [hd] at *
    simp only [Fl.le, hv, hr, bind, Except.bind, pure, Except.pure]
    simp [h0, h1]
  · rw [List.length_flatMap]
    rw [← hsum]
    congr 1
    apply List.map_congr_left
    intro x _
    simp
  · intro v hv
    rw [List.mem_flatMap] at hv
    obtain ⟨x, _, hx⟩ := hv
    rw [List.mem_append, List.mem_replicate, List.mem_replicate] at hx
    rcases hx with ⟨_, rfl⟩ | ⟨_, rfl⟩
    · left; rfl
    · right; rfl

theorem square_duty_error (p : SquareP) (h : ((Fl.fin 0).le p.duty && p.duty.le (.fin 1)) = false) :
    squareCalc p = .error (.err .duty) := by
  unfold squareCalc
  simp [h, bind, Except.bind, throw, throwThe, MonadExceptOf.throw]


example : squareCalc { mode := .exact 1000, cfg := some 10, low := 0, high := 255, duty := .fin (1 / 2) } =
    .ok [255, 255, 0, 0] := by decide +kernel

/-! ## range-or-error, Sine, Fourier -/

/-- **range-or-error**: an accepted level is in `0..=255`, unchanged when it was in range and the
nearer bound when clamped; an error only without clamping and only for a level outside `0..=255`. -/
theorem range_or_error (clamp : Bool) (v : Int) :
    (∀ u, rangeOrErr clamp v = .ok u → u ≤ 255 ∧ ((0 ≤ v ∧ v ≤ 255) → (u : Int) = v) ∧
        (¬ (0 ≤ v ∧ v ≤ 255) → clamp = true ∧ (v < 0 → u = 0) ∧ (255 < v → u = 255))) ∧
    (∀ e, rangeOrErr clamp v = .error e → e = .range ∧ clamp = false ∧ ¬ (0 ≤ v ∧ v ≤ 255)) := by
  unfold rangeOrErr
  constructor
  · intro u h
    split at h
    · rename_i hin
      cases h
      refine ⟨by omega, fun _ => by omega, fun hn => absurd hin hn⟩
    · rename_i hout
      split at h
      · rename_i hc
        cases h
        refine ⟨by split <;> omega, fun hin => absurd hin hout, fun _ => ⟨hc, ?_, ?_⟩⟩
        · intro hv; simp [hv]
        · intro hv; have : ¬ v < 0 := by omega
          simp [this]
      · cases h
  · intro e h
    split at h
    · cases h
    · rename_i hout
      split at h
      · cases h
      · rename_i hc
        cases h
        exact ⟨rfl, by simpa using hc, hout⟩


/-- **Sine, whatever `sinf` returns**: `n` samples in `0..=255`, or the validation error, or the
range error — the latter only without clamping and only for a level outside `0..=255` -/
theorem sine_calc_spec (p : SineP) (raw : ℕ → Fl) :
    (∀ buf, sineCalc p raw = .ok buf →
      ∃ n rep, validate p.mode p.cfg = .ok (n, rep) ∧ buf.length = n ∧ ∀ v ∈ buf, v ≤ 255) ∧
    (∀ e, sineCalc p raw = .error e →
      validate p.mode p.cfg = .error e ∨
      (e = .err .range ∧ p.clamp = false ∧ ∃ n rep i, validate p.mode p.cfg = .ok (n, rep) ∧ i < n ∧
        ¬ (0 ≤ (raw i).floor.toIntSat (-32768) 32767 ∧ (raw i).floor.toIntSat (-32768) 32767 ≤ 255))) := by
  unfold sineCalc
  cases hv : validate p.mode p.cfg with
  | error e0 =>
    simp only [bind, Except.bind]
    refine ⟨fun buf h => ?_, fun e h => ?_⟩
    · cases h
    · cases h; left; rfl
  | ok nr =>
    obtain ⟨n, rep⟩ := nr
    simp only [bind, Except.bind]
    constructor
    · intro buf h
      obtain ⟨hl, hx⟩ := mapM_ok _ _ _ h
      refine ⟨n, rep, rfl, by simpa using hl, ?_⟩
      intro v hvm
      obtain ⟨i, _, hi⟩ := hx v hvm
      split at hi
      · rename_i u hu
        cases hi
        exact ((range_or_error p.clamp _).1 v hu).1
      · cases hi
    · intro e h
      right
      obtain ⟨i, him, hi⟩ := mapM_err _ _ _ h
      split at hi
      · cases hi
      · rename_i e' he'
        cases hi
        obtain ⟨h1, h2, h3⟩ := (range_or_error p.clamp _).2 e' he'
        subst h1
        exact ⟨rfl, h2, n, rep, i, rfl, List.mem_range.mp him, h3⟩


/-- **Fourier length**: the accepted length is the lcm of the component lengths, at most 65536,
a multiple of every component length -/
theorem fourierLen_spec (lens : List ℕ) (L : ℕ) (h : fourierLen lens = .ok L) :
    L = lens.foldl Nat.lcm 1 ∧ (lens ≠ [] → L ≤ 65536) ∧ ∀ n ∈ lens, n ∣ L := by
  obtain ⟨h1, h2, _, h4⟩ := fourierLen_go lens 1 L h
  exact ⟨h1, h2, h4⟩


/-- in exact (integer) mode every component length divides 40000, hence so does the buffer length;
and with every component at least 2 samples long the buffer has between 2 and 65536 samples -/
theorem fourier_len_range (lens : List ℕ) (L : ℕ) (h : fourierLen lens = .ok L) (hne : lens ≠ [])
    (h2 : ∀ n ∈ lens, 2 ≤ n) :
    2 ≤ L ∧ L ≤ 65536 ∧ ((∀ n ∈ lens, n ∣ 40000) → L ∣ 40000) := by
  obtain ⟨h1, hle, hdvd⟩ := fourierLen_spec lens L h
  have hpos : 0 < L := by
    rw [h1]; exact foldl_lcm_pos lens 1 (by norm_num) (fun n hn => by have := h2 n hn; omega)
  refine ⟨?_, hle hne, ?_⟩
  · obtain ⟨x, hx⟩ := List.exists_mem_of_ne_nil lens hne
    have := Nat.le_of_dvd hpos (hdvd x hx)
    have := h2 x hx
    omega
  · intro hall
    rw [h1]; exact foldl_lcm_dvd lens 1 40000 (one_dvd _) hall


/-- in exact (integer) mode the component lengths divide 40000 -/
example : fourierLen [80, 20, 128] = .ok 640 := by decide
example : fourierLen [6400, 4096] = .error (.err .size) := by decide   -- DESIGN O3: 102400 samples

/-- **Fourier, whatever `sinf` returns**: the planned number of samples, all in `0..=255`; an error
is the plan's error or the range error (only without clamping) -/
theorem fourier_calc_spec (p : FourierP) (raw : ℕ → ℕ → Fl) :
    (∀ buf, fourierCalc p raw = .ok buf →
      ∃ lens len, fourierPlan p = .ok (lens, len) ∧ buf.length = len ∧ ∀ v ∈ buf, v ≤ 255) ∧
    (∀ e, fourierCalc p raw = .error e →
      fourierPlan p = .error e ∨ (e = .err .range ∧ p.clamp = false)) := by
  unfold fourierCalc
  cases hv : fourierPlan p with
  | error e0 =>
    simp only [bind, Except.bind]
    refine ⟨fun buf h => ?_, fun e h => ?_⟩
    · cases h
    · cases h; left; rfl
  | ok pl =>
    obtain ⟨lens, len⟩ := pl
    simp only [bind, Except.bind]
    constructor
    · intro buf h
      obtain ⟨hl, hx⟩ := mapM_ok _ _ _ h
      refine ⟨lens, len, rfl, by simpa using hl, ?_⟩
      intro v hvm
      obtain ⟨i, _, hi⟩ := hx v hvm
      split at hi
      · rename_i u hu
        cases hi
        exact ((range_or_error p.clamp _).1 v hu).1
      · cases hi
    · intro e h
      right
      obtain ⟨i, him, hi⟩ := mapM_err _ _ _ h
      split at hi
      · cases hi
      · rename_i e' he'
        cases hi
        obtain ⟨h1, h2, _⟩ := (range_or_error p.clamp _).2 e' he'
        subst h1
        exact ⟨rfl, h2⟩


/-! ## Wrappers -/

/-- **Wrappers preserve the sampling configuration** -/
theorem wrappers_preserve_cfg (m : Mod) (coef : Array Fl) :
    (radiationPressure m).cfg = m.cfg ∧ (fir m coef).cfg = m.cfg ∧ (boxed m).cfg = m.cfg ∧
      (Cache.new m).cfg = m.cfg ∧ ((Cache.new m).use).1.cfg = m.cfg := by
  refine ⟨rfl, rfl, rfl, rfl, ?_⟩
  unfold Cache.use Cache.new
  simp only []
  split <;> rfl

/-- **Wrappers preserve the length** (and pass the target's error through; `Fir` cannot panic) -/
theorem wrappers_preserve_len (m : Mod) (coef : Array Fl) :
    (∀ src, m.run = .ok src →
      (∃ o, (radiationPressure m).run = .ok o ∧ o.length = src.length ∧ ∀ v ∈ o, v ≤ 255) ∧
      (∃ o, (fir m coef).run = .ok o ∧ o.length = src.length ∧ ∀ v ∈ o, v ≤ 255) ∧
      (boxed m).run = .ok src) ∧
    (∀ e, m.run = .error e →
      (radiationPressure m).run = .error e ∧ (fir m coef).run = .error e ∧ (boxed m).run = .error e) := by
  constructor
  · intro src hsrc
    refine ⟨?_, ?_, ?_⟩
    · refine ⟨src.map rpLevel, ?_, by simp, ?_⟩
      · unfold radiationPressure; simp [hsrc, bind, Except.bind, pure, Except.pure]
      · intro v hv
        obtain ⟨a, _, rfl⟩ := List.mem_map.mp hv
        exact rpLevel_le a
    · unfold fir
      simp only [hsrc, bind, Except.bind]
      by_cases hs : src.toArray.size = 0
      · refine ⟨[], ?_, ?_, by simp⟩
        · rw [hs]; rfl
        · have : src.length = 0 := by simpa using hs
          simp [this]
      · have hpos : 0 < src.toArray.size := Nat.pos_of_ne_zero hs
        have hall : ∀ i ∈ List.range src.toArray.size, firSample src.toArray coef i =
            .ok (match firSample src.toArray coef i with | .ok v => v | .error _ => 0) := by
          intro i _
          obtain ⟨v, hv, _⟩ := firSample_ok src.toArray coef i hpos
          rw [hv]
        have hm := mapM_pure _ _ _ hall
        refine ⟨_, hm, by simp, ?_⟩
        intro v hv
        obtain ⟨i, _, rfl⟩ := List.mem_map.mp hv
        obtain ⟨w, hw, hw2⟩ := firSample_ok src.toArray coef i hpos
        rw [hw]; exact hw2
    · unfold boxed; exact hsrc
  · intro e he
    refine ⟨?_, ?_, ?_⟩
    · unfold radiationPressure; simp [he, bind, Except.bind]
    · unfold fir; simp [he, bind, Except.bind]
    · unfold boxed; exact he

/-- the results of `k` successive uses of a cache -/
def Cache.results : ℕ → Cache → List (R (List ℕ))
  | 0, _ => []
  | k + 1, c => (c.use).2 :: Cache.results k (c.use).1

/-- **Cache returns identical data on every use**: every use of `Cache::new(m)` (of any clone,
the state is shared) returns what the target's single `calc()` returned -/
theorem cache_stable (m : Mod) (k : ℕ) : ∀ r ∈ Cache.results k (Cache.new m), r = m.run := by
  have hfix : ∀ c : Cache, c.m = none → (c.use).1 = c := by
    intro c hc
    unfold Cache.use
    simp only [hc]
    split <;> rfl
  have hres : ∀ (k : ℕ) (c : Cache), c.m = none → ∀ r ∈ Cache.results k c, r = (c.use).2 := by
    intro k
    induction k with
    | zero => intro c _ r hr; simp [Cache.results] at hr
    | succ k ih =>
      intro c hc r hr
      simp only [Cache.results, List.mem_cons] at hr
      rcases hr with rfl | hr
      · rfl
      · rw [hfix c hc] at hr
        exact ih c hc r hr
  cases k with
  | zero => intro r hr; simp [Cache.results] at hr
  | succ k =>
    intro r hr
    simp only [Cache.results, List.mem_cons] at hr
    have h1 : ((Cache.new m).use).2 = m.run := by
      unfold Cache.use Cache.new
      simp only []
      split <;> simp_all
    have h2 : ((Cache.new m).use).1.m = none := by
      unfold Cache.use Cache.new
      simp only []
      split <;> rfl
    have h3 : (((Cache.new m).use).1.use).2 = m.run := by
      unfold Cache.use Cache.new
      simp only []
      cases hm : m.run <;> simp
    rcases hr with rfl | hr
    · exact h1
    · rw [hres k _ h2 r hr, h3]


example : (Cache.results 3 (Cache.new { cfg := some 10, run := .error (.err .nyquist) })) =
    [.error (.err .nyquist), .error (.err .nyquist), .error (.err .nyquist)] := by decide

/-!
## Residue — clauses no theorem above carries

* **Sample values of `Sine`/`Fourier` follow the ideal waveform** (`sine_values_partial`): `sinf`
  is libm.  What is proved is everything around it for *every* `raw` (`sine_calc_spec`,
  `fourier_calc_spec`); the values are compared by the `modgen` stream with the enclosure
  `sineLevels` / `fourierLevels` (fixed-point Taylor evaluation, error budget in
  `Model/SinEnc.lean`, float tolerance `δ` documented at `sineRawBounds`), and by the harness
  oracle with an independent `f64` reference.
* **`validate_exact_f`: the accepted frequency is exact in ℚ** (`fd·n = 40000·k`):
  `exact_f_accepts_checked` gives the `f64` predicate the code evaluates (`is_integer` with its
  `1e-6` window and the truncating `as u64`) and `exact_f_len_range` the range `2 ≤ n ≤ 65536`,
  `k ≥ 1`; turning the predicate into `fd·n = 40000·k` over ℚ (the window never admits an inexact
  product because `f32` frequencies below 16 Hz are too coarse relative to `n ≥ 40000/fd`) is not
  done.  The stream and the oracle (`periodic_exact`, exact integer arithmetic on the bit pattern)
  check it on every accepted float frequency.
* **nearest mode picks the nearer *frequency*** of the two lengths `⌊fs/f⌋`, `⌈fs/f⌉`:
  `nearest_len_range` proves the range and that no input panics; which of the two neighbours is
  returned depends on two more `f32` divisions and subtractions and is compared exactly by the
  stream and stated by the oracle (`nearest_ok`).
* **Square's periods are spread evenly** — false for the code (known finding
  `square:period-drift`): `(n+i)/rep` puts all short periods first.  Counterexample in the model:
-/

/-- 1501 Hz at 4 kHz: 503 periods of 2 samples, then 998 periods of 3 — period 502 starts at
sample 1004 where the ideal square wave starts it at `502·4000/1501 ≈ 1337.8` -/
example : (List.range 1501).map (fun i => (4000 + i) / 1501) =
    List.replicate 503 2 ++ List.replicate 998 3 := by decide +kernel

end Autd3.Modulation
