import Autd3.Lemmas.GroupMain
/-!
# C13 — `group_send` is per-group send and never leaves the geometry altered

Property theorems only (helpers live in `Lemmas/Group*.lean`).  The model is `Model/Group.lean`
(mirror of `autd3/src/controller/group.rs`, the same text as `autd3/src/async/controller/group.rs`,
after the repair of DESIGN §6 F11); it is tied to both Rust copies by the `group` correspondence
stream.  Every statement is for

* **every** number of devices and every prior `enable` mask (`geo`, with `WF geo`: `idx` = position),
* **every** key map `km` and datagram map `dmap` (missing keys, extra keys, failing generators and
  failing `pack`s included, at any position),
* **every** iteration order of the internal `HashMap` (`perm` with `IsOrder perm`),
* **every** link script `fault` (no failure, or the `s`-th `send`/`receive` of the call fails).

`devFrames out.log i` is the sequence of frames device `i` processed during the call.
-/
namespace Autd3.Group

variable {geo : Geometry} {km : Nat → Option Key} {perm : List (Key × Filter) → List (Key × Filter)}

/-- **enable flags restored on every exit** — `Ok`, `UnknownKey`, `UnusedKey`, a generator error at
any position of the iteration, a `pack` error, a link failure at any moment: the geometry after the
call (indices *and* `enable` of every device) is the geometry before it. -/
theorem enable_restored (hwf : WF geo) (hperm : IsOrder perm) (dmap : List (Key × Dg)) (fault : Fault) :
    (groupSend true perm geo km dmap fault).geo = geo :=
  (groupSend_cases hwf km perm hperm dmap fault).1

/-- **key errors, missing datagram**: if some enabled device is mapped to a key without datagram,
nothing is transmitted and the call fails — with `UnknownKey` of such a key, or (only if the order
visits it first) with the generator error of a used key's datagram. -/
theorem key_errors_unknown (hwf : WF geo) (hperm : IsOrder perm) (dmap : List (Key × Dg)) (fault : Fault)
    (hmiss : ∃ k, usedKey geo km k ∧ dmap.lookup k = none) :
    (groupSend true perm geo km dmap fault).log = [] ∧
    ((∃ k, usedKey geo km k ∧ dmap.lookup k = none ∧
        (groupSend true perm geo km dmap fault).result = .error (.unknownKey k)) ∨
     (∃ k dg, usedKey geo km k ∧ dmap.lookup k = some dg ∧ dg.genFail = true ∧
        (groupSend true perm geo km dmap fault).result = .error (.gen dg.id))) := by
  obtain ⟨k0, hu0, hl0⟩ := hmiss
  rcases (groupSend_cases hwf km perm hperm dmap fault).2 with
    ⟨k, hu, hl, hr, hlog⟩ | ⟨k, dg, hu, hl, hf, hr, hlog⟩ | ⟨hall, _⟩ | ⟨hall, _⟩
  · exact ⟨hlog, Or.inl ⟨k, hu, hl, hr⟩⟩
  · exact ⟨hlog, Or.inr ⟨k, dg, hu, hl, hf, hr⟩⟩
  · obtain ⟨dg, h, _⟩ := hall k0 hu0; rw [hl0] at h; cases h
  · obtain ⟨dg, h, _⟩ := hall k0 hu0; rw [hl0] at h; cases h

/-- **key errors, superfluous datagram**: if every used key has a datagram whose generator can be
built, and the map holds keys no enabled device is mapped to, the call fails with `UnusedKey` of
exactly those keys and nothing is transmitted. -/
theorem key_errors_unused (hwf : WF geo) (hperm : IsOrder perm) (dmap : List (Key × Dg)) (fault : Fault)
    (hall : ∀ k, usedKey geo km k → ∃ dg, dmap.lookup k = some dg ∧ dg.genFail = false)
    (hextra : extraKeys geo km dmap ≠ []) :
    (groupSend true perm geo km dmap fault).result = .error (.unusedKey (extraKeys geo km dmap)) ∧
    (groupSend true perm geo km dmap fault).log = [] := by
  rcases (groupSend_cases hwf km perm hperm dmap fault).2 with
    ⟨k, hu, hl, _⟩ | ⟨k, dg, hu, hl, hf, _⟩ | ⟨_, _, hr, hlog⟩ | ⟨_, hno, _⟩
  · obtain ⟨dg, h, _⟩ := hall k hu; rw [hl] at h; cases h
  · obtain ⟨dg', h, hf'⟩ := hall k hu
    rw [hl] at h; cases h; rw [hf] at hf'; cases hf'
  · exact ⟨hr, hlog⟩
  · exact absurd hno hextra

/-- **key errors are never spurious**: `UnknownKey k` is returned only for a key `k` that an
enabled device is mapped to and that has no datagram; `UnusedKey ks` only when every used key has a
datagram and `ks` is exactly the non-empty list of keys nobody is mapped to; a generator error only
for the failing datagram of a used key. -/
theorem key_errors_sound (hwf : WF geo) (hperm : IsOrder perm) (dmap : List (Key × Dg)) (fault : Fault) :
    (∀ k, (groupSend true perm geo km dmap fault).result = .error (.unknownKey k) →
      usedKey geo km k ∧ dmap.lookup k = none) ∧
    (∀ ks, (groupSend true perm geo km dmap fault).result = .error (.unusedKey ks) →
      ks = extraKeys geo km dmap ∧ ks ≠ [] ∧
      ∀ k, usedKey geo km k → ∃ dg, dmap.lookup k = some dg ∧ dg.genFail = false) ∧
    (∀ id, (groupSend true perm geo km dmap fault).result = .error (.gen id) →
      ∃ k dg, usedKey geo km k ∧ dmap.lookup k = some dg ∧ dg.genFail = true ∧ dg.id = id) := by
  -- errors out of `send_impl` are link errors or `pack` errors of the generated operations
  have hsend : ∀ e, (sendImpl geo ((devices geo).map (finalOp geo km dmap)) fault).1 = .error e →
      e = .link ∨ e = .fuel ∨ ∃ id, e = .pack id := by
    intro e he
    rcases sendLoop_err geo _ _ _ _ _ e he with h | h | ⟨d, _, op, hop, herr⟩
    · exact Or.inl h
    · exact Or.inr (Or.inl h)
    · refine Or.inr (Or.inr ?_)
      unfold finalOp at hop
      cases hk : km d.idx with
      | none => rw [hk] at hop; cases hop
      | some k =>
        simp only [hk] at hop
        cases hl : dmap.lookup k with
        | none => rw [hl] at hop; cases hop
        | some dg =>
          simp only [hl, Option.map_some, Option.some.injEq] at hop
          rw [← hop] at herr
          have herr' : dg.packErr = some e := herr
          exact ⟨dg.id, packErr_eq dg e herr'⟩
  rcases (groupSend_cases hwf km perm hperm dmap fault).2 with
    ⟨k, hu, hl, hr, _⟩ | ⟨k, dg, hu, hl, hf, hr, _⟩ | ⟨hall, hne, hr, _⟩ | ⟨_, _, hr, _⟩
  · refine ⟨?_, ?_, ?_⟩ <;> intro x hx <;> rw [hr] at hx
    · cases hx; exact ⟨hu, hl⟩
    · cases hx
    · cases hx
  · refine ⟨?_, ?_, ?_⟩ <;> intro x hx <;> rw [hr] at hx
    · cases hx
    · cases hx
    · cases hx; exact ⟨k, dg, hu, hl, hf, rfl⟩
  · refine ⟨?_, ?_, ?_⟩ <;> intro x hx <;> rw [hr] at hx
    · cases hx
    · cases hx; exact ⟨rfl, hne, hall⟩
    · cases hx
  · refine ⟨?_, ?_, ?_⟩ <;> intro x hx <;> rw [hr] at hx
    · rcases hsend _ hx with h | h | ⟨_, h⟩ <;> cases h
    · rcases hsend _ hx with h | h | ⟨_, h⟩ <;> cases h
    · rcases hsend _ hx with h | h | ⟨_, h⟩ <;> cases h

/-- **devices mapped to no key, and disabled devices, are untouched** — on every exit they process
no frame at all. -/
theorem unmapped_untouched (hwf : WF geo) (hperm : IsOrder perm) (dmap : List (Key × Dg)) (fault : Fault)
    (d : Device) (hd : d ∈ geo) (hun : d.enable = false ∨ km d.idx = none) :
    devFrames (groupSend true perm geo km dmap fault).log d.idx = [] := by
  rcases (groupSend_cases hwf km perm hperm dmap fault).2 with
    ⟨_, _, _, _, hlog⟩ | ⟨_, _, _, _, _, _, hlog⟩ | ⟨_, _, _, hlog⟩ | ⟨_, _, _, hlog⟩
  · rw [hlog]; rfl
  · rw [hlog]; rfl
  · rw [hlog]; rfl
  · rw [hlog]
    have hpre := (sendImpl_dev hwf (finalOp geo km dmap) fault (finalOp_tagged _ _ _ _) d.idx).1
    have hnil : proj d.idx (finalOp geo km dmap) (devices geo) = [] := by
      by_cases he : d.enable = true
      · have hk : km d.idx = none := by
          rcases hun with h | h
          · rw [he] at h; cases h
          · exact h
        rw [proj_of_mem _ _ (devices_nodup hwf.nodup) d (mem_devices.mpr ⟨hd, he⟩)]
        simp [finalOp, hk, opFrames]
      · apply proj_nil_of_not_mem
        intro d' hd' hidx
        have := eq_of_idx_eq geo hwf.nodup d' (mem_devices.mp hd').1 d hd hidx
        rw [this] at hd'
        exact he (mem_devices.mp hd').2
    rw [hnil] at hpre
    exact List.prefix_nil.mp hpre

/-- **per-group send, every exit**: an enabled device mapped to key `k` whose datagram `dg` packs
without error processes, whatever the other groups, the order and the exit, only a *prefix* of the
frames it would process if `dg` were sent (plain `send`, healthy link) to the geometry in which
exactly its group is enabled. -/
theorem group_prefix (hwf : WF geo) (hperm : IsOrder perm) (dmap : List (Key × Dg)) (fault : Fault)
    (d : Device) (hd : d ∈ geo) (he : d.enable = true) (k : Key) (hk : km d.idx = some k)
    (dg : Dg) (hl : dmap.lookup k = some dg) (hpe : dg.packErr = none) :
    devFrames (groupSend true perm geo km dmap fault).log d.idx <+:
      devFrames (send (withMask geo (groupMask geo km k)) dg .none).2 d.idx := by
  rcases (groupSend_cases hwf km perm hperm dmap fault).2 with
    ⟨_, _, _, _, hlog⟩ | ⟨_, _, _, _, _, _, hlog⟩ | ⟨_, _, _, hlog⟩ | ⟨hall, _, _, hlog⟩
  · rw [hlog]; exact List.nil_prefix
  · rw [hlog]; exact List.nil_prefix
  · rw [hlog]; exact List.nil_prefix
  · have hdev : d ∈ devices geo := mem_devices.mpr ⟨hd, he⟩
    obtain ⟨dg', hl', hgf⟩ := hall k ⟨d, hd, he, hk⟩
    rw [hl] at hl'; cases hl'
    have hdK : d ∈ devices (groupGeo geo km k) := by
      apply mem_devices.mpr
      refine ⟨?_, he⟩
      unfold groupGeo
      apply List.mem_map.mpr
      exact ⟨d, hd, by cases d; simp_all⟩
    have hndK : ((groupGeo geo km k).map (·.idx)).Nodup := by rw [groupGeo_map_idx]; exact hwf.nodup
    have hsolo := (send_spec hndK dg hgf hpe).2 d hdK
    rw [withMask_groupMask, hsolo, groupGeo_map_enable, hlog]
    have hpre := (sendImpl_dev hwf (finalOp geo km dmap) fault (finalOp_tagged _ _ _ _) d.idx).1
    rw [proj_of_mem _ _ (devices_nodup hwf.nodup) d hdev] at hpre
    simpa [finalOp, hk, hl, opFrames, mkGen] using hpre

/-- **per-group send, success**: when the call returns `Ok`, every enabled device mapped to a key
has processed exactly the frames — hence reads back exactly the state (`devObs`) — of a plain
`send` of its key's datagram to the geometry in which its group alone is enabled. -/
theorem group_equiv (hwf : WF geo) (hperm : IsOrder perm) (dmap : List (Key × Dg)) (fault : Fault)
    (hok : (groupSend true perm geo km dmap fault).result = .ok ())
    (d : Device) (hd : d ∈ geo) (he : d.enable = true) (k : Key) (hk : km d.idx = some k)
    (dg : Dg) (hl : dmap.lookup k = some dg) :
    (send (withMask geo (groupMask geo km k)) dg .none).1 = .ok () ∧
    devFrames (groupSend true perm geo km dmap fault).log d.idx =
      devFrames (send (withMask geo (groupMask geo km k)) dg .none).2 d.idx ∧
    devObs (groupSend true perm geo km dmap fault).log d.idx =
      devObs (send (withMask geo (groupMask geo km k)) dg .none).2 d.idx := by
  rcases (groupSend_cases hwf km perm hperm dmap fault).2 with
    ⟨_, _, _, hr, _⟩ | ⟨_, _, _, _, _, hr, _⟩ | ⟨_, _, hr, _⟩ | ⟨hall, _, hr, hlog⟩
  · rw [hr] at hok; cases hok
  · rw [hr] at hok; cases hok
  · rw [hr] at hok; cases hok
  · have hdev : d ∈ devices geo := mem_devices.mpr ⟨hd, he⟩
    obtain ⟨dg', hl', hgf⟩ := hall k ⟨d, hd, he, hk⟩
    rw [hl] at hl'; cases hl'
    rw [hr] at hok
    -- `Ok` ⇒ no operation had a pending pack error, in particular not `d`'s
    have hpe : dg.packErr = none := by
      have := sendLoop_ok_err geo _ _ _ _ _ hok d hdev ((mkGen geo km k dg).generate d)
        (by simp [finalOp, hk, hl])
      exact this
    have hdK : d ∈ devices (groupGeo geo km k) := by
      apply mem_devices.mpr
      refine ⟨?_, he⟩
      unfold groupGeo
      apply List.mem_map.mpr
      exact ⟨d, hd, by cases d; simp_all⟩
    have hndK : ((groupGeo geo km k).map (·.idx)).Nodup := by rw [groupGeo_map_idx]; exact hwf.nodup
    have hsolo := send_spec hndK dg hgf hpe
    have heq : devFrames (groupSend true perm geo km dmap fault).log d.idx =
        devFrames (send (withMask geo (groupMask geo km k)) dg .none).2 d.idx := by
      rw [withMask_groupMask, hsolo.2 d hdK, groupGeo_map_enable, hlog]
      have hfull := (sendImpl_dev hwf (finalOp geo km dmap) fault (finalOp_tagged _ _ _ _) d.idx).2 hok
      rw [proj_of_mem _ _ (devices_nodup hwf.nodup) d hdev] at hfull
      simpa [finalOp, hk, hl, opFrames, mkGen] using hfull
    refine ⟨by rw [withMask_groupMask]; exact hsolo.1, heq, ?_⟩
    unfold devObs; rw [heq]

/-- **…to it alone**: up to the record of which devices a geometry-wide generator saw
(`Frame.payload` drops it), those frames are the ones of sending the datagram to the geometry in
which that device *alone* is enabled. -/
theorem group_equiv_alone (hwf : WF geo) (hperm : IsOrder perm) (dmap : List (Key × Dg)) (fault : Fault)
    (hok : (groupSend true perm geo km dmap fault).result = .ok ())
    (d : Device) (hd : d ∈ geo) (he : d.enable = true) (k : Key) (hk : km d.idx = some k)
    (dg : Dg) (hl : dmap.lookup k = some dg) :
    (devFrames (groupSend true perm geo km dmap fault).log d.idx).map Frame.payload =
      (devFrames (send (alone geo d.idx) dg .none).2 d.idx).map Frame.payload := by
  obtain ⟨hsok, heq, _⟩ := group_equiv hwf hperm dmap fault hok d hd he k hk dg hl
  rw [heq]
  -- both plain sends succeed, so `dg` neither fails to generate nor to pack
  have hgf : dg.genFail = false := by
    cases h : dg.genFail with
    | false => rfl
    | true => simp [send, Dg.generator, h] at hsok
  have hpe : dg.packErr = none := by
    have hgen : dg.generator (withMask geo (groupMask geo km k)) = .ok
        { dg := dg, seen := dg.seenOf ((withMask geo (groupMask geo km k)).map (·.enable)) } := by
      unfold Dg.generator
      rw [hgf]; rfl
    unfold send at hsok
    rw [hgen] at hsok
    simp only [sendImpl] at hsok
    have hdK : d ∈ devices (withMask geo (groupMask geo km k)) := by
      rw [withMask_groupMask]
      apply mem_devices.mpr
      refine ⟨?_, he⟩
      unfold groupGeo
      apply List.mem_map.mpr
      exact ⟨d, hd, by cases d; simp_all⟩
    exact sendLoop_ok_err _ _ _ _ _ _ hsok d hdK _ rfl
  have hdK : d ∈ devices (groupGeo geo km k) := by
    apply mem_devices.mpr
    refine ⟨?_, he⟩
    unfold groupGeo
    apply List.mem_map.mpr
    exact ⟨d, hd, by cases d; simp_all⟩
  have hdA : d ∈ devices (alone geo d.idx) := by
    apply mem_devices.mpr
    refine ⟨?_, he⟩
    unfold alone
    apply List.mem_map.mpr
    exact ⟨d, hd, by cases d; simp_all⟩
  have hndK : ((groupGeo geo km k).map (·.idx)).Nodup := by rw [groupGeo_map_idx]; exact hwf.nodup
  have hndA : ((alone geo d.idx).map (·.idx)).Nodup := by
    have : (alone geo d.idx).map (·.idx) = geo.map (·.idx) := by
      simp [alone, List.map_map, Function.comp_def]
    rw [this]; exact hwf.nodup
  rw [withMask_groupMask, (send_spec hndK dg hgf hpe).2 d hdK, (send_spec hndA dg hgf hpe).2 d hdA]
  exact generate_payload _ _ d rfl

/-- **the call succeeds when keys and datagrams match**: every used key has a datagram that
generates and packs, no key is superfluous, the link is healthy ⇒ `Ok` (so `group_equiv` is not
vacuous, and the loop fuel of the model is never the reason for an answer). -/
theorem ok_when_matching (hwf : WF geo) (hperm : IsOrder perm) (dmap : List (Key × Dg))
    (hall : ∀ k, usedKey geo km k → ∃ dg, dmap.lookup k = some dg ∧ dg.genFail = false ∧ dg.packErr = none)
    (hextra : extraKeys geo km dmap = []) :
    (groupSend true perm geo km dmap .none).result = .ok () := by
  rcases (groupSend_cases hwf km perm hperm dmap .none).2 with
    ⟨k, hu, hl, _⟩ | ⟨k, dg, hu, hl, hf, _⟩ | ⟨_, hne, _⟩ | ⟨_, _, hr, _⟩
  · obtain ⟨dg, h, _⟩ := hall k hu; rw [hl] at h; cases h
  · obtain ⟨dg', h, hf', _⟩ := hall k hu
    rw [hl] at h; cases h; rw [hf] at hf'; cases hf'
  · exact absurd hextra hne
  · rw [hr]
    unfold sendImpl
    rw [fuelFor_map]
    apply sendLoop_ok
    · intro d hd op hop
      unfold finalOp at hop
      cases hk : km d.idx with
      | none => rw [hk] at hop; cases hop
      | some k =>
        simp only [hk] at hop
        obtain ⟨dg, hl, _, hpe⟩ := hall k ⟨d, (mem_devices.mp hd).1, (mem_devices.mp hd).2, hk⟩
        simp only [hl, Option.map_some, Option.some.injEq] at hop
        rw [← hop]; exact hpe
    · omega

/-! ## non-vacuity: concrete instances of the hypotheses, and the defect the repair removes -/

section Examples

/-- four devices, device 2 disabled beforehand -/
def exGeo : Geometry := mkGeometry [true, true, false, true]
/-- device 0 ↦ key 5, device 1 ↦ key 3, device 2 (disabled) ↦ key 9, device 3 ↦ key 5 -/
def exKm : Nat → Option Key := fun i => [some 5, some 3, some 9, some 5][i]?.join
/-- a gain for key 5, a three-frame modulation (900 samples) for key 3 -/
def exMap : List (Key × Dg) :=
  [(3, { kind := .mod, id := 34, len := 900, genFail := false }),
   (5, { kind := .gain, id := 17, len := 0, genFail := false })]

example : WF exGeo := by decide
example : IsOrder List.reverse := fun l => List.reverse_perm l
example : IsOrder id := fun l => List.Perm.refl l
example : usedKey exGeo exKm 5 := ⟨⟨0, true⟩, by decide, rfl, rfl⟩
example : extraKeys exGeo exKm exMap = [] := by decide
-- both orders succeed, transmit three rounds, and give device 1 its three modulation frames
example : (groupSend true id exGeo exKm exMap .none).result = .ok () := by decide
example : ((groupSend true List.reverse exGeo exKm exMap .none).log.map List.length) = [3, 1, 1] := by decide
example : (devFrames (groupSend true List.reverse exGeo exKm exMap .none).log 1).map (·.idx) = [0, 1, 2] := by decide
-- a link failure at the second send: device 1 has a proper prefix, the flags are intact
example : (groupSend true id exGeo exKm exMap (.send 1)).result = .error .link ∧
    (devFrames (groupSend true id exGeo exKm exMap (.send 1)).log 1).map (·.idx) = [0] ∧
    (groupSend true id exGeo exKm exMap (.send 1)).geo = exGeo := by decide
-- key 3 without datagram: `UnknownKey 3` in either order
example : (groupSend true id exGeo exKm (exMap.drop 1) .none).result = .error (.unknownKey 3) := by decide
-- a datagram for key 9, to which only the disabled device is mapped, is superfluous
example : (groupSend true id exGeo exKm (exMap ++ [(9, { kind := .gain, id := 1, len := 0, genFail := false })]) .none).result
    = .error (.unusedKey [9]) := by decide

/-- DESIGN §6 **F11** in the model of the code *before* the repair (`restoreOnErr = false`): three
enabled devices with keys 0,1,2, no datagram for key 1 — `UnknownKey 1`, and the flags are left
`[false, true, false]`. With the repair (`true`) they are `[true, true, true]`, as
`enable_restored` says. -/
example :
    let geo3 := mkGeometry [true, true, true]
    let km3 : Nat → Option Key := fun i => some i
    let m : List (Key × Dg) := [(0, { kind := .gain, id := 17, len := 0, genFail := false }),
                               (2, { kind := .gain, id := 67, len := 0, genFail := false })]
    (groupSend false id geo3 km3 m .none).result = .error (.unknownKey 1) ∧
    (groupSend false id geo3 km3 m .none).geo.map (·.enable) = [false, true, false] ∧
    (groupSend true id geo3 km3 m .none).geo.map (·.enable) = [true, true, true] := by decide

/-- the same for a generator error (second key visited) -/
example :
    let geo2 := mkGeometry [true, true]
    let km2 : Nat → Option Key := fun i => some i
    let m : List (Key × Dg) := [(0, { kind := .gain, id := 17, len := 0, genFail := false }),
                               (1, { kind := .mod, id := 34, len := 10, genFail := true })]
    (groupSend false id geo2 km2 m .none).result = .error (.gen 34) ∧
    (groupSend false id geo2 km2 m .none).geo.map (·.enable) = [false, true] ∧
    (groupSend true id geo2 km2 m .none).geo.map (·.enable) = [true, true] := by decide

end Examples

/-! ## `datagram_option` (timeout / parallel threshold) aggregation — `Group.aggOptions`, used by the
`group` driver to answer the `opt` line and to resolve delayed / missing acknowledgements -/

private theorem foldl_bounds (l : List DgOpt) (a : DgOpt) :
    a.timeout ≤ (l.foldl DgOpt.agg a).timeout ∧ (l.foldl DgOpt.agg a).parThr ≤ a.parThr ∧
    ∀ d ∈ l, d.timeout ≤ (l.foldl DgOpt.agg a).timeout ∧ (l.foldl DgOpt.agg a).parThr ≤ d.parThr := by
  induction l generalizing a with
  | nil => simp
  | cons x l ih =>
    obtain ⟨h1, h2, h3⟩ := ih (DgOpt.agg a x)
    have e1 : (DgOpt.agg a x).timeout = max a.timeout x.timeout := rfl
    have e2 : (DgOpt.agg a x).parThr = min a.parThr x.parThr := rfl
    rw [e1] at h1
    rw [e2] at h2
    simp only [List.foldl, List.mem_cons]
    refine ⟨by omega, by omega, ?_⟩
    intro d hd
    rcases hd with rfl | hd
    · exact ⟨by omega, by omega⟩
    · exact h3 d hd

/-- **`datagram_option` aggregation**: once the datagrams `l` were consumed, the timeout `send_impl`
receives is at least every datagram's timeout and the parallel threshold at most every datagram's -/
theorem aggOptions_bounds (l : List DgOpt) (d : DgOpt) (h : d ∈ l) :
    d.timeout ≤ (aggOptions l).timeout ∧ (aggOptions l).parThr ≤ d.parThr :=
  (foldl_bounds l DgOpt.zero).2.2 d h

/-- …and neither depends on the iteration order of the internal `HashMap` -/
theorem aggOptions_perm {l₁ l₂ : List DgOpt} (h : l₁.Perm l₂) : aggOptions l₁ = aggOptions l₂ := by
  unfold aggOptions
  generalize DgOpt.zero = a
  induction h generalizing a with
  | nil => rfl
  | cons x _ ih => exact ih _
  | swap x y l =>
    simp only [List.foldl]
    congr 1
    simp [DgOpt.agg, Nat.max_assoc, Nat.min_assoc, Nat.max_comm x.timeout, Nat.min_comm x.parThr]
  | trans _ _ ih1 ih2 => exact (ih1 a).trans (ih2 a)

/-- without a sender timeout, acknowledgements are not waited for (timeout 0) exactly when **every**
datagram of the call asks for that -/
theorem effTimeout_zero_iff (l : List DgOpt) :
    effTimeout none (aggOptions l) = 0 ↔ ∀ d ∈ l, d.timeout = 0 := by
  constructor
  · intro h d hd
    have := (aggOptions_bounds l d hd).1
    simp [effTimeout] at h; omega
  · intro h
    simp only [effTimeout, Option.getD_none, aggOptions]
    have : ∀ a : DgOpt, a.timeout = 0 → (l.foldl DgOpt.agg a).timeout = 0 := by
      induction l with
      | nil => intro a ha; exact ha
      | cons x l ih =>
        intro a ha
        simp only [List.foldl]
        apply ih (fun d hd => h d (List.mem_cons_of_mem _ hd))
        simp [DgOpt.agg, ha, h x (List.mem_cons_self ..)]
    exact this _ rfl

example : aggOptions [⟨0, usizeMax⟩, ⟨200, 4⟩, ⟨20, 7⟩] = ⟨200, 4⟩ := by decide
example : effTimeout none (aggOptions [⟨0, 3⟩, ⟨0, 2⟩]) = 0 ∧ effTimeout (some 5) (aggOptions [⟨0, 3⟩]) = 5 := by decide
example : ParMode.auto.isParallel 3 2 = true ∧ ParMode.auto.isParallel 2 2 = false ∧ ParMode.off.isParallel 9 0 = false := by decide

end Autd3.Group
