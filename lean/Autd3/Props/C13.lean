import Autd3.Lemmas.GroupHist2
/-!
# C13 — `group_send` is per-group send and never leaves the geometry altered

Property theorems only (helpers live in `Lemmas/Group*.lean`).  The model is `Model/Group.lean`
(mirror of `autd3/src/controller/group.rs`, the same text as `autd3/src/async/controller/group.rs`,
after the repair of DESIGN §6 F11); it is tied to both Rust copies by the `group` correspondence
stream.  Every statement is for

* **every** number of devices and every prior `enable` mask (`geo`, with `WF geo`: `idx` = position),
* **every** key map `km` and datagram map `dmap` (missing keys, extra keys, failing generators and
  failing `pack`s included, at any position),
* **every** iteration order of the internal `HashMap` (`perm` with `IsOrder perm`),
* **every** link script `fault` (no failure, or the `s`-th `send`/`receive` of the call fails).

`devFrames out.log i` is the sequence of frames device `i` processed during the call.
-/
namespace Autd3.Group

variable {geo : Geometry} {km : Nat → Option Key} {perm : List (Key × Filter) → List (Key × Filter)}

/-- **enable flags restored on every exit** — `Ok`, `UnknownKey`, `UnusedKey`, a generator error at
any position of the iteration, a `pack` error, a link failure at any moment: the geometry after the
call (indices *and* `enable` of every device) is the geometry before it. -/
theorem enable_restored (hwf : WF geo) (hperm : IsOrder perm) (dmap : List (Key × Dg)) (fault : Fault) :
    (groupSend true perm geo km dmap fault).geo = geo :=
  (groupSend_cases hwf km perm hperm dmap fault).1

/-- **key errors, missing datagram**: if some enabled device is mapped to a key without datagram,
nothing is transmitted and the call fails — with `UnknownKey` of such a key, or (only if the order
visits it first) with the generator error of a used key's datagram. -/
theorem key_errors_unknown (hwf : WF geo) (hperm : IsOrder perm) (dmap : List (Key × Dg)) (fault : Fault)
    (hmiss : ∃ k, usedKey geo km k ∧ dmap.lookup k = none) :
    (groupSend true perm geo km dmap fault).log = [] ∧
    ((∃ k, usedKey geo km k ∧ dmap.lookup k = none ∧
        (groupSend true perm geo km dmap fault).result = .error (.unknownKey k)) ∨
     (∃ k dg, usedKey geo km k ∧ dmap.lookup k = some dg ∧ dg.genFail = true ∧
        (groupSend true perm geo km dmap fault).result = .error (.gen dg.id))) := by
  obtain ⟨k0, hu0, hl0⟩ := hmiss
  rcases (groupSend_cases hwf km perm hperm dmap fault).2 with
    ⟨k, hu, hl, hr, hlog⟩ | ⟨k, dg, hu, hl, hf, hr, hlog⟩ | ⟨hall, _⟩ | ⟨hall, _⟩
  · exact ⟨hlog, Or.inl ⟨k, hu, hl, hr⟩⟩
  · exact ⟨hlog, Or.inr ⟨k, dg, hu, hl, hf, hr⟩⟩
  · obtain ⟨dg, h, _⟩ := hall k0 hu0; rw [hl0] at h; cases h
  · obtain ⟨dg, h, _⟩ := hall k0 hu0; rw [hl0] at h; cases h

/-- **key errors, superfluous datagram**: if every used key has a datagram whose generator can be
built, and the map holds keys no enabled device is mapped to, the call fails with `UnusedKey` of
exactly those keys and nothing is transmitted. -/
theorem key_errors_unused (hwf : WF geo) (hperm : IsOrder perm) (dmap : List (Key × Dg)) (fault : Fault)
    (hall : ∀ k, usedKey geo km k → ∃ dg, dmap.lookup k = some dg ∧ dg.genFail = false)
    (hextra : extraKeys geo km dmap ≠ []) :
    (groupSend true perm geo km dmap fault).result = .error (.unusedKey (extraKeys geo km dmap)) ∧
    (groupSend true perm geo km dmap fault).log = [] := by
  rcases (groupSend_cases hwf km perm hperm dmap fault).2 with
    ⟨k, hu, hl, _⟩ | ⟨k, dg, hu, hl, hf, _⟩ | ⟨_, _, hr, hlog⟩ | ⟨_, hno, _⟩
  · obtain ⟨dg, h, _⟩ := hall k hu; rw [hl] at h; cases h
  · obtain ⟨dg', h, hf'⟩ := hall k hu
    rw [hl] at h; cases h; rw [hf] at hf'; cases hf'
  · exact ⟨hr, hlog⟩
  · exact absurd hno hextra

/-- **key errors are never spurious**: `UnknownKey k` is returned only for a key `k` that an
enabled device is mapped to and that has no datagram; `UnusedKey ks` only when every used key has a
datagram and `ks` is exactly the non-empty list of keys nobody is mapped to; a generator error only
for the failing datagram of a used key. -/
theorem key_errors_sound (hwf : WF geo) (hperm : IsOrder perm) (dmap : List (Key × Dg)) (fault : Fault) :
    (∀ k, (groupSend true perm geo km dmap fault).result = .error (.unknownKey k) →
      usedKey geo km k ∧ dmap.lookup k = none) ∧
    (∀ ks, (groupSend true perm geo km dmap fault).result = .error (.unusedKey ks) →
      ks = extraKeys geo km dmap ∧ ks ≠ [] ∧
      ∀ k, usedKey geo km k → ∃ dg, dmap.lookup k = some dg ∧ dg.genFail = false) ∧
    (∀ id, (groupSend true perm geo km dmap fault).result = .error (.gen id) →
      ∃ k dg, usedKey geo km k ∧ dmap.lookup k = some dg ∧ dg.genFail = true ∧ dg.id = id) := by
  -- errors out of `send_impl` are link errors or `pack` errors of the generated operations
  have hsend : ∀ e, (sendImpl geo ((devices geo).map (finalOp geo km dmap)) fault).1 = .error e →
      e = .link ∨ e = .fuel ∨ ∃ id, e = .pack id := by
    intro e he
    rcases sendLoop_err geo _ _ _ _ _ e he with h | h | ⟨d, _, op, hop, herr⟩
    · exact Or.inl h
    · exact Or.inr (Or.inl h)
    · refine Or.inr (Or.inr ?_)
      unfold finalOp at hop
      cases hk : km d.idx with
      | none => rw [hk] at hop; cases hop
      | some k =>
        simp only [hk] at hop
        cases hl : dmap.lookup k with
        | none => rw [hl] at hop; cases hop
        | some dg =>
          simp only [hl, Option.map_some, Option.some.injEq] at hop
          rw [← hop] at herr
          have herr' : dg.packErr = some e := herr
          exact ⟨dg.id, packErr_eq dg e herr'⟩
  rcases (groupSend_cases hwf km perm hperm dmap fault).2 with
    ⟨k, hu, hl, hr, _⟩ | ⟨k, dg, hu, hl, hf, hr, _⟩ | ⟨hall, hne, hr, _⟩ | ⟨_, _, hr, _⟩
  · refine ⟨?_, ?_, ?_⟩ <;> intro x hx <;> rw [hr] at hx
    · cases hx; exact ⟨hu, hl⟩
    · cases hx
    · cases hx
  · refine ⟨?_, ?_, ?_⟩ <;> intro x hx <;> rw [hr] at hx
    · cases hx
    · cases hx
    · cases hx; exact ⟨k, dg, hu, hl, hf, rfl⟩
  · refine ⟨?_, ?_, ?_⟩ <;> intro x hx <;> rw [hr] at hx
    · cases hx
    · cases hx; exact ⟨rfl, hne, hall⟩
    · cases hx
  · refine ⟨?_, ?_, ?_⟩ <;> intro x hx <;> rw [hr] at hx
    · rcases hsend _ hx with h | h | ⟨_, h⟩ <;> cases h
    · rcases hsend _ hx with h | h | ⟨_, h⟩ <;> cases h
    · rcases hsend _ hx with h | h | ⟨_, h⟩ <;> cases h

/-- **devices mapped to no key, and disabled devices, are untouched** — on every exit they process
no frame at all. -/
theorem unmapped_untouched (hwf : WF geo) (hperm : IsOrder perm) (dmap : List (Key × Dg)) (fault : Fault)
    (d : Device) (hd : d ∈ geo) (hun : d.enable = false ∨ km d.idx = none) :
    devFrames (groupSend true perm geo km dmap fault).log d.idx = [] := by
  rcases (groupSend_cases hwf km perm hperm dmap fault).2 with
    ⟨_, _, _, _, hlog⟩ | ⟨_, _, _, _, _, _, hlog⟩ | ⟨_, _, _, hlog⟩ | ⟨_, _, _, hlog⟩
  · rw [hlog]; rfl
  · rw [hlog]; rfl
  · rw [hlog]; rfl
  · rw [hlog]
    have hpre := (sendImpl_dev hwf (finalOp geo km dmap) fault (finalOp_tagged _ _ _ _) d.idx).1
    have hnil : proj d.idx (finalOp geo km dmap) (devices geo) = [] := by
      by_cases he : d.enable = true
      · have hk : km d.idx = none := by
          rcases hun with h | h
          · rw [he] at h; cases h
          · exact h
        rw [proj_of_mem _ _ (devices_nodup hwf.nodup) d (mem_devices.mpr ⟨hd, he⟩)]
        simp [finalOp, hk, opFrames]
      · apply proj_nil_of_not_mem
        intro d' hd' hidx
        have := eq_of_idx_eq geo hwf.nodup d' (mem_devices.mp hd').1 d hd hidx
        rw [this] at hd'
        exact he (mem_devices.mp hd').2
    rw [hnil] at hpre
    exact List.prefix_nil.mp hpre

/-- **per-group send, every exit**: an enabled device mapped to key `k` whose datagram `dg` packs
without error processes, whatever the other groups, the order and the exit, only a *prefix* of the
frames it would process if `dg` were sent (plain `send`, healthy link) to the geometry in which
exactly its group is enabled. -/
theorem group_prefix (hwf : WF geo) (hperm : IsOrder perm) (dmap : List (Key × Dg)) (fault : Fault)
    (d : Device) (hd : d ∈ geo) (he : d.enable = true) (k : Key) (hk : km d.idx = some k)
    (dg : Dg) (hl : dmap.lookup k = some dg) (hpe : dg.packErr = none) :
    devFrames (groupSend true perm geo km dmap fault).log d.idx <+:
      devFrames (send (withMask geo (groupMask geo km k)) dg .none).2 d.idx := by
  rcases (groupSend_cases hwf km perm hperm dmap fault).2 with
    ⟨_, _, _, _, hlog⟩ | ⟨_, _, _, _, _, _, hlog⟩ | ⟨_, _, _, hlog⟩ | ⟨hall, _, _, hlog⟩
  · rw [hlog]; exact List.nil_prefix
  · rw [hlog]; exact List.nil_prefix
  · rw [hlog]; exact List.nil_prefix
  · have hdev : d ∈ devices geo := mem_devices.mpr ⟨hd, he⟩
    obtain ⟨dg', hl', hgf⟩ := hall k ⟨d, hd, he, hk⟩
    rw [hl] at hl'; cases hl'
    have hdK : d ∈ devices (groupGeo geo km k) := by
      apply mem_devices.mpr
      refine ⟨?_, he⟩
      unfold groupGeo
      apply List.mem_map.mpr
      exact ⟨d, hd, by cases d; simp_all⟩
    have hndK : ((groupGeo geo km k).map (·.idx)).Nodup := by rw [groupGeo_map_idx]; exact hwf.nodup
    have hsolo := (send_spec hndK dg hgf hpe).2 d hdK
    rw [withMask_groupMask, hsolo, groupGeo_map_enable, hlog]
    have hpre := (sendImpl_dev hwf (finalOp geo km dmap) fault (finalOp_tagged _ _ _ _) d.idx).1
    rw [proj_of_mem _ _ (devices_nodup hwf.nodup) d hdev] at hpre
    simpa [finalOp, hk, hl, opFrames, mkGen] using hpre

/-- **per-group send, success**: when the call returns `Ok`, every enabled device mapped to a key
has processed exactly the frames — hence reads back exactly the state (`devObs`) — of a plain
`send` of its key's datagram to the geometry in which its group alone is enabled. -/
theorem group_equiv (hwf : WF geo) (hperm : IsOrder perm) (dmap : List (Key × Dg)) (fault : Fault)
    (hok : (groupSend true perm geo km dmap fault).result = .ok ())
    (d : Device) (hd : d ∈ geo) (he : d.enable = true) (k : Key) (hk : km d.idx = some k)
    (dg : Dg) (hl : dmap.lookup k = some dg) :
    (send (withMask geo (groupMask geo km k)) dg .none).1 = .ok () ∧
    devFrames (groupSend true perm geo km dmap fault).log d.idx =
      devFrames (send (withMask geo (groupMask geo km k)) dg .none).2 d.idx ∧
    devObs (groupSend true perm geo km dmap fault).log d.idx =
      devObs (send (withMask geo (groupMask geo km k)) dg .none).2 d.idx := by
  rcases (groupSend_cases hwf km perm hperm dmap fault).2 with
    ⟨_, _, _, hr, _⟩ | ⟨_, _, _, _, _, hr, _⟩ | ⟨_, _, hr, _⟩ | ⟨hall, _, hr, hlog⟩
  · rw [hr] at hok; cases hok
  · rw [hr] at hok; cases hok
  · rw [hr] at hok; cases hok
  · have hdev : d ∈ devices geo := mem_devices.mpr ⟨hd, he⟩
    obtain ⟨dg', hl', hgf⟩ := hall k ⟨d, hd, he, hk⟩
    rw [hl] at hl'; cases hl'
    rw [hr] at hok
    -- `Ok` ⇒ no operation had a pending pack error, in particular not `d`'s
    have hpe : dg.packErr = none := by
      have := sendLoop_ok_err geo _ _ _ _ _ hok d hdev ((mkGen geo km k dg).generate d)
        (by simp [finalOp, hk, hl])
      exact this
    have hdK : d ∈ devices (groupGeo geo km k) := by
      apply mem_devices.mpr
      refine ⟨?_, he⟩
      unfold groupGeo
      apply List.mem_map.mpr
      exact ⟨d, hd, by cases d; simp_all⟩
    have hndK : ((groupGeo geo km k).map (·.idx)).Nodup := by rw [groupGeo_map_idx]; exact hwf.nodup
    have hsolo := send_spec hndK dg hgf hpe
    have heq : devFrames (groupSend true perm geo km dmap fault).log d.idx =
        devFrames (send (withMask geo (groupMask geo km k)) dg .none).2 d.idx := by
      rw [withMask_groupMask, hsolo.2 d hdK, groupGeo_map_enable, hlog]
      have hfull := (sendImpl_dev hwf (finalOp geo km dmap) fault (finalOp_tagged _ _ _ _) d.idx).2 hok
      rw [proj_of_mem _ _ (devices_nodup hwf.nodup) d hdev] at hfull
      simpa [finalOp, hk, hl, opFrames, mkGen] using hfull
    refine ⟨by rw [withMask_groupMask]; exact hsolo.1, heq, ?_⟩
    unfold devObs; rw [heq]

/-- **…to it alone**: up to the record of which devices a geometry-wide generator saw
(`Frame.payload` drops it), those frames are the ones of sending the datagram to the geometry in
which that device *alone* is enabled. -/
theorem group_equiv_alone (hwf : WF geo) (hperm : IsOrder perm) (dmap : List (Key × Dg)) (fault : Fault)
    (hok : (groupSend true perm geo km dmap fault).result = .ok ())
    (d : Device) (hd : d ∈ geo) (he : d.enable = true) (k : Key) (hk : km d.idx = some k)
    (dg : Dg) (hl : dmap.lookup k = some dg) :
    (devFrames (groupSend true perm geo km dmap fault).log d.idx).map Frame.payload =
      (devFrames (send (alone geo d.idx) dg .none).2 d.idx).map Frame.payload := by
  obtain ⟨hsok, heq, _⟩ := group_equiv hwf hperm dmap fault hok d hd he k hk dg hl
  rw [heq]
  -- both plain sends succeed, so `dg` neither fails to generate nor to pack
  have hgf : dg.genFail = false := by
    cases h : dg.genFail with
    | false => rfl
    | true => simp [send, Dg.generator, h] at hsok
  have hpe : dg.packErr = none := by
    have hgen : dg.generator (withMask geo (groupMask geo km k)) = .ok
        { dg := dg, seen := dg.seenOf ((withMask geo (groupMask geo km k)).map (·.enable)) } := by
      unfold Dg.generator
      rw [hgf]; rfl
    unfold send at hsok
    rw [hgen] at hsok
    simp only [sendImpl] at hsok
    have hdK : d ∈ devices (withMask geo (groupMask geo km k)) := by
      rw [withMask_groupMask]
      apply mem_devices.mpr
      refine ⟨?_, he⟩
      unfold groupGeo
      apply List.mem_map.mpr
      exact ⟨d, hd, by cases d; simp_all⟩
    exact sendLoop_ok_err _ _ _ _ _ _ hsok d hdK _ rfl
  have hdK : d ∈ devices (groupGeo geo km k) := by
    apply mem_devices.mpr
    refine ⟨?_, he⟩
    unfold groupGeo
    apply List.mem_map.mpr
    exact ⟨d, hd, by cases d; simp_all⟩
  have hdA : d ∈ devices (alone geo d.idx) := by
    apply mem_devices.mpr
    refine ⟨?_, he⟩
    unfold alone
    apply List.mem_map.mpr
    exact ⟨d, hd, by cases d; simp_all⟩
  have hndK : ((groupGeo geo km k).map (·.idx)).Nodup := by rw [groupGeo_map_idx]; exact hwf.nodup
  have hndA : ((alone geo d.idx).map (·.idx)).Nodup := by
    have : (alone geo d.idx).map (·.idx) = geo.map (·.idx) := by
      simp [alone, List.map_map, Function.comp_def]
    rw [this]; exact hwf.nodup
  rw [withMask_groupMask, (send_spec hndK dg hgf hpe).2 d hdK, (send_spec hndA dg hgf hpe).2 d hdA]
  exact generate_payload _ _ d rfl

/-- **the call succeeds when keys and datagrams match**: every used key has a datagram that
generates and packs, no key is superfluous, the link is healthy ⇒ `Ok` (so `group_equiv` is not
vacuous, and the loop fuel of the model is never the reason for an answer). -/
theorem ok_when_matching (hwf : WF geo) (hperm : IsOrder perm) (dmap : List (Key × Dg))
    (hall : ∀ k, usedKey geo km k → ∃ dg, dmap.lookup k = some dg ∧ dg.genFail = false ∧ dg.packErr = none)
    (hextra : extraKeys geo km dmap = []) :
    (groupSend true perm geo km dmap .none).result = .ok () := by
  rcases (groupSend_cases hwf km perm hperm dmap .none).2 with
    ⟨k, hu, hl, _⟩ | ⟨k, dg, hu, hl, hf, _⟩ | ⟨_, hne, _⟩ | ⟨_, _, hr, _⟩
  · obtain ⟨dg, h, _⟩ := hall k hu; rw [hl] at h; cases h
  · obtain ⟨dg', h, hf', _⟩ := hall k hu
    rw [hl] at h; cases h; rw [hf] at hf'; cases hf'
  · exact absurd hextra hne
  · rw [hr]
    unfold sendImpl
    rw [fuelFor_map]
    apply sendLoop_ok
    · intro d hd op hop
      unfold finalOp at hop
      cases hk : km d.idx with
      | none => rw [hk] at hop; cases hop
      | some k =>
        simp only [hk] at hop
        obtain ⟨dg, hl, _, hpe⟩ := hall k ⟨d, (mem_devices.mp hd).1, (mem_devices.mp hd).2, hk⟩
        simp only [hl, Option.map_some, Option.some.injEq] at hop
        rw [← hop]; exact hpe
    · omega

/-! ## non-vacuity: concrete instances of the hypotheses, and the defect the repair removes -/

section Examples

/-- four devices, device 2 disabled beforehand -/
def exGeo : Geometry := mkGeometry [true, true, false, true]
/-- device 0 ↦ key 5, device 1 ↦ key 3, device 2 (disabled) ↦ key 9, device 3 ↦ key 5 -/
def exKm : Nat → Option Key := fun i => [some 5, some 3, some 9, some 5][i]?.join
/-- a gain for key 5, a three-frame modulation (900 samples) for key 3 -/
def exMap : List (Key × Dg) :=
  [(3, { kind := .mod, id := 34, len := 900, genFail := false }),
   (5, { kind := .gain, id := 17, len := 0, genFail := false })]

example : WF exGeo := by decide
example : IsOrder List.reverse := fun l => List.reverse_perm l
example : IsOrder id := fun l => List.Perm.refl l
example : usedKey exGeo exKm 5 := ⟨⟨0, true⟩, by decide, rfl, rfl⟩
example : extraKeys exGeo exKm exMap = [] := by decide
-- both orders succeed, transmit three rounds, and give device 1 its three modulation frames
example : (groupSend true id exGeo exKm exMap .none).result = .ok () := by decide
example : ((groupSend true List.reverse exGeo exKm exMap .none).log.map List.length) = [3, 1, 1] := by decide
example : (devFrames (groupSend true List.reverse exGeo exKm exMap .none).log 1).map (·.idx) = [0, 1, 2] := by decide
-- a link failure at the second send: device 1 has a proper prefix, the flags are intact
example : (groupSend true id exGeo exKm exMap (.send 1)).result = .error .link ∧
    (devFrames (groupSend true id exGeo exKm exMap (.send 1)).log 1).map (·.idx) = [0] ∧
    (groupSend true id exGeo exKm exMap (.send 1)).geo = exGeo := by decide
-- key 3 without datagram: `UnknownKey 3` in either order
example : (groupSend true id exGeo exKm (exMap.drop 1) .none).result = .error (.unknownKey 3) := by decide
-- a datagram for key 9, to which only the disabled device is mapped, is superfluous
example : (groupSend true id exGeo exKm (exMap ++ [(9, { kind := .gain, id := 1, len := 0, genFail := false })]) .none).result
    = .error (.unusedKey [9]) := by decide

/-- DESIGN §6 **F11** in the model of the code *before* the repair (`restoreOnErr = false`): three
enabled devices with keys 0,1,2, no datagram for key 1 — `UnknownKey 1`, and the flags are left
`[false, true, false]`. With the repair (`true`) they are `[true, true, true]`, as
`enable_restored` says. -/
example :
    let geo3 := mkGeometry [true, true, true]
    let km3 : Nat → Option Key := fun i => some i
    let m : List (Key × Dg) := [(0, { kind := .gain, id := 17, len := 0, genFail := false }),
                               (2, { kind := .gain, id := 67, len := 0, genFail := false })]
    (groupSend false id geo3 km3 m .none).result = .error (.unknownKey 1) ∧
    (groupSend false id geo3 km3 m .none).geo.map (·.enable) = [false, true, false] ∧
    (groupSend true id geo3 km3 m .none).geo.map (·.enable) = [true, true, true] := by decide

/-- the same for a generator error (second key visited) -/
example :
    let geo2 := mkGeometry [true, true]
    let km2 : Nat → Option Key := fun i => some i
    let m : List (Key × Dg) := [(0, { kind := .gain, id := 17, len := 0, genFail := false }),
                               (1, { kind := .mod, id := 34, len := 10, genFail := true })]
    (groupSend false id geo2 km2 m .none).result = .error (.gen 34) ∧
    (groupSend false id geo2 km2 m .none).geo.map (·.enable) = [false, true] ∧
    (groupSend true id geo2 km2 m .none).geo.map (·.enable) = [true, true] := by decide

end Examples

/-! ## `datagram_option` (timeout / parallel threshold) aggregation — `Group.aggOptions`, used by the
`group` driver to answer the `opt` line and to resolve delayed / missing acknowledgements -/

private theorem foldl_bounds (l : List DgOpt) (a : DgOpt) :
    a.timeout ≤ (l.foldl DgOpt.agg a).timeout ∧ (l.foldl DgOpt.agg a).parThr ≤ a.parThr ∧
    ∀ d ∈ l, d.timeout ≤ (l.foldl DgOpt.agg a).timeout ∧ (l.foldl DgOpt.agg a).parThr ≤ d.parThr := by
  induction l generalizing a with
  | nil => simp
  | cons x l ih =>
    obtain ⟨h1, h2, h3⟩ := ih (DgOpt.agg a x)
    have e1 : (DgOpt.agg a x).timeout = max a.timeout x.timeout := rfl
    have e2 : (DgOpt.agg a x).parThr = min a.parThr x.parThr := rfl
    rw [e1] at h1
    rw [e2] at h2
    simp only [List.foldl, List.mem_cons]
    refine ⟨by omega, by omega, ?_⟩
    intro d hd
    rcases hd with rfl | hd
    · exact ⟨by omega, by omega⟩
    · exact h3 d hd

/-- **`datagram_option` aggregation**: once the datagrams `l` were consumed, the timeout `send_impl`
receives is at least every datagram's timeout and the parallel threshold at most every datagram's -/
theorem aggOptions_bounds (l : List DgOpt) (d : DgOpt) (h : d ∈ l) :
    d.timeout ≤ (aggOptions l).timeout ∧ (aggOptions l).parThr ≤ d.parThr :=
  (foldl_bounds l DgOpt.zero).2.2 d h

/-- …and neither depends on the iteration order of the internal `HashMap` -/
theorem aggOptions_perm {l₁ l₂ : List DgOpt} (h : l₁.Perm l₂) : aggOptions l₁ = aggOptions l₂ := by
  unfold aggOptions
  generalize DgOpt.zero = a
  induction h generalizing a with
  | nil => rfl
  | cons x _ ih => exact ih _
  | swap x y l =>
    simp only [List.foldl]
    congr 1
    simp [DgOpt.agg, Nat.max_assoc, Nat.min_assoc, Nat.max_comm x.timeout, Nat.min_comm x.parThr]
  | trans _ _ ih1 ih2 => exact (ih1 a).trans (ih2 a)

/-- without a sender timeout, acknowledgements are not waited for (timeout 0) exactly when **every**
datagram of the call asks for that -/
theorem effTimeout_zero_iff (l : List DgOpt) :
    effTimeout none (aggOptions l) = 0 ↔ ∀ d ∈ l, d.timeout = 0 := by
  constructor
  · intro h d hd
    have := (aggOptions_bounds l d hd).1
    simp [effTimeout] at h; omega
  · intro h
    simp only [effTimeout, Option.getD_none, aggOptions]
    have : ∀ a : DgOpt, a.timeout = 0 → (l.foldl DgOpt.agg a).timeout = 0 := by
      induction l with
      | nil => intro a ha; exact ha
      | cons x l ih =>
        intro a ha
        simp only [List.foldl]
        apply ih (fun d hd => h d (List.mem_cons_of_mem _ hd))
        simp [DgOpt.agg, ha, h x (List.mem_cons_self ..)]
    exact this _ rfl

example : aggOptions [⟨0, usizeMax⟩, ⟨200, 4⟩, ⟨20, 7⟩] = ⟨200, 4⟩ := by decide
example : effTimeout none (aggOptions [⟨0, 3⟩, ⟨0, 2⟩]) = 0 ∧ effTimeout (some 5) (aggOptions [⟨0, 3⟩]) = 5 := by decide
example : ParMode.auto.isParallel 3 2 = true ∧ ParMode.auto.isParallel 2 2 = false ∧ ParMode.off.isParallel 9 0 = false := by decide

/-! ## histories: several calls on the same controller

The theorems above are about ONE call on a controller whose `tx` slots hold nothing the devices have
not executed.  `Lemmas/GroupHist.lean` adds the state that lives across calls — per device the
controller's `tx` slot (`Port.txId`, `Port.txFrame`) and the device's receiver (`Port.lastId`,
`Port.exec`: what it has executed) — and `run : CtlState → List Call → CtlState × List Result` over
calls (`group_send` or plain `send`, each with the `enable` flags the user writes before it, its own
`HashMap` order and link script).  Result, flags and log of each call are those of the audited
single-call model (`Call.outcome`); the `tx` side follows `pack_op` / `Link::send` / `ecat_recv`.

A slot is *clean* when `txId = lastId`.  A call **failed after packing** (`failedAfterPacking`) when it
ended with a `pack` error or with the `Link::send` of a round failing: then slots hold fresh ids that
were never transmitted, nothing rolls them back, and the next transmission of ANY call hands them to
their devices (`unsent_frame_counterexample` — the `known:` finding
`group:unsent-frame-delivered-later:*`).  Restrictions used below, weakest last:

* **R1** `NoUnsent st cs` — no call of the history failed after packing
  (`history_*_partial`);
* **R2** `Covered st (fun _ => false) cs` — after a call that failed after packing, every call up to
  and including the first one that transmits (and does not itself fail after packing) addresses every
  device the failed call(s) addressed (`history_unmapped_untouched_covered`; R1 ⇒ R2 by
  `history_covered_of_noUnsent`);
* **exact** — for one call on ANY state: a device the call does not address executes something iff
  its slot is not clean and the call transmits at least once (`history_unmapped_untouched_iff`); a
  device the call DOES address executes exactly its own frames whenever its slot can be packed again
  (`history_group_equiv_readdressed`: every slot but the one 127 unsent packs behind its device).

The failing device's own slot after a `pack` error (id bumped over the old payload, `Port.bumped`) is
not only read off `pack_op`: the instrumented `group` stream shows it delivered to device 1 as frame
`1:x01` (the payload `open` left) in the call after `{0: g17, 1: m61.1}`. -/

section Histories

variable {st : CtlState}

/-- **enable flags restored, every call of every history** (no restriction: earlier calls may have
failed anywhere): after the call the geometry — indices and `enable` of every device — is the one the
call started on (`restore … c.en`: the flags as the user wrote them before the call); and if no call
writes flags, it is the initial geometry. -/
theorem history_enable_restored (hwf : WF st.geo) (cs : List Call) (hord : ∀ c ∈ cs, c.Ordered)
    (c : Call) (hc : c.Ordered) :
    (step (run st cs).1 c).1.geo = restore (run st cs).1.geo c.en ∧
    ((∀ c' ∈ cs, c'.en = []) → c.en = [] → (step (run st cs).1 c).1.geo = st.geo) := by
  have h1 := step_geo (run_wf hwf cs hord) c hc
  refine ⟨h1, fun hen hce => ?_⟩
  rw [h1, Call.geoOf, hce, restore_nil, run_geo_of_no_en hwf cs hord hen]

/-- **the executed sequence is the logged one (R1)**: if no earlier call failed after packing, then
in every call — whatever its own exit — every device executes exactly the frames the single-call model
logs for it (`devFrames log i`), in that order.  (This is what the `group` driver folds into its
per-device read-back on `cont=1` lines.) -/
theorem history_exec_eq_log_partial (hwf : WF st.geo) (hcl : AllClean st.ports) (cs : List Call)
    (hord : ∀ c ∈ cs, c.Ordered) (hno : NoUnsent st cs) (c : Call) (hc : c.Ordered) (i : Nat) :
    ((step (run st cs).1 c).1.ports i).exec =
      ((run st cs).1.ports i).exec ++ (devFrames (c.outcome (c.geoOf (run st cs).1)).log i).map some :=
  step_exec (run_wf hwf cs hord) c hc i (Or.inl (run_clean hwf hcl cs hord hno i))

/-- **read-back over histories (R1)**: the read-back of every device after a call is the fold of
that call's logged frames over its read-back before the call — `Drv.C13.foldObs`, what the `group`
driver carries across `cont=1` lines; on a fresh controller it is `devObs` of the call. -/
theorem history_obs_partial (hwf : WF st.geo) (hcl : AllClean st.ports) (cs : List Call)
    (hord : ∀ c ∈ cs, c.Ordered) (hno : NoUnsent st cs) (c : Call) (hc : c.Ordered) (i : Nat) :
    ((step (run st cs).1 c).1.ports i).obs =
      (devFrames (c.outcome (c.geoOf (run st cs).1)).log i).foldl Obs.apply ((run st cs).1.ports i).obs ∧
    (((run st cs).1.ports i).exec = [] →
      ((step (run st cs).1 c).1.ports i).obs = devObs (c.outcome (c.geoOf (run st cs).1)).log i) := by
  have h := obs_of_exec (history_exec_eq_log_partial hwf hcl cs hord hno c hc i)
  refine ⟨h, fun he => ?_⟩
  rw [h]; unfold devObs Port.obs; rw [he]; rfl

/-- **unmapped and disabled devices untouched (R1)**: if no earlier call failed after packing, a call
— whatever its own exit — leaves every device it does not address (`c.addresses d = false`: disabled,
or mapped to no key) exactly as it was: slot, last id and executed sequence.

Full statement (false on the code as it is, see `unsent_frame_counterexample`): the same without
`hno`. -/
theorem history_unmapped_untouched_partial (hwf : WF st.geo) (hcl : AllClean st.ports) (cs : List Call)
    (hord : ∀ c ∈ cs, c.Ordered) (hno : NoUnsent st cs) (c : Call) (hc : c.Ordered)
    (d : Device) (hd : d ∈ c.geoOf (run st cs).1) (hun : c.addresses d = false) :
    (step (run st cs).1 c).1.ports d.idx = (run st cs).1.ports d.idx := by
  have hwf' := run_wf hwf cs hord
  rw [step_unaddressed hwf' c hc d.idx (unaddressed_of_mem (geoOf_wf hwf' c) c d hd hun)]
  split
  · rfl
  · exact Port.deliver_of_clean (run_clean hwf hcl cs hord hno d.idx)

/-- **per-group send onto any slot that can be packed again** (one call after ANY history, no
restriction on earlier calls): if this `group_send` returns `Ok`, an enabled device mapped to a key
whose slot is `repackable` — clean, or holding an unsent id other than the one exactly 127 (mod 128)
packs behind the device — executes exactly the frames of a plain `send` of its key's datagram to its
group / to it alone.  The slot is packed again before anything is transmitted, so the unsent payload
of an earlier, failed call is never executed by a device the next transmitting call addresses. -/
theorem history_group_equiv_readdressed (hwf : WF st.geo) (cs : List Call) (hord : ∀ c ∈ cs, c.Ordered)
    (en : List Bool) (km : Nat → Option Key) (perm : List (Key × Filter) → List (Key × Filter))
    (hperm : IsOrder perm) (dmap : List (Key × Dg)) (fault : Fault)
    (hok : (step (run st cs).1 ⟨en, .group km perm dmap, fault⟩).2 = .ok ())
    (d : Device) (hd : d ∈ restore (run st cs).1.geo en) (he : d.enable = true) (k : Key)
    (hk : km d.idx = some k) (dg : Dg) (hl : dmap.lookup k = some dg)
    (hrep : ((run st cs).1.ports d.idx).repackable) :
    ∃ new : List Frame,
      ((step (run st cs).1 ⟨en, .group km perm dmap, fault⟩).1.ports d.idx).exec
        = ((run st cs).1.ports d.idx).exec ++ new.map some ∧
      new = devFrames (send (withMask (restore (run st cs).1.geo en)
              (groupMask (restore (run st cs).1.geo en) km k)) dg .none).2 d.idx ∧
      new.map Frame.payload
        = (devFrames (send (alone (restore (run st cs).1.geo en) d.idx) dg .none).2 d.idx).map Frame.payload := by
  have hwf' : WF (restore (run st cs).1.geo en) :=
    geoOf_wf (run_wf hwf cs hord) ⟨en, .group km perm dmap, fault⟩
  refine ⟨devFrames (groupSend true perm (restore (run st cs).1.geo en) km dmap fault).log d.idx, ?_, ?_, ?_⟩
  · apply step_exec (run_wf hwf cs hord) ⟨en, .group km perm dmap, fault⟩ hperm d.idx
    refine Or.inr ⟨hrep, d, hd, rfl, ?_⟩
    simp [Call.addresses, he, hk]
  · exact (group_equiv hwf' hperm dmap fault hok d hd he k hk dg hl).2.1
  · exact group_equiv_alone hwf' hperm dmap fault hok d hd he k hk dg hl

/-- **per-group send over histories (R1)**: if no earlier call failed after packing and this
`group_send` returns `Ok`, the executed sequence of every enabled device mapped to a key grows by
exactly the frames of a plain `send` of its key's datagram to the geometry in which its group alone is
enabled — which are, up to the record of what a geometry-wide generator saw, the frames of a `send` to
that device alone. -/
theorem history_group_equiv_partial (hwf : WF st.geo) (hcl : AllClean st.ports) (cs : List Call)
    (hord : ∀ c ∈ cs, c.Ordered) (hno : NoUnsent st cs)
    (en : List Bool) (km : Nat → Option Key) (perm : List (Key × Filter) → List (Key × Filter))
    (hperm : IsOrder perm) (dmap : List (Key × Dg)) (fault : Fault)
    (hok : (step (run st cs).1 ⟨en, .group km perm dmap, fault⟩).2 = .ok ())
    (d : Device) (hd : d ∈ restore (run st cs).1.geo en) (he : d.enable = true) (k : Key)
    (hk : km d.idx = some k) (dg : Dg) (hl : dmap.lookup k = some dg) :
    ∃ new : List Frame,
      ((step (run st cs).1 ⟨en, .group km perm dmap, fault⟩).1.ports d.idx).exec
        = ((run st cs).1.ports d.idx).exec ++ new.map some ∧
      new = devFrames (send (withMask (restore (run st cs).1.geo en)
              (groupMask (restore (run st cs).1.geo en) km k)) dg .none).2 d.idx ∧
      new.map Frame.payload
        = (devFrames (send (alone (restore (run st cs).1.geo en) d.idx) dg .none).2 d.idx).map Frame.payload :=
  history_group_equiv_readdressed hwf cs hord en km perm hperm dmap fault hok d hd he k hk dg hl
    (Port.repackable_of_clean (run_clean hwf hcl cs hord hno d.idx))

/-- **the exact condition, one call on any state** (no restriction on the history, no assumption on
the slots): a device the call does not address keeps its executed sequence **iff** its slot is clean
when the call starts or the call transmits nothing.  So the weakest restriction under which
`unmapped_untouched` lifts to a history is: *whenever a call transmits, every device it does not
address has a clean slot.* -/
theorem history_unmapped_untouched_iff (hwf : WF st.geo) (cs : List Call) (hord : ∀ c ∈ cs, c.Ordered)
    (c : Call) (hc : c.Ordered) (d : Device) (hd : d ∈ c.geoOf (run st cs).1) (hun : c.addresses d = false) :
    ((step (run st cs).1 c).1.ports d.idx).exec = ((run st cs).1.ports d.idx).exec ↔
      (((run st cs).1.ports d.idx).clean ∨ (c.outcome (c.geoOf (run st cs).1)).log = []) := by
  have hwf' := run_wf hwf cs hord
  rw [step_unaddressed hwf' c hc d.idx (unaddressed_of_mem (geoOf_wf hwf' c) c d hd hun)]
  by_cases hlog : (c.outcome (c.geoOf (run st cs).1)).log = []
  · simp [hlog]
  · simp only [hlog, if_false, or_false]
    exact deliver_exec_eq_iff _

/-- **unmapped and disabled devices untouched (R2, the weakest restriction on the calls proved
sufficient)**: `Covered st (fun _ => false) cs` — every call addresses every device whose slot *may*
hold an unsent frame, where that set is: empty at first; after a call that failed after packing, the
devices it addressed (added); unchanged by a call that transmitted nothing (key / generator error);
empty again after any other call (it ended right after a transmission).  Under it every call of the
history — the failing ones included — leaves every device it does not address exactly as it was. -/
theorem history_unmapped_untouched_covered (hwf : WF st.geo) (hcl : AllClean st.ports) (cs : List Call)
    (hord : ∀ c ∈ cs, c.Ordered) (hcov : Covered st (fun _ => false) cs)
    (pre : List Call) (c : Call) (post : List Call) (hsplit : cs = pre ++ c :: post)
    (d : Device) (hd : d ∈ c.geoOf (run st pre).1) (hun : c.addresses d = false) :
    (step (run st pre).1 c).1.ports d.idx = (run st pre).1.ports d.idx :=
  covered_untouched cs st _ hwf (suspectsCover_of_clean hcl _) hord hcov pre c post hsplit d hd hun

/-- R2 is weaker than R1 (strictly: `exCovered` below) -/
theorem history_covered_of_noUnsent (cs : List Call) (hno : NoUnsent st cs) : Covered st (fun _ => false) cs :=
  covered_of_noUnsent cs st hno

/-! ### the recorded histories of the known finding, and non-vacuity -/

def g17 : Dg := { kind := .gain, id := 17, len := 0, genFail := false }
def g18 : Dg := { kind := .gain, id := 18, len := 0, genFail := false }
def m34 : Dg := { kind := .mod, id := 34, len := 900, genFail := false }
/-- a modulation of one sample: `ModulationSizeOutOfRange` at `pack` -/
def m61 : Dg := { kind := .mod, id := 61, len := 1, genFail := false }

/-- `group:unsent-frame-delivered-later:link-send-failure`: one device; `group_send(|_| Some(0), {0: g17})`
with the first `Link::send` failing, then `group_send(|_| None, {})` -/
def histLink : List Call :=
  [ ⟨[], .group (fun _ => some 0) id [(0, g17)], .send 0⟩,
    ⟨[], .group (fun _ => none) id [], .none⟩ ]

/-- the same with the device *disabled* before the second call -/
def histLinkDisabled : List Call :=
  [ ⟨[], .group (fun _ => some 0) id [(0, g17)], .send 0⟩,
    ⟨[false], .group (fun _ => some 0) id [], .none⟩ ]

/-- `group:unsent-frame-delivered-later:pack-failure`: two devices keyed 0, 1 with `{0: g17, 1: m61}`
(error at the `pack` of device 1, device 0 already packed), then device 0 mapped to no key, `{0: g18}` -/
def histPack : List Call :=
  [ ⟨[], .group (fun i => some i) id [(0, g17), (1, m61)], .none⟩,
    ⟨[], .group (fun i => if i = 1 then some 0 else none) id [(0, g18)], .none⟩ ]

def frameOf (dev : Nat) (dg : Dg) (seen : List Bool) : Frame := { dev := dev, dg := dg, seen := seen, idx := 0 }

/-- **the known finding, kernel-checked on the model**: in each recorded history the first call
fails after packing (so R1 and the full statement's hypothesis differ exactly here), the second call
returns `Ok` and does not address device 0 (mapped to no key / disabled), device 0 had executed
nothing before it — and has executed the first call's `g17` frame after it.  In the pack-failure
history the failing device's own slot is left with a bumped id over its old payload. -/
theorem unsent_frame_counterexample :
    -- link-send failure
    ((run (CtlState.fresh [true]) histLink).2 = [.error .link, .ok ()] ∧
     failedAfterPacking (.send 0) (.error .link) ∧
     (∀ d ∈ (run (CtlState.fresh [true]) (histLink.take 1)).1.geo, (histLink.getD 1 ⟨[], .plain g17, .none⟩).addresses d = false) ∧
     ((run (CtlState.fresh [true]) (histLink.take 1)).1.ports 0).exec = [] ∧
     ((run (CtlState.fresh [true]) histLink).1.ports 0).exec = [some (frameOf 0 g17 [true])]) ∧
    -- the same, device disabled before the second call
    ((run (CtlState.fresh [true]) histLinkDisabled).2 = [.error .link, .ok ()] ∧
     (run (CtlState.fresh [true]) histLinkDisabled).1.geo.map (·.enable) = [false] ∧
     ((run (CtlState.fresh [true]) histLinkDisabled).1.ports 0).exec = [some (frameOf 0 g17 [true])]) ∧
    -- pack failure on a later device
    ((run (CtlState.fresh [true, true]) histPack).2 = [.error (.pack 61), .ok ()] ∧
     failedAfterPacking .none (.error (.pack 61)) ∧
     ((run (CtlState.fresh [true, true]) (histPack.take 1)).1.ports 0).exec = [] ∧
     ((run (CtlState.fresh [true, true]) (histPack.take 1)).1.ports 1) = ⟨1, none, 0, []⟩ ∧
     ((run (CtlState.fresh [true, true]) histPack).1.ports 0).exec = [some (frameOf 0 g17 [true, false])] ∧
     ((run (CtlState.fresh [true, true]) histPack).1.ports 1).exec = [some (frameOf 1 g18 [false, true])]) := by
  decide +kernel

/-- three devices, two keys (5, 3), device 2 mapped to no key -/
def hKm : Nat → Option Key := fun i => [some 5, some 3, none][i]?.join
def hMap : List (Key × Dg) := [(3, m34), (5, g17)]
def hSt : CtlState := CtlState.fresh [true, true, true]

/-- `Ok`; then device 1 disabled (so key 3 is unused), the receive of the first round fails; then all
enabled again, key 3 without datagram (`UnknownKey`) -/
def hCalls : List Call :=
  [ ⟨[], .group hKm id hMap, .none⟩,
    ⟨[true, false, true], .group hKm List.reverse [(5, g18)], .recv 0⟩,
    ⟨[true, true, true], .group hKm id [(5, g18)], .none⟩ ]

/-- the call observed after `hCalls`: other iteration order, swapped payloads -/
def hNext : Call := ⟨[], .group hKm List.reverse [(3, m34), (5, g18)], .none⟩

private theorem hCalls_ordered : ∀ c ∈ hCalls, c.Ordered := by
  intro c hc
  simp only [hCalls, List.mem_cons, List.not_mem_nil, or_false] at hc
  rcases hc with rfl | rfl | rfl
  · exact fun l => List.Perm.refl l
  · exact fun l => List.reverse_perm l
  · exact fun l => List.Perm.refl l

private theorem hCalls_noUnsent : NoUnsent hSt hCalls := by
  refine ⟨?_, ?_, ?_, trivial⟩ <;> decide +kernel

example : WF hSt.geo := by decide
example : AllClean hSt.ports := fun _ => rfl
example : hNext.Ordered := fun l => List.reverse_perm l
example : (run hSt hCalls).2 = [.ok (), .error .link, .error (.unknownKey 3)] := by decide +kernel
example : NoUnsent hSt hCalls := hCalls_noUnsent
-- the flags after the history are the ones written before the third call; the mask changed in between
example : (run hSt hCalls).1.geo.map (·.enable) = [true, true, true] ∧
    (run hSt (hCalls.take 2)).1.geo.map (·.enable) = [true, false, true] := by decide +kernel
-- device 2 is in the geometry of the next call and not addressed; device 1 is mapped to key 3
example : (⟨2, true⟩ : Device) ∈ hNext.geoOf (run hSt hCalls).1 ∧ hNext.addresses ⟨2, true⟩ = false ∧
    hNext.addresses ⟨1, true⟩ = true := by decide +kernel
example : (step (run hSt hCalls).1 hNext).2 = .ok () := by decide +kernel
-- device 1: nothing in the second call (disabled), three modulation frames in the first and in the next
example : (((run hSt hCalls).1.ports 1).exec.map fun f => f.map (·.idx)) = [some 0, some 1, some 2] ∧
    (((step (run hSt hCalls).1 hNext).1.ports 1).exec.map fun f => f.map (·.idx))
      = [some 0, some 1, some 2, some 0, some 1, some 2] ∧
    ((step (run hSt hCalls).1 hNext).1.ports 2).exec = [] := by decide +kernel

-- the theorems, instantiated on this history
example : (step (run hSt hCalls).1 hNext).1.geo.map (·.enable) = [true, true, true] := by
  rw [(history_enable_restored (st := hSt) (by decide) hCalls hCalls_ordered hNext (fun l => List.reverse_perm l)).1]
  decide +kernel
example : (step (run hSt hCalls).1 hNext).1.ports 2 = (run hSt hCalls).1.ports 2 :=
  history_unmapped_untouched_partial (st := hSt) (by decide) (fun _ => rfl) hCalls hCalls_ordered hCalls_noUnsent
    hNext (fun l => List.reverse_perm l) ⟨2, true⟩ (by decide +kernel) (by decide +kernel)
example : ∃ new : List Frame,
    ((step (run hSt hCalls).1 hNext).1.ports 1).exec = ((run hSt hCalls).1.ports 1).exec ++ new.map some ∧
    new = devFrames (send (withMask (restore (run hSt hCalls).1.geo [])
            (groupMask (restore (run hSt hCalls).1.geo []) hKm 3)) m34 .none).2 1 ∧
    new.map Frame.payload
      = (devFrames (send (alone (restore (run hSt hCalls).1.geo []) 1) m34 .none).2 1).map Frame.payload :=
  history_group_equiv_partial (st := hSt) (by decide) (fun _ => rfl) hCalls hCalls_ordered hCalls_noUnsent
    [] hKm List.reverse (fun l => List.reverse_perm l) [(3, m34), (5, g18)] .none (by decide +kernel)
    ⟨1, true⟩ (by decide +kernel) rfl 3 rfl m34 rfl
example : ((step (run hSt hCalls).1 hNext).1.ports 0).obs.gId = 18 ∧
    ((step (run hSt hCalls).1 hNext).1.ports 1).obs.mLen = 900 := by decide +kernel

/-- a plain `send` in the history: `send(g18)` to devices 0 and 2 fails at `Link::send`; the next
`group_send` addresses device 0 only — device 2 (mapped to no key) executes the unsent `g18` -/
def histPlain : List Call :=
  [ ⟨[true, false, true], .plain g18, .send 0⟩,
    ⟨[true, true, true], .group (fun i => if i = 0 then some 5 else none) id [(5, g17)], .none⟩ ]

example : (run hSt histPlain).2 = [.error .link, .ok ()] ∧
    (((run hSt histPlain).1.ports 0).exec.map fun f => f.map (·.dg.id)) = [some 17] ∧
    ((run hSt histPlain).1.ports 1).exec = [] ∧
    (((run hSt histPlain).1.ports 2).exec.map fun f => f.map (·.dg.id)) = [some 18] := by decide +kernel

/-- R2 but not R1: the first call fails at `Link::send` with devices 0 and 1 packed; the next call
(device 2 disabled meanwhile) addresses 0 and 1 again, then device 0 and 1 are left out -/
def exCovered : List Call :=
  [ ⟨[], .group hKm id hMap, .send 0⟩,
    ⟨[true, true, false], .group hKm List.reverse [(3, m34), (5, g18)], .none⟩,
    ⟨[true, true, true], .group (fun i => if i = 2 then some 7 else none) id [(7, g17)], .none⟩ ]

example : ¬ NoUnsent hSt exCovered := by
  intro h; exact absurd h.1 (by decide +kernel)
example : Covered hSt (fun _ => false) exCovered := by
  refine ⟨?_, ?_, ?_, trivial⟩ <;> decide +kernel
example : (run hSt exCovered).2 = [.error .link, .ok (), .ok ()] := by decide +kernel
-- devices 0 and 1 executed the second call's frames, never the first call's; device 2 only its own
example : (((run hSt exCovered).1.ports 0).exec.map fun f => f.map (·.dg.id)) = [some 18] ∧
    (((run hSt exCovered).1.ports 2).exec.map fun f => f.map (·.dg.id)) = [some 17] := by decide +kernel
-- the second call packs the slots of devices 0 and 1 again: `history_group_equiv_readdressed` applies
private theorem exCovered_ordered : ∀ c ∈ exCovered.take 1, c.Ordered := by
  intro c hc
  simp only [exCovered, List.take_succ_cons, List.take_zero, List.mem_cons, List.not_mem_nil, or_false] at hc
  subst hc
  exact fun l => List.Perm.refl l
example : ¬ ((run hSt (exCovered.take 1)).1.ports 1).clean ∧ ((run hSt (exCovered.take 1)).1.ports 1).repackable := by
  decide +kernel
example : ∃ new : List Frame,
    ((step (run hSt (exCovered.take 1)).1 ⟨[true, true, false], .group hKm List.reverse [(3, m34), (5, g18)], .none⟩).1.ports 1).exec
      = ((run hSt (exCovered.take 1)).1.ports 1).exec ++ new.map some ∧
    new = devFrames (send (withMask (restore (run hSt (exCovered.take 1)).1.geo [true, true, false])
            (groupMask (restore (run hSt (exCovered.take 1)).1.geo [true, true, false]) hKm 3)) m34 .none).2 1 ∧
    new.map Frame.payload
      = (devFrames (send (alone (restore (run hSt (exCovered.take 1)).1.geo [true, true, false]) 1) m34 .none).2 1).map Frame.payload :=
  history_group_equiv_readdressed (st := hSt) (by decide) (exCovered.take 1) exCovered_ordered
    [true, true, false] hKm List.reverse (fun l => List.reverse_perm l) [(3, m34), (5, g18)] .none (by decide +kernel)
    ⟨1, true⟩ (by decide +kernel) rfl 3 rfl m34 rfl (by decide +kernel)
-- without the second call R2 fails, and so does the property (device 0 executes the stale g17)
example : ¬ Covered hSt (fun _ => false) (exCovered.eraseIdx 1) := by
  intro h; exact absurd h.2.1 (by decide +kernel)
example : (((run hSt (exCovered.eraseIdx 1)).1.ports 0).exec.map fun f => f.map (·.dg.id)) = [some 17] := by
  decide +kernel

end Histories

end Autd3.Group
