import Autd3.Lemmas.Reject
/-!
# C05 — invalid datagrams are rejected explicitly and before anything is transmitted

Property theorems only (helpers: `Lemmas/Reject.lean`).  The model is `Model/Reject.lean`: what
`Controller::send` does with a datagram (`send numTr d = (result, frames handed to the link)`), for
the repaired tree (fix-1 … fix-4: STM sizes / foci count / sampling configuration validated when the
generator is built, `into_sampling_config` guarded against size 0, modulation length checked before
the first frame, non-finite focal points refused).  It is tied to the Rust code by the `reject`
stream.  `numTr` (transducers per device) is arbitrary everywhere.

For every defect class `D` of the quantifier, `rejected_D` says: the result is that error — hence
neither `Ok` nor a panic — and the link has received **no** frame (`= (.err k, 0)`), for *all* sizes /
values of the class.  Focal-point defects: rejected with `FociSTMPointOutOfRange`, frames may precede.

Residue (kept visible, see the end of the file): a tuple whose *second* member is refused only by
its first `pack` and does not fit behind the first member's first frame — the first member's frames
reach the device before the error.  `tuple_second_member_rejected_lazy_partial` carries the
hypothesis `fits`, the excluded case is a `decide`-checked counterexample, and the harness reports
it as the known finding `C05:tuple:second-member-rejected-after-first-member-frames`.
-/
namespace Autd3.Reject
open Autd3.Gen.Drv Autd3.Gen Autd3.PbCodec

-- ------------------------------------------------------------------------------------------------
-- enable masks

/-- With at least one enabled device the enable mask does not matter: every theorem below about `send` holds
verbatim for `sendMasked _ true` (pack-time validation runs on every enabled device; they all hold the same
operations). -/
theorem sendMasked_enabled (numTr : Nat) (d : Dg) : sendMasked numTr true d = send numTr d := by
  simp [sendMasked]

/-- Generator-time defects (STM sizes, foci count, STM period / sampling configuration) are reported with *no*
enabled device too: whenever the generator fails, nothing reaches the link, for either mask value. The pack-time
classes are **not** covered with no enabled device (`send` then answers `(ok, 1)`; recorded by the `reject`
stream as the observation `all-disabled`). -/
theorem sendMasked_generator_error (numTr : Nat) (en : Bool) (d : Dg) (e : ErrKind) (h : d.generate = .err e) :
    sendMasked numTr en d = (.err e, 0) := by
  cases en <;> simp [sendMasked, send, h]

-- ------------------------------------------------------------------------------------------------
-- sizes

/-- **Modulation size** (0, 1, max+1, max+k — every length outside 2..=65536): refused with
`ModulationSizeOutOfRange`, nothing transmitted; whatever the sampling configuration. -/
theorem rejected_modulation_size (numTr len : Nat) (cfg : SCfg)
    (h : len < MOD_BUF_SIZE_MIN ∨ len > MOD_BUF_SIZE_MAX) :
    send numTr (.single (.modulation len cfg)) = (.err .modulationSizeOutOfRange, 0) := by
  simp [send, Dg.generate, Dg1.generate, Res.bind, sendLoop, packOp2, Op.isDone, Op.pack, h]

/-- **FociSTM<N>, N outside 1..=8**: refused with `FociSTMNumFociOutOfRange` for every size (also 0),
every `STMConfig`, every point set. -/
theorem rejected_foci_num_foci (numTr n size : Nat) (cfg : StmCfg) (pts : Points)
    (h : n = 0 ∨ n > FOCI_STM_FOCI_NUM_MAX) :
    send numTr (.single (.fociStm n size cfg pts)) = (.err .fociStmNumFociOutOfRange, 0) := by
  simp [send, Dg.generate, Dg1.generate, Res.bind, h]

/-- **FociSTM total size** (`size · N` outside 2..=65536, in particular size 0 and 1) combined with
**every `STMConfig` variant** (frequency, period, sampling configuration, nearest — the period
variants divide by the size): refused with `FociSTMTotalSizeOutOfRange`, no panic, no frame. -/
theorem rejected_foci_size (numTr n size : Nat) (cfg : StmCfg) (pts : Points)
    (hn : 1 ≤ n ∧ n ≤ FOCI_STM_FOCI_NUM_MAX)
    (h : size * n < STM_BUF_SIZE_MIN ∨ size * n > FOCI_STM_BUF_SIZE_MAX) :
    send numTr (.single (.fociStm n size cfg pts)) = (.err .fociStmTotalSizeOutOfRange, 0) := by
  have hn' : ¬ (n = 0 ∨ n > FOCI_STM_FOCI_NUM_MAX) := by omega
  simp [send, Dg.generate, Dg1.generate, Res.bind, hn', h]

/-- **GainSTM size** (outside 2..=1024) × every `STMConfig` variant × every mode. -/
theorem rejected_gainstm_size (numTr mode size : Nat) (cfg : StmCfg)
    (h : size < STM_BUF_SIZE_MIN ∨ size > GAIN_STM_BUF_SIZE_MAX) :
    send numTr (.single (.gainStm mode size cfg)) = (.err .gainStmSizeOutOfRange, 0) := by
  simp [send, Dg.generate, Dg1.generate, Res.bind, h]

/-- **STM helper generators** (`Line`, `Circle`: `FociSTM<1>` / `GainSTM` whose size is `num_points`)
with 0 or 1 points, every `STMConfig` variant. -/
theorem rejected_helper_points (numTr np : Nat) (cfg : StmCfg) (pts : Points) (h : np = 0 ∨ np = 1) :
    send numTr (.single (.fociStm 1 np cfg pts)) = (.err .fociStmTotalSizeOutOfRange, 0) ∧
    send numTr (.single (.gainStm 0 np cfg)) = (.err .gainStmSizeOutOfRange, 0) := by
  constructor
  · apply rejected_foci_size
    · simp [FOCI_STM_FOCI_NUM_MAX]
    · simp only [STM_BUF_SIZE_MIN]; omega
  · apply rejected_gainstm_size
    simp only [STM_BUF_SIZE_MIN]; omega

-- ------------------------------------------------------------------------------------------------
-- sampling configuration and period

/-- deriving the sampling configuration of an STM never panics: size 0 is an error (fix-2), and the
`Duration / (size as u32)` division cannot see a zero for sizes below 2^32 -/
theorem stm_config_never_panics (cfg : StmCfg) (size : Nat) (h : size < 4294967296) :
    (cfg.intoSamplingConfig size).isPanic = false := by
  cases cfg with
  | freq f => rfl
  | sampling s => rfl
  | freqNearest f => rfl
  | period p =>
    simp only [StmCfg.intoSamplingConfig]
    split
    · rfl
    · rename_i hs
      have : size % 4294967296 ≠ 0 := by rw [Nat.mod_eq_of_lt h]; omega
      simp [durDivU32, this, Res.bind, Res.isPanic]
  | periodNearest p =>
    simp only [StmCfg.intoSamplingConfig]
    split
    · rfl
    · rename_i hs
      have : size % 4294967296 ≠ 0 := by rw [Nat.mod_eq_of_lt h]; omega
      simp [durDivU32, this, Res.bind, Res.isPanic]

/-- **Modulation sampling configuration** (invalid frequency / period of
`autd3-core/src/sampling_config`): refused with that `SamplingConfigError`, no frame. -/
theorem rejected_modulation_sampling (numTr len : Nat) (cfg : SCfg) (k : ErrKind)
    (hlen : MOD_BUF_SIZE_MIN ≤ len ∧ len ≤ MOD_BUF_SIZE_MAX) (hc : cfg.validate = .error k) :
    send numTr (.single (.modulation len cfg)) = (.err k, 0) := by
  have h1 : ¬ (len < MOD_BUF_SIZE_MIN ∨ len > MOD_BUF_SIZE_MAX) := by omega
  simp [send, Dg.generate, Dg1.generate, Res.bind, sendLoop, packOp2, Op.isDone, Op.pack, h1, hc,
    payloadSize, EC_OUTPUT_FRAME_SIZE, DrvLayout.Header_size, DrvLayout.ModulationHead_size]

/-- **STM period** that is not a multiple of the size (`STMConfig::Period`): `STMPeriodInvalid`. -/
theorem rejected_stm_period (numTr n mode size p : Nat) (pts : Points)
    (hn : 1 ≤ n ∧ n ≤ FOCI_STM_FOCI_NUM_MAX)
    (hf : STM_BUF_SIZE_MIN ≤ size * n ∧ size * n ≤ FOCI_STM_BUF_SIZE_MAX)
    (hg : STM_BUF_SIZE_MIN ≤ size ∧ size ≤ GAIN_STM_BUF_SIZE_MAX)
    (hp : p % size ≠ 0) :
    send numTr (.single (.fociStm n size (.period p) pts)) = (.err .stmPeriodInvalid, 0) ∧
    send numTr (.single (.gainStm mode size (.period p))) = (.err .stmPeriodInvalid, 0) := by
  have hn' : ¬ (n = 0 ∨ n > FOCI_STM_FOCI_NUM_MAX) := by omega
  have hf' : ¬ (size * n < STM_BUF_SIZE_MIN ∨ size * n > FOCI_STM_BUF_SIZE_MAX) := by omega
  have hg' : ¬ (size < STM_BUF_SIZE_MIN ∨ size > GAIN_STM_BUF_SIZE_MAX) := by omega
  have hp' : size = 0 ∨ p % size ≠ 0 := Or.inr hp
  constructor
  · simp [send, Dg.generate, Dg1.generate, Res.bind, hn', hf', StmCfg.intoSamplingConfig, hp']
  · simp [send, Dg.generate, Dg1.generate, Res.bind, hg', StmCfg.intoSamplingConfig, hp']

/-- **STM sampling configuration** (every `STMConfig` variant whose derived `SamplingConfig` is
invalid: frequency · size out of range or not a divisor of 40 kHz, period / size out of range or not a
multiple of 25 µs, an invalid `SamplingConfig` passed through): refused with that error, no frame. -/
theorem rejected_stm_sampling (numTr n mode size : Nat) (cfg : StmCfg) (sc : SCfg) (k : ErrKind) (pts : Points)
    (hn : 1 ≤ n ∧ n ≤ FOCI_STM_FOCI_NUM_MAX)
    (hf : STM_BUF_SIZE_MIN ≤ size * n ∧ size * n ≤ FOCI_STM_BUF_SIZE_MAX)
    (hg : STM_BUF_SIZE_MIN ≤ size ∧ size ≤ GAIN_STM_BUF_SIZE_MAX)
    (hs : cfg.intoSamplingConfig size = .ok sc) (hc : sc.validate = .error k) :
    send numTr (.single (.fociStm n size cfg pts)) = (.err k, 0) ∧
    send numTr (.single (.gainStm mode size cfg)) = (.err k, 0) := by
  have hn' : ¬ (n = 0 ∨ n > FOCI_STM_FOCI_NUM_MAX) := by omega
  have hf' : ¬ (size * n < STM_BUF_SIZE_MIN ∨ size * n > FOCI_STM_BUF_SIZE_MAX) := by omega
  have hg' : ¬ (size < STM_BUF_SIZE_MIN ∨ size > GAIN_STM_BUF_SIZE_MAX) := by omega
  constructor
  · simp [send, Dg.generate, Dg1.generate, Res.bind, hn', hf', hs, hc]
  · simp [send, Dg.generate, Dg1.generate, Res.bind, hg', hs, hc]

/-- what "invalid sampling period" means is exactly what the property says: a `SamplingConfig::Period`
is accepted iff it is a multiple of 25 µs between 25 µs and 65535 · 25 µs -/
theorem sampling_period_valid_iff (ns : Nat) :
    (SCfg.period ns).validate = .ok () ↔
      ns % 25000 = 0 ∧ 1 ≤ ns / 25000 ∧ ns / 25000 ≤ 65535 := by
  simp only [SCfg.validate, ULTRASOUND_PERIOD_NS]
  by_cases ha : 25000 ≤ ns ∧ ns ≤ 65535 * 25000
  · by_cases hb : ns % 25000 = 0
    · simp [ha, hb]; omega
    · simp [ha, hb]
  · simp [ha]; omega

-- ------------------------------------------------------------------------------------------------
-- transition modes

/-- **Gain with a transition mode other than `Immediate`** (`SyncIdx`, `SysTime`, `GPIO`, `Ext`): refused
with `InvalidTransitionMode`, no frame; the same for `SwapSegment::Gain`. -/
theorem rejected_gain_transition (numTr m : Nat) (h : m ≠ TRANSITION_MODE_IMMEDIATE) :
    send numTr (.single (.gain (some m))) = (.err .invalidTransitionMode, 0) ∧
    send numTr (.single (.swapGain m)) = (.err .invalidTransitionMode, 0) := by
  constructor <;>
    simp [send, Dg.generate, Dg1.generate, Res.bind, sendLoop, packOp2, Op.isDone, Op.pack, h]

-- ------------------------------------------------------------------------------------------------
-- silencer completion time

/-- the arithmetic of the code (`ns · 40000 mod 10^9`, then `/ 10^9`) decides exactly
`completionTimeDefect` (`Lemmas/Reject.lean`): not a multiple of 25 µs / a multiple outside 1..=65535 -/
theorem silencerSteps_spec (ns : Nat) :
    silencerSteps ns = match completionTimeDefect ns with
      | some k => .error k
      | none => .ok (ns / 25000) := by
  unfold silencerSteps completionTimeDefect
  simp only [ULTRASOUND_FREQ]
  have hm : (ns * 40000) % 1000000000 ≠ 0 ↔ ns % 25000 ≠ 0 := by omega
  by_cases h1 : ns % 25000 ≠ 0
  · simp [hm.mpr h1, h1]
  · have h1' : ns % 25000 = 0 := by omega
    have hd : ns * 40000 / 1000000000 = ns / 25000 := by omega
    have h0 : ¬ (ns * 40000) % 1000000000 ≠ 0 := fun h => h1 (hm.mp h)
    simp only [h0, if_false, h1, hd]
    split <;> simp_all

/-- **Silencer `FixedCompletionTime`** whose intensity or phase time is not a multiple of 25 µs or is out
of range: refused with the intensity's error first, else the phase's; no frame. -/
theorem rejected_silencer_time (numTr i p : Nat) (k : ErrKind)
    (h : completionTimeDefect i = some k ∨ (completionTimeDefect i = none ∧ completionTimeDefect p = some k)) :
    send numTr (.single (.silencerTime i p)) = (.err k, 0) := by
  have hi := silencerSteps_spec i
  have hp := silencerSteps_spec p
  rcases h with h | ⟨h1, h2⟩
  · rw [h] at hi
    simp [send, Dg.generate, Dg1.generate, Res.bind, sendLoop, packOp2, Op.isDone, Op.pack, hi]
  · rw [h1] at hi; rw [h2] at hp
    simp [send, Dg.generate, Dg1.generate, Res.bind, sendLoop, packOp2, Op.isDone, Op.pack, hi, hp]

-- ------------------------------------------------------------------------------------------------
-- focal points

/-- `STMFocus::create` refuses every point with a NaN or infinite coordinate (fix-4; before, NaN
became the fixed-point value 0 and passed the range check) -/
theorem nonfinite_point_refused (x y z : Nat)
    (h : F32.isFinite x = false ∨ F32.isFinite y = false ∨ F32.isFinite z = false) :
    createFocus (x, y, z) = .error .fociStmPointOutOfRange := by
  unfold createFocus
  rcases h with h | h | h <;> simp [h]

/-- and every point one of whose coordinates converts to a fixed-point number outside the range of
its axis -/
theorem out_of_range_point_refused (x y z : Nat)
    (h : ¬ (FOCI_STM_FIXED_NUM_LOWER_X ≤ toFixedNum x ∧ toFixedNum x ≤ (FOCI_STM_FIXED_NUM_UPPER_X : Int)) ∨
         ¬ (FOCI_STM_FIXED_NUM_LOWER_Y ≤ toFixedNum y ∧ toFixedNum y ≤ (FOCI_STM_FIXED_NUM_UPPER_Y : Int)) ∨
         ¬ (FOCI_STM_FIXED_NUM_LOWER_Z ≤ toFixedNum z ∧ toFixedNum z ≤ (FOCI_STM_FIXED_NUM_UPPER_Z : Int))) :
    createFocus (x, y, z) = .error .fociStmPointOutOfRange := by
  unfold createFocus
  simp only []
  split
  · rfl
  · rcases h with h | h | h <;> simp [h]

/-- **Focal point defect at any index**: a FociSTM of valid shape and configuration one of whose points
— pattern `i`, focus `j`, anywhere — is refused by `STMFocus::create` (NaN, ±∞, out of range) ends
in `FociSTMPointOutOfRange`: not `Ok`, not a panic (frames of earlier patterns may have been sent). -/
theorem rejected_focus_point (numTr n size : Nat) (cfg : StmCfg) (sc : SCfg) (pts : Points) (i j : Nat)
    (hn : 1 ≤ n ∧ n ≤ FOCI_STM_FOCI_NUM_MAX)
    (hf : STM_BUF_SIZE_MIN ≤ size * n ∧ size * n ≤ FOCI_STM_BUF_SIZE_MAX)
    (hs : cfg.intoSamplingConfig size = .ok sc) (hc : sc.validate = .ok ())
    (hi : i < size) (hj : j < n) (hbad : createFocus (pts i j) = .error .fociStmPointOutOfRange) :
    (send numTr (.single (.fociStm n size cfg pts))).1 = .err .fociStmPointOutOfRange := by
  have hn' : ¬ (n = 0 ∨ n > FOCI_STM_FOCI_NUM_MAX) := by omega
  have hf' : ¬ (size * n < STM_BUF_SIZE_MIN ∨ size * n > FOCI_STM_BUF_SIZE_MAX) := by omega
  have hgen : (Dg.single (.fociStm n size cfg pts)).generate = .ok (.foci n size 0 sc pts, .null) := by
    simp [Dg.generate, Dg1.generate, Res.bind, hn', hf', hs, hc]
  have hpb : patternBad pts i n = true :=
    (patternBad_iff pts i n).mpr ⟨j, hj, (focusBad_iff _).mpr hbad⟩
  simp only [send, hgen]
  exact foci_loop_bad numTr n size sc pts hn hf hc _ 0 0 (by omega) ⟨i, by omega, hi, hpb⟩
    (by simp [Op.work]; omega)

-- ------------------------------------------------------------------------------------------------
-- tuples

/-- **Defect in the first member of a tuple** — refused when its generator is built (STM size, foci
count, period, sampling configuration) or by its first `pack` (modulation size / sampling
configuration, Gain transition, silencer time): the tuple is refused and no frame is transmitted,
whatever the second member is. -/
theorem tuple_first_member_rejected (numTr : Nat) (a b : Dg1) (k : ErrKind)
    (ha : a.generate = .err k ∨ Dg1.lazyErr a = some k) (hb : b.generate.isPanic = false) :
    ∃ k', send numTr (.pair a b) = (.err k', 0) := by
  rcases ha with ha | ha
  · refine ⟨k, ?_⟩
    cases hg : b.generate with
    | panic s => rw [hg] at hb; cases hb
    | ok ob => simp [send, Dg.generate, ha, hg]
    | err kb => simp [send, Dg.generate, ha, hg]
  · obtain ⟨oa, hga, hda, hpa⟩ := lazyErr_pack numTr a k ha
    cases hg : b.generate with
    | panic s => rw [hg] at hb; cases hb
    | err kb => exact ⟨kb, by simp [send, Dg.generate, hga, hg]⟩
    | ok ob =>
      refine ⟨k, ?_⟩
      obtain ⟨f, hf⟩ : ∃ f, oa.work + ob.work + 1 = f + 1 := ⟨oa.work + ob.work, rfl⟩
      have hreq : DrvLayout.ModulationHead_size ≤ payloadSize := by
        simp [payloadSize, EC_OUTPUT_FRAME_SIZE, DrvLayout.Header_size, DrvLayout.ModulationHead_size]
      simp only [send, Dg.generate, hga, hg, hf]
      exact sendLoop_first_refuses numTr f oa ob k hda (hpa _ (Or.inl hreq))

/-- **Defect in the second member, found when its generator is built** (STM size 0/1/over, N outside
1..=8, period not a multiple, invalid STM sampling configuration): refused, no frame, whatever the
first member is. -/
theorem tuple_second_member_rejected_eager (numTr : Nat) (a b : Dg1) (k : ErrKind)
    (ha : a.generate.isPanic = false) (hb : b.generate = .err k) :
    ∃ k', send numTr (.pair a b) = (.err k', 0) := by
  cases hg : a.generate with
  | panic s => rw [hg] at ha; cases ha
  | err ka => exact ⟨ka, by simp [send, Dg.generate, hg, hb]⟩
  | ok oa => exact ⟨k, by simp [send, Dg.generate, hg, hb]⟩

/- FULL STATEMENT (not provable: false on the current tree, see the counterexample below):
   theorem tuple_second_member_rejected_lazy … (hb : Dg1.lazyErr b = some k) : send numTr (.pair a b) = (.err k, 0)
   Missing: Gain / SwapSegment::Gain transition mode, Modulation size / sampling configuration and silencer
   completion time are validated inside `Operation::pack`, i.e. only when the second member is packed;
   when it does not fit behind the first member's first frame (hypothesis `hfit` fails) that frame has
   already been sent. -/
/-- **Defect in the second member, found by its first `pack`**, when the second member fits behind the
first member in the first frame: refused with that error, no frame. -/
theorem tuple_second_member_rejected_lazy_partial (numTr : Nat) (a b : Dg1) (oa oa' ob : Op) (s1 : Nat) (k : ErrKind)
    (ha : a.generate = .ok oa) (hda : oa.isDone = false)
    (hpa : oa.pack numTr payloadSize = .ok (oa', s1)) (hs1 : s1 ≤ payloadSize)
    (hb : Dg1.lazyErr b = some k) (hgb : b.generate = .ok ob)
    (hfit : payloadSize - s1 ≥ ob.required numTr) :
    send numTr (.pair a b) = (.err k, 0) := by
  obtain ⟨ob', hgb', hdb, hpb⟩ := lazyErr_pack numTr b k hb
  rw [hgb] at hgb'
  simp only [Res.ok.injEq] at hgb'
  subst hgb'
  obtain ⟨f, hf⟩ : ∃ f, oa.work + ob.work + 1 = f + 1 := ⟨oa.work + ob.work, rfl⟩
  simp only [send, Dg.generate, ha, hgb, hf]
  exact sendLoop_second_refuses numTr f oa oa' ob s1 k hda hdb hpa hs1 hfit (hpb _ (Or.inr hfit))

/-- **Silencer completion time or `SwapSegment::Gain` transition defect in the second member**: always
refused without a frame, behind *any* first member — these operations (6 and 2 bytes) fit behind the
first frame of everything (a device has at most 249 transducers; `simple` datagrams are at most 616
bytes).  So the residue above concerns only a defective `Gain` (502 bytes) or `Modulation` (18 bytes)
as second member. -/
theorem tuple_second_member_small_rejected (numTr : Nat) (a b : Dg1) (oa : Op) (k : ErrKind)
    (hnt : numTr ≤ 249) (hsz : ∀ sz, a = .simple sz → sz + 6 ≤ payloadSize)
    (hb : (∃ i p, b = .silencerTime i p) ∨ (∃ m, b = .swapGain m)) (hbk : Dg1.lazyErr b = some k)
    (ha : a.generate = .ok oa) (hpa : (oa.pack numTr payloadSize).isPanic = false) :
    ∃ k', send numTr (.pair a b) = (.err k', 0) := by
  obtain ⟨ob, hgb, hdb, hpb⟩ := lazyErr_pack numTr b k hbk
  have hda := generate_not_done a oa ha
  obtain ⟨f, hf⟩ : ∃ f, oa.work + ob.work + 1 = f + 1 := ⟨oa.work + ob.work, rfl⟩
  have hreq : ob.required numTr ≤ 6 := by
    rcases hb with ⟨i, p, rfl⟩ | ⟨m, rfl⟩ <;> simp [Dg1.generate] at hgb <;> subst hgb <;>
      simp [Op.required, SilencerFixedCompletionTime_size, DrvLayout.SwapSegmentT_size]
  cases hp : oa.pack numTr payloadSize with
  | panic s => rw [hp] at hpa; cases hpa
  | err k' =>
    refine ⟨k', ?_⟩
    simp only [send, Dg.generate, ha, hgb, hf]
    exact sendLoop_first_refuses numTr f oa ob k' hda hp
  | ok r =>
    obtain ⟨oa', s1⟩ := r
    have hroom := first_pack_leaves_room numTr a oa oa' s1 hnt hsz ha hp
    have hfit : payloadSize - s1 ≥ ob.required numTr := by omega
    refine ⟨k, ?_⟩
    simp only [send, Dg.generate, ha, hgb, hf]
    exact sendLoop_second_refuses numTr f oa oa' ob s1 k hda hdb hp (by omega) hfit (hpb _ (Or.inr hfit))

/-- the excluded case is real: a Gain with `SyncIdx` behind a 300-sample modulation does not fit into the
first frame (16 + 254 bytes used, 502 needed), so one frame carrying the modulation is transmitted
before `InvalidTransitionMode` comes back -/
example : send 249 (.pair (.modulation 300 (.division 10)) (.gain (some 0))) = (.err .invalidTransitionMode, 1) := by
  decide
/-- … and a one-sample modulation behind a full FociSTM<1> frame (24 + 74·8 = 616 of 622 bytes used) -/
example : send 249 (.pair (.fociStm 1 100 (.sampling (.division 100)) (fun _ _ => (0, 0, 0x43160000)))
    (.modulation 1 (.division 10))) = (.err .modulationSizeOutOfRange, 1) := by
  decide +kernel

-- ------------------------------------------------------------------------------------------------
-- non-vacuity: concrete, non-trivial instances of every hypothesis

example : send 249 (.single (.modulation 65537 (.division 10))) = (.err .modulationSizeOutOfRange, 0) :=
  rejected_modulation_size 249 65537 _ (by decide)
example : send 249 (.single (.modulation 0 (.freq 0))) = (.err .modulationSizeOutOfRange, 0) :=
  rejected_modulation_size 249 0 _ (by decide)
example : send 249 (.single (.fociStm 9 0 (.period 1000000) (fun _ _ => (0, 0, 0)))) = (.err .fociStmNumFociOutOfRange, 0) :=
  rejected_foci_num_foci 249 9 0 _ _ (by decide)
/-- F3's witness: size 0 with a `Duration` configuration -/
example : send 249 (.single (.fociStm 1 0 (.period 1000000) (fun _ _ => (0, 0, 0)))) = (.err .fociStmTotalSizeOutOfRange, 0) :=
  rejected_foci_size 249 1 0 _ _ (by decide) (by decide)
example : send 249 (.single (.fociStm 8 8193 (.freqNearest 0x3f800000) (fun _ _ => (0, 0, 0)))) = (.err .fociStmTotalSizeOutOfRange, 0) :=
  rejected_foci_size 249 8 8193 _ _ (by decide) (by decide)
/-- F2's witness: an empty GainSTM -/
example : send 249 (.single (.gainStm 0 0 (.sampling (.division 100)))) = (.err .gainStmSizeOutOfRange, 0) :=
  rejected_gainstm_size 249 0 0 _ (by decide)
example : send 249 (.single (.gainStm 2 1025 (.periodNearest 0))) = (.err .gainStmSizeOutOfRange, 0) :=
  rejected_gainstm_size 249 2 1025 _ (by decide)
example : (StmCfg.period 1000000).intoSamplingConfig 0 = .err .stmPeriodInvalid := rfl
example : (StmCfg.periodNearest 1000000).intoSamplingConfig 0 = .err .stmPeriodInvalid := rfl
example : (StmCfg.period 1000000).intoSamplingConfig 10 = .ok (.period 100000) := by decide
/-- 7000 Hz does not divide 40 kHz -/
example : send 249 (.single (.modulation 10 (.freq 0x45dac000))) = (.err .scFreqInvalidF, 0) :=
  rejected_modulation_sampling 249 10 _ _ (by decide) (by decide +kernel)
example : send 249 (.single (.modulation 65536 (.period 37500))) = (.err .scPeriodInvalid, 0) :=
  rejected_modulation_sampling 249 65536 _ _ (by decide) (by decide)
example : (SCfg.freq 0x7fc00000).validate = .error .scFreqOutOfRangeF := by decide +kernel
example : (SCfg.freq 0x457a0000).validate = .ok () := by decide +kernel
example : send 249 (.single (.fociStm 2 10 (.period 1000001) (fun _ _ => (0, 0, 0)))) = (.err .stmPeriodInvalid, 0) :=
  (rejected_stm_period 249 2 0 10 1000001 _ (by decide) (by decide) (by decide) (by decide)).1
/-- 5000 Hz × 10 patterns = 50 kHz sampling -/
example : send 249 (.single (.gainStm 1 10 (.freq 0x459c4000))) = (.err .scFreqOutOfRangeF, 0) :=
  (rejected_stm_sampling 249 1 1 10 (.freq 0x459c4000) (.freq (F32.mul 0x459c4000 (f32OfNat 10))) _ (fun _ _ => (0, 0, 0))
    (by decide) (by decide) (by decide) rfl (by decide +kernel)).2
/-- a period of 10 × 37.5 µs -/
example : send 249 (.single (.fociStm 1 10 (.period 375000) (fun _ _ => (0, 0, 0)))) = (.err .scPeriodInvalid, 0) :=
  (rejected_stm_sampling 249 1 0 10 (.period 375000) (.period 37500) _ _
    (by decide) (by decide) (by decide) (by decide) (by decide)).1
example : send 249 (.single (.gain (some TRANSITION_MODE_SYNC_IDX))) = (.err .invalidTransitionMode, 0) :=
  (rejected_gain_transition 249 _ (by decide)).1
example : send 249 (.single (.swapGain TRANSITION_MODE_EXT)) = (.err .invalidTransitionMode, 0) :=
  (rejected_gain_transition 249 _ (by decide)).2
example : send 249 (.single (.silencerTime 30000 25000)) = (.err .invalidSilencerCompletionTime, 0) :=
  rejected_silencer_time 249 _ _ _ (Or.inl (by decide))
example : send 249 (.single (.silencerTime 25000 (65536 * 25000))) = (.err .silencerCompletionTimeOutOfRange, 0) :=
  rejected_silencer_time 249 _ _ _ (Or.inr ⟨by decide, by decide⟩)
example : completionTimeDefect (40 * 25000) = none := by decide
/-- no enabled device: the 65537-sample modulation is answered `(ok, 1)`, the empty GainSTM is still refused -/
example : sendMasked 249 false (.single (.modulation 65537 (.division 10))) = (.ok (), 1) := by rfl
example : sendMasked 249 false (.single (.gainStm 0 0 (.sampling (.division 100)))) = (.err .gainStmSizeOutOfRange, 0) :=
  sendMasked_generator_error 249 false _ _ rfl
/-- F5's witnesses: NaN, and −∞ in the last focus of the last pattern of a 100 × 2 FociSTM (third frame) -/
example : createFocus (0x7fc00000, 0, 0x43160000) = .error .fociStmPointOutOfRange :=
  nonfinite_point_refused _ _ _ (Or.inl (by decide))
example : (send 249 (.single (.fociStm 2 100 (.sampling (.division 100))
    (fun i j => if i = 99 ∧ j = 1 then (0, 0, 0xff800000) else (0, 0, 0x43160000))))).1 = .err .fociStmPointOutOfRange :=
  rejected_focus_point 249 2 100 _ (.division 100) _ 99 1 (by decide) (by decide) rfl rfl (by decide) (by decide)
    (nonfinite_point_refused _ _ _ (Or.inr (Or.inr (by decide))))
/-- 3276.8 mm is one unit beyond the largest x the device can address (131072 > 131071) -/
example : createFocus (0x454ccccd, 0, 0) = .error .fociStmPointOutOfRange :=
  out_of_range_point_refused _ _ _ (Or.inl (by decide +kernel))
example : createFocus (0, 0, 0x43160000) = .ok (0, 0, 6000) := by rfl
example : ∃ k', send 249 (.pair (.gainStm 0 0 (.sampling (.division 100))) (.modulation 10 (.division 10))) = (.err k', 0) :=
  tuple_first_member_rejected 249 _ _ .gainStmSizeOutOfRange (Or.inl rfl) rfl
example : ∃ k', send 249 (.pair (.gain (some 0)) (.modulation 10 (.division 10))) = (.err k', 0) :=
  tuple_first_member_rejected 249 _ _ .invalidTransitionMode (Or.inr (by decide)) rfl
example : ∃ k', send 249 (.pair (.gain none) (.gainStm 0 1025 (.sampling (.division 100)))) = (.err k', 0) :=
  tuple_second_member_rejected_eager 249 _ _ .gainStmSizeOutOfRange rfl rfl
/-- a silencer time that is not a multiple of 25 µs, behind a full GainSTM frame (514 of 622 bytes) -/
example : send 249 (.pair (.gainStm 0 3 (.sampling (.division 100))) (.silencerTime 30000 25000)) =
    (.err .invalidSilencerCompletionTime, 0) :=
  tuple_second_member_rejected_lazy_partial 249 _ _ (.gstm 0 3 0 (.division 100)) (.gstm 0 3 1 (.division 100))
    (.silTime 30000 25000 false) 514 _ rfl rfl rfl (by decide) (by decide) rfl (by decide)
/-- a silencer time that is not a multiple of 25 µs behind a 65536-point FociSTM<1> -/
example : ∃ k', send 249 (.pair (.fociStm 1 65536 (.sampling (.division 100)) (fun _ _ => (0, 0, 0x43160000)))
    (.silencerTime 30000 25000)) = (.err k', 0) :=
  tuple_second_member_small_rejected 249 _ _ (.foci 1 65536 0 (.division 100) _) .invalidSilencerCompletionTime
    (by decide) (by intro sz h; cases h) (Or.inl ⟨_, _, rfl⟩) (by decide) rfl (by decide +kernel)

end Autd3.Reject
