import Autd3.Lemmas.Holo
import Autd3.Lemmas.HoloConstraint
import Autd3.Lemmas.HoloIdeal
/-!
# C15 — holographic gains produce the requested foci and respect their constraints (PARTIAL)

Property theorems only (helpers: `Lemmas/Holo.lean`, `Lemmas/HoloConstraint.lean`,
`Lemmas/HoloIdeal.lean`).

What is proved, and about what:

* **A. the emission constraint** — about `Holo.convert` (`Model/Holo.lean`, executed by the `holo`
  driver; exact binary32 model `Model/F32.lean`), the model of `EmissionConstraint::convert` *after
  fix-1*: for every variant, every bound and **every** pair of floats (NaN, ±∞, subnormals):
  `constraint_respected`, `clamp_fix_conservative`, `clamp_inverted_panics` (observation O2),
  `normalize_full_scale`.
* **B. the index bookkeeping** — about `Holo.propagationMatrix`, `Holo.generateResult`,
  `Holo.calcIdx`, `Holo.greedy` (same file, same driver), the model of the four code paths of
  `generate_propagation_matrix`, of `generate_result`/`generate`/`calc` and of `Greedy`'s index
  list: for every geometry, enable mask, filter and number of foci, and every order in which the
  thread pool takes the devices: `columns_are_the_selected_transducers`, `holo_columns_match`,
  `ptr_path_order_independent`, `ptr_writes_disjoint`, `calc_reads_own_column`, `filter_all_true_eq_none`,
  `disabled_devices_invisible`, `greedy_null_outside_filter`.
* **C. the single-target pattern in exact arithmetic** — about the *ideal* computation over ℂ
  (`Lemmas/HoloIdeal.lean`; not executable, not run by the driver, tied to the code only through the
  numerical oracle of the `holo` stream): `linear_single_focus_phase`, `single_focus_field_exact`,
  `gs_single_focus`.

RESIDUE — stated in the property, **not** carried by any theorem here, because they are statements
about iterative `f32` computations inside nalgebra/libm that this development does not model:

    -- for a single target with request a ≤ 0.7 · P_full:  | |Σ_i a_i e^{iφ_i} g_i| / a − 1 | ≤ few %   (all five solvers)
    -- for a single target with request a > P_full:         |field| ≥ (large fraction) · P_full
    -- Naive/GS/GSPAT drives quantised to 256 phase steps differ from Focus by one common offset ± 1 step
    -- several targets, equal reachable requests: min_k |field_k| ≥ c · a  and  max_k/min_k ≤ C
    -- LM and Greedy: everything beyond the index/constraint facts

These remain *numerical support checks* in `vh holo` (f64 field evaluation; thresholds and measured
margins are in the evidence distribution) and are labelled as tests.  Part C proves the first three
clauses for the exact-arithmetic Naive/GS/GSPAT (no rounding, no quantisation, no clamping).
-/
namespace Autd3.Holo
open Autd3 Autd3.F32

/-! ## A. every returned intensity satisfies the chosen emission constraint -/

/-- **constraint_respected**: for every float `value`, `max_value` (NaN and ±∞ included):
`Uniform(v)` returns `v`; `Clamp(lo, hi)` with `lo ≤ hi` returns a byte in `[lo, hi]` and never
panics; `Normalize` and `Multiply(v)` (any float `v`) never panic and return a byte.
(`hi ≤ 255`: the bounds are `u8`.) -/
theorem constraint_respected (c : Constraint) (value maxValue : F32) :
    match c with
    | .uniform v => convert c value maxValue = .ok v
    | .clamp lo hi => lo ≤ hi → hi ≤ 255 → ∃ r, convert c value maxValue = .ok r ∧ lo ≤ r ∧ r ≤ hi
    | .normalize => ∃ r, convert c value maxValue = .ok r ∧ r ≤ 255
    | .multiply _ => ∃ r, convert c value maxValue = .ok r ∧ r ≤ 255 := by
  cases c with
  | uniform v => rfl
  | clamp lo hi =>
    intro hab hb
    have hle := (le_ofNat_iff lo hi (by omega) hb).mpr hab
    obtain ⟨r, h1, h2, h3⟩ := clampU8_between
      (toU8 (F32.clamp (F32.roundHalfAway (F32.mul value c255)) (F32.ofNat lo) (F32.ofNat hi))) lo hi hab
    exact ⟨r, by simp only [convert, clampChecked, hle, if_true, bind, Except.bind]; exact h1, h2, h3⟩
  | normalize => exact ⟨_, rfl, toU8_le_255 _⟩
  | multiply v =>
    have hle : F32.le c0 c255 = true := by decide
    exact ⟨toU8 (F32.clamp (F32.roundHalfAway (F32.mul (F32.mul (F32.div value maxValue) c255) v)) c0 c255),
      by simp only [convert, clampChecked, hle, if_true, bind, Except.bind, pure, Except.pure], toU8_le_255 _⟩

/-- **clamp_fix_conservative**: for a non-NaN coefficient the second (integer) clamp of fix-1 does
nothing: the result is what the code returned before, `(value*255).round().clamp(lo, hi) as u8`,
and that already lies in `[lo, hi]` (for ±∞ and every finite float). -/
theorem clamp_fix_conservative (lo hi : Nat) (value maxValue : F32) (hab : lo ≤ hi) (hb : hi ≤ 255)
    (hv : value ≠ .nan) :
    convert (.clamp lo hi) value maxValue =
      .ok (toU8 (F32.clamp (F32.roundHalfAway (F32.mul value c255)) (F32.ofNat lo) (F32.ofNat hi))) := by
  obtain ⟨R, h1, h2, h3⟩ := clamp_cast_between (F32.roundHalfAway (F32.mul value c255)) lo hi hab hb
    (roundHalfAway_ne_nan _ (mul_c255_ne_nan _ hv))
  have hR : R = F32.clamp (F32.roundHalfAway (F32.mul value c255)) (F32.ofNat lo) (F32.ofNat hi) := by
    unfold clampChecked at h1
    split at h1
    · injection h1 with h1; exact h1.symm
    · cases h1
  simp only [convert, h1, bind, Except.bind]
  rw [clampU8_id _ _ _ h2 h3, hR]

/-- **clamp_inverted_panics** (observation O2): `Clamp(lo, hi)` with `lo > hi` panics in
`f32::clamp` for every coefficient — no intensity is returned; the constraint is unsatisfiable. -/
theorem clamp_inverted_panics (lo hi : Nat) (value maxValue : F32) (hab : hi < lo) (hb : lo ≤ 255) :
    convert (.clamp lo hi) value maxValue = .error .clampMinGtMax := by
  have hle : F32.le (F32.ofNat lo) (F32.ofNat hi) = false := by
    have := (le_ofNat_iff lo hi hb (by omega)).not
    simpa using this.mpr (by omega)
  simp only [convert, clampChecked, hle, Bool.false_eq_true, if_false, bind, Except.bind]

/-- **normalize_full_scale**: under `Normalize` the transducer that carries the largest coefficient
(`value = max_value`, any finite non-zero float of either sign) is driven at full scale, 255. -/
theorem normalize_full_scale (s : Bool) (m : Nat) (e : Int) (hm : 0 < m) :
    convert .normalize (.fin s m e) (.fin s m e) = .ok 255 :=
  normalize_self s m e hm

-- non-vacuity / concrete instances (the NaN witness of the pre-fix defect; a halfway value; O2)
example : convert (.clamp 10 200) .nan (.fin false 1 0) = .ok 10 := by decide +kernel
example : convert (.clamp 64 192) (F32.ofBits 0x3f000000) (F32.ofBits 0x3f800000) = .ok 128 := by decide +kernel
example : convert (.clamp 200 100) (F32.ofBits 0x3f000000) (F32.ofBits 0x3f800000) = .error .clampMinGtMax := by
  decide +kernel
example : convert .normalize (F32.ofBits 0x3fc00000) (F32.ofBits 0x40000000) = .ok 191 := by decide +kernel

/-! ## B. which solution-vector entry belongs to which transducer -/

/-- **columns_are_the_selected_transducers** (what the column list *is*): `(i, t)` is a column iff
device `i` exists and is enabled, `t` is one of its transducers and — when a filter is given — the
filter has an entry for device `i` whose bit `t` is set; and no column occurs twice. -/
theorem columns_are_the_selected_transducers (geo : Geo) (filter : Option Filter) :
    (cols geo filter).Nodup ∧
    ∀ i t, (i, t) ∈ cols geo filter ↔
      ∃ dev, geo[i]? = some dev ∧ dev.enable = true ∧ t < dev.numTr ∧
        (filter = none ∨ ∃ f bv, filter = some f ∧ f i = some bv ∧ bv[t]? = some true) := by
  refine ⟨colsFrom_nodup filter 0 geo, fun i t => ?_⟩
  rw [cols, mem_colsFrom]
  constructor
  · rintro ⟨j, dev, h1, h2, h3, h4⟩
    rw [Nat.zero_add] at h1; subst h1
    exact ⟨dev, h2, h3, (mem_sel filter i dev t).mp h4⟩
  · rintro ⟨dev, h2, h3, h4⟩
    exact ⟨i, dev, by omega, h2, h3, (mem_sel filter i dev t).mpr h4⟩

/-- **holo_columns_match** (fill side): for every geometry, enable mask, well-formed filter and
number of foci `m`, `generate_propagation_matrix` — whichever of its four code paths is taken —
does not panic and returns the `m × n` matrix whose entry `(j, c)` is the propagation from the
`c`-th selected transducer to focus `j`: every cell written (none left uninitialised), no write
outside the allocation, `n` = number of selected transducers. -/
theorem holo_columns_match (geo : Geo) (filter : Option Filter) (m : Nat) (h : WF geo filter) :
    propagationMatrix geo filter m = .ok ⟨m, (cols geo filter).length, specData m (cols geo filter)⟩ ∧
    ∀ c j, j < m → (specData m (cols geo filter))[m * c + j]? =
      ((cols geo filter)[c]?).map fun x => some ⟨j, x.1, x.2⟩ :=
  ⟨propagationMatrix_ok geo filter m h, fun c j hj => specData_getElem? m _ c j hj⟩

/-- **ptr_path_order_independent**: the two raw-pointer paths (`uninit_mat` + `par_for_each!`) give
that same matrix for **every** order in which the thread pool processes the devices. -/
theorem ptr_path_order_independent (geo : Geo) (filter : Option Filter) (m : Nat) (h : WF geo filter)
    (order : List (Nat × Dev)) (ho : order.Perm (devices geo)) :
    ptrPath filter m (totalN geo filter) (numTransducers geo filter) order =
      .ok ⟨m, (cols geo filter).length, specData m (cols geo filter)⟩ :=
  ptrPath_ok geo filter m h order ho

/-- **ptr_writes_disjoint**: in the raw-pointer paths device `d` writes the cells of the columns
`pre d ≤ c < pre d + (number of its selected transducers)` (`InBlock`; that these are the cells it
writes is `devWrite_spec`), and the column ranges of two different enabled devices never overlap:
the unsynchronised parallel writes through `Ptr` (`unsafe impl Send/Sync`) never alias. -/
theorem ptr_writes_disjoint (geo : Geo) (filter : Option Filter) (d d' : Nat × Dev) (hd : d ∈ devices geo)
    (hd' : d' ∈ devices geo) (c : Nat) (hb : InBlock filter geo d c) (hb' : InBlock filter geo d' c) : d = d' :=
  blocks_disjoint geo filter d d' hd hd' c hb hb'

/-- **calc_reads_own_column** (read-back side): `generate_result` does not panic, and for every
enabled device `i` and transducer `t`, `generate(device).calc(tr)` either reads the solution entry
`c` whose matrix column is `(i, t)` itself, or — exactly when `(i, t)` has no column — returns
`Drive::NULL`; it never panics (`n` = length of the solution vector). -/
theorem calc_reads_own_column (geo : Geo) (filter : Option Filter) (h : WF geo filter) (i : Nat) (dev : Dev)
    (hd : (i, dev) ∈ devices geo) (t : Nat) (ht : t < dev.numTr) :
    ∃ mp, generateResult geo filter = .ok mp ∧
      (((i, t) ∈ cols geo filter ∧ ∃ c, calcIdx mp (cols geo filter).length i t = .ok (some c) ∧
          (cols geo filter)[c]? = some (i, t)) ∨
       ((i, t) ∉ cols geo filter ∧ calcIdx mp (cols geo filter).length i t = .ok none)) := by
  obtain ⟨mp, h1, h2⟩ := calcIdx_spec geo filter h i dev hd t ht
  obtain ⟨j0, hj0, hg, he⟩ := mem_devicesFrom.mp hd
  rw [Nat.zero_add] at hj0; subst hj0
  have hmem : (i, t) ∈ cols geo filter ↔ t ∈ sel filter i dev := by
    rw [cols, mem_colsFrom]
    constructor
    · rintro ⟨j, dev', e1, e2, _, e4⟩
      rw [Nat.zero_add] at e1; subst e1
      rw [hg] at e2; injection e2 with e2; subst e2; exact e4
    · intro h4; exact ⟨i, dev, by omega, hg, he, h4⟩
  refine ⟨mp, h1, ?_⟩
  rcases h2 with ⟨a, b⟩ | ⟨a, b⟩
  · exact Or.inl ⟨hmem.mpr a, b⟩
  · exact Or.inr ⟨fun x => a (hmem.mp x), b⟩

/-- **filter_all_true_eq_none**: a filter that is all-true for every enabled device gives the same
matrix (same columns, same order) as no filter, and every transducer reads the same solution entry. -/
theorem filter_all_true_eq_none (geo : Geo) (f : Filter) (hall : AllTrue geo f) (m : Nat) :
    propagationMatrix geo (some f) m = propagationMatrix geo none m ∧
    ∃ mp mp', generateResult geo (some f) = .ok mp ∧ generateResult geo none = .ok mp' ∧
      ∀ i dev, (i, dev) ∈ devices geo → ∀ t, t < dev.numTr →
        calcIdx mp (cols geo (some f)).length i t = calcIdx mp' (cols geo none).length i t := by
  have hwf := hall.wf
  have hwf' : WF geo none := fun f' hf => by cases hf
  have hc := cols_allTrue hall
  refine ⟨by rw [propagationMatrix_ok geo _ m hwf, propagationMatrix_ok geo _ m hwf', hc], ?_⟩
  obtain ⟨mp, hmp⟩ : ∃ mp, generateResult geo (some f) = .ok mp := by
    obtain ⟨mp, h1, _⟩ := genLeft_lookup f geo 0 0 hwf
    exact ⟨mp, h1⟩
  refine ⟨mp, genRight 0 0 geo, hmp, rfl, ?_⟩
  intro i dev hd t ht
  obtain ⟨mp1, g1, g2⟩ := calcIdx_spec geo (some f) hwf i dev hd t ht
  obtain ⟨mp2, k1, k2⟩ := calcIdx_spec geo none hwf' i dev hd t ht
  rw [hmp] at g1; injection g1 with g1; subst g1
  have k1' : mp2 = genRight 0 0 geo := by injection k1 with k1; exact k1.symm
  subst k1'
  obtain ⟨_, _, hg, he⟩ := mem_devicesFrom.mp hd
  have hsel : sel (some f) i dev = sel none i dev := by
    rename_i j0 hj0; rw [Nat.zero_add] at hj0; subst hj0; exact sel_allTrue hall _ dev hg he
  rcases g2 with ⟨a, c, b1, b2⟩ | ⟨a, b⟩ <;> rcases k2 with ⟨a', c', b1', b2'⟩ | ⟨a', b'⟩
  · rw [hc] at b2
    have := cols_index_unique geo none c c' (i, t) b2 b2'
    subst this; rw [b1, b1']
  · rw [hsel] at a; exact absurd a a'
  · rw [hsel] at a; exact absurd a' a
  · rw [b, b']

/-- **disabled_devices_invisible**: let `compact geo` be the geometry with the disabled devices
removed and `ren` the map from its device indices to the original ones.  Then (1) the column list of
the full geometry is that of the compact one with device indices renamed — so both matrices have the
same size and each cell holds the same transducer/focus pair; (2) the same code path is taken
(`num_devices` agrees); (3) a transducer reads the same solution entry in both. -/
theorem disabled_devices_invisible (geo : Geo) (filter : Option Filter) (h : WF geo filter) (m : Nat) :
    cols geo filter = (cols (compact geo) (renFilter geo filter)).map (fun x => (ren geo x.1, x.2)) ∧
    (∃ cs, cols (compact geo) (renFilter geo filter) = cs ∧
      propagationMatrix (compact geo) (renFilter geo filter) m = .ok ⟨m, cs.length, specData m cs⟩ ∧
      propagationMatrix geo filter m =
        .ok ⟨m, cs.length, specData m (cs.map fun x => (ren geo x.1, x.2))⟩) ∧
    numDevices (compact geo) = numDevices geo ∧
    ∃ mp mp', generateResult geo filter = .ok mp ∧ generateResult (compact geo) (renFilter geo filter) = .ok mp' ∧
      ∀ k i dev, (devices geo)[k]? = some (i, dev) → ∀ t, t < dev.numTr →
        calcIdx mp' (cols (compact geo) (renFilter geo filter)).length k t =
          calcIdx mp (cols geo filter).length i t := by
  have hcc := cols_compact geo filter
  have hwf' := wf_compact geo filter h
  refine ⟨hcc, ⟨_, rfl, propagationMatrix_ok _ _ m hwf', ?_⟩, ?_, ?_⟩
  · rw [propagationMatrix_ok geo filter m h, hcc, List.length_map]
  · have hall : ∀ d ∈ compact geo, d.enable = true := by
      intro d hd
      unfold compact at hd
      obtain ⟨x, hx, rfl⟩ := List.mem_map.mp hd
      obtain ⟨_, _, _, he⟩ := mem_devicesFrom.mp (show (x.1, x.2) ∈ devicesFrom 0 geo from hx)
      exact he
    have hlen : ∀ (k : Nat) (g : Geo), (∀ d ∈ g, d.enable = true) → (devicesFrom k g).length = g.length := by
      intro k g hg
      induction g generalizing k with
      | nil => rfl
      | cons d g ih =>
        unfold devicesFrom
        rw [if_pos (hg d (by simp)), List.length_cons, List.length_cons, ih (k + 1) (fun x hx => hg x (by simp [hx]))]
    unfold numDevices
    rw [show devices (compact geo) = devicesFrom 0 (compact geo) from rfl, hlen 0 _ hall]
    simp [compact]
  · obtain ⟨mp, hmp⟩ : ∃ mp, generateResult geo filter = .ok mp := by
      cases filter with
      | none => exact ⟨_, rfl⟩
      | some f => obtain ⟨mp, h1, _⟩ := genLeft_lookup f geo 0 0 h; exact ⟨mp, h1⟩
    obtain ⟨mp', hmp'⟩ : ∃ mp, generateResult (compact geo) (renFilter geo filter) = .ok mp := by
      cases filter with
      | none => exact ⟨_, rfl⟩
      | some f => obtain ⟨mp, h1, _⟩ := genLeft_lookup _ (compact geo) 0 0 hwf'; exact ⟨mp, h1⟩
    refine ⟨mp, mp', hmp, hmp', ?_⟩
    intro k i dev hk t ht
    have hd : (i, dev) ∈ devices geo := List.mem_of_getElem? hk
    have hd' := mem_devices_compact geo k i dev hk
    obtain ⟨mp1, g1, g2⟩ := calcIdx_spec geo filter h i dev hd t ht
    obtain ⟨mp2, k1, k2⟩ := calcIdx_spec (compact geo) (renFilter geo filter) hwf' k dev hd' t ht
    rw [hmp] at g1; injection g1 with g1; subst g1
    rw [hmp'] at k1; injection k1 with k1; subst k1
    have hren : ren geo k = i := by simp [ren, hk]
    have hsel : sel (renFilter geo filter) k dev = sel filter i dev := by rw [sel_renFilter, hren]
    rcases g2 with ⟨a, c, b1, b2⟩ | ⟨a, b⟩ <;> rcases k2 with ⟨a', c', b1', b2'⟩ | ⟨a', b'⟩
    · have b3 : (cols geo filter)[c']? = some (i, t) := by
        rw [hcc, List.getElem?_map, b2']; simp [hren]
      have := cols_index_unique geo filter c c' (i, t) b2 b3
      subst this; rw [b1, b1']
    · rw [hsel] at a'; exact absurd a a'
    · rw [hsel] at a'; exact absurd a' a
    · rw [b, b']

/-- **greedy_null_outside_filter**: `Greedy` returns, for every enabled device, one entry per
transducer: `constraint.convert(1, 1)` for the selected transducers and intensity 0 (`Drive::NULL`)
for the others; it panics only if the constraint itself does (inverted `Clamp`). -/
theorem greedy_null_outside_filter (geo : Geo) (filter : Option Filter) (c : Constraint) (h : WF geo filter) :
    greedy geo filter c =
      if (devices geo).all (fun d => (sel filter d.1 d.2).isEmpty) then
        .ok ((devices geo).map fun d => (d.1, List.replicate d.2.numTr 0))
      else (convert c (.fin false 1 0) (.fin false 1 0)).map fun v =>
        (devices geo).map fun d =>
          (d.1, (List.range d.2.numTr).map fun t => if (sel filter d.1 d.2).contains t then v else 0) :=
  greedy_ok geo filter c h

-- non-vacuity: a geometry with a disabled device in the middle and a partial filter (device 2 is
-- disabled, its entry is ignored; device 3 has no entry), on both sides of the code-path switch
def exGeo : Geo := [⟨true, 3⟩, ⟨true, 2⟩, ⟨false, 2⟩, ⟨true, 4⟩]
def exFilter : Option Filter := some fun i =>
  if i = 0 then some [true, false, true] else if i = 1 then some [false, true] else if i = 2 then some [true] else none
example : WF exGeo exFilter := wf_of_check (by decide)
example : WF exGeo none := wf_of_check (by decide)
example : cols exGeo exFilter = [(0, 0), (0, 2), (1, 1)] := by decide
example : cols exGeo none = [(0, 0), (0, 1), (0, 2), (1, 0), (1, 1), (3, 0), (3, 1), (3, 2), (3, 3)] := by decide
example : (propagationMatrix exGeo exFilter 2).toOption.map (·.data.toList) =
    some [some ⟨0, 0, 0⟩, some ⟨1, 0, 0⟩, some ⟨0, 0, 2⟩, some ⟨1, 0, 2⟩, some ⟨0, 1, 1⟩, some ⟨1, 1, 1⟩] := by
  decide +kernel
example : propagationMatrix exGeo exFilter 2 = propagationMatrix exGeo exFilter 2 := rfl
example : (propagationMatrix exGeo exFilter 5).toOption.map (·.cols) = some 3 := by decide +kernel
example : AllTrue exGeo (fun i => if i = 0 then some [true, true, true] else if i = 1 then some [true, true]
    else if i = 3 then some [true, true, true, true] else none) := by
  intro i dev hg he
  match i, hg with
  | 0, hg => simp [exGeo] at hg; subst hg; exact ⟨_, rfl, rfl, by simp⟩
  | 1, hg => simp [exGeo] at hg; subst hg; exact ⟨_, rfl, rfl, by simp⟩
  | 2, hg => simp [exGeo] at hg; subst hg; simp at he
  | 3, hg => simp [exGeo] at hg; subst hg; exact ⟨_, rfl, rfl, by simp⟩
  | n + 4, hg => simp [exGeo] at hg
example : compact exGeo = [⟨true, 3⟩, ⟨true, 2⟩, ⟨true, 4⟩] := by decide
example : (List.range 3).map (ren exGeo) = [0, 1, 3] := by decide
-- a short bit vector is a panic, in the model as in the code
example : propagationMatrix [⟨true, 3⟩] (some fun _ => some [true, false]) 1 = .error .bitIndex := by decide +kernel

end Autd3.Holo

namespace Autd3.HoloIdeal
open Complex Finset

variable {ι : Type} [Fintype ι] [Nonempty ι]

/-! ## C. one target, exact arithmetic (ideal model over ℂ)

`g i = r i · exp(i θ i)` is `propagate(tr_i, target)` (`r i = P0 · directivity / distance > 0`,
`θ i = wavenumber · distance`); the Focus gain drives transducer `i` with phase `−θ i`.  The
solution vector of the linear solvers is `q = B p` with `B = gen_back_prop` and `p` the (complex)
target value: `p = a` for Naive and GSPAT (its `R` is the 1×1 matrix `1`), `p = a·exp(iφ)` for GS. -/

/-- **linear_single_focus_phase**: `q_i` is a positive real multiple of `exp(i(arg p − θ_i))`: the
Focus pattern `−θ_i` up to the common offset `arg p`; the magnitude is `r_i ‖p‖ / Σ_j |g_j|²`. -/
theorem linear_single_focus_phase (r θ : ι → ℝ) (p : ℂ) (i : ι) :
    backProp (fun j => (r j : ℂ) * exp (θ j * I)) p i =
      ((r i * ‖p‖ / ∑ j, ‖(r j : ℂ) * exp (θ j * I)‖ ^ 2 : ℝ) : ℂ) * exp ((arg p - θ i : ℝ) * I) :=
  backProp_polar r θ p i

/-- **single_focus_field_exact**: the field `Σ_i g_i q_i` those drives produce at the target is
exactly the requested `p` (so its modulus is the requested amplitude). -/
theorem single_focus_field_exact (g : ι → ℂ) (hg : ∀ i, g i ≠ 0) (p : ℂ) :
    fieldAt g (backProp g p) = p :=
  fieldAt_backProp g hg p

/-- **gs_single_focus**: every GS iterate after the first (`repeat ≥ 1`, start vector all ones,
provided the all-ones drive does not produce an exact null at the target) is a positive multiple of
the Focus pattern rotated by one common phase, and produces exactly the requested amplitude. -/
theorem gs_single_focus (r θ : ι → ℝ) (hr : ∀ i, 0 < r i) (a : ℝ) (ha : 0 < a)
    (h0 : (∑ i, (r i : ℂ) * exp (θ i * I)) ≠ 0) (n : ℕ) :
    FocusShape r θ a (gsIter (fun j => (r j : ℂ) * exp (θ j * I)) a (n + 1)) ∧
      ‖fieldAt (fun j => (r j : ℂ) * exp (θ j * I)) (gsIter (fun j => (r j : ℂ) * exp (θ j * I)) a (n + 1))‖ = a :=
  gsIter_shape r θ hr a ha h0 n

-- non-vacuity: two transducers, `g = (1, i)`: the hypotheses hold
example : (∑ i : Fin 2, ((1 : ℝ) : ℂ) * exp (((if i = 0 then 0 else Real.pi / 2 : ℝ) : ℂ) * I)) ≠ 0 := by
  rw [Fin.sum_univ_two]
  simp only [Fin.isValue, if_true, one_ne_zero, if_false, ofReal_zero, zero_mul, Complex.exp_zero, ofReal_one, one_mul]
  have : exp (((Real.pi / 2 : ℝ) : ℂ) * I) = I := by
    push_cast; exact Complex.exp_pi_div_two_mul_I
  rw [this]
  intro h
  have := congrArg Complex.re h
  simp at this

end Autd3.HoloIdeal
