import Autd3.Lemmas.Mask
/-!
# C12 — disabled devices are invisible

Property theorems only (helpers and the vocabulary `IdxBlind`, `OpI.IdxFree`, `FilterWF`, `passingL`,
`orderL`, `cellsOf`, `contiguous`, `sumC`, `remap` live in `Lemmas/Mask.lean`).  The model is
`Model/Mask.lean`: `Geometry` (list of devices with `enable`), its aggregates and setters,
`OperationHandler::{generate, is_done, pack, pack_op2, pack_op}` generic in the operation type, the
sender loop, and the column bookkeeping of the holographic gains.  It is tied to the Rust code by the
`masks` correspondence stream.

Every statement is for **every** geometry (any number of devices), **every** enable mask (the mask
is just the `enable` fields of an arbitrary list), every operation type / generator / tx contents,
every filter map.  `restrict g` is the geometry `Geometry::new` builds from the enabled devices only
(indices reassigned); `keep g xs` are the entries of `xs` at the positions of enabled devices.

Clauses of the property and where they are:
* aggregates range over exactly the enabled devices — `agg_over_enabled`, `agg_by_mask`,
  `agg_ignores_disabled`, `sound_speed_setters_over_enabled`, `reconfigure_keeps_mask`;
* frames of enabled devices = frames in the restricted geometry; frame buffers and message ids of
  disabled devices untouched — `pack_restrict`, `pack_disabled_untouched`,
  `pack_kth_enabled_gets_kth_op`, `send_restrict`, `send_disabled_untouched`, `send_mask_invisible`,
  `send_mask_invisible_wire`;
* holograms: column used to fill = index used to read back, disjoint, covering, identical to the
  restricted geometry — `holo_columns_match`, `holo_unselected_null`, `holo_columns_partition`,
  `holo_mask_invisible`, `greedy_assigns_enabled_selected`.
Group / Cache gains under masks are C14 (`Props/C14.lean`), `group_send` is C13.
-/
namespace Autd3.Mask
open Autd3.Wire (Tx)

/-! ## Aggregates -/

/-- **Aggregates = the same function on the geometry of the enabled devices.** For every geometry and
mask, `num_devices`, `num_transducers`, `center` (bit for bit, with the f32 operations in the order
nalgebra performs them) and `aabb` have the value they have in the geometry that contains only the
enabled devices — where `num_devices` is simply the number of devices. -/
theorem agg_over_enabled (g : Geometry) :
    numDevices g = numDevices (restrict g) ∧ numDevices (restrict g) = (restrict g).length ∧
    numTransducers g = numTransducers (restrict g) ∧
    center g = center (restrict g) ∧
    aabb g = aabb (restrict g) := by
  refine ⟨(numDevices_restrict g).symm, ?_, (numTransducers_restrict g).symm, (center_restrict g).symm,
    (aabb_restrict g).symm⟩
  unfold numDevices; rw [devices_restrict]

/-- the counts written without `devices()`: number of `true` flags; sum of the transducer counts of
the devices whose flag is set -/
theorem agg_by_mask (g : Geometry) :
    numDevices g = (g.map (·.enable)).count true ∧
    numTransducers g = (g.map fun d => if d.enable then d.numTr else 0).foldl (· + ·) 0 :=
  ⟨numDevices_eq_count g, numTransducers_eq_sum g⟩

/-- **Nothing about a disabled device matters**: two geometries with the same enabled devices (in
the same order) — however many disabled devices they have, wherever those sit, whatever those
contain — have the same aggregates. -/
theorem agg_ignores_disabled (g g' : Geometry) (h : devices g = devices g') :
    numDevices g = numDevices g' ∧ numTransducers g = numTransducers g' ∧ center g = center g' ∧
    aabb g = aabb g' := by
  simp [numDevices, numTransducers, center, centerSum, aabb, h]

/-- **Sound-speed setters** (`set_sound_speed(c)`; `set_sound_speed_from_temp_with(t,k,r,m)` is the
same with `c = soundSpeedFromTemp t k r m`): every enabled device gets the value, a disabled device
is returned unchanged, enable flags stay, and setting commutes with restriction to the enabled devices. -/
theorem sound_speed_setters_over_enabled (c t k r m : Nat) (g : Geometry) :
    (∀ (i : Nat) (d : Dev), g[i]? = some d →
      (setSoundSpeed c g)[i]? = some (if d.enable then { d with soundSpeed := c } else d)) ∧
    (setSoundSpeed c g).map (·.enable) = g.map (·.enable) ∧
    restrict (setSoundSpeed c g) = setSoundSpeed c (restrict g) ∧
    setSoundSpeedFromTempWith t k r m g = setSoundSpeed (soundSpeedFromTemp t k r m) g :=
  ⟨fun i d h => setSS_getElem c g i d h, setSS_enable c g, restrict_setSS c g, rfl⟩

/-- **`reconfigure`** rebuilds every device but keeps the mask and the sound speeds, and leaves
indices = positions. -/
theorem reconfigure_keeps_mask (f : Dev → Dev) (g : Geometry) :
    (reconfigure f g).map (·.enable) = g.map (·.enable) ∧
    (reconfigure f g).map (·.soundSpeed) = g.map (·.soundSpeed) ∧
    (reconfigure f g).length = g.length ∧ WF (reconfigure f g) := by
  refine ⟨reconfigure_enable f g, reconfigure_soundSpeed f g, ?_, reconfigure_wf f g⟩
  unfold reconfigure assignIdx; rw [length_assignIdxFrom]; simp

/-! ## OperationHandler -/

section handler
variable {ω ε : Type}

/-- **One `pack`**: for every operation type, geometry, mask, tx contents and operation list
(any lengths): what `pack` leaves in the tx buffers of the enabled devices, the new operation
states and the error are exactly those of `pack` on the list of enabled devices with their own
buffers. -/
theorem pack_restrict (I : OpI ω ε) (g : Geometry) (tx : List Tx) (ops : Ops ω) :
    keep g (pack I g tx ops).tx = (pack I (devices g) (keep g tx) ops).tx ∧
    (pack I g tx ops).ops = (pack I (devices g) (keep g tx) ops).ops ∧
    (pack I g tx ops).err = (pack I (devices g) (keep g tx) ops).err :=
  pack_restrict_aux I g tx ops

/-- **A disabled device's tx buffer is not touched by `pack`** — header (message id, slot-2 offset)
and payload — also when `pack` fails half-way; and no buffer appears or disappears. -/
theorem pack_disabled_untouched (I : OpI ω ε) (g : Geometry) (tx : List Tx) (ops : Ops ω) :
    (pack I g tx ops).tx.length = tx.length ∧
    ∀ (i : Nat) (d : Dev), g[i]? = some d → d.enable = false → (pack I g tx ops).tx[i]? = tx[i]? :=
  ⟨pack_length I g tx ops, fun i d h1 h2 => pack_disabled_untouched_aux I g tx ops i d h1 h2⟩

/-- **Alignment of the zip/filter chain**: when `pack` succeeds, the `k`-th *enabled* device (with
its own buffer) is packed with the `k`-th operation pair, whatever the mask. -/
theorem pack_kth_enabled_gets_kth_op (I : OpI ω ε) (g : Geometry) (tx : List Tx) (ops : Ops ω)
    (herr : (pack I g tx ops).err = none) (k : Nat) (d : Dev) (t : Tx) (o : ω × ω)
    (hd : (devices g)[k]? = some d) (ht : (keep g tx)[k]? = some t) (ho : ops[k]? = some (some o)) :
    ∃ o' t', packOp2 I o d t = .ok (o', t') ∧ (keep g (pack I g tx ops).tx)[k]? = some t' ∧
      (pack I g tx ops).ops[k]? = some (some o') := by
  obtain ⟨h1, h2, h3⟩ := pack_restrict_aux I g tx ops
  rw [h1, h2]
  exact pack_all_enabled_pointwise I (devices g) (devices_all g) (keep g tx) ops (h3 ▸ herr) k d t o hd ht ho

/-- **A whole send** (`while !is_done { pack; send }`, any number of frames): the frames of the
enabled devices, the final buffers, the error and the fuel flag are those of the same loop over the
enabled devices only. -/
theorem send_restrict (I : OpI ω ε) (g : Geometry) (fuel : Nat) (tx : List Tx) (ops : Ops ω) :
    (sendLoop I g fuel tx ops).frames.map (keep g) = (sendLoop I (devices g) fuel (keep g tx) ops).frames ∧
    keep g (sendLoop I g fuel tx ops).final = (sendLoop I (devices g) fuel (keep g tx) ops).final ∧
    (sendLoop I g fuel tx ops).err = (sendLoop I (devices g) fuel (keep g tx) ops).err ∧
    (sendLoop I g fuel tx ops).cut = (sendLoop I (devices g) fuel (keep g tx) ops).cut :=
  sendLoop_restrict_aux I g fuel tx ops

/-- **During a whole send a disabled device's buffer never changes**: in every frame handed to the
link and at the end it is what it was before (bytes and message id), also on the error path. -/
theorem send_disabled_untouched (I : OpI ω ε) (g : Geometry) (fuel : Nat) (tx : List Tx) (ops : Ops ω)
    (i : Nat) (d : Dev) (hg : g[i]? = some d) (hd : d.enable = false) :
    (∀ f ∈ (sendLoop I g fuel tx ops).frames, f[i]? = tx[i]?) ∧
    (sendLoop I g fuel tx ops).final[i]? = tx[i]? :=
  sendLoop_disabled_untouched_aux I g fuel tx ops i d hg hd

/-- **Disabled devices are invisible to a datagram**: `generate` + the send loop on a masked
geometry produce, for the enabled devices, exactly the frames (and final buffers, error) that the
same datagram produces in the geometry that contains only the enabled devices (`Geometry::new` of
them, indices reassigned) — for every stateful generator and operation type that look at a device
through anything but its index. -/
theorem send_mask_invisible {σ : Type} (I : OpI ω ε) (hI : I.IdxFree)
    (gen : σ → Dev → (ω × ω) × σ) (hgen : ∀ s d j, gen s { d with idx := j } = gen s d)
    (s : σ) (g : Geometry) (fuel : Nat) (tx : List Tx) :
    (send I gen s g fuel tx).frames.map (keep g) = (send I gen s (restrict g) fuel (keep g tx)).frames ∧
    keep g (send I gen s g fuel tx).final = (send I gen s (restrict g) fuel (keep g tx)).final ∧
    (send I gen s g fuel tx).err = (send I gen s (restrict g) fuel (keep g tx)).err := by
  unfold send
  rw [generate_restrict gen hgen s g]
  unfold restrict assignIdx
  rw [sendLoop_assignIdxFrom I hI 0 (devices g)]
  obtain ⟨h1, h2, h3, _⟩ := sendLoop_restrict_aux I g fuel tx (generate gen s g)
  exact ⟨h1, h2, h3⟩

end handler

/-- the instance the correspondence stream runs: the driver's real operations (`Model/Wire.lean`)
with per-device payloads chosen by the unit's identity `uid` -/
theorem send_mask_invisible_wire (mk : Nat → Autd3.Wire.Op × Autd3.Wire.Op) (g : Geometry) (fuel : Nat)
    (tx : List Tx) :
    let gen : Unit → Dev → (Autd3.Wire.Op × Autd3.Wire.Op) × Unit := fun _ d => (mk d.uid, ())
    (send wireI gen () g fuel tx).frames.map (keep g) = (send wireI gen () (restrict g) fuel (keep g tx)).frames ∧
    keep g (send wireI gen () g fuel tx).final = (send wireI gen () (restrict g) fuel (keep g tx)).final ∧
    (send wireI gen () g fuel tx).err = (send wireI gen () (restrict g) fuel (keep g tx)).err :=
  send_mask_invisible wireI (fun _ _ _ => ⟨rfl, rfl⟩) _ (fun _ _ _ => rfl) () g fuel tx

/-! ## Holographic gains -/

/-- **Column used to fill = index used to read back.** For every geometry with indices = positions,
every mask and every (well-formed) filter: if `t` is the `k`-th transducer of an enabled device `d`
that gets a column, then the pointer branch of `generate_propagation_matrix` writes its transfer
values into column `num_transducers[d.idx] + k`, and `generate_result`/`calc` make transducer `t`
read exactly entry `num_transducers[d.idx] + k` of the solution (no panic, index in range). -/
theorem holo_columns_match (f : Filter) (g : Geometry) (hwf : WF g) (hf : FilterWF f g)
    (d : Dev) (hd : d ∈ g) (he : d.enable = true) (k t off : Nat)
    (hoff : (offsets f g)[d.idx]? = some off) (hk : (passingL f d)[k]? = some t) :
    readIndex f g (totalCols f g) d t = .ok (some (off + k)) ∧ off + k < totalCols f g := by
  obtain ⟨pre, suf, rfl⟩ := List.append_of_mem hd
  have hidx : d.idx = pre.length := by simpa using wfFrom_idx 0 pre d suf hwf
  rw [hidx, offsets_getElem] at hoff
  have hoff' : off = sumC f pre := (Option.some.inj hoff).symm
  subst hoff'
  refine ⟨columns_match_aux f pre d suf hwf hf he k t hk, ?_⟩
  have hklt : k < colCount f d := by
    rw [← passingL_length f d he (fun mm bits h1 h2 => hf d (by simp) he mm bits h1 h2)]
    exact (List.getElem?_eq_some_iff.mp hk).1
  rw [totalCols_eq, sumC_append]; simp only [sumC]; omega

/-- a transducer of an enabled device that the filter does not select reads nothing (`Drive::NULL`) -/
theorem holo_unselected_null (m : FilterMap) (g : Geometry) (hwf : WF g) (hf : FilterWF (some m) g)
    (d : Dev) (hd : d ∈ g) (he : d.enable = true) (t n : Nat) (ht : t < d.numTr)
    (hnot : t ∉ passingL (some m) d) :
    readIndex (some m) g n d t = .ok none := by
  obtain ⟨pre, suf, rfl⟩ := List.append_of_mem hd
  exact columns_null_aux m pre d suf hwf hf he t ht hnot n

/-- **Disjoint and covering.** The blocks the pointer branch writes (one per enabled device, starting
at `foci.len() * num_transducers[dev.idx()]`) tile the matrix storage `[0, m·n)` exactly, in order,
with no gap, overlap or write outside; their content is what the row branch (`flat_map` over the
enabled devices) produces; hence both branches return the same `m × n` matrix, every cell written
once, `n` = number of selected transducers of enabled devices, and neither branch panics. -/
theorem holo_columns_partition (f : Filter) (m : Nat) (g : Geometry) (hwf : WF g) (hf : FilterWF f g) :
    (∃ bs, fillBlocks f m g = .ok bs ∧ contiguous 0 bs (m * totalCols f g) ∧
      bs.flatMap (·.2) = cellsOf m (orderL f (devices g))) ∧
    (orderL f (devices g)).length = totalCols f g ∧
    matrix f m g = .ok (totalCols f g, ((cellsOf m (orderL f (devices g))).map some).toArray) := by
  refine ⟨?_, ?_, ?_⟩
  · obtain ⟨bs, h1, h2, h3⟩ := fill_aux f m [] g hwf hf
    refine ⟨bs, h1, ?_, h3⟩
    rw [totalCols_eq]; simpa [sumC] using h2
  · rw [totalCols_eq]; exact orderL_length f g hf
  · rw [totalCols_eq]; exact matrix_eq f m g hwf hf

/-- **Identical to the geometry of the enabled devices only.** With the filter re-keyed to the new
indices (`remap`), the matrix has the same number of columns, the `k`-th enabled device selects the
same transducers, and each of them reads the same entry of the solution as in the masked geometry. -/
theorem holo_mask_invisible (f : Filter) (g : Geometry) (hwf : WF g) (hf : FilterWF f g) :
    totalCols (remap g f) (restrict g) = totalCols f g ∧
    ∀ (k : Nat) (d : Dev), (devices g)[k]? = some d →
      (restrict g)[k]? = some { d with idx := k } ∧
      passingL (remap g f) { d with idx := k } = passingL f d ∧
      ∀ (j t : Nat), (passingL f d)[j]? = some t →
        readIndex (remap g f) (restrict g) (totalCols (remap g f) (restrict g)) { d with idx := k } t =
          readIndex f g (totalCols f g) d t := by
  refine ⟨by rw [totalCols_eq, totalCols_eq, sumC_restrict], ?_⟩
  intro k d hk
  exact ⟨by rw [restrict_getElem, hk]; rfl, passingL_remap g f k d hk,
    fun j t hj => holo_restrict_aux f g hwf hf k d hk j t hj⟩

/-- **Greedy**: calculators exist for exactly the enabled devices, and a transducer gets a drive iff
its device is enabled and the filter selects it (no panic). -/
theorem greedy_assigns_enabled_selected (f : Filter) (g : Geometry) (hwf : WF g) (hf : FilterWF f g) :
    greedyFlags f g = .ok ((devices g).map fun d =>
      (d.idx, (List.range' 0 d.numTr).map fun t => decide (t ∈ passingL f d))) :=
  greedy_aux f g hwf hf

/-! ## Non-vacuity and the defect that was repaired -/

/-- three devices, the middle one disabled, different transducer counts -/
def exGeo : Geometry :=
  [ { idx := 0, enable := true, soundSpeed := 0x48a60400, numTr := 3,
      center := ⟨0x42c14023, 0x4276da55, 0x40000000⟩,
      aabb := ⟨⟨0x41200000, 0xc0a00000, 0x40000000⟩, ⟨0x4336b852, 0x42fe28f6, 0x40000000⟩⟩, uid := 0 },
    { idx := 1, enable := false, soundSpeed := 0x48a60400, numTr := 2,
      center := ⟨0x4364167b, 0x42e09981, 0xc198d5a4⟩,
      aabb := ⟨⟨0x42f3b6b5, 0x40c00000, 0xc21ed2a3⟩, ⟨0x43a76ac1, 0x4359401a, 0x3fcb75c0⟩⟩, uid := 1 },
    { idx := 2, enable := true, soundSpeed := 0x48a60400, numTr := 4,
      center := ⟨0x43c80000, 0x42200000, 0xc0800000⟩,
      aabb := ⟨⟨0x43480000, 0x41200000, 0xc1000000⟩, ⟨0x44160000, 0x42c80000, 0x40a00000⟩⟩, uid := 2 } ]

def exFilter : Filter := some fun i =>
  if i = 0 then some [true, false, true] else if i = 1 then some [true, true] else if i = 2 then some [false, true, true, false] else none

example : WF exGeo := by decide
example : FilterWF exFilter exGeo := by
  intro d hd he m bits hm hb
  simp only [exFilter, Option.some.injEq] at hm; subst hm
  simp [exGeo] at hd
  rcases hd with rfl | rfl | rfl
  all_goals first | (simp at hb; subst hb; rfl) | (simp at he)
example : FilterWF none exGeo := fun _ _ _ _ _ h => by simp at h
example : wireI.IdxFree := fun _ _ _ => ⟨rfl, rfl⟩
example : mockI.IdxFree := fun _ _ _ => ⟨rfl, rfl⟩
/-- the hypotheses of `holo_columns_match` are met by a real case, and the conclusion is what running the model gives -/
example : (offsets exFilter exGeo)[2]? = some 2 ∧ passingL exFilter exGeo[2] = [1, 2] ∧
    (readIndex exFilter exGeo (totalCols exFilter exGeo) exGeo[2] 2).toOption = some (some 3) ∧ totalCols exFilter exGeo = 4 := by
  decide
/-- the mask is visible in the raw data (the disabled device has a filter entry and transducers) but not in the result -/
example : (matrix exFilter 1 exGeo).toOption.map (·.1) = some 4 := by decide
example : numDevices exGeo = 2 ∧ numTransducers exGeo = 7 := by decide

/-- `pack` on the masked example geometry with scripted operations: the two operation pairs go to
devices 0 and 2 (message ids 5→6 and 0x7F→0), device 1 (disabled) keeps id 9 and its payload, and
the hypotheses of `pack_kth_enabled_gets_kth_op` (no error, a second enabled device, a second
operation) are met -/
def exTx : List Tx := [{ msgId := 5 }, { msgId := 9, slot2 := 77 }, { msgId := 0x7F }]
def exOps : Ops MockOp :=
  [some (⟨0xA1, 8, 4, 1, 0⟩, ⟨0xB1, 8, 4, 0, 0⟩), some (⟨0xA2, 8, 4, 2, 0⟩, ⟨0xB2, 8, 4, 1, 0⟩)]
example : (pack mockI exGeo exTx exOps).err = none ∧
    (pack mockI exGeo exTx exOps).tx.map (·.msgId) = [6, 9, 0] ∧
    (pack mockI exGeo exTx exOps).tx.map (·.slot2) = [0, 77, 8] ∧
    ((pack mockI exGeo exTx exOps).tx.map fun t => (t.payload.toList.take 4, (t.payload.toList.drop 8).take 4)) =
      [([0xA1, 0, 3, 1], [0, 0, 0, 0]), ([0, 0, 0, 0], [0, 0, 0, 0]), ([0xA2, 2, 4, 2], [0xB2, 2, 4, 1])] ∧
    ((devices exGeo)[1]?.map (·.uid)) = some 2 ∧ ((keep exGeo exTx)[1]?.map (·.msgId)) = some 0x7F := by
  decide +kernel
/-- a failing second operation on the last enabled device: the first device is packed, the failing one
has its id advanced and its first operation consumed, the disabled one is untouched -/
example : let ops : Ops MockOp := [some (⟨0xA1, 8, 4, 1, 0⟩, ⟨0xB1, 8, 4, 0, 0⟩), some (⟨0xA2, 8, 4, 2, 0⟩, ⟨0xE0, 8, 4, 2, 2⟩)]
    (pack mockI exGeo exTx ops).err = some () ∧ (pack mockI exGeo exTx ops).tx.map (·.msgId) = [6, 9, 0] ∧
    (pack mockI exGeo exTx ops).ops.map (fun o => o.map fun p => (p.1.frames, p.2.frames)) = [some (0, 0), some (1, 2)] := by
  decide +kernel

/-- **F10** (repaired by `fix: Geometry::center must average over the enabled devices only`): dividing
the sum over the enabled devices by the number of *all* devices — the code before the repair — makes
`center` depend on a disabled device; with the repaired `center` the same instance agrees. -/
example : centerUnrepaired (exGeo.take 2) ≠ centerUnrepaired (restrict (exGeo.take 2)) := by decide +kernel
example : center (exGeo.take 2) = center (restrict (exGeo.take 2)) := by decide +kernel

end Autd3.Mask
