import Autd3.Lemmas.Sampling
/-!
# C06 — an accepted sampling rate is the rate the device runs at

Property theorems only (helpers live in `Lemmas/F32.lean`, `Lemmas/Sampling.lean`).  The model is
`Model/Sampling.lean` over the exact binary32 model `Model/F32.lean`; both are tied to the Rust code
(and to the hardware's `f32`) by the `sampling` and `f32ops` correspondence streams.

The theorems are about the code *after* the two repairs of DESIGN §6 F6/F7 (`fix-1`, `fix-2`); the
`example`s at the end show, on the model of the code as it was, the recorded witnesses failing.

Quantification: a float is any `f : F32` (NaN, ±∞, or `±m·2^e` with arbitrary `m`, `e`) where no
hypothesis is stated, and any `f` with a 24-bit mantissa (`Is32 f`) where exactness of the integer
comparison is used; `every_f32_is32` and `stm_product_is32` show that every bit pattern and every
product `f · (n as f32)` formed by the STM path is such a float.  `toRat f` is the exact rational
value; `rate d = 40000 / d`.
-/
namespace Autd3.Sampling
open Autd3 Autd3.F32

/-! ### accepted ⇒ exactly that rate -/

/-- **freq_division_exact**: whenever `SamplingConfig::Freq(f)` is accepted with division `d`, then
`f` is a positive finite float, `d ∈ 1..=65535`, and `d` is the nearest integer to `40000 / f`
(off by less than 1/500, so never a neighbouring integer).  For every float `f`. -/
theorem freq_division_exact (f : F32) (d : ℕ) (h : division (.freq f) = .ok d) :
    0 < toRat f ∧ 1 ≤ d ∧ d ≤ 65535 ∧ |40000 / toRat f - d| < 1 / 500 := by
  obtain ⟨h1, _, h3, h4, h5⟩ := freq_core f d h
  have heps : eps < 1 / 25000 := by unfold eps epsNum; norm_num
  exact ⟨by linarith, h3, h4, by linarith⟩

/-- **period_division_exact**: an accepted period is exactly `d` ultrasound periods. -/
theorem period_division_exact (ns d : ℕ) (h : division (.period ns) = .ok d) :
    ns = 25000 * d ∧ 1 ≤ d ∧ d ≤ 65535 := by
  unfold division at h
  simp only [ultrasoundPeriod, u16Max] at h
  by_cases hr : (!(decide (25000 ≤ ns) && decide (ns ≤ 65535 * 25000))) = true
  · rw [if_pos hr] at h; cases h
  rw [if_neg hr] at h
  simp only [Bool.not_eq_true', Bool.not_eq_false, Bool.and_eq_true, decide_eq_true_iff] at hr
  by_cases hm : ns % 25000 ≠ 0
  · rw [if_pos hm] at h; cases h
  · rw [if_neg hm] at h
    injection h with h
    omega

/-- **stm_freq_times_n**: an STM frequency `f` over `n` points (any `n`, any float) accepted with
division `d`: `d` is the nearest integer to `40000 / (f·n)` for the *exact* product `f·n`, although
the code forms the product in `f32`. -/
theorem stm_freq_times_n (f : F32) (n d : ℕ) (h : stmDivision (.freq f) n = .ok d) :
    0 < toRat f ∧ 0 < n ∧ 1 ≤ d ∧ d ≤ 65535 ∧ |40000 / (toRat f * n) - d| ≤ 1 / 64 :=
  stm_freq_core f n d h

/-- **stm_period_div_n**: an STM period `p` over `n < 2^32` points accepted with division `d` is
exactly `n · d` ultrasound periods. -/
theorem stm_period_div_n (p n d : ℕ) (hn : n < 2 ^ 32) (h : stmDivision (.period p) n = .ok d) :
    p = 25000 * d * n ∧ 0 < n ∧ 1 ≤ d ∧ d ≤ 65535 := by
  unfold stmDivision intoSamplingConfig at h
  dsimp only [] at h
  by_cases hn0 : n = 0
  · rw [if_pos hn0] at h; cases h
  rw [if_neg hn0] at h
  by_cases hmod : p % n ≠ 0
  · rw [if_pos hmod] at h; cases h
  rw [if_neg hmod] at h
  have hs : n % 2 ^ 32 = n := Nat.mod_eq_of_lt hn
  unfold durationDiv at h
  dsimp only [] at h
  rw [hs, if_neg hn0] at h
  dsimp only [] at h
  obtain ⟨h1, h2, h3⟩ := period_division_exact _ d h
  have hmod' : p % n = 0 := by omega
  have := Nat.div_add_mod p n
  rw [hmod', Nat.add_zero] at this
  refine ⟨?_, Nat.pos_of_ne_zero hn0, h2, h3⟩
  rw [← this, h1]; ring

/-! ### the nearest variants -/

/-- every bit pattern is a float with a 24-bit mantissa (so the theorems below cover every `f32`) -/
theorem every_f32_is32 (b : ℕ) : Is32 (ofBits b) := is32_ofBits b

/-- so is every product `f * (n as f32)` that the STM path forms before calling the nearest variant,
and the STM path is exactly the nearest variant applied to that product -/
theorem stm_product_is32 (f : F32) (n : ℕ) :
    Is32 (F32.mul f (F32.ofNat n)) ∧
    stmDivision (.freqNearest f) n = division (.freqNearest (F32.mul f (F32.ofNat n))) :=
  ⟨is32_mul _ _, rfl⟩

/-- **nearest_in_range** (frequency): for every float — NaN, ±∞, ±0, subnormals, negatives included —
`FreqNearest` returns a division in `1..=65535` (never an error, never a panic, never 0). -/
theorem nearest_in_range_freq (f : F32) (hf : Is32 f) :
    ∃ d, division (.freqNearest f) = .ok d ∧ 1 ≤ d ∧ d ≤ 65535 := by
  show ∃ d, nearestDivision f = .ok d ∧ 1 ≤ d ∧ d ≤ 65535
  cases f with
  | nan => exact ⟨65535, nearestDivision_nan, by norm_num, by norm_num⟩
  | inf s => exact ⟨_, nearestDivision_inf s, by cases s <;> norm_num, by cases s <;> norm_num⟩
  | fin s m e =>
    obtain ⟨r, h, h1, h2, _⟩ := nearestDivision_char s m e hf
    exact ⟨r, h, h1, h2⟩

/-- **nearest_in_range** (period): for every duration `PeriodNearest` returns a division in
`1..=65535`. -/
theorem nearest_in_range_period (ns : ℕ) :
    ∃ d, division (.periodNearest ns) = .ok d ∧ 1 ≤ d ∧ d ≤ 65535 := by
  refine ⟨min (max ((ns + 25000 / 2) / 25000) 1) 65535, rfl, ?_, ?_⟩ <;> omega

/-- **nearest_is_nearest** (frequency): for every finite float `f` (any sign, zero, subnormal) the
rate of the returned division is at least as close to `f` as the rate of every other division
`d' ∈ 1..=65535` — exactly, with no rounding slack; an exact tie goes to the higher rate. -/
theorem nearest_is_nearest_freq (s : Bool) (m : ℕ) (e : ℤ) (hf : Is32 (.fin s m e)) (d d' : ℕ)
    (h : division (.freqNearest (.fin s m e)) = .ok d) (h1 : 1 ≤ d') (h2 : d' ≤ 65535) :
    |rate d - toRat (.fin s m e)| ≤ |rate d' - toRat (.fin s m e)| := by
  obtain ⟨r, hr, hc⟩ := nearestDivision_char s m e hf
  have : d = r := by
    have h' : nearestDivision (.fin s m e) = .ok d := h
    rw [hr] at h'; injection h' with h'; exact h'.symm
  subst this
  exact nearest_of_char _ _ _ hc h1 h2

/-- for the infinities: `+∞` gives the highest rate, `-∞` and NaN the lowest -/
theorem nearest_freq_nonfinite :
    division (.freqNearest (.inf false)) = .ok 1 ∧ division (.freqNearest (.inf true)) = .ok 65535 ∧
    division (.freqNearest .nan) = .ok 65535 :=
  ⟨nearestDivision_inf false, nearestDivision_inf true, nearestDivision_nan⟩

/-- **nearest_is_nearest** (period): the period of the returned division is at least as close to
the request as that of every other division in `1..=65535` (a tie goes to the longer period). -/
theorem nearest_is_nearest_period (ns d d' : ℕ) (h : division (.periodNearest ns) = .ok d)
    (h1 : 1 ≤ d') (h2 : d' ≤ 65535) :
    |(25000 * d : ℤ) - ns| ≤ |(25000 * d' : ℤ) - ns| := by
  unfold division at h
  simp only [ultrasoundPeriod, u16Max] at h
  injection h with h
  have hq1 : 25000 * ((ns + 25000 / 2) / 25000) ≤ ns + 25000 / 2 := Nat.mul_div_le _ _
  have hq2 : ns + 25000 / 2 < 25000 * ((ns + 25000 / 2) / 25000) + 25000 := by
    have := Nat.div_add_mod (ns + 25000 / 2) 25000
    have := Nat.mod_lt (ns + 25000 / 2) (by norm_num : 0 < 25000)
    omega
  generalize (ns + 25000 / 2) / 25000 = q at *
  rcases abs_cases ((25000 * d : ℤ) - ns) with ⟨ha, _⟩ | ⟨ha, _⟩ <;>
  rcases abs_cases ((25000 * d' : ℤ) - ns) with ⟨hb, _⟩ | ⟨hb, _⟩ <;>
  rw [ha, hb] <;> omega

/-- **monotone** (frequency): a lower requested rate never yields a higher device rate — for all
floats that can be compared (`f1 <= f2` in the IEEE sense, infinities included). -/
theorem monotone_freq (f1 f2 : F32) (h1 : Is32 f1) (h2 : Is32 f2) (hle : F32.le f1 f2 = true)
    (d1 d2 : ℕ) (hd1 : division (.freqNearest f1) = .ok d1) (hd2 : division (.freqNearest f2) = .ok d2) :
    d2 ≤ d1 := by
  obtain ⟨r1, e1, a1, a2⟩ := nearest_in_range_freq f1 h1
  obtain ⟨r2, e2, b1, b2⟩ := nearest_in_range_freq f2 h2
  rw [e1] at hd1; rw [e2] at hd2
  injection hd1 with hd1; injection hd2 with hd2
  subst hd1; subst hd2
  cases f1 with
  | nan => simp [F32.le] at hle
  | inf s1 =>
    cases s1 with
    | true =>
      have : nearestDivision (.inf true) = .ok 65535 := nearestDivision_inf true
      have e1' : nearestDivision (.inf true) = .ok r1 := e1
      rw [this] at e1'; injection e1' with e1'; omega
    | false =>
      cases f2 with
      | nan => simp [F32.le] at hle
      | inf s2 =>
        cases s2 with
        | true => simp [F32.le] at hle
        | false =>
          have : nearestDivision (.inf false) = .ok 1 := nearestDivision_inf false
          have e2' : nearestDivision (.inf false) = .ok r2 := e2
          rw [this] at e2'; injection e2' with e2'; omega
      | fin s2 m2 x2 => simp [F32.le] at hle
  | fin s1 m1 x1 =>
    cases f2 with
    | nan => simp [F32.le] at hle
    | inf s2 =>
      cases s2 with
      | true => simp [F32.le] at hle
      | false =>
        have : nearestDivision (.inf false) = .ok 1 := nearestDivision_inf false
        have e2' : nearestDivision (.inf false) = .ok r2 := e2
        rw [this] at e2'; injection e2' with e2'; omega
    | fin s2 m2 x2 =>
      obtain ⟨q1, g1, c1⟩ := nearestDivision_char s1 m1 x1 h1
      obtain ⟨q2, g2, c2⟩ := nearestDivision_char s2 m2 x2 h2
      have e1' : nearestDivision (.fin s1 m1 x1) = .ok r1 := e1
      have e2' : nearestDivision (.fin s2 m2 x2) = .ok r2 := e2
      rw [g1] at e1'; rw [g2] at e2'
      injection e1' with e1'; injection e2' with e2'
      subst e1'; subst e2'
      exact mono_of_char _ _ _ _ c1 c2 ((le_fin _ _ _ _ _ _).1 hle)

/-- **monotone** (period): a longer requested period never yields a shorter device period. -/
theorem monotone_period (p1 p2 d1 d2 : ℕ) (hle : p1 ≤ p2)
    (hd1 : division (.periodNearest p1) = .ok d1) (hd2 : division (.periodNearest p2) = .ok d2) :
    d1 ≤ d2 := by
  unfold division at hd1 hd2
  simp only [ultrasoundPeriod, u16Max] at hd1 hd2
  injection hd1 with hd1; injection hd2 with hd2
  omega

/-- the STM path with a period: `PeriodNearest` of `⌊p / n⌋` nanoseconds (`n` as `u32`); because the
half-way points `25000·k + 12500` are integers this is also the nearest to the exact `p / n`. -/
theorem stm_period_nearest (p n : ℕ) (hn : n % 2 ^ 32 ≠ 0) :
    stmDivision (.periodNearest p) n = division (.periodNearest (p / (n % 2 ^ 32))) := by
  have hn0 : n ≠ 0 := by intro h; subst h; simp at hn
  unfold stmDivision intoSamplingConfig durationDiv
  simp only [hn, hn0, if_false, intoNearest]

/-! ### one configuration, one rate -/

/-- a `Division` configuration holds a `NonZeroU16` -/
def Cfg.WF : Cfg → Prop
  | .division d => 1 ≤ d ∧ d ≤ 65535
  | _ => True

/-- every float the other variants can hold (any bit pattern or STM product) -/
def Cfg.Is32 : Cfg → Prop
  | .freqNearest f => F32.Is32 f
  | _ => True

/-- **views_agree**: `division()`, `freq()` and `period()` of one configuration fail together with the
same error, or succeed together and describe the same rate: the division `d` is in `1..=65535`, the
period is exactly `d` ultrasound periods, and `freq()` is a positive finite float such that the
nearest integer to `40000 / freq()` is `d` — it names `d` and no neighbouring division. -/
theorem views_agree (c : Cfg) (hwf : c.WF) (h32 : c.Is32) :
    (∀ err, division c = .error err → freq c = .error err ∧ period c = .error err) ∧
    (∀ d, division c = .ok d →
      1 ≤ d ∧ d ≤ 65535 ∧ period c = .ok (25000 * d) ∧
      ∃ m e, freq c = .ok (.fin false m e) ∧ 0 < toRat (.fin false m e) ∧
        |40000 / toRat (.fin false m e) - d| ≤ 1 / 64) := by
  constructor
  · intro err h
    unfold freq period; rw [h]; exact ⟨rfl, rfl⟩
  · intro d h
    have hr : 1 ≤ d ∧ d ≤ 65535 := by
      cases c with
      | division d0 =>
        have : d0 = d := by injection h
        subst this; exact hwf
      | freq f => obtain ⟨_, a, b, _⟩ := freq_division_exact f d h; exact ⟨a, b⟩
      | period ns => obtain ⟨_, a, b⟩ := period_division_exact ns d h; exact ⟨a, b⟩
      | freqNearest f =>
        obtain ⟨r, hr, a, b⟩ := nearest_in_range_freq f h32
        rw [hr] at h; injection h with h; subst h; exact ⟨a, b⟩
      | periodNearest ns =>
        obtain ⟨r, hr, a, b⟩ := nearest_in_range_period ns
        rw [hr] at h; injection h with h; subst h; exact ⟨a, b⟩
    obtain ⟨m, e, hv, hpos, herr⟩ := freq_view d hr.1 hr.2
    refine ⟨hr.1, hr.2, ?_, m, e, ?_, hpos, herr⟩
    · unfold period; rw [h]
    · unfold freq; rw [h]; exact congrArg _ hv

/-! ### Non-vacuity: concrete inputs meet the hypotheses; the recorded witnesses (DESIGN §6, F6/F7)
fail on the model of the code as it was and are right on the model of the code as it is. -/

-- F6: 13333.334 Hz (0x46505556; 40000/f rounds to 2.9999998) and 20000.002 Hz
example : divisionUnrepaired (.freq (ofBits 0x46505556)) = .ok 2 := by decide +kernel
example : division (.freq (ofBits 0x46505556)) = .ok 3 := by decide +kernel
example : divisionUnrepaired (.freq (ofBits 0x469C4001)) = .ok 1 := by decide +kernel
example : division (.freq (ofBits 0x469C4001)) = .ok 2 := by decide +kernel
-- F6 through the STM path: 1333.3334 Hz x 10 points
example : stmDivision (.freq (ofBits 0x44A6AAAB)) 10 = .ok 3 := by decide +kernel
-- F7: NaN gave the division 0; 27000 Hz gave 40 kHz although 20 kHz is nearer; -1 Hz gave 40 kHz
example : divisionUnrepaired (.freqNearest (ofBits 0x7FC00000)) = .ok 0 := by decide +kernel
example : divisionUnrepaired (.freqNearest (ofBits 0x46D2F000)) = .ok 1 := by decide +kernel
example : divisionUnrepaired (.freqNearest (ofBits 0xBF800000)) = .ok 1 := by decide +kernel
example : division (.freqNearest (ofBits 0x7FC00000)) = .ok 65535 := by decide +kernel
example : division (.freqNearest (ofBits 0x46D2F000)) = .ok 2 := by decide +kernel
example : division (.freqNearest (ofBits 0xBF800000)) = .ok 65535 := by decide +kernel
-- an exact tie (30000 Hz is midway between 40 kHz and 20 kHz) goes to the higher rate
example : division (.freqNearest (ofBits 0x46EA6000)) = .ok 1 := by decide +kernel
-- hypotheses of the other theorems
example : Is32 (ofBits 0x46D2F000) ∧ F32.le (ofBits 0xBF800000) (ofBits 0x46D2F000) = true := by decide +kernel
example : stmDivision (.period 250000) 2 = .ok 5 ∧ (2 : ℕ) < 2 ^ 32 := by decide +kernel
example : division (.period 75000) = .ok 3 ∧ division (.periodNearest 87499) = .ok 3 ∧
    division (.periodNearest 87500) = .ok 4 := by decide +kernel
example : Cfg.WF (.division 3) ∧ Cfg.Is32 (.freqNearest (ofBits 0x46D2F000)) :=
  ⟨by unfold Cfg.WF; omega, by unfold Cfg.Is32; exact is32_ofBits _⟩
example : freq (.division 3) = .ok (ofBits 0x46505555) := by decide +kernel

end Autd3.Sampling
