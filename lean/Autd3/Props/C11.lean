import Autd3.Gen.SyncAsync
import Autd3.Lemmas.Ctl
/-!
# C11 — the asynchronous controller behaves exactly like the synchronous one (partial)

(a) **Same text.**  `Gen/SyncAsync.lean` is regenerated on every run from
`autd3/src/controller/**` and `autd3/src/async/controller/**`: the token streams of the paired
functions after erasing `async`, `.await`, the `Async` prefix of type names, comments, and the
substitutions listed in `tools/gen.d/syncasync.py` (N1–N6).  Each theorem below says the two
streams are *equal*; an edit applied to one copy only makes it fail to elaborate.

(b) **Same model.**  Both controllers are run against the one `Ctl` model (`Model/Ctl.lean`) by the
streams `sender` and `sender_async`, so the C04 theorems hold for both.  The model has a single
`isAsync` switch, used only where the two copies genuinely differ — `Drop` — and the theorems at the
end show that this switch changes nothing else.

Not paired (shape differs, covered by the `sender_async` stream only): `close_impl` (the async copy
takes no option and sends through `self.send`), `close`, `Drop::drop` (the async copy closes only
on a multi-thread runtime).  Residue: tokio scheduling, cancellation of a future mid-send.
-/
namespace Autd3.Gen.SyncAsync

theorem async_eq_sync_sender_send : asyncTokens_sender_send = syncTokens_sender_send := by decide +kernel
theorem async_eq_sync_send_impl : asyncTokens_send_impl = syncTokens_send_impl := by decide +kernel
theorem async_eq_sync_send_receive : asyncTokens_send_receive = syncTokens_send_receive := by decide +kernel
theorem async_eq_sync_wait_msg_processed : asyncTokens_wait_msg_processed = syncTokens_wait_msg_processed := by decide +kernel
theorem async_eq_sync_open : asyncTokens_open = syncTokens_open := by decide +kernel
theorem async_eq_sync_open_with_option : asyncTokens_open_with_option = syncTokens_open_with_option := by decide +kernel
theorem async_eq_sync_sender : asyncTokens_sender = syncTokens_sender := by decide +kernel
theorem async_eq_sync_controller_send : asyncTokens_controller_send = syncTokens_controller_send := by decide +kernel
theorem async_eq_sync_open_impl : asyncTokens_open_impl = syncTokens_open_impl := by decide +kernel
theorem async_eq_sync_fetch_firminfo : asyncTokens_fetch_firminfo = syncTokens_fetch_firminfo := by decide +kernel
theorem async_eq_sync_firmware_version : asyncTokens_firmware_version = syncTokens_firmware_version := by decide +kernel
theorem async_eq_sync_fpga_state : asyncTokens_fpga_state = syncTokens_fpga_state := by decide +kernel
theorem async_eq_sync_controller_group_send : asyncTokens_controller_group_send = syncTokens_controller_group_send := by
  decide +kernel
theorem async_eq_sync_sender_group_send : asyncTokens_sender_group_send = syncTokens_sender_group_send := by decide +kernel

/-- the table of paired functions is the one the theorems above cover (a pair added to the generator
without a theorem shows up here) -/
theorem paired_functions_covered :
    paired = ["sender_send", "send_impl", "send_receive", "wait_msg_processed", "open", "open_with_option", "sender",
      "controller_send", "open_impl", "fetch_firminfo", "firmware_version", "fpga_state", "controller_group_send",
      "sender_group_send"] := by decide +kernel +kernel

/-- non-vacuity: the streams are not empty and really are the functions' text -/
example : syncTokens_wait_msg_processed.take 4 = ["fn", "wait_msg_processed", "(", "&"] := by decide +kernel
example : 200 < syncTokens_wait_msg_processed.length ∧ 700 < syncTokens_sender_group_send.length := by decide +kernel

end Autd3.Gen.SyncAsync

namespace Autd3.Ctl

/-- the model's `isAsync` switch does not change the result or the state of `open` … -/
theorem open_async_eq_sync (n : Nat) (opt : Option Nat) (o : OpenScript) :
    (openWithOption true n opt o).1 = (openWithOption false n opt o).1 ∧
    (openWithOption true n opt o).2.1 = (openWithOption false n opt o).2.1 := by
  unfold openWithOption
  split
  · exact ⟨rfl, rfl⟩
  · simp only []
    split <;> exact ⟨rfl, rfl⟩

/-- … nor what the link sees, unless `open` fails and the half-built controller is dropped while
the link says it is open (the one place where the copies differ: the sync `Drop` closes) -/
theorem open_async_eq_sync_trace (n : Nat) (opt : Option Nat) (o : OpenScript)
    (h : (openWithOption false n opt o).1 = .ok ∨ o.drop.isOpen = false) :
    (openWithOption true n opt o).2.2 = (openWithOption false n opt o).2.2 := by
  unfold openWithOption at h ⊢
  cases ho : o.openOk
  · rfl
  · simp only [ho, Bool.not_true, Bool.false_eq_true, if_false] at h ⊢
    cases hb : (send opt (oneFrame n TAG_CLEAR)
        (send opt (oneFrame n TAG_FORCE_FAN)
          { tx := List.replicate n ⟨0, 0⟩, rx := List.replicate n ⟨0, 0⟩, enable := List.replicate n true } o.forceFan).2.1 o.clearSync).1 with
    | ok => rfl
    | err e =>
      simp only [hb] at h ⊢
      rcases h with h | h
      · simp at h
      · simp [dropAsync, dropSync, h]
    | stuck =>
      simp only [hb] at h ⊢
      rcases h with h | h
      · simp at h
      · simp [dropAsync, dropSync, h]

/-- `close`: same result; same calls on the link when the link reports closed afterwards (which a
link does after `close`) -/
theorem close_async_eq_sync (st : St) (c : CloseScript) (d : DropScript) :
    (close true st c d).1 = (close false st c d).1 ∧
    (d.isOpen = false → (close true st c d).2 = (close false st c d).2) := by
  refine ⟨rfl, ?_⟩
  intro h
  simp [close, dropAsync, dropSync, h]

/-! ### `Drop` by runtime flavour (`dropAsyncOn`, used by the `sender_async` driver after a `flavor` line) -/

/-- on a current-thread runtime the flavoured `Drop` is the `dropAsync` of the theorems above -/
theorem drop_current_thread_eq_dropAsync (st : St) (d : DropScript) :
    dropAsyncOn .currentThread st d = dropAsync d := by
  unfold dropAsyncOn dropAsync
  cases h : d.isOpen <;> simp

/-- on a multi-thread runtime dropping the async controller does exactly what dropping the sync one does:
it closes a link that still says it is open (three datagrams on every device, then `link.close`) -/
theorem drop_multi_thread_eq_dropSync (st : St) (d : DropScript) :
    dropAsyncOn .multiThread st d = dropSync st d := by
  unfold dropAsyncOn dropSync
  cases h : d.isOpen <;> simp

/-- the flavoured `open`/`close` used by the driver are the functions the theorems above (and C04's) speak
about: the sync copy, the async copy on a current-thread runtime, and — on a multi-thread runtime — the
async copy behaves as the **sync** one in every respect (result, state and every call on the link) -/
theorem openOn_eq (n : Nat) (opt : Option Nat) (o : OpenScript) :
    openWithOptionOn none n opt o = openWithOption false n opt o ∧
    openWithOptionOn (some .currentThread) n opt o = openWithOption true n opt o ∧
    openWithOptionOn (some .multiThread) n opt o = openWithOption false n opt o := by
  refine ⟨?_, ?_, ?_⟩ <;>
    simp [openWithOptionOn, openWithOption, dropOn, drop_current_thread_eq_dropAsync, drop_multi_thread_eq_dropSync]

theorem closeOn_eq (st : St) (c : CloseScript) (d : DropScript) :
    closeOn none st c d = close false st c d ∧
    closeOn (some .currentThread) st c d = close true st c d ∧
    closeOn (some .multiThread) st c d = close false st c d := by
  refine ⟨?_, ?_, ?_⟩ <;>
    simp [closeOn, close, dropOn, drop_current_thread_eq_dropAsync, drop_multi_thread_eq_dropSync]

/-- a controller dropped on a multi-thread runtime while the link says it is open calls `link.close` -/
theorem drop_multi_thread_closes (st : St) (d : DropScript) (h : d.isOpen = true) (hc : d.close.isOpen = true) :
    Call.close d.close.closeOk ∈ dropAsyncOn .multiThread st d := by
  simp [dropAsyncOn, h, closeImpl, hc]

end Autd3.Ctl
