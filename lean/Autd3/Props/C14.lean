import Autd3.Lemmas.GainWrapSafe
/-!
# C14 — gain wrappers do not change the gain

Property theorems only (helpers: `Lemmas/GainWrap*.lean`).  The model is `Model/GainWrap.lean`
(mirror of `group.rs`, `cache.rs`, `boxed.rs`, `with_segment.rs`, with the F13 repair); the same
definitions are run by the `wrappers` correspondence stream (`Drv/C14.lean`).

Vocabulary (defined in the lemma files, all about the executable model):
* `Sound ρ geo X strict i den` — the gain `i` (an `InitFn`), started in any state that satisfies the
  cache invariant `Inv ρ geo X`, with **any** filter and parallel flag, succeeds, re-establishes the
  invariant, leaves the caches in `X` alone, and yields for **every enabled device** a calculator
  that gives `den d t` for every transducer inside the filter (`strict`: for every transducer).
* `Inv ρ geo X σ` — every cache (outside `X`) whose gain was taken holds exactly the rows of its
  denotation `ρ id` for the enabled devices of `geo`; untouched caches are empty.
* `Tree.WF ρ geo strict T` — leaves compute their function inside the filter they are given
  (`Faithful`; `Total` = everywhere, required of leaves reached from a `Cache` without a `Group`
  in between), every `Group` has exactly the keys its key map uses on the enabled devices (each
  once), no cache contains itself, `ρ` names what each cache wraps.
* `NoPanic geo i`, `Tree.Safe geo T`, `Shape geo σ` — the panic-freedom counterpart with **no**
  assumption on keys or on what the caches hold beyond what every reachable state satisfies.

All statements are for every geometry (any number of devices, any sizes, **any enable mask**), every
key map, every tree (any depth, any sharing of caches), every filter/parallel flag.
-/
namespace Autd3.GainWrap

/-- the drives a tree is meant to put on the enabled devices -/
def denDrives (T : Tree) (geo : Geo) : List (Nat × List Drive) :=
  geo.devices.map fun d => (d.idx, denRow T.den d)

/-- the state after `n` sends of the same datagram -/
def resend (dg : Dgram) (geo : Geo) (par : Bool) : Nat → St → St
  | 0, σ => σ
  | n + 1, σ => resend dg geo par n (send dg geo par σ).2

private theorem drivesOf_good {geo : Geo} {gen : Gen} {den : Nat → Nat → Drive}
    (h : GoodGen geo gen (fun _ _ => True) den) :
    drivesOf gen geo.devices = .ok (geo.devices.map fun d => (d.idx, denRow den d)) := by
  unfold drivesOf
  apply mapE_ok_of_forall (fun d => (d.idx, denRow den d))
  intro d hd
  obtain ⟨c, hc, hg⟩ := h d hd
  have : mapE c (List.range d.numTr) = .ok (denRow den d) := by
    apply mapE_ok_of_forall (den d.idx)
    intro t ht; exact hg t (List.mem_range.mp ht) trivial
  simp [hc, this]

/-! ## Group -/

/-- **Group, filters**: `get_filters` has one entry per key that some transducer of an *enabled*
device maps to (each key once), and the filter of key `k` selects exactly the transducers
`(d, t)` of enabled devices with `key_map(d)(t) = Some(k)`. -/
theorem group_filters_exact (km : Nat → Nat → Option Nat) (geo : Geo) (hw : geo.WF) :
    ((getFilters km geo).map (·.1)).Nodup ∧
    (∀ k, ((getFilters km geo).lookup k).isSome = true ↔ usedKey km geo k) ∧
    (∀ k f, (getFilters km geo).lookup k = some f → ∀ d t,
      (inFilt (some f) d t = true ↔ ∃ dev ∈ geo.devices, dev.idx = d ∧ t < dev.numTr ∧ km d t = some k)) :=
  ⟨getFilters_keys_nodup km hw, getFilters_isSome km hw, getFilters_inFilt km hw⟩

/-- **Group, specification** (`group_spec`): for *arbitrary* inner gains `gm` that each compute
their `dens k` inside the filter they are handed, visited in **any order** `fl` of the filter map
(`HashMap` iteration), with the gain-map keys being exactly the keys used on enabled devices:
`Group` succeeds and gives transducer `t` of every enabled device `d` exactly the drive of the
gain selected by its key, and `Drive::NULL` when it has no key — whatever filter the `Group`
itself was given, whatever devices are disabled. -/
theorem group_spec {ρ : Nat → Nat → Nat → Drive} {geo : Geo} {X : Nat → Prop}
    (km : Nat → Nat → Option Nat) (gm : List (Nat × InitFn)) (dens : Nat → Nat → Nat → Drive)
    (hw : geo.WF) (fl : List (Nat × Filter)) (hp : fl.Perm (getFilters km geo))
    (hgn : (gm.map (·.1)).Nodup)
    (hkeys : ∀ k, k ∈ gm.map (·.1) ↔ usedKey km geo k)
    (hin : ∀ k i, gm.lookup k = some i → Sound ρ geo X false i (dens k))
    (par : Bool) (σ : St) (hI : Inv ρ geo X σ) :
    ∃ gen σ', groupInitWith fl km gm geo par σ = (.ok gen, σ') ∧ Inv ρ geo X σ' ∧
      ∀ d ∈ geo.devices, ∃ c, gen d = .ok c ∧ ∀ t, t < d.numTr →
        c t = .ok (groupDen km dens d.idx t) ∧
        (∀ k, km d.idx t = some k → groupDen km dens d.idx t = dens k d.idx t) ∧
        (km d.idx t = none → groupDen km dens d.idx t = Drive.null) := by
  obtain ⟨gen, σ', h1, h2, _, h4⟩ := group_sound km gm dens hw fl hp hgn hkeys hin par σ hI
  refine ⟨gen, σ', h1, h2, ?_⟩
  intro d hd
  obtain ⟨c, hc, hg⟩ := h4 d hd
  refine ⟨c, hc, fun t ht => ⟨hg t ht trivial, ?_, ?_⟩⟩
  · intro k hk; simp [groupDen, hk]
  · intro hk; simp [groupDen, hk]

/-- **Group, mismatched keys are errors, never panics**: for arbitrary inner gains that do not
panic themselves, any visiting order, any reachable cache contents: `Group::init_full` never
panics, and it returns `Ok` **only if** the keys of the gain map are exactly the keys the key map
uses on enabled devices.  (So a key used but missing from the gain map, or a gain under an unused
key, yields `Err(GainError)`.) -/
theorem group_mismatch_is_error {geo : Geo} (km : Nat → Nat → Option Nat) (gm : List (Nat × InitFn))
    (hw : geo.WF) (fl : List (Nat × Filter)) (hp : fl.Perm (getFilters km geo))
    (hgn : (gm.map (·.1)).Nodup) (hin : ∀ k i, gm.lookup k = some i → NoPanic geo i)
    (par : Bool) (σ : St) (hS : Shape geo σ)
    (hmis : ¬ ∀ k, k ∈ gm.map (·.1) ↔ usedKey km geo k) :
    ∃ e σ', groupInitWith fl km gm geo par σ = (.error (.err e), σ') ∧ Shape geo σ' := by
  have h := group_noPanic km gm hw fl hp hgn hin par σ hS
  cases hr : groupInitWith fl km gm geo par σ with
  | mk res σ' =>
    rw [hr] at h
    cases res with
    | ok gen => exact absurd h.2.2 hmis
    | error e =>
      cases e with
      | err e' => exact ⟨e', σ', rfl, h.1⟩
      | panic p => exact h.elim

/-! ## Any nesting -/

/-- **Wrappers are transparent** (`Group`/`Cache`/`Boxed` to any depth, by structural induction on
the tree): sending a well-formed tree from a good state succeeds, writes to every enabled device
exactly the drives of the tree's denotation (leaf functions selected by keys, `NULL` without key),
to the segment and with the transition the datagram names, and leaves a good state. -/
theorem wrappers_transparent {ρ : Nat → Nat → Nat → Drive} {geo : Geo} (hw : geo.WF) (dg : Dgram)
    (hT : dg.tree.WF ρ geo false) (par : Bool) (σ : St) (hI : Inv ρ geo (fun _ => False) σ) :
    ∃ σ', send dg geo par σ =
        (.ok { segment := dg.target.1, transition := dg.target.2, drives := denDrives dg.tree geo }, σ') ∧
      Inv ρ geo (fun _ => False) σ' := by
  obtain ⟨gen, σ', h1, h2, _, h4⟩ :=
    Tree.sound hw dg.tree false (fun _ => False) (fun _ _ h => h) hT none par σ hI
  have hg : GoodGen geo gen (fun _ _ => True) dg.tree.den := by
    intro d hd
    obtain ⟨c, hc, hx⟩ := h4 d hd
    exact ⟨c, hc, fun t ht _ => hx t ht (Or.inr rfl)⟩
  refine ⟨σ', ?_, h2⟩
  unfold send
  rw [h1]
  simp only [drivesOf_good hg, denDrives]

/-- **Cache is transparent**: wrapping the root in a (fresh or already valid) cache does not change
what is sent. -/
theorem cache_transparent {ρ : Nat → Nat → Nat → Drive} {geo : Geo} (hw : geo.WF) (id : Nat) (g : Tree)
    (w : Option (Segment × Option Transition))
    (hT : (Tree.cache id g).WF ρ geo false) (par : Bool) (σ : St) (hI : Inv ρ geo (fun _ => False) σ) :
    (send { tree := .cache id g, wrap := w } geo par σ).1 = (send { tree := g, wrap := w } geo par σ).1 := by
  have hg : g.WF ρ geo false := by
    have := hT; simp only [Tree.WF] at this
    obtain ⟨h1, _, _⟩ := this
    -- strict well-formedness implies the plain one
    have weaken : ∀ (T : Tree), T.WF ρ geo true → T.WF ρ geo false := by
      intro T
      induction T using Tree.rec (motive_2 := fun _ => True) with
      | leaf l => intro h; simp only [Tree.WF, if_true] at h; simp only [Tree.WF]; exact h.faithful
      | boxed g ih => intro h; simp only [Tree.WF] at h ⊢; exact ih h
      | cache id g _ => intro h; simp only [Tree.WF] at h ⊢; exact h
      | group km gm _ => intro h; simp only [Tree.WF] at h ⊢; exact h
      | nil => trivial
      | cons _ _ _ _ _ => trivial
    exact weaken g h1
  obtain ⟨σ1, h1, _⟩ := wrappers_transparent hw { tree := .cache id g, wrap := w } hT par σ hI
  obtain ⟨σ2, h2, _⟩ := wrappers_transparent hw { tree := g, wrap := w } hg par σ hI
  rw [h1, h2]
  simp [Dgram.target, denDrives, Tree.den]

/-- **Cache is stable**: every re-send of the same datagram (same geometry and mask) returns the
same drives — those of the denotation, i.e. those of the first send. -/
theorem cache_stable {ρ : Nat → Nat → Nat → Drive} {geo : Geo} (hw : geo.WF) (dg : Dgram)
    (hT : dg.tree.WF ρ geo false) (par : Bool) (σ : St) (hI : Inv ρ geo (fun _ => False) σ) (n : Nat) :
    (send dg geo par (resend dg geo par n σ)).1 =
      .ok { segment := dg.target.1, transition := dg.target.2, drives := denDrives dg.tree geo } := by
  induction n generalizing σ with
  | zero =>
    obtain ⟨σ', h, _⟩ := wrappers_transparent hw dg hT par σ hI
    simp [resend, h]
  | succ n ih =>
    obtain ⟨σ', h, hI'⟩ := wrappers_transparent hw dg hT par σ hI
    simp only [resend, h]
    exact ih σ' hI'

/-- **Boxed is transparent**, unconditionally: a `BoxedGain` sends exactly what the gain inside
would (same result, same effect on every cache), for every tree, state, geometry and mask. -/
theorem boxed_transparent (g : Tree) (w : Option (Segment × Option Transition)) (geo : Geo) (par : Bool)
    (σ : St) : send { tree := .boxed g, wrap := w } geo par σ = send { tree := g, wrap := w } geo par σ := by
  unfold send
  simp only [Tree.init, boxedInit, Dgram.target]
  cases h : g.init geo none par σ with
  | mk res σ' =>
    cases res with
    | error e => rfl
    | ok gen =>
      simp only []
      have : drivesOf (boxGen gen) geo.devices = drivesOf gen geo.devices := by
        unfold drivesOf
        congr; funext dev
        cases hg : gen dev <;> simp [boxGen, hg]
      rw [this]

/-- **WithSegment is transparent**, unconditionally: it changes the target segment and transition
mode and nothing else — same drives, same errors, same effect on the caches. -/
theorem segment_transparent (T : Tree) (s : Segment) (tm : Option Transition) (geo : Geo) (par : Bool)
    (σ : St) :
    (send { tree := T, wrap := some (s, tm) } geo par σ).2 = (send { tree := T } geo par σ).2 ∧
    match (send { tree := T } geo par σ).1 with
    | .ok r => (send { tree := T, wrap := some (s, tm) } geo par σ).1 =
        .ok { segment := s, transition := tm, drives := r.drives }
    | .error e => (send { tree := T, wrap := some (s, tm) } geo par σ).1 = .error e := by
  unfold send
  simp only [Dgram.target]
  cases h : T.init geo none par σ with
  | mk res σ' =>
    cases res with
    | error e => exact ⟨rfl, rfl⟩
    | ok gen =>
      simp only []
      cases drivesOf gen geo.devices <;> exact ⟨rfl, rfl⟩

/-! ## Errors rather than panics -/

/-- **Never a panic**, for every tree of wrappers over leaves that do not panic themselves, with
**no** assumption on keys, on which devices are enabled, or on what the caches hold (beyond the
shape every reachable state has): a send returns drives or an `Err`, and the resulting state has
that shape again — so this holds along every history of sends under changing masks. -/
theorem never_panics {geo : Geo} (hw : geo.WF) (dg : Dgram) (hT : dg.tree.Safe geo) (par : Bool) (σ : St)
    (hS : Shape geo σ) :
    Shape geo (send dg geo par σ).2 ∧ ∀ p, (send dg geo par σ).1 ≠ .error (.panic p) := by
  have h := Tree.noPanic hw dg.tree hT none par σ hS
  unfold send
  cases hr : dg.tree.init geo none par σ with
  | mk res σ' =>
    rw [hr] at h
    cases res with
    | error e =>
      cases e with
      | err e' => exact ⟨h.1, fun p hp => by cases hp⟩
      | panic p => exact h.elim
    | ok gen =>
      simp only [] at h ⊢
      cases hd : drivesOf gen geo.devices with
      | ok ds => exact ⟨h.1.1, fun p hp => by cases hp⟩
      | error p =>
        exfalso
        unfold drivesOf at hd
        obtain ⟨d, hdm, he⟩ := mapE_error_inv _ _ hd
        obtain ⟨c, hc, hx⟩ := h.2 d hdm
        rw [hc] at he
        simp only [] at he
        cases hm : mapE c (List.range d.numTr) with
        | ok row => rw [hm] at he; cases he
        | error q =>
          obtain ⟨t, ht, hq⟩ := mapE_error_inv _ _ hm
          obtain ⟨x, hx'⟩ := hx t (List.mem_range.mp ht)
          rw [hx'] at hq; cases hq

/-- **Mismatched keys at the root are reported as errors**: sending a `Group` whose gain-map keys
differ from the keys its key map uses on the enabled devices returns `Err`, for any inner trees,
any mask, any reachable cache state. -/
theorem mismatched_keys_error {geo : Geo} (hw : geo.WF) (km : Nat → Nat → Option Nat) (gm : GMap)
    (w : Option (Segment × Option Transition)) (hT : (Tree.group km gm).Safe geo) (par : Bool) (σ : St)
    (hS : Shape geo σ) (hmis : ¬ ∀ k, k ∈ gm.keys ↔ usedKey km geo k) :
    ∃ e σ', send { tree := .group km gm, wrap := w } geo par σ = (.error (.err e), σ') := by
  simp only [Tree.Safe] at hT
  obtain ⟨e, σ', h, _⟩ := group_mismatch_is_error km gm.inits hw (getFilters km geo) (List.Perm.refl _)
    (by rw [GMap.inits_keys]; exact hT.2) (GMap.noPanic hw gm hT.1) par σ hS
    (by rw [GMap.inits_keys]; exact hmis)
  refine ⟨e, σ', ?_⟩
  unfold send
  simp only [Tree.init, groupInit, h]

/-! ## Other contexts: elements of a `GainSTM`, other transition modes -/

/-- segment and transition a datagram is sent with: bare = `S0` / `Immediate`, `WithSegment` = its
own two fields -/
def wrapTarget : Option (Segment × Option Transition) → Segment × Option Transition
  | none => (.S0, some .immediate)
  | some (s, tm) => (s, tm)

private theorem stmInits_sound {ρ : Nat → Nat → Nat → Drive} {geo : Geo} (hw : geo.WF) (par : Bool) :
    ∀ (ts : List Tree) (σ : St), (∀ t ∈ ts, t.WF ρ geo false) → Inv ρ geo (fun _ => False) σ →
      ∃ gens σ', stmInits geo none par (ts.map Tree.init) σ = (.ok gens, σ') ∧
        Inv ρ geo (fun _ => False) σ' ∧
        mapE (fun gen => drivesOf gen geo.devices) gens = .ok (ts.map fun t => denDrives t geo)
  | [], σ, _, hI => ⟨[], σ, rfl, hI, rfl⟩
  | t :: rest, σ, hT, hI => by
    obtain ⟨gen, σ1, h1, h2, _, h4⟩ :=
      Tree.sound hw t false (fun _ => False) (fun _ _ h => h) (hT t (by simp)) none par σ hI
    have hg : GoodGen geo gen (fun _ _ => True) t.den := by
      intro d hd
      obtain ⟨c, hc, hx⟩ := h4 d hd
      exact ⟨c, hc, fun t ht _ => hx t ht (Or.inr rfl)⟩
    obtain ⟨gens, σ2, h5, h6, h7⟩ :=
      stmInits_sound hw par rest σ1 (fun x hx => hT x (by simp [hx])) h2
    refine ⟨gen :: gens, σ2, ?_, h6, ?_⟩
    · simp only [List.map_cons, stmInits, h1, h5]
    · simp only [mapE, drivesOf_good hg, h7, List.map_cons, denDrives]

/-- **Wrappers are transparent as the elements of a `GainSTM`**: a sequence (of a valid length) of
well-formed trees — any nesting, any sharing of caches between the elements, any enable mask — sent
from a good state succeeds, pattern `i` is exactly the denotation of tree `i` on every enabled
device, in the order of the gains, to the segment / with the transition the datagram names, and the
state is good again. -/
theorem stm_transparent {ρ : Nat → Nat → Nat → Drive} {geo : Geo} (hw : geo.WF) (ts : List Tree)
    (w : Option (Segment × Option Transition)) (hn : 2 ≤ ts.length ∧ ts.length ≤ 1024)
    (hT : ∀ t ∈ ts, t.WF ρ geo false) (par : Bool) (σ : St) (hI : Inv ρ geo (fun _ => False) σ) :
    ∃ σ', sendStm ts w geo par σ =
        (.ok { segment := (wrapTarget w).1, transition := (wrapTarget w).2,
               patterns := ts.map fun t => denDrives t geo }, σ') ∧
      Inv ρ geo (fun _ => False) σ' := by
  obtain ⟨gens, σ', h1, h2, h3⟩ := stmInits_sound hw par ts σ hT hI
  refine ⟨σ', ?_, h2⟩
  have hlen : ¬ (ts.length < 2 ∨ ts.length > 1024) := by omega
  unfold sendStm
  simp only [hlen, if_false, h1, h3]
  cases w with
  | none => rfl
  | some p => rfl

/-- **Wrappers are transparent as the members of a tuple datagram**: two well-formed trees (any
nesting, caches shared between them or not, any mask) sent as `(WithSegment{t1,S0,a},
WithSegment{t2,S1,b})` put the denotation of `t1` into `S0` and that of `t2` into `S1`. -/
theorem pair_transparent {ρ : Nat → Nat → Nat → Drive} {geo : Geo} (hw : geo.WF) (t1 t2 : Tree)
    (tm1 tm2 : Option Transition) (h1 : t1.WF ρ geo false) (h2 : t2.WF ρ geo false) (par : Bool) (σ : St)
    (hI : Inv ρ geo (fun _ => False) σ) :
    ∃ σ', sendPair t1 t2 tm1 tm2 geo par σ =
        (.ok ({ segment := .S0, transition := tm1, drives := denDrives t1 geo },
              { segment := .S1, transition := tm2, drives := denDrives t2 geo }), σ') ∧
      Inv ρ geo (fun _ => False) σ' := by
  obtain ⟨g1, σ1, e1, i1, _, x1⟩ :=
    Tree.sound hw t1 false (fun _ => False) (fun _ _ h => h) h1 none par σ hI
  obtain ⟨g2, σ2, e2, i2, _, x2⟩ :=
    Tree.sound hw t2 false (fun _ => False) (fun _ _ h => h) h2 none par σ1 i1
  have hg1 : GoodGen geo g1 (fun _ _ => True) t1.den := by
    intro d hd
    obtain ⟨c, hc, hx⟩ := x1 d hd
    exact ⟨c, hc, fun t ht _ => hx t ht (Or.inr rfl)⟩
  have hg2 : GoodGen geo g2 (fun _ _ => True) t2.den := by
    intro d hd
    obtain ⟨c, hc, hx⟩ := x2 d hd
    exact ⟨c, hc, fun t ht _ => hx t ht (Or.inr rfl)⟩
  refine ⟨σ2, ?_, i2⟩
  unfold sendPair
  simp only [e1, e2, drivesOf_good hg1, drivesOf_good hg2, denDrives]

/-- **A `GainSTM` of an invalid length is refused before any gain is touched** (no cache changes). -/
theorem stm_size_refused (ts : List Tree) (w : Option (Segment × Option Transition)) (geo : Geo)
    (par : Bool) (σ : St) (hn : ts.length < 2 ∨ ts.length > 1024) :
    (sendStm ts w geo par σ).1 = .error (.stmSize ts.length) ∧
      (sendStm ts w geo par σ).2.caches = σ.caches := by
  unfold sendStm
  simp only [hn, if_true, and_self]

/-- **`WithSegment` never swallows a transition mode**: with a mode other than `Immediate` and at
least one enabled device the send is never `Ok`, for every tree, state and mask … -/
theorem mode_not_swallowed (T : Tree) (s : Segment) (mode : TMode) (geo : Geo) (par : Bool) (σ : St)
    (hm : mode ≠ .immediate) (hd : geo.devices ≠ []) :
    ∀ r, (sendMode T s mode geo par σ).1 ≠ .ok r := by
  intro r
  unfold sendMode
  simp only [hm, if_false]
  cases h : T.init geo none par σ with
  | mk res σ' =>
    cases res with
    | error e => simp
    | ok gen =>
      simp only []
      cases hg : genAll gen geo.devices with
      | error p => simp
      | ok cs =>
        cases cs with
        | cons c rest => simp
        | nil =>
          exfalso
          unfold genAll at hg
          cases hdv : geo.devices with
          | nil => exact hd hdv
          | cons d ds =>
            rw [hdv] at hg
            simp only [mapE] at hg
            split at hg
            · cases hg
            · split at hg <;> cases hg

/-- … and **the caches are left exactly as by a valid send of the same tree** (the gain was
initialised before the mode was looked at), whatever the mode. -/
theorem mode_same_state (T : Tree) (s : Segment) (mode : TMode) (geo : Geo) (par : Bool) (σ : St) :
    (sendMode T s mode geo par σ).2 = (send { tree := T, wrap := some (s, none) } geo par σ).2 := by
  unfold sendMode send
  by_cases hm : mode = .immediate
  · simp only [hm, if_true]
    cases h : T.init geo none par σ with
    | mk res σ' =>
      cases res with
      | error e => rfl
      | ok gen =>
        simp only []
        cases drivesOf gen geo.devices <;> rfl
  · simp only [hm, if_false]
    cases h : T.init geo none par σ with
    | mk res σ' =>
      cases res with
      | error e => rfl
      | ok gen =>
        simp only []
        cases drivesOf gen geo.devices <;>
          (cases genAll gen geo.devices with
           | error p => rfl
           | ok cs => cases cs <;> rfl)

/-! ## The leaves used by the correspondence stream meet the hypotheses -/

/-- `Custom` closures: total (ignore filter and enable flags) -/
theorem customLeaf_total (salt : Nat) (geo : Geo) : Total (customLeaf salt) geo := by
  intro filter par
  exact ⟨_, rfl, fun d _ => ⟨_, rfl, fun _ _ _ => rfl⟩⟩

/-- the holo-style leaf: computes its function inside the filter, for enabled devices -/
theorem holoLeaf_faithful (salt : Nat) (geo : Geo) (hw : geo.WF) : Faithful (holoLeaf salt) geo := by
  intro filter par
  refine ⟨_, rfl, ?_⟩
  intro d hd
  have hl := lookup_map_of_mem (·.idx) (holoRow salt filter) geo.devices d hd (Geo.devices_idx_nodup hw)
  refine ⟨vecCalc (holoRow salt filter d), by simp only [holoGen, hl], ?_⟩
  intro t ht hf
  simp only [vecCalc, holoRow, List.getElem?_map, List.getElem?_range ht, Option.map_some, hf, if_true]
  rfl

theorem leaves_safe (salt : Nat) (geo : Geo) (hw : geo.WF) :
    LeafSafe (customLeaf salt) geo ∧ LeafSafe (holoLeaf salt) geo ∧ LeafSafe (failLeaf salt) geo := by
  refine ⟨?_, ?_, ?_⟩
  · intro filter par
    exact fun d _ => ⟨_, rfl, fun _ _ => ⟨_, rfl⟩⟩
  · intro filter par
    show OkGen geo (holoGen (geo.devices.map fun dev => (dev.idx, holoRow salt filter dev)))
    intro d hd
    have hl := lookup_map_of_mem (·.idx) (holoRow salt filter) geo.devices d hd (Geo.devices_idx_nodup hw)
    refine ⟨vecCalc (holoRow salt filter d), by simp only [holoGen, hl], ?_⟩
    intro t ht
    simp only [vecCalc, holoRow, List.getElem?_map, List.getElem?_range ht, Option.map_some]
    exact ⟨_, rfl⟩
  · intro filter par
    trivial

/-! ## Non-vacuity: the F13 witness (`Group{Cache(Custom)}`, device 0 disabled) meets every
hypothesis, and the model computes on it what the theorems say -/

/-- two devices of three transducers, the first one disabled -/
def exGeo : Geo := Geo.ofList [(3, false), (3, true)]
/-- `G[aaa|aaa]{a:C1(L1)}` -/
def exTree : Tree :=
  .group (fun _ t => if t < 3 then some 10 else none) (.cons 10 (.cache 1 (.leaf (customLeaf 1))) .nil)

example : exGeo.WF := by decide

example : Inv (fun _ => drv 1) exGeo (fun _ => False) {} := by
  intro id _; exact ⟨(fun h => by cases h), (fun _ => rfl)⟩

example : Shape exGeo {} := by
  intro id; exact ⟨(fun _ _ _ h => by cases h), (fun _ => rfl)⟩

example : exTree.WF (fun _ => drv 1) exGeo false := by
  simp only [exTree, Tree.WF, GMap.WF, Tree.ids, GMap.keys, Tree.den, customLeaf]
  refine ⟨⟨⟨customLeaf_total 1 exGeo, by simp, by intros; trivial⟩, trivial⟩, by simp, ?_⟩
  intro k
  constructor
  · intro hk
    simp at hk; subst hk
    exact ⟨⟨1, 3, true⟩, by decide, 0, by decide, by decide⟩
  · rintro ⟨dev, _, t, _, h⟩
    by_cases ht : t < 3
    · simp [ht] at h; simp [h]
    · simp [ht] at h

example : exTree.Safe exGeo := by
  simp only [exTree, Tree.Safe, GMap.Safe, GMap.keys]
  exact ⟨⟨(leaves_safe 1 exGeo (by decide)).1, trivial⟩, by simp⟩

/-- the model on the witness: only device 1 is written, with the drives of `drv 1` -/
example :
    (match (send { tree := exTree } exGeo false {}).1 with
      | .ok s => s.drives
      | .error _ => []) = [(1, [drv 1 1 0, drv 1 1 1, drv 1 1 2])] := by decide +kernel

/-- the witness twice as the elements of a `GainSTM` (the cache of the first element is the cache of
the second one): both patterns reach device 1 only, with the drives of `drv 1` -/
example :
    (match (sendStm [exTree, exTree] none exGeo false {}).1 with
      | .ok s => s.patterns
      | .error _ => []) =
      [[(1, [drv 1 1 0, drv 1 1 1, drv 1 1 2])], [(1, [drv 1 1 0, drv 1 1 1, drv 1 1 2])]] := by
  decide +kernel

/-- the witness inside `WithSegment { S1, Some(Ext) }`: refused (device 1 is enabled), and the cache
has been filled all the same -/
example :
    (match sendMode exTree .S1 .ext exGeo false {} with
      | (.error .invalidTransitionMode, σ') => ((σ'.caches 1).taken, (σ'.caches 1).store.map (·.1))
      | _ => (false, [])) = (true, [1]) := by
  decide +kernel

example : exGeo.devices ≠ [] := by decide

/-- a gain under a key no enabled transducer maps to: the hypothesis of `mismatched_keys_error` -/
example : ¬ ∀ k, k ∈ (GMap.cons 11 (.leaf (customLeaf 2)) .nil).keys ↔
    usedKey (fun _ t => if t < 3 then some 10 else none) exGeo k := by
  intro h
  obtain ⟨dev, _, t, _, hk⟩ := (h 11).mp (by simp [GMap.keys])
  by_cases ht : t < 3
  · simp [ht] at hk
  · simp [ht] at hk

end Autd3.GainWrap
