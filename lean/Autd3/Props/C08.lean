import Autd3.Model.Fw
import Autd3.Lemmas.SilGuardWitness
import Autd3.Lemmas.SilSendWitness
/-!
# C08 — strict silencer mode can never be circumvented

First layer: the guard predicate and the validation tables, for every register value.

Second layer (unbounded, all states / bytes / histories), about the executable firmware model
`Autd3.Fw` (lemmas in `Lemmas/SilGuard*.lean`):

* `rejected_changes_nothing*` — a handler / payload / frame answered with `ERR_INVALID_SILENCER_SETTING`
  returns the *whole* `State` unchanged.  Exactly two private CPU cursors may already have been
  touched when the guard refuses: `write_mod` has reset `modCycle := 0`, `write_gain_stm` has latched
  `gainStmMode`; neither is read by any `Obs.*` accessor nor by the guard (they only steer where the
  continuation frames of an in-flight multi-frame write go).  At frame level `ack`, `lastMsgId` and
  `rxData` change in addition.
* `inv_new`, `inv_frame`, `inv_tick`, `silencer_inv`, `silencer_guard` — the inductive invariant
  `Inv = Core ∧ GainOk` (`Lemmas/SilGuardInv.lean`): CPU belief = FPGA request registers, CPU guard copy
  = FPGA registers, guard holds for the believed segments; it holds after `CPUEmulator::new`, is
  preserved by every frame whose Modulation / FociSTM / GainSTM payloads are complete single-frame
  writes (any other tag, also unknown ones, both slots, any acknowledgement including
  `ERR_MISS_TRANSITION_TIME`), by clock ticks and thermal events; hence the property on `Obs`.
* `silencer_inv_multiframe_partial` — every frame of a multi-frame write *without* transition
  (all prefixes, i.e. aborted sends), arbitrarily interleaved with every kind of swap, silencer
  reconfiguration, Clear and any other tag, keeps `Core` — no side condition on `GainSwapSegment`
  any more (repaired firmware: `change_gain_segment` evaluates the guard on the target segment).
  Still excluded, with a kernel-checked counterexample trace: F8b (transition-carrying BEGIN frame
  of a send that is then cut).  `f8c_repaired`: the former F8c trace now ends refused.

Third layer (`Lemmas/SilSend*.lean`): the statement at the level the property is phrased — COMPLETE SENDS as the SDK
produces them, through the real packer model (`Wire.packOp2`), accepted or refused (`sendLoopR`: the loop of
`Sender::send`, which stops at the first error acknowledgement and keeps the device state it stopped in):

* `strict_guard_holds_after_every_send_partial` — every history from power-on of (i) any datagram of `Hist.Legal`
  (all 20 kinds; Modulation / FociSTM / GainSTM with any number of frames, with or without transition) sent completely
  and accepted, (ii) ANY single datagram refused with `ERR_INVALID_SILENCER_SETTING` at its first frame, ends in a state
  satisfying the property's statement on the read-back accessors.  Between the BEGIN and the END frame of a
  transition-carrying send the invariant does NOT hold (belief ahead of request); it is re-established by END, which
  a complete accepted send always reaches.
* `strict_guard_holds_after_every_send_tuples_partial` — the larger vocabulary `Hist`: additionally every single-frame
  datagram or TUPLE of two single-frame datagrams (configuration, Silencer, Clear, Gain, PhaseCorrection, the four
  SwapSegment), accepted or refused in EITHER slot with ANY error code.
* `rejected_send_changes_nothing_send_level`, `rejected_changes_nothing_second_slot` — what a refusal leaves.
* **F8d** (`f8d_*`, kernel-checked, confirmed on the real emulator): the full statement is FALSE for tuples whose first
  member is a transition-carrying multi-frame STM: the second member is packed into the BEGIN frame (a two-frame
  GainSTM leaves 108 free bytes) and runs between BEGIN (belief := new segment) and END (request := new segment).
  No send is cut.  (a) second member refused → the send stops after BEGIN, the belief stays ahead;
  (b) second member `SwapSegment::Gain`, everything ACCEPTED → END requests S1 while the belief is back on S0.

Deviation from the brief: the CPU's strict copy is *implied by* — not equivalent to — the strict bit
of `ADDR_SILENCER_FLAG`: `clear` sets `silencer_strict_mode = true` but writes 0 to the flag register.
-/
namespace Autd3.C08
open Autd3 Autd3.Fw Autd3.Gen Autd3.SilGuard Autd3.SilSend

/-- `validate_silencer_settings` accepts exactly when strict mode is off or both sampling divisions
respect the configured completion steps -/
theorem guard_semantics (s : State) (stmDiv modDiv : Nat) :
    validateSilencerSettings s stmDiv modDiv = false ↔
      (s.strict = false ∨ (s.minDivI ≤ modDiv ∧ s.minDivI ≤ stmDiv ∧ s.minDivP ≤ stmDiv)) := by
  unfold validateSilencerSettings
  cases s.strict <;> simp <;> omega

/-- the guard is monotone: a slower sampling division is never refused where a faster one is accepted -/
theorem guard_monotone (s : State) (a b a' b' : Nat) (ha : a ≤ a') (hb : b ≤ b')
    (h : validateSilencerSettings s a b = false) : validateSilencerSettings s a' b' = false := by
  rw [guard_semantics] at h ⊢
  rcases h with h | h
  · exact Or.inl h
  · exact Or.inr (by omega)

/-- a gain segment (division 0xFFFF) always satisfies the guard for 16-bit step counts -/
theorem gain_segment_always_ok (s : State) (modDiv : Nat) (hI : s.minDivI ≤ 0xFFFF) (hP : s.minDivP ≤ 0xFFFF)
    (hm : s.minDivI ≤ modDiv) : validateSilencerSettings s 0xFFFF modDiv = false := by
  rw [guard_semantics]; exact Or.inr ⟨hm, hI, hP⟩

/-- transition-mode table (`true` = refused), all 256 mode bytes × same/other segment × finite/infinite loop -/
theorem transition_table : ∀ (mode : Fin 256) (same finite : Bool),
    validateTransitionMode 0 (if same then 0 else 1) (if finite then 0 else 0xFFFF) mode.val =
      (if mode.val = Cpu.TRANSITION_MODE_NONE then false
       else if same ∨ ¬ finite then (mode.val = 0 ∨ mode.val = 1 ∨ mode.val = 2)
       else (mode.val = 0xFF ∨ mode.val = 0xF0)) := by
  decide +kernel

/-! ## rejected_changes_nothing -/

/-- **rejected_changes_nothing** (handler level): each of the eight handlers that can answer
`ERR_INVALID_SILENCER_SETTING` returns, with that answer, the state it was given — every field, for
every state and every payload bytes; `write_mod` has only reset its write cursor `modCycle`,
`write_gain_stm` has only latched `gainStmMode` -/
theorem rejected_changes_nothing (s s' : State) (d : Array Nat) :
    (configSilencer s d = .ok (s', Cpu.ERR_INVALID_SILENCER_SETTING) → s' = s) ∧
    (writeMod s d = .ok (s', Cpu.ERR_INVALID_SILENCER_SETTING) → s' = { s with modCycle := 0 }) ∧
    (changeModSegment s d = .ok (s', Cpu.ERR_INVALID_SILENCER_SETTING) → s' = s) ∧
    (writeFociStm s d = .ok (s', Cpu.ERR_INVALID_SILENCER_SETTING) → s' = s) ∧
    (changeFociStmSegment s d = .ok (s', Cpu.ERR_INVALID_SILENCER_SETTING) → s' = s) ∧
    (writeGainStm s d = .ok (s', Cpu.ERR_INVALID_SILENCER_SETTING) →
      s' = { s with gainStmMode := u8at d FwLayout.GainSTMHead_mode_off }) ∧
    (changeGainStmSegment s d = .ok (s', Cpu.ERR_INVALID_SILENCER_SETTING) → s' = s) ∧
    (changeGainSegment s d = .ok (s', Cpu.ERR_INVALID_SILENCER_SETTING) → s' = s) :=
  ⟨fun h => configSilencer_rejected s d _ h rfl, fun h => writeMod_rejected s d _ h rfl,
   fun h => changeModSegment_rejected s d _ h rfl, fun h => writeFociStm_rejected s d _ h rfl,
   fun h => changeFociStmSegment_rejected s d _ h rfl, fun h => writeGainStm_rejected s d _ h rfl,
   fun h => changeGainStmSegment_rejected s d _ h rfl, fun h => changeGainSegment_rejected s d _ h rfl⟩

/-- **rejected_changes_nothing** (dispatch level): whatever the tag byte (all 19 handlers and unknown
tags), a payload answered with `ERR_INVALID_SILENCER_SETTING` leaves every field of the state unchanged
except possibly the two private cursors `modCycle`, `gainStmMode` -/
theorem rejected_changes_nothing_dispatch (s s' : State) (d : Array Nat)
    (h : handlePayload s d = .ok (s', Cpu.ERR_INVALID_SILENCER_SETTING)) :
    s' = { s with modCycle := s'.modCycle, gainStmMode := s'.gainStmMode } :=
  handlePayload_rejected s d _ h rfl

/-- **rejected_changes_nothing** (frame level, first slot refused): `ecat_recv` returns the state in which
the slot was handled (`preState`: message id latched, read-back byte refreshed) with `ack` = the error
code; the second slot is not executed and `CTL_FLAG` is not rewritten -/
theorem rejected_changes_nothing_first_slot (s s' s1 : State) (f : Array Nat)
    (hid : s.lastMsgId ≠ u8at f DrvLayout.Header_msg_id_off)
    (hmsb : u8at f DrvLayout.Header_msg_id_off &&& 0x80 = 0)
    (h1 : handlePayload (preState s f) (slot1 f) = .ok (s1, Cpu.ERR_INVALID_SILENCER_SETTING))
    (h : ecatRecv s f = .ok s') :
    s' = { s1 with ack := Cpu.ERR_INVALID_SILENCER_SETTING } ∧
    s' = { preState s f with ack := s'.ack, modCycle := s'.modCycle, gainStmMode := s'.gainStmMode } :=
  ecatRecv_rejected_first s s' s1 f hid hmsb h1 h

/-- **rejected_changes_nothing** (frame level, single-operation frame, stated on the result alone): if
`ecat_recv` ends with `ack = ERR_INVALID_SILENCER_SETTING`, nothing but `ack`, `lastMsgId`, `rxData` and
the two private cursors differs from the state before the frame — in particular `ctl`, `phaseCorr`,
`pwe`, the four memories, both swap chains, `strict`/`minDivI`/`minDivP`, both segment beliefs and all
per-segment CPU copies are equal -/
theorem rejected_changes_nothing_frame (s s' : State) (f : Array Nat)
    (hslot : u16at f DrvLayout.Header_slot_2_offset_off = 0)
    (h : ecatRecv s f = .ok s') (hack : s'.ack = Cpu.ERR_INVALID_SILENCER_SETTING) :
    s' = { s with ack := s'.ack, lastMsgId := s'.lastMsgId, rxData := s'.rxData,
                  modCycle := s'.modCycle, gainStmMode := s'.gainStmMode } :=
  ecatRecv_rejected_single s f hslot s' h hack

/-! ## the inductive invariant -/

/-- the invariant holds for the state built by `CPUEmulator::new`, for every transducer count and clock -/
theorem inv_new (n t : Nat) (s : State) (h : Fw.new n t = .ok s) : Inv s := new_inv n t s h

/-- `clear` establishes the invariant from any state whose controller BRAM has its 256 registers -/
theorem inv_clear (s s' : State) (d : Array Nat) (ack : Nat) (hs : s.ctl.size = 256)
    (h : clear s d = .ok (s', ack)) : Inv s' := clear_inv s d hs _ h

/-- one frame: if both slots satisfy `FrameOk` (only Modulation / FociSTM / GainSTM payloads are
constrained: complete single-frame write, UPDATE flag iff a transition mode is carried, GainSTM with a
defined mode and ≥ 2 patterns) then `ecat_recv` preserves the invariant — whatever it acknowledges -/
theorem inv_frame (s s' : State) (f : Array Nat) (h : Inv s) (hf : FrameOk f)
    (hr : ecatRecv s f = .ok s') : Inv s' := ecatRecv_inv s f h hf s' hr

/-- a swap request whose SysTime deadline was missed has already written the request register; the
belief was moved as well, so the invariant survives `ERR_MISS_TRANSITION_TIME` -/
theorem inv_miss_transition_time (s s' : State) (d : Array Nat) (h : Inv s)
    (hr : changeFociStmSegment s d = .ok (s', Cpu.ERR_MISS_TRANSITION_TIME)) : Inv s' :=
  have hs := changeFociStmSegment_step s d h.core _ hr
  ⟨hs.1, hs.2 h.gainOk trivial⟩

/-- clock ticks (`update_with_sys_time`) preserve the invariant -/
theorem inv_tick (s s' : State) (t : Nat) (h : Inv s) (hr : updateWithSysTime s t = .ok s') : Inv s' :=
  h.congr (updateWithSysTime_view s t s' hr)

/-- histories from any state satisfying the invariant (e.g. the state after a `Clear`) keep it -/
theorem inv_run (as : List Action) (s s' : State) (h : Inv s) (hok : ∀ a ∈ as, ActionOk a)
    (hr : run s as = .ok s') : Inv s' := run_inv as s h hok s' hr

/-- **silencer_inv**: every history (frames satisfying `FrameOk`, clock ticks, thermal events, in any
order and number) from a freshly constructed device ends in a state satisfying the invariant -/
theorem silencer_inv (n t : Nat) (as : List Action) (s0 s : State) (h0 : Fw.new n t = .ok s0)
    (hok : ∀ a ∈ as, ActionOk a) (hr : run s0 as = .ok s) : Inv s :=
  run_inv as s0 (new_inv n t s0 h0) hok s hr

/-- **the property's statement** on the read-back accessors: after any such history the requested
segments read back without panic, and if the CPU is strict — in particular if the FPGA's flag register
says fixed-completion-steps mode with the strict bit — the requested STM segment's division is at least
`max(steps_intensity, steps_phase)` and the requested modulation segment's is at least `steps_intensity` -/
theorem silencer_guard (n t : Nat) (as : List Action) (s0 s : State) (h0 : Fw.new n t = .ok s0)
    (hok : ∀ a ∈ as, ActionOk a) (hr : run s0 as = .ok s) :
    ∃ rs rm, Obs.reqStmSeg s = .ok rs ∧ Obs.reqModSeg s = .ok rm ∧
      ((s.strict = true ∨ (Obs.silencerFixedUpdateRateMode s = false ∧ strictBit s = true)) →
        ∀ i p, Obs.silencerCompletionSteps s = .ok (i, p) →
          max i p ≤ Obs.stmDiv s rs ∧ i ≤ Obs.modDiv s rm) :=
  (silencer_inv n t as s0 s h0 hok hr).core.guard_obs

/-
Full statement wanted (DESIGN §5): the invariant for EVERY prefix of EVERY multi-frame send.  It is false
on this tree for transition-carrying sends (F8b below).  Proved: the variant for `Core` that admits every
frame of a multi-frame Modulation / FociSTM / GainSTM write that carries no transition (`PayloadOk`:
BEGIN frames with transition mode NONE and no UPDATE, continuation frames without UPDATE — so every
prefix = aborted send is covered), complete transition-carrying single frames, and ALL other tags without
any condition: Gain, the four swaps (in particular `GainSwapSegment` to a segment whose STM write was
cut — the former F8c pattern), both silencer frames, Clear, unknown tags; both slots.  Missing for the
full statement: the firmware would have to set the belief at END+UPDATE instead of BEGIN (F8b).
-/
theorem silencer_inv_multiframe_partial (n t : Nat) (as : List Action) (s0 s : State)
    (h0 : Fw.new n t = .ok s0) (hok : ∀ a ∈ as, ActionOkCore a) (hr : run s0 as = .ok s) :
    Core s ∧ ∃ rs rm, Obs.reqStmSeg s = .ok rs ∧ Obs.reqModSeg s = .ok rm ∧
      ((s.strict = true ∨ (Obs.silencerFixedUpdateRateMode s = false ∧ strictBit s = true)) →
        ∀ i p, Obs.silencerCompletionSteps s = .ok (i, p) →
          max i p ≤ Obs.stmDiv s rs ∧ i ≤ Obs.modDiv s rm) :=
  have hc := run_core as s0 (new_inv n t s0 h0).core hok s hr
  ⟨hc, hc.guard_obs⟩

/-- one step of the partial theorem: under the flag discipline `PayloadOk` alone (both slots) a frame
re-establishes `Core`, whatever it acknowledges -/
theorem core_frame_partial (s s' : State) (f : Array Nat) (h : Core s) (hf : FrameOkCore f)
    (hr : ecatRecv s f = .ok s') : Core s' := ecatRecv_core s f h hf s' hr

/-- the complete-frame alphabet of `silencer_inv` is a special case of the partial theorem's alphabet -/
theorem frameOk_core (a : Action) (h : ActionOk a) : ActionOkCore a := h.core

/-- **F8b counterexample** (kernel-checked): from `CPUEmulator::new`, FociSTM div 40 → S0 (Immediate),
a FociSTM → S1 carrying an Immediate transition cut after its BEGIN frame, Silencer(10, 80, strict):
all three acknowledged (ack = 3); the FPGA still requests S0 (reg 0) with division 40 while the CPU
believes S1; completion steps phase = 80, flag = strict fixed-steps: 40 < 80 -/
theorem f8b_counterexample :
    summary (fromNew f8bTrace) = [3, 0, 1, 40, 65535, 0, 65535, 65535, 10, 80, 4, 1] := by
  decide +kernel

/-- **F8c is repaired** (kernel-checked; negation of the former `f8c_counterexample`): FociSTM div 40 → S1
without transition cut after its BEGIN frame (ack 1), Silencer(10, 80, strict) accepted (ack 2),
GainSwapSegment(S1) is now answered `ERR_INVALID_SILENCER_SETTING` (142); belief and request register
stay S0 (whose division is 0xFFFF) and nothing else in the summary moves -/
theorem f8c_repaired :
    trailFromNew f8cTrace =
      [[1, 0, 0, 65535, 40, 0, 65535, 65535, 10, 40, 0, 1],
       [2, 0, 0, 65535, 40, 0, 65535, 65535, 10, 80, 4, 1],
       [142, 0, 0, 65535, 40, 0, 65535, 65535, 10, 80, 4, 1]] := by
  decide +kernel


/-! ## the property at the level of complete sends -/

/-
Full statement wanted: for EVERY history from power-on of complete sends of datagrams and tuples the SDK can build,
accepted or refused, the guard statement holds after every send.  It is FALSE on this tree (F8d below).  Proved:
the histories `Hist1` — complete accepted sends of every legal datagram (all kinds, any number of frames, with or
without transition) and any single datagram refused by the silencer guard at its first frame.  Every prefix of a
history is a history, so the statement holds after every send.  Missing for the full statement: (1) tuples with a
Modulation / FociSTM / GainSTM member (false in general: F8d; true when the other member does not run between BEGIN
and END — not proved), (2) a multi-frame send refused at its END frame with `ERR_MISS_TRANSITION_TIME` (the request
register is written before the deadline check — `inv_miss_transition_time` — but the send-level lemma is not proved),
(3) first-frame refusals of Modulation / FociSTM / GainSTM with `ERR_INVALID_TRANSITION_MODE` (state unchanged by
`Tuple2.write*_reject1`; not lifted), (4) clock ticks between sends (`inv_tick` at frame level).
-/
theorem strict_guard_holds_after_every_send_partial (numTr now : Nat) (hn : numTr ≤ 249) (p0 : State)
    (hp0 : Fw.new numTr now = .ok p0) (t0 : Wire.Tx) (ht0 : Rt.TxOK t0) (s : State) (t : Wire.Tx)
    (h : Hist1 p0 t0 s t) :
    ∃ rs rm, Obs.reqStmSeg s = .ok rs ∧ Obs.reqModSeg s = .ok rm ∧
      ((s.strict = true ∨ (Obs.silencerFixedUpdateRateMode s = false ∧ strictBit s = true)) →
        ∀ i p, Obs.silencerCompletionSteps s = .ok (i, p) →
          max i p ≤ Obs.stmDiv s rs ∧ i ≤ Obs.modDiv s rm) := by
  obtain ⟨hc, hW, hF⟩ := new_good numTr now hn p0 hp0
  exact (hist1_good h hc hW ht0 (hF t0)).2.1.guard_obs

/-- the same for the larger vocabulary `Hist`: single-frame datagrams and TUPLES of two single-frame datagrams,
accepted or refused in either slot with any error code; Modulation / FociSTM / GainSTM accepted (here the event
carries the well-formedness of the device it is sent to, which `Hist1` proves and `Hist` does not track through
refused tuples); any single datagram refused by the silencer guard at its first frame -/
theorem strict_guard_holds_after_every_send_tuples_partial (numTr now : Nat) (p0 : State)
    (hp0 : Fw.new numTr now = .ok p0) (t0 : Wire.Tx) (ht0 : Rt.TxOK t0) (s : State) (t : Wire.Tx)
    (h : Hist p0 t0 s t) :
    ∃ rs rm, Obs.reqStmSeg s = .ok rs ∧ Obs.reqModSeg s = .ok rm ∧
      ((s.strict = true ∨ (Obs.silencerFixedUpdateRateMode s = false ∧ strictBit s = true)) →
        ∀ i p, Obs.silencerCompletionSteps s = .ok (i, p) →
          max i p ≤ Obs.stmDiv s rs ∧ i ≤ Obs.modDiv s rm) :=
  (hist_core h (new_inv numTr now p0 hp0).core ht0).1.guard_obs

/-- every history of `Hist1` is a history of `Hist`, and keeps — besides the invariant — well-formedness, the 622-byte
buffer and a fresh message id (so the next legal datagram is accepted: `Hist.legal_datagram_accepted`) -/
theorem send_history_invariant (numTr now : Nat) (hn : numTr ≤ 249) (p0 : State) (hp0 : Fw.new numTr now = .ok p0)
    (t0 : Wire.Tx) (ht0 : Rt.TxOK t0) (s : State) (t : Wire.Tx) (h : Hist1 p0 t0 s t) :
    Hist p0 t0 s t ∧ Core s ∧ Rt.WF s ∧ Rt.TxOK t ∧ Rt.Fresh s t := by
  obtain ⟨hc, hW, hF⟩ := new_good numTr now hn p0 hp0
  exact hist1_good h hc hW ht0 (hF t0)

/-- one complete send of a single-frame datagram or of a tuple of two of them keeps the invariant from ANY state
satisfying it, however the send ends (no hypothesis on well-formedness, message ids, legality of the datagrams) -/
theorem small_send_keeps_core (A B : Wire.Dg) (hA : SmallOrNull A) (hB : SmallOrNull B) (s : State) (t t' : Wire.Tx)
    (s' : State) (r : Option Nat) (ht : Rt.TxOK t) (hc : Core s) (h : SendsR A B s t t' s' r) : Core s' := by
  obtain ⟨fuel, h⟩ := h
  exact (sendLoopR_core_small fuel _ _ s t t' s' r (okOp_of A hA) (okOp_of B hB) ht hc h).1

/-- an accepted complete send in the refusal-aware loop is a `Sends` / `Sends2` of C01–C03 -/
theorem accepted_send_is_sends (A B : Wire.Dg) (s : State) (t t' : Wire.Tx) (s' : State)
    (h : SendsR A B s t t' s' none) : Rt.Sends2 A B s t t' s' ∧ (B = .null → Rt.Sends A s t t' s') :=
  ⟨sendsR_pair_accept h, fun e => by subst e; exact sendsR_single_accept h⟩

/-- **rejected_send_changes_nothing_send_level**: a complete send of ANY single datagram whose first frame is refused
with `ERR_INVALID_SILENCER_SETTING` — the send loop stops there — leaves the device equal to the one before the send
in every field except `ack` (now the error code), `lastMsgId`, `rxData` (header bookkeeping of the one delivered
frame) and the private write cursors `modCycle` / `gainStmMode` (read by no `Obs.*` accessor and no guard): every
memory, register, swap chain, belief, CPU copy and the silencer configuration are unchanged -/
theorem rejected_send_changes_nothing_send_level (dg : Wire.Dg) (s : State) (t t' : Wire.Tx) (s' : State)
    (ht : Rt.TxOK t) (hF : Rt.Fresh s t)
    (h : sendLoopR 1 (Wire.Op.ofDg dg) (Wire.Op.ofDg .null) s t = some (t', s', some Cpu.ERR_INVALID_SILENCER_SETTING)) :
    s' = { s with ack := s'.ack, lastMsgId := s'.lastMsgId, rxData := s'.rxData,
                  modCycle := s'.modCycle, gainStmMode := s'.gainStmMode } :=
  (refused_first dg s t t' s' ht hF h).1

/-- **the tuple case, refused operation in slot 2**: slot 1 has been applied.  "Changes nothing" means: nothing of
the REFUSED member — `ecat_recv` returns exactly the state `s1` that the first slot's handler produced, with `ack` =
the error code (and possibly the two private cursors touched).  `Sender::send` stops there, so this is the state
after the refused send; if the first member is a transition-carrying multi-frame STM this state is the mid-send
state of F8d (a). -/
theorem rejected_changes_nothing_second_slot (s s' s1 s2 : State) (f : Array Nat) (a1 : Nat)
    (hid : s.lastMsgId ≠ u8at f DrvLayout.Header_msg_id_off)
    (hmsb : u8at f DrvLayout.Header_msg_id_off &&& 0x80 = 0)
    (h1 : handlePayload (preState s f) (slot1 f) = .ok (s1, a1)) (ha1 : a1 &&& Cpu.ERR_BIT = 0)
    (hs2 : u16at f DrvLayout.Header_slot_2_offset_off ≠ 0)
    (hin : DrvLayout.Header_size + u16at f DrvLayout.Header_slot_2_offset_off ≤ f.size)
    (h2 : handlePayload { s1 with ack := a1 } (slot2 f) = .ok (s2, Cpu.ERR_INVALID_SILENCER_SETTING))
    (h : ecatRecv s f = .ok s') :
    s' = { s1 with ack := Cpu.ERR_INVALID_SILENCER_SETTING, modCycle := s'.modCycle,
                   gainStmMode := s'.gainStmMode } :=
  recv_second_refused s s' s1 s2 f a1 hid hmsb h1 ha1 hs2 hin h2 h

/-- **F8d (a) counterexample** (kernel-checked, the SDK's frames delivered to an 8-transducer device — see
`trailFromNewN`; no send is cut): from `CPUEmulator::new`,
FociSTM div 40 → S0 (ack 1); first frame of the tuple (GainSTM → S1 div 100 Immediate, Silencer(10, 200, strict)):
GainSTM BEGIN in slot 1, Silencer in slot 2 → ack 142, belief S1, request S0; Silencer(10, 80, strict) → ack 3:
request register 0 (division 40), belief 1 (division 100), steps 10/80, strict fixed-steps: 40 < 80 -/
theorem f8d_counterexample_refused_tuple :
    trailFromNewN 8 f8dRefusedTrace =
      [[1, 0, 0, 40, 65535, 0, 65535, 65535, 10, 40, 0, 1],
       [142, 0, 1, 40, 100, 0, 65535, 65535, 10, 40, 0, 1],
       [3, 0, 1, 40, 100, 0, 65535, 65535, 10, 80, 4, 1]] := by
  decide +kernel

/-- **F8d (b) counterexample** (kernel-checked; every frame ACKNOWLEDGED): tuple (GainSTM → S1 div 100 Immediate,
GainSwapSegment(S0)): frame 1 = BEGIN + swap (belief S1 → S0, request S0), frame 2 = END|UPDATE (request := S1, belief
stays S0); Silencer(10, 200, strict) validated against S0 (division 0xFFFF) → ack 3: request register 1 with
division 100, steps 10/200, strict fixed-steps: 100 < 200 -/
theorem f8d_counterexample_accepted_tuple :
    trailFromNewN 8 f8dAcceptedTrace =
      [[1, 0, 0, 65535, 100, 0, 65535, 65535, 10, 40, 0, 1],
       [2, 1, 0, 65535, 100, 0, 65535, 65535, 10, 40, 0, 1],
       [3, 1, 0, 65535, 100, 0, 65535, 65535, 10, 200, 4, 1]] := by
  decide +kernel

/-
F8d through the real packer and on the real emulator (op lines of the `fw_c08` stream, 249 transducers; model and
implementation answer identically, the implementation oracle reports the violation):
(a) `send clear` / `send foci 1 0 255:0 65535 40 21760 2 1` / `send pair gainstm 0 1 255:0 65535 100 2 2 | silsteps 10 200 1`
    → `R=err:fw:142 N=1` / `send silsteps 10 80 1` → `R=ok`: strict 10/80, requested STM S0 has division 40.
(b) `send clear` / `send pair gainstm 0 1 255:0 65535 100 2 2 | swapgain 0 255:0` → `R=ok N=2` / `send silsteps 10 200 1`
    → `R=ok`: strict 10/200, requested STM S1 has division 100.
`Lemmas/SilSendWitness.lean`: `sendsFromNew f8dRefusedSends`, `sendsFromNew f8dAcceptedSends` evaluate (`#eval`) to the
same summaries through `sendLoopR`; the kernel needs minutes for them, so they are not stated as theorems.
-/

/-! ## non-vacuity -/

/-- the legal history of `Lemmas/SilGuardWitness.lean` runs without panic from `CPUEmulator::new` (summary
after each action: ack, STM request register, STM belief, STM divisions 0/1, modulation request,
modulation divisions 0/1, steps intensity/phase, silencer flag, CPU strict): its second frame is
refused with 142 and changes nothing, the same request is accepted later (ack 4), update-rate mode
(flag 1) leaves the CPU copies alone, and at the end requested STM segment 1 has division 100 ≥ 80 -/
example : trailFromNew legalTrace =
    [[1, 0, 0, 40, 65535, 0, 65535, 65535, 10, 40, 0, 1],
     [142, 0, 0, 40, 65535, 0, 65535, 65535, 10, 40, 0, 1],
     [3, 1, 1, 40, 100, 0, 65535, 65535, 10, 40, 0, 1],
     [3, 1, 1, 40, 100, 0, 65535, 65535, 10, 40, 0, 1],
     [4, 1, 1, 40, 100, 0, 65535, 65535, 10, 80, 4, 1],
     [5, 1, 1, 40, 100, 0, 65535, 10, 10, 80, 4, 1],
     [6, 1, 1, 40, 100, 0, 65535, 10, 10, 80, 1, 1],
     [7, 1, 1, 40, 100, 0, 65535, 10, 10, 80, 4, 1]] := by decide +kernel

/-- every action of the legal history satisfies the frame condition -/
example : ∀ a ∈ legalTrace, ActionOk a := by decide +kernel

/-- the cut BEGIN frames of F8b / F8c are outside `FrameOk`; the F8c one and all of `f8cTrace`,
`multiTrace`, `swapsTrace` are inside the partial theorem's alphabet, the F8b BEGIN frame is not -/
example : ¬ FrameOk (mkFrame 2 (fociFrame 1 1 0xFF 0xFFFF)) ∧ ¬ FrameOk (mkFrame 1 (fociFrame 1 1 0xFE 40)) ∧
    ¬ FrameOkCore (mkFrame 2 (fociFrame 1 1 0xFF 0xFFFF)) ∧
    (∀ a ∈ f8cTrace, ActionOkCore a) ∧ (∀ a ∈ multiTrace, ActionOkCore a) ∧
    (∀ a ∈ swapsTrace, ActionOkCore a) := by decide +kernel

/-- the hypotheses of `silencer_inv_multiframe_partial` are met by a history that runs without panic
from `CPUEmulator::new`: a FociSTM BEGIN frame (div 40, no transition) to S1 that is never completed,
GainSwapSegment(S1) accepted while the default steps (10/40) allow it, Silencer(10, 80, strict) refused
(142) because S1 is now requested, the other swaps, and back to S0 -/
example : trailFromNew swapsTrace =
    [[1, 0, 0, 65535, 40, 0, 65535, 65535, 10, 40, 0, 1],
     [2, 1, 1, 65535, 40, 0, 65535, 65535, 10, 40, 0, 1],
     [142, 1, 1, 65535, 40, 0, 65535, 65535, 10, 40, 0, 1],
     [4, 1, 1, 65535, 40, 0, 65535, 65535, 10, 40, 0, 1],
     [136, 1, 1, 65535, 40, 0, 65535, 65535, 10, 40, 0, 1],
     [136, 1, 1, 65535, 40, 0, 65535, 65535, 10, 40, 0, 1],
     [7, 1, 1, 65535, 40, 1, 65535, 65535, 10, 40, 0, 1],
     [8, 0, 0, 65535, 40, 1, 65535, 65535, 10, 40, 0, 1]] := by decide +kernel

/-- a history inside the proved vocabulary, frame by frame on an 8-transducer device (default strict silencer 10/40):
GainSTM → S1 div 60 with Immediate transition, BEGIN (ack 1: belief 1, request 0 — the invariant is suspended) and
END|UPDATE (ack 2: request 1 = belief); the tuple (Silencer(10, 55, strict), SwapSegment::GainSTM(S1)) in one frame,
accepted (ack 3) -/
example : trailFromNewN 8 legalFramesA =
    [[1, 0, 1, 65535, 60, 0, 65535, 65535, 10, 40, 0, 1],
     [2, 1, 1, 65535, 60, 0, 65535, 65535, 10, 40, 0, 1],
     [3, 1, 1, 65535, 60, 0, 65535, 65535, 10, 55, 4, 1]] := by decide +kernel

/-- strict Silencer(10, 50) accepted; a multi-frame GainSTM → S1 div 45 with transition is refused at its BEGIN frame
with 142 and nothing in the summary moves (the send stops: `rejected_send_changes_nothing_send_level`) -/
example : trailFromNewN 8 legalFramesB =
    [[1, 0, 0, 65535, 65535, 0, 65535, 65535, 10, 50, 4, 1],
     [142, 0, 0, 65535, 65535, 0, 65535, 65535, 10, 50, 4, 1]] := by decide +kernel

/-- the members of tuples covered by `Sent.small` are single-frame kinds; GainSTM / FociSTM are not (they enter through
`Sent.data` / `Sent1.accepted`) -/
example : SmallOrNull (.silencerSteps 10 55 true) ∧ SmallOrNull (.swapGainStm 1 0xFF 0) ∧ SmallOrNull .clear ∧
    SmallOrNull .null ∧ IsSmall (gstmDg 1 imm 100 2) = false ∧ IsSmall (fociDg 1 imm 60 100) = false :=
  ⟨Or.inl rfl, Or.inl rfl, Or.inl rfl, Or.inr rfl, rfl, rfl⟩

end Autd3.C08
