import Autd3.Model.Fw
import Autd3.Lemmas.SilGuardWitness
/-!
# C08 — strict silencer mode can never be circumvented

First layer: the guard predicate and the validation tables, for every register value.

Second layer (unbounded, all states / bytes / histories), about the executable firmware model
`Autd3.Fw` (lemmas in `Lemmas/SilGuard*.lean`):

* `rejected_changes_nothing*` — a handler / payload / frame answered with `ERR_INVALID_SILENCER_SETTING`
  returns the *whole* `State` unchanged.  Exactly two private CPU cursors may already have been
  touched when the guard refuses: `write_mod` has reset `modCycle := 0`, `write_gain_stm` has latched
  `gainStmMode`; neither is read by any `Obs.*` accessor nor by the guard (they only steer where the
  continuation frames of an in-flight multi-frame write go).  At frame level `ack`, `lastMsgId` and
  `rxData` change in addition.
* `inv_new`, `inv_frame`, `inv_tick`, `silencer_inv`, `silencer_guard` — the inductive invariant
  `Inv = Core ∧ GainOk` (`Lemmas/SilGuardInv.lean`): CPU belief = FPGA request registers, CPU guard copy
  = FPGA registers, guard holds for the believed segments; it holds after `CPUEmulator::new`, is
  preserved by every frame whose Modulation / FociSTM / GainSTM payloads are complete single-frame
  writes (any other tag, also unknown ones, both slots, any acknowledgement including
  `ERR_MISS_TRANSITION_TIME`), by clock ticks and thermal events; hence the property on `Obs`.
* `silencer_inv_multiframe_partial` — every frame of a multi-frame write *without* transition
  (all prefixes, i.e. aborted sends), arbitrarily interleaved with every kind of swap, silencer
  reconfiguration, Clear and any other tag, keeps `Core` — no side condition on `GainSwapSegment`
  any more (repaired firmware: `change_gain_segment` evaluates the guard on the target segment).
  Still excluded, with a kernel-checked counterexample trace: F8b (transition-carrying BEGIN frame
  of a send that is then cut).  `f8c_repaired`: the former F8c trace now ends refused.

Deviation from the brief: the CPU's strict copy is *implied by* — not equivalent to — the strict bit
of `ADDR_SILENCER_FLAG`: `clear` sets `silencer_strict_mode = true` but writes 0 to the flag register.
-/
namespace Autd3.C08
open Autd3 Autd3.Fw Autd3.Gen Autd3.SilGuard

/-- `validate_silencer_settings` accepts exactly when strict mode is off or both sampling divisions
respect the configured completion steps -/
theorem guard_semantics (s : State) (stmDiv modDiv : Nat) :
    validateSilencerSettings s stmDiv modDiv = false ↔
      (s.strict = false ∨ (s.minDivI ≤ modDiv ∧ s.minDivI ≤ stmDiv ∧ s.minDivP ≤ stmDiv)) := by
  unfold validateSilencerSettings
  cases s.strict <;> simp <;> omega

/-- the guard is monotone: a slower sampling division is never refused where a faster one is accepted -/
theorem guard_monotone (s : State) (a b a' b' : Nat) (ha : a ≤ a') (hb : b ≤ b')
    (h : validateSilencerSettings s a b = false) : validateSilencerSettings s a' b' = false := by
  rw [guard_semantics] at h ⊢
  rcases h with h | h
  · exact Or.inl h
  · exact Or.inr (by omega)

/-- a gain segment (division 0xFFFF) always satisfies the guard for 16-bit step counts -/
theorem gain_segment_always_ok (s : State) (modDiv : Nat) (hI : s.minDivI ≤ 0xFFFF) (hP : s.minDivP ≤ 0xFFFF)
    (hm : s.minDivI ≤ modDiv) : validateSilencerSettings s 0xFFFF modDiv = false := by
  rw [guard_semantics]; exact Or.inr ⟨hm, hI, hP⟩

/-- transition-mode table (`true` = refused), all 256 mode bytes × same/other segment × finite/infinite loop -/
theorem transition_table : ∀ (mode : Fin 256) (same finite : Bool),
    validateTransitionMode 0 (if same then 0 else 1) (if finite then 0 else 0xFFFF) mode.val =
      (if mode.val = Cpu.TRANSITION_MODE_NONE then false
       else if same ∨ ¬ finite then (mode.val = 0 ∨ mode.val = 1 ∨ mode.val = 2)
       else (mode.val = 0xFF ∨ mode.val = 0xF0)) := by
  decide +kernel

/-! ## rejected_changes_nothing -/

/-- **rejected_changes_nothing** (handler level): each of the eight handlers that can answer
`ERR_INVALID_SILENCER_SETTING` returns, with that answer, the state it was given — every field, for
every state and every payload bytes; `write_mod` has only reset its write cursor `modCycle`,
`write_gain_stm` has only latched `gainStmMode` -/
theorem rejected_changes_nothing (s s' : State) (d : Array Nat) :
    (configSilencer s d = .ok (s', Cpu.ERR_INVALID_SILENCER_SETTING) → s' = s) ∧
    (writeMod s d = .ok (s', Cpu.ERR_INVALID_SILENCER_SETTING) → s' = { s with modCycle := 0 }) ∧
    (changeModSegment s d = .ok (s', Cpu.ERR_INVALID_SILENCER_SETTING) → s' = s) ∧
    (writeFociStm s d = .ok (s', Cpu.ERR_INVALID_SILENCER_SETTING) → s' = s) ∧
    (changeFociStmSegment s d = .ok (s', Cpu.ERR_INVALID_SILENCER_SETTING) → s' = s) ∧
    (writeGainStm s d = .ok (s', Cpu.ERR_INVALID_SILENCER_SETTING) →
      s' = { s with gainStmMode := u8at d FwLayout.GainSTMHead_mode_off }) ∧
    (changeGainStmSegment s d = .ok (s', Cpu.ERR_INVALID_SILENCER_SETTING) → s' = s) ∧
    (changeGainSegment s d = .ok (s', Cpu.ERR_INVALID_SILENCER_SETTING) → s' = s) :=
  ⟨fun h => configSilencer_rejected s d _ h rfl, fun h => writeMod_rejected s d _ h rfl,
   fun h => changeModSegment_rejected s d _ h rfl, fun h => writeFociStm_rejected s d _ h rfl,
   fun h => changeFociStmSegment_rejected s d _ h rfl, fun h => writeGainStm_rejected s d _ h rfl,
   fun h => changeGainStmSegment_rejected s d _ h rfl, fun h => changeGainSegment_rejected s d _ h rfl⟩

/-- **rejected_changes_nothing** (dispatch level): whatever the tag byte (all 19 handlers and unknown
tags), a payload answered with `ERR_INVALID_SILENCER_SETTING` leaves every field of the state unchanged
except possibly the two private cursors `modCycle`, `gainStmMode` -/
theorem rejected_changes_nothing_dispatch (s s' : State) (d : Array Nat)
    (h : handlePayload s d = .ok (s', Cpu.ERR_INVALID_SILENCER_SETTING)) :
    s' = { s with modCycle := s'.modCycle, gainStmMode := s'.gainStmMode } :=
  handlePayload_rejected s d _ h rfl

/-- **rejected_changes_nothing** (frame level, first slot refused): `ecat_recv` returns the state in which
the slot was handled (`preState`: message id latched, read-back byte refreshed) with `ack` = the error
code; the second slot is not executed and `CTL_FLAG` is not rewritten -/
theorem rejected_changes_nothing_first_slot (s s' s1 : State) (f : Array Nat)
    (hid : s.lastMsgId ≠ u8at f DrvLayout.Header_msg_id_off)
    (hmsb : u8at f DrvLayout.Header_msg_id_off &&& 0x80 = 0)
    (h1 : handlePayload (preState s f) (slot1 f) = .ok (s1, Cpu.ERR_INVALID_SILENCER_SETTING))
    (h : ecatRecv s f = .ok s') :
    s' = { s1 with ack := Cpu.ERR_INVALID_SILENCER_SETTING } ∧
    s' = { preState s f with ack := s'.ack, modCycle := s'.modCycle, gainStmMode := s'.gainStmMode } :=
  ecatRecv_rejected_first s s' s1 f hid hmsb h1 h

/-- **rejected_changes_nothing** (frame level, single-operation frame, stated on the result alone): if
`ecat_recv` ends with `ack = ERR_INVALID_SILENCER_SETTING`, nothing but `ack`, `lastMsgId`, `rxData` and
the two private cursors differs from the state before the frame — in particular `ctl`, `phaseCorr`,
`pwe`, the four memories, both swap chains, `strict`/`minDivI`/`minDivP`, both segment beliefs and all
per-segment CPU copies are equal -/
theorem rejected_changes_nothing_frame (s s' : State) (f : Array Nat)
    (hslot : u16at f DrvLayout.Header_slot_2_offset_off = 0)
    (h : ecatRecv s f = .ok s') (hack : s'.ack = Cpu.ERR_INVALID_SILENCER_SETTING) :
    s' = { s with ack := s'.ack, lastMsgId := s'.lastMsgId, rxData := s'.rxData,
                  modCycle := s'.modCycle, gainStmMode := s'.gainStmMode } :=
  ecatRecv_rejected_single s f hslot s' h hack

/-! ## the inductive invariant -/

/-- the invariant holds for the state built by `CPUEmulator::new`, for every transducer count and clock -/
theorem inv_new (n t : Nat) (s : State) (h : Fw.new n t = .ok s) : Inv s := new_inv n t s h

/-- `clear` establishes the invariant from any state whose controller BRAM has its 256 registers -/
theorem inv_clear (s s' : State) (d : Array Nat) (ack : Nat) (hs : s.ctl.size = 256)
    (h : clear s d = .ok (s', ack)) : Inv s' := clear_inv s d hs _ h

/-- one frame: if both slots satisfy `FrameOk` (only Modulation / FociSTM / GainSTM payloads are
constrained: complete single-frame write, UPDATE flag iff a transition mode is carried, GainSTM with a
defined mode and ≥ 2 patterns) then `ecat_recv` preserves the invariant — whatever it acknowledges -/
theorem inv_frame (s s' : State) (f : Array Nat) (h : Inv s) (hf : FrameOk f)
    (hr : ecatRecv s f = .ok s') : Inv s' := ecatRecv_inv s f h hf s' hr

/-- a swap request whose SysTime deadline was missed has already written the request register; the
belief was moved as well, so the invariant survives `ERR_MISS_TRANSITION_TIME` -/
theorem inv_miss_transition_time (s s' : State) (d : Array Nat) (h : Inv s)
    (hr : changeFociStmSegment s d = .ok (s', Cpu.ERR_MISS_TRANSITION_TIME)) : Inv s' :=
  have hs := changeFociStmSegment_step s d h.core _ hr
  ⟨hs.1, hs.2 h.gainOk trivial⟩

/-- clock ticks (`update_with_sys_time`) preserve the invariant -/
theorem inv_tick (s s' : State) (t : Nat) (h : Inv s) (hr : updateWithSysTime s t = .ok s') : Inv s' :=
  h.congr (updateWithSysTime_view s t s' hr)

/-- histories from any state satisfying the invariant (e.g. the state after a `Clear`) keep it -/
theorem inv_run (as : List Action) (s s' : State) (h : Inv s) (hok : ∀ a ∈ as, ActionOk a)
    (hr : run s as = .ok s') : Inv s' := run_inv as s h hok s' hr

/-- **silencer_inv**: every history (frames satisfying `FrameOk`, clock ticks, thermal events, in any
order and number) from a freshly constructed device ends in a state satisfying the invariant -/
theorem silencer_inv (n t : Nat) (as : List Action) (s0 s : State) (h0 : Fw.new n t = .ok s0)
    (hok : ∀ a ∈ as, ActionOk a) (hr : run s0 as = .ok s) : Inv s :=
  run_inv as s0 (new_inv n t s0 h0) hok s hr

/-- **the property's statement** on the read-back accessors: after any such history the requested
segments read back without panic, and if the CPU is strict — in particular if the FPGA's flag register
says fixed-completion-steps mode with the strict bit — the requested STM segment's division is at least
`max(steps_intensity, steps_phase)` and the requested modulation segment's is at least `steps_intensity` -/
theorem silencer_guard (n t : Nat) (as : List Action) (s0 s : State) (h0 : Fw.new n t = .ok s0)
    (hok : ∀ a ∈ as, ActionOk a) (hr : run s0 as = .ok s) :
    ∃ rs rm, Obs.reqStmSeg s = .ok rs ∧ Obs.reqModSeg s = .ok rm ∧
      ((s.strict = true ∨ (Obs.silencerFixedUpdateRateMode s = false ∧ strictBit s = true)) →
        ∀ i p, Obs.silencerCompletionSteps s = .ok (i, p) →
          max i p ≤ Obs.stmDiv s rs ∧ i ≤ Obs.modDiv s rm) :=
  (silencer_inv n t as s0 s h0 hok hr).core.guard_obs

/-
Full statement wanted (DESIGN §5): the invariant for EVERY prefix of EVERY multi-frame send.  It is false
on this tree for transition-carrying sends (F8b below).  Proved: the variant for `Core` that admits every
frame of a multi-frame Modulation / FociSTM / GainSTM write that carries no transition (`PayloadOk`:
BEGIN frames with transition mode NONE and no UPDATE, continuation frames without UPDATE — so every
prefix = aborted send is covered), complete transition-carrying single frames, and ALL other tags without
any condition: Gain, the four swaps (in particular `GainSwapSegment` to a segment whose STM write was
cut — the former F8c pattern), both silencer frames, Clear, unknown tags; both slots.  Missing for the
full statement: the firmware would have to set the belief at END+UPDATE instead of BEGIN (F8b).
-/
theorem silencer_inv_multiframe_partial (n t : Nat) (as : List Action) (s0 s : State)
    (h0 : Fw.new n t = .ok s0) (hok : ∀ a ∈ as, ActionOkCore a) (hr : run s0 as = .ok s) :
    Core s ∧ ∃ rs rm, Obs.reqStmSeg s = .ok rs ∧ Obs.reqModSeg s = .ok rm ∧
      ((s.strict = true ∨ (Obs.silencerFixedUpdateRateMode s = false ∧ strictBit s = true)) →
        ∀ i p, Obs.silencerCompletionSteps s = .ok (i, p) →
          max i p ≤ Obs.stmDiv s rs ∧ i ≤ Obs.modDiv s rm) :=
  have hc := run_core as s0 (new_inv n t s0 h0).core hok s hr
  ⟨hc, hc.guard_obs⟩

/-- one step of the partial theorem: under the flag discipline `PayloadOk` alone (both slots) a frame
re-establishes `Core`, whatever it acknowledges -/
theorem core_frame_partial (s s' : State) (f : Array Nat) (h : Core s) (hf : FrameOkCore f)
    (hr : ecatRecv s f = .ok s') : Core s' := ecatRecv_core s f h hf s' hr

/-- the complete-frame alphabet of `silencer_inv` is a special case of the partial theorem's alphabet -/
theorem frameOk_core (a : Action) (h : ActionOk a) : ActionOkCore a := h.core

/-- **F8b counterexample** (kernel-checked): from `CPUEmulator::new`, FociSTM div 40 → S0 (Immediate),
a FociSTM → S1 carrying an Immediate transition cut after its BEGIN frame, Silencer(10, 80, strict):
all three acknowledged (ack = 3); the FPGA still requests S0 (reg 0) with division 40 while the CPU
believes S1; completion steps phase = 80, flag = strict fixed-steps: 40 < 80 -/
theorem f8b_counterexample :
    summary (fromNew f8bTrace) = [3, 0, 1, 40, 65535, 0, 65535, 65535, 10, 80, 4, 1] := by
  decide +kernel

/-- **F8c is repaired** (kernel-checked; negation of the former `f8c_counterexample`): FociSTM div 40 → S1
without transition cut after its BEGIN frame (ack 1), Silencer(10, 80, strict) accepted (ack 2),
GainSwapSegment(S1) is now answered `ERR_INVALID_SILENCER_SETTING` (142); belief and request register
stay S0 (whose division is 0xFFFF) and nothing else in the summary moves -/
theorem f8c_repaired :
    trailFromNew f8cTrace =
      [[1, 0, 0, 65535, 40, 0, 65535, 65535, 10, 40, 0, 1],
       [2, 0, 0, 65535, 40, 0, 65535, 65535, 10, 80, 4, 1],
       [142, 0, 0, 65535, 40, 0, 65535, 65535, 10, 80, 4, 1]] := by
  decide +kernel

/-! ## non-vacuity -/

/-- the legal history of `Lemmas/SilGuardWitness.lean` runs without panic from `CPUEmulator::new` (summary
after each action: ack, STM request register, STM belief, STM divisions 0/1, modulation request,
modulation divisions 0/1, steps intensity/phase, silencer flag, CPU strict): its second frame is
refused with 142 and changes nothing, the same request is accepted later (ack 4), update-rate mode
(flag 1) leaves the CPU copies alone, and at the end requested STM segment 1 has division 100 ≥ 80 -/
example : trailFromNew legalTrace =
    [[1, 0, 0, 40, 65535, 0, 65535, 65535, 10, 40, 0, 1],
     [142, 0, 0, 40, 65535, 0, 65535, 65535, 10, 40, 0, 1],
     [3, 1, 1, 40, 100, 0, 65535, 65535, 10, 40, 0, 1],
     [3, 1, 1, 40, 100, 0, 65535, 65535, 10, 40, 0, 1],
     [4, 1, 1, 40, 100, 0, 65535, 65535, 10, 80, 4, 1],
     [5, 1, 1, 40, 100, 0, 65535, 10, 10, 80, 4, 1],
     [6, 1, 1, 40, 100, 0, 65535, 10, 10, 80, 1, 1],
     [7, 1, 1, 40, 100, 0, 65535, 10, 10, 80, 4, 1]] := by decide +kernel

/-- every action of the legal history satisfies the frame condition -/
example : ∀ a ∈ legalTrace, ActionOk a := by decide +kernel

/-- the cut BEGIN frames of F8b / F8c are outside `FrameOk`; the F8c one and all of `f8cTrace`,
`multiTrace`, `swapsTrace` are inside the partial theorem's alphabet, the F8b BEGIN frame is not -/
example : ¬ FrameOk (mkFrame 2 (fociFrame 1 1 0xFF 0xFFFF)) ∧ ¬ FrameOk (mkFrame 1 (fociFrame 1 1 0xFE 40)) ∧
    ¬ FrameOkCore (mkFrame 2 (fociFrame 1 1 0xFF 0xFFFF)) ∧
    (∀ a ∈ f8cTrace, ActionOkCore a) ∧ (∀ a ∈ multiTrace, ActionOkCore a) ∧
    (∀ a ∈ swapsTrace, ActionOkCore a) := by decide +kernel

/-- the hypotheses of `silencer_inv_multiframe_partial` are met by a history that runs without panic
from `CPUEmulator::new`: a FociSTM BEGIN frame (div 40, no transition) to S1 that is never completed,
GainSwapSegment(S1) accepted while the default steps (10/40) allow it, Silencer(10, 80, strict) refused
(142) because S1 is now requested, the other swaps, and back to S0 -/
example : trailFromNew swapsTrace =
    [[1, 0, 0, 65535, 40, 0, 65535, 65535, 10, 40, 0, 1],
     [2, 1, 1, 65535, 40, 0, 65535, 65535, 10, 40, 0, 1],
     [142, 1, 1, 65535, 40, 0, 65535, 65535, 10, 40, 0, 1],
     [4, 1, 1, 65535, 40, 0, 65535, 65535, 10, 40, 0, 1],
     [136, 1, 1, 65535, 40, 0, 65535, 65535, 10, 40, 0, 1],
     [136, 1, 1, 65535, 40, 0, 65535, 65535, 10, 40, 0, 1],
     [7, 1, 1, 65535, 40, 1, 65535, 65535, 10, 40, 0, 1],
     [8, 0, 0, 65535, 40, 1, 65535, 65535, 10, 40, 0, 1]] := by decide +kernel

end Autd3.C08
