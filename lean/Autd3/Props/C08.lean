import Autd3.Model.Fw
/-!
# C08 — strict silencer mode can never be circumvented
First layer: the guard predicate and the validation tables, for every register value.
-/
namespace Autd3.C08
open Autd3 Autd3.Fw Autd3.Gen

/-- `validate_silencer_settings` accepts exactly when strict mode is off or both sampling divisions
respect the configured completion steps -/
theorem guard_semantics (s : State) (stmDiv modDiv : Nat) :
    validateSilencerSettings s stmDiv modDiv = false ↔
      (s.strict = false ∨ (s.minDivI ≤ modDiv ∧ s.minDivI ≤ stmDiv ∧ s.minDivP ≤ stmDiv)) := by
  unfold validateSilencerSettings
  cases s.strict <;> simp <;> omega

/-- the guard is monotone: a slower sampling division is never refused where a faster one is accepted -/
theorem guard_monotone (s : State) (a b a' b' : Nat) (ha : a ≤ a') (hb : b ≤ b')
    (h : validateSilencerSettings s a b = false) : validateSilencerSettings s a' b' = false := by
  rw [guard_semantics] at h ⊢
  rcases h with h | h
  · exact Or.inl h
  · exact Or.inr (by omega)

/-- a gain segment (division 0xFFFF) always satisfies the guard for 16-bit step counts -/
theorem gain_segment_always_ok (s : State) (modDiv : Nat) (hI : s.minDivI ≤ 0xFFFF) (hP : s.minDivP ≤ 0xFFFF)
    (hm : s.minDivI ≤ modDiv) : validateSilencerSettings s 0xFFFF modDiv = false := by
  rw [guard_semantics]; exact Or.inr ⟨hm, hI, hP⟩

/-- transition-mode table (`true` = refused), all 256 mode bytes × same/other segment × finite/infinite loop -/
theorem transition_table : ∀ (mode : Fin 256) (same finite : Bool),
    validateTransitionMode 0 (if same then 0 else 1) (if finite then 0 else 0xFFFF) mode.val =
      (if mode.val = Cpu.TRANSITION_MODE_NONE then false
       else if same ∨ ¬ finite then (mode.val = 0 ∨ mode.val = 1 ∨ mode.val = 2)
       else (mode.val = 0xFF ∨ mode.val = 0xF0)) := by
  decide +kernel

end Autd3.C08
