import Autd3.Lemmas.Tuple2Final
import Autd3.Lemmas.Tuple2Cfg
/-!
General tuples, part 6: a single-frame configuration datagram × a data datagram, both orders.
-/
open Autd3 Autd3.Fw Autd3.Wire Autd3.Gen.Cpu Autd3.Gen Autd3.Rt
namespace Autd3.Tuple2

/-! ### raw equality of a data side gives its observations -/

theorem StmObsEq_of_KeepS {s s' : State} (h : KeepS s s') : StmObsEq s s' := by
  have hs : StmSame s s' := ⟨h.mem0, h.mem1, h.swap, h.phaseCorr, h.numTr, h.regs, h.cycle, h.mode, h.rep, h.div, h.segment⟩
  obtain ⟨_, o2, o3, o4, _, _⟩ := obs_stm_same hs
  refine ⟨fun g hg => ?_, fun g hg => ?_, fun g hg idx _ => ?_, o3, o4, h.swap⟩
  · obtain ⟨a, b, c, d, _⟩ := o2 g hg; exact ⟨d, a, b, c⟩
  · obtain ⟨_, _, _, _, e, f, _⟩ := o2 g hg; exact ⟨e, f⟩
  · exact (o2 g hg).2.2.2.2.2.2 idx

theorem ModObsEq_of_KeepM {s s' : State} (h : KeepM s s') : ModObsEq s s' := by
  have hs : ModSame s s' := ⟨h.mem0, h.mem1, h.swap, h.regs, h.div, h.rep, h.segment⟩
  obtain ⟨_, o2, o3, o4, _, _⟩ := obs_mod_same hs
  refine ⟨fun g hg => ?_, o3, o4, h.swap⟩
  obtain ⟨a, b, c, d⟩ := o2 g hg
  exact ⟨d, b, c, a⟩

/-! ### accepted ⇒ the configuration protocol was ready -/

theorem cfg_ready_of_sends (X : Dg) (hX : Tuple.IsCfg X = true) (s : State) (t : Tx) (hW : WF s) (ht : TxOK t)
    (hf : Fresh s t) (t' : Tx) (s' : State) (h : Sends X s t t' s') : (cfgProto X).Ready (pre s (nextId t)) := by
  rw [cfgProto_ready]
  have hWp := WF_pre hW (nextId t)
  refine ⟨hWp, hX, ?_⟩
  unfold CfgAccepts
  cases hr : cfgRejects X (pre s (nextId t))
  · rfl
  · exfalso
    have ht' : t.payload.size = 622 := ht
    have hlen : Tuple.cfgLen X ≤ 622 := by
      cases X <;> simp [Tuple.IsCfg] at hX <;> simp [Tuple.cfgLen]
    have hfit : 0 + Tuple.cfgLen X ≤ t.payload.size := by rw [ht']; omega
    have hp := Tuple.cfg_pack X hX s.numTr t.payload 0 hfit
    have hag := cfg_agree_at X hX t.payload 0 ht' (by omega) (Tuple.cfgBuf X t.payload 0)
      (by rw [(pack_keeps hp).1]; exact ht') (fun _ _ _ => rfl)
    have hsz : (Tuple.cfgBuf X t.payload 0).size = 622 := by rw [(pack_keeps hp).1]; exact ht'
    rw [extract_all _ hsz] at hag
    have hrun := cfg_run X hX (pre s (nextId t)) (Hist.p02wf_of_wf hWp) _ hag
    rw [hr, if_pos rfl] at hrun
    obtain ⟨fuel, hfu⟩ := h
    have hnd : (Op.ofDg X).done = false := by
      cases X <;> simp [Tuple.IsCfg] at hX <;> rfl
    have := sendLoop_reject fuel (Op.ofDg X) s t hnd _ _ _ hp hf _ _ hrun (by decide) (by decide)
    rw [this] at hfu
    exact nomatch hfu

/-! ### the configuration protocol against the data protocols -/

theorem cfgDone_det {X : Dg} {b x y : State} (hx : (cfgProto X).Done b x) (hy : (cfgProto X).Done b y) : KeepR x y := by
  obtain ⟨_, s1, h1, k1⟩ := hx
  obtain ⟨_, s2, h2, k2⟩ := hy
  rw [h1] at h2
  cases h2
  exact KeepR.trans (KeepR.symm k1) k2

theorem cfgPost_done {X : Dg} {b x : State} {c : Nat} (h0 : 0 < c) (h : (cfgProto X).Post b x c) : (cfgProto X).Done b x := by
  unfold Proto.Post at h
  have : ¬ c < (cfgProto X).total := by show ¬ c < 1; omega
  rw [if_neg this] at h; exact h

theorem compat_cfg_mod (X : Dg) (hX : Tuple.IsCfg X = true) (seg : Nat) (tr : Tr) (rep div : Nat) (samples : Array Nat)
    (hn2 : 2 ≤ samples.size) (hn3 : samples.size ≤ 65536) : Compat (cfgProto X) (modProto seg tr rep div samples) KeepS :=
  ⟨cfgProto_laws X hX, modProto_laws seg tr rep div samples hn2 hn3,
    fun a b (h : KeepM a b ∧ KeepS a b ∧ b.lastMsgId = a.lastMsgId) => (h.1 : KeepM a b),
    fun a b (h : Foot eraseM TM a b) => (KeepR_of_footM h.toMI : KeepR a b),
    KeepS.refl, fun _ _ _ => KeepS.trans,
    fun a b (h : KeepM a b ∧ KeepS a b) => h.2,
    fun a b (h : Foot eraseMI TM a b) => KeepS_of_footMI h⟩

theorem compat_mod_cfg (X : Dg) (hX : Tuple.IsCfg X = true) (seg : Nat) (tr : Tr) (rep div : Nat) (samples : Array Nat)
    (hn2 : 2 ≤ samples.size) (hn3 : samples.size ≤ 65536) : Compat (modProto seg tr rep div samples) (cfgProto X) KeepS :=
  ⟨modProto_laws seg tr rep div samples hn2 hn3, cfgProto_laws X hX,
    fun a b (h : Foot eraseM TM a b) => (KeepR_of_footM h.toMI : KeepR a b),
    fun a b (h : KeepM a b ∧ KeepS a b ∧ b.lastMsgId = a.lastMsgId) => (h.1 : KeepM a b),
    KeepS.refl, fun _ _ _ => KeepS.trans,
    fun a b (h : Foot eraseMI TM a b) => KeepS_of_footMI h,
    fun a b (h : KeepM a b ∧ KeepS a b) => h.2⟩

theorem compat_cfg_S (X : Dg) (hX : Tuple.IsCfg X = true) {PS : Proto} {Ld : State → Nat × Nat} {Ls : State → Nat}
    (K : SKind PS Ld Ls) : Compat (cfgProto X) PS KeepM :=
  ⟨cfgProto_laws X hX, K.laws,
    fun a b (h : KeepM a b ∧ KeepS a b ∧ b.lastMsgId = a.lastMsgId) => K.other a b h.2.1,
    fun a b h => (KeepR_of_footS (K.own a b h).toSI : KeepR a b),
    KeepM.refl, fun _ _ _ => KeepM.trans,
    fun a b (h : KeepM a b ∧ KeepS a b) => h.1,
    fun a b h => KeepM_of_footSI (K.ownT a b h)⟩

theorem compat_S_cfg (X : Dg) (hX : Tuple.IsCfg X = true) {PS : Proto} {Ld : State → Nat × Nat} {Ls : State → Nat}
    (K : SKind PS Ld Ls) : Compat PS (cfgProto X) KeepM :=
  ⟨K.laws, cfgProto_laws X hX,
    fun a b h => (KeepR_of_footS (K.own a b h).toSI : KeepR a b),
    fun a b (h : KeepM a b ∧ KeepS a b ∧ b.lastMsgId = a.lastMsgId) => K.other a b h.2.1,
    KeepM.refl, fun _ _ _ => KeepM.trans,
    fun a b h => KeepM_of_footSI (K.ownT a b h),
    fun a b (h : KeepM a b ∧ KeepS a b) => h.1⟩

/-- **(configuration, Modulation)** -/
theorem tuple_cfg_mod (X : Dg) (hX : Tuple.IsCfg X = true) (s : State) (t : Tx) (hW : WF s) (ht : TxOK t) (hf : Fresh s t)
    (seg : Nat) (tr : Tr) (rep div : Nat) (samples : Array Nat) (HB : ModOK s seg tr rep div samples)
    (tA : Tx) (sA : State) (tB : Tx) (sB : State)
    (hA : Sends X s t tA sA) (hB : Sends (.modulation seg tr rep div samples) sA tA tB sB) :
    ∃ t2 s2, Sends2 X (.modulation seg tr rep div samples) s t t2 s2 ∧ WF s2 ∧ TxOK t2 ∧ Fresh s2 t2 ∧ TupleObsEq sB s2 := by
  have LC := cfgProto_laws X hX
  have LM := modProto_laws seg tr rep div samples HB.n2 HB.n3
  have hRA := cfg_ready_of_sends X hX s t hW ht hf tA sA hA
  obtain ⟨tA', sA', hSA, hWA, hTA, hFA, hOA, hDA⟩ := single_roundtrip LC s t hW ht hf hRA
  obtain ⟨e1, e2⟩ := Sends_unique hA hSA
  subst e1 e2
  have hOA' : KeepM s sA ∧ KeepS s sA := hOA
  have hRB := mod_ready_of_sends sA tA hWA hTA hFA seg tr rep div samples (ModOK_time HB hOA'.1.time) tB sB hB
  obtain ⟨tB', sB', hSB, hWB, hTB, hFB, hOB, hDB, hSetB⟩ := single_roundtrip' LM sA tA hWA hTA hFA hRB
  obtain ⟨e1, e2⟩ := Sends_unique hB hSB
  subst e1 e2
  have hOB' : Foot eraseMI TM sA sB := hOB
  have C := compat_cfg_mod X hX seg tr rep div samples HB.n2 HB.n3
  have hR2 : ∀ x c1, 0 < c1 → c1 ≤ (cfgProto X).total → (cfgProto X).Post (pre s (nextId t)) x c1 →
      (cfgProto X).OwnT (pre s (nextId t)) x → (modProto seg tr rep div samples).Ready x := by
    intro x c1 h0 _ hp ho
    have ho' : KeepM (pre s (nextId t)) x ∧ KeepS (pre s (nextId t)) x := ho
    have hdx := cfgPost_done h0 hp
    have kr : KeepR sA x := cfgDone_det hDA hdx
    have km : KeepM (pre sA (nextId tA)) x :=
      KeepM.trans (KeepM.symm (KeepM.trans hOA'.1 (KeepM_pre sA _))) (KeepM.trans (KeepM_pre s _) ho'.1)
    have ks : KeepS (pre sA (nextId tA)) x :=
      KeepS.trans (KeepS.symm (KeepS.trans hOA'.2 (KeepS_pre sA _))) (KeepS.trans (KeepS_pre s _) ho'.2)
    have kr' : KeepR (pre sA (nextId tA)) x := KeepR.trans (KeepR.symm (KeepR_pre sA _)) kr
    exact modReady_congr seg tr rep div samples hRB hdx.1 km.segment (by rw [ks.div, ks.segment]) kr'.strict kr'.minDivI
      kr'.minDivP kr'.time
  obtain ⟨t2, f, b2, hS2, hWf, hTf, hFf, hRel, hD1, hO12, hD2, _, hSetF⟩ := pair_roundtrip' C s t hW ht hf hRA hR2
  have hO12' : KeepM (pre s (nextId t)) b2 ∧ KeepS (pre s (nextId t)) b2 := hO12
  have krf : KeepR sB f := KeepR.trans (KeepR.symm (KeepR_of_footM hOB')) (cfgDone_det hDA hD1)
  refine ⟨t2, f, hS2, hWf, hTf, hFf, ?_, ?_, RestSame_of_KeepR krf, ctlFlag_of_settled hSetB hSetF krf⟩
  · have kb : KeepM (pre sA (nextId tA)) b2 :=
      KeepM.trans (KeepM.symm (KeepM.trans hOA'.1 (KeepM_pre sA _))) (KeepM.trans (KeepM_pre s _) hO12'.1)
    exact modDone_obs seg tr rep div samples hDB hD2 kb
  · exact StmObsEq_of_KeepS (KeepS.trans (KeepS.symm (KeepS.trans hOA'.2 (KeepS_of_footMI hOB'))) hRel)

/-- **(Modulation, configuration)** -/
theorem tuple_mod_cfg (X : Dg) (hX : Tuple.IsCfg X = true) (s : State) (t : Tx) (hW : WF s) (ht : TxOK t) (hf : Fresh s t)
    (seg : Nat) (tr : Tr) (rep div : Nat) (samples : Array Nat) (HA : ModOK s seg tr rep div samples)
    (tA : Tx) (sA : State) (tB : Tx) (sB : State)
    (hA : Sends (.modulation seg tr rep div samples) s t tA sA) (hB : Sends X sA tA tB sB) :
    ∃ t2 s2, Sends2 (.modulation seg tr rep div samples) X s t t2 s2 ∧ WF s2 ∧ TxOK t2 ∧ Fresh s2 t2 ∧ TupleObsEq sB s2 := by
  have LC := cfgProto_laws X hX
  have LM := modProto_laws seg tr rep div samples HA.n2 HA.n3
  have hRA := mod_ready_of_sends s t hW ht hf seg tr rep div samples HA tA sA hA
  obtain ⟨tA', sA', hSA, hWA, hTA, hFA, hOA, hDA⟩ := single_roundtrip LM s t hW ht hf hRA
  obtain ⟨e1, e2⟩ := Sends_unique hA hSA
  subst e1 e2
  have hOA' : Foot eraseMI TM s sA := hOA
  have hRB := cfg_ready_of_sends X hX sA tA hWA hTA hFA tB sB hB
  obtain ⟨tB', sB', hSB, hWB, hTB, hFB, hOB, hDB, hSetB⟩ := single_roundtrip' LC sA tA hWA hTA hFA hRB
  obtain ⟨e1, e2⟩ := Sends_unique hB hSB
  subst e1 e2
  have hOB' : KeepM sA sB ∧ KeepS sA sB := hOB
  have C := compat_mod_cfg X hX seg tr rep div samples HA.n2 HA.n3
  have hR2 : ∀ x c1, 0 < c1 → c1 ≤ (modProto seg tr rep div samples).total →
      (modProto seg tr rep div samples).Post (pre s (nextId t)) x c1 →
      (modProto seg tr rep div samples).OwnT (pre s (nextId t)) x → (cfgProto X).Ready x := by
    intro x c1 h0 _ hp ho
    have ho' : Foot eraseMI TM (pre s (nextId t)) x := ho
    have ks : KeepS (pre sA (nextId tA)) x :=
      KeepS.trans (KeepS.symm (KeepS.trans (KeepS_of_footMI hOA') (KeepS_pre sA _)))
        (KeepS.trans (KeepS_pre s _) (KeepS_of_footMI ho'))
    obtain ⟨lx1, lx2⟩ := modPost_latch seg tr rep div samples hp
    obtain ⟨_, _, la1, la2⟩ := modProto_done seg tr rep div samples hDA
    obtain ⟨_, _, q3, q4, _⟩ := pre_fields sA (nextId tA)
    exact cfgProto_ready_congr X hRB (Proto.Post_wf LM hp) ⟨ks.div, ks.segment, by rw [q4, lx1, la1], by rw [q3, lx2, la2]⟩
  obtain ⟨t2, f, b2, hS2, hWf, hTf, hFf, hRel, hD1, hO12, hD2, hRdy2, hSetF⟩ := pair_roundtrip' C s t hW ht hf hRA hR2
  have hO12' : Foot eraseMI TM (pre s (nextId t)) b2 := hO12
  have krf : KeepR sB f := by
    obtain ⟨_, u1, hu1, ku1⟩ := hDB
    obtain ⟨_, v1, hv1, kv1⟩ := hD2
    have hab : KeepR (pre sA (nextId tA)) b2 :=
      KeepR.trans (KeepR.symm (KeepR.trans (KeepR_of_footM hOA') (KeepR_pre sA _)))
        (KeepR.trans (KeepR_pre s _) (KeepR_of_footM hO12'))
    have := cfg_handler_congr X hX (WF_pre hWA _) ((cfgProto_ready X b2).1 hRdy2).1 hab hu1 hv1
    exact KeepR.trans (KeepR.symm ku1) (KeepR.trans this kv1)
  refine ⟨t2, f, hS2, hWf, hTf, hFf, ?_, ?_, RestSame_of_KeepR krf, ctlFlag_of_settled hSetB hSetF krf⟩
  · exact modDone_obs seg tr rep div samples (LM.done_other _ _ _ hDA hOB'.1 hWB) hD1 (KeepM.refl _)
  · exact StmObsEq_of_KeepS (KeepS.trans (KeepS.symm (KeepS.trans (KeepS_of_footMI hOA') hOB'.2)) hRel)

/-- **(configuration, STM-side datagram)** -/
theorem tuple_cfg_S (X : Dg) (hX : Tuple.IsCfg X = true) {PS : Proto} {Ld : State → Nat × Nat} {Ls : State → Nat}
    (K : SKind PS Ld Ls) (s : State) (t : Tx) (hW : WF s) (ht : TxOK t) (hf : Fresh s t) (hRdy : RdyOf PS s)
    (tA : Tx) (sA : State) (tB : Tx) (sB : State) (hA : Sends X s t tA sA) (hB : Sends PS.dg sA tA tB sB) :
    ∃ t2 s2, Sends2 X PS.dg s t t2 s2 ∧ WF s2 ∧ TxOK t2 ∧ Fresh s2 t2 ∧ TupleObsEq sB s2 := by
  have LC := cfgProto_laws X hX
  have hRA := cfg_ready_of_sends X hX s t hW ht hf tA sA hA
  obtain ⟨tA', sA', hSA, hWA, hTA, hFA, hOA, hDA⟩ := single_roundtrip LC s t hW ht hf hRA
  obtain ⟨e1, e2⟩ := Sends_unique hA hSA
  subst e1 e2
  have hOA' : KeepM s sA ∧ KeepS s sA := hOA
  have hRB := hRdy sA tA hWA hTA hFA hOA'.1.time tB sB hB
  obtain ⟨tB', sB', hSB, hWB, hTB, hFB, hOB, hDB, hSetB⟩ := single_roundtrip' K.laws sA tA hWA hTA hFA hRB
  obtain ⟨e1, e2⟩ := Sends_unique hB hSB
  subst e1 e2
  have hOB' := K.ownT _ _ hOB
  have C := compat_cfg_S X hX K
  have hR2 : ∀ x c1, 0 < c1 → c1 ≤ (cfgProto X).total → (cfgProto X).Post (pre s (nextId t)) x c1 →
      (cfgProto X).OwnT (pre s (nextId t)) x → PS.Ready x := by
    intro x c1 h0 _ hp ho
    have ho' : KeepM (pre s (nextId t)) x ∧ KeepS (pre s (nextId t)) x := ho
    have hdx := cfgPost_done h0 hp
    have kr : KeepR sA x := cfgDone_det hDA hdx
    have km : KeepM (pre sA (nextId tA)) x :=
      KeepM.trans (KeepM.symm (KeepM.trans hOA'.1 (KeepM_pre sA _))) (KeepM.trans (KeepM_pre s _) ho'.1)
    have ks : KeepS (pre sA (nextId tA)) x :=
      KeepS.trans (KeepS.symm (KeepS.trans hOA'.2 (KeepS_pre sA _))) (KeepS.trans (KeepS_pre s _) ho'.2)
    have kr' : KeepR (pre sA (nextId tA)) x := KeepR.trans (KeepR.symm (KeepR_pre sA _)) kr
    exact K.readyCongr _ x hRB hdx.1 ks.segment (by rw [km.div, km.segment]) kr'.strict kr'.minDivI kr'.minDivP kr'.time
  obtain ⟨t2, f, b2, hS2, hWf, hTf, hFf, hRel, hD1, hO12, hD2, _, hSetF⟩ := pair_roundtrip' C s t hW ht hf hRA hR2
  have hO12' : KeepM (pre s (nextId t)) b2 ∧ KeepS (pre s (nextId t)) b2 := hO12
  have krf : KeepR sA f := cfgDone_det hDA hD1
  have rB := KeepR_of_footS hOB'
  refine ⟨t2, f, hS2, hWf, hTf, hFf, ?_, ?_, ?_, ctlFlag_of_settled hSetB hSetF (KeepR.trans (KeepR.symm rB) krf)⟩
  · exact ModObsEq_of_KeepM (KeepM.trans (KeepM.symm (KeepM.trans hOA'.1 (KeepM_of_footSI hOB'))) hRel)
  · have kb : KeepS (pre sA (nextId tA)) b2 :=
      KeepS.trans (KeepS.symm (KeepS.trans hOA'.2 (KeepS_pre sA _))) (KeepS.trans (KeepS_pre s _) hO12'.2)
    refine K.obs _ _ _ _ hDB hD2 kb ?_ ?_ ?_ ?_
    · rw [rB.phaseCorr, (pre_fields sA _).2.2.2.2.2.2.2.2.1]
    · rw [krf.phaseCorr, hOA'.2.phaseCorr, hO12'.2.phaseCorr, (KeepS_pre s (nextId t)).phaseCorr]
    · rw [rB.numTr, (pre_fields sA _).2.2.2.2.2.2.2.2.2]
    · rw [krf.numTr, hOA'.2.numTr, hO12'.2.numTr, (KeepS_pre s (nextId t)).numTr]
  · exact RestSame_of_KeepR (KeepR.trans (KeepR.symm rB) krf)

/-- **(STM-side datagram, configuration)** -/
theorem tuple_S_cfg (X : Dg) (hX : Tuple.IsCfg X = true) {PS : Proto} {Ld : State → Nat × Nat} {Ls : State → Nat}
    (K : SKind PS Ld Ls) (s : State) (t : Tx) (hW : WF s) (ht : TxOK t) (hf : Fresh s t) (hRdy : RdyOf PS s)
    (tA : Tx) (sA : State) (tB : Tx) (sB : State) (hA : Sends PS.dg s t tA sA) (hB : Sends X sA tA tB sB) :
    ∃ t2 s2, Sends2 PS.dg X s t t2 s2 ∧ WF s2 ∧ TxOK t2 ∧ Fresh s2 t2 ∧ TupleObsEq sB s2 := by
  have LC := cfgProto_laws X hX
  have hRA := hRdy s t hW ht hf rfl tA sA hA
  obtain ⟨tA', sA', hSA, hWA, hTA, hFA, hOA, hDA⟩ := single_roundtrip K.laws s t hW ht hf hRA
  obtain ⟨e1, e2⟩ := Sends_unique hA hSA
  subst e1 e2
  have hOA' := K.ownT _ _ hOA
  have hRB := cfg_ready_of_sends X hX sA tA hWA hTA hFA tB sB hB
  obtain ⟨tB', sB', hSB, hWB, hTB, hFB, hOB, hDB, hSetB⟩ := single_roundtrip' LC sA tA hWA hTA hFA hRB
  obtain ⟨e1, e2⟩ := Sends_unique hB hSB
  subst e1 e2
  have hOB' : KeepM sA sB ∧ KeepS sA sB := hOB
  have C := compat_S_cfg X hX K
  have hR2 : ∀ x c1, 0 < c1 → c1 ≤ PS.total → PS.Post (pre s (nextId t)) x c1 → PS.OwnT (pre s (nextId t)) x →
      (cfgProto X).Ready x := by
    intro x c1 h0 _ hp ho
    have ho' := K.ownT _ _ ho
    have km : KeepM (pre sA (nextId tA)) x :=
      KeepM.trans (KeepM.symm (KeepM.trans (KeepM_of_footSI hOA') (KeepM_pre sA _)))
        (KeepM.trans (KeepM_pre s _) (KeepM_of_footSI ho'))
    obtain ⟨lx1, lx2⟩ := K.latch _ _ _ h0 hp
    have hDA' : PS.Post (pre s (nextId t)) sA PS.total := by
      unfold Proto.Post; rw [if_neg (Nat.lt_irrefl _)]; exact hDA
    obtain ⟨la1, la2⟩ := K.latch _ _ _ K.laws.total_pos hDA'
    obtain ⟨q1, q2, _⟩ := pre_fields sA (nextId tA)
    exact cfgProto_ready_congr X hRB (Proto.Post_wf K.laws hp) ⟨by rw [q2, lx1, la1], by rw [q1, lx2, la2], km.div, km.segment⟩
  obtain ⟨t2, f, b2, hS2, hWf, hTf, hFf, hRel, hD1, hO12, hD2, hRdy2, hSetF⟩ := pair_roundtrip' C s t hW ht hf hRA hR2
  have hO12' := K.ownT _ _ hO12
  obtain ⟨_, u1, hu1, ku1⟩ := hDB
  obtain ⟨_, v1, hv1, kv1⟩ := hD2
  have hab : KeepR (pre sA (nextId tA)) b2 :=
    KeepR.trans (KeepR.symm (KeepR.trans (KeepR_of_footS hOA') (KeepR_pre sA _)))
      (KeepR.trans (KeepR_pre s _) (KeepR_of_footS hO12'))
  have huv := cfg_handler_congr X hX (WF_pre hWA _) ((cfgProto_ready X b2).1 hRdy2).1 hab hu1 hv1
  have krf : KeepR sB f := KeepR.trans (KeepR.symm ku1) (KeepR.trans huv kv1)
  refine ⟨t2, f, hS2, hWf, hTf, hFf, ?_, ?_, RestSame_of_KeepR krf, ctlFlag_of_settled hSetB hSetF krf⟩
  · exact ModObsEq_of_KeepM (KeepM.trans (KeepM.symm (KeepM.trans (KeepM_of_footSI hOA') hOB'.1)) hRel)
  · have hDA' : PS.Done (pre s (nextId t)) sB := K.laws.done_other _ _ _ hDA (K.other _ _ hOB'.2) hWB
    have rA := KeepR_of_footS hOA'
    refine K.obs _ _ _ _ hDA' hD1 (KeepS.refl _) ?_ ?_ ?_ ?_
    · rw [hOB'.2.phaseCorr, rA.phaseCorr, (pre_fields s _).2.2.2.2.2.2.2.2.1]
    · rw [krf.phaseCorr, hOB'.2.phaseCorr, rA.phaseCorr, (pre_fields s _).2.2.2.2.2.2.2.2.1]
    · rw [hOB'.2.numTr, rA.numTr, (pre_fields s _).2.2.2.2.2.2.2.2.2]
    · rw [krf.numTr, hOB'.2.numTr, rA.numTr, (pre_fields s _).2.2.2.2.2.2.2.2.2]

/-- the integer-level side conditions of a data datagram: `ModOK` for a Modulation, `StmOK` for the others -/
def DataOK (s : State) : Dg → Prop
  | .modulation seg tr rep div samples => ModOK s seg tr rep div samples
  | d => StmOK s d

/-- **(configuration, data datagram)** -/
theorem tuple_cfg_data (X : Dg) (hX : Tuple.IsCfg X = true) (s : State) (t : Tx) (hW : WF s) (ht : TxOK t) (hf : Fresh s t)
    (D : Dg) (HD : DataOK s D) (tA : Tx) (sA : State) (tB : Tx) (sB : State)
    (hA : Sends X s t tA sA) (hB : Sends D sA tA tB sB) :
    ∃ t2 s2, Sends2 X D s t t2 s2 ∧ WF s2 ∧ TxOK t2 ∧ Fresh s2 t2 ∧ TupleObsEq sB s2 := by
  cases D with
  | modulation seg tr rep div samples => exact tuple_cfg_mod X hX s t hW ht hf seg tr rep div samples HD tA sA tB sB hA hB
  | gain segB trB drives =>
    obtain ⟨h1, h2, h3⟩ := HD
    exact tuple_cfg_S X hX (gainKind segB trB drives h1 h2) s t hW ht hf (rdyOf_gain s segB trB drives h1 h2 h3) tA sA tB sB hA hB
  | fociStm n segB trB repB divB ss records =>
    obtain ⟨P, H⟩ := HD
    exact tuple_cfg_S X hX (fociKind n segB trB repB divB ss records P H.hn H.size H.total) s t hW ht hf
      (rdyOf_foci s n segB trB repB divB ss records P H) tA sA tB sB hA hB
  | gainStm mode segB trB repB divB patterns =>
    have H : GOK s mode segB trB repB divB patterns := HD
    exact tuple_cfg_S X hX (gstmKind mode segB trB repB divB patterns H.hmode H.size) s t hW ht hf
      (rdyOf_gstm s mode segB trB repB divB patterns H) tA sA tB sB hA hB
  | _ => exact absurd HD (by simp [DataOK, StmOK])

/-- **(data datagram, configuration)** -/
theorem tuple_data_cfg (X : Dg) (hX : Tuple.IsCfg X = true) (s : State) (t : Tx) (hW : WF s) (ht : TxOK t) (hf : Fresh s t)
    (D : Dg) (HD : DataOK s D) (tA : Tx) (sA : State) (tB : Tx) (sB : State)
    (hA : Sends D s t tA sA) (hB : Sends X sA tA tB sB) :
    ∃ t2 s2, Sends2 D X s t t2 s2 ∧ WF s2 ∧ TxOK t2 ∧ Fresh s2 t2 ∧ TupleObsEq sB s2 := by
  cases D with
  | modulation seg tr rep div samples => exact tuple_mod_cfg X hX s t hW ht hf seg tr rep div samples HD tA sA tB sB hA hB
  | gain segB trB drives =>
    obtain ⟨h1, h2, h3⟩ := HD
    exact tuple_S_cfg X hX (gainKind segB trB drives h1 h2) s t hW ht hf (rdyOf_gain s segB trB drives h1 h2 h3) tA sA tB sB hA hB
  | fociStm n segB trB repB divB ss records =>
    obtain ⟨P, H⟩ := HD
    exact tuple_S_cfg X hX (fociKind n segB trB repB divB ss records P H.hn H.size H.total) s t hW ht hf
      (rdyOf_foci s n segB trB repB divB ss records P H) tA sA tB sB hA hB
  | gainStm mode segB trB repB divB patterns =>
    have H : GOK s mode segB trB repB divB patterns := HD
    exact tuple_S_cfg X hX (gstmKind mode segB trB repB divB patterns H.hmode H.size) s t hW ht hf
      (rdyOf_gstm s mode segB trB repB divB patterns H) tA sA tB sB hA hB
  | _ => exact absurd HD (by simp [DataOK, StmOK])

end Autd3.Tuple2
