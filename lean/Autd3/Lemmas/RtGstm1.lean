import Autd3.Lemmas.RtFoci8
/-!
GainSTM, part 1: `write_gain_stm` = header ∘ tail (`gstmTail`: the mode dispatch, the page update and
the END part), for BEGIN frames and following frames.
-/
set_option linter.unusedSimpArgs false
open Autd3 Autd3.Fw Autd3.Wire Autd3.Gen.Cpu Autd3.Gen
namespace Autd3.Rt

/-- everything of `write_gain_stm` after the header -/
def gstmTail (s : State) (d : Array Nat) (srcOff flag segment : Nat) : M (State × Nat) := do
  let send := (flag >>> 6) + 1
  let mut s := s
  if s.gainStmMode = GAIN_STM_MODE_INTENSITY_PHASE_FULL then
    s ← gainStmWritePattern s segment srcOff d id
  else if s.gainStmMode = GAIN_STM_MODE_PHASE_FULL then
    s ← gainStmWritePattern s segment srcOff d (fun w => 0xFF00 ||| (w &&& 0x00FF))
    if send > 1 then
      s ← gainStmWritePattern s segment srcOff d (fun w => 0xFF00 ||| ((w >>> 8) &&& 0x00FF))
  else if s.gainStmMode = GAIN_STM_MODE_PHASE_HALF then
    let nib (k : Nat) : Nat → Nat := fun w => let p := (w >>> (4 * k)) &&& 0x000F; 0xFF00 ||| (p <<< 4) ||| p
    s ← gainStmWritePattern s segment srcOff d (nib 0)
    if send > 1 then s ← gainStmWritePattern s segment srcOff d (nib 1)
    if send > 2 then s ← gainStmWritePattern s segment srcOff d (nib 2)
    if send > 3 then s ← gainStmWritePattern s segment srcOff d (nib 3)
  else
    return (s, ERR_INVALID_GAIN_STM_MODE)
  let c16 := (sel s.stmCycle segment) % 65536
  if c16 &&& GAIN_STM_BUF_PAGE_SIZE_MASK = 0 then
    s ← ctlWrite s ADDR_STM_MEM_WR_PAGE ((c16 &&& (65535 - GAIN_STM_BUF_PAGE_SIZE_MASK)) >>> GAIN_STM_BUF_PAGE_SIZE_WIDTH)
  if hasFlag flag GAIN_STM_FLAG_END then
    s := { s with stmMode := setSel s.stmMode segment STM_MODE_GAIN }
    s ← ctlWrite s (ADDR_STM_CYCLE0 + segment) ((max (sel s.stmCycle segment) 1 - 1) % 65536)
    if hasFlag flag GAIN_STM_FLAG_UPDATE then
      return ← stmSegmentUpdate s segment s.stmTrMode s.stmTrValue
  return (s, NO_ERR)

theorem writeGainStm_subseq (s : State) (d : Array Nat)
    (hb : hasFlag (u8at d FwLayout.GainSTMSubseq_flag_off) GAIN_STM_FLAG_BEGIN = false) :
    writeGainStm s d = gstmTail s d FwLayout.GainSTMSubseq_size (u8at d FwLayout.GainSTMSubseq_flag_off)
      (if u8at d FwLayout.GainSTMSubseq_flag_off &&& GAIN_STM_FLAG_SEGMENT ≠ 0 then 1 else 0) := by
  unfold writeGainStm gstmTail
  simp only [hb, Bool.false_eq_true, if_false]

/-- `write_gain_stm` BEGIN: the CPU-side latches -/
def gstmHeadCpu (s : State) (seg rep div tm tv mode : Nat) : State :=
  { s with gainStmMode := mode, stmSegment := if tm ≠ TRANSITION_MODE_NONE then seg else s.stmSegment,
           stmCycle := setSel s.stmCycle seg 0, stmRep := setSel s.stmRep seg rep, stmTrMode := tm, stmTrValue := tv,
           stmDiv := setSel s.stmDiv seg div }
@[simp] theorem gstmHeadCpu_ack (s : State) (seg rep div tm tv mode : Nat) : (gstmHeadCpu s seg rep div tm tv mode).ack = s.ack := rfl
@[simp] theorem gstmHeadCpu_lastMsgId (s : State) (seg rep div tm tv mode : Nat) : (gstmHeadCpu s seg rep div tm tv mode).lastMsgId = s.lastMsgId := rfl
@[simp] theorem gstmHeadCpu_rxData (s : State) (seg rep div tm tv mode : Nat) : (gstmHeadCpu s seg rep div tm tv mode).rxData = s.rxData := rfl
@[simp] theorem gstmHeadCpu_readsFpgaState (s : State) (seg rep div tm tv mode : Nat) : (gstmHeadCpu s seg rep div tm tv mode).readsFpgaState = s.readsFpgaState := rfl
@[simp] theorem gstmHeadCpu_readsStore (s : State) (seg rep div tm tv mode : Nat) : (gstmHeadCpu s seg rep div tm tv mode).readsStore = s.readsStore := rfl
@[simp] theorem gstmHeadCpu_isRxDataUsed (s : State) (seg rep div tm tv mode : Nat) : (gstmHeadCpu s seg rep div tm tv mode).isRxDataUsed = s.isRxDataUsed := rfl
@[simp] theorem gstmHeadCpu_synchronized (s : State) (seg rep div tm tv mode : Nat) : (gstmHeadCpu s seg rep div tm tv mode).synchronized = s.synchronized := rfl
@[simp] theorem gstmHeadCpu_modCycle (s : State) (seg rep div tm tv mode : Nat) : (gstmHeadCpu s seg rep div tm tv mode).modCycle = s.modCycle := rfl
@[simp] theorem gstmHeadCpu_stmWrite (s : State) (seg rep div tm tv mode : Nat) : (gstmHeadCpu s seg rep div tm tv mode).stmWrite = s.stmWrite := rfl
@[simp] theorem gstmHeadCpu_stmCycle (s : State) (seg rep div tm tv mode : Nat) : (gstmHeadCpu s seg rep div tm tv mode).stmCycle = setSel s.stmCycle seg 0 := rfl
@[simp] theorem gstmHeadCpu_stmMode (s : State) (seg rep div tm tv mode : Nat) : (gstmHeadCpu s seg rep div tm tv mode).stmMode = s.stmMode := rfl
@[simp] theorem gstmHeadCpu_stmRep (s : State) (seg rep div tm tv mode : Nat) : (gstmHeadCpu s seg rep div tm tv mode).stmRep = setSel s.stmRep seg rep := rfl
@[simp] theorem gstmHeadCpu_stmDiv (s : State) (seg rep div tm tv mode : Nat) : (gstmHeadCpu s seg rep div tm tv mode).stmDiv = setSel s.stmDiv seg div := rfl
@[simp] theorem gstmHeadCpu_modDiv (s : State) (seg rep div tm tv mode : Nat) : (gstmHeadCpu s seg rep div tm tv mode).modDiv = s.modDiv := rfl
@[simp] theorem gstmHeadCpu_modRep (s : State) (seg rep div tm tv mode : Nat) : (gstmHeadCpu s seg rep div tm tv mode).modRep = s.modRep := rfl
@[simp] theorem gstmHeadCpu_stmSegment (s : State) (seg rep div tm tv mode : Nat) : (gstmHeadCpu s seg rep div tm tv mode).stmSegment = if tm ≠ TRANSITION_MODE_NONE then seg else s.stmSegment := rfl
@[simp] theorem gstmHeadCpu_modSegment (s : State) (seg rep div tm tv mode : Nat) : (gstmHeadCpu s seg rep div tm tv mode).modSegment = s.modSegment := rfl
@[simp] theorem gstmHeadCpu_stmTrMode (s : State) (seg rep div tm tv mode : Nat) : (gstmHeadCpu s seg rep div tm tv mode).stmTrMode = tm := rfl
@[simp] theorem gstmHeadCpu_stmTrValue (s : State) (seg rep div tm tv mode : Nat) : (gstmHeadCpu s seg rep div tm tv mode).stmTrValue = tv := rfl
@[simp] theorem gstmHeadCpu_modTrMode (s : State) (seg rep div tm tv mode : Nat) : (gstmHeadCpu s seg rep div tm tv mode).modTrMode = s.modTrMode := rfl
@[simp] theorem gstmHeadCpu_modTrValue (s : State) (seg rep div tm tv mode : Nat) : (gstmHeadCpu s seg rep div tm tv mode).modTrValue = s.modTrValue := rfl
@[simp] theorem gstmHeadCpu_gainStmMode (s : State) (seg rep div tm tv mode : Nat) : (gstmHeadCpu s seg rep div tm tv mode).gainStmMode = mode := rfl
@[simp] theorem gstmHeadCpu_numFoci (s : State) (seg rep div tm tv mode : Nat) : (gstmHeadCpu s seg rep div tm tv mode).numFoci = s.numFoci := rfl
@[simp] theorem gstmHeadCpu_strict (s : State) (seg rep div tm tv mode : Nat) : (gstmHeadCpu s seg rep div tm tv mode).strict = s.strict := rfl
@[simp] theorem gstmHeadCpu_minDivI (s : State) (seg rep div tm tv mode : Nat) : (gstmHeadCpu s seg rep div tm tv mode).minDivI = s.minDivI := rfl
@[simp] theorem gstmHeadCpu_minDivP (s : State) (seg rep div tm tv mode : Nat) : (gstmHeadCpu s seg rep div tm tv mode).minDivP = s.minDivP := rfl
@[simp] theorem gstmHeadCpu_flagsInternal (s : State) (seg rep div tm tv mode : Nat) : (gstmHeadCpu s seg rep div tm tv mode).flagsInternal = s.flagsInternal := rfl
@[simp] theorem gstmHeadCpu_portA (s : State) (seg rep div tm tv mode : Nat) : (gstmHeadCpu s seg rep div tm tv mode).portA = s.portA := rfl
@[simp] theorem gstmHeadCpu_dcSysTime (s : State) (seg rep div tm tv mode : Nat) : (gstmHeadCpu s seg rep div tm tv mode).dcSysTime = s.dcSysTime := rfl
@[simp] theorem gstmHeadCpu_numTr (s : State) (seg rep div tm tv mode : Nat) : (gstmHeadCpu s seg rep div tm tv mode).numTr = s.numTr := rfl
@[simp] theorem gstmHeadCpu_ctl (s : State) (seg rep div tm tv mode : Nat) : (gstmHeadCpu s seg rep div tm tv mode).ctl = s.ctl := rfl
@[simp] theorem gstmHeadCpu_phaseCorr (s : State) (seg rep div tm tv mode : Nat) : (gstmHeadCpu s seg rep div tm tv mode).phaseCorr = s.phaseCorr := rfl
@[simp] theorem gstmHeadCpu_pwe (s : State) (seg rep div tm tv mode : Nat) : (gstmHeadCpu s seg rep div tm tv mode).pwe = s.pwe := rfl
@[simp] theorem gstmHeadCpu_modMem0 (s : State) (seg rep div tm tv mode : Nat) : (gstmHeadCpu s seg rep div tm tv mode).modMem0 = s.modMem0 := rfl
@[simp] theorem gstmHeadCpu_modMem1 (s : State) (seg rep div tm tv mode : Nat) : (gstmHeadCpu s seg rep div tm tv mode).modMem1 = s.modMem1 := rfl
@[simp] theorem gstmHeadCpu_stmMem0 (s : State) (seg rep div tm tv mode : Nat) : (gstmHeadCpu s seg rep div tm tv mode).stmMem0 = s.stmMem0 := rfl
@[simp] theorem gstmHeadCpu_stmMem1 (s : State) (seg rep div tm tv mode : Nat) : (gstmHeadCpu s seg rep div tm tv mode).stmMem1 = s.stmMem1 := rfl
@[simp] theorem gstmHeadCpu_modSwap (s : State) (seg rep div tm tv mode : Nat) : (gstmHeadCpu s seg rep div tm tv mode).modSwap = s.modSwap := rfl
@[simp] theorem gstmHeadCpu_stmSwap (s : State) (seg rep div tm tv mode : Nat) : (gstmHeadCpu s seg rep div tm tv mode).stmSwap = s.stmSwap := rfl
@[simp] theorem reg_gstmHeadCpu (s : State) (seg rep div tm tv mode a : Nat) :
    reg (gstmHeadCpu s seg rep div tm tv mode) a = reg s a := rfl

def gstmHead (s : State) (seg rep div tm tv mode : Nat) : State :=
  wr (wr (wr (wr (wr (gstmHeadCpu s seg rep div tm tv mode) (ADDR_STM_FREQ_DIV0 + seg) div)
    (ADDR_STM_MODE0 + seg) STM_MODE_GAIN) (ADDR_STM_REP0 + seg) rep) ADDR_STM_MEM_WR_SEGMENT seg) ADDR_STM_MEM_WR_PAGE 0

theorem writeGainStm_begin (s : State) (d : Array Nat) (seg : Nat)
    (hseg : seg = if u8at d FwLayout.GainSTMSubseq_flag_off &&& GAIN_STM_FLAG_SEGMENT ≠ 0 then 1 else 0)
    (hb : hasFlag (u8at d FwLayout.GainSTMSubseq_flag_off) GAIN_STM_FLAG_BEGIN = true)
    (g1 : validateTransitionMode s.stmSegment seg (u16at d FwLayout.GainSTMHead_rep_off)
      (u8at d FwLayout.GainSTMHead_transition_mode_off) = false)
    (g2 : validateSilencerSettings s (u16at d FwLayout.GainSTMHead_freq_div_off) (sel s.modDiv s.modSegment) = false) :
    writeGainStm s d = gstmTail (gstmHead s seg (u16at d FwLayout.GainSTMHead_rep_off)
        (u16at d FwLayout.GainSTMHead_freq_div_off) (u8at d FwLayout.GainSTMHead_transition_mode_off)
        (u64at d FwLayout.GainSTMHead_transition_value_off) (u8at d FwLayout.GainSTMHead_mode_off)) d
      FwLayout.GainSTMHead_size (u8at d FwLayout.GainSTMSubseq_flag_off) seg := by
  have hs1 : seg ≤ 1 := by rw [hseg]; split <;> omega
  unfold writeGainStm
  simp only []
  generalize hsg : (if u8at d FwLayout.GainSTMSubseq_flag_off &&& GAIN_STM_FLAG_SEGMENT ≠ 0 then 1 else 0) = sg
  have : sg = seg := by rw [hseg, ← hsg]
  subst this
  clear hsg hseg
  simp only [hb, if_true]
  have g1' : validateTransitionMode ({ s with gainStmMode := u8at d FwLayout.GainSTMHead_mode_off } : State).stmSegment sg
      (u16at d FwLayout.GainSTMHead_rep_off) (u8at d FwLayout.GainSTMHead_transition_mode_off) = false := g1
  have g2' : validateSilencerSettings { s with gainStmMode := u8at d FwLayout.GainSTMHead_mode_off }
      (u16at d FwLayout.GainSTMHead_freq_div_off)
      (sel ({ s with gainStmMode := u8at d FwLayout.GainSTMHead_mode_off } : State).modDiv
        ({ s with gainStmMode := u8at d FwLayout.GainSTMHead_mode_off } : State).modSegment) = false := g2
  simp only [g1', g2', Bool.false_eq_true, if_false]
  have a1 : ADDR_STM_FREQ_DIV0 + sg < 256 := by simp only [ADDR_STM_FREQ_DIV0]; omega
  have a2 : ADDR_STM_MODE0 + sg < 256 := by simp only [ADDR_STM_MODE0]; omega
  have a3 : ADDR_STM_REP0 + sg < 256 := by simp only [ADDR_STM_REP0]; omega
  unfold gstmTail gstmHead gstmHeadCpu
  by_cases ht : u8at d FwLayout.GainSTMHead_transition_mode_off ≠ TRANSITION_MODE_NONE
  · rw [if_pos ht]
    rw [ctlWrite_main _ _ _ a1, ok_bind, ctlWrite_main _ _ _ a2, ok_bind, ctlWrite_main _ _ _ a3, ok_bind,
      ctlWrite_main _ ADDR_STM_MEM_WR_SEGMENT _ (by decide), ok_bind, ctlWrite_main _ ADDR_STM_MEM_WR_PAGE _ (by decide), ok_bind]
    rw [if_pos ht]
  · rw [if_neg ht]
    rw [ctlWrite_main _ _ _ a1, ok_bind, ctlWrite_main _ _ _ a2, ok_bind, ctlWrite_main _ _ _ a3, ok_bind,
      ctlWrite_main _ ADDR_STM_MEM_WR_SEGMENT _ (by decide), ok_bind, ctlWrite_main _ ADDR_STM_MEM_WR_PAGE _ (by decide), ok_bind]
    rw [if_neg ht]

end Autd3.Rt
