import Autd3.Model.Foci
/-!
Facts about the generated tables (`sin.dat`, `atan.dat`, `tr_pos`, the AUTD3 grid) that are decided by
evaluating **every** entry in the kernel (`decide +kernel`; no axioms beyond `propext`).  Kept in a
module of their own so that they are re-checked only when a table or a generated constant changes.
-/
namespace Autd3.Foci
open Autd3.Gen Autd3.Gen.Foci

/-- single focus: the arctangent of (sine, cosine) of `q` is `−q` within one step, for all 256 phases -/
theorem table_single : ∀ q, q < 256 →
    let φ := atanLookup (Tables.sinTable q / 2) (Tables.sinTable ((q + 64) % 256) / 2)
    (φ + q) % 256 = 255 ∨ (φ + q) % 256 = 0 ∨ (φ + q) % 256 = 1 := by
  decide +kernel

/-- round-to-nearest of `a / b` -/
def roundDiv (a b : Nat) : Nat := (2 * a + b) / (2 * b)

/-- every `tr_pos` entry is the rounded grid position in fixed-point units, z = 0 -/
theorem trpos_table : ∀ i, i < NUM_TRANS_IN_UNIT →
    trX i = (roundDiv ((gridId i).1 * TRANS_SPACING_NUM * UNITS_PER_MM) TRANS_SPACING_DEN : Nat) ∧
    trY i = (roundDiv ((gridId i).2 * TRANS_SPACING_NUM * UNITS_PER_MM) TRANS_SPACING_DEN : Nat) ∧
    trZ i = 0 := by
  decide +kernel

/-- … and is within 2/5 of a unit of the exact grid position (`5·|t·den − g·num·U| ≤ 2·den`) -/
theorem trpos_close : ∀ i, i < NUM_TRANS_IN_UNIT →
    5 * (trX i * TRANS_SPACING_DEN - ((gridId i).1 * TRANS_SPACING_NUM * UNITS_PER_MM : Nat)).natAbs ≤ 2 * TRANS_SPACING_DEN ∧
    5 * (trY i * TRANS_SPACING_DEN - ((gridId i).2 * TRANS_SPACING_NUM * UNITS_PER_MM : Nat)).natAbs ≤ 2 * TRANS_SPACING_DEN ∧
    trZ i = 0 := by
  decide +kernel

/-- `grid_id` enumerates, in order, exactly the cells that `From<AUTD3> for Device` keeps
(`iproduct!(0..Y, 0..X)` filtered by `!is_missing_transducer`) -/
theorem grid_enumeration :
    ((List.range (NUM_TRANS_X * NUM_TRANS_Y)).filter fun u => !isMissing (u % NUM_TRANS_X) (u / NUM_TRANS_X)).map
        (fun u => (u % NUM_TRANS_X, u / NUM_TRANS_X))
      = (List.range NUM_TRANS_IN_UNIT).map gridId := by
  decide +kernel

/-- angle consistency of one arctangent-table entry with the sine table, in integers.
`V = (2s − 127, 2c − 127)` is the (doubled, centred) input vector, `ψ = −φ` the angle the table
answers, `U = (2·sin[ψ] − 255, 2·sin[ψ + 64] − 255)` the sine table's vector at that angle.
The entry is consistent when `|V|² ≤ R2` (too close to zero to have a direction) or `V` lies within
`atan(N/D)` of `U`: `V·U > 0` and `|V × U|·D ≤ (V·U)·N`. -/
def atanOk (N D R2 : Nat) (s c : Nat) : Bool :=
  let vs : Int := 2 * (s : Int) - 127
  let vc : Int := 2 * (c : Int) - 127
  let φ := atanLookup s c
  let ψ := (256 - φ) % 256
  let us : Int := 2 * (Tables.sinTable ψ : Int) - 255
  let uc : Int := 2 * (Tables.sinTable ((ψ + 64) % 256) : Int) - 255
  let cross := vs * uc - vc * us
  let dt := vs * us + vc * uc
  decide (vs * vs + vc * vc ≤ R2) || (decide (0 < dt) && decide ((cross.natAbs : Int) * D ≤ dt * N))

/-- all 128×128 entries: within `atan(1/20)` (2.04 steps) outside radius² 1170 (27 % of full scale) -/
theorem atan_consistent_20 : ∀ s, s < 128 → ∀ c, c < 128 → atanOk 1 20 1170 s c = true := by
  decide +kernel

/-- all 128×128 entries: within `atan(1/10)` (4.06 steps) outside radius² 242 (12 % of full scale) -/
theorem atan_consistent_10 : ∀ s, s < 128 → ∀ c, c < 128 → atanOk 1 10 242 s c = true := by
  decide +kernel

/-- the thresholds are sharp: a smaller radius admits an entry outside the angle bound -/
theorem atan_threshold_sharp :
    (∃ s, s < 128 ∧ ∃ c, c < 128 ∧ atanOk 1 20 1169 s c = false) ∧
    (∃ s, s < 128 ∧ ∃ c, c < 128 ∧ atanOk 1 10 241 s c = false) := by
  decide +kernel

end Autd3.Foci
