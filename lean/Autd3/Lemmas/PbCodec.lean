import Autd3.Model.PbCodec
/-! Helper lemmas for C18: splitting a byte buffer into fixed-size elements and joining them again. -/
namespace Autd3.PbCodec

/-- joining `frames` of `size` bytes each and viewing the buffer as `frames.length` elements gives
the frames back -/
theorem chunks_flatten (size : Nat) :
    ∀ frames : List (List Nat), (∀ f ∈ frames, f.length = size) →
      chunks size frames.length frames.flatten = frames
  | [], _ => rfl
  | f :: rest, h => by
    have hf : f.length = size := h f (by simp)
    have hrest : ∀ g ∈ rest, g.length = size := fun g hg => h g (by simp [hg])
    simp only [List.length_cons, List.flatten_cons, chunks]
    rw [← hf, List.take_left, List.drop_left, hf, chunks_flatten size rest hrest]

/-- the `n` elements of a buffer of `n * size` bytes: there are `n`, each has `size` bytes, and
joined they are the buffer -/
theorem flatten_chunks (size : Nat) :
    ∀ (n : Nat) (buf : List Nat), buf.length = n * size →
      (chunks size n buf).flatten = buf ∧ (chunks size n buf).length = n ∧
      ∀ f ∈ chunks size n buf, f.length = size
  | 0, buf, h => by
    have : buf = [] := List.eq_nil_of_length_eq_zero (by simpa using h)
    simp [chunks, this]
  | n + 1, buf, h => by
    have hlen : (buf.drop size).length = n * size := by
      rw [List.length_drop, h, Nat.succ_mul]; omega
    obtain ⟨h1, h2, h3⟩ := flatten_chunks size n (buf.drop size) hlen
    have htake : (buf.take size).length = size := by
      rw [List.length_take, h, Nat.succ_mul]; omega
    refine ⟨?_, ?_, ?_⟩
    · simp only [chunks, List.flatten_cons, h1, List.take_append_drop]
    · simp only [chunks, List.length_cons, h2]
    · intro f hf
      simp only [chunks, List.mem_cons] at hf
      rcases hf with rfl | hf
      · exact htake
      · exact h3 f hf

theorem length_flatten_of_uniform (size : Nat) :
    ∀ frames : List (List Nat), (∀ f ∈ frames, f.length = size) →
      frames.flatten.length = frames.length * size
  | [], _ => by simp
  | f :: rest, h => by
    have hf : f.length = size := h f (by simp)
    have hrest : ∀ g ∈ rest, g.length = size := fun g hg => h g (by simp [hg])
    simp only [List.flatten_cons, List.length_append, List.length_cons, hf,
      length_flatten_of_uniform size rest hrest, Nat.succ_mul]
    omega

/-- a copy of exactly the whole source over a destination of the same size is in bounds and
replaces every byte -/
theorem copy_full (data dst : List Nat) (h : dst.length = data.length) :
    copyNonoverlapping data dst data.length = .ok data := by
  unfold copyNonoverlapping
  simp [h]

theorem length_encodeRx : ∀ rx : List Rx, (encodeRx rx).length = 2 * rx.length
  | [] => rfl
  | _ :: rest => by simp only [encodeRx, List.length_cons, length_encodeRx rest]; omega

theorem rxOfBytes_encodeRx : ∀ rx : List Rx, rxOfBytes (encodeRx rx) = rx
  | [] => rfl
  | r :: rest => by simp only [encodeRx, rxOfBytes, rxOfBytes_encodeRx rest]

theorem encodeRx_rxOfBytes : ∀ (k : Nat) (b : List Nat), b.length = 2 * k →
    encodeRx (rxOfBytes b) = b ∧ (rxOfBytes b).length = k
  | 0, b, h => by
    have : b = [] := List.eq_nil_of_length_eq_zero (by simpa using h)
    simp [this, rxOfBytes, encodeRx]
  | k + 1, b, h => by
    match b, h with
    | d :: a :: rest, h =>
      have hr : rest.length = 2 * k := by simp only [List.length_cons] at h; omega
      obtain ⟨h1, h2⟩ := encodeRx_rxOfBytes k rest hr
      simp only [rxOfBytes, encodeRx, h1, List.length_cons, h2, and_self]
    | [], h => simp at h
    | [_], h => simp only [List.length_cons, List.length_nil] at h; omega

/-- results of the decoders can be compared by `decide` (core has no `DecidableEq (Except ε α)`) -/
instance instDecidableEqExcept {ε α : Type} [DecidableEq ε] [DecidableEq α] : DecidableEq (Except ε α)
  | .ok a, .ok b => if h : a = b then isTrue (by rw [h]) else isFalse (fun e => h (by cases e; rfl))
  | .error a, .error b => if h : a = b then isTrue (by rw [h]) else isFalse (fun e => h (by cases e; rfl))
  | .ok _, .error _ => isFalse (fun e => by cases e)
  | .error _, .ok _ => isFalse (fun e => by cases e)

end Autd3.PbCodec
