import Autd3.Lemmas.FwTraceGuard
/-!
C19 trace layer: `clear` and power-on for the invariant `Safe = Base ∧ Chain` (no `Settled` needed).
-/
set_option linter.unusedSimpArgs false
set_option linter.unusedVariables false
namespace Autd3.Fw
open Autd3.Gen.Cpu
open Autd3.Gen

/-- a flag-only `set_and_wait_update` keeps `Base` and everything `Base`/`Chain` read -/
theorem setAndWaitUpdate_plain_base (s : State) (flag : Nat) (h : Base s) (hflag : flag % 4 = 0) :
    ∃ s', setAndWaitUpdate s flag = .ok s' ∧ Base s' ∧ SameB s s' := by
  rw [setAndWaitUpdate_plain s flag h.shape.ctl h.flags hflag]
  have c : SameB s { s with ctl := s.ctl.setIfInBounds 0 (s.flagsInternal % 65536) } := by same_b_tac
  exact ⟨_, rfl, h.transfer c (h.shape.transfer (by simp) rfl rfl rfl rfl rfl rfl rfl) h.flags, c⟩

/-- `Base` from the register values `clear` leaves behind -/
theorem base_of_clear_regs (X : State) (sh : Shape X) (fl : X.flagsInternal % 4 = 0)
    (r33 : rd X.ctl 33 = 0) (r35 : rd X.ctl 35 = 1) (r36 : rd X.ctl 36 = 1)
    (r37 : rd X.ctl 37 = 65535) (r38 : rd X.ctl 38 = 65535) (r83 : rd X.ctl 83 = 0) (r84 : rd X.ctl 84 = 0)
    (r85 : rd X.ctl 85 = 65535) (r86 : rd X.ctl 86 = 65535) (r89 : rd X.ctl 89 = 1) (r90 : rd X.ctl 90 = 1)
    (nf1 : 1 ≤ X.numFoci) (nf8 : X.numFoci ≤ 8) (n93 : rd X.ctl 93 ≤ 8) (n94 : rd X.ctl 94 ≤ 8)
    (bm : SwapBase X.modSwap) (bs : SwapBase X.stmSwap) : Base X :=
  ⟨sh, fl, by omega, by omega, by omega, by omega, by omega, by omega, by omega, by omega, by omega, nf1, nf8, n93, n94,
   fun h => absurd r89 h, fun h => absurd r90 h, bm, bs⟩

set_option maxRecDepth 4000 in
theorem clear_core' (s : State) (d : Array Nat) (hsh : Shape s) (hnf1 : 1 ≤ s.numFoci) (hnf8 : s.numFoci ≤ 8)
    (hn93 : rd s.ctl 93 ≤ 8) (hn94 : rd s.ctl 94 ≤ 8) (wm ws : Swap)
    (HM : s.modSwap.set s.dcSysTime 65535 65535 2 0 .syncIdx = .ok wm) (hwm : SwapBase wm)
    (HS : s.stmSwap.set s.dcSysTime 65535 65535 1 0 .syncIdx = .ok ws) (hws : SwapBase ws) :
    ∃ s' ack, clear s d = .ok (s', ack) ∧ Base s' ∧ s'.modSwap = wm ∧ s'.stmSwap = ws ∧
      rd s'.ctl 83 = 0 ∧ rd s'.ctl 84 = 0 ∧ rd s'.ctl 93 = rd s.ctl 93 ∧ rd s'.ctl 94 = rd s.ctl 94 := by
  unfold clear
  simp (maxSteps := 4000000) only [ADDR_SILENCER_UPDATE_RATE_INTENSITY, ADDR_SILENCER_UPDATE_RATE_PHASE, ADDR_SILENCER_FLAG,
    ADDR_SILENCER_COMPLETION_STEPS_INTENSITY, ADDR_SILENCER_COMPLETION_STEPS_PHASE,
    ADDR_MOD_TRANSITION_MODE, ADDR_MOD_TRANSITION_VALUE_0, ADDR_MOD_REQ_RD_SEGMENT, ADDR_MOD_CYCLE0, ADDR_MOD_CYCLE1,
    ADDR_MOD_FREQ_DIV0, ADDR_MOD_FREQ_DIV1, ADDR_MOD_REP0, ADDR_MOD_REP1, ADDR_MOD_MEM_WR_PAGE, ADDR_MOD_MEM_WR_SEGMENT,
    ADDR_STM_TRANSITION_MODE, ADDR_STM_TRANSITION_VALUE_0, ADDR_STM_MODE0, ADDR_STM_MODE1, ADDR_STM_REQ_RD_SEGMENT,
    ADDR_STM_CYCLE0, ADDR_STM_CYCLE1, ADDR_STM_FREQ_DIV0, ADDR_STM_FREQ_DIV1, ADDR_STM_REP0, ADDR_STM_REP1,
    ADDR_STM_MEM_WR_SEGMENT, ADDR_STM_MEM_WR_PAGE, ctlWriteWords_four, Nat.reduceAdd,
    ctlWrite_main _ _ _ (by decide : 65 < 256), ctlWrite_main _ _ _ (by decide : 66 < 256),
    ctlWrite_main _ _ _ (by decide : 64 < 256), ctlWrite_main _ _ _ (by decide : 67 < 256),
    ctlWrite_main _ _ _ (by decide : 68 < 256),
    ctlWrite_main _ _ _ (by decide : 41 < 256), ctlWrite_main _ _ _ (by decide : 42 < 256),
    ctlWrite_main _ _ _ (by decide : 43 < 256), ctlWrite_main _ _ _ (by decide : 44 < 256),
    ctlWrite_main _ _ _ (by decide : 45 < 256), ctlWrite_main _ _ _ (by decide : 34 < 256),
    ctlWrite_main _ _ _ (by decide : 35 < 256), ctlWrite_main _ _ _ (by decide : 36 < 256),
    ctlWrite_main _ _ _ (by decide : 37 < 256), ctlWrite_main _ _ _ (by decide : 38 < 256),
    ctlWrite_main _ _ _ (by decide : 39 < 256), ctlWrite_main _ _ _ (by decide : 40 < 256),
    ctlWrite_main _ _ _ (by decide : 33 < 256), ctlWrite_main _ _ _ (by decide : 32 < 256),
    ctlWrite_main _ _ _ (by decide : 95 < 256), ctlWrite_main _ _ _ (by decide : 96 < 256),
    ctlWrite_main _ _ _ (by decide : 97 < 256), ctlWrite_main _ _ _ (by decide : 98 < 256),
    ctlWrite_main _ _ _ (by decide : 99 < 256), ctlWrite_main _ _ _ (by decide : 89 < 256),
    ctlWrite_main _ _ _ (by decide : 90 < 256), ctlWrite_main _ _ _ (by decide : 82 < 256),
    ctlWrite_main _ _ _ (by decide : 83 < 256), ctlWrite_main _ _ _ (by decide : 84 < 256),
    ctlWrite_main _ _ _ (by decide : 85 < 256), ctlWrite_main _ _ _ (by decide : 86 < 256),
    ctlWrite_main _ _ _ (by decide : 87 < 256), ctlWrite_main _ _ _ (by decide : 88 < 256),
    ctlWrite_main _ _ _ (by decide : 80 < 256), ctlWrite_main _ _ _ (by decide : 81 < 256),
    ok_bind]
  have hsz := hsh.ctl
  -- stage 1: modulation registers, first default sample
  generalize hX1 : State.mk _ _ _ _ _ _ _ _ _ _ _ _ _ _ _ _ _ _ _ _ _ _ _ _ _ _ _ _ _ _ _ _ _ _ _ _ _ _ _ = X1
  have sh1 : Shape X1 := by subst hX1; exact hsh.transfer (by simp) rfl rfl rfl rfl rfl rfl rfl
  obtain ⟨Z1, e1, shZ1, hZ1⟩ := modWriteWords_sh X1 0 #[65535] sh1
    (by subst hX1; simp [reg, rd_set, ADDR_MOD_MEM_WR_SEGMENT, hsz])
    (by simp)
    (by subst hX1; simp [reg, rd_set, ADDR_MOD_MEM_WR_PAGE, hsz])
  rw [e1, ok_bind]
  -- stage 2: second segment
  generalize hX2 : State.mk _ _ _ _ _ _ _ _ _ _ _ _ _ _ _ _ _ _ _ _ _ _ _ _ _ _ _ _ _ _ _ _ _ _ _ _ _ _ _ = X2
  have cZ1 : Z1.ctl = X1.ctl := by rw [hZ1]
  have sh2 : Shape X2 := by subst hX2; exact shZ1.transfer (by simp) rfl rfl rfl rfl rfl rfl rfl
  have szZ1 : Z1.ctl.size = 256 := shZ1.ctl
  obtain ⟨Z2, e2, shZ2, hZ2⟩ := modWriteWords_sh X2 0 #[65535] sh2
    (by subst hX2; simp [reg, rd_set, ADDR_MOD_MEM_WR_SEGMENT, szZ1])
    (by simp)
    (by subst hX2
        simp only [reg, rd_set, ADDR_MOD_MEM_WR_PAGE]
        rw [cZ1]; subst hX1; simp [rd_set, hsz])
  rw [e2, ok_bind]
  -- stage 3: STM registers, first default gain
  generalize hX3 : State.mk _ _ _ _ _ _ _ _ _ _ _ _ _ _ _ _ _ _ _ _ _ _ _ _ _ _ _ _ _ _ _ _ _ _ _ _ _ _ _ = X3
  have cZ2 : Z2.ctl = X2.ctl := by rw [hZ2]
  have szZ2 : Z2.ctl.size = 256 := shZ2.ctl
  have sh3 : Shape X3 := by subst hX3; exact shZ2.transfer (by simp) rfl rfl rfl rfl rfl rfl rfl
  have hnt : X3.numTr ≤ 256 := sh3.numTr
  obtain ⟨Z3, e3, shZ3, hZ3⟩ := stmWriteWords_sh X3 0 (Array.replicate TRANS_NUM 0) sh3
    (by subst hX3; simp [reg, rd_set, ADDR_STM_MEM_WR_SEGMENT, szZ2])
    (by simp [TRANS_NUM])
    (by subst hX3; simp [reg, rd_set, ADDR_STM_MEM_WR_PAGE, szZ2, TRANS_NUM])
  rw [e3, ok_bind]
  -- stage 4
  generalize hX4 : State.mk _ _ _ _ _ _ _ _ _ _ _ _ _ _ _ _ _ _ _ _ _ _ _ _ _ _ _ _ _ _ _ _ _ _ _ _ _ _ _ = X4
  have cZ3 : Z3.ctl = X3.ctl := by rw [hZ3]
  have szZ3 : Z3.ctl.size = 256 := shZ3.ctl
  have sh4 : Shape X4 := by subst hX4; exact shZ3.transfer (by simp) rfl rfl rfl rfl rfl rfl rfl
  obtain ⟨Z4, e4, shZ4, hZ4⟩ := stmWriteWords_sh X4 0 (Array.replicate TRANS_NUM 0) sh4
    (by subst hX4; simp [reg, rd_set, ADDR_STM_MEM_WR_SEGMENT, szZ3])
    (by simp [TRANS_NUM])
    (by subst hX4; simp [reg, rd_set, ADDR_STM_MEM_WR_PAGE, szZ3, TRANS_NUM])
  rw [e4, ok_bind]
  -- phase correction, PWE table, debug words
  have e0 : BRAM_CNT_SEL_PHASE_CORR <<< 8 = 256 := by decide
  rw [e0]
  obtain ⟨P, eP, cP, hPctl⟩ := ctlWriteWords_pc Z4 (Array.replicate ((TRANS_NUM + 1) >>> 1) 0)
    (by simp [TRANS_NUM]) shZ4.phaseCorr
  rw [eP, ok_bind]
  have shP := cP.shape shZ4
  obtain ⟨Q1, eQ1, shQ1, hQ1⟩ := pweWriteWords_sh P 0 (Array.map Tables.cpuAsin (Array.range 256)) shP (by simp)
  rw [eQ1, ok_bind]
  obtain ⟨Q2, eQ2, shQ2, hQ2⟩ := pweWriteWords_sh Q1 255 #[256] shQ1 (by simp)
  rw [eQ2, ok_bind]
  obtain ⟨W, eW, cW, _⟩ := ctlWriteWords_main Q2 ADDR_DEBUG_VALUE0_0 (Array.replicate 16 0) (by simp [ADDR_DEBUG_VALUE0_0])
  rw [eW, ok_bind]
  have shW := cW.shape shQ2
  -- the controller BRAM of `W`, link by link
  have cQ2 : Q2.ctl = Q1.ctl := by rw [hQ2]
  have cQ1 : Q1.ctl = P.ctl := by rw [hQ1]
  have cZ4 : Z4.ctl = X4.ctl := by rw [hZ4]
  have cX4 : X4.ctl = (Z3.ctl.setIfInBounds 80 (1 % 65536)).setIfInBounds 81 (0 % 65536) := by subst hX4; rfl
  have cX2 : X2.ctl = Z1.ctl.setIfInBounds 32 (1 % 65536) := by subst hX2; rfl
  have regW : ∀ a, a < 240 → rd W.ctl a = rd ((X3.ctl.setIfInBounds 80 (1 % 65536)).setIfInBounds 81 (0 % 65536)) a := by
    intro a ha
    rw [cW.other a (Or.inl (by simp only [ADDR_DEBUG_VALUE0_0]; omega)), cQ2, cQ1, hPctl, cZ4, cX4, cZ3]
  have regZ2 : ∀ a, rd Z2.ctl a = rd (X1.ctl.setIfInBounds 32 (1 % 65536)) a := by
    intro a; rw [cZ2, cX2, cZ1]
  have szX1 : X1.ctl.size = 256 := sh1.ctl
  have szX3 : X3.ctl.size = 256 := sh3.ctl

  have rs : rd W.ctl 34 = 0 ∧ rd W.ctl 41 = 0 ∧ rd W.ctl 42 = 0 ∧ rd W.ctl 43 = 0 ∧ rd W.ctl 44 = 0 ∧ rd W.ctl 45 = 0 ∧ rd W.ctl 35 = 1 ∧ rd W.ctl 37 = 65535 ∧ rd W.ctl 38 = 65535 ∧ rd W.ctl 39 = 65535 ∧ rd W.ctl 40 = 65535 ∧ rd W.ctl 82 = 0 ∧ rd W.ctl 95 = 0 ∧ rd W.ctl 96 = 0 ∧ rd W.ctl 97 = 0 ∧ rd W.ctl 98 = 0 ∧ rd W.ctl 99 = 0 ∧ rd W.ctl 83 = 0 ∧ rd W.ctl 85 = 65535 ∧ rd W.ctl 86 = 65535 ∧ rd W.ctl 87 = 65535 ∧ rd W.ctl 88 = 65535 ∧ rd W.ctl 33 = 0 ∧ rd W.ctl 36 = 1 ∧ rd W.ctl 84 = 0 ∧ rd W.ctl 89 = 1 ∧ rd W.ctl 90 = 1 ∧ rd W.ctl 93 = rd s.ctl 93 ∧ rd W.ctl 94 = rd s.ctl 94 := by
    refine ⟨?_, ?_, ?_, ?_, ?_, ?_, ?_, ?_, ?_, ?_, ?_, ?_, ?_, ?_, ?_, ?_, ?_, ?_, ?_, ?_, ?_, ?_, ?_, ?_, ?_, ?_, ?_, ?_, ?_⟩ <;>
      (rw [regW _ (by decide)]
       simp only [rd_set, szX3]
       subst hX3
       simp [rd_set, szZ2, regZ2, szX1, TRANSITION_MODE_SYNC_IDX, STM_MODE_GAIN]
       try (subst hX1; simp [rd_set, hsz, TRANSITION_MODE_SYNC_IDX]))
  obtain ⟨w34, w41, w42, w43, w44, w45, w35, w37, w38, w39, w40, w82, w95, w96, w97, w98, w99, w83, w85, w86, w87, w88, w33, w36, w84, w89, w90, w93, w94⟩ := rs
  have f_flagsInternal_a : W.flagsInternal = X3.flagsInternal := by
    have a1 : W.flagsInternal = Q2.flagsInternal := by rw [cW.eq]
    have a2 : Q2.flagsInternal = Q1.flagsInternal := by rw [hQ2]
    have a3 : Q1.flagsInternal = P.flagsInternal := by rw [hQ1]
    have a4 : P.flagsInternal = Z4.flagsInternal := by rw [cP.eq]
    have a5 : Z4.flagsInternal = X4.flagsInternal := by rw [hZ4]
    have a6 : X4.flagsInternal = Z3.flagsInternal := by subst hX4; rfl
    have a7 : Z3.flagsInternal = X3.flagsInternal := by rw [hZ3]
    exact a1.trans (a2.trans (a3.trans (a4.trans (a5.trans (a6.trans a7)))))
  have f_modRep_a : W.modRep = X3.modRep := by
    have a1 : W.modRep = Q2.modRep := by rw [cW.eq]
    have a2 : Q2.modRep = Q1.modRep := by rw [hQ2]
    have a3 : Q1.modRep = P.modRep := by rw [hQ1]
    have a4 : P.modRep = Z4.modRep := by rw [cP.eq]
    have a5 : Z4.modRep = X4.modRep := by rw [hZ4]
    have a6 : X4.modRep = Z3.modRep := by subst hX4; rfl
    have a7 : Z3.modRep = X3.modRep := by rw [hZ3]
    exact a1.trans (a2.trans (a3.trans (a4.trans (a5.trans (a6.trans a7)))))
  have f_stmRep_a : W.stmRep = X3.stmRep := by
    have a1 : W.stmRep = Q2.stmRep := by rw [cW.eq]
    have a2 : Q2.stmRep = Q1.stmRep := by rw [hQ2]
    have a3 : Q1.stmRep = P.stmRep := by rw [hQ1]
    have a4 : P.stmRep = Z4.stmRep := by rw [cP.eq]
    have a5 : Z4.stmRep = X4.stmRep := by rw [hZ4]
    have a6 : X4.stmRep = Z3.stmRep := by subst hX4; rfl
    have a7 : Z3.stmRep = X3.stmRep := by rw [hZ3]
    exact a1.trans (a2.trans (a3.trans (a4.trans (a5.trans (a6.trans a7)))))
  have f_modSwap_a : W.modSwap = X3.modSwap := by
    have a1 : W.modSwap = Q2.modSwap := by rw [cW.eq]
    have a2 : Q2.modSwap = Q1.modSwap := by rw [hQ2]
    have a3 : Q1.modSwap = P.modSwap := by rw [hQ1]
    have a4 : P.modSwap = Z4.modSwap := by rw [cP.eq]
    have a5 : Z4.modSwap = X4.modSwap := by rw [hZ4]
    have a6 : X4.modSwap = Z3.modSwap := by subst hX4; rfl
    have a7 : Z3.modSwap = X3.modSwap := by rw [hZ3]
    exact a1.trans (a2.trans (a3.trans (a4.trans (a5.trans (a6.trans a7)))))
  have f_stmSwap_a : W.stmSwap = X3.stmSwap := by
    have a1 : W.stmSwap = Q2.stmSwap := by rw [cW.eq]
    have a2 : Q2.stmSwap = Q1.stmSwap := by rw [hQ2]
    have a3 : Q1.stmSwap = P.stmSwap := by rw [hQ1]
    have a4 : P.stmSwap = Z4.stmSwap := by rw [cP.eq]
    have a5 : Z4.stmSwap = X4.stmSwap := by rw [hZ4]
    have a6 : X4.stmSwap = Z3.stmSwap := by subst hX4; rfl
    have a7 : Z3.stmSwap = X3.stmSwap := by rw [hZ3]
    exact a1.trans (a2.trans (a3.trans (a4.trans (a5.trans (a6.trans a7)))))
  have f_dcSysTime_a : W.dcSysTime = X3.dcSysTime := by
    have a1 : W.dcSysTime = Q2.dcSysTime := by rw [cW.eq]
    have a2 : Q2.dcSysTime = Q1.dcSysTime := by rw [hQ2]
    have a3 : Q1.dcSysTime = P.dcSysTime := by rw [hQ1]
    have a4 : P.dcSysTime = Z4.dcSysTime := by rw [cP.eq]
    have a5 : Z4.dcSysTime = X4.dcSysTime := by rw [hZ4]
    have a6 : X4.dcSysTime = Z3.dcSysTime := by subst hX4; rfl
    have a7 : Z3.dcSysTime = X3.dcSysTime := by rw [hZ3]
    exact a1.trans (a2.trans (a3.trans (a4.trans (a5.trans (a6.trans a7)))))
  have f_flagsInternal_b : X3.flagsInternal = X1.flagsInternal := by
    have b1 : X3.flagsInternal = Z2.flagsInternal := by subst hX3; rfl
    have b2 : Z2.flagsInternal = X2.flagsInternal := by rw [hZ2]
    have b3 : X2.flagsInternal = Z1.flagsInternal := by subst hX2; rfl
    have b4 : Z1.flagsInternal = X1.flagsInternal := by rw [hZ1]
    exact b1.trans (b2.trans (b3.trans b4))
  have f_modRep_b : X3.modRep = X1.modRep := by
    have b1 : X3.modRep = Z2.modRep := by subst hX3; rfl
    have b2 : Z2.modRep = X2.modRep := by rw [hZ2]
    have b3 : X2.modRep = Z1.modRep := by subst hX2; rfl
    have b4 : Z1.modRep = X1.modRep := by rw [hZ1]
    exact b1.trans (b2.trans (b3.trans b4))
  have f_modSwap_b : X3.modSwap = X1.modSwap := by
    have b1 : X3.modSwap = Z2.modSwap := by subst hX3; rfl
    have b2 : Z2.modSwap = X2.modSwap := by rw [hZ2]
    have b3 : X2.modSwap = Z1.modSwap := by subst hX2; rfl
    have b4 : Z1.modSwap = X1.modSwap := by rw [hZ1]
    exact b1.trans (b2.trans (b3.trans b4))
  have f_stmSwap_b : X3.stmSwap = X1.stmSwap := by
    have b1 : X3.stmSwap = Z2.stmSwap := by subst hX3; rfl
    have b2 : Z2.stmSwap = X2.stmSwap := by rw [hZ2]
    have b3 : X2.stmSwap = Z1.stmSwap := by subst hX2; rfl
    have b4 : Z1.stmSwap = X1.stmSwap := by rw [hZ1]
    exact b1.trans (b2.trans (b3.trans b4))
  have f_dcSysTime_b : X3.dcSysTime = X1.dcSysTime := by
    have b1 : X3.dcSysTime = Z2.dcSysTime := by subst hX3; rfl
    have b2 : Z2.dcSysTime = X2.dcSysTime := by rw [hZ2]
    have b3 : X2.dcSysTime = Z1.dcSysTime := by subst hX2; rfl
    have b4 : Z1.dcSysTime = X1.dcSysTime := by rw [hZ1]
    exact b1.trans (b2.trans (b3.trans b4))
  have f_numFoci_a : W.numFoci = X3.numFoci := by
    have a1 : W.numFoci = Q2.numFoci := by rw [cW.eq]
    have a2 : Q2.numFoci = Q1.numFoci := by rw [hQ2]
    have a3 : Q1.numFoci = P.numFoci := by rw [hQ1]
    have a4 : P.numFoci = Z4.numFoci := by rw [cP.eq]
    have a5 : Z4.numFoci = X4.numFoci := by rw [hZ4]
    have a6 : X4.numFoci = Z3.numFoci := by subst hX4; rfl
    have a7 : Z3.numFoci = X3.numFoci := by rw [hZ3]
    exact a1.trans (a2.trans (a3.trans (a4.trans (a5.trans (a6.trans a7)))))
  have f_numFoci_b : X3.numFoci = X1.numFoci := by
    have b1 : X3.numFoci = Z2.numFoci := by subst hX3; rfl
    have b2 : Z2.numFoci = X2.numFoci := by rw [hZ2]
    have b3 : X2.numFoci = Z1.numFoci := by subst hX2; rfl
    have b4 : Z1.numFoci = X1.numFoci := by rw [hZ1]
    exact b1.trans (b2.trans (b3.trans b4))
  have gW_flags : W.flagsInternal = 0 := by rw [f_flagsInternal_a, f_flagsInternal_b]; subst hX1; rfl
  have gW_modRep : W.modRep = (65535, 65535) := by rw [f_modRep_a, f_modRep_b]; subst hX1; rfl
  have gW_stmRep : W.stmRep = (65535, 65535) := by rw [f_stmRep_a]; subst hX3; rfl
  have gW_modSwap : W.modSwap = s.modSwap := by rw [f_modSwap_a, f_modSwap_b]; subst hX1; rfl
  have gW_stmSwap : W.stmSwap = s.stmSwap := by rw [f_stmSwap_a, f_stmSwap_b]; subst hX1; rfl
  have gW_dc : W.dcSysTime = s.dcSysTime := by rw [f_dcSysTime_a, f_dcSysTime_b]; subst hX1; rfl
  have gW_nf : W.numFoci = s.numFoci := by rw [f_numFoci_a, f_numFoci_b]; subst hX1; rfl
  have hflW : W.flagsInternal % 4 = 0 := by rw [gW_flags]
  -- MOD_SET
  rw [setAndWaitUpdate_mod W shW.ctl hflW]
  have em : modSetReq W W.dcSysTime = .ok wm := by
    unfold modSetReq segReg
    simp [reg, reg64, ADDR_MOD_REQ_RD_SEGMENT, ADDR_MOD_TRANSITION_MODE, ADDR_MOD_TRANSITION_VALUE_0, ADDR_MOD_REP0,
      ADDR_MOD_FREQ_DIV0, ADDR_MOD_CYCLE0, w34, w41, w42, w43, w44, w45, w39, w37, w35, decode_syncIdx, ok_bind,
      gW_modSwap, gW_dc, HM, bind, Except.bind]
  rw [em, ok_bind, pure_eq_ok, ok_bind]
  generalize hS1 : State.mk _ _ _ _ _ _ _ _ _ _ _ _ _ _ _ _ _ _ _ _ _ _ _ _ _ _ _ _ _ _ _ _ _ _ _ _ _ _ _ = S1
  have szS1 : S1.ctl.size = 256 := by subst hS1; simp [shW.ctl]
  have flS1 : S1.flagsInternal % 4 = 0 := by subst hS1; exact hflW
  rw [setAndWaitUpdate_stm S1 szS1 flS1]
  have es : stmSetReq S1 S1.dcSysTime = .ok ws := by
    unfold stmSetReq segReg
    subst hS1
    simp [reg, reg64, rd_set, ADDR_STM_REQ_RD_SEGMENT, ADDR_STM_TRANSITION_MODE, ADDR_STM_TRANSITION_VALUE_0, ADDR_STM_REP0,
      ADDR_STM_FREQ_DIV0, ADDR_STM_CYCLE0, w82, w95, w96, w97, w98, w99, w87, w85, w83, decode_syncIdx, ok_bind,
      gW_stmSwap, gW_dc, HS, bind, Except.bind]
  rw [es, ok_bind, pure_eq_ok, ok_bind]
  generalize hS2 : State.mk _ _ _ _ _ _ _ _ _ _ _ _ _ _ _ _ _ _ _ _ _ _ _ _ _ _ _ _ _ _ _ _ _ _ _ _ _ _ _ = S2

  have bS2 : Base S2 := by
    subst hS2; subst hS1
    refine base_of_clear_regs _ (shW.transfer (by simp) rfl rfl rfl rfl rfl rfl rfl) hflW ?_ ?_ ?_ ?_ ?_ ?_ ?_ ?_ ?_ ?_ ?_
      (by show 1 ≤ W.numFoci; rw [gW_nf]; exact hnf1) (by show W.numFoci ≤ 8; rw [gW_nf]; exact hnf8) ?_ ?_ hwm hws <;>
    simp [rd_set, w33, w35, w36, w37, w38, w83, w84, w85, w86, w89, w90, w93, w94, hn93, hn94]
  obtain ⟨s3, q3, b3, c3⟩ := setAndWaitUpdate_plain_base S2 CTL_FLAG_SILENCER_SET bS2 (by decide)
  rw [q3, ok_bind]
  obtain ⟨s4, q4, b4, c4⟩ := setAndWaitUpdate_plain_base s3 CTL_FLAG_DEBUG_SET b3 (by decide)
  rw [q4, ok_bind]
  have cc := c3.trans c4
  refine ⟨_, _, rfl, b4, ?_, ?_, ?_, ?_, ?_, ?_⟩
  · rw [cc.modSwap]; subst hS2; subst hS1; rfl
  · rw [cc.stmSwap]; subst hS2; rfl
  · rw [cc.regs 83 (by simp [coreRegs])]; subst hS2; subst hS1; simp [rd_set, w83]
  · rw [cc.regs 84 (by simp [coreRegs])]; subst hS2; subst hS1; simp [rd_set, w84]
  · rw [cc.regs 93 (by simp [coreRegs])]; subst hS2; subst hS1; simp [rd_set, w93]
  · rw [cc.regs 94 (by simp [coreRegs])]; subst hS2; subst hS1; simp [rd_set, w94]

/-- `clear` never panics from a `Base` state (no `Settled` needed), keeps `Base`, and keeps `Chain` under `ClearExcl` -/
theorem clear_step (s : State) (d : Array Nat) (hB : Base s) :
    ∃ s' ack, clear s d = .ok (s', ack) ∧ Base s' ∧ (Chain s → ClearExcl s → Chain s') := by
  obtain ⟨wm, hm, bm, _, cm, wfm⟩ := set_step s.modSwap s.dcSysTime 65535 65535 2 0 .syncIdx TRANSITION_MODE_SYNC_IDX
    hB.modSwap (by omega) (by omega) (by omega) (by omega) (by intro h; cases h)
  obtain ⟨ws, hs, bs, _, cs, wfs⟩ := set_step s.stmSwap s.dcSysTime 65535 65535 1 0 .syncIdx TRANSITION_MODE_SYNC_IDX
    hB.stmSwap (by omega) (by omega) (by omega) (by omega) (by intro h; cases h)
  obtain ⟨s', ack, e, b, e1, e2, r83, r84, r93, r94⟩ := clear_core' s d hB.shape hB.nf1 hB.nf8 hB.nfr0 hB.nfr1
    wm ws hm bm hs bs
  have n0 := hB.nfr0
  have n1 := hB.nfr1
  refine ⟨s', ack, e, b, fun hc g => ⟨e1 ▸ wfm hc.modSwap g.mod, e2 ▸ wfs hc.stmSwap g.stm, ?_, ?_, ?_, ?_⟩⟩
  · rw [r83, r93]; omega
  · rw [r84, r94]; omega
  · rw [e2, cs, r93]; simp [setSel]; omega
  · rw [e2, cs, r94]; simpa [setSel] using hc.fcs1

/-- power-on: `CPUEmulator::new(_, numTr)` with `numTr ≤ 256` never panics and yields a `Safe` state -/
theorem new_safe' (numTr now : Nat) (hn : numTr ≤ 256) : ∃ s, Fw.new numTr now = .ok s ∧ Safe s := by
  unfold Fw.new
  simp only []
  generalize hs0 : State.mk _ _ _ _ _ _ _ _ _ _ _ _ _ _ _ _ _ _ _ _ _ _ _ _ _ _ _ _ _ _ _ _ _ _ _ _ _ _ _ = s0
  have sh0 : Shape s0 := by
    subst hs0
    exact ⟨by simp, by simp, by simp, by simp, by simp, by simp, by simp, hn⟩
  have hms : s0.modSwap = { sysTime := now } := by subst hs0; rfl
  have hss : s0.stmSwap = { sysTime := now } := by subst hs0; rfl
  have hnf : s0.numFoci = 1 := by subst hs0; rfl
  have h93 : rd s0.ctl 93 = 0 := by
    subst hs0; simp [rd_set, rd, ADDR_VERSION_NUM_MAJOR, ADDR_VERSION_NUM_MINOR]
  have h94 : rd s0.ctl 94 = 0 := by
    subst hs0; simp [rd_set, rd, ADDR_VERSION_NUM_MAJOR, ADDR_VERSION_NUM_MINOR]
  have sb0 : SwapBase ({ sysTime := now } : Swap) :=
    ⟨by simp, by simp, by simp, by simp, by simp, by simp, by simp, by simp, by simp⟩
  obtain ⟨wm, hm, wfm, _, _⟩ := fresh_swap_set now s0.dcSysTime 65535 65535 2 .syncIdx (by omega) (by omega)
  obtain ⟨ws, hs, wfs, _, _⟩ := fresh_swap_set now s0.dcSysTime 65535 65535 1 .syncIdx (by omega) (by omega)
  obtain ⟨wm', hm', bm, _, _, _⟩ := set_step ({ sysTime := now } : Swap) s0.dcSysTime 65535 65535 2 0 .syncIdx
    TRANSITION_MODE_SYNC_IDX sb0 (by omega) (by omega) (by omega) (by omega) (by intro h; cases h)
  obtain ⟨ws', hs', bs, _, cs, _⟩ := set_step ({ sysTime := now } : Swap) s0.dcSysTime 65535 65535 1 0 .syncIdx
    TRANSITION_MODE_SYNC_IDX sb0 (by omega) (by omega) (by omega) (by omega) (by intro h; cases h)
  have em : wm' = wm := by rw [hm] at hm'; exact (Except.ok.inj hm').symm
  have es : ws' = ws := by rw [hs] at hs'; exact (Except.ok.inj hs').symm
  subst em; subst es
  obtain ⟨s', ack, e, b, e1, e2, r83, r84, r93, r94⟩ := clear_core' s0 #[] sh0 (by omega) (by omega) (by omega) (by omega)
    wm' ws' (by rw [hms]; exact hm) bm (by rw [hss]; exact hs) bs
  rw [e, ok_bind]
  refine ⟨s', rfl, b, e1 ▸ wfm, e2 ▸ wfs, ?_, ?_, ?_, ?_⟩
  · rw [r83, r93, h93]; omega
  · rw [r84, r94, h94]; omega
  · rw [r93, h93]; omega
  · rw [r94, h94]; omega

end Autd3.Fw
