import Autd3.Lemmas.RtFoci4
/-!
FociSTM, part 5: the END part of `write_foci_stm`, the inter-frame invariant `FociInv`, the final
observation `FociHeld`, and the firmware-level step lemmas.
-/
set_option linter.unusedSimpArgs false
open Autd3 Autd3.Fw Autd3.Wire Autd3.Gen.Cpu Autd3.Gen
namespace Autd3.Rt

/-- END of `write_foci_stm`: the CPU's mode and cycle copies -/
def fociEndCpu (s : State) (seg : Nat) : State :=
  { s with stmMode := setSel s.stmMode seg STM_MODE_FOCUS, stmCycle := setSel s.stmCycle seg (s.stmWrite / s.numFoci) }
@[simp] theorem fociEndCpu_ack (s : State) (seg : Nat) : (fociEndCpu s seg).ack = s.ack := rfl
@[simp] theorem fociEndCpu_lastMsgId (s : State) (seg : Nat) : (fociEndCpu s seg).lastMsgId = s.lastMsgId := rfl
@[simp] theorem fociEndCpu_rxData (s : State) (seg : Nat) : (fociEndCpu s seg).rxData = s.rxData := rfl
@[simp] theorem fociEndCpu_readsFpgaState (s : State) (seg : Nat) : (fociEndCpu s seg).readsFpgaState = s.readsFpgaState := rfl
@[simp] theorem fociEndCpu_readsStore (s : State) (seg : Nat) : (fociEndCpu s seg).readsStore = s.readsStore := rfl
@[simp] theorem fociEndCpu_isRxDataUsed (s : State) (seg : Nat) : (fociEndCpu s seg).isRxDataUsed = s.isRxDataUsed := rfl
@[simp] theorem fociEndCpu_synchronized (s : State) (seg : Nat) : (fociEndCpu s seg).synchronized = s.synchronized := rfl
@[simp] theorem fociEndCpu_modCycle (s : State) (seg : Nat) : (fociEndCpu s seg).modCycle = s.modCycle := rfl
@[simp] theorem fociEndCpu_stmWrite (s : State) (seg : Nat) : (fociEndCpu s seg).stmWrite = s.stmWrite := rfl
@[simp] theorem fociEndCpu_stmCycle (s : State) (seg : Nat) : (fociEndCpu s seg).stmCycle = setSel s.stmCycle seg (s.stmWrite / s.numFoci) := rfl
@[simp] theorem fociEndCpu_stmMode (s : State) (seg : Nat) : (fociEndCpu s seg).stmMode = setSel s.stmMode seg STM_MODE_FOCUS := rfl
@[simp] theorem fociEndCpu_stmRep (s : State) (seg : Nat) : (fociEndCpu s seg).stmRep = s.stmRep := rfl
@[simp] theorem fociEndCpu_stmDiv (s : State) (seg : Nat) : (fociEndCpu s seg).stmDiv = s.stmDiv := rfl
@[simp] theorem fociEndCpu_modDiv (s : State) (seg : Nat) : (fociEndCpu s seg).modDiv = s.modDiv := rfl
@[simp] theorem fociEndCpu_modRep (s : State) (seg : Nat) : (fociEndCpu s seg).modRep = s.modRep := rfl
@[simp] theorem fociEndCpu_stmSegment (s : State) (seg : Nat) : (fociEndCpu s seg).stmSegment = s.stmSegment := rfl
@[simp] theorem fociEndCpu_modSegment (s : State) (seg : Nat) : (fociEndCpu s seg).modSegment = s.modSegment := rfl
@[simp] theorem fociEndCpu_stmTrMode (s : State) (seg : Nat) : (fociEndCpu s seg).stmTrMode = s.stmTrMode := rfl
@[simp] theorem fociEndCpu_stmTrValue (s : State) (seg : Nat) : (fociEndCpu s seg).stmTrValue = s.stmTrValue := rfl
@[simp] theorem fociEndCpu_modTrMode (s : State) (seg : Nat) : (fociEndCpu s seg).modTrMode = s.modTrMode := rfl
@[simp] theorem fociEndCpu_modTrValue (s : State) (seg : Nat) : (fociEndCpu s seg).modTrValue = s.modTrValue := rfl
@[simp] theorem fociEndCpu_gainStmMode (s : State) (seg : Nat) : (fociEndCpu s seg).gainStmMode = s.gainStmMode := rfl
@[simp] theorem fociEndCpu_numFoci (s : State) (seg : Nat) : (fociEndCpu s seg).numFoci = s.numFoci := rfl
@[simp] theorem fociEndCpu_strict (s : State) (seg : Nat) : (fociEndCpu s seg).strict = s.strict := rfl
@[simp] theorem fociEndCpu_minDivI (s : State) (seg : Nat) : (fociEndCpu s seg).minDivI = s.minDivI := rfl
@[simp] theorem fociEndCpu_minDivP (s : State) (seg : Nat) : (fociEndCpu s seg).minDivP = s.minDivP := rfl
@[simp] theorem fociEndCpu_flagsInternal (s : State) (seg : Nat) : (fociEndCpu s seg).flagsInternal = s.flagsInternal := rfl
@[simp] theorem fociEndCpu_portA (s : State) (seg : Nat) : (fociEndCpu s seg).portA = s.portA := rfl
@[simp] theorem fociEndCpu_dcSysTime (s : State) (seg : Nat) : (fociEndCpu s seg).dcSysTime = s.dcSysTime := rfl
@[simp] theorem fociEndCpu_numTr (s : State) (seg : Nat) : (fociEndCpu s seg).numTr = s.numTr := rfl
@[simp] theorem fociEndCpu_ctl (s : State) (seg : Nat) : (fociEndCpu s seg).ctl = s.ctl := rfl
@[simp] theorem fociEndCpu_phaseCorr (s : State) (seg : Nat) : (fociEndCpu s seg).phaseCorr = s.phaseCorr := rfl
@[simp] theorem fociEndCpu_pwe (s : State) (seg : Nat) : (fociEndCpu s seg).pwe = s.pwe := rfl
@[simp] theorem fociEndCpu_modMem0 (s : State) (seg : Nat) : (fociEndCpu s seg).modMem0 = s.modMem0 := rfl
@[simp] theorem fociEndCpu_modMem1 (s : State) (seg : Nat) : (fociEndCpu s seg).modMem1 = s.modMem1 := rfl
@[simp] theorem fociEndCpu_stmMem0 (s : State) (seg : Nat) : (fociEndCpu s seg).stmMem0 = s.stmMem0 := rfl
@[simp] theorem fociEndCpu_stmMem1 (s : State) (seg : Nat) : (fociEndCpu s seg).stmMem1 = s.stmMem1 := rfl
@[simp] theorem fociEndCpu_modSwap (s : State) (seg : Nat) : (fociEndCpu s seg).modSwap = s.modSwap := rfl
@[simp] theorem fociEndCpu_stmSwap (s : State) (seg : Nat) : (fociEndCpu s seg).stmSwap = s.stmSwap := rfl
@[simp] theorem reg_fociEndCpu (s : State) (seg a : Nat) : reg (fociEndCpu s seg) a = reg s a := rfl
theorem stmMem_fociEndCpu (s : State) (seg g : Nat) : Obs.stmMem (fociEndCpu s seg) g = Obs.stmMem s g := rfl
theorem WF_fociEndCpu {s : State} (h : WF s) (seg : Nat) : WF (fociEndCpu s seg) := by wf_same h

theorem fociEndPart_notlast (s : State) (flag seg : Nat) (h : hasFlag flag FOCI_STM_FLAG_END = false) :
    fociEndPart s flag seg = .ok (s, NO_ERR) := by
  unfold fociEndPart; simp only [h, Bool.false_eq_true, if_false]; rfl

theorem fociEndPart_last_notr (s : State) (flag seg : Nat) (hseg : seg ≤ 1) (hnf : s.numFoci ≠ 0)
    (h : hasFlag flag FOCI_STM_FLAG_END = true) (hu : hasFlag flag FOCI_STM_FLAG_UPDATE = false) :
    fociEndPart s flag seg =
      .ok (wr (fociEndCpu s seg) (ADDR_STM_CYCLE0 + seg) ((max (s.stmWrite / s.numFoci) 1 - 1) % 65536), NO_ERR) := by
  unfold fociEndPart
  simp only [h, hu, if_true, Bool.false_eq_true, if_false]
  rw [if_neg (by omega), if_neg hnf]
  show (ctlWrite (fociEndCpu s seg) _ _ >>= _) = _
  rw [ctlWrite_main _ _ _ (by simp only [ADDR_STM_CYCLE0]; omega), sel_setSel_same]
  rfl

theorem fociEndPart_last_tr (s : State) (flag seg : Nat) (hseg : seg ≤ 1) (hnf : s.numFoci ≠ 0)
    (h : hasFlag flag FOCI_STM_FLAG_END = true) (hu : hasFlag flag FOCI_STM_FLAG_UPDATE = true) :
    fociEndPart s flag seg =
      stmSegmentUpdate (wr (fociEndCpu s seg) (ADDR_STM_CYCLE0 + seg) ((max (s.stmWrite / s.numFoci) 1 - 1) % 65536))
        seg s.stmTrMode s.stmTrValue := by
  unfold fociEndPart
  simp only [h, hu, if_true]
  rw [if_neg (by omega), if_neg hnf]
  show (ctlWrite (fociEndCpu s seg) _ _ >>= _) = _
  rw [ctlWrite_main _ _ _ (by simp only [ADDR_STM_CYCLE0]; omega), sel_setSel_same]
  rfl

/-- invariant between the frames of one FociSTM send: `c` records are in place, the write registers
point behind them, everything the send must not touch is as in the initial state `s0` -/
structure FociInv (s0 s : State) (seg : Nat) (tr : Tr) (rep div ss n : Nat) (records : Array Nat) (c : Nat) : Prop where
  wf : WF s
  cursor : s.stmWrite = c
  nf : s.numFoci = n
  wseg : reg s ADDR_STM_MEM_WR_SEGMENT = seg
  page : reg s ADDR_STM_MEM_WR_PAGE = c / 4096
  recs : ∀ k, k < c → stmRecord (Obs.stmMem s seg) k = rd records k
  other : ∀ g, (g = 0) ≠ (seg = 0) → Obs.stmMem s g = Obs.stmMem s0 g
  trMode : s.stmTrMode = trMode tr
  trValue : s.stmTrValue = trValue tr
  divReg : reg s (85 + seg) = div
  repReg : reg s (87 + seg) = rep
  modeReg : reg s (89 + seg) = STM_MODE_FOCUS
  ssReg : reg s (91 + seg) = ss
  nfReg : reg s (93 + seg) = n
  regs : ∀ a, a ≠ 0 → a ≠ 80 → a ≠ 81 → a ≠ 85 + seg → a ≠ 87 + seg → a ≠ 89 + seg → a ≠ 91 + seg → a ≠ 93 + seg →
    reg s a = reg s0 a
  swap : s.stmSwap = s0.stmSwap
  time : s.dcSysTime = s0.dcSysTime
  numTr : s.numTr = s0.numTr

theorem FociInv_pre {s0 s : State} {seg : Nat} {tr : Tr} {rep div ss n : Nat} {records : Array Nat} {c : Nat}
    (h : FociInv s0 s seg tr rep div ss n records c) (id r : Nat) :
    FociInv s0 { s with lastMsgId := id, rxData := r } seg tr rep div ss n records c :=
  ⟨by wf_same h.wf, h.cursor, h.nf, h.wseg, h.page, h.recs, h.other, h.trMode, h.trValue, h.divReg, h.repReg, h.modeReg,
    h.ssReg, h.nfReg, h.regs, h.swap, h.time, h.numTr⟩

theorem stmMem_fin (s : State) (id g : Nat) : Obs.stmMem (fin s id) g = Obs.stmMem s g := rfl

theorem FociInv_fin {s0 s : State} {seg : Nat} {tr : Tr} {rep div ss n : Nat} {records : Array Nat} {c : Nat}
    (h : FociInv s0 s seg tr rep div ss n records c) (id : Nat) : FociInv s0 (fin s id) seg tr rep div ss n records c := by
  refine ⟨WF_fin h.wf id, h.cursor, h.nf, ?_, ?_, h.recs, h.other, h.trMode, h.trValue, ?_, ?_, ?_, ?_, ?_, ?_, h.swap, h.time,
    h.numTr⟩
  · rw [reg_fin _ _ _ (by decide)]; exact h.wseg
  · rw [reg_fin _ _ _ (by decide)]; exact h.page
  · rw [reg_fin _ _ _ (by omega)]; exact h.divReg
  · rw [reg_fin _ _ _ (by omega)]; exact h.repReg
  · rw [reg_fin _ _ _ (by omega)]; exact h.modeReg
  · rw [reg_fin _ _ _ (by omega)]; exact h.ssReg
  · rw [reg_fin _ _ _ (by omega)]; exact h.nfReg
  · intro a h0 h1 h2 h3 h4 h5 h6 h7; rw [reg_fin _ _ _ h0]; exact h.regs a h0 h1 h2 h3 h4 h5 h6 h7

theorem WF_of_FociCopied {s s' : State} {seg c w off : Nat} {d : Array Nat} (hW : WF s)
    (h : FociCopied s s' seg c w d off) : WF s' :=
  WF_of_StmFrame hW h.frame h.ctl h.mem0 h.mem1 (fun a ha => h.regs a (by simp only [ADDR_STM_MEM_WR_PAGE]; omega))
    (by rw [h.regs _ (by decide)]; exact hW.stmDiv0) (by rw [h.regs _ (by decide)]; exact hW.stmDiv1)

/-- the copy part keeps the invariant and advances the cursor -/
theorem FociInv_copied {s0 s s' : State} {seg : Nat} {tr : Tr} {rep div ss n : Nat} {records : Array Nat} {c w off : Nat}
    {d : Array Nat} (h : FociInv s0 s seg tr rep div ss n records c) (hc : FociCopied s s' seg c w d off)
    (hd : ∀ k, k < w → u64at d (off + 8 * k) = rd records (c + k)) (hcw : c + w < 65536) :
    FociInv s0 s' seg tr rep div ss n records (c + w) := by
  have hr : ∀ a, a ≠ 81 → reg s' a = reg s a := fun a ha => hc.regs a (by simpa [ADDR_STM_MEM_WR_PAGE] using ha)
  refine ⟨WF_of_FociCopied h.wf hc, hc.cursor, by rw [hc.frame.numFoci]; exact h.nf, ?_, hc.page hcw, ?_, ?_, ?_, ?_, ?_, ?_,
    ?_, ?_, ?_, ?_, ?_, ?_, ?_⟩
  · rw [hc.regs _ (by decide)]; exact h.wseg
  · intro k hk
    rw [hc.recs k hk]
    by_cases hlo : c ≤ k
    · rw [if_pos hlo, hd _ (by omega)]; congr 1; omega
    · rw [if_neg hlo]; exact h.recs k (by omega)
  · intro g hg; rw [hc.other g hg]; exact h.other g hg
  · rw [hc.frame.stmTrMode]; exact h.trMode
  · rw [hc.frame.stmTrValue]; exact h.trValue
  · rw [hr _ (by omega)]; exact h.divReg
  · rw [hr _ (by omega)]; exact h.repReg
  · rw [hr _ (by omega)]; exact h.modeReg
  · rw [hr _ (by omega)]; exact h.ssReg
  · rw [hr _ (by omega)]; exact h.nfReg
  · intro a h0 h1 h2 h3 h4 h5 h6 h7; rw [hr a h2]; exact h.regs a h0 h1 h2 h3 h4 h5 h6 h7
  · rw [hc.frame.stmSwap]; exact h.swap
  · rw [hc.frame.dcSysTime]; exact h.time
  · rw [hc.frame.numTr]; exact h.numTr

/-- what a complete FociSTM send leaves behind -/
structure FociHeld (s0 s' : State) (seg : Nat) (tr : Tr) (rep div ss n : Nat) (records : Array Nat) (P : Nat) : Prop where
  recs : ∀ k, k < P * n → stmRecord (Obs.stmMem s' seg) k = rd records k
  hcycle : Obs.stmCycle s' seg = P
  hnf : Obs.numFoci s' seg = n
  hss : Obs.soundSpeed s' seg = ss
  hdiv : Obs.stmDiv s' seg = div
  hrep : Obs.stmRep s' seg = rep
  hmode : Obs.isStmGainMode s' seg = false
  otherMem : Obs.stmMem s' (1 - seg) = Obs.stmMem s0 (1 - seg)
  otherRegs : Obs.stmDiv s' (1 - seg) = Obs.stmDiv s0 (1 - seg) ∧ Obs.stmRep s' (1 - seg) = Obs.stmRep s0 (1 - seg) ∧
    Obs.stmCycle s' (1 - seg) = Obs.stmCycle s0 (1 - seg) ∧ Obs.isStmGainMode s' (1 - seg) = Obs.isStmGainMode s0 (1 - seg)
  req : match tr with
    | none => s'.stmSwap = s0.stmSwap ∧ Obs.reqStmSeg s' = Obs.reqStmSeg s0 ∧
        Obs.stmTransition s' = Obs.stmTransition s0
    | some (m, v) => Obs.reqStmSeg s' = .ok seg ∧ Obs.stmTransition s' = .ok (tmodeOf m v) ∧
        SwapSet s0.stmSwap s'.stmSwap s0.dcSysTime rep div P seg (tmodeOf m v)

theorem mod16_of (x : Nat) (h : x < 65536) : x % 65536 = x := Nat.mod_eq_of_lt h

end Autd3.Rt
