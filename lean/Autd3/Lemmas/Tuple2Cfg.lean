import Autd3.Lemmas.Tuple2Rest
import Autd3.Lemmas.TupleSend
import Autd3.Lemmas.Hist8
/-!
General tuples: the `Proto` instance of the nine single-frame configuration datagrams (`Tuple.IsCfg`):
Synchronize, ForceFan, ReadsFPGAState, CpuGPIOOut, EmulateGPIOIn, GPIOOutputs (debug), the pulse-width table,
Silencer with fixed completion steps, Silencer with fixed update rate.

* `cfgBytes X` is the canonical payload of `X` (packed at offset 0 into a zero buffer), `cfgF X x` the closed form of
  the handler's result on `x`, `cfgRejects X x` the firmware guard (only the Silencer with fixed completion steps has one);
* `cfg_run`: on every payload that agrees with `cfgBytes X` on the first `cfgLen X` bytes the handler returns
  `cfgF X x` / `NO_ERR`, or `x` / `ERR_INVALID_SILENCER_SETTING` when the guard fires;
* `cfgF` touches neither data side (`cfgF_keepM`, `cfgF_keepS`), keeps `WF`, and maps states that agree outside the
  data sides to states that agree outside the data sides (`cfgF_keepR`).
-/
open Autd3 Autd3.Fw Autd3.Wire Autd3.Gen.Cpu Autd3.Gen Autd3.Rt
namespace Autd3.Tuple2
open Autd3.Tuple (cfgLen cfgBuf cfgTag Agree)

/-- canonical payload of a configuration datagram: packed at offset 0 into an all-zero transmit buffer -/
def cfgBytes (X : Dg) : Array Nat := cfgBuf X (Array.replicate 622 0) 0

theorem cfgBytes_size (X : Dg) : (cfgBytes X).size = 622 := by
  unfold cfgBytes; rw [Tuple.cfg_size]; simp

theorem cfgBytes_tag (X : Dg) (hX : Tuple.IsCfg X = true) : u8at (cfgBytes X) 0 = cfgTag X := by
  have := Tuple.cfgLen_le X
  exact Tuple.cfg_tag X hX _ 0 (by simp; omega)

/-- the Silencer guard with the new settings: `validateSilencerSettings` reads only `strict`, `minDivI`, `minDivP` -/
def silRejects (st : Bool) (i p stmDiv modDiv : Nat) : Bool := st ∧ (modDiv < i ∨ stmDiv < i ∨ stmDiv < p)

theorem validate_upd (s : State) (st : Bool) (i p a b : Nat) :
    validateSilencerSettings { s with strict := st, minDivI := i, minDivP := p } a b = silRejects st i p a b := rfl

/-- the firmware guard of `X` fires on `x` (a function of `x.stmDiv`, `x.stmSegment`, `x.modDiv`, `x.modSegment`) -/
def cfgRejects (X : Dg) (x : State) : Bool :=
  match X with
  | .silencerSteps i p st =>
    silRejects st (i % 65536) (p % 65536) (sel x.stmDiv x.stmSegment) (sel x.modDiv x.modSegment)
  | _ => false

def CfgAccepts (X : Dg) (x : State) : Prop := cfgRejects X x = false

theorem cfgAccepts_silencerSteps (i p : Nat) (st : Bool) (x : State) :
    CfgAccepts (.silencerSteps i p st) x ↔
      validateSilencerSettings { x with strict := st, minDivI := i % 65536, minDivP := p % 65536 }
        (sel x.stmDiv x.stmSegment) (sel x.modDiv x.modSegment) = false := Iff.rfl

theorem cfgAccepts_other (X : Dg) (x : State) (h : ∀ i p st, X ≠ .silencerSteps i p st) : CfgAccepts X x := by
  cases X <;> first | rfl | exact absurd rfl (h _ _ _)

theorem cfgRejects_congr (X : Dg) {x y : State}
    (hg : x.stmDiv = y.stmDiv ∧ x.stmSegment = y.stmSegment ∧ x.modDiv = y.modDiv ∧ x.modSegment = y.modSegment) :
    cfgRejects X x = cfgRejects X y := by
  cases X <;> first | rfl | (simp only [cfgRejects]; rw [hg.1, hg.2.1, hg.2.2.1, hg.2.2.2])

/-- the four Silencer register writes and the `CTL_FLAG` rewrite -/
def silCtl (c : Array Nat) (a1 a2 i p fl fi : Nat) : Array Nat :=
  (((c.setIfInBounds a1 (i % 65536 % 65536)).setIfInBounds a2 (p % 65536 % 65536)).setIfInBounds 64
    (fl % 65536)).setIfInBounds 0 (fi % 65536)

/-- closed form of the handler of `X` -/
def cfgF (X : Dg) (x : State) : State :=
  match X with
  | .sync => { x with synchronized := true, ctl := x.ctl.setIfInBounds 0 (x.flagsInternal % 65536) }
  | .forceFan _ =>
    { x with flagsInternal := if u8at (cfgBytes X) 1 ≠ 0 then x.flagsInternal ||| CTL_FLAG_FORCE_FAN
                              else x.flagsInternal &&& (65535 - CTL_FLAG_FORCE_FAN) }
  | .readsFpgaState _ => { x with readsFpgaState := u8at (cfgBytes X) 1 ≠ 0 }
  | .cpuGpioOut _ => { x with portA := u8at (cfgBytes X) 1 }
  | .gpioIn _ => { x with flagsInternal := P02.gpioInFlags x.flagsInternal (u8at (cfgBytes X) 1) }
  | .debug _ =>
    { x with ctl := (P02.writeLoop x.ctl 240 (fun i => rd (wordsAt (cfgBytes X) 8 16) i % 65536) 16).setIfInBounds 0
                      (x.flagsInternal % 65536) }
  | .pwe _ => { x with pwe := P02.writeLoop x.pwe 0 (fun i => rd (wordsAt (cfgBytes X) 2 256) i % 65536) 256 }
  | .silencerSteps i p st =>
    { x with strict := st, minDivI := i % 65536, minDivP := p % 65536,
             ctl := silCtl x.ctl 67 68 i p (if st then 4 else 0) x.flagsInternal }
  | .silencerRate i p => { x with ctl := silCtl x.ctl 65 66 i p 1 x.flagsInternal }
  | _ => x

/-! ### one handler call -/

theorem sil_bytes (fl i p : Nat) (hfl : fl < 256) :
    let d := put16 (put16 (tagValue (Array.replicate 622 0) 0 Drv.TAG_Silencer fl) (0 + 2) i) (0 + 4) p
    u8at d 1 = fl ∧ u16at d 2 = i % 65536 ∧ u16at d 4 = p % 65536 := by
  have := silSteps_payload (Array.replicate 622 0) fl i p (by simp) hfl
  exact ⟨this.2.1, this.2.2.1, this.2.2.2.1⟩

/-- **the handler on any payload that shows `X`'s bytes** -/
theorem cfg_run (X : Dg) (hX : Tuple.IsCfg X = true) (x : State) (hW : P02.WF x) (q : Array Nat)
    (hag : Agree (cfgLen X) (cfgBytes X) q) :
    handlePayload x q =
      if cfgRejects X x then .ok (x, ERR_INVALID_SILENCER_SETTING) else .ok (cfgF X x, NO_ERR) := by
  have ht : u8at q 0 = cfgTag X := by
    rw [← hag 0 (by have := Tuple.cfgLen_pos X; omega)]; exact cfgBytes_tag X hX
  cases X <;> simp only [Tuple.IsCfg, Bool.false_eq_true] at hX <;> simp only [cfgTag] at ht <;> simp only [cfgLen] at hag
  case sync => rw [hp_sync x q ht, P02.synchronize_eq x q hW]; rfl
  case forceFan v => rw [hp_fan x q ht, Tuple.forceFan_cf x q, ← hag 1 (by omega)]; rfl
  case readsFpgaState v => rw [hp_reads x q ht, P02.configureReadsFpgaState_eq x q, ← hag 1 (by omega)]; rfl
  case cpuGpioOut v => rw [hp_gpioOut x q ht, P02.cpuGpioOut_eq x q, ← hag 1 (by omega)]; rfl
  case gpioIn f => rw [hp_gpioIn x q ht, P02.emulateGpioIn_eq x q, ← hag 1 (by omega)]; rfl
  case debug vals => rw [hp_debug x q ht, P02.configDebug_eq x q hW, ← hag.words 8 16 (by omega)]; rfl
  case pwe table => rw [hp_pwe x q ht, P02.configPwe_eq x q hW, ← hag.words 2 256 (by omega)]; rfl
  case silencerSteps i p st =>
    obtain ⟨b1, b2, b4⟩ := sil_bytes (if st then Drv.SilencerControlFlags_STRICT_MODE else Drv.SilencerControlFlags_NONE)
      i p (by cases st <;> decide)
    have c1 : u8at (cfgBytes (.silencerSteps i p st)) 1 = if st then 4 else 0 := by
      refine Eq.trans b1 ?_; cases st <;> rfl
    have c2 : u16at (cfgBytes (.silencerSteps i p st)) 2 = i % 65536 := b2
    have c4 : u16at (cfgBytes (.silencerSteps i p st)) 4 = p % 65536 := b4
    rw [hp_silencer x q ht, P02.configSilencer_eq x q hW, ← hag 1 (by omega), ← hag.u16 2 (by omega),
      ← hag.u16 4 (by omega), c1, c2, c4]
    cases st <;> rfl
  case silencerRate i p =>
    obtain ⟨b1, b2, b4⟩ := sil_bytes Drv.SilencerControlFlags_FIXED_UPDATE_RATE i p (by decide)
    have c1 : u8at (cfgBytes (.silencerRate i p)) 1 = 1 := b1
    have c2 : u16at (cfgBytes (.silencerRate i p)) 2 = i % 65536 := b2
    have c4 : u16at (cfgBytes (.silencerRate i p)) 4 = p % 65536 := b4
    rw [hp_silencer x q ht, P02.configSilencer_eq x q hW, ← hag 1 (by omega), ← hag.u16 2 (by omega),
      ← hag.u16 4 (by omega), c1, c2, c4]
    rfl

theorem cfgBytes_def (X : Dg) : cfgBytes X = cfgBuf X (Array.replicate 622 0) 0 := rfl

/- from here on `cfgBytes` is opaque: unifying a state field with one of its bytes would evaluate the 622-byte buffer -/
attribute [irreducible] cfgBytes

/-! ### what `cfgF` touches -/

theorem rd_silCtl (c : Array Nat) (a1 a2 i p fl fi r : Nat) (h0 : r ≠ 0) (h64 : r ≠ 64) (h1 : r ≠ a1) (h2 : r ≠ a2) :
    rd (silCtl c a1 a2 i p fl fi) r = rd c r := by
  unfold silCtl
  rw [P02.rd_set_ne _ _ _ _ h0, P02.rd_set_ne _ _ _ _ h64, P02.rd_set_ne _ _ _ _ h2, P02.rd_set_ne _ _ _ _ h1]

@[simp] theorem size_silCtl (c : Array Nat) (a1 a2 i p fl fi : Nat) : (silCtl c a1 a2 i p fl fi).size = c.size := by
  simp [silCtl]

theorem cfgF_ctlsz (X : Dg) (x : State) : (cfgF X x).ctl.size = x.ctl.size := by
  cases X
  case sync => simp [cfgF]
  case debug => simp [cfgF]
  case silencerSteps => simp [cfgF]
  case silencerRate => simp [cfgF]
  all_goals rfl

/-- a configuration handler writes `CTL_FLAG`, the Silencer block 64..68 and the debug block 240..255 only -/
theorem cfgF_reg (X : Dg) (x : State) (r : Nat) (h0 : r ≠ 0) (h1 : r < 64 ∨ (68 < r ∧ r < 240)) :
    reg (cfgF X x) r = reg x r := by
  cases X
  case sync => exact P02.rd_set_ne _ _ _ _ h0
  case debug vals =>
    show rd (Array.setIfInBounds _ _ _) r = _
    rw [P02.rd_set_ne _ _ _ _ h0, P02.rd_writeLoop, if_neg (by omega)]; rfl
  case silencerSteps i p st => exact rd_silCtl _ _ _ _ _ _ _ _ h0 (by omega) (by omega) (by omega)
  case silencerRate i p => exact rd_silCtl _ _ _ _ _ _ _ _ h0 (by omega) (by omega) (by omega)
  all_goals rfl

theorem rd_set_congr (c c' : Array Nat) (i v r : Nat) (hs : c.size = c'.size) (h : rd c r = rd c' r) :
    rd (c.setIfInBounds i v) r = rd (c'.setIfInBounds i v) r := by
  rw [P02.rd_set, P02.rd_set, hs, h]

theorem rd_silCtl_congr (c c' : Array Nat) (a1 a2 i p fl fi r : Nat) (hs : c.size = c'.size) (h : rd c r = rd c' r) :
    rd (silCtl c a1 a2 i p fl fi) r = rd (silCtl c' a1 a2 i p fl fi) r := by
  unfold silCtl
  exact rd_set_congr _ _ _ _ _ (by simp [hs]) (rd_set_congr _ _ _ _ _ (by simp [hs])
    (rd_set_congr _ _ _ _ _ (by simp [hs]) (rd_set_congr _ _ _ _ _ hs h)))

/-- every register of the result is a function of the same register of the input, `flagsInternal` and the size -/
theorem cfgF_reg_congr (X : Dg) (a b : State) (r : Nat) (hs : a.ctl.size = b.ctl.size)
    (hf : a.flagsInternal = b.flagsInternal) (h : reg a r = reg b r) : reg (cfgF X a) r = reg (cfgF X b) r := by
  cases X
  case sync =>
    show rd (Array.setIfInBounds _ _ _) r = rd (Array.setIfInBounds _ _ _) r
    rw [hf]; exact rd_set_congr _ _ _ _ _ hs h
  case debug vals =>
    show rd (Array.setIfInBounds _ _ _) r = rd (Array.setIfInBounds _ _ _) r
    rw [hf]
    refine rd_set_congr _ _ _ _ _ (by simp [hs]) ?_
    rw [P02.rd_writeLoop, P02.rd_writeLoop, hs]
    have h' : rd a.ctl r = rd b.ctl r := h
    rw [h']
  case silencerSteps i p st =>
    show rd (silCtl _ _ _ _ _ _ _) r = rd (silCtl _ _ _ _ _ _ _) r
    rw [hf]; exact rd_silCtl_congr _ _ _ _ _ _ _ _ _ hs h
  case silencerRate i p =>
    show rd (silCtl _ _ _ _ _ _ _) r = rd (silCtl _ _ _ _ _ _ _) r
    rw [hf]; exact rd_silCtl_congr _ _ _ _ _ _ _ _ _ hs h
  all_goals exact h

/-- a projection of `cfgF` at a concrete datagram -/
macro "cf" : tactic => `(tactic| simp only [cfgF])

theorem cfgF_lastMsgId (X : Dg) (x : State) : (cfgF X x).lastMsgId = x.lastMsgId := by cases X <;> cf

/-- a configuration handler does not touch the modulation side -/
theorem cfgF_keepM (X : Dg) (x : State) : KeepM x (cfgF X x) := by
  have hr := cfgF_reg X x
  cases X <;>
    exact ⟨by cf, by cf, by cf, by cf, by cf, by cf, by cf, by cf, by cf, fun a h1 h2 => hr a (by omega) (by omega),
      by cf, by cf⟩

/-- a configuration handler does not touch the STM side (nor the phase correction) -/
theorem cfgF_keepS (X : Dg) (x : State) : KeepS x (cfgF X x) := by
  have hr := cfgF_reg X x
  cases X <;>
    exact ⟨by cf, by cf, by cf, by cf, by cf, by cf, by cf, by cf, by cf, by cf, by cf, by cf, by cf,
      fun a h1 h2 => hr a (by omega) (by omega), by cf, by cf, by cf⟩

theorem setb_mod (f : Nat) (on : Bool) (bit : Nat) (hf : f % 256 = 0) (hb : bit % 256 = 0) :
    (if on then f ||| bit else f &&& (65535 - bit)) % 256 = 0 := by
  cases on
  · simp only [Bool.false_eq_true, if_false]
    rw [show 256 = 2 ^ 8 from rfl, Nat.and_mod_two_pow, show 2 ^ 8 = 256 from rfl, hf]; simp
  · simp only [if_true]
    rw [show 256 = 2 ^ 8 from rfl, Nat.or_mod_two_pow, show 2 ^ 8 = 256 from rfl, hf, hb]; rfl

theorem cfgF_flags (X : Dg) (x : State) (h : x.flagsInternal % 256 = 0) : (cfgF X x).flagsInternal % 256 = 0 := by
  cases X
  case forceFan v =>
    have := setb_mod x.flagsInternal (decide (u8at (cfgBytes (.forceFan v)) 1 ≠ 0)) CTL_FLAG_FORCE_FAN h (by decide)
    simpa [cfgF] using this
  case gpioIn f =>
    show (P02.gpioInFlags x.flagsInternal _) % 256 = 0
    unfold P02.gpioInFlags
    simp only []
    exact setb_mod _ _ _ (setb_mod _ _ _ (setb_mod _ _ _ (setb_mod _ _ _ h (by decide)) (by decide)) (by decide)) (by decide)
  all_goals exact h

theorem cfgF_wf (X : Dg) (x : State) (h : WF x) : WF (cfgF X x) := by
  have hr := cfgF_reg X x
  have hp : (cfgF X x).pwe.size = 256 := by
    cases X
    case pwe => show (P02.writeLoop _ _ _ _).size = 256; rw [P02.size_writeLoop]; exact h.pwe
    all_goals exact h.pwe
  refine ⟨(cfgF_ctlsz X x).trans h.ctl, ?_, hp, ?_, ?_, ?_, ?_, ?_, cfgF_flags X x h.flags, ?_, ?_,
    by rw [hr _ (by decide) (by decide)]; exact h.modDiv0, by rw [hr _ (by decide) (by decide)]; exact h.modDiv1,
    by rw [hr _ (by decide) (by decide)]; exact h.stmDiv0, by rw [hr _ (by decide) (by decide)]; exact h.stmDiv1⟩
  all_goals
    cases X <;> simp only [cfgF] <;>
      first | exact h.phaseCorr | exact h.modMem0 | exact h.modMem1 | exact h.stmMem0 | exact h.stmMem1 | exact h.numTr | exact h.modSwap | exact h.stmSwap

/-- results on two states that agree outside the data sides agree outside the data sides -/
theorem cfgF_keepR (X : Dg) {a b : State} (h : KeepR a b) : KeepR (cfgF X a) (cfgF X b) := by
  refine ⟨?_, ?_, fun r h0 hr => (cfgF_reg_congr X a b r h.ctlsz.symm h.flagsInternal.symm (h.regs r h0 hr).symm).symm,
    (cfgF_ctlsz X b).trans (h.ctlsz.trans (cfgF_ctlsz X a).symm), ?_, ?_, ?_, ?_, ?_, ?_, ?_, ?_, ?_, ?_, ?_⟩
  all_goals
    cases X <;> simp only [cfgF, h.phaseCorr, h.pwe, h.strict, h.minDivI, h.minDivP, h.portA, h.readsFpgaState,
      h.readsStore, h.isRxDataUsed, h.flagsInternal, h.time, h.numTr, h.synchronized]

/-! ### the handler on well-formed states -/

theorem cfgLen_even (X : Dg) : cfgLen X % 2 = 0 := by cases X <;> simp [cfgLen]

/-- accepted: the guard passes, the result is the closed form -/
theorem cfg_handle (X : Dg) (hX : Tuple.IsCfg X = true) (x : State) (hW : WF x) (hacc : CfgAccepts X x) (q : Array Nat)
    (hag : Agree (cfgLen X) (cfgBytes X) q) : handlePayload x q = .ok (cfgF X x, NO_ERR) := by
  have hacc' : cfgRejects X x = false := hacc
  rw [cfg_run X hX x (Hist.p02wf_of_wf hW) q hag, hacc']
  rfl

/-- an accepted run on the canonical payload: the guard passed and the result is the closed form -/
theorem cfg_handler_eq (X : Dg) (hX : Tuple.IsCfg X = true) {s0 s1 : State} (hW : WF s0)
    (h : handlePayload s0 (cfgBytes X) = .ok (s1, NO_ERR)) : CfgAccepts X s0 ∧ s1 = cfgF X s0 := by
  rw [cfg_run X hX s0 (Hist.p02wf_of_wf hW) (cfgBytes X) (fun _ _ => rfl)] at h
  cases hr : cfgRejects X s0
  · rw [hr] at h
    simp only [Bool.false_eq_true, if_false, Except.ok.injEq, Prod.mk.injEq] at h
    exact ⟨hr, h.1.symm⟩
  · rw [hr] at h
    simp only [if_true, Except.ok.injEq, Prod.mk.injEq] at h
    exact absurd h.2 (by decide)

/-- the result of a configuration handler differs from its input only outside both data sides; it is well-formed; the
firmware's Silencer settings are those of `X` for the Silencer with fixed completion steps and unchanged otherwise -/
theorem cfg_handler_keeps (X : Dg) (hX : Tuple.IsCfg X = true) {s0 s1 : State} (hW : WF s0)
    (h : handlePayload s0 (cfgBytes X) = .ok (s1, NO_ERR)) :
    KeepM s0 s1 ∧ KeepS s0 s1 ∧ WF s1 ∧ s1.lastMsgId = s0.lastMsgId ∧ CfgAccepts X s0 ∧ s1 = cfgF X s0 ∧
    (∀ i p st, X = .silencerSteps i p st → s1.strict = st ∧ s1.minDivI = i % 65536 ∧ s1.minDivP = p % 65536) ∧
    ((∀ i p st, X ≠ .silencerSteps i p st) → s1.strict = s0.strict ∧ s1.minDivI = s0.minDivI ∧ s1.minDivP = s0.minDivP) := by
  obtain ⟨hacc, rfl⟩ := cfg_handler_eq X hX hW h
  refine ⟨cfgF_keepM X s0, cfgF_keepS X s0, cfgF_wf X s0 hW, cfgF_lastMsgId X s0, hacc, rfl, ?_, ?_⟩
  · intro i p st e; subst e; exact ⟨by cf, by cf, by cf⟩
  · intro hne
    cases X
    case silencerSteps i p st => exact absurd rfl (hne i p st)
    all_goals exact ⟨by cf, by cf, by cf⟩

/-- the handler's result on two states that agree outside the data sides agrees outside the data sides -/
theorem cfg_handler_congr (X : Dg) (hX : Tuple.IsCfg X = true) {a b a1 b1 : State} (hWa : WF a) (hWb : WF b)
    (hab : KeepR a b) (ha : handlePayload a (cfgBytes X) = .ok (a1, NO_ERR))
    (hb : handlePayload b (cfgBytes X) = .ok (b1, NO_ERR)) : KeepR a1 b1 := by
  obtain ⟨_, rfl⟩ := cfg_handler_eq X hX hWa ha
  obtain ⟨_, rfl⟩ := cfg_handler_eq X hX hWb hb
  exact cfgF_keepR X hab

/-! ### the protocol -/

/-- driver-side operation state: not sent yet / sent -/
def cfgOpAt (X : Dg) : Nat → Op
  | 0 => Op.ofDg X
  | _ + 1 => { dg := X, sent := 0, done := true }

def cfgProto (X : Dg) : Proto where
  dg := X
  total := 1
  opAt := cfgOpAt X
  Ready := fun sH => WF sH ∧ Tuple.IsCfg X = true ∧ CfgAccepts X sH
  Mid := fun _ _ _ => False
  Done := fun s0 s => WF s ∧ ∃ s1, handlePayload s0 (cfgBytes X) = .ok (s1, NO_ERR) ∧ KeepR s1 s
  Own := fun a b => KeepM a b ∧ KeepS a b ∧ b.lastMsgId = a.lastMsgId
  OwnT := fun a b => KeepM a b ∧ KeepS a b
  Other := KeepR

/-- what any buffer that agrees with the packed one on the reported bytes shows the firmware at `payload[k..]` -/
theorem cfg_agree_at (X : Dg) (hX : Tuple.IsCfg X = true) (b : Array Nat) (k : Nat) (hb : b.size = 622)
    (hk : k + cfgLen X ≤ 622) (b'' : Array Nat) (hb'' : b''.size = 622)
    (hag : ∀ i, k ≤ i → i < k + cfgLen X → rd b'' i = rd (cfgBuf X b k) i) :
    Agree (cfgLen X) (cfgBytes X) (b''.extract k 622) := by
  intro i hi
  have x1 := u8at_extract b'' k i
  rw [hb''] at x1
  rw [x1, cfgBytes_def]
  have x2 := Tuple.cfg_ti X hX (Array.replicate 622 0) b 0 k (by simp; omega) (by omega) i hi
  rw [Nat.zero_add] at x2
  rw [x2]
  unfold u8at
  rw [hag (k + i) (by omega) (by omega)]

theorem cfgProto_laws (X : Dg) (hX : Tuple.IsCfg X = true) : (cfgProto X).Laws where
  op0 := rfl
  total_pos := Nat.one_pos
  done_iff := by
    intro c hc
    have hp := Tuple.cfg_pending X hX
    rcases (show c = 0 ∨ c = 1 from by have : c ≤ 1 := hc; omega) with h | h <;> subst h
    · show (Op.ofDg X).done = true ↔ 0 = 1
      rw [hp]; simp
    · show true = true ↔ 1 = 1
      simp
  fits := by
    intro c nt hc hnt
    have hc0 : c = 0 := by have : c < 1 := hc; omega
    subst hc0
    show (Op.ofDg X).required nt ≤ 622
    rw [Tuple.cfg_required X hX nt]
    have := Tuple.cfgLen_le X
    omega
  step := by
    intro c nt b k hc hnt hb hk2 hroom
    have hc0 : c = 0 := by have : c < 1 := hc; omega
    subst hc0
    have hroom' : k + cfgLen X ≤ 622 := by
      have h1 : k + (Op.ofDg X).required nt ≤ 622 := hroom
      rw [Tuple.cfg_required X hX nt] at h1; exact h1
    have hpk : (Op.ofDg X).pack nt b k = .ok ({ dg := X, sent := 0, done := true }, cfgBuf X b k, cfgLen X) :=
      Tuple.cfg_pack X hX nt b k (by rw [hb]; exact hroom')
    have hpos := Tuple.cfgLen_pos X
    refine ⟨1, cfgBuf X b k, cfgLen X, hpk, Nat.one_pos, Nat.le_refl _, pack_keeps hpk, cfgLen_even X, by omega,
      hroom', ?_⟩
    intro s0 sH hpre hnt' b'' hb'' hag
    obtain ⟨hs0, hW, _, hacc⟩ : s0 = sH ∧ WF sH ∧ Tuple.IsCfg X = true ∧ CfgAccepts X sH := hpre
    subst hs0
    have hh := cfg_handle X hX s0 hW hacc _ (cfg_agree_at X hX b k hb hroom' b'' hb'' hag)
    have hc := cfg_handle X hX s0 hW hacc (cfgBytes X) (fun _ _ => rfl)
    have hD : (cfgProto X).Done s0 (cfgF X s0) := ⟨cfgF_wf X s0 hW, cfgF X s0, hc, KeepR.refl _⟩
    exact ⟨cfgF X s0, hh, cfgF_lastMsgId X s0, hD, cfgF_keepM X s0, cfgF_keepS X s0, cfgF_lastMsgId X s0⟩
  ready_wf := fun _ h => h.1
  mid_wf := fun _ _ _ h => h.elim
  done_wf := fun _ _ h => h.1
  mid_io := fun _ _ _ _ _ _ h => h.elim
  done_io := by
    intro s0 s a l r h
    obtain ⟨hw, s1, hr, hk⟩ : WF s ∧ ∃ s1, handlePayload s0 (cfgBytes X) = .ok (s1, NO_ERR) ∧ KeepR s1 s := h
    exact ⟨by wf_same hw, s1, hr, hk.trans (KeepR_io s a l r)⟩
  mid_fin := fun _ _ _ _ h => h.elim
  done_fin := by
    intro s0 s id h
    obtain ⟨hw, s1, hr, hk⟩ : WF s ∧ ∃ s1, handlePayload s0 (cfgBytes X) = .ok (s1, NO_ERR) ∧ KeepR s1 s := h
    exact ⟨WF_fin hw id, s1, hr, hk.trans (KeepR_fin s id)⟩
  mid_other := fun _ _ _ _ h _ _ => h.elim
  done_other := by
    intro s0 s s' h ho hw'
    obtain ⟨_, s1, hr, hk⟩ : WF s ∧ ∃ s1, handlePayload s0 (cfgBytes X) = .ok (s1, NO_ERR) ∧ KeepR s1 s := h
    exact ⟨hw', s1, hr, hk.trans ho⟩
  ownT_refl := fun s => ⟨KeepM.refl s, KeepS.refl s⟩
  ownT_trans := fun _ _ _ h1 h2 => ⟨h1.1.trans h2.1, h1.2.trans h2.2⟩
  own_ownT := fun _ _ h => ⟨h.1, h.2.1⟩
  io_ownT := fun s a l r => ⟨KeepM_io s a l r, KeepS_io s a l r⟩
  fin_ownT := fun s id _ => ⟨KeepM_fin s id, KeepS_fin s id⟩
  ownT_numTr := fun _ _ h => h.1.numTr

theorem cfgProto_ready (X : Dg) (sH : State) :
    (cfgProto X).Ready sH ↔ (WF sH ∧ Tuple.IsCfg X = true ∧ CfgAccepts X sH) := Iff.rfl

/-- `Ready` depends on the state through `WF` and the four latches the Silencer guard reads only -/
theorem cfgProto_ready_congr (X : Dg) {y x : State} (h : (cfgProto X).Ready y) (hW : WF x)
    (hg : x.stmDiv = y.stmDiv ∧ x.stmSegment = y.stmSegment ∧ x.modDiv = y.modDiv ∧ x.modSegment = y.modSegment) :
    (cfgProto X).Ready x := by
  obtain ⟨_, hX, hacc⟩ : WF y ∧ Tuple.IsCfg X = true ∧ CfgAccepts X y := h
  exact ⟨hW, hX, (cfgRejects_congr X hg).trans hacc⟩

theorem cfgProto_done (X : Dg) {s0 s : State} (h : (cfgProto X).Done s0 s) :
    WF s ∧ ∃ s1, handlePayload s0 (cfgBytes X) = .ok (s1, NO_ERR) ∧ KeepR s1 s := h

/-- `Done` from an accepted handler run and a state that agrees with its result outside the data sides -/
theorem cfgProto_done_intro (X : Dg) {s0 s1 s : State} (hw : WF s)
    (h : handlePayload s0 (cfgBytes X) = .ok (s1, NO_ERR)) (hk : KeepR s1 s) : (cfgProto X).Done s0 s := ⟨hw, s1, h, hk⟩

end Autd3.Tuple2
