import Autd3.Lemmas.TupleRecv
import Autd3.Lemmas.FwRecv
/-!
Tuple equivalence (C03), part 2 — the eight single-frame configuration handlers
(`synchronize`, `config_silencer`, `configure_force_fan`, `configure_reads_fpga_state`, `config_pwe`,
`config_debug`, `emulate_gpio_in`, `cpu_gpio_out`) on a well-formed state (`P02.WF`):
never panic, keep `WF`, `lastMsgId`, `numTr`, read only the first `K` bytes of their payload (`Agree`),
and do not depend on `ack`, `lastMsgId`, `rxData`, `CTL_FLAG` (`Eqv0`).  Bundled as `Good`.
-/
namespace Autd3.Tuple
open Autd3 Autd3.Fw Autd3.Wire Autd3.Gen.Cpu Autd3.Gen
open Autd3.P02 (WF FlagsOK)

/-- two payloads agree on their first `K` bytes (as the firmware reads them: `u8at`) -/
def Agree (K : Nat) (p p' : Array Nat) : Prop := ∀ i, i < K → u8at p i = u8at p' i

theorem Agree.u16 {K : Nat} {p p' : Array Nat} (h : Agree K p p') (i : Nat) (hi : i + 1 < K) : u16at p i = u16at p' i := by
  unfold u16at; rw [h i (by omega), h (i + 1) hi]

theorem Agree.words {K : Nat} {p p' : Array Nat} (h : Agree K p p') (off len : Nat) (hK : off + 2 * len ≤ K) :
    wordsAt p off len = wordsAt p' off len := by
  unfold wordsAt
  apply P02.map_range_congr
  intro i hi
  exact h.u16 _ (by omega)

theorem Agree.mono {K K' : Nat} {p p' : Array Nat} (h : Agree K p p') (hle : K' ≤ K) : Agree K' p p' :=
  fun i hi => h i (by omega)
theorem Agree.symm {K : Nat} {p p' : Array Nat} (h : Agree K p p') : Agree K p' p := fun i hi => (h i hi).symm
theorem Agree.trans {K : Nat} {p q r : Array Nat} (h1 : Agree K p q) (h2 : Agree K q r) : Agree K p r :=
  fun i hi => (h1 i hi).trans (h2 i hi)

theorem wf_eqv0 {s s' : State} (h : WF s) (e : Eqv0 s s') : WF s' := by
  obtain ⟨a, l, r, c, rfl, hc⟩ := e
  exact { h with ctl := by rw [← hc.size]; exact h.ctl }

/-- everything the tuple proofs need of one handler run on the payload `p` (first `K` bytes relevant) -/
def Good (K : Nat) (s : State) (p : Array Nat) (s1 : State) (a1 : Nat) : Prop :=
  handlePayload s p = .ok (s1, a1) ∧ WF s1 ∧ s1.lastMsgId = s.lastMsgId ∧ s1.numTr = s.numTr ∧
  (∀ p', Agree K p p' → handlePayload s p' = .ok (s1, a1)) ∧
  (∀ s', Eqv0 s s' → ∃ s1', handlePayload s' p = .ok (s1', a1) ∧ Eqv0 s1 s1')

/-- `Good` from a closed form `h x q = .ok (F x q, a1)` valid on well-formed states -/
theorem good_mk (K : Nat) (s : State) (p : Array Nat) (h : State → Array Nat → M (State × Nat))
    (F : State → Array Nat → State) (a1 : Nat) (hW : WF s) (hK : 1 ≤ K)
    (hd : ∀ x q, u8at q 0 = u8at p 0 → handlePayload x q = h x q)
    (hcf : ∀ x q, WF x → h x q = .ok (F x q, a1))
    (hwf : WF (F s p)) (hl : (F s p).lastMsgId = s.lastMsgId) (hn : (F s p).numTr = s.numTr)
    (hloc : ∀ p', Agree K p p' → F s p' = F s p)
    (hins : ∀ s', Eqv0 s s' → Eqv0 (F s p) (F s' p)) : Good K s p (F s p) a1 := by
  refine ⟨by rw [hd s p rfl, hcf s p hW], hwf, hl, hn, ?_, ?_⟩
  · intro p' hag
    rw [hd s p' (hag 0 (by omega)).symm, hcf s p' hW, hloc p' hag]
  · intro s' e
    exact ⟨F s' p, by rw [hd s' p rfl, hcf s' p (wf_eqv0 hW e)], hins s' e⟩

theorem good_sync (s : State) (p : Array Nat) (hW : WF s) (ht : u8at p 0 = 2) :
    ∃ s1 a1, Good 2 s p s1 a1 := by
  refine ⟨_, _, good_mk 2 s p synchronize
    (fun x _ => { x with synchronized := true, ctl := x.ctl.setIfInBounds 0 (x.flagsInternal % 65536) }) NO_ERR hW (by omega)
    (fun x q hq => hp_sync x q (by rw [hq, ht])) (fun x q hx => P02.synchronize_eq x q hx) ?_ rfl rfl (fun _ _ => rfl) ?_⟩
  · exact P02.wf_ctl { s with synchronized := true } _ { hW with } (by simp [hW.ctl])
  · intro s' e
    obtain ⟨a, l, r, c, rfl, hc⟩ := e
    exact ⟨a, l, r, _, rfl, Eq0.set hc _ _⟩

theorem good_reads (s : State) (p : Array Nat) (hW : WF s) (ht : u8at p 0 = 97) :
    ∃ s1 a1, Good 2 s p s1 a1 := by
  refine ⟨_, _, good_mk 2 s p configureReadsFpgaState
    (fun x q => { x with readsFpgaState := u8at q 1 ≠ 0 }) NO_ERR hW (by omega)
    (fun x q hq => hp_reads x q (by rw [hq, ht])) (fun x q _ => P02.configureReadsFpgaState_eq x q) ?_ rfl rfl ?_ ?_⟩
  · exact { hW with }
  · intro p' hag; simp only [hag 1 (by omega)]
  · intro s' e
    obtain ⟨a, l, r, c, rfl, hc⟩ := e
    exact ⟨a, l, r, c, rfl, hc⟩

theorem good_gpioOut (s : State) (p : Array Nat) (hW : WF s) (ht : u8at p 0 = 242) :
    ∃ s1 a1, Good 2 s p s1 a1 := by
  refine ⟨_, _, good_mk 2 s p cpuGpioOut
    (fun x q => { x with portA := u8at q 1 }) NO_ERR hW (by omega)
    (fun x q hq => hp_gpioOut x q (by rw [hq, ht])) (fun x q _ => P02.cpuGpioOut_eq x q) ?_ rfl rfl ?_ ?_⟩
  · exact { hW with }
  · intro p' hag; simp only [hag 1 (by omega)]
  · intro s' e
    obtain ⟨a, l, r, c, rfl, hc⟩ := e
    exact ⟨a, l, r, c, rfl, hc⟩

theorem good_gpioIn (s : State) (p : Array Nat) (hW : WF s) (ht : u8at p 0 = 241) :
    ∃ s1 a1, Good 2 s p s1 a1 := by
  refine ⟨_, _, good_mk 2 s p emulateGpioIn
    (fun x q => { x with flagsInternal := P02.gpioInFlags x.flagsInternal (u8at q 1) }) NO_ERR hW (by omega)
    (fun x q hq => hp_gpioIn x q (by rw [hq, ht])) (fun x q _ => P02.emulateGpioIn_eq x q) ?_ rfl rfl ?_ ?_⟩
  · exact { hW with flags := P02.flagsOK_gpioIn _ _ hW.flags }
  · intro p' hag; simp only [hag 1 (by omega)]
  · intro s' e
    obtain ⟨a, l, r, c, rfl, hc⟩ := e
    exact ⟨a, l, r, c, rfl, hc⟩

theorem forceFan_cf (x : State) (q : Array Nat) : configureForceFan x q =
    .ok ({ x with flagsInternal := if u8at q 1 ≠ 0 then x.flagsInternal ||| CTL_FLAG_FORCE_FAN
                                    else x.flagsInternal &&& (65535 - CTL_FLAG_FORCE_FAN) }, NO_ERR) := by
  unfold configureForceFan
  simp only [FwLayout.ForceFan_value_off]
  by_cases hv : u8at q 1 = 0
  · simp only [hv, ne_eq, not_true_eq_false, if_false]
  · simp only [hv, ne_eq, not_false_eq_true, if_true]

theorem good_fan (s : State) (p : Array Nat) (hW : WF s) (ht : u8at p 0 = 96) :
    ∃ s1 a1, Good 2 s p s1 a1 := by
  refine ⟨_, _, good_mk 2 s p configureForceFan
    (fun x q => { x with flagsInternal := if u8at q 1 ≠ 0 then x.flagsInternal ||| CTL_FLAG_FORCE_FAN
                                    else x.flagsInternal &&& (65535 - CTL_FLAG_FORCE_FAN) }) NO_ERR hW (by omega)
    (fun x q hq => hp_fan x q (by rw [hq, ht])) (fun x q _ => forceFan_cf x q) ?_ rfl rfl ?_ ?_⟩
  · refine { hW with flags := ?_ }
    show FlagsOK (if u8at p 1 ≠ 0 then _ else _)
    split
    · exact P02.flagsOK_or _ _ hW.flags (by decide) (by decide)
    · exact P02.flagsOK_and _ _ hW.flags
  · intro p' hag; simp only [hag 1 (by omega)]
  · intro s' e
    obtain ⟨a, l, r, c, rfl, hc⟩ := e
    exact ⟨a, l, r, c, rfl, hc⟩

theorem good_pwe (s : State) (p : Array Nat) (hW : WF s) (ht : u8at p 0 = 114) :
    ∃ s1 a1, Good 514 s p s1 a1 := by
  refine ⟨_, _, good_mk 514 s p configPwe
    (fun x q => { x with pwe := P02.writeLoop x.pwe 0 (fun i => rd (wordsAt q 2 256) i % 65536) 256 }) NO_ERR hW (by omega)
    (fun x q hq => hp_pwe x q (by rw [hq, ht])) (fun x q hx => P02.configPwe_eq x q hx) ?_ rfl rfl ?_ ?_⟩
  · exact { hW with pwe := by simp [hW.pwe] }
  · intro p' hag; simp only [hag.words 2 256 (by omega)]
  · intro s' e
    obtain ⟨a, l, r, c, rfl, hc⟩ := e
    exact ⟨a, l, r, c, rfl, hc⟩

theorem good_debug (s : State) (p : Array Nat) (hW : WF s) (ht : u8at p 0 = 240) :
    ∃ s1 a1, Good 40 s p s1 a1 := by
  refine ⟨_, _, good_mk 40 s p configDebug
    (fun x q => { x with ctl := (P02.writeLoop x.ctl 240 (fun i => rd (wordsAt q 8 16) i % 65536) 16).setIfInBounds 0
                                             (x.flagsInternal % 65536) }) NO_ERR hW (by omega)
    (fun x q hq => hp_debug x q (by rw [hq, ht])) (fun x q hx => P02.configDebug_eq x q hx) ?_ rfl rfl ?_ ?_⟩
  · exact P02.wf_ctl s _ hW (by simp [hW.ctl])
  · intro p' hag; simp only [hag.words 8 16 (by omega)]
  · intro s' e
    obtain ⟨a, l, r, c, rfl, hc⟩ := e
    exact ⟨a, l, r, _, rfl, Eq0.set (hc.writeLoop _ _ _) _ _⟩

theorem good_silencer (s : State) (p : Array Nat) (hW : WF s) (ht : u8at p 0 = 33) :
    ∃ s1 a1, Good 6 s p s1 a1 := by
  have hloc : ∀ p', Agree 6 p p' → configSilencer s p' = configSilencer s p := by
    intro p' hag
    rw [P02.configSilencer_eq s p' hW, P02.configSilencer_eq s p hW, ← hag 1 (by omega), ← hag.u16 2 (by omega),
      ← hag.u16 4 (by omega)]
  have hins : ∀ s', Eqv0 s s' → ∃ s1', RelRes (configSilencer s p) (.ok s1') ∧ configSilencer s' p = .ok s1' := by
    intro s' e
    have hW' := wf_eqv0 hW e
    obtain ⟨a, l, r, c, rfl, hc⟩ := e
    rw [P02.configSilencer_eq _ p hW', P02.configSilencer_eq s p hW]
    by_cases hf : hasFlag (u8at p 1) SILENCER_FLAG_FIXED_UPDATE_RATE_MODE = true
    · simp only [hf, if_true]
      exact ⟨_, ⟨⟨a, l, r, _, rfl, Eq0.set (Eq0.set (Eq0.set (Eq0.set hc _ _) _ _) _ _) _ _⟩, rfl⟩, rfl⟩
    · simp only [hf, if_false, Bool.false_eq_true]
      have hv : validateSilencerSettings
          { ({ s with ack := a, lastMsgId := l, rxData := r, ctl := c } : State) with
            strict := hasFlag (u8at p 1) SILENCER_FLAG_STRICT_MODE, minDivI := u16at p 2, minDivP := u16at p 4 }
          (sel s.stmDiv s.stmSegment) (sel s.modDiv s.modSegment) =
        validateSilencerSettings
          { s with strict := hasFlag (u8at p 1) SILENCER_FLAG_STRICT_MODE, minDivI := u16at p 2, minDivP := u16at p 4 }
          (sel s.stmDiv s.stmSegment) (sel s.modDiv s.modSegment) := rfl
      rw [hv]
      split
      · exact ⟨_, ⟨⟨a, l, r, c, rfl, hc⟩, rfl⟩, rfl⟩
      · exact ⟨_, ⟨⟨a, l, r, _, rfl, Eq0.set (Eq0.set (Eq0.set (Eq0.set hc _ _) _ _) _ _) _ _⟩, rfl⟩, rfl⟩
  -- the result on `s` itself
  have hres : ∃ s1 a1, configSilencer s p = .ok (s1, a1) ∧ WF s1 ∧ s1.lastMsgId = s.lastMsgId ∧ s1.numTr = s.numTr := by
    rw [P02.configSilencer_eq s p hW]
    split
    · exact ⟨_, _, rfl, P02.wf_ctl s _ hW (by simp [hW.ctl]), rfl, rfl⟩
    · split
      · exact ⟨_, _, rfl, hW, rfl, rfl⟩
      · exact ⟨_, _, rfl, P02.wf_silencer_upd s _ _ _ _ hW (by simp [hW.ctl]), rfl, rfl⟩
  obtain ⟨s1, a1, hr, hw1, hl1, hn1⟩ := hres
  refine ⟨s1, a1, by rw [hp_silencer s p ht, hr], hw1, hl1, hn1, ?_, ?_⟩
  · intro p' hag
    rw [hp_silencer s p' (by rw [← hag 0 (by omega)]; exact ht), hloc p' hag, hr]
  · intro s' e
    obtain ⟨r', hrel, hrun⟩ := hins s' e
    rw [hr] at hrel
    obtain ⟨s1', a1'⟩ := r'
    obtain ⟨hq, rfl⟩ := hrel
    exact ⟨s1', by rw [hp_silencer _ p ht, hrun], hq⟩

/-- the (tag, relevant length) pairs of the eight configuration payloads -/
def cfgTable : List (Nat × Nat) := [(2, 2), (33, 6), (96, 2), (97, 2), (114, 514), (240, 40), (241, 2), (242, 2)]

theorem good_cfg (K : Nat) (s : State) (p : Array Nat) (hW : WF s) (hK : (u8at p 0, K) ∈ cfgTable) :
    ∃ s1 a1, Good K s p s1 a1 := by
  simp only [cfgTable, List.mem_cons, Prod.mk.injEq, List.mem_nil_iff, or_false] at hK
  rcases hK with ⟨h, rfl⟩ | ⟨h, rfl⟩ | ⟨h, rfl⟩ | ⟨h, rfl⟩ | ⟨h, rfl⟩ | ⟨h, rfl⟩ | ⟨h, rfl⟩ | ⟨h, rfl⟩
  · exact good_sync s p hW h
  · exact good_silencer s p hW h
  · exact good_fan s p hW h
  · exact good_reads s p hW h
  · exact good_pwe s p hW h
  · exact good_debug s p hW h
  · exact good_gpioIn s p hW h
  · exact good_gpioOut s p hW h

end Autd3.Tuple
