import Autd3.Lemmas.Hist6
/-!
History independence / frame conditions (C02), part 7: `drives_at` of a focus segment is a function of the 64-bit
records, sound speed, foci count, transducer count and phase correction (`fociDrivesAt_congr`); the pairwise
comparison lemmas behind the `*_history_independent` theorems.
-/
open Autd3 Autd3.Fw Autd3.Wire Autd3.Gen.Cpu Autd3.Gen Autd3.Rt
namespace Autd3.Hist

theorem range_forIn_congr {m : Type → Type} [Monad m] {β : Type} (n : Nat) (init : β)
    (f g : Nat → β → m (ForInStep β)) (h : ∀ i, i < n → ∀ b, f i b = g i b) :
    forIn [0:n] init f = forIn [0:n] init g := by
  have e1 : forIn [0:n] init f = forIn' [0:n] init (fun a _ b => f a b) := rfl
  have e2 : forIn [0:n] init g = forIn' [0:n] init (fun a _ b => g a b) := rfl
  rw [e1, e2]
  congr 1
  funext a ha b
  exact h a ha.2.1 b

theorem bind_left_congr {α β : Type} {x y : M α} (k : α → M β) (h : x = y) : (x >>= k) = (y >>= k) := by rw [h]

/-- `foci_stm_drives` for one transducer depends on the state only through the 64-bit records of pattern `idx`, the
memory size, the sound speed, the foci count and the stored phase correction of that transducer -/
theorem fociDrive_congr (a b : State) (seg idx tr : Nat)
    (hsz : (Obs.stmMem a seg).size = (Obs.stmMem b seg).size)
    (hss : Obs.soundSpeed a seg = Obs.soundSpeed b seg) (hnf : Obs.numFoci a seg = Obs.numFoci b seg)
    (hpc : Obs.phaseCorrAt a tr = Obs.phaseCorrAt b tr)
    (hrec : ∀ i, i < Obs.numFoci b seg →
      stmRecord (Obs.stmMem a seg) (idx * Obs.numFoci b seg + i) = stmRecord (Obs.stmMem b seg) (idx * Obs.numFoci b seg + i)) :
    Obs.fociDrive a seg idx tr = Obs.fociDrive b seg idx tr := by
  unfold Obs.fociDrive
  simp only [hss, hnf, hpc, hsz]
  apply bind_left_congr
  apply range_forIn_congr
  intro i hi r
  have h0 := hrec i hi
  unfold stmRecord at h0
  simp only [h0]

theorem list_mapM_congr {β : Type} {l : List Nat} {f g : Nat → M β} (h : ∀ i ∈ l, f i = g i) : l.mapM f = l.mapM g := by
  induction l with
  | nil => rfl
  | cons a l ih =>
    simp only [List.mapM_cons]
    rw [h a (by simp), ih (fun i hi => h i (by simp [hi]))]

theorem mapM_range_congr {β : Type} (n : Nat) (f g : Nat → M β) (h : ∀ i, i < n → f i = g i) :
    (Array.range n).mapM f = (Array.range n).mapM g := by
  rw [Array.mapM_eq_mapM_toList, Array.mapM_eq_mapM_toList]
  congr 1
  apply list_mapM_congr
  intro i hi
  apply h
  simpa using hi

/-- `drives_at` of a focus segment: a function of the records of that pattern, sound speed, foci count, transducer
count and phase correction -/
theorem fociDrivesAt_congr (a b : State) (seg idx : Nat) (hn : a.numTr = b.numTr)
    (hga : Obs.isStmGainMode a seg = false) (hgb : Obs.isStmGainMode b seg = false)
    (hsz : (Obs.stmMem a seg).size = (Obs.stmMem b seg).size)
    (hss : Obs.soundSpeed a seg = Obs.soundSpeed b seg) (hnf : Obs.numFoci a seg = Obs.numFoci b seg)
    (hpc : ∀ i, i < a.numTr → Obs.phaseCorrAt a i = Obs.phaseCorrAt b i)
    (hrec : ∀ i, i < Obs.numFoci b seg →
      stmRecord (Obs.stmMem a seg) (idx * Obs.numFoci b seg + i) = stmRecord (Obs.stmMem b seg) (idx * Obs.numFoci b seg + i)) :
    Obs.drivesAt a seg idx = Obs.drivesAt b seg idx := by
  unfold Obs.drivesAt
  rw [hga, hgb]
  simp only [Bool.false_eq_true, if_false]
  unfold Obs.fociDrives
  rw [← hn]
  apply mapM_range_congr
  intro i hi
  exact fociDrive_congr a b seg idx i hsz hss hnf (hpc i hi) hrec

theorem phaseCorrAt_stmSide {s s' : State} (h : StmSide s s') (i : Nat) : Obs.phaseCorrAt s' i = Obs.phaseCorrAt s i := by
  unfold Obs.phaseCorrAt; rw [h.phaseCorr]

theorem gain_pair {s1 s2 s1' s2' : State} {seg : Nat} {drives : Array Nat} (h1 : GainHeld s1 s1' seg drives)
    (h2 : GainHeld s2 s2' seg drives) (hp : PhaseSame s1 s2) :
    Obs.drivesAt s1' seg 0 = Obs.drivesAt s2' seg 0 ∧ stmHdr s1' seg = stmHdr s2' seg := by
  obtain ⟨a1, a2⟩ := gainObs_of_held h1
  obtain ⟨b1, b2⟩ := gainObs_of_held h2
  refine ⟨?_, by rw [a2, b2]⟩
  rw [a1, b1, ← hp.1]
  congr 1
  apply map_range_congr
  intro i hi
  rw [phaseCorrAt_of_same hp i hi]

theorem gstm_pair {s1 s2 s1' s2' : State} {seg : Nat} {tr : Tr} {rep div mode : Nat} {patterns : Array (Array Nat)}
    (h1 : GHeld s1 s1' seg tr rep div mode patterns) (h2 : GHeld s2 s2' seg tr rep div mode patterns)
    (w1 : WF s1') (w2 : WF s2') (e1 : StmSide s1 s1') (e2 : StmSide s2 s2') (hp : PhaseSame s1 s2) :
    (∀ idx, idx < patterns.size → Obs.drivesAt s1' seg idx = Obs.drivesAt s2' seg idx) ∧
    stmHdr s1' seg = stmHdr s2' seg ∧ stmHdr s1' seg = (true, patterns.size, div, rep) := by
  refine ⟨?_, by unfold stmHdr; rw [h1.hmode, h1.hcycle, h1.hdiv, h1.hrep, h2.hmode, h2.hcycle, h2.hdiv, h2.hrep],
    by unfold stmHdr; rw [h1.hmode, h1.hcycle, h1.hdiv, h1.hrep]⟩
  intro idx hidx
  unfold Obs.drivesAt
  rw [h1.hmode, h2.hmode]
  simp only [if_true]
  congr 1
  apply gainDrives_congr
  · rw [e1.numTr, e2.numTr]; exact hp.1
  · rw [stmMem_size w1, stmMem_size w2]
  · intro i hi
    rw [e1.numTr] at hi
    rw [h1.rows idx hidx i hi, h2.rows idx hidx i (by rw [← hp.1]; exact hi)]
  · intro i hi
    rw [e1.numTr] at hi
    rw [phaseCorrAt_stmSide e1, phaseCorrAt_stmSide e2]
    exact phaseCorrAt_of_same hp i hi

theorem foci_pair {s1 s2 s1' s2' : State} {seg : Nat} {tr : Tr} {rep div ss n : Nat} {records : Array Nat} {P : Nat}
    (h1 : FociHeld s1 s1' seg tr rep div ss n records P) (h2 : FociHeld s2 s2' seg tr rep div ss n records P)
    (w1 : WF s1') (w2 : WF s2') (e1 : StmSide s1 s1') (e2 : StmSide s2 s2') (hp : PhaseSame s1 s2) :
    (∀ idx, idx < P → Obs.drivesAt s1' seg idx = Obs.drivesAt s2' seg idx) ∧
    (∀ k, k < P * n → stmRecord (Obs.stmMem s1' seg) k = stmRecord (Obs.stmMem s2' seg) k) ∧
    stmHdr s1' seg = stmHdr s2' seg ∧ stmHdr s1' seg = (false, P, div, rep) ∧
    Obs.numFoci s1' seg = Obs.numFoci s2' seg ∧ Obs.soundSpeed s1' seg = Obs.soundSpeed s2' seg := by
  refine ⟨?_, fun k hk => by rw [h1.recs k hk, h2.recs k hk],
    by unfold stmHdr; rw [h1.hmode, h1.hcycle, h1.hdiv, h1.hrep, h2.hmode, h2.hcycle, h2.hdiv, h2.hrep],
    by unfold stmHdr; rw [h1.hmode, h1.hcycle, h1.hdiv, h1.hrep], by rw [h1.hnf, h2.hnf], by rw [h1.hss, h2.hss]⟩
  intro idx hidx
  apply fociDrivesAt_congr
  · rw [e1.numTr, e2.numTr]; exact hp.1
  · exact h1.hmode
  · exact h2.hmode
  · rw [stmMem_size w1, stmMem_size w2]
  · rw [h1.hss, h2.hss]
  · rw [h1.hnf, h2.hnf]
  · intro i hi
    rw [e1.numTr] at hi
    rw [phaseCorrAt_stmSide e1, phaseCorrAt_stmSide e2]
    exact phaseCorrAt_of_same hp i hi
  · intro i hi
    rw [h2.hnf] at hi ⊢
    have hk : idx * n + i < P * n := by
      have : (idx + 1) * n ≤ P * n := Nat.mul_le_mul_right n hidx
      rw [Nat.succ_mul] at this
      omega
    rw [h1.recs _ hk, h2.recs _ hk]

end Autd3.Hist
