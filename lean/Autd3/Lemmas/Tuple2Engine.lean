import Autd3.Lemmas.Tuple2Proto
import Autd3.Lemmas.TupleSend
/-!
General tuples, part 2: the pair-loop engine.  For two chunk protocols `P1`, `P2` (`Tuple2Proto.lean`) whose
handler footprints are harmless to each other, the send loop of the pair (`Rt.sendLoop2`: `pack_op2`, `ecat_recv`
with both slots) is accepted frame by frame and ends with BOTH protocols' `Done` facts — whatever the interleaving
of the two operations' chunks and whatever the slot-2 capacities are.  Also the same for a single operation
(`Rt.sendLoop`).
-/
open Autd3 Autd3.Fw Autd3.Wire Autd3.Gen.Cpu Autd3.Gen Autd3.Rt
namespace Autd3.Tuple2

theorem extract_all (b : Array Nat) (h : b.size = 622) : b.extract 0 622 = b := by
  rw [← h]; simp

theorem pre_lastMsgId (s : State) (id : Nat) : (pre s id).lastMsgId = id := by
  obtain ⟨r, hr⟩ := pre_eq s id; rw [hr]
theorem pre_numTr (s : State) (id : Nat) : (pre s id).numTr = s.numTr := by
  obtain ⟨r, hr⟩ := pre_eq s id; rw [hr]

theorem fresh_next (s1 : State) (t : Tx) (k : Nat) (b : Array Nat) (h : s1.lastMsgId = nextId t) :
    Fresh (fin s1 (nextId t)) { msgId := nextId t, slot2 := k, payload := b } := by
  show s1.lastMsgId ≠ nextId _
  rw [h]; exact (nextId_ne { msgId := nextId t, slot2 := k, payload := b } (nextId_lt t)).symm

/-- `CTL_FLAG` holds the CPU's flag word (what every accepted frame leaves: `fin`) -/
def Settled (s : State) : Prop := reg s ADDR_CTL_FLAG = s.flagsInternal % 65536

theorem Settled_fin (y : State) (id : Nat) (h : y.ctl.size = 256) : Settled (fin y id) := reg_fin_zero y id h

/-! ### one frame of the pair loop -/

theorem packOp_eq (o : Op) (n : Nat) (t : Tx) (o' : Op) (b : Array Nat) (sz : Nat)
    (hp : o.pack n t.payload 0 = .ok (o', b, sz)) :
    packOp o n t = .ok (o', { msgId := nextId t, slot2 := 0, payload := b }, sz) := by
  unfold packOp; simp only []; rw [hp]; rfl

/-- a frame that carries the first operation only (the second is done or does not fit behind it) -/
theorem sendLoop2_only1 (fuel : Nat) (o1 o2 : Op) (s : State) (t : Tx) (hf : Fresh s t) (hnd1 : o1.done = false)
    (o1' : Op) (b : Array Nat) (sz : Nat) (hp : o1.pack s.numTr t.payload 0 = .ok (o1', b, sz))
    (h2 : o2.done = true ∨ (o2.done = false ∧ ¬ b.size - sz ≥ o2.required s.numTr))
    (s1 : State) (hh : handlePayload (pre s (nextId t)) b = .ok (s1, NO_ERR)) :
    sendLoop2 (fuel + 1) o1 o2 s t =
      sendLoop2 fuel o1' o2 (fin s1 (nextId t)) { msgId := nextId t, slot2 := 0, payload := b } := by
  have hpk := packOp_eq o1 s.numTr t o1' b sz hp
  have hpk2 : packOp2 o1 o2 s.numTr t = .ok (o1', o2, { msgId := nextId t, slot2 := 0, payload := b }) := by
    rcases h2 with h2 | ⟨h2, hfit⟩
    · rw [Tuple.packOp2_second_done o1 o2 _ t hnd1 h2, hpk]
    · exact Tuple.packOp2_nofit o1 o2 _ t hnd1 h2 o1' _ sz hpk hfit
  have hrecv := ecatRecv_single s { msgId := nextId t, slot2 := 0, payload := b } (nextId_lt t) rfl hf s1 hh
  conv => lhs; unfold sendLoop2
  simp only [hnd1, Bool.false_and, Bool.false_eq_true, if_false, hpk2, hrecv]
  simp [fin]

/-- a frame that carries the second operation only (the first is done) -/
theorem sendLoop2_only2 (fuel : Nat) (o1 o2 : Op) (s : State) (t : Tx) (hf : Fresh s t) (hd1 : o1.done = true)
    (hnd2 : o2.done = false) (o2' : Op) (b : Array Nat) (sz : Nat)
    (hp : o2.pack s.numTr t.payload 0 = .ok (o2', b, sz))
    (s1 : State) (hh : handlePayload (pre s (nextId t)) b = .ok (s1, NO_ERR)) :
    sendLoop2 (fuel + 1) o1 o2 s t =
      sendLoop2 fuel o1 o2' (fin s1 (nextId t)) { msgId := nextId t, slot2 := 0, payload := b } := by
  have hpk := packOp_eq o2 s.numTr t o2' b sz hp
  have hpk2 : packOp2 o1 o2 s.numTr t = .ok (o1, o2', { msgId := nextId t, slot2 := 0, payload := b }) := by
    rw [Tuple.packOp2_first_done o1 o2 _ t hd1 hnd2, hpk]
  have hrecv := ecatRecv_single s { msgId := nextId t, slot2 := 0, payload := b } (nextId_lt t) rfl hf s1 hh
  conv => lhs; unfold sendLoop2
  simp only [hd1, hnd2, Bool.true_and, Bool.false_eq_true, if_false, hpk2, hrecv]
  simp [fin]

/-! ### transport of protocol facts along the per-frame bookkeeping -/

section
variable {P : Proto} (L : P.Laws)
include L

theorem Post_pre {b s : State} {c : Nat} (h : P.Post b s c) (id : Nat) : P.Post b (pre s id) c := by
  obtain ⟨r, hr⟩ := pre_eq s id
  rw [hr]; exact Proto.Post_io L h s.ack id r

theorem Post_ack {b s : State} {c : Nat} (h : P.Post b s c) (a : Nat) : P.Post b { s with ack := a } c :=
  Proto.Post_io L h a s.lastMsgId s.rxData

theorem ownT_pre (s : State) (id : Nat) : P.OwnT s (pre s id) := by
  obtain ⟨r, hr⟩ := pre_eq s id
  rw [hr]; exact L.io_ownT s s.ack id r

theorem ownT_ack (s : State) (a : Nat) : P.OwnT s { s with ack := a } := L.io_ownT s a s.lastMsgId s.rxData

/-- the precondition of the next frame's handler (called on `pre s id`) from the invariant after the last frame -/
theorem Pre_of_Post {b s : State} {c : Nat} (h : P.Post b s c) (h0 : 0 < c) (hc : c < P.total) (id : Nat) :
    P.Pre b (pre s id) c := Proto.Post_Pre (Post_pre L h id) h0 hc

/-- a whole frame in which the OTHER protocol's handler `x ↦ y` runs between `pre` and `fin` -/
theorem Post_frame {b s y : State} {c : Nat} (h : P.Post b s c) (id : Nat) (ho : P.Other (pre s id) y) (hw : WF y) :
    P.Post b (fin y id) c := Proto.Post_fin L (Proto.Post_other L (Post_pre L h id) ho hw) id
end

/-! ### the invariant of the pair loop -/

structure PairInv (P1 P2 : Proto) (Rel : State → State → Prop) (b1 s0 : State) (c1 c2 : Nat) (s : State) (t : Tx) :
    Prop where
  wf : WF s
  c1le : c1 ≤ P1.total
  c2le : c2 ≤ P2.total
  tx : TxOK t
  fresh : Fresh s t
  rel : Rel s0 s
  j1 : (c1 = 0 ∧ b1 = pre s (nextId t) ∧ P1.Ready b1) ∨ (0 < c1 ∧ P1.Post b1 s c1)
  j2 : (c2 = 0 ∧ (c1 = 0 ∨ P1.OwnT b1 s)) ∨ (0 < c2 ∧ ∃ b2, P1.OwnT b1 b2 ∧ P2.Ready b2 ∧ P2.Post b2 s c2)
  settled : (c1 = 0 ∧ c2 = 0) ∨ Settled s

/-- what the engine needs of the pair -/
structure Compat (P1 P2 : Proto) (Rel : State → State → Prop) : Prop where
  l1 : P1.Laws
  l2 : P2.Laws
  o12 : ∀ a b, P1.Own a b → P2.Other a b
  o21 : ∀ a b, P2.Own a b → P1.Other a b
  refl : ∀ s, Rel s s
  trans : ∀ a b c, Rel a b → Rel b c → Rel a c
  r1 : ∀ a b, P1.OwnT a b → Rel a b
  r2 : ∀ a b, P2.OwnT a b → Rel a b


section
variable {P1 P2 : Proto} {Rel : State → State → Prop} (C : Compat P1 P2 Rel)
include C

/-- the first operation's handler precondition at the start of a frame -/
theorem pre1_of_inv {b1 s0 s : State} {c1 c2 : Nat} {t : Tx} (hI : PairInv P1 P2 Rel b1 s0 c1 c2 s t)
    (hc : c1 < P1.total) : P1.Pre b1 (pre s (nextId t)) c1 := by
  rcases hI.j1 with ⟨h0, hb, hr⟩ | ⟨h0, hp⟩
  · unfold Proto.Pre; rw [if_pos h0]; exact ⟨hb, hb ▸ hr⟩
  · exact Pre_of_Post C.l1 hp h0 hc _

/-- `OwnT b1` reaches the result of the first operation's handler in this frame -/
theorem ownT1_of_inv {b1 s0 s s1 : State} {c1 c2 : Nat} {t : Tx} (hI : PairInv P1 P2 Rel b1 s0 c1 c2 s t)
    (h20 : c2 = 0) (hown : P1.Own (pre s (nextId t)) s1) : P1.OwnT b1 s1 := by
  rcases hI.j1 with ⟨h0, hb, _⟩ | ⟨h0, _⟩
  · rw [hb]; exact C.l1.own_ownT _ _ hown
  · rcases hI.j2 with ⟨_, h | h⟩ | ⟨h, _⟩
    · omega
    · exact C.l1.ownT_trans _ _ _ h (C.l1.ownT_trans _ _ _ (ownT_pre C.l1 s _) (C.l1.own_ownT _ _ hown))
    · omega

/-- one frame of the pair loop: the loop advances to a state that satisfies the invariant again, with strictly
more of the two operations sent -/
theorem pair_frame {b1 : State}
    (hR2 : ∀ x c1, 0 < c1 → c1 ≤ P1.total → P1.Post b1 x c1 → P1.OwnT b1 x → P2.Ready x)
    {s0 s : State} {c1 c2 : Nat} {t : Tx} (hI : PairInv P1 P2 Rel b1 s0 c1 c2 s t)
    (hnd : c1 < P1.total ∨ c2 < P2.total) :
    ∃ c1' c2' s' t', (∀ fuel, sendLoop2 (fuel + 1) (P1.opAt c1) (P2.opAt c2) s t =
        sendLoop2 fuel (P1.opAt c1') (P2.opAt c2') s' t') ∧ PairInv P1 P2 Rel b1 s0 c1' c2' s' t' ∧
      (P1.total - c1') + (P2.total - c2') < (P1.total - c1) + (P2.total - c2) := by
  have L1 := C.l1
  have L2 := C.l2
  have hnt : s.numTr ≤ 249 := hI.wf.numTr
  have htx : t.payload.size = 622 := hI.tx
  have d1 : ∀ c, c ≤ P1.total → c ≠ P1.total → (P1.opAt c).done = false := by
    intro c hc hne
    cases h : (P1.opAt c).done
    · rfl
    · exact absurd ((L1.done_iff c hc).1 h) hne
  have d2 : ∀ c, c ≤ P2.total → c ≠ P2.total → (P2.opAt c).done = false := by
    intro c hc hne
    cases h : (P2.opAt c).done
    · rfl
    · exact absurd ((L2.done_iff c hc).1 h) hne
  by_cases h1 : c1 < P1.total
  · -- the first operation is pending: it goes into slot 1
    obtain ⟨c1', b1', sz1, hp1, hlt1, hle1, hk1, hev1, hpos1, hfit1, hH1⟩ :=
      L1.step c1 s.numTr t.payload 0 h1 hnt htx (by decide) (by have := L1.fits c1 s.numTr h1 hnt; omega)
    have hb1' : b1'.size = 622 := by rw [hk1.1]; exact htx
    have hPre1 := pre1_of_inv C hI h1
    by_cases hroom : c2 < P2.total ∧ b1'.size - sz1 ≥ (P2.opAt c2).required s.numTr
    · -- the second operation is pending and fits behind: two slots
      obtain ⟨h2, hroom⟩ := hroom
      rw [hb1'] at hroom
      obtain ⟨c2', b2', sz2, hp2, hlt2, hle2, hk2, hev2, hpos2, hfit2, hH2⟩ :=
        L2.step c2 s.numTr b1' sz1 h2 hnt hb1' hev1 (by omega)
      have hb2' : b2'.size = 622 := by rw [hk2.1]; exact hb1'
      -- slot 1
      obtain ⟨s1, hh1, hl1, hPost1, hOwn1⟩ := hH1 b1 (pre s (nextId t)) hPre1 (pre_numTr s _) b2' hb2'
        (fun i _ hi => hk2.2 i (by omega))
      rw [extract_all b2' hb2'] at hh1
      have hW1 : WF s1 := Proto.Post_wf L1 hPost1
      have hn1 : s1.numTr = s.numTr := by
        rw [L1.ownT_numTr _ _ (L1.own_ownT _ _ hOwn1), pre_numTr]
      -- slot 2, called on `x`
      have hPre2 : ∃ b2, P1.OwnT b1 b2 ∧ P2.Ready b2 ∧ P2.Pre b2 { s1 with ack := NO_ERR } c2 := by
        rcases hI.j2 with ⟨h20, _⟩ | ⟨h20, b2, hb2, hr2, hp⟩
        · have hown := L1.ownT_trans _ _ _ (ownT1_of_inv C hI h20 hOwn1) (ownT_ack L1 s1 NO_ERR)
          have hrdy := hR2 _ c1' (by omega) hle1 (Post_ack L1 hPost1 NO_ERR) hown
          refine ⟨{ s1 with ack := NO_ERR }, hown, hrdy, ?_⟩
          unfold Proto.Pre; rw [if_pos h20]
          exact ⟨rfl, hrdy⟩
        · refine ⟨b2, hb2, hr2, ?_⟩
          have := Proto.Post_other L2 (Post_pre L2 hp (nextId t)) (C.o12 _ _ hOwn1) hW1
          exact Proto.Post_Pre (Post_ack L2 this NO_ERR) h20 h2
      obtain ⟨b2, hb2, hr2, hPre2⟩ := hPre2
      obtain ⟨s2, hh2, hl2, hPost2, hOwn2⟩ := hH2 b2 { s1 with ack := NO_ERR } hPre2 hn1 b2' hb2' (fun _ _ _ => rfl)
      have hW2 : WF s2 := Proto.Post_wf L2 hPost2
      refine ⟨c1', c2', fin s2 (nextId t), { msgId := nextId t, slot2 := sz1, payload := b2' }, ?_, ?_, by omega⟩
      · intro fuel
        exact sendLoop2_first fuel _ _ s t hI.fresh (d1 c1 hI.c1le (by omega)) (d2 c2 hI.c2le (by omega)) _ b1' sz1 hp1 hb1'
          hroom hpos1 (by omega) _ b2' sz2 hp2 hb2' s1 s2 hh1 hh2
      · have hPost1' : P1.Post b1 (fin s2 (nextId t)) c1' :=
          Proto.Post_fin L1 (Proto.Post_other L1 (Post_ack L1 hPost1 NO_ERR) (C.o21 _ _ hOwn2) hW2) _
        have hrel : Rel s (fin s2 (nextId t)) := by
          refine C.trans _ _ _ (C.r1 _ _ (ownT_pre L1 s (nextId t))) ?_
          refine C.trans _ _ _ (C.r1 _ _ (L1.own_ownT _ _ hOwn1)) ?_
          refine C.trans _ _ _ (C.r1 _ _ (ownT_ack L1 s1 NO_ERR)) ?_
          refine C.trans _ _ _ (C.r2 _ _ (L2.own_ownT _ _ hOwn2)) ?_
          exact C.r2 _ _ (L2.fin_ownT s2 _ hW2.ctl)
        refine ⟨WF_fin hW2 _, hle1, hle2, hb2', ?_, C.trans _ _ _ hI.rel hrel, Or.inr ⟨by omega, hPost1'⟩,
          Or.inr ⟨by omega, b2, hb2, hr2, Proto.Post_fin L2 hPost2 _⟩, Or.inr (Settled_fin s2 _ hW2.ctl)⟩
        exact fresh_next s2 t sz1 b2' (by rw [hl2]; show s1.lastMsgId = _; rw [hl1, pre_lastMsgId])
    · -- the first operation alone
      obtain ⟨s1, hh1, hl1, hPost1, hOwn1⟩ := hH1 b1 (pre s (nextId t)) hPre1 (pre_numTr s _) b1' hb1' (fun _ _ _ => rfl)
      rw [extract_all b1' hb1'] at hh1
      have hW1 : WF s1 := Proto.Post_wf L1 hPost1
      have h2' : (P2.opAt c2).done = true ∨ ((P2.opAt c2).done = false ∧ ¬ b1'.size - sz1 ≥ (P2.opAt c2).required s.numTr) := by
        by_cases h2 : c2 < P2.total
        · exact Or.inr ⟨d2 c2 hI.c2le (by omega), fun hh => hroom ⟨h2, hh⟩⟩
        · exact Or.inl ((L2.done_iff c2 hI.c2le).2 (by have := hI.c2le; omega))
      refine ⟨c1', c2, fin s1 (nextId t), { msgId := nextId t, slot2 := 0, payload := b1' }, ?_, ?_, by omega⟩
      · intro fuel
        exact sendLoop2_only1 fuel _ _ s t hI.fresh (d1 c1 hI.c1le (by omega)) _ b1' sz1 hp1 h2' s1 hh1
      · have hrel : Rel s (fin s1 (nextId t)) := by
          refine C.trans _ _ _ (C.r1 _ _ (ownT_pre L1 s (nextId t))) ?_
          refine C.trans _ _ _ (C.r1 _ _ (L1.own_ownT _ _ hOwn1)) ?_
          exact C.r1 _ _ (L1.fin_ownT s1 _ hW1.ctl)
        refine ⟨WF_fin hW1 _, hle1, hI.c2le, hb1', ?_, C.trans _ _ _ hI.rel hrel,
          Or.inr ⟨by omega, Proto.Post_fin L1 hPost1 _⟩, ?_, Or.inr (Settled_fin s1 _ hW1.ctl)⟩
        · exact fresh_next s1 t 0 b1' (by rw [hl1, pre_lastMsgId])
        · rcases hI.j2 with ⟨h20, _⟩ | ⟨h20, b2, hb2, hr2, hp⟩
          · exact Or.inl ⟨h20, Or.inr (L1.ownT_trans _ _ _ (ownT1_of_inv C hI h20 hOwn1) (L1.fin_ownT s1 _ hW1.ctl))⟩
          · exact Or.inr ⟨h20, b2, hb2, hr2, Post_frame L2 hp _ (C.o12 _ _ hOwn1) hW1⟩
  · -- the first operation is done: the second goes into slot 1
    have h2 : c2 < P2.total := by omega
    have e1 : c1 = P1.total := by have := hI.c1le; omega
    have hDone1 : P1.Post b1 s c1 := by
      rcases hI.j1 with ⟨h0, _⟩ | ⟨_, hp⟩
      · have := L1.total_pos; omega
      · exact hp
    obtain ⟨c2', b2', sz2, hp2, hlt2, hle2, hk2, hev2, hpos2, hfit2, hH2⟩ :=
      L2.step c2 s.numTr t.payload 0 h2 hnt htx (by decide) (by have := L2.fits c2 s.numTr h2 hnt; omega)
    have hb2' : b2'.size = 622 := by rw [hk2.1]; exact htx
    have hPre2 : ∃ b2, P1.OwnT b1 b2 ∧ P2.Ready b2 ∧ P2.Pre b2 (pre s (nextId t)) c2 := by
      rcases hI.j2 with ⟨h20, h⟩ | ⟨h20, b2, hb2, hr2, hp⟩
      · have hown : P1.OwnT b1 s := by
          rcases h with h | h
          · have := L1.total_pos; omega
          · exact h
        have hown' := L1.ownT_trans _ _ _ hown (ownT_pre L1 s (nextId t))
        have hrdy := hR2 _ c1 (by have := L1.total_pos; omega) hI.c1le (Post_pre L1 hDone1 _) hown'
        refine ⟨pre s (nextId t), hown', hrdy, ?_⟩
        unfold Proto.Pre; rw [if_pos h20]
        exact ⟨rfl, hrdy⟩
      · exact ⟨b2, hb2, hr2, Pre_of_Post L2 hp h20 h2 _⟩
    obtain ⟨b2, hb2, hr2, hPre2⟩ := hPre2
    obtain ⟨s2, hh2, hl2, hPost2, hOwn2⟩ := hH2 b2 (pre s (nextId t)) hPre2 (pre_numTr s _) b2' hb2' (fun _ _ _ => rfl)
    rw [extract_all b2' hb2'] at hh2
    have hW2 : WF s2 := Proto.Post_wf L2 hPost2
    refine ⟨c1, c2', fin s2 (nextId t), { msgId := nextId t, slot2 := 0, payload := b2' }, ?_, ?_, by omega⟩
    · intro fuel
      exact sendLoop2_only2 fuel _ _ s t hI.fresh ((L1.done_iff c1 hI.c1le).2 e1) (d2 c2 hI.c2le (by omega)) _ b2' sz2 hp2 s2 hh2
    · have hrel : Rel s (fin s2 (nextId t)) := by
        refine C.trans _ _ _ (C.r2 _ _ (ownT_pre L2 s (nextId t))) ?_
        refine C.trans _ _ _ (C.r2 _ _ (L2.own_ownT _ _ hOwn2)) ?_
        exact C.r2 _ _ (L2.fin_ownT s2 _ hW2.ctl)
      refine ⟨WF_fin hW2 _, hI.c1le, hle2, hb2', ?_, C.trans _ _ _ hI.rel hrel,
        Or.inr ⟨by have := L1.total_pos; omega, Post_frame L1 hDone1 _ (C.o21 _ _ hOwn2) hW2⟩,
        Or.inr ⟨by omega, b2, hb2, hr2, Proto.Post_fin L2 hPost2 _⟩, Or.inr (Settled_fin s2 _ hW2.ctl)⟩
      exact fresh_next s2 t 0 b2' (by rw [hl2, pre_lastMsgId])

end


/-- **the pair loop**: from any state of the two operations that satisfies the invariant, the loop is accepted
frame by frame and ends with both operations done and the invariant at `(total, total)` -/
theorem pair_loop {P1 P2 : Proto} {Rel : State → State → Prop} (C : Compat P1 P2 Rel) (b1 s0 : State)
    (hR2 : ∀ x c1, 0 < c1 → c1 ≤ P1.total → P1.Post b1 x c1 → P1.OwnT b1 x → P2.Ready x) :
    ∀ m c1 c2 s t, (P1.total - c1) + (P2.total - c2) ≤ m → PairInv P1 P2 Rel b1 s0 c1 c2 s t →
      ∃ t' f, sendLoop2 (m + 1) (P1.opAt c1) (P2.opAt c2) s t = some (t', f) ∧
        PairInv P1 P2 Rel b1 s0 P1.total P2.total f t' := by
  intro m
  induction m with
  | zero =>
    intro c1 c2 s t hm hI
    have e1 : c1 = P1.total := by have := hI.c1le; omega
    have e2 : c2 = P2.total := by have := hI.c2le; omega
    subst e1 e2
    refine ⟨t, s, ?_, hI⟩
    unfold sendLoop2
    rw [(C.l1.done_iff _ (Nat.le_refl _)).2 rfl, (C.l2.done_iff _ (Nat.le_refl _)).2 rfl]
    rfl
  | succ m ih =>
    intro c1 c2 s t hm hI
    by_cases hd : c1 = P1.total ∧ c2 = P2.total
    · obtain ⟨e1, e2⟩ := hd
      subst e1 e2
      refine ⟨t, s, ?_, hI⟩
      unfold sendLoop2
      rw [(C.l1.done_iff _ (Nat.le_refl _)).2 rfl, (C.l2.done_iff _ (Nat.le_refl _)).2 rfl]
      rfl
    · have hnd : c1 < P1.total ∨ c2 < P2.total := by
        have := hI.c1le; have := hI.c2le; omega
      obtain ⟨c1', c2', s', t', hstep, hI', hlt⟩ := pair_frame C hR2 hI hnd
      obtain ⟨t'', f, hrun, hF⟩ := ih c1' c2' s' t' (by omega) hI'
      exact ⟨t'', f, by rw [hstep]; exact hrun, hF⟩

/-- **tuple round trip**: the pair `(P1.dg, P2.dg)` sent from a well-formed state on whose `pre` state the first
protocol is ready, and such that the second is ready on every state the first can produce on its own: the tuple
is accepted and the device ends with `P1.Done` (relative to the state the first BEGIN handler saw) and `P2.Done`
(relative to the state `b2` the second BEGIN handler saw, which differs from the first one's only by steps of the
first protocol) -/
theorem pair_roundtrip' {P1 P2 : Proto} {Rel : State → State → Prop} (C : Compat P1 P2 Rel)
    (s : State) (t : Tx) (hW : WF s) (ht : TxOK t) (hf : Fresh s t)
    (hR1 : P1.Ready (pre s (nextId t)))
    (hR2 : ∀ x c1, 0 < c1 → c1 ≤ P1.total → P1.Post (pre s (nextId t)) x c1 → P1.OwnT (pre s (nextId t)) x → P2.Ready x) :
    ∃ t' f b2, Sends2 P1.dg P2.dg s t t' f ∧ WF f ∧ TxOK t' ∧ Fresh f t' ∧ Rel s f ∧
      P1.Done (pre s (nextId t)) f ∧ P1.OwnT (pre s (nextId t)) b2 ∧ P2.Done b2 f ∧ P2.Ready b2 ∧ Settled f := by
  have hI : PairInv P1 P2 Rel (pre s (nextId t)) s 0 0 s t :=
    ⟨hW, Nat.zero_le _, Nat.zero_le _, ht, hf, C.refl s, Or.inl ⟨rfl, rfl, hR1⟩, Or.inl ⟨rfl, Or.inl rfl⟩, Or.inl ⟨rfl, rfl⟩⟩
  obtain ⟨t', f, hrun, hF⟩ := pair_loop C (pre s (nextId t)) s hR2 (P1.total + P2.total) 0 0 s t (by omega) hI
  have hD1 : P1.Done (pre s (nextId t)) f := by
    rcases hF.j1 with ⟨h0, _⟩ | ⟨_, hp⟩
    · have := C.l1.total_pos; omega
    · unfold Proto.Post at hp; rw [if_neg (by omega)] at hp; exact hp
  have hD2 : ∃ b2, P1.OwnT (pre s (nextId t)) b2 ∧ P2.Done b2 f ∧ P2.Ready b2 := by
    rcases hF.j2 with ⟨h0, _⟩ | ⟨_, b2, hb2, hr2, hp⟩
    · have := C.l2.total_pos; omega
    · unfold Proto.Post at hp; rw [if_neg (by omega)] at hp; exact ⟨b2, hb2, hp, hr2⟩
  obtain ⟨b2, hb2, hD2, hr2⟩ := hD2
  refine ⟨t', f, b2, ⟨P1.total + P2.total + 1, ?_⟩, hF.wf, hF.tx, hF.fresh, hF.rel, hD1, hb2, hD2, hr2, ?_⟩
  · rw [← C.l1.op0, ← C.l2.op0]; exact hrun
  · rcases hF.settled with ⟨h0, _⟩ | h
    · have := C.l1.total_pos; omega
    · exact h


theorem pair_roundtrip {P1 P2 : Proto} {Rel : State → State → Prop} (C : Compat P1 P2 Rel)
    (s : State) (t : Tx) (hW : WF s) (ht : TxOK t) (hf : Fresh s t)
    (hR1 : P1.Ready (pre s (nextId t)))
    (hR2 : ∀ x c1, 0 < c1 → c1 ≤ P1.total → P1.Post (pre s (nextId t)) x c1 → P1.OwnT (pre s (nextId t)) x → P2.Ready x) :
    ∃ t' f b2, Sends2 P1.dg P2.dg s t t' f ∧ WF f ∧ TxOK t' ∧ Fresh f t' ∧ Rel s f ∧
      P1.Done (pre s (nextId t)) f ∧ P1.OwnT (pre s (nextId t)) b2 ∧ P2.Done b2 f ∧ P2.Ready b2 := by
  obtain ⟨t', f, b2, h1, h2, h3, h4, h5, h6, h7, h8, h9, _⟩ := pair_roundtrip' C s t hW ht hf hR1 hR2
  exact ⟨t', f, b2, h1, h2, h3, h4, h5, h6, h7, h8, h9⟩

/-! ### a single operation -/

theorem single_loop {P : Proto} (L : P.Laws) (b1 s0 : State) :
    ∀ m c s t, P.total - c ≤ m → c ≤ P.total → WF s → TxOK t → Fresh s t → P.OwnT s0 s →
      ((c = 0 ∧ b1 = pre s (nextId t) ∧ P.Ready b1) ∨ (0 < c ∧ P.Post b1 s c ∧ Settled s)) →
      ∃ t' f, sendLoop (m + 1) (P.opAt c) s t = some (t', f) ∧ WF f ∧ TxOK t' ∧ Fresh f t' ∧ P.OwnT s0 f ∧
        P.Done b1 f ∧ Settled f := by
  intro m
  induction m with
  | zero =>
    intro c s t hm hc hW ht hf ho hj
    have e : c = P.total := by omega
    subst e
    rcases hj with ⟨h0, _⟩ | ⟨_, hp, hs⟩
    · have := L.total_pos; omega
    · refine ⟨t, s, sendLoop_done _ _ _ _ ((L.done_iff _ (Nat.le_refl _)).2 rfl), hW, ht, hf, ho, ?_, hs⟩
      unfold Proto.Post at hp; rw [if_neg (by omega)] at hp; exact hp
  | succ m ih =>
    intro c s t hm hc hW ht hf ho hj
    by_cases e : c = P.total
    · subst e
      rcases hj with ⟨h0, _⟩ | ⟨_, hp, hs⟩
      · have := L.total_pos; omega
      · refine ⟨t, s, sendLoop_done _ _ _ _ ((L.done_iff _ (Nat.le_refl _)).2 rfl), hW, ht, hf, ho, ?_, hs⟩
        unfold Proto.Post at hp; rw [if_neg (by omega)] at hp; exact hp
    · have h1 : c < P.total := by omega
      have hnt : s.numTr ≤ 249 := hW.numTr
      have htx : t.payload.size = 622 := ht
      have hnd : (P.opAt c).done = false := by
        cases h : (P.opAt c).done
        · rfl
        · exact absurd ((L.done_iff c hc).1 h) e
      obtain ⟨c', b', sz, hp, hlt, hle, hk, hev, hpos, hfit, hH⟩ :=
        L.step c s.numTr t.payload 0 h1 hnt htx (by decide) (by have := L.fits c s.numTr h1 hnt; omega)
      have hb' : b'.size = 622 := by rw [hk.1]; exact htx
      have hPre : P.Pre b1 (pre s (nextId t)) c := by
        rcases hj with ⟨h0, hb, hr⟩ | ⟨h0, hp, _⟩
        · unfold Proto.Pre; rw [if_pos h0]; exact ⟨hb, hb ▸ hr⟩
        · exact Pre_of_Post L hp h0 h1 _
      obtain ⟨s1, hh, hl, hPost, hOwn⟩ := hH b1 (pre s (nextId t)) hPre (pre_numTr s _) b' hb' (fun _ _ _ => rfl)
      rw [extract_all b' hb'] at hh
      have hW1 : WF s1 := Proto.Post_wf L hPost
      have ho' : P.OwnT s0 (fin s1 (nextId t)) :=
        L.ownT_trans _ _ _ ho (L.ownT_trans _ _ _ (ownT_pre L s _) (L.ownT_trans _ _ _ (L.own_ownT _ _ hOwn)
          (L.fin_ownT s1 _ hW1.ctl)))
      obtain ⟨t', f, hrun, h⟩ := ih c' (fin s1 (nextId t)) { msgId := nextId t, slot2 := 0, payload := b' } (by omega) hle
        (WF_fin hW1 _) hb' (fresh_next s1 t 0 b' (by rw [hl, pre_lastMsgId])) ho'
        (Or.inr ⟨by omega, Proto.Post_fin L hPost _, Settled_fin s1 _ hW1.ctl⟩)
      exact ⟨t', f, by rw [sendLoop_step _ _ s t hnd _ b' sz hp hf s1 hh]; exact hrun, h⟩

/-- **single round trip through a protocol**: the datagram sent alone from a well-formed state on whose `pre`
state the protocol is ready is accepted and leaves `Done`; the final state is settled -/
theorem single_roundtrip' {P : Proto} (L : P.Laws) (s : State) (t : Tx) (hW : WF s) (ht : TxOK t) (hf : Fresh s t)
    (hR : P.Ready (pre s (nextId t))) :
    ∃ t' f, Sends P.dg s t t' f ∧ WF f ∧ TxOK t' ∧ Fresh f t' ∧ P.OwnT s f ∧ P.Done (pre s (nextId t)) f ∧ Settled f := by
  obtain ⟨t', f, hrun, h⟩ := single_loop L (pre s (nextId t)) s P.total 0 s t (by omega) (Nat.zero_le _) hW ht hf
    (L.ownT_refl s) (Or.inl ⟨rfl, rfl, hR⟩)
  exact ⟨t', f, ⟨P.total + 1, by rw [← L.op0]; exact hrun⟩, h⟩

theorem single_roundtrip {P : Proto} (L : P.Laws) (s : State) (t : Tx) (hW : WF s) (ht : TxOK t) (hf : Fresh s t)
    (hR : P.Ready (pre s (nextId t))) :
    ∃ t' f, Sends P.dg s t t' f ∧ WF f ∧ TxOK t' ∧ Fresh f t' ∧ P.OwnT s f ∧ P.Done (pre s (nextId t)) f := by
  obtain ⟨t', f, h1, h2, h3, h4, h5, h6, _⟩ := single_roundtrip' L s t hW ht hf hR
  exact ⟨t', f, h1, h2, h3, h4, h5, h6⟩

end Autd3.Tuple2
