import Autd3.Lemmas.Tuple2Gstm
import Autd3.Lemmas.Tuple2Obs
import Autd3.Lemmas.Hist7
/-!
General tuples, GainSTM instance, part C: two complete sends of the same GainSTM from bases that agree on the STM
side leave the same STM-side read-back (`gstmDone_obs`).
-/
set_option linter.unusedSimpArgs false
set_option linter.unusedVariables false
open Autd3 Autd3.Fw Autd3.Wire Autd3.Gen.Cpu Autd3.Gen Autd3.Rt
namespace Autd3.Tuple2

theorem gstmDone_obs (mode seg : Nat) (tr : Tr) (rep div : Nat) (patterns : Array (Array Nat)) {b b' f f' : State}
    (h : (gstmProto mode seg tr rep div patterns).Done b f) (h' : (gstmProto mode seg tr rep div patterns).Done b' f')
    (hb : KeepS b b') (hpc : f.phaseCorr = b.phaseCorr) (hpc' : f'.phaseCorr = b'.phaseCorr)
    (hnt : f.numTr = b.numTr) (hnt' : f'.numTr = b'.numTr) : StmObsEq f f' := by
  have h : GDone mode seg tr rep div patterns b f := h
  have h' : GDone mode seg tr rep div patterns b' f' := h'
  have hseg := h.hseg
  have h1 : 1 - seg ≤ 1 := by omega
  obtain ⟨em, eg, ereq, etr, _, _⟩ := obs_stm_same (StmSame_of_KeepS hb)
  obtain ⟨g1, g2, g3, g4, g5, g6, _⟩ := eg (1 - seg) h1
  obtain ⟨s1, s2, s3, s4, s5, s6, _⟩ := eg seg hseg
  obtain ⟨o1, o2, o3, o4⟩ := h.held.otherRegs
  obtain ⟨o1', o2', o3', o4'⟩ := h'.held.otherRegs
  have q1 : Obs.stmCycle f' (1 - seg) = Obs.stmCycle f (1 - seg) := by rw [o3', o3, g1]
  have q2 : Obs.stmDiv f' (1 - seg) = Obs.stmDiv f (1 - seg) := by rw [o1', o1, g2]
  have q3 : Obs.stmRep f' (1 - seg) = Obs.stmRep f (1 - seg) := by rw [o2', o2, g3]
  have q4 : Obs.isStmGainMode f' (1 - seg) = Obs.isStmGainMode f (1 - seg) := by rw [o4', o4, g4]
  have fo := gstmProto_done_foci mode seg tr rep div patterns h
  have fo' := gstmProto_done_foci mode seg tr rep div patterns h'
  have q5 : ∀ g, g ≤ 1 → Obs.soundSpeed f' g = Obs.soundSpeed f g ∧ Obs.numFoci f' g = Obs.numFoci f g := by
    intro g hg
    obtain ⟨x1, x2, x3, x4, x5, x6, _⟩ := eg g hg
    exact ⟨by rw [(fo' g hg).1, (fo g hg).1, x5], by rw [(fo' g hg).2, (fo g hg).2, x6]⟩
  have qm : Obs.stmMem f' (1 - seg) = Obs.stmMem f (1 - seg) := by rw [h'.held.otherMem, h.held.otherMem, em]
  have qn : f'.numTr = f.numTr := by rw [h'.numTr, h.numTr, hb.numTr]
  have qp : f'.phaseCorr = f.phaseCorr := by rw [hpc', hpc, hb.phaseCorr]
  have cases2 : ∀ g, g ≤ 1 → g = seg ∨ g = 1 - seg := by intro g hg; omega
  refine ⟨?_, q5, ?_, ?_, ?_, ?_⟩
  · intro g hg
    rcases cases2 g hg with hg | hg <;> subst hg
    · exact ⟨by rw [h'.held.hmode, h.held.hmode], by rw [h'.held.hcycle, h.held.hcycle],
        by rw [h'.held.hdiv, h.held.hdiv], by rw [h'.held.hrep, h.held.hrep]⟩
    · exact ⟨q4, q1, q2, q3⟩
  · intro g hg idx hidx
    rcases cases2 g hg with hg | hg <;> subst hg
    · rw [h.held.hcycle] at hidx
      unfold Obs.drivesAt
      rw [h'.held.hmode, h.held.hmode]
      simp only [if_true]
      congr 1
      apply Hist.gainDrives_congr
      · exact qn
      · rw [stmMem_size h'.wf, stmMem_size h.wf]
      · intro i hi
        rw [h'.numTr] at hi
        rw [h'.held.rows idx hidx i hi, h.held.rows idx hidx i (by rw [← hb.numTr]; exact hi)]
      · intro i _; unfold Obs.phaseCorrAt; rw [qp]
    · exact Hist.drivesAt_seg_congr f f' (1 - seg) qm q4 qp qn (fun _ => q5 _ h1) idx
  · have r := h.held.req
    have r' := h'.held.req
    rcases tr with _ | ⟨m, v⟩
    · rw [r'.2.1, r.2.1, ereq]
    · rw [r'.1, r.1]
  · have r := h.held.req
    have r' := h'.held.req
    rcases tr with _ | ⟨m, v⟩
    · rw [r'.2.2, r.2.2, etr]
    · rw [r'.2.1, r.2.1]
  · have r := h.held.req
    have r' := h'.held.req
    rcases tr with _ | ⟨m, v⟩
    · rw [r'.1, r.1, hb.swap]
    · have a := h.swapDet m v rfl
      have a' := h'.swapDet m v rfl
      rw [hb.swap, hb.time, a] at a'
      injection a' with a'
      exact a'.symm

end Autd3.Tuple2
