import Autd3.Lemmas.Tuple2Proto
/-!
General tuples, Modulation, part A: the FOLLOWING modulation frame packed at offset `k`
(`pack_mod_next_at`, `modNextAt_payload`), transfer of byte reads between two buffers that agree on
`[k, k+sz)`, and the frame fact that the copy / END parts of `write_mod` never touch the CPU latches
`modDiv` / `modSegment` (`modTail_footL`, a `Foot` with the finer eraser `eraseML`).
-/
open Autd3 Autd3.Fw Autd3.Wire Autd3.Gen.Cpu Autd3.Gen Autd3.Rt
namespace Autd3.Tuple2

/-- a following modulation frame packed at offset `k` -/
def modNextPayloadAt (b samples : Array Nat) (k c sendNum flag : Nat) : Array Nat :=
  put16 (put8 (put8 (putBytes b (k + 4) samples c sendNum) (k + 0) Drv.TAG_Modulation) (k + 1) flag) (k + 2) sendNum

theorem pack_mod_next_at (seg : Nat) (tr : Tr) (rep div : Nat) (samples : Array Nat) (nt : Nat) (b : Array Nat) (k c : Nat)
    (hb : b.size = 622) (hk : k + 6 ≤ 622) (hc0 : 0 < c) (hcn : c < samples.size) (hn : samples.size ≤ 65536)
    (hn2 : 2 ≤ samples.size) :
    ({ dg := .modulation seg tr rep div samples, sent := c, done := false } : Op).pack nt b k =
      .ok ({ dg := .modulation seg tr rep div samples, sent := c + min (samples.size - c) (618 - k),
             done := decide (samples.size - c ≤ 618 - k) },
        modNextPayloadAt b samples k c (min (samples.size - c) (618 - k))
          (modFlagByte false (decide (samples.size - c ≤ 618 - k)) seg tr.isSome),
        4 + ((min (samples.size - c) (618 - k) + 1) / 2) * 2) := by
  unfold Op.pack modNextPayloadAt
  have hc' : ¬ c = 0 := by omega
  have h0 : ¬ (samples.size < Drv.MOD_BUF_SIZE_MIN ∨ samples.size > Drv.MOD_BUF_SIZE_MAX) := by
    simp only [Drv.MOD_BUF_SIZE_MIN, Drv.MOD_BUF_SIZE_MAX]; omega
  simp only [hb, DrvLayout.ModulationSubseq_size, hc', if_false, h0]
  have h1 : 622 - k - 4 = 618 - k := by omega
  rw [h1]
  generalize hM : 618 - k = M
  by_cases hl : samples.size - c ≤ M
  · have e : samples.size = c + min (samples.size - c) M := by omega
    simp only [← e, hl, decide_true, if_true, Bool.false_or]
    by_cases hs : seg = 1 <;> cases tr <;>
      simp [hs, modFlagByte, Drv.ModulationControlFlags_SEGMENT,
        Drv.ModulationControlFlags_NONE, Drv.ModulationControlFlags_END, Drv.ModulationControlFlags_TRANSITION,
        DrvLayout.ModulationSubseq_tag_off, DrvLayout.ModulationSubseq_flag_off, DrvLayout.ModulationSubseq_size_off]
  · have e : ¬ samples.size = c + min (samples.size - c) M := by omega
    simp only [e, hl, decide_false, if_false, Bool.false_or]
    by_cases hs : seg = 1 <;>
      simp [hs, modFlagByte, Drv.ModulationControlFlags_SEGMENT, Drv.ModulationControlFlags_NONE,
        DrvLayout.ModulationSubseq_tag_off, DrvLayout.ModulationSubseq_flag_off, DrvLayout.ModulationSubseq_size_off]

/-- what the firmware reads from `payload[k..]` of that frame -/
theorem modNextAt_payload (b samples : Array Nat) (k c sn flag : Nat) (hb : b.size = 622) (hsn : k + 4 + sn ≤ 622)
    (hf : flag < 256) :
    let d := (modNextPayloadAt b samples k c sn flag).extract k 622
    u8at d 0 = 16 ∧ u8at d 1 = flag ∧ u16at d 2 = sn ∧
      (∀ j, j < sn → u8at d (4 + j) = rd samples (c + j) % 256) ∧ (modNextPayloadAt b samples k c sn flag).size = 622 := by
  have hsz : (modNextPayloadAt b samples k c sn flag).size = 622 := by simpa [modNextPayloadAt] using hb
  have hx : (modNextPayloadAt b samples k c sn flag).extract k 622 =
      (modNextPayloadAt b samples k c sn flag).extract k (modNextPayloadAt b samples k c sn flag).size := by
    rw [hsz]
  simp only [hx, u8at_extract, u16at_extract]
  simp only [modNextPayloadAt]
  refine ⟨?_, ?_, ?_, ?_, by simpa using hb⟩
  · rw [u8at_put16, if_neg (by omega), if_neg (by omega), u8at_put8, if_neg (by omega), u8at_put8,
      if_pos ⟨rfl, by simp; omega⟩]; rfl
  · rw [u8at_put16, if_neg (by omega), if_neg (by omega), u8at_put8, if_pos ⟨rfl, by simp; omega⟩]; omega
  · rw [u16at_put16_same _ _ _ (by simp; omega)]; omega
  · intro j hj
    rw [u8at_put16, if_neg (by omega), if_neg (by omega), u8at_put8, if_neg (by omega), u8at_put8, if_neg (by omega),
      u8at_putBytes, if_pos (by omega), show k + (4 + j) - (k + 4) = j from by omega]

/-! ### two buffers that agree on `[k, k + sz)` -/

theorem agree_u8 {b' b'' : Array Nat} {k sz : Nat} (h1 : b'.size = 622) (h2 : b''.size = 622)
    (h : ∀ i, k ≤ i → i < k + sz → rd b'' i = rd b' i) (i : Nat) (hi : i < sz) :
    u8at (b''.extract k 622) i = u8at (b'.extract k 622) i := by
  have e1 : b'.extract k 622 = b'.extract k b'.size := by rw [h1]
  have e2 : b''.extract k 622 = b''.extract k b''.size := by rw [h2]
  rw [e1, e2, u8at_extract, u8at_extract]
  unfold u8at
  rw [h (k + i) (by omega) (by omega)]

theorem agree_u16 {b' b'' : Array Nat} {k sz : Nat} (h1 : b'.size = 622) (h2 : b''.size = 622)
    (h : ∀ i, k ≤ i → i < k + sz → rd b'' i = rd b' i) (i : Nat) (hi : i + 1 < sz) :
    u16at (b''.extract k 622) i = u16at (b'.extract k 622) i := by
  unfold u16at
  rw [agree_u8 h1 h2 h i (by omega), agree_u8 h1 h2 h (i + 1) hi]

theorem agree_u64 {b' b'' : Array Nat} {k sz : Nat} (h1 : b'.size = 622) (h2 : b''.size = 622)
    (h : ∀ i, k ≤ i → i < k + sz → rd b'' i = rd b' i) (i : Nat) (hi : i + 7 < sz) :
    u64at (b''.extract k 622) i = u64at (b'.extract k 622) i := by
  unfold u64at
  rw [agree_u16 h1 h2 h i (by omega), agree_u16 h1 h2 h (i + 2) (by omega), agree_u16 h1 h2 h (i + 4) (by omega),
    agree_u16 h1 h2 h (i + 6) (by omega)]

/-! ### the copy / END parts of `write_mod` keep the CPU latches `modDiv`, `modSegment` -/

/-- like `eraseM`, but the two latches the strict-silencer guard of the STM side reads are kept -/
def eraseML (s : State) : State :=
  { s with ack := 0, ctl := #[], modMem0 := #[], modMem1 := #[], modCycle := 0, modRep := (0, 0),
           modTrMode := 0, modTrValue := 0, modSwap := {} }

theorem ErCtl_ML : ErCtl eraseML := fun _ _ => rfl

theorem Foot.modDivL {T : Nat → Prop} {s0 s : State} (h : Foot eraseML T s0 s) : s.modDiv = s0.modDiv := by
  have := congrArg State.modDiv h.eq; exact this
theorem Foot.modSegmentL {T : Nat → Prop} {s0 s : State} (h : Foot eraseML T s0 s) : s.modSegment = s0.modSegment := by
  have := congrArg State.modSegment h.eq; exact this
theorem Foot.flagsL {T : Nat → Prop} {s0 s : State} (h : Foot eraseML T s0 s) : s.flagsInternal = s0.flagsInternal := by
  have := congrArg State.flagsInternal h.eq; exact this

theorem Leaves.mwL {T : Nat → Prop} {s0 : State} {s1 : State} {base : Nat} {ws : Array Nat}
    {f : State → M (State × Nat)} (h1 : Foot eraseML T s0 s1)
    (h : ∀ s2, Foot eraseML T s0 s2 → Leaves (Foot eraseML T) s0 (f s2)) :
    Leaves (Foot eraseML T) s0 (Fw.modWriteWords s1 base ws >>= f) :=
  Leaves.mww0 s1 base ws f (fun _ _ => h _ (Foot.tweak h1 rfl rfl))

theorem Foot.sawML {T : Nat → Prop} {s0 s1 x : State} (hc : s0.ctl.size = 256) (hfi : s0.flagsInternal % 256 = 0)
    (h1 : Foot eraseML T s0 s1) (hT : T 0) (hx : setAndWaitUpdate s1 CTL_FLAG_MOD_SET = .ok x) : Foot eraseML T s0 x := by
  obtain ⟨y, w, e⟩ := saw_mod_shape s1 x (by rw [h1.ctlsz, hc]) (by rw [Foot.flagsL h1]; exact hfi) hx
  rw [e]
  exact Foot.reg1 ErCtl_ML (Foot.tweak (s1 := { wr s1 ADDR_CTL_FLAG y with modSwap := w })
    (Foot.reg1 ErCtl_ML h1 _ _ hT) rfl rfl) _ _ hT

theorem Leaves.sawML {T : Nat → Prop} {s0 : State} {s1 : State} {f : State → M (State × Nat)}
    (hc : s0.ctl.size = 256) (hfi : s0.flagsInternal % 256 = 0) (h1 : Foot eraseML T s0 s1) (hT : T 0)
    (h : ∀ s2, Foot eraseML T s0 s2 → Leaves (Foot eraseML T) s0 (f s2)) :
    Leaves (Foot eraseML T) s0 (setAndWaitUpdate s1 CTL_FLAG_MOD_SET >>= f) :=
  Leaves.bind (fun x => Foot eraseML T s0 x) (fun _ hx => Foot.sawML hc hfi h1 hT hx) h

macro "cw_stepML" : tactic =>
  `(tactic| (refine Leaves.cw ErCtl_ML (by foot_tac) (by addr_tac) (by addr_tac) ?_; intro _ _))

theorem modSegmentUpdate_footL (s : State) (seg mode value : Nat) (hc : s.ctl.size = 256) (hfi : s.flagsInternal % 256 = 0) :
    Leaves (Foot eraseML TM) s (modSegmentUpdate s seg mode value) := by
  unfold modSegmentUpdate
  cw_stepML
  apply Leaves.ite <;> intro _
  · exact Leaves.pure (by foot_tac)
  cw_stepML
  refine Leaves.cww ErCtl_ML (by foot_tac) (by show ADDR_MOD_TRANSITION_VALUE_0 + 4 ≤ 256; decide) ?_ ?_
  · intro a h1 h2
    have : (u64Words value).size = 4 := rfl
    rw [this] at h2
    simp only [TM, ADDR_MOD_TRANSITION_VALUE_0] at h1 h2 ⊢; omega
  intro _ _
  refine Leaves.sawML hc hfi (by foot_tac) (by addr_tac) ?_; intro _ _
  exact Leaves.pure (by foot_tac)

theorem Leaves.msuL {s0 s1 : State} {seg mode value : Nat} (hc : s0.ctl.size = 256)
    (hfi : s0.flagsInternal % 256 = 0) (h1 : Foot eraseML TM s0 s1) :
    Leaves (Foot eraseML TM) s0 (modSegmentUpdate s1 seg mode value) :=
  Leaves.lift (fun _ h => h) h1 (modSegmentUpdate_footL s1 seg mode value (by rw [h1.ctlsz, hc])
    (by rw [Foot.flagsL h1]; exact hfi))

macro "walkML " hc:term ", " hfi:term : tactic =>
  `(tactic| repeat' (first
    | exact Leaves.error _
    | exact Leaves.error_bind _ _
    | exact Leaves.pure (by foot_tac)
    | exact Leaves.ok (by foot_tac)
    | exact Leaves.msuL $hc $hfi (by foot_tac)
    | (refine Leaves.cw ErCtl_ML (by foot_tac) (by addr_tac) (by addr_tac) ?_; intro _ _)
    | (refine Leaves.mwL (by foot_tac) ?_; intro _ _)
    | (refine Leaves.sawML $hc $hfi (by foot_tac) (by addr_tac) ?_; intro _ _)
    | (apply Leaves.ite <;> intro _)))

/-- the copy part and the END part of `write_mod` (every frame after the BEGIN header, whatever the payload):
the CPU latches `modDiv` / `modSegment` (and everything outside the modulation side) are kept -/
theorem modTail_footL {s0 s1 : State} (d : Array Nat) (off w flag seg : Nat) (hseg : seg ≤ 1) (hc : s0.ctl.size = 256)
    (hfi : s0.flagsInternal % 256 = 0) (h1 : Foot eraseML TM s0 s1) :
    Leaves (Foot eraseML TM) s0 (modDataPart s1 d off w >>= fun s2 => modEndPart s2 flag seg) := by
  have endp : ∀ s2, Foot eraseML TM s0 s2 → Leaves (Foot eraseML TM) s0 (modEndPart s2 flag seg) := by
    intro s2 h2
    unfold modEndPart
    simp only []
    walkML hc, hfi
  unfold modDataPart
  simp only []
  by_cases h : w < MOD_BUF_PAGE_SIZE - (s1.modCycle % 65536 &&& MOD_BUF_PAGE_SIZE_MASK)
  · simp only [h, if_true, bind_assoc, pure_bind]
    refine Leaves.mwL (by foot_tac) ?_; intro _ _
    exact endp _ (by foot_tac)
  · simp only [h, if_false, bind_assoc, pure_bind]
    refine Leaves.mwL (by foot_tac) ?_; intro _ _
    cw_stepML
    refine Leaves.mwL (by foot_tac) ?_; intro _ _
    exact endp _ (by foot_tac)

/-- the latches after the tail of a frame -/
theorem modTail_latch {s1 s2 : State} {a : Nat} (d : Array Nat) (off w flag seg : Nat) (hseg : seg ≤ 1)
    (hc : s1.ctl.size = 256) (hfi : s1.flagsInternal % 256 = 0)
    (h : (modDataPart s1 d off w >>= fun s2 => modEndPart s2 flag seg) = .ok (s2, a)) :
    s2.modDiv = s1.modDiv ∧ s2.modSegment = s1.modSegment := by
  have hf := modTail_footL d off w flag seg hseg hc hfi (Foot.refl eraseML TM s1) s2 a h
  exact ⟨Foot.modDivL hf, Foot.modSegmentL hf⟩

/-! ### the swap chain an accepted `mod_segment_update` leaves is `Swap.set` of the old one -/

/-- `mod_segment_update` for an accepted request, with the `Swap.set` witness (`modSegmentUpdate_ok` drops it) -/
theorem modSegmentUpdate_set (s : State) (hW : WF s) (seg mode value : Nat) (hseg : seg ≤ 1)
    (hv : ValidTr mode value) (hval : value < 18446744073709551616)
    (hmiss : ¬(mode = TRANSITION_MODE_SYS_TIME ∧ value < s.dcSysTime + SYS_TIME_TRANSITION_MARGIN)) :
    ∃ w, modSegmentUpdate s seg mode value = .ok (modReqPost s seg mode value w, NO_ERR) ∧
      s.modSwap.set s.dcSysTime (reg s (ADDR_MOD_REP0 + seg)) (reg s (ADDR_MOD_FREQ_DIV0 + seg))
        (reg s (ADDR_MOD_CYCLE0 + seg) + 1) seg (tmodeOf mode value) = .ok w := by
  have hm := ValidTr_lt hv
  have hc : s.ctl.size = 256 := hW.ctl
  have hWB : WF (wr (wr s ADDR_MOD_REQ_RD_SEGMENT seg) ADDR_MOD_TRANSITION_MODE mode) :=
    WF_wr (WF_wr hW _ _ (Or.inl (by decide))) _ _ (Or.inl (by decide))
  have hB : ∀ a, reg (wr (wr s ADDR_MOD_REQ_RD_SEGMENT seg) ADDR_MOD_TRANSITION_MODE mode) a =
      if a = 41 then mode else if a = 34 then seg else reg s a := by
    intro a
    simp only [reg_wr, wr_ctl, Array.size_setIfInBounds, hc, ADDR_MOD_REQ_RD_SEGMENT, ADDR_MOD_TRANSITION_MODE,
      Nat.mod_eq_of_lt (show mode < 65536 by omega), Nat.mod_eq_of_lt (show seg < 65536 by omega)]
    simp
  unfold modReqPost
  generalize hsB : wr (wr s ADDR_MOD_REQ_RD_SEGMENT seg) ADDR_MOD_TRANSITION_MODE mode = sB at hWB hB
  have hBf : sB.flagsInternal = s.flagsInternal := by rw [← hsB]; rfl
  have hBs : sB.modSwap = s.modSwap := by rw [← hsB]; rfl
  have hBt : sB.dcSysTime = s.dcSysTime := by rw [← hsB]; rfl
  have hWC : WF (setCtl sB (wrWords sB.ctl ADDR_MOD_TRANSITION_VALUE_0 (u64Words value))) :=
    WF_setCtl_wrWords hWB _ _ (Or.inr (Or.inr ⟨by decide, by show 42 + 4 ≤ 85; decide⟩))
  have hC : ∀ a, reg (setCtl sB (wrWords sB.ctl ADDR_MOD_TRANSITION_VALUE_0 (u64Words value))) a =
      if 42 ≤ a ∧ a < 46 then rd (u64Words value) (a - 42) % 65536 else reg sB a := by
    intro a
    rw [reg_setCtl_wrWords _ _ _ _ hWB.ctl]
    have : (u64Words value).size = 4 := rfl
    simp only [ADDR_MOD_TRANSITION_VALUE_0, this]
    by_cases h : 42 ≤ a ∧ a < 46
    · rw [if_pos (by omega), if_pos h]
    · rw [if_neg (by omega), if_neg h]
  have h64 := reg64_setCtl_wrWords sB ADDR_MOD_TRANSITION_VALUE_0 value (by decide) hWB.ctl hval
  generalize hsC : setCtl sB (wrWords sB.ctl ADDR_MOD_TRANSITION_VALUE_0 (u64Words value)) = sC at hWC hC h64
  have hCf : sC.flagsInternal = s.flagsInternal := by rw [← hsC]; exact hBf
  have hCs : sC.modSwap = s.modSwap := by rw [← hsC]; exact hBs
  have hCt : sC.dcSysTime = s.dcSysTime := by rw [← hsC]; exact hBt
  have e82 : reg sC ADDR_MOD_REQ_RD_SEGMENT = seg := by rw [hC, if_neg (by decide), hB]; rfl
  have e95 : reg sC ADDR_MOD_TRANSITION_MODE = mode := by rw [hC, if_neg (by decide), hB]; rfl
  obtain ⟨w, hw, _⟩ := swap_set_ok sC.modSwap hWC.modSwap sC.dcSysTime
    (reg sC (ADDR_MOD_REP0 + reg sC ADDR_MOD_REQ_RD_SEGMENT))
    (reg sC (ADDR_MOD_FREQ_DIV0 + reg sC ADDR_MOD_REQ_RD_SEGMENT))
    (reg sC (ADDR_MOD_CYCLE0 + reg sC ADDR_MOD_REQ_RD_SEGMENT) + 1) (reg sC ADDR_MOD_REQ_RD_SEGMENT) (tmodeOf mode value)
  have hsaw := saw_mod sC hWC.ctl hWC.flags (by rw [e82]; exact hseg) (tmodeOf mode value)
    (by rw [h64, e95]; exact decodeTMode_valid _ _ _ hv) w hw
  have er : ∀ base, 35 ≤ base → base + 1 < 41 → reg sC (base + seg) = reg s (base + seg) := by
    intro base h1 h2
    rw [hC, if_neg (by omega), hB, if_neg (by omega), if_neg (by omega)]
  rw [e82, er ADDR_MOD_REP0 (by decide) (by decide), er ADDR_MOD_FREQ_DIV0 (by decide) (by decide),
    er ADDR_MOD_CYCLE0 (by decide) (by decide), hCs, hCt] at hw
  rw [hCf] at hsaw
  refine ⟨w, ?_, hw⟩
  unfold modSegmentUpdate
  have hmiss' : ¬(mode = TRANSITION_MODE_SYS_TIME ∧
      value < (wr s ADDR_MOD_REQ_RD_SEGMENT seg).dcSysTime + SYS_TIME_TRANSITION_MARGIN) := hmiss
  simp only [ctlWrite_main _ ADDR_MOD_REQ_RD_SEGMENT _ (by decide), ok_bind, hmiss', if_false,
    ctlWrite_main _ ADDR_MOD_TRANSITION_MODE _ (by decide),
    ctlWriteWords_main' _ ADDR_MOD_TRANSITION_VALUE_0 (u64Words value) (by show 42 + 4 ≤ 256; decide), hsB, hsC]
  rw [hsaw]; rfl

/-- the last frame of a modulation with a transition: the new swap chain is `Swap.set` of the base's chain
with the datagram's parameters (the function the firmware computes; `ModHeld.req` only records `SwapSet`) -/
theorem mod_tail_last_tr_swap {s0 sH : State} {seg : Nat} {rep div : Nat} {samples : Array Nat} {c m v : Nat}
    (hseg : seg ≤ 1) (hI : ModInv s0 sH seg (some (m, v)) rep div samples c) (hc2 : c % 2 = 0) (hc3 : c < 65536)
    (d : Array Nat) (off w flag : Nat) (hn : c + w = samples.size) (hn2 : 1 ≤ samples.size)
    (hn3 : samples.size ≤ 65536)
    (hE : hasFlag flag MODULATION_FLAG_END = true) (hU : hasFlag flag MODULATION_FLAG_UPDATE = true)
    (hv : ValidTr m v) (hv64 : v < 18446744073709551616)
    (hmiss : ¬(m = TRANSITION_MODE_SYS_TIME ∧ v < s0.dcSysTime + SYS_TIME_TRANSITION_MARGIN)) :
    ∃ sE, (modDataPart sH d off w >>= fun s2 => modEndPart s2 flag seg) = .ok (sE, NO_ERR) ∧
      s0.modSwap.set s0.dcSysTime rep div samples.size seg (tmodeOf m v) = .ok sE.modSwap := by
  obtain ⟨s2, h2, hC⟩ := modDataPart_ok sH hI.wf d off w seg c hI.cycle hc2 (by omega) hc3 hI.wseg hseg hI.page
  have hW2 := WF_of_ModCopied hI.wf hC
  have hval : (max s2.modCycle 1 - 1) % 65536 = samples.size - 1 := by rw [hC.cycle, hn]; omega
  have hx : ∀ a, reg (wr s2 (ADDR_MOD_CYCLE0 + seg) ((max s2.modCycle 1 - 1) % 65536)) a =
      if a = 35 + seg then samples.size - 1 else reg s2 a := by
    intro a
    rw [reg_wr, hW2.ctl, hval]
    have e35 : ADDR_MOD_CYCLE0 + seg = 35 + seg := rfl
    by_cases h : a = 35 + seg
    · rw [if_pos ⟨h.trans e35.symm, by rw [e35]; omega⟩, if_pos h]; omega
    · rw [if_neg (by intro hh; exact h (hh.1.trans e35)), if_neg h]
  have hWW : WF (wr s2 (ADDR_MOD_CYCLE0 + seg) ((max s2.modCycle 1 - 1) % 65536)) :=
    WF_wr hW2 _ _ (Or.inl (by simp only [ADDR_MOD_CYCLE0, ADDR_MOD_FREQ_DIV0, ADDR_MOD_FREQ_DIV1,
      ADDR_STM_FREQ_DIV0, ADDR_STM_FREQ_DIV1]; omega))
  have htm : s2.modTrMode = m := by rw [hC.frame.modTrMode, hI.trMode]; rfl
  have htv : s2.modTrValue = v := by rw [hC.frame.modTrValue, hI.trValue]; rfl
  have htime : (wr s2 (ADDR_MOD_CYCLE0 + seg) ((max s2.modCycle 1 - 1) % 65536)).dcSysTime = s0.dcSysTime := by
    rw [wr_dcSysTime, hC.frame.dcSysTime, hI.time]
  have hsw : (wr s2 (ADDR_MOD_CYCLE0 + seg) ((max s2.modCycle 1 - 1) % 65536)).modSwap = s0.modSwap := by
    rw [wr_modSwap, hC.frame.modSwap, hI.swap]
  generalize hsW : wr s2 (ADDR_MOD_CYCLE0 + seg) ((max s2.modCycle 1 - 1) % 65536) = sW at hx hWW htime hsw
  obtain ⟨w', hu, hset⟩ := modSegmentUpdate_set sW hWW seg m v hseg hv hv64 (by rw [htime]; exact hmiss)
  have e1 : reg sW (ADDR_MOD_REP0 + seg) = rep := by
    simp only [ADDR_MOD_REP0]
    rw [hx, if_neg (by omega), hC.regs _ (by simp only [ADDR_MOD_MEM_WR_PAGE]; omega)]; exact hI.repReg
  have e2 : reg sW (ADDR_MOD_FREQ_DIV0 + seg) = div := by
    simp only [ADDR_MOD_FREQ_DIV0]
    rw [hx, if_neg (by omega), hC.regs _ (by simp only [ADDR_MOD_MEM_WR_PAGE]; omega)]; exact hI.divReg
  have e3 : reg sW (ADDR_MOD_CYCLE0 + seg) + 1 = samples.size := by
    simp only [ADDR_MOD_CYCLE0]; rw [hx, if_pos rfl]; omega
  rw [e1, e2, e3, hsw, htime] at hset
  refine ⟨modReqPost sW seg m v w', ?_, ?_⟩
  · rw [h2, ok_bind, modEndPart_last_tr _ _ _ hseg hE hU, hsW, htm, htv, hu]
  · have : (modReqPost sW seg m v w').modSwap = w' := by simp [modReqPost]
    rw [this]; exact hset

end Autd3.Tuple2
