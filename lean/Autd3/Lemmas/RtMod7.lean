import Autd3.Lemmas.RtMod6
/-!
Modulation, part 7: the send loop — `mod_loop` (induction over the frames after the first) and the
round-trip theorem `mod_roundtrip'` for every legal size 2 ≤ n ≤ 65536.
-/
open Autd3 Autd3.Fw Autd3.Wire Autd3.Gen.Cpu Autd3.Gen
namespace Autd3.Rt

theorem modCycle_fin (s : State) (id g : Nat) : Obs.modCycle (fin s id) g = Obs.modCycle s g := by
  unfold Obs.modCycle; rw [reg_fin _ _ _ (by simp [ADDR_MOD_CYCLE0])]
theorem modDiv_fin (s : State) (id g : Nat) : Obs.modDiv (fin s id) g = Obs.modDiv s g := by
  unfold Obs.modDiv; rw [reg_fin _ _ _ (by simp [ADDR_MOD_FREQ_DIV0])]
theorem modRep_fin (s : State) (id g : Nat) : Obs.modRep (fin s id) g = Obs.modRep s g := by
  unfold Obs.modRep; rw [reg_fin _ _ _ (by simp [ADDR_MOD_REP0])]
theorem modBuffer_fin (s : State) (id g : Nat) : Obs.modBuffer (fin s id) g = Obs.modBuffer s g := by
  unfold Obs.modBuffer Obs.modAt; simp only [modCycle_fin, modMem_fin]; rfl
theorem reqModSeg_fin (s : State) (id : Nat) : Obs.reqModSeg (fin s id) = Obs.reqModSeg s := by
  unfold Obs.reqModSeg segReg; simp only [reg_fin _ _ _ (show ADDR_MOD_REQ_RD_SEGMENT ≠ 0 by decide)]
theorem modTransition_fin (s : State) (id : Nat) : Obs.modTransition (fin s id) = Obs.modTransition s := by
  unfold Obs.modTransition reg64
  simp only [reg_fin _ _ _ (show ADDR_MOD_TRANSITION_MODE ≠ 0 by decide),
    reg_fin _ _ _ (show ADDR_MOD_TRANSITION_VALUE_0 ≠ 0 by decide),
    reg_fin _ _ _ (show ADDR_MOD_TRANSITION_VALUE_0 + 1 ≠ 0 by decide),
    reg_fin _ _ _ (show ADDR_MOD_TRANSITION_VALUE_0 + 2 ≠ 0 by decide),
    reg_fin _ _ _ (show ADDR_MOD_TRANSITION_VALUE_0 + 3 ≠ 0 by decide)]

theorem ModHeld_fin {s0 s : State} {seg : Nat} {tr : Tr} {rep div : Nat} {samples : Array Nat}
    (h : ModHeld s0 s seg tr rep div samples) (id : Nat) : ModHeld s0 (fin s id) seg tr rep div samples := by
  refine ⟨by rw [modBuffer_fin]; exact h.buffer, by rw [modDiv_fin]; exact h.hdiv, by rw [modRep_fin]; exact h.hrep,
    by rw [modCycle_fin]; exact h.hcycle, by rw [modMem_fin]; exact h.otherMem,
    by rw [modDiv_fin, modRep_fin, modCycle_fin]; exact h.otherRegs, ?_⟩
  have := h.req
  cases tr with
  | none => simp only [reqModSeg_fin, modTransition_fin]; exact this
  | some mv => obtain ⟨m, v⟩ := mv; simp only [reqModSeg_fin, modTransition_fin]; exact this

theorem sendLoop_done (fuel : Nat) (o : Op) (s : State) (t : Tx) (h : o.done = true) :
    sendLoop (fuel + 1) o s t = some (t, s) := by
  simp [sendLoop, h]

theorem sendLoop_step (fuel : Nat) (o : Op) (s : State) (t : Tx) (hnd : o.done = false) (o' : Op) (b : Array Nat) (sz : Nat)
    (hp : o.pack s.numTr t.payload 0 = .ok (o', b, sz)) (hf : Fresh s t) (s1 : State)
    (hh : handlePayload (pre s (nextId t)) b = .ok (s1, NO_ERR)) :
    sendLoop (fuel + 1) o s t =
      sendLoop fuel o' (fin s1 (nextId t)) { msgId := nextId t, slot2 := 0, payload := b } := by
  have hpk : packOp o s.numTr t = .ok (o', { msgId := nextId t, slot2 := 0, payload := b }, sz) := by
    unfold packOp; simp only []; rw [hp]; rfl
  have hrecv := ecatRecv_single s { msgId := nextId t, slot2 := 0, payload := b } (nextId_lt t) rfl hf s1 hh
  simp only [sendLoop, hnd, hpk, hrecv]
  simp [fin]

end Autd3.Rt
namespace Autd3.Rt
open Autd3 Autd3.Fw Autd3.Wire Autd3.Gen.Cpu Autd3.Gen

/-- the side conditions on a modulation datagram at the integer level -/
structure ModOK (s0 : State) (seg : Nat) (tr : Tr) (rep div : Nat) (samples : Array Nat) : Prop where
  seg : seg ≤ 1
  n2 : 2 ≤ samples.size
  n3 : samples.size ≤ 65536
  bytes : ∀ i, rd samples i < 256
  rep : rep < 65536
  div : 1 ≤ div ∧ div < 65536
  tr : ∀ m v, tr = some (m, v) → ValidTr m v ∧ v < 18446744073709551616 ∧
    ¬(m = TRANSITION_MODE_SYS_TIME ∧ v < s0.dcSysTime + SYS_TIME_TRANSITION_MARGIN)

/-- all frames after the first: by induction on the number of frames still to send -/
theorem mod_loop {s0 : State} {seg : Nat} {tr : Tr} {rep div : Nat} {samples : Array Nat}
    (H : ModOK s0 seg tr rep div samples) :
    ∀ fuel c s t, ModInv s0 s seg tr rep div samples c → 0 < c → c % 2 = 0 → c < samples.size →
      samples.size - c ≤ 618 * fuel → TxOK t → Fresh s t →
      ∃ t' s', sendLoop (fuel + 1) { dg := .modulation seg tr rep div samples, sent := c, done := false } s t = some (t', s') ∧
        WF s' ∧ TxOK t' ∧ Fresh s' t' ∧ ModHeld s0 s' seg tr rep div samples := by
  intro fuel
  induction fuel with
  | zero => intro c s t _ _ _ hcn hf; omega
  | succ fuel ih =>
    intro c s t hI hc0 hc2 hcn hfuel ht hf
    have ht' : t.payload.size = 622 := ht
    have hn3 := H.n3
    have hnt : s.numTr = s0.numTr := hI.numTr
    have hpk := pack_mod_next seg tr rep div samples s.numTr t.payload c ht' hc0 hcn hn3 H.n2
    obtain ⟨p0, p1, p2, pd, psz⟩ := modNext_payload t.payload samples c (min (samples.size - c) 618)
      (modFlagByte false (decide (samples.size - c ≤ 618)) seg tr.isSome) ht' (Nat.min_le_right _ _) (modFlagByte_lt _ _ _ _)
    have pd' : ∀ k, k < min (samples.size - c) 618 →
        u8at (modNextPayload t.payload samples c (min (samples.size - c) 618)
          (modFlagByte false (decide (samples.size - c ≤ 618)) seg tr.isSome)) (4 + k) = rd samples (c + k) := by
      intro k hk; rw [pd k hk]; exact Nat.mod_eq_of_lt (H.bytes _)
    generalize modNextPayload t.payload samples c (min (samples.size - c) 618)
      (modFlagByte false (decide (samples.size - c ≤ 618)) seg tr.isSome) = d at hpk p0 p1 p2 pd pd' psz
    obtain ⟨r, hr⟩ := pre_eq s (nextId t)
    have hIp := ModInv_pre hI (nextId t) r
    have heq := mod_next_handle_eq { s with lastMsgId := nextId t, rxData := r } d seg (min (samples.size - c) 618) H.seg
      (decide (samples.size - c ≤ 618)) tr.isSome p0 p1 p2
    obtain ⟨b1, b2, b3, _⟩ := modFlagByte_bits false (decide (samples.size - c ≤ 618)) seg H.seg tr.isSome
    by_cases hl : samples.size - c ≤ 618
    · -- last frame
      have hw : min (samples.size - c) 618 = samples.size - c := Nat.min_eq_left hl
      simp only [hl, decide_true] at b2 b3 heq hpk
      have hfin : ∃ sE, handlePayload (pre s (nextId t)) d = .ok (sE, NO_ERR) ∧ WF sE ∧
          ModHeld s0 sE seg tr rep div samples ∧ sE.lastMsgId = nextId t := by
        rw [hr, heq]
        cases htr : tr with
        | none =>
          subst htr
          obtain ⟨sE, h1, h2, h3, h4⟩ := mod_tail_last_notr H.seg hIp hc2 (by omega) d 4 (min (samples.size - c) 618) _ pd'
            (by omega) (by have := H.n2; omega) hn3 b2 (by rw [b3]; rfl)
          exact ⟨sE, h1, h2, h3, h4⟩
        | some mv =>
          obtain ⟨m, v⟩ := mv
          subst htr
          obtain ⟨hv, hv64, hmiss⟩ := H.tr m v rfl
          obtain ⟨sE, h1, h2, h3, h4⟩ := mod_tail_last_tr H.seg hIp hc2 (by omega) d 4 (min (samples.size - c) 618) _ pd'
            (by omega) (by have := H.n2; omega) hn3 b2 (by rw [b3]; rfl) hv hv64 hmiss
          exact ⟨sE, h1, h2, h3, h4⟩
      obtain ⟨sE, hh, hWE, hHeld, hlast⟩ := hfin
      refine ⟨{ msgId := nextId t, slot2 := 0, payload := d }, fin sE (nextId t), ?_, WF_fin hWE _, psz,
        Fresh_after sE t d hlast, ModHeld_fin hHeld _⟩
      rw [sendLoop_step _ _ s t rfl _ d _ hpk hf sE hh, sendLoop_done _ _ _ _ rfl]
    · -- more frames follow
      have hw : min (samples.size - c) 618 = 618 := Nat.min_eq_right (by omega)
      simp only [hl, decide_false] at b2 b3 heq hpk
      rw [hw] at heq hpk pd'
      obtain ⟨s2, h1, hI2, hlast⟩ := mod_tail_nonlast H.seg hIp hc2 d 4 618 _ pd' (by omega) b2
      have hh : handlePayload (pre s (nextId t)) d = .ok (s2, NO_ERR) := by rw [hr, heq, h1]
      rw [sendLoop_step _ _ s t rfl _ d _ hpk hf s2 hh]
      exact ih (c + 618) (fin s2 (nextId t)) _ (ModInv_fin hI2 _) (by omega) (by omega) (by omega) (by omega) psz
        (Fresh_after s2 t d hlast)

end Autd3.Rt
namespace Autd3.Rt
open Autd3 Autd3.Fw Autd3.Wire Autd3.Gen.Cpu Autd3.Gen

theorem trMode_lt {s0 : State} {seg : Nat} {tr : Tr} {rep div : Nat} {samples : Array Nat}
    (H : ModOK s0 seg tr rep div samples) : trMode tr < 256 ∧ trValue tr < 18446744073709551616 := by
  cases htr : tr with
  | none => exact ⟨by decide, by decide⟩
  | some mv =>
    obtain ⟨m, v⟩ := mv
    obtain ⟨hv, hv64, _⟩ := H.tr m v htr
    exact ⟨ValidTr_lt hv, hv64⟩

/-- **Modulation round trip**, every legal size: the frames of the datagram are all accepted and the
device then holds exactly the samples, division, loop count, cycle and (iff given) the request -/
theorem mod_roundtrip' (s : State) (t : Tx) (hWF : WF s) (ht : TxOK t) (hf : Fresh s t)
    (seg : Nat) (tr : Tr) (rep div : Nat) (samples : Array Nat) (H : ModOK s seg tr rep div samples)
    (g1 : validateTransitionMode s.modSegment seg rep (trMode tr) = false)
    (g2 : validateSilencerSettings s (sel s.stmDiv s.stmSegment) div = false) :
    ∃ t' s', Sends (.modulation seg tr rep div samples) s t t' s' ∧ WF s' ∧ TxOK t' ∧ Fresh s' t' ∧
      ModHeld s s' seg tr rep div samples := by
  have ht' : t.payload.size = 622 := ht
  have hn3 := H.n3
  have hn2 := H.n2
  obtain ⟨htm, htv⟩ := trMode_lt H
  have hpk := pack_mod_first seg tr rep div samples s.numTr t.payload ht' hn2 hn3
  obtain ⟨p0, p1, p2, p3, p4, p6, p8, pd, psz⟩ := modFirst_payload t.payload samples (min samples.size 254)
    (modFlagByte true (decide (samples.size ≤ 254)) seg tr.isSome) (trMode tr) div rep (trValue tr) ht'
    (Nat.min_le_right _ _) (modFlagByte_lt _ _ _ _)
  rw [Nat.mod_eq_of_lt htm] at p3
  rw [Nat.mod_eq_of_lt H.div.2] at p4
  rw [Nat.mod_eq_of_lt H.rep] at p6
  rw [Nat.mod_eq_of_lt htv] at p8
  have pd' : ∀ k, k < min samples.size 254 →
      u8at (modFirstPayload t.payload samples (min samples.size 254)
        (modFlagByte true (decide (samples.size ≤ 254)) seg tr.isSome) (trMode tr) div rep (trValue tr)) (16 + k) =
        rd samples (0 + k) := by
    intro k hk; rw [pd k hk, Nat.zero_add]; exact Nat.mod_eq_of_lt (H.bytes _)
  generalize modFirstPayload t.payload samples (min samples.size 254)
    (modFlagByte true (decide (samples.size ≤ 254)) seg tr.isSome) (trMode tr) div rep (trValue tr) = d
    at hpk p0 p1 p2 p3 p4 p6 p8 pd pd' psz
  obtain ⟨r, hr⟩ := pre_eq s (nextId t)
  have heq := mod_first_handle_eq { s with lastMsgId := nextId t, rxData := r } d seg rep div (trMode tr) (trValue tr)
    (min samples.size 254) H.seg (decide (samples.size ≤ 254)) tr.isSome p0 p1 p2 p3 p4 p6 p8 g1 g2
  have hI0 := ModInv_head s hWF (nextId t) r seg H.seg tr rep div samples H.rep H.div
  have hl0 : (modHead { s with lastMsgId := nextId t, rxData := r } seg rep div (trMode tr) (trValue tr)).lastMsgId =
      nextId t := by simp [modHead]
  obtain ⟨b1, b2, b3, _⟩ := modFlagByte_bits true (decide (samples.size ≤ 254)) seg H.seg tr.isSome
  by_cases hl : samples.size ≤ 254
  · -- a single frame
    have hw : min samples.size 254 = samples.size := Nat.min_eq_left hl
    simp only [hl, decide_true] at b2 b3 heq hpk
    have hfin : ∃ sE, handlePayload (pre s (nextId t)) d = .ok (sE, NO_ERR) ∧ WF sE ∧
        ModHeld s sE seg tr rep div samples ∧ sE.lastMsgId = nextId t := by
      rw [hr, heq]
      cases htr : tr with
      | none =>
        subst htr
        obtain ⟨sE, h1, h2, h3, h4⟩ := mod_tail_last_notr H.seg hI0 (by decide) (by decide) d 16 (min samples.size 254) _ pd'
          (by omega) (by omega) hn3 b2 (by rw [b3]; rfl)
        exact ⟨sE, h1, h2, h3, h4.trans hl0⟩
      | some mv =>
        obtain ⟨m, v⟩ := mv
        subst htr
        obtain ⟨hv, hv64, hmiss⟩ := H.tr m v rfl
        obtain ⟨sE, h1, h2, h3, h4⟩ := mod_tail_last_tr H.seg hI0 (by decide) (by decide) d 16 (min samples.size 254) _ pd'
          (by omega) (by omega) hn3 b2 (by rw [b3]; rfl) hv hv64 hmiss
        exact ⟨sE, h1, h2, h3, h4.trans hl0⟩
    obtain ⟨sE, hh, hWE, hHeld, hlast⟩ := hfin
    refine ⟨{ msgId := nextId t, slot2 := 0, payload := d }, fin sE (nextId t), ⟨2, ?_⟩, WF_fin hWE _, psz,
      Fresh_after sE t d hlast, ModHeld_fin hHeld _⟩
    show sendLoop 2 { dg := .modulation seg tr rep div samples, sent := 0, done := false } s t = _
    rw [sendLoop_step _ _ s t rfl _ d _ hpk hf sE hh, sendLoop_done _ _ _ _ rfl]
  · -- more frames follow
    have hw : min samples.size 254 = 254 := Nat.min_eq_right (by omega)
    simp only [hl, decide_false] at b2 b3 heq hpk
    rw [hw] at heq hpk pd'
    obtain ⟨s2, h1, hI2, hlast⟩ := mod_tail_nonlast H.seg hI0 (by decide) d 16 254 _ pd' (by omega) b2
    have hh : handlePayload (pre s (nextId t)) d = .ok (s2, NO_ERR) := by rw [hr, heq, h1]
    obtain ⟨t', s', hS, hW', hT', hF', hHeld⟩ := mod_loop H (samples.size / 618 + 1) (0 + 254) (fin s2 (nextId t))
      { msgId := nextId t, slot2 := 0, payload := d } (ModInv_fin hI2 _) (by omega) (by omega) (by omega) (by omega) psz
      (Fresh_after s2 t d (hlast.trans hl0))
    refine ⟨t', s', ⟨samples.size / 618 + 1 + 1 + 1, ?_⟩, hW', hT', hF', hHeld⟩
    show sendLoop _ { dg := .modulation seg tr rep div samples, sent := 0, done := false } s t = _
    rw [sendLoop_step _ _ s t rfl _ d _ hpk hf s2 hh]
    exact hS

end Autd3.Rt
