import Autd3.Lemmas.SilGuardSteps
/-!
# C08: from handlers to frames and to whole histories

`handle_payload` (dispatch), `ecat_recv` (both slots of a frame), `update_with_sys_time`, thermal
sensor, `CPUEmulator::new`, and folds over arbitrary histories.
-/
set_option linter.unusedSimpArgs false
set_option linter.unusedVariables false
namespace Autd3.SilGuard
open Autd3.Fw Autd3.Gen Autd3.Gen.Cpu

/-- `handle_payload` as a plain case distinction on the tag byte (the generated dispatch table and the
string-keyed handler lookup evaluated once and for all) -/
theorem handlePayload_eq (s : State) (d : Array Nat) :
    handlePayload s d =
      if u8at d 0 = 1 then clear s d else if u8at d 0 = 2 then synchronize s d
      else if u8at d 0 = 3 then firmInfo s d else if u8at d 0 = 16 then writeMod s d
      else if u8at d 0 = 17 then changeModSegment s d else if u8at d 0 = 33 then configSilencer s d
      else if u8at d 0 = 48 then writeGain s d else if u8at d 0 = 49 then changeGainSegment s d
      else if u8at d 0 = 67 then changeGainStmSegment s d else if u8at d 0 = 66 then writeFociStm s d
      else if u8at d 0 = 68 then changeFociStmSegment s d else if u8at d 0 = 65 then writeGainStm s d
      else if u8at d 0 = 96 then configureForceFan s d else if u8at d 0 = 97 then configureReadsFpgaState s d
      else if u8at d 0 = 114 then configPwe s d else if u8at d 0 = 240 then configDebug s d
      else if u8at d 0 = 241 then emulateGpioIn s d else if u8at d 0 = 242 then cpuGpioOut s d
      else if u8at d 0 = 128 then phaseCorrOp s d else .ok (s, ERR_NOT_SUPPORTED_TAG) := by
  unfold handlePayload
  generalize u8at d 0 = tag
  by_cases h1 : tag = 1
  · subst h1; rfl
  by_cases h2 : tag = 2
  · subst h2; rfl
  by_cases h3 : tag = 3
  · subst h3; rfl
  by_cases h16 : tag = 16
  · subst h16; rfl
  by_cases h17 : tag = 17
  · subst h17; rfl
  by_cases h33 : tag = 33
  · subst h33; rfl
  by_cases h48 : tag = 48
  · subst h48; rfl
  by_cases h49 : tag = 49
  · subst h49; rfl
  by_cases h67 : tag = 67
  · subst h67; rfl
  by_cases h66 : tag = 66
  · subst h66; rfl
  by_cases h68 : tag = 68
  · subst h68; rfl
  by_cases h65 : tag = 65
  · subst h65; rfl
  by_cases h96 : tag = 96
  · subst h96; rfl
  by_cases h97 : tag = 97
  · subst h97; rfl
  by_cases h114 : tag = 114
  · subst h114; rfl
  by_cases h240 : tag = 240
  · subst h240; rfl
  by_cases h241 : tag = 241
  · subst h241; rfl
  by_cases h242 : tag = 242
  · subst h242; rfl
  by_cases h128 : tag = 128
  · subst h128; rfl
  have e : Dispatch.arms.find? (fun a => a.1 = tag) = none := by
    simp only [Dispatch.arms, List.find?_cons, List.find?_nil]
    simp [h1, h2, h3, h16, h17, h33, h48, h49, h67, h66, h68, h65, h96, h97, h114, h240, h241, h242, h128, eq_comm]
  simp only [e, h1, h2, h3, h16, h17, h33, h48, h49, h67, h66, h68, h65, h96, h97, h114, h240, h241, h242, h128, ↓reduceIte]

/-- condition on one payload (slot of a frame) under which the core invariant is preserved; only the
three multi-frame write tags are constrained, every other tag (also unknown ones) is unconstrained -/
def PayloadOk (d : Array Nat) : Prop :=
  (u8at d 0 = 16 → ModOk d) ∧ (u8at d 0 = 66 → FociOk d) ∧ (u8at d 0 = 65 → GainStmOk d)

/-- additionally: an STM write is complete in this one frame (`GainOk` is preserved as well) -/
def PayloadComplete (d : Array Nat) : Prop :=
  (u8at d 0 = 66 → FociComplete d) ∧ (u8at d 0 = 65 → GainStmComplete d)

theorem Step_weaken {s : State} {G G' : Prop} {r : State × Nat} (h : Step s G r) (hg : G' → G) : Step s G' r :=
  ⟨h.1, fun hgo hg' => h.2 hgo (hg hg')⟩

theorem Step_of_inv {s : State} {G : Prop} {r : State × Nat} (h : Inv r.1) : Step s G r :=
  ⟨h.core, fun _ _ => h.gainOk⟩

theorem handlePayload_step (s : State) (d : Array Nat) (h : Core s) (hd : PayloadOk d) :
    Post (handlePayload s d) (fun r => Step s (PayloadComplete d) r) := by
  rw [handlePayload_eq]
  simp only [Post_ite]
  fw_leaves
  · exact Post_mono (clear_inv s d h.wf) (fun r hr => Step_of_inv hr)
  · exact Post_mono (synchronize_step s d h) (fun r hr => Step_weaken hr (fun _ => trivial))
  · exact Post_mono (firmInfo_step s d h) (fun r hr => Step_weaken hr (fun _ => trivial))
  · exact Post_mono (writeMod_step s d h (hd.1 ‹_›)) (fun r hr => Step_weaken hr (fun _ => trivial))
  · exact Post_mono (changeModSegment_step s d h) (fun r hr => Step_weaken hr (fun _ => trivial))
  · exact Post_mono (configSilencer_step s d h) (fun r hr => Step_weaken hr (fun _ => trivial))
  · exact Post_mono (writeGain_step s d h) (fun r hr => Step_weaken hr (fun _ => trivial))
  · exact Post_mono (changeGainSegment_step s d h) (fun r hr => Step_weaken hr (fun _ => trivial))
  · exact Post_mono (changeGainStmSegment_step s d h) (fun r hr => Step_weaken hr (fun _ => trivial))
  · exact Post_mono (writeFociStm_step s d h (hd.2.1 ‹_›)) (fun r hr => Step_weaken hr (fun hc => hc.1 ‹_›))
  · exact Post_mono (changeFociStmSegment_step s d h) (fun r hr => Step_weaken hr (fun _ => trivial))
  · exact Post_mono (writeGainStm_step s d h (hd.2.2 ‹_›)) (fun r hr => Step_weaken hr (fun hc => hc.2 ‹_›))
  · exact Post_mono (configureForceFan_step s d h) (fun r hr => Step_weaken hr (fun _ => trivial))
  · exact Post_mono (configureReadsFpgaState_step s d h) (fun r hr => Step_weaken hr (fun _ => trivial))
  · exact Post_mono (configPwe_step s d h) (fun r hr => Step_weaken hr (fun _ => trivial))
  · exact Post_mono (configDebug_step s d h) (fun r hr => Step_weaken hr (fun _ => trivial))
  · exact Post_mono (emulateGpioIn_step s d h) (fun r hr => Step_weaken hr (fun _ => trivial))
  · exact Post_mono (cpuGpioOut_step s d h) (fun r hr => Step_weaken hr (fun _ => trivial))
  · exact Post_mono (phaseCorrOp_step s d h) (fun r hr => Step_weaken hr (fun _ => trivial))
  · rw [Post_ok]; exact ⟨h, fun hgo _ => hgo⟩

theorem Core_congr {s s' : State} (hv : view s' = view s) (h : Core s) : Core s' := by
  rw [Core_iff_view] at h ⊢; rw [hv]; exact h

theorem Core.congr {s s' : State} (h : Core s) (hv : view s' = view s) : Core s' := Core_congr hv h

theorem GainOk_congr {s s' : State} (hv : view s' = view s) (h : GainOk s) : GainOk s' := by
  rw [GainOk_iff_view] at h ⊢; rw [hv]; exact h

theorem Inv.congr {s s' : State} (h : Inv s) (hv : view s' = view s) : Inv s' :=
  ⟨Core_congr hv h.core, GainOk_congr hv h.gainOk⟩

theorem view_readFpgaState (s : State) : view (readFpgaState s) = view s := by
  unfold readFpgaState; split
  · rfl
  · split <;> rfl

/-- writing the control-flag register (address 0) does not touch the view -/
theorem view_set0 (s : State) (v : Nat) : view { s with ctl := s.ctl.setIfInBounds 0 v } = view s := by
  simp [view, rd_set]

def slot1 (f : Array Nat) : Array Nat := f.extract DrvLayout.Header_size f.size
def slot2 (f : Array Nat) : Array Nat :=
  f.extract (DrvLayout.Header_size + u16at f DrvLayout.Header_slot_2_offset_off) f.size

/-- a frame both of whose slots (the second only if present) satisfy the payload conditions -/
def FrameOk (f : Array Nat) : Prop :=
  PayloadOk (slot1 f) ∧ PayloadComplete (slot1 f) ∧
  (u16at f DrvLayout.Header_slot_2_offset_off ≠ 0 → PayloadOk (slot2 f) ∧ PayloadComplete (slot2 f))

theorem handlePayload_inv (s : State) (d : Array Nat) (h : Inv s) (hd : PayloadOk d) (hc : PayloadComplete d) :
    Post (handlePayload s d) (fun r => Inv r.1) :=
  Post_mono (handlePayload_step s d h.core hd) (fun r hr => ⟨hr.1, hr.2 h.gainOk hc⟩)

theorem ecatRecv_inv (s : State) (f : Array Nat) (h : Inv s) (hf : FrameOk f) :
    Post (ecatRecv s f) (fun s' => Inv s') := by
  unfold ecatRecv
  simp only [Post_bind, Post_ite, Post_pure, Post_error, ADDR_CTL_FLAG, Post_ctlWrite_main, Nat.reduceLT]
  obtain ⟨hf1, hf1c, hf2⟩ := hf
  refine ⟨fun _ => h, fun _ => ⟨fun _ => h.congr (view_readFpgaState _), fun _ => ?_⟩⟩
  refine Post_mono (handlePayload_inv _ _ (h.congr (view_readFpgaState _)) hf1 hf1c) ?_
  intro a ha
  refine ⟨fun _ => ha.congr rfl, fun _ => ⟨fun h2 => ⟨fun _ => trivial, fun _ => ?_⟩, fun _ => ?_⟩⟩
  · refine Post_mono (handlePayload_inv _ _ (ha.congr rfl) (hf2 h2).1 (hf2 h2).2) ?_
    intro b hb
    exact ⟨fun _ => hb.congr rfl, fun _ => hb.congr (view_set0 _ _)⟩
  · exact ha.congr (view_set0 _ _)

/-! ### the multi-frame variant: only `Core`, every frame of a write without transition, arbitrary swaps -/

/-- the state in which the first slot of frame `f` is handled -/
def preState (s : State) (f : Array Nat) : State :=
  readFpgaState { s with lastMsgId := u8at f DrvLayout.Header_msg_id_off }

/-- both slots satisfy the flag discipline `PayloadOk` (no completeness requirement, no condition on
swap payloads: since the repair of `change_gain_segment` every swap evaluates the guard itself) -/
def FrameOkCore (f : Array Nat) : Prop :=
  PayloadOk (slot1 f) ∧ (u16at f DrvLayout.Header_slot_2_offset_off ≠ 0 → PayloadOk (slot2 f))

theorem FrameOk.core {f : Array Nat} (h : FrameOk f) : FrameOkCore f := ⟨h.1, fun h2 => (h.2.2 h2).1⟩

theorem ecatRecv_core (s : State) (f : Array Nat) (h : Core s) (hf : FrameOkCore f) :
    Post (ecatRecv s f) (fun s' => Core s') := by
  unfold ecatRecv
  simp only [Post_bind, Post_ite, Post_pure, Post_error, ADDR_CTL_FLAG, Post_ctlWrite_main, Nat.reduceLT]
  obtain ⟨hf1, hf2⟩ := hf
  refine ⟨fun _ => h, fun _ => ⟨fun _ => h.congr (view_readFpgaState _), fun _ => ?_⟩⟩
  refine Post_mono (handlePayload_step _ _ (h.congr (view_readFpgaState _)) hf1) ?_
  intro a ha'
  have ha : Core a.1 := ha'.1
  refine ⟨fun _ => ha.congr rfl, fun _ => ⟨fun h2 => ⟨fun _ => trivial, fun _ => ?_⟩, fun _ => ?_⟩⟩
  · refine Post_mono (handlePayload_step _ _ (ha.congr rfl) (hf2 h2)) ?_
    intro b hb
    exact ⟨fun _ => hb.1.congr rfl, fun _ => hb.1.congr (view_set0 _ _)⟩
  · exact ha.congr (view_set0 _ _)

/-! ### time steps, thermal sensor, construction -/

theorem view_set1 (s : State) (v : Nat) : view { s with ctl := s.ctl.setIfInBounds 1 v } = view s := by
  simp [view, rd_set]

theorem updateWithSysTime_view (s : State) (t : Nat) :
    Post (updateWithSysTime s t) (fun s' => view s' = view s) := by
  unfold updateWithSysTime
  simp only [Post_bind, Post_pure, ADDR_FPGA_STATE]
  intro a _ b _
  exact (congrArg view rfl).trans ((view_readFpgaState _).trans (view_set1 _ _))

theorem setThermo_view (s : State) (on : Bool) : view (setThermo s on) = view s := by
  unfold setThermo; simp only [ADDR_FPGA_STATE]; exact view_set1 _ _

/-- `CPUEmulator::new` yields a state satisfying the invariant (for every transducer count and clock) -/
theorem new_inv (n t : Nat) : Post (Fw.new n t) (fun s => Inv s) := by
  unfold Fw.new
  simp only [Post_bind, Post_pure]
  refine Post_mono (clear_inv _ _ ?_) (fun r hr => hr)
  simp

/-! ### histories -/

/-- one event in the life of a device: a received frame, a clock tick, a thermal-sensor change -/
inductive Action where
  | frame (f : Array Nat)
  | tick (t : Nat)
  | thermo (on : Bool)

def stepA (s : State) : Action → M State
  | .frame f => ecatRecv s f
  | .tick t => updateWithSysTime s t
  | .thermo on => .ok (setThermo s on)

/-- run a history (stops at the first panic) -/
def run (s : State) : List Action → M State
  | [] => .ok s
  | a :: as => stepA s a >>= fun s' => run s' as

def ActionOk : Action → Prop
  | .frame f => FrameOk f
  | _ => True

theorem stepA_inv (s : State) (a : Action) (h : Inv s) (ha : ActionOk a) : Post (stepA s a) (fun s' => Inv s') := by
  cases a with
  | frame f => exact ecatRecv_inv s f h ha
  | tick t => exact Post_mono (updateWithSysTime_view s t) (fun s' hv => h.congr hv)
  | thermo on => simp only [stepA, Post_ok]; exact h.congr (setThermo_view s on)

theorem run_inv (as : List Action) : ∀ (s : State), Inv s → (∀ a ∈ as, ActionOk a) →
    Post (run s as) (fun s' => Inv s') := by
  induction as with
  | nil => intro s h _; simpa [run] using h
  | cons a as ih =>
    intro s h hok
    simp only [run, Post_bind]
    refine Post_mono (stepA_inv s a h (hok a (by simp))) ?_
    intro s' hs'
    exact ih s' hs' (fun b hb => hok b (by simp [hb]))

/-- the action condition for `Core` only -/
def ActionOkCore : Action → Prop
  | .frame f => FrameOkCore f
  | _ => True

theorem ActionOk.core {a : Action} (h : ActionOk a) : ActionOkCore a := by
  cases a with
  | frame f => exact FrameOk.core h
  | tick t => trivial
  | thermo on => trivial

theorem stepA_core (s : State) (a : Action) (h : Core s) (ha : ActionOkCore a) :
    Post (stepA s a) (fun s' => Core s') := by
  cases a with
  | frame f => exact ecatRecv_core s f h ha
  | tick t => exact Post_mono (updateWithSysTime_view s t) (fun s' hv => Core_congr hv h)
  | thermo on => simp only [stepA, Post_ok]; exact Core_congr (setThermo_view s on) h

theorem run_core (as : List Action) : ∀ (s : State), Core s → (∀ a ∈ as, ActionOkCore a) →
    Post (run s as) (fun s' => Core s') := by
  induction as with
  | nil => intro s h _; simpa [run] using h
  | cons a as ih =>
    intro s h hok
    simp only [run, Post_bind]
    refine Post_mono (stepA_core s a h (hok a (by simp))) ?_
    intro s' hs'
    exact ih s' hs' (fun b hb => hok b (by simp [hb]))

end Autd3.SilGuard
