import Autd3.Lemmas.Hist3
/-!
History independence / frame conditions (C02), part 4: every frame the driver packs for a Modulation / Gain /
FociSTM / GainSTM datagram carries that datagram's tag in byte 0 (for EVERY content and progress counter), hence is
dispatched to that datagram's handler; `ecat_recv` on an accepted single-slot frame is `pre`, handler, `fin`;
and the whole send loop stays on the datagram's side (`sendLoop_modSide`, `sendLoop_stmSide`).
-/
set_option linter.unusedSimpArgs false
open Autd3 Autd3.Fw Autd3.Wire Autd3.Gen.Cpu Autd3.Gen Autd3.Rt
namespace Autd3.Hist

theorem range_forIn_inv {β : Type} (P : β → Prop) (r : Std.Legacy.Range) (init : β)
    (f : Nat → β → Id (ForInStep β))
    (h0 : P init) (hs : ∀ k b, P b → P (f k b).run.value) : P (forIn r init f).run := by
  have : forIn r init f = forIn' r init (fun a _ b => f a b) := rfl
  rw [this]
  exact Fw.range_forIn'_inv P r init _ h0 (fun k _ b hb => hs k b hb)

theorem id_forIn_size (r : Std.Legacy.Range) (b : Array Nat) (f : Nat → Array Nat → Id (ForInStep (Array Nat)))
    (hs : ∀ k x, (f k x).run.value.size = x.size) : (forIn r b f).run.size = b.size :=
  range_forIn_inv (fun x => x.size = b.size) r b f rfl (fun k x hx => by rw [hs k x]; exact hx)

/-! ### the tag byte of every packed frame -/

theorem pack_mod_tag (o o' : Op) (n : Nat) (b b' : Array Nat) (sz : Nat) (seg : Nat) (tr : Tr) (rep div : Nat)
    (samples : Array Nat) (hd : o.dg = .modulation seg tr rep div samples) (hb : b.size = 622)
    (h : o.pack n b 0 = .ok (o', b', sz)) : u8at b' 0 = 16 ∧ b'.size = 622 ∧ o'.dg = o.dg := by
  unfold Op.pack at h
  rw [hd] at h
  simp only [] at h
  split at h
  · cases h
  · split at h
    · simp only [Except.ok.injEq, Prod.mk.injEq] at h
      obtain ⟨ho, hb', _⟩ := h
      refine ⟨?_, ?_, ?_⟩
      · rw [← hb']
        simp [u8at_put64, u8at_put16, u8at_put8, hb, DrvLayout.ModulationHead_tag_off, DrvLayout.ModulationHead_flag_off,
          DrvLayout.ModulationHead_size_off, DrvLayout.ModulationHead_transition_mode_off,
          DrvLayout.ModulationHead_freq_div_off, DrvLayout.ModulationHead_rep_off,
          DrvLayout.ModulationHead_transition_value_off, Drv.TAG_Modulation]
      · rw [← hb']; simp [hb]
      · rw [← ho, hd]
    · simp only [Except.ok.injEq, Prod.mk.injEq] at h
      obtain ⟨ho, hb', _⟩ := h
      refine ⟨?_, ?_, ?_⟩
      · rw [← hb']
        simp [u8at_put16, u8at_put8, hb, DrvLayout.ModulationSubseq_tag_off, DrvLayout.ModulationSubseq_flag_off,
          DrvLayout.ModulationSubseq_size_off, Drv.TAG_Modulation]
      · rw [← hb']; simp [hb]
      · rw [← ho, hd]

theorem pack_gain_tag (o o' : Op) (n : Nat) (b b' : Array Nat) (sz : Nat) (seg : Nat) (tr : Tr)
    (drives : Array Nat) (hd : o.dg = .gain seg tr drives) (hb : b.size = 622)
    (h : o.pack n b 0 = .ok (o', b', sz)) : u8at b' 0 = 48 ∧ b'.size = 622 ∧ o'.dg = o.dg := by
  unfold Op.pack at h
  rw [hd] at h
  simp only [] at h
  cases tr with
  | none =>
    simp only [Except.ok.injEq, Prod.mk.injEq] at h
    obtain ⟨ho, hb', _⟩ := h
    refine ⟨?_, ?_, ?_⟩
    · rw [← hb']
      simp [u8at_putWords, u8at_put8, hb, DrvLayout.Gain_tag_off, DrvLayout.Gain_segment_off, DrvLayout.Gain_flag_off,
        DrvLayout.Gain_size, Drv.TAG_Gain]
    · rw [← hb']; simp [hb]
    · rw [← ho, hd]
  | some mv =>
    obtain ⟨m, v⟩ := mv
    simp only [] at h
    split at h
    · cases h
    · simp only [Except.ok.injEq, Prod.mk.injEq] at h
      obtain ⟨ho, hb', _⟩ := h
      refine ⟨?_, ?_, ?_⟩
      · rw [← hb']
        simp [u8at_putWords, u8at_put8, hb, DrvLayout.Gain_tag_off, DrvLayout.Gain_segment_off, DrvLayout.Gain_flag_off,
          DrvLayout.Gain_size, Drv.TAG_Gain]
      · rw [← hb']; simp [hb]
      · rw [← ho, hd]

theorem pack_foci_tag (o o' : Op) (n : Nat) (b b' : Array Nat) (sz : Nat) (nf seg : Nat) (tr : Tr) (rep div ss : Nat)
    (records : Array Nat) (hd : o.dg = .fociStm nf seg tr rep div ss records) (hb : b.size = 622)
    (h : o.pack n b 0 = .ok (o', b', sz)) : u8at b' 0 = 66 ∧ b'.size = 622 ∧ o'.dg = o.dg := by
  unfold Op.pack at h
  rw [hd] at h
  simp only [] at h
  split at h
  · cases h
  · split at h
    · cases h
    · split at h
      · simp only [bind_pure] at h
        generalize hL : Id.run (forIn (m := Id) (ρ := Std.Legacy.Range) _ b _) = L at h
        have hLs : L.size = 622 := by
          rw [← hL, ← hb]
          exact id_forIn_size _ _ _ (fun k x => by simp [ForInStep.value])
        simp only [Except.ok.injEq, Prod.mk.injEq] at h
        obtain ⟨ho, hb', _⟩ := h
        refine ⟨?_, ?_, ?_⟩
        · rw [← hb']
          simp [u8at_put64, u8at_put16, u8at_put8, u8at_putZeros, hLs, DrvLayout.FociSTMHead_tag_off,
            DrvLayout.FociSTMHead_flag_off, DrvLayout.FociSTMHead_send_num_off, DrvLayout.FociSTMHead_segment_off,
            DrvLayout.FociSTMHead_transition_mode_off, DrvLayout.FociSTMHead_num_foci_off,
            DrvLayout.FociSTMHead_sound_speed_off, DrvLayout.FociSTMHead_freq_div_off, DrvLayout.FociSTMHead_rep_off,
            DrvLayout.FociSTMHead_transition_value_off, DrvLayout.FociSTMHead_size, Drv.TAG_FociSTM]
        · rw [← hb']; simp [hLs]
        · rw [← ho, hd]
      · simp only [bind_pure] at h
        generalize hL : Id.run (forIn (m := Id) (ρ := Std.Legacy.Range) _ b _) = L at h
        have hLs : L.size = 622 := by
          rw [← hL, ← hb]
          exact id_forIn_size _ _ _ (fun k x => by simp [ForInStep.value])
        simp only [Except.ok.injEq, Prod.mk.injEq] at h
        obtain ⟨ho, hb', _⟩ := h
        refine ⟨?_, ?_, ?_⟩
        · rw [← hb']
          simp [u8at_put8, hLs, DrvLayout.FociSTMSubseq_tag_off, DrvLayout.FociSTMSubseq_flag_off,
            DrvLayout.FociSTMSubseq_send_num_off, DrvLayout.FociSTMSubseq_segment_off, Drv.TAG_FociSTM]
        · rw [← hb']; simp [hLs]
        · rw [← ho, hd]

theorem pack_gstm_tag (o o' : Op) (n : Nat) (b b' : Array Nat) (sz : Nat) (mode seg : Nat) (tr : Tr) (rep div : Nat)
    (patterns : Array (Array Nat)) (hd : o.dg = .gainStm mode seg tr rep div patterns) (hb : b.size = 622)
    (h : o.pack n b 0 = .ok (o', b', sz)) : u8at b' 0 = 65 ∧ b'.size = 622 ∧ o'.dg = o.dg := by
  unfold Op.pack at h
  rw [hd] at h
  simp only [] at h
  split at h
  · cases h
  · split at h
    · simp only [bind_pure] at h
      generalize hL : Id.run (forIn (m := Id) (ρ := Std.Legacy.Range) _ b _) = L at h
      have hLs : L.size = 622 := by
        rw [← hL, ← hb]
        refine id_forIn_size _ _ _ (fun k x => ?_)
        simp only [bind_pure_comp, Id.run_map, ForInStep.value]
        refine id_forIn_size _ _ _ (fun k2 y => ?_)
        split
        · simp [ForInStep.value]
        · split <;> simp [ForInStep.value]
      simp only [Except.ok.injEq, Prod.mk.injEq] at h
      obtain ⟨ho, hb', _⟩ := h
      refine ⟨?_, ?_, ?_⟩
      · rw [← hb']
        simp [u8at_put64, u8at_put16, u8at_put8, hLs, DrvLayout.GainSTMHead_tag_off, DrvLayout.GainSTMHead_flag_off,
          DrvLayout.GainSTMHead_mode_off, DrvLayout.GainSTMHead_transition_mode_off, DrvLayout.GainSTMHead_freq_div_off,
          DrvLayout.GainSTMHead_rep_off, DrvLayout.GainSTMHead_transition_value_off, Drv.TAG_GainSTM]
      · rw [← hb']; simp [hLs]
      · rw [← ho, hd]
    · simp only [bind_pure] at h
      generalize hL : Id.run (forIn (m := Id) (ρ := Std.Legacy.Range) _ b _) = L at h
      have hLs : L.size = 622 := by
        rw [← hL, ← hb]
        refine id_forIn_size _ _ _ (fun k x => ?_)
        simp only [bind_pure_comp, Id.run_map, ForInStep.value]
        refine id_forIn_size _ _ _ (fun k2 y => ?_)
        split
        · simp [ForInStep.value]
        · split <;> simp [ForInStep.value]
      simp only [Except.ok.injEq, Prod.mk.injEq] at h
      obtain ⟨ho, hb', _⟩ := h
      refine ⟨?_, ?_, ?_⟩
      · rw [← hb']
        simp [u8at_put8, hLs, DrvLayout.GainSTMSubseq_tag_off, DrvLayout.GainSTMSubseq_flag_off, Drv.TAG_GainSTM]
      · rw [← hb']; simp [hLs]
      · rw [← ho, hd]

end Autd3.Hist

namespace Autd3.Hist

/-! ### one accepted frame -/

/-- `ecat_recv` on a single-slot frame that is acknowledged with its own message id: either the frame was a
repetition (nothing happens) or the handler ran on `pre s id` and the result was closed by `fin` -/
theorem ecatRecv_accept (s s' : State) (t : Tx) (hid : t.msgId < 128) (hslot : t.slot2 = 0)
    (h : ecatRecv s t.frame = .ok s') (hack : s'.ack = t.msgId) :
    s' = s ∨ ∃ s1 a, handlePayload (pre s t.msgId) t.payload = .ok (s1, a) ∧ s' = fin s1 t.msgId := by
  unfold ecatRecv at h
  simp only [frame_id, frame_slot2, frame_extract, hslot, Nat.mod_eq_of_lt (show t.msgId < 256 by omega)] at h
  by_cases hfresh : s.lastMsgId = t.msgId
  · rw [if_pos hfresh] at h
    cases h; exact Or.inl rfl
  · rw [if_neg hfresh] at h
    simp only [and_128_of_lt hid] at h
    have : pre s t.msgId = readFpgaState { s with lastMsgId := t.msgId } := rfl
    rw [← this] at h
    right
    cases hh : handlePayload (pre s t.msgId) t.payload with
    | error e => rw [hh] at h; simp at h
    | ok r =>
      obtain ⟨s1, a⟩ := r
      rw [hh] at h
      simp at h
      split at h
      · rw [Rt.ctlWrite_main _ ADDR_CTL_FLAG _ (by decide), Rt.ok_bind] at h
        cases h
        exact ⟨s1, a, rfl, rfl⟩
      · rename_i hne
        cases h
        exfalso
        apply hne
        have : a = t.msgId := hack
        rw [this]
        exact and_128_of_lt hid

theorem packOp_inv (o o' : Op) (n : Nat) (t t1 : Tx) (sz : Nat) (h : packOp o n t = .ok (o', t1, sz)) :
    ∃ b, o.pack n t.payload 0 = .ok (o', b, sz) ∧ t1 = { msgId := nextId t, slot2 := 0, payload := b } := by
  unfold packOp at h
  simp only [] at h
  split at h
  · cases h
  · rename_i o2 b sz2 hp
    simp only [Except.ok.injEq, Prod.mk.injEq] at h
    obtain ⟨h1, h2, h3⟩ := h
    subst h1; subst h3
    exact ⟨b, hp, h2.symm⟩

/-- the device's view of `CTL_FLAG` agrees with the CPU's flag word (true after every accepted frame) -/
def Settled (s : State) : Prop := reg s ADDR_CTL_FLAG = s.flagsInternal % 65536

theorem Settled_fin (s1 : State) (id : Nat) (h : s1.ctl.size = 256) : Settled (fin s1 id) :=
  reg_fin_zero s1 id h

/-- generic send-loop theorem: if every packed frame of the datagram kind `K` carries `tag`, `tag` is dispatched
to `hnd`, and `hnd` stays inside the relation `Side er A`, then so does the whole send -/
theorem sendLoop_side (er : State → State) (A : Nat → Prop) (K : Dg → Prop) (tag : Nat)
    (hnd : State → Array Nat → M (State × Nat))
    (hpack : ∀ (o o' : Op) n b b' sz, K o.dg → b.size = 622 → o.pack n b 0 = .ok (o', b', sz) →
      u8at b' 0 = tag ∧ b'.size = 622 ∧ o'.dg = o.dg)
    (hdisp : ∀ s d, u8at d 0 = tag → handlePayload s d = hnd s d)
    (hside : ∀ s s' d a, Pre s → hnd s d = .ok (s', a) → Side er A s s')
    (hpre : ∀ s id, Side er A s (pre s id)) (hfin : ∀ s id, Side er A s (fin s id))
    (hPre : ∀ s s', Side er A s s' → Pre s → Pre s') :
    ∀ fuel (o : Op) (s : State) (t t' : Tx) (s' : State), K o.dg → Pre s → TxOK t →
      sendLoop fuel o s t = some (t', s') → Side er A s s' ∧ (Settled s → Settled s') ∧ TxOK t' := by
  intro fuel
  induction fuel with
  | zero => intro o s t t' s' _ _ _ h; cases h
  | succ fuel ih =>
    intro o s t t' s' hK p ht h
    unfold sendLoop at h
    split at h
    · cases h; exact ⟨Side.refl s, id, ht⟩
    · split at h
      · cases h
      · rename_i o1 t1 sz hp
        obtain ⟨b, hpk, rfl⟩ := packOp_inv _ _ _ _ _ _ hp
        obtain ⟨htag, hbs, hdg⟩ := hpack o o1 s.numTr t.payload b sz hK ht hpk
        split at h
        · cases h
        · rename_i s1 hr
          split at h
          · rename_i hack
            have hstep : Side er A s s1 ∧ (Settled s → Settled s1) := by
              rcases ecatRecv_accept s s1 _ (nextId_lt t) rfl hr hack with h0 | ⟨s2, a, hh, rfl⟩
              · subst h0; exact ⟨Side.refl _, id⟩
              · have hh' : hnd (pre s (nextId t)) b = .ok (s2, a) := by rw [← hdisp _ _ htag]; exact hh
                have e1 := hpre s (nextId t)
                have e2 := e1.trans (hside _ _ _ _ (hPre _ _ e1 p) hh')
                exact ⟨e2.trans (hfin s2 _), fun _ => Settled_fin s2 _ (hPre _ _ e2 p).ctl⟩
            obtain ⟨r1, r2, r3⟩ := ih o1 s1 { msgId := nextId t, slot2 := 0, payload := b } t' s' (by rw [hdg]; exact hK)
              (hPre _ _ hstep.1 p) (show TxOK _ from hbs) h
            exact ⟨hstep.1.trans r1, fun hs => r2 (hstep.2 hs), r3⟩
          · cases h

theorem ModSide_pre (s : State) (id : Nat) : ModSide s (pre s id) := by
  obtain ⟨r, hr⟩ := pre_eq s id
  rw [hr]; exact ⟨rfl, rfl, fun _ _ => rfl⟩
theorem StmSide_pre (s : State) (id : Nat) : StmSide s (pre s id) := by
  obtain ⟨r, hr⟩ := pre_eq s id
  rw [hr]; exact ⟨rfl, rfl, fun _ _ => rfl⟩

theorem ModSide_fin (s : State) (id : Nat) : ModSide s (fin s id) :=
  Side.trans (ModSide_wr s ADDR_CTL_FLAG s.flagsInternal (Or.inl rfl)) ⟨rfl, rfl, fun _ _ => rfl⟩
theorem StmSide_fin (s : State) (id : Nat) : StmSide s (fin s id) :=
  Side.trans (StmSide_wr s ADDR_CTL_FLAG s.flagsInternal (Or.inl rfl)) ⟨rfl, rfl, fun _ _ => rfl⟩

theorem dispatch_gain (s : State) (d : Array Nat) (h : u8at d 0 = 48) : handlePayload s d = writeGain s d := by
  unfold handlePayload; rw [h]; rfl

/-- **a whole Modulation send stays on the modulation side** — every content, every size the driver accepts,
every prior state with 256 registers and no request bit latched -/
theorem sends_mod_side (s : State) (t t' : Tx) (s' : State) (seg : Nat) (tr : Tr) (rep div : Nat) (samples : Array Nat)
    (p : Pre s) (ht : TxOK t) (h : Sends (.modulation seg tr rep div samples) s t t' s') :
    ModSide s s' ∧ (Settled s → Settled s') := by
  obtain ⟨fuel, h⟩ := h
  have := sendLoop_side eraseModSide modAddr (fun d => ∃ seg tr rep div samples, d = .modulation seg tr rep div samples)
    16 writeMod
    (by rintro o o' n b b' sz ⟨seg, tr, rep, div, samples, hd⟩ hb hp; exact pack_mod_tag o o' n b b' sz seg tr rep div samples hd hb hp)
    dispatch_mod (fun s s' d a p h => writeMod_side s s' d a p h) ModSide_pre ModSide_fin
    (fun s s' h p => Pre_of_ModSide h p) fuel _ s t t' s' ⟨seg, tr, rep, div, samples, rfl⟩ p ht h
  exact ⟨this.1, this.2.1⟩

theorem sends_gain_side (s : State) (t t' : Tx) (s' : State) (seg : Nat) (tr : Tr) (drives : Array Nat)
    (p : Pre s) (ht : TxOK t) (h : Sends (.gain seg tr drives) s t t' s') :
    StmSide s s' ∧ (Settled s → Settled s') := by
  obtain ⟨fuel, h⟩ := h
  have := sendLoop_side eraseStmSide stmAddr (fun d => ∃ seg tr drives, d = .gain seg tr drives)
    48 writeGain
    (by rintro o o' n b b' sz ⟨seg, tr, drives, hd⟩ hb hp; exact pack_gain_tag o o' n b b' sz seg tr drives hd hb hp)
    dispatch_gain (fun s s' d a p h => writeGain_side s s' d a p h) StmSide_pre StmSide_fin
    (fun s s' h p => Pre_of_StmSide h p) fuel _ s t t' s' ⟨seg, tr, drives, rfl⟩ p ht h
  exact ⟨this.1, this.2.1⟩

theorem sends_foci_side (s : State) (t t' : Tx) (s' : State) (n seg : Nat) (tr : Tr) (rep div ss : Nat) (records : Array Nat)
    (p : Pre s) (ht : TxOK t) (h : Sends (.fociStm n seg tr rep div ss records) s t t' s') :
    StmSide s s' ∧ (Settled s → Settled s') := by
  obtain ⟨fuel, h⟩ := h
  have := sendLoop_side eraseStmSide stmAddr (fun d => ∃ n seg tr rep div ss records, d = .fociStm n seg tr rep div ss records)
    66 writeFociStm
    (by rintro o o' n b b' sz ⟨nf, seg, tr, rep, div, ss, records, hd⟩ hb hp
        exact pack_foci_tag o o' n b b' sz nf seg tr rep div ss records hd hb hp)
    dispatch_foci (fun s s' d a p h => writeFociStm_side s s' d a p h) StmSide_pre StmSide_fin
    (fun s s' h p => Pre_of_StmSide h p) fuel _ s t t' s' ⟨n, seg, tr, rep, div, ss, records, rfl⟩ p ht h
  exact ⟨this.1, this.2.1⟩

theorem sends_gstm_side (s : State) (t t' : Tx) (s' : State) (mode seg : Nat) (tr : Tr) (rep div : Nat)
    (patterns : Array (Array Nat)) (p : Pre s) (ht : TxOK t) (h : Sends (.gainStm mode seg tr rep div patterns) s t t' s') :
    StmSide s s' ∧ (Settled s → Settled s') := by
  obtain ⟨fuel, h⟩ := h
  have := sendLoop_side eraseStmSide stmAddr (fun d => ∃ mode seg tr rep div patterns, d = .gainStm mode seg tr rep div patterns)
    65 writeGainStm
    (by rintro o o' n b b' sz ⟨mode, seg, tr, rep, div, patterns, hd⟩ hb hp
        exact pack_gstm_tag o o' n b b' sz mode seg tr rep div patterns hd hb hp)
    dispatch_gstm (fun s s' d a p h => writeGainStm_side s s' d a p h) StmSide_pre StmSide_fin
    (fun s s' h p => Pre_of_StmSide h p) fuel _ s t t' s' ⟨mode, seg, tr, rep, div, patterns, rfl⟩ p ht h
  exact ⟨this.1, this.2.1⟩

/-! ### determinism of the send loop -/

theorem sendLoop_mono : ∀ fuel (o : Op) (s : State) (t : Tx) (r : Tx × State),
    sendLoop fuel o s t = some r → ∀ k, sendLoop (fuel + k) o s t = some r := by
  intro fuel
  induction fuel with
  | zero => intro o s t r h; cases h
  | succ fuel ih =>
    intro o s t r h k
    rw [show fuel + 1 + k = (fuel + k) + 1 by omega]
    unfold sendLoop at h ⊢
    split
    · rename_i hd; rw [if_pos hd] at h; exact h
    · rename_i hd; rw [if_neg hd] at h
      split at h
      · cases h
      · rename_i o1 t1 sz hp
        split at h
        · cases h
        · rename_i s1 hr
          split at h
          · rename_i hack
            simp only [hr, hack, if_true]
            exact ih _ _ _ _ h k
          · cases h

/-- the send loop is a function: two runs of the same datagram from the same state end in the same state -/
theorem Sends_unique (dg : Dg) (s : State) (t t1 t2 : Tx) (s1 s2 : State)
    (h1 : Sends dg s t t1 s1) (h2 : Sends dg s t t2 s2) : t1 = t2 ∧ s1 = s2 := by
  obtain ⟨f1, h1⟩ := h1
  obtain ⟨f2, h2⟩ := h2
  have a := sendLoop_mono f1 _ _ _ _ h1 f2
  have b := sendLoop_mono f2 _ _ _ _ h2 f1
  rw [Nat.add_comm] at b
  rw [a] at b
  simp only [Option.some.injEq, Prod.mk.injEq] at b
  exact b

end Autd3.Hist
