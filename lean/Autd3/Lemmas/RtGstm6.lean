import Autd3.Lemmas.RtGstm5
/-!
GainSTM, part 6: the final observation `GHeld` and the last-frame step lemmas.
-/
set_option linter.unusedSimpArgs false
open Autd3 Autd3.Fw Autd3.Wire Autd3.Gen.Cpu Autd3.Gen
namespace Autd3.Rt

/-- what a complete GainSTM send leaves behind -/
structure GHeld (s0 s' : State) (seg : Nat) (tr : Tr) (rep div mode : Nat) (patterns : Array (Array Nat)) : Prop where
  rows : ∀ idx, idx < patterns.size → ∀ i, i < s0.numTr →
    rd (Obs.stmMem s' seg) (256 * idx + i) = expDrive mode (rd (patAt patterns idx) i)
  hcycle : Obs.stmCycle s' seg = patterns.size
  hmode : Obs.isStmGainMode s' seg = true
  hdiv : Obs.stmDiv s' seg = div
  hrep : Obs.stmRep s' seg = rep
  cpuMode : sel s'.stmMode seg = STM_MODE_GAIN
  otherMem : Obs.stmMem s' (1 - seg) = Obs.stmMem s0 (1 - seg)
  otherRegs : Obs.stmDiv s' (1 - seg) = Obs.stmDiv s0 (1 - seg) ∧ Obs.stmRep s' (1 - seg) = Obs.stmRep s0 (1 - seg) ∧
    Obs.stmCycle s' (1 - seg) = Obs.stmCycle s0 (1 - seg) ∧ Obs.isStmGainMode s' (1 - seg) = Obs.isStmGainMode s0 (1 - seg)
  req : match tr with
    | none => s'.stmSwap = s0.stmSwap ∧ Obs.reqStmSeg s' = Obs.reqStmSeg s0 ∧
        Obs.stmTransition s' = Obs.stmTransition s0
    | some (m, v) => Obs.reqStmSeg s' = .ok seg ∧ Obs.stmTransition s' = .ok (tmodeOf m v) ∧
        SwapSet s0.stmSwap s'.stmSwap s0.dcSysTime rep div patterns.size seg (tmodeOf m v)

theorem GHeld_fin {s0 s : State} {seg : Nat} {tr : Tr} {rep div mode : Nat} {patterns : Array (Array Nat)}
    (h : GHeld s0 s seg tr rep div mode patterns) (id : Nat) : GHeld s0 (fin s id) seg tr rep div mode patterns := by
  refine ⟨by intro idx hidx i hi; rw [stmMem_fin]; exact h.rows idx hidx i hi, by rw [stmCycle_fin]; exact h.hcycle,
    by rw [isStmGainMode_fin]; exact h.hmode, by rw [stmDiv_fin]; exact h.hdiv, by rw [stmRep_fin]; exact h.hrep,
    h.cpuMode, by rw [stmMem_fin]; exact h.otherMem,
    by rw [stmDiv_fin, stmRep_fin, stmCycle_fin, isStmGainMode_fin]; exact h.otherRegs, ?_⟩
  have := h.req
  cases tr with
  | none => simp only [reqStmSeg_fin, stmTransition_fin]; exact this
  | some mv => obtain ⟨m, v⟩ := mv; simp only [reqStmSeg_fin, stmTransition_fin]; exact this

theorem gHeld_core {s0 sH s1 x : State} {seg : Nat} {tr : Tr} {rep div mode : Nat} {patterns : Array (Array Nat)} {c off : Nat}
    {fs : List (Nat → Nat)} {d : Array Nat} (hseg : seg ≤ 1) (hI : GInv s0 sH seg tr rep div mode patterns c)
    (R : GstmRows sH s1 seg c fs d off)
    (hd : ∀ j, j < fs.length → ∀ i, i < s0.numTr →
      nthF fs j (u16at d (off + 2 * i)) % 65536 = expDrive mode (rd (patAt patterns (c + j)) i))
    (hn : c + fs.length = patterns.size) (hP : 1 ≤ patterns.size ∧ patterns.size ≤ 1024)
    (hx : ∀ a, a ≠ 0 → a ≠ 81 → a ≠ 82 → ¬(95 ≤ a ∧ a ≤ 99) → reg x a = if a = 83 + seg then patterns.size - 1 else reg s1 a)
    (hm : ∀ g, Obs.stmMem x g = Obs.stmMem s1 g) :
    (∀ idx, idx < patterns.size → ∀ i, i < s0.numTr →
      rd (Obs.stmMem x seg) (256 * idx + i) = expDrive mode (rd (patAt patterns idx) i)) ∧
    Obs.stmCycle x seg = patterns.size ∧ Obs.isStmGainMode x seg = true ∧ Obs.stmDiv x seg = div ∧ Obs.stmRep x seg = rep ∧
    Obs.stmMem x (1 - seg) = Obs.stmMem s0 (1 - seg) ∧
    (Obs.stmDiv x (1 - seg) = Obs.stmDiv s0 (1 - seg) ∧ Obs.stmRep x (1 - seg) = Obs.stmRep s0 (1 - seg) ∧
      Obs.stmCycle x (1 - seg) = Obs.stmCycle s0 (1 - seg) ∧ Obs.isStmGainMode x (1 - seg) = Obs.isStmGainMode s0 (1 - seg)) := by
  have htr : ∀ a, 83 ≤ a → a ≤ 94 → a ≠ 83 + seg → reg x a = reg sH a := by
    intro a h1 h2 h3
    rw [hx a (by omega) (by omega) (by omega) (by omega), if_neg h3, R.regs]
  have hother : ∀ a, 83 ≤ a → a ≤ 94 → a ≠ 83 + seg → a ≠ 85 + seg → a ≠ 87 + seg → a ≠ 89 + seg → reg x a = reg s0 a := by
    intro a h1 h2 h3 h4 h5 h6
    rw [htr a h1 h2 h3]
    exact hI.regs a (by omega) (by omega) (by omega) h4 h5 h6
  refine ⟨?_, ?_, ?_, ?_, ?_, ?_, ?_, ?_, ?_, ?_⟩
  · intro idx hidx i hi; rw [hm]; exact grows_extend hI R hd idx (by omega) i hi
  · unfold Obs.stmCycle; simp only [ADDR_STM_CYCLE0]
    rw [hx _ (by omega) (by omega) (by omega) (by omega), if_pos rfl]; omega
  · have : reg x (ADDR_STM_MODE0 + seg) = STM_MODE_GAIN := by
      simp only [ADDR_STM_MODE0]; rw [htr _ (by omega) (by omega) (by omega), hI.modeReg]
    unfold Obs.isStmGainMode; rw [this]; rfl
  · unfold Obs.stmDiv; simp only [ADDR_STM_FREQ_DIV0]
    rw [htr _ (by omega) (by omega) (by omega), hI.divReg]
  · unfold Obs.stmRep; simp only [ADDR_STM_REP0]
    rw [htr _ (by omega) (by omega) (by omega), hI.repReg]
  · rw [hm, R.other _ (by rcases (show seg = 0 ∨ seg = 1 by omega) with h | h <;> subst h <;> simp),
      hI.other _ (by rcases (show seg = 0 ∨ seg = 1 by omega) with h | h <;> subst h <;> simp)]
  · unfold Obs.stmDiv; simp only [ADDR_STM_FREQ_DIV0]
    exact hother _ (by omega) (by omega) (by omega) (by omega) (by omega) (by omega)
  · unfold Obs.stmRep; simp only [ADDR_STM_REP0]
    exact hother _ (by omega) (by omega) (by omega) (by omega) (by omega) (by omega)
  · unfold Obs.stmCycle; simp only [ADDR_STM_CYCLE0]
    rw [hother _ (by omega) (by omega) (by omega) (by omega) (by omega) (by omega)]
  · have : reg x (ADDR_STM_MODE0 + (1 - seg)) = reg s0 (ADDR_STM_MODE0 + (1 - seg)) := by
      simp only [ADDR_STM_MODE0]
      exact hother _ (by omega) (by omega) (by omega) (by omega) (by omega) (by omega)
    unfold Obs.isStmGainMode; rw [this]

/-- the state after the END register write, shared by the two last-frame lemmas -/
theorem g_end_state {s0 sH s1 : State} {seg : Nat} {tr : Tr} {rep div mode : Nat} {patterns : Array (Array Nat)} {c off : Nat}
    {fs : List (Nat → Nat)} {d : Array Nat} (hseg : seg ≤ 1) (hI : GInv s0 sH seg tr rep div mode patterns c)
    (R : GstmRows sH s1 seg c fs d off) (hn : c + fs.length = patterns.size) (hP : 1 ≤ patterns.size ∧ patterns.size ≤ 1024) :
    WF (wr (setStmModeG (gstmPaged s1 patterns.size) seg) (ADDR_STM_CYCLE0 + seg) ((max patterns.size 1 - 1) % 65536)) ∧
    (∀ a, a ≠ 81 → reg (wr (setStmModeG (gstmPaged s1 patterns.size) seg) (ADDR_STM_CYCLE0 + seg)
      ((max patterns.size 1 - 1) % 65536)) a = if a = 83 + seg then patterns.size - 1 else reg s1 a) := by
  obtain ⟨pf, pc, pm, pmem, pwf⟩ := gstmPaged_props s1 patterns.size
  have hWP := WF_setStmModeG (pwf R.wf) seg
  have hne : ADDR_STM_CYCLE0 + seg ≠ ADDR_MOD_FREQ_DIV0 ∧ ADDR_STM_CYCLE0 + seg ≠ ADDR_MOD_FREQ_DIV1 ∧
      ADDR_STM_CYCLE0 + seg ≠ ADDR_STM_FREQ_DIV0 ∧ ADDR_STM_CYCLE0 + seg ≠ ADDR_STM_FREQ_DIV1 := by
    simp only [ADDR_STM_CYCLE0, ADDR_MOD_FREQ_DIV0, ADDR_MOD_FREQ_DIV1, ADDR_STM_FREQ_DIV0, ADDR_STM_FREQ_DIV1]; omega
  refine ⟨WF_wr hWP _ _ (Or.inl hne), ?_⟩
  intro a ha
  have e83 : ADDR_STM_CYCLE0 + seg = 83 + seg := rfl
  by_cases h : a = 83 + seg
  · rw [reg_wr, hWP.ctl, if_pos ⟨h.trans e83.symm, by rw [e83]; omega⟩, if_pos h]; omega
  · rw [reg_wr, if_neg (by intro hh; exact h (hh.1.trans e83)), reg_setStmModeG,
      reg_gstmPaged s1 R.wf.ctl _ _ (by omega), if_neg (fun hh => ha hh.1), if_neg h]

theorem g_tail_last_notr {s0 sH : State} {seg : Nat} {rep div mode : Nat} {patterns : Array (Array Nat)} {c : Nat}
    (hseg : seg ≤ 1) (hm : mode ≤ 2) (hI : GInv s0 sH seg none rep div mode patterns c) (d : Array Nat) (off flag : Nat)
    (hn : c + (gstmFns mode ((flag >>> 6) + 1)).length = patterns.size) (hP : 1 ≤ patterns.size ∧ patterns.size ≤ 1024)
    (hpg : c % 64 + (gstmFns mode ((flag >>> 6) + 1)).length ≤ 64)
    (hd : ∀ j, j < (gstmFns mode ((flag >>> 6) + 1)).length → ∀ i, i < s0.numTr →
      nthF (gstmFns mode ((flag >>> 6) + 1)) j (u16at d (off + 2 * i)) % 65536 = expDrive mode (rd (patAt patterns (c + j)) i))
    (hE : hasFlag flag GAIN_STM_FLAG_END = true) (hU : hasFlag flag GAIN_STM_FLAG_UPDATE = false) :
    ∃ sE, gstmTail sH d off flag seg = .ok (sE, NO_ERR) ∧ WF sE ∧ GHeld s0 sE seg none rep div mode patterns ∧
      sE.lastMsgId = sH.lastMsgId := by
  rw [gstmTail_eq _ _ _ _ _ (by rw [hI.gmode]; exact hm), hI.gmode]
  generalize hfs : gstmFns mode ((flag >>> 6) + 1) = fs at *
  obtain ⟨s1, h1, R⟩ := gstmWriteList_ok seg off d hseg (c / 64) fs sH c hI.wf hI.cyc (by omega) hI.wseg hI.page
    (fun j hj => by omega)
  have hc' : sel s1.stmCycle seg = patterns.size := by rw [R.cyc, hn]
  rw [h1, ok_bind, gstmEndPart_page s1 flag seg _ hc' (by omega)]
  simp only [hE, hU, if_true, Bool.false_eq_true, if_false]
  rw [ctlWrite_main _ _ _ (by simp only [ADDR_STM_CYCLE0]; omega), ok_bind]
  obtain ⟨hWW, hx⟩ := g_end_state hseg hI R hn hP
  obtain ⟨pf, pc, pm, pmem, pwf⟩ := gstmPaged_props s1 patterns.size
  refine ⟨_, rfl, hWW, ?_, ?_⟩
  · obtain ⟨a1, a2, a3, a4, a5, a6, a7⟩ := gHeld_core hseg hI R hd hn hP (fun a _ h81 _ _ => hx a h81)
      (fun g => by rw [stmMem_wr, stmMem_setStmModeG, pmem])
    refine ⟨a1, a2, a3, a4, a5, ?_, a6, a7, ?_⟩
    · rw [wr_stmMode, setStmModeG_stmMode, sel_setSel_same]
    have hreq : ∀ a, a = 82 ∨ (95 ≤ a ∧ a ≤ 99) →
        reg (wr (setStmModeG (gstmPaged s1 patterns.size) seg) (ADDR_STM_CYCLE0 + seg)
          ((max patterns.size 1 - 1) % 65536)) a = reg s0 a := by
      intro a ha
      rw [hx a (by omega), if_neg (by omega), R.regs]
      exact hI.regs a (by omega) (by omega) (by omega) (by omega) (by omega) (by omega)
    refine ⟨?_, ?_, ?_⟩
    · rw [wr_stmSwap, setStmModeG_stmSwap, pf.stmSwap, R.frame.stmSwap]; exact hI.swap
    · unfold Obs.reqStmSeg segReg
      simp only [hreq ADDR_STM_REQ_RD_SEGMENT (Or.inl rfl)]
    · unfold Obs.stmTransition reg64
      simp only [hreq ADDR_STM_TRANSITION_MODE (Or.inr (by decide)), hreq ADDR_STM_TRANSITION_VALUE_0 (Or.inr (by decide)),
        hreq (ADDR_STM_TRANSITION_VALUE_0 + 1) (Or.inr (by decide)), hreq (ADDR_STM_TRANSITION_VALUE_0 + 2) (Or.inr (by decide)),
        hreq (ADDR_STM_TRANSITION_VALUE_0 + 3) (Or.inr (by decide))]
  · rw [wr_lastMsgId, setStmModeG_lastMsgId, pf.lastMsgId, R.frame.lastMsgId]

theorem g_tail_last_tr {s0 sH : State} {seg : Nat} {rep div mode : Nat} {patterns : Array (Array Nat)} {c m v : Nat}
    (hseg : seg ≤ 1) (hm : mode ≤ 2) (hI : GInv s0 sH seg (some (m, v)) rep div mode patterns c) (d : Array Nat) (off flag : Nat)
    (hn : c + (gstmFns mode ((flag >>> 6) + 1)).length = patterns.size) (hP : 1 ≤ patterns.size ∧ patterns.size ≤ 1024)
    (hpg : c % 64 + (gstmFns mode ((flag >>> 6) + 1)).length ≤ 64)
    (hd : ∀ j, j < (gstmFns mode ((flag >>> 6) + 1)).length → ∀ i, i < s0.numTr →
      nthF (gstmFns mode ((flag >>> 6) + 1)) j (u16at d (off + 2 * i)) % 65536 = expDrive mode (rd (patAt patterns (c + j)) i))
    (hE : hasFlag flag GAIN_STM_FLAG_END = true) (hU : hasFlag flag GAIN_STM_FLAG_UPDATE = true)
    (hv : ValidTr m v) (hv64 : v < 18446744073709551616)
    (hmiss : ¬(m = TRANSITION_MODE_SYS_TIME ∧ v < s0.dcSysTime + SYS_TIME_TRANSITION_MARGIN)) :
    ∃ sE, gstmTail sH d off flag seg = .ok (sE, NO_ERR) ∧ WF sE ∧ GHeld s0 sE seg (some (m, v)) rep div mode patterns ∧
      sE.lastMsgId = sH.lastMsgId := by
  rw [gstmTail_eq _ _ _ _ _ (by rw [hI.gmode]; exact hm), hI.gmode]
  generalize hfs : gstmFns mode ((flag >>> 6) + 1) = fs at *
  obtain ⟨s1, h1, R⟩ := gstmWriteList_ok seg off d hseg (c / 64) fs sH c hI.wf hI.cyc (by omega) hI.wseg hI.page
    (fun j hj => by omega)
  have hc' : sel s1.stmCycle seg = patterns.size := by rw [R.cyc, hn]
  rw [h1, ok_bind, gstmEndPart_page s1 flag seg _ hc' (by omega)]
  simp only [hE, hU, if_true]
  rw [ctlWrite_main _ _ _ (by simp only [ADDR_STM_CYCLE0]; omega), ok_bind]
  obtain ⟨hWW, hx⟩ := g_end_state hseg hI R hn hP
  obtain ⟨pf, pc, pm, pmem, pwf⟩ := gstmPaged_props s1 patterns.size
  have htm : (wr (setStmModeG (gstmPaged s1 patterns.size) seg) (ADDR_STM_CYCLE0 + seg)
      ((max patterns.size 1 - 1) % 65536)).stmTrMode = m := by
    rw [wr_stmTrMode, setStmModeG_stmTrMode, pf.stmTrMode, R.frame.stmTrMode, hI.trMode]; rfl
  have htv : (wr (setStmModeG (gstmPaged s1 patterns.size) seg) (ADDR_STM_CYCLE0 + seg)
      ((max patterns.size 1 - 1) % 65536)).stmTrValue = v := by
    rw [wr_stmTrValue, setStmModeG_stmTrValue, pf.stmTrValue, R.frame.stmTrValue, hI.trValue]; rfl
  have htime : (wr (setStmModeG (gstmPaged s1 patterns.size) seg) (ADDR_STM_CYCLE0 + seg)
      ((max patterns.size 1 - 1) % 65536)).dcSysTime = s0.dcSysTime := by
    rw [wr_dcSysTime, setStmModeG_dcSysTime, pf.dcSysTime, R.frame.dcSysTime, hI.time]
  have hsw : (wr (setStmModeG (gstmPaged s1 patterns.size) seg) (ADDR_STM_CYCLE0 + seg)
      ((max patterns.size 1 - 1) % 65536)).stmSwap = s0.stmSwap := by
    rw [wr_stmSwap, setStmModeG_stmSwap, pf.stmSwap, R.frame.stmSwap, hI.swap]
  have hlm : (wr (setStmModeG (gstmPaged s1 patterns.size) seg) (ADDR_STM_CYCLE0 + seg)
      ((max patterns.size 1 - 1) % 65536)).lastMsgId = sH.lastMsgId := by
    rw [wr_lastMsgId, setStmModeG_lastMsgId, pf.lastMsgId, R.frame.lastMsgId]
  have hmm : ∀ g, Obs.stmMem (wr (setStmModeG (gstmPaged s1 patterns.size) seg) (ADDR_STM_CYCLE0 + seg)
      ((max patterns.size 1 - 1) % 65536)) g = Obs.stmMem s1 g := fun g => by rw [stmMem_wr, stmMem_setStmModeG, pmem]
  have hcm : sel (wr (setStmModeG (gstmPaged s1 patterns.size) seg) (ADDR_STM_CYCLE0 + seg)
      ((max patterns.size 1 - 1) % 65536)).stmMode seg = STM_MODE_GAIN := by
    rw [wr_stmMode, setStmModeG_stmMode, sel_setSel_same]
  generalize hsW : wr (setStmModeG (gstmPaged s1 patterns.size) seg) (ADDR_STM_CYCLE0 + seg)
    ((max patterns.size 1 - 1) % 65536) = sW at hx hWW htm htv htime hsw hlm hmm hcm
  obtain ⟨w', hu, hset, hW1, hregs, h64⟩ := stmSegmentUpdate_ok sW hWW seg m v hseg hv hv64 (by rw [htime]; exact hmiss)
  refine ⟨_, by rw [htm, htv, hu], hW1, ?_, ?_⟩
  · have hm' : ∀ g, Obs.stmMem (stmReqPost sW seg m v w') g = Obs.stmMem s1 g := by
      intro g; rw [← hmm g]; unfold Obs.stmMem; simp [stmReqPost]
    obtain ⟨a1, a2, a3, a4, a5, a6, a7⟩ := gHeld_core (x := stmReqPost sW seg m v w') hseg hI R hd hn hP
      (fun a h0 h81 h82 h95 => by
        rw [hregs a h0, if_neg (by omega), if_neg h82, if_neg (by omega)]; exact hx a h81) hm'
    refine ⟨a1, a2, a3, a4, a5, ?_, a6, a7, ?_, ?_, ?_⟩
    · have : (stmReqPost sW seg m v w').stmMode = sW.stmMode := by simp [stmReqPost]
      rw [this]; exact hcm
    · unfold Obs.reqStmSeg segReg
      simp only [hregs _ (show ADDR_STM_REQ_RD_SEGMENT ≠ 0 by decide)]
      simp [ADDR_STM_REQ_RD_SEGMENT, hseg]
    · unfold Obs.stmTransition
      rw [h64, hregs _ (by decide)]
      exact decodeTMode_valid _ _ _ hv
    · have e1 : reg sW (ADDR_STM_REP0 + seg) = rep := by
        simp only [ADDR_STM_REP0]; rw [hx _ (by omega), if_neg (by omega), R.regs]; exact hI.repReg
      have e2 : reg sW (ADDR_STM_FREQ_DIV0 + seg) = div := by
        simp only [ADDR_STM_FREQ_DIV0]; rw [hx _ (by omega), if_neg (by omega), R.regs]; exact hI.divReg
      have e3 : reg sW (ADDR_STM_CYCLE0 + seg) + 1 = patterns.size := by
        simp only [ADDR_STM_CYCLE0]; rw [hx _ (by omega), if_pos rfl]; omega
      rw [e1, e2, e3, hsw, htime] at hset
      have : (stmReqPost sW seg m v w').stmSwap = w' := by simp [stmReqPost]
      rw [this]; exact hset
  · have : (stmReqPost sW seg m v w').lastMsgId = sW.lastMsgId := by simp [stmReqPost]
    rw [this, hlm]

end Autd3.Rt
