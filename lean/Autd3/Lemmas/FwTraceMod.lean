import Autd3.Lemmas.FwTraceGuard
/-!
C19 trace layer: `write_mod` for every frame of a Modulation write (BEGIN / middle / END, either segment, any
payload, with or without transition).

The handler is cut into the BEGIN block (executed symbolically in `writeMod_step`), the *tail* `modTail` (the one
or two bulk writes, shared by BEGIN and continuation frames) and the *END block* `modEnd` (cycle register,
optional `mod_segment_update`).  `modTail` / `modEnd` are written so that they are definitionally the terms the
`do` block of `writeMod` elaborates to.
-/
set_option linter.unusedSimpArgs false
set_option linter.unusedVariables false
namespace Autd3.Fw
open Autd3.Gen.Cpu
open Autd3.Gen

/-! ### what the data part keeps of the state before it -/

/-- `W` agrees with `X` on everything the END block of `write_mod` and `Chain` read -/
structure ModKeep (X W : State) : Prop where
  modSwap : W.modSwap = X.modSwap
  tm : W.modTrMode = X.modTrMode
  tv : W.modTrValue = X.modTrValue
  r32 : rd W.ctl 32 = rd X.ctl 32
  r39 : rd W.ctl 39 = rd X.ctl 39
  r40 : rd W.ctl 40 = rd X.ctl 40
  chain : Chain X → Chain W

theorem ModKeep.trans {a b c : State} (h1 : ModKeep a b) (h2 : ModKeep b c) : ModKeep a c :=
  ⟨h2.modSwap.trans h1.modSwap, h2.tm.trans h1.tm, h2.tv.trans h1.tv, h2.r32.trans h1.r32, h2.r39.trans h1.r39,
   h2.r40.trans h1.r40, fun hc => h2.chain (h1.chain hc)⟩

theorem ModKeep.rep {X W : State} (k : ModKeep X W) {seg : Nat} (hseg : seg ≤ 1) :
    rd W.ctl (39 + seg) = rd X.ctl (39 + seg) := by
  have : seg = 0 ∨ seg = 1 := by omega
  rcases this with rfl | rfl
  · exact k.r39
  · exact k.r40

/-- a bulk write into the modulation BRAM: never panics inside the BRAM, keeps `Base` and `ModKeep` -/
theorem modWriteWords_keep (X : State) (base : Nat) (words : Array Nat) (hB : Base X)
    (hseg : rd X.ctl 32 ≤ 1)
    (h1 : base % 16384 + words.size ≤ 16384)
    (h2 : rd X.ctl 33 * 16384 + base % 16384 + words.size ≤ 32768) :
    ∃ Z, modWriteWords X base words = .ok Z ∧ Base Z ∧ ModKeep X Z ∧ Z.modCycle = X.modCycle := by
  obtain ⟨Z, e, hBZ, c, hC, hZeq⟩ := modWriteWords_step X base words hB hseg h1 h2
  have e0 : Z.ctl = X.ctl := by rw [hZeq]
  refine ⟨Z, e, hBZ, ⟨by rw [hZeq], by rw [hZeq], by rw [hZeq], by rw [e0], by rw [e0], by rw [e0], hC⟩, by rw [hZeq]⟩

/-- the page number written between the two bulk writes is 0 or 1 -/
theorem mod_page_le (x : Nat) :
    ((x % 65536 &&& (65535 - MOD_BUF_PAGE_SIZE_MASK)) >>> MOD_BUF_PAGE_SIZE_WIDTH) % 65536 ≤ 1 := by
  have h : x % 65536 &&& (65535 - MOD_BUF_PAGE_SIZE_MASK) ≤ 65535 - MOD_BUF_PAGE_SIZE_MASK := Nat.and_le_right
  simp only [MOD_BUF_PAGE_SIZE_MASK, MOD_BUF_PAGE_SIZE_WIDTH, Nat.shiftRight_eq_div_pow] at h ⊢
  omega

/-! ### the END block -/

/-- the END block of `write_mod` on the state `W` left by the data part -/
def modEnd (W : State) (flag seg : Nat) : M (State × Nat) :=
  if hasFlag flag MODULATION_FLAG_END = true then do
    let s ← ctlWrite W (ADDR_MOD_CYCLE0 + seg) ((max W.modCycle 1 - 1) % 65536)
    if hasFlag flag MODULATION_FLAG_UPDATE = true then modSegmentUpdate s seg s.modTrMode s.modTrValue
    else pure (s, NO_ERR)
  else pure (W, NO_ERR)

theorem modEnd_step (W : State) (flag seg : Nat) (hB : Base W) (hseg : seg ≤ 1)
    (hupd : hasFlag flag MODULATION_FLAG_END = true → hasFlag flag MODULATION_FLAG_UPDATE = true →
      ModeOK W.modTrMode W.modTrValue) :
    ∃ s' ack, modEnd W flag seg = .ok (s', ack) ∧ Base s' ∧
      (Chain W → (hasFlag flag MODULATION_FLAG_END = true → hasFlag flag MODULATION_FLAG_UPDATE = true →
        SetGuard W.modSwap seg (rd W.ctl (39 + seg)) W.modTrMode) → Chain s') := by
  unfold modEnd
  by_cases he : hasFlag flag MODULATION_FLAG_END = true
  · rw [if_pos he]
    have hs01 : seg = 0 ∨ seg = 1 := by omega
    have hlt : ADDR_MOD_CYCLE0 + seg < 256 := by simp only [ADDR_MOD_CYCLE0]; omega
    have hsz := hB.shape.ctl
    generalize hv : (max W.modCycle 1 - 1) % 65536 = v
    have hv' : v % 65536 < 65536 := by omega
    rw [ctlWrite_main _ _ _ hlt, ok_bind]
    generalize hY : State.mk _ _ _ _ _ _ _ _ _ _ _ _ _ _ _ _ _ _ _ _ _ _ _ _ _ _ _ _ _ _ _ _ _ _ _ _ _ _ _ = Y
    have hBY : Base Y := by
      subst hY
      rcases hs01 with rfl | rfl
      · base_tac hB with ADDR_MOD_CYCLE0, hv'
      · base_tac hB with ADDR_MOD_CYCLE0, hv'
    have hCY : Chain W → Chain Y := by
      intro hc
      subst hY
      rcases hs01 with rfl | rfl <;>
        exact hc.of_regs rfl rfl (by simp [rd_set, ADDR_MOD_CYCLE0]) (by simp [rd_set, ADDR_MOD_CYCLE0])
          (by simp [rd_set, ADDR_MOD_CYCLE0]) (by simp [rd_set, ADDR_MOD_CYCLE0])
    by_cases hu : hasFlag flag MODULATION_FLAG_UPDATE = true
    · rw [if_pos hu]
      have e1 : Y.modTrMode = W.modTrMode := by subst hY; rfl
      have e2 : Y.modTrValue = W.modTrValue := by subst hY; rfl
      have e3 : Y.modSwap = W.modSwap := by subst hY; rfl
      have e4 : rd Y.ctl (39 + seg) = rd W.ctl (39 + seg) := by
        subst hY
        rcases hs01 with rfl | rfl <;> simp [rd_set, ADDR_MOD_CYCLE0]
      obtain ⟨s', ack, e, hB', hC'⟩ := modSegmentUpdate_step Y seg Y.modTrMode Y.modTrValue hBY hseg
        (by rw [e1, e2]; exact hupd he hu)
      refine ⟨s', ack, e, hB', fun hc g => hC' (hCY hc) ?_⟩
      rw [e1, e3, e4]
      exact g he hu
    · rw [if_neg hu]
      exact ⟨_, _, rfl, hBY, fun hc _ => hCY hc⟩
  · rw [if_neg he]
    exact ⟨_, _, rfl, hB, fun hc _ => hc⟩

/-! ### the data part -/

/-- `write_mod` after the header was consumed: `X` is the state then, `c` its `modCycle`, `write` the size field,
`off` the offset of the payload in the frame -/
def modTail (X : State) (c : Nat) (d : Array Nat) (flag seg write off : Nat) : M (State × Nat) :=
  if write < MOD_BUF_PAGE_SIZE - (c % 65536 &&& MOD_BUF_PAGE_SIZE_MASK) then do
    let s ← modWriteWords X ((c % 65536 &&& MOD_BUF_PAGE_SIZE_MASK) >>> 1) (wordsAt d off ((write + 1) >>> 1))
    modEnd { s with modCycle := s.modCycle + write } flag seg
  else do
    let s1 ← modWriteWords X ((c % 65536 &&& MOD_BUF_PAGE_SIZE_MASK) >>> 1)
      (wordsAt d off ((MOD_BUF_PAGE_SIZE - (c % 65536 &&& MOD_BUF_PAGE_SIZE_MASK)) >>> 1))
    let s2 ← ctlWrite { s1 with modCycle := s1.modCycle + (MOD_BUF_PAGE_SIZE - (c % 65536 &&& MOD_BUF_PAGE_SIZE_MASK)) }
      ADDR_MOD_MEM_WR_PAGE
      (((s1.modCycle + (MOD_BUF_PAGE_SIZE - (c % 65536 &&& MOD_BUF_PAGE_SIZE_MASK))) % 65536 &&&
        (65535 - MOD_BUF_PAGE_SIZE_MASK)) >>> MOD_BUF_PAGE_SIZE_WIDTH)
    let s3 ← modWriteWords s2 0
      (wordsAt d (off + 2 * ((MOD_BUF_PAGE_SIZE - (c % 65536 &&& MOD_BUF_PAGE_SIZE_MASK)) >>> 1))
        ((write - (MOD_BUF_PAGE_SIZE - (c % 65536 &&& MOD_BUF_PAGE_SIZE_MASK)) + 1) >>> 1))
    modEnd { s3 with modCycle := s3.modCycle + (write - (MOD_BUF_PAGE_SIZE - (c % 65536 &&& MOD_BUF_PAGE_SIZE_MASK))) }
      flag seg

/-- the data part and the END block from any `Base` state whose write registers are valid, for any size field up
to one segment: never panics, keeps `Base`, keeps `Chain` under the `SetGuard` of the request it may issue -/
theorem modTail_step (X : State) (c : Nat) (d : Array Nat) (flag seg write off : Nat) (hB : Base X)
    (h32 : rd X.ctl 32 ≤ 1) (hseg : seg ≤ 1) (hw : write ≤ 32768)
    (hupd : hasFlag flag MODULATION_FLAG_END = true → hasFlag flag MODULATION_FLAG_UPDATE = true →
      ModeOK X.modTrMode X.modTrValue) :
    ∃ s' ack, modTail X c d flag seg write off = .ok (s', ack) ∧ Base s' ∧
      (Chain X → (hasFlag flag MODULATION_FLAG_END = true → hasFlag flag MODULATION_FLAG_UPDATE = true →
        SetGuard X.modSwap seg (rd X.ctl (39 + seg)) X.modTrMode) → Chain s') := by
  unfold modTail
  have hm : c % 65536 &&& MOD_BUF_PAGE_SIZE_MASK ≤ MOD_BUF_PAGE_SIZE_MASK := Nat.and_le_right
  generalize c % 65536 &&& MOD_BUF_PAGE_SIZE_MASK = m at hm
  simp only [MOD_BUF_PAGE_SIZE_MASK] at hm
  have hpage := hB.mpage
  by_cases hlt : write < MOD_BUF_PAGE_SIZE - m
  · rw [if_pos hlt]
    simp only [MOD_BUF_PAGE_SIZE] at hlt
    obtain ⟨Z, e, hBZ, k, hcy⟩ := modWriteWords_keep X (m >>> 1) (wordsAt d off ((write + 1) >>> 1)) hB h32
      (by rw [wordsAt_size]; simp only [Nat.shiftRight_eq_div_pow]; omega)
      (by rw [wordsAt_size]; simp only [Nat.shiftRight_eq_div_pow]; omega)
    rw [e, ok_bind]
    generalize hW : State.mk _ _ _ _ _ _ _ _ _ _ _ _ _ _ _ _ _ _ _ _ _ _ _ _ _ _ _ _ _ _ _ _ _ _ _ _ _ _ _ = W
    have c0 : SameB Z W := by subst hW; exact SameB.refl' rfl rfl rfl rfl
    have hBW : Base W := hBZ.transfer c0 (by subst hW; exact hBZ.shape.transfer rfl rfl rfl rfl rfl rfl rfl rfl)
      (by subst hW; exact hBZ.flags)
    have kW : ModKeep X W := k.trans (by
      subst hW; exact ⟨rfl, rfl, rfl, rfl, rfl, rfl, fun hc => hc.transfer c0⟩)
    obtain ⟨s', ack, e', hB', hC'⟩ := modEnd_step W flag seg hBW hseg (by rw [kW.tm, kW.tv]; exact hupd)
    refine ⟨s', ack, e', hB', fun hc g => hC' (kW.chain hc) fun he hu => ?_⟩
    rw [kW.modSwap, kW.rep hseg, kW.tm]
    exact g he hu
  · rw [if_neg hlt]
    simp only [MOD_BUF_PAGE_SIZE] at hlt ⊢
    obtain ⟨Z1, e1, hBZ1, k1, hcy1⟩ := modWriteWords_keep X (m >>> 1) (wordsAt d off ((32768 - m) >>> 1)) hB h32
      (by rw [wordsAt_size]; simp only [Nat.shiftRight_eq_div_pow]; omega)
      (by rw [wordsAt_size]; simp only [Nat.shiftRight_eq_div_pow]; omega)
    rw [e1, ok_bind]
    have hpg := mod_page_le (Z1.modCycle + (32768 - m))
    generalize ((Z1.modCycle + (32768 - m)) % 65536 &&& (65535 - MOD_BUF_PAGE_SIZE_MASK)) >>> MOD_BUF_PAGE_SIZE_WIDTH = pg
      at hpg
    rw [ctlWrite_main _ ADDR_MOD_MEM_WR_PAGE _ (by decide), ok_bind]
    generalize hW2 : State.mk _ _ _ _ _ _ _ _ _ _ _ _ _ _ _ _ _ _ _ _ _ _ _ _ _ _ _ _ _ _ _ _ _ _ _ _ _ _ _ = W2
    have hsz := hBZ1.shape.ctl
    have hBW2 : Base W2 := by subst hW2; base_tac hBZ1 with ADDR_MOD_MEM_WR_PAGE, hpg
    have kW2 : ModKeep Z1 W2 := by
      subst hW2
      refine ⟨rfl, rfl, rfl, by simp [rd_set, ADDR_MOD_MEM_WR_PAGE], by simp [rd_set, ADDR_MOD_MEM_WR_PAGE],
        by simp [rd_set, ADDR_MOD_MEM_WR_PAGE], fun hc => ?_⟩
      exact hc.of_regs rfl rfl (by simp [rd_set, ADDR_MOD_MEM_WR_PAGE]) (by simp [rd_set, ADDR_MOD_MEM_WR_PAGE])
        (by simp [rd_set, ADDR_MOD_MEM_WR_PAGE]) (by simp [rd_set, ADDR_MOD_MEM_WR_PAGE])
    have hpage2 := hBW2.mpage
    obtain ⟨Z3, e3, hBZ3, k3, hcy3⟩ := modWriteWords_keep W2 0
      (wordsAt d (off + 2 * ((32768 - m) >>> 1)) ((write - (32768 - m) + 1) >>> 1)) hBW2
      (by rw [kW2.r32, k1.r32]; exact h32)
      (by rw [wordsAt_size]; simp only [Nat.shiftRight_eq_div_pow]; omega)
      (by rw [wordsAt_size]; simp only [Nat.shiftRight_eq_div_pow]; omega)
    rw [e3, ok_bind]
    generalize hW : State.mk _ _ _ _ _ _ _ _ _ _ _ _ _ _ _ _ _ _ _ _ _ _ _ _ _ _ _ _ _ _ _ _ _ _ _ _ _ _ _ = W
    have c0 : SameB Z3 W := by subst hW; exact SameB.refl' rfl rfl rfl rfl
    have hBW : Base W := hBZ3.transfer c0 (by subst hW; exact hBZ3.shape.transfer rfl rfl rfl rfl rfl rfl rfl rfl)
      (by subst hW; exact hBZ3.flags)
    have kW : ModKeep X W := (k1.trans (kW2.trans k3)).trans (by
      subst hW; exact ⟨rfl, rfl, rfl, rfl, rfl, rfl, fun hc => hc.transfer c0⟩)
    obtain ⟨s', ack, e', hB', hC'⟩ := modEnd_step W flag seg hBW hseg (by rw [kW.tm, kW.tv]; exact hupd)
    refine ⟨s', ack, e', hB', fun hc g => hC' (kW.chain hc) fun he hu => ?_⟩
    rw [kW.modSwap, kW.rep hseg, kW.tm]
    exact g he hu

/-! ### the handler -/

/-- every frame of a Modulation write (BEGIN / middle / END, any payload bytes, either segment, with or without
transition): `write_mod` never panics from a `Base` state, keeps `Base`, and keeps `Chain` under `ModExcl` -/
theorem writeMod_step (s : State) (d : Array Nat) (hB : Base s) (hok : ModOK s d) :
    ∃ s' ack, writeMod s d = .ok (s', ack) ∧ Base s' ∧ (Chain s → ModExcl s d → Chain s') := by
  unfold writeMod
  simp only []
  generalize hsg : (if u8at d FwLayout.ModulationHead_flag_off &&& MODULATION_FLAG_SEGMENT ≠ 0 then 1 else 0) = seg
  have hseg' : modSeg d = seg := hsg
  have hs01 : seg = 0 ∨ seg = 1 := by subst hsg; split <;> simp
  have hseg : seg ≤ 1 := by omega
  have hsz := hB.shape.ctl
  by_cases hb : modBegin d = true
  · -- BEGIN frame
    have hb' : hasFlag (u8at d FwLayout.ModulationHead_flag_off) MODULATION_FLAG_BEGIN = true := hb
    rw [if_pos hb']
    have c00 : SameB s { s with modCycle := 0 } := SameB.refl' rfl rfl rfl rfl
    have hc0 : Base { s with modCycle := 0 } :=
      hB.transfer c00 (hB.shape.transfer rfl rfl rfl rfl rfl rfl rfl rfl) hB.flags
    split
    · exact ⟨_, _, rfl, hc0, fun hc _ => hc.transfer c00⟩
    rename_i hval
    split
    · exact ⟨_, _, rfl, hc0, fun hc _ => hc.transfer c00⟩
    rename_i hsil
    have hacc : modAccepted s d = true := by
      unfold modAccepted
      rw [hseg']
      have h1 : validateTransitionMode s.modSegment seg (u16at d FwLayout.ModulationHead_rep_off)
          (u8at d FwLayout.ModulationHead_transition_mode_off) = false := by simpa using hval
      have h2 : validateSilencerSettings s (sel s.stmDiv s.stmSegment)
          (u16at d FwLayout.ModulationHead_freq_div_off) = false := by
        have : validateSilencerSettings s (sel s.stmDiv s.stmSegment) (u16at d FwLayout.ModulationHead_freq_div_off) =
            validateSilencerSettings { s with modCycle := 0 } (sel s.stmDiv s.stmSegment)
              (u16at d FwLayout.ModulationHead_freq_div_off) := rfl
        rw [this]; simpa using hsil
      rw [h1, h2]; simp
    have hdiv := hok.div hb
    have hrep := u16at_lt d FwLayout.ModulationHead_rep_off
    have hfd := u16at_lt d FwLayout.ModulationHead_freq_div_off
    have hsize := u8at_lt d FwLayout.ModulationHead_size_off
    have e1 : u16at d FwLayout.ModulationHead_freq_div_off % 65536 = u16at d FwLayout.ModulationHead_freq_div_off :=
      Nat.mod_eq_of_lt hfd
    have e2 : u16at d FwLayout.ModulationHead_rep_off % 65536 = u16at d FwLayout.ModulationHead_rep_off :=
      Nat.mod_eq_of_lt hrep
    have l1 : ADDR_MOD_FREQ_DIV0 + seg < 256 := by simp only [ADDR_MOD_FREQ_DIV0]; omega
    have l2 : ADDR_MOD_REP0 + seg < 256 := by simp only [ADDR_MOD_REP0]; omega
    have htmE : modEffTm s d = u8at d FwLayout.ModulationHead_transition_mode_off := by
      unfold modEffTm; rw [if_pos hb]
    have htvE : modEffTv s d = u64at d FwLayout.ModulationHead_transition_value_off := by
      unfold modEffTv; rw [if_pos hb]
    have hrepE : modEffRep s d = u16at d FwLayout.ModulationHead_rep_off := by
      unfold modEffRep; rw [if_pos hb]
    split
    all_goals
      rw [ctlWrite_main _ _ _ l1, ok_bind, ctlWrite_main _ _ _ l2, ok_bind,
        ctlWrite_main _ ADDR_MOD_MEM_WR_SEGMENT _ (by decide), ok_bind,
        ctlWrite_main _ ADDR_MOD_MEM_WR_PAGE _ (by decide), ok_bind]
      generalize hX : State.mk _ _ _ _ _ _ _ _ _ _ _ _ _ _ _ _ _ _ _ _ _ _ _ _ _ _ _ _ _ _ _ _ _ _ _ _ _ _ _ = X
      have h0 : Base X := by
        subst hX
        rcases hs01 with rfl | rfl
        · base_tac hB with ADDR_MOD_FREQ_DIV0, ADDR_MOD_REP0, ADDR_MOD_MEM_WR_SEGMENT, ADDR_MOD_MEM_WR_PAGE, e1, e2, hdiv
        · base_tac hB with ADDR_MOD_FREQ_DIV0, ADDR_MOD_REP0, ADDR_MOD_MEM_WR_SEGMENT, ADDR_MOD_MEM_WR_PAGE, e1, e2, hdiv
      have hX32 : rd X.ctl 32 ≤ 1 := by
        subst hX
        rcases hs01 with rfl | rfl <;> simp [rd_set, hsz, ADDR_MOD_FREQ_DIV0, ADDR_MOD_REP0, ADDR_MOD_MEM_WR_SEGMENT, ADDR_MOD_MEM_WR_PAGE]
      have hXrep : rd X.ctl (39 + seg) = u16at d FwLayout.ModulationHead_rep_off := by
        subst hX
        rcases hs01 with rfl | rfl <;> simp [rd_set, hsz, ADDR_MOD_FREQ_DIV0, ADDR_MOD_REP0, ADDR_MOD_MEM_WR_SEGMENT, ADDR_MOD_MEM_WR_PAGE, e2]
      have hXswap : X.modSwap = s.modSwap := by subst hX; rfl
      have hXtm : X.modTrMode = u8at d FwLayout.ModulationHead_transition_mode_off := by subst hX; rfl
      have hXtv : X.modTrValue = u64at d FwLayout.ModulationHead_transition_value_off := by subst hX; rfl
      have hXc : Chain s → Chain X := by
        intro hc
        subst hX
        rcases hs01 with rfl | rfl <;>
          exact hc.of_regs rfl rfl (by simp [rd_set, ADDR_MOD_FREQ_DIV0, ADDR_MOD_REP0, ADDR_MOD_MEM_WR_SEGMENT, ADDR_MOD_MEM_WR_PAGE])
            (by simp [rd_set, ADDR_MOD_FREQ_DIV0, ADDR_MOD_REP0, ADDR_MOD_MEM_WR_SEGMENT, ADDR_MOD_MEM_WR_PAGE]) (by simp [rd_set, ADDR_MOD_FREQ_DIV0, ADDR_MOD_REP0, ADDR_MOD_MEM_WR_SEGMENT, ADDR_MOD_MEM_WR_PAGE])
            (by simp [rd_set, ADDR_MOD_FREQ_DIV0, ADDR_MOD_REP0, ADDR_MOD_MEM_WR_SEGMENT, ADDR_MOD_MEM_WR_PAGE])
      obtain ⟨s', ack, e, hB', hC'⟩ := modTail_step X X.modCycle d (modFlag d) seg (u8at d FwLayout.ModulationHead_size_off)
        FwLayout.ModulationHead_size h0 hX32 hseg (by omega)
        (by rw [hXtm, hXtv, ← htmE, ← htvE]; exact hok.upd)
      refine ⟨s', ack, e, hB', fun hc hx => hC' (hXc hc) fun he hu => ?_⟩
      rw [hXswap, hXrep, hXtm, ← hrepE, ← htmE, ← hseg']
      exact hx.set he hu hacc
  · -- continuation frame
    have hb0 : modBegin d = false := by simpa using hb
    have hb' : ¬ hasFlag (u8at d FwLayout.ModulationHead_flag_off) MODULATION_FLAG_BEGIN = true := hb
    rw [if_neg hb']
    have h32 : rd s.ctl 32 ≤ 1 := by rw [hok.cont_seg hb0, hseg']; exact hseg
    have htmE : modEffTm s d = s.modTrMode := by
      unfold modEffTm; rw [if_neg hb]
    have htvE : modEffTv s d = s.modTrValue := by
      unfold modEffTv; rw [if_neg hb]
    have hrepE : modEffRep s d = rd s.ctl (39 + seg) := by
      unfold modEffRep; rw [if_neg hb, hseg']
    have hacc : modAccepted s d = true := by
      unfold modAccepted; rw [hb0]; rfl
    obtain ⟨s', ack, e, hB', hC'⟩ := modTail_step s s.modCycle d (modFlag d) seg
      (u16at d FwLayout.ModulationSubseq_size_off) FwLayout.ModulationSubseq_size hB h32 hseg (hok.cont_size hb0)
      (by rw [← htmE, ← htvE]; exact hok.upd)
    refine ⟨s', ack, e, hB', fun hc hx => hC' hc fun he hu => ?_⟩
    rw [← hrepE, ← htmE, ← hseg']
    exact hx.set he hu hacc

end Autd3.Fw
