import Autd3.Lemmas.FwSafeClear
/-!
`update_with_sys_time`, the dispatch of `handle_payload`, `ecat_recv` and traces: no panic, `FwWF` kept (C19).
-/
set_option linter.unusedSimpArgs false
set_option linter.unusedVariables false
namespace Autd3.Fw
open Autd3.Gen.Cpu
open Autd3.Gen

theorem readFpgaState_core (s : State) : readFpgaState s = { s with rxData := (readFpgaState s).rxData } := by
  unfold readFpgaState
  split
  · rfl
  · split <;> rfl

/-- **a clock update never panics** from a well-formed state (any time, monotone or not) and keeps it well formed -/
theorem updateWithSysTime_safe (s : State) (t : Nat) (h : FwWF s) :
    ∃ s', updateWithSysTime s t = .ok s' ∧ FwWF s' ∧ s'.modSegment = s.modSegment ∧ s'.stmSegment = s.stmSegment := by
  unfold updateWithSysTime
  obtain ⟨mw, e1, wf1, _⟩ := update_ok s.modSwap (gpioIn s) t h.modSwap
  obtain ⟨sw, e2, wf2, _⟩ := update_ok s.stmSwap (gpioIn s) t h.stmSwap
  rw [e1, ok_bind, e2, ok_bind]
  simp only [pure_eq_ok]
  rw [readFpgaState_core]
  generalize hX : State.mk _ _ _ _ _ _ _ _ _ _ _ _ _ _ _ _ _ _ _ _ _ _ _ _ _ _ _ _ _ _ _ _ _ _ _ _ _ _ _ = X
  refine ⟨X, rfl, ?_, by subst hX; rfl, by subst hX; rfl⟩
  subst hX
  have hraw := h.raw
  have hsz := h.shape.ctl
  obtain ⟨r1, r2, r3, r4, r5, r6, r7, r8⟩ := hraw
  refine ⟨h.shape.transfer (by simp) rfl rfl rfl rfl rfl rfl rfl, h.flags, ?_, ?_, ?_, ?_, ?_, ?_, ?_, ?_, wf1, wf2⟩ <;>
   simp [reg, rd_set, ADDR_MOD_FREQ_DIV0, ADDR_MOD_FREQ_DIV1, ADDR_STM_FREQ_DIV0, ADDR_STM_FREQ_DIV1,
       ADDR_MOD_REP0, ADDR_MOD_REP1, ADDR_STM_REP0, ADDR_STM_REP1, ADDR_FPGA_STATE, hsz, r1, r2, r3, r4, r5, r6, r7, r8]

/-! ### dispatch -/

/-- tags whose handlers neither read nor write the swap chains / segment beliefs ("configuration") -/
def cfgTags : List Nat := [TAG_SYNC, TAG_FIRM_INFO, TAG_SILENCER, TAG_FORCE_FAN, TAG_READS_FPGA_STATE,
  TAG_CONFIG_PULSE_WIDTH_ENCODER, TAG_PHASE_CORRECTION, TAG_DEBUG, TAG_EMULATE_GPIO_IN, TAG_CPU_GPIO_OUT]

/-- the handler table of `handle_payload`, per tag byte -/
theorem dispatch_table : ∀ t : Fin 256,
    (Autd3.Gen.Dispatch.arms.find? (fun a => a.1 = t.val)).map (·.2) =
      (if t.val = 1 then some "clear" else if t.val = 2 then some "synchronize" else if t.val = 3 then some "firm_info"
       else if t.val = 16 then some "write_mod" else if t.val = 17 then some "change_mod_segment"
       else if t.val = 33 then some "config_silencer" else if t.val = 48 then some "write_gain"
       else if t.val = 49 then some "change_gain_segment" else if t.val = 67 then some "change_gain_stm_segment"
       else if t.val = 66 then some "write_foci_stm" else if t.val = 68 then some "change_foci_stm_segment"
       else if t.val = 65 then some "write_gain_stm" else if t.val = 96 then some "configure_force_fan"
       else if t.val = 97 then some "configure_reads_fpga_state" else if t.val = 114 then some "config_pwe"
       else if t.val = 240 then some "config_debug" else if t.val = 241 then some "emulate_gpio_in"
       else if t.val = 242 then some "cpu_gpio_out" else if t.val = 128 then some "phase_corr" else none) := by
  decide +kernel

theorem hp_of_find (s : State) (d : Array Nat) (t : Nat) (name : String)
    (hf : Autd3.Gen.Dispatch.arms.find? (fun a => a.1 = u8at d 0) = some (t, name)) :
    handlePayload s d = match handlerOf name with
      | some h => h s d
      | none => .error (.unreachable ("model has no handler named " ++ name)) := by
  unfold handlePayload
  rw [hf]
  rfl

theorem hp_clear (s : State) (d : Array Nat) (ht : u8at d 0 = 1) : handlePayload s d = clear s d := by
  rw [hp_of_find s d 1 "clear" (by rw [ht]; rfl)]; rfl
theorem hp_sync (s : State) (d : Array Nat) (ht : u8at d 0 = 2) : handlePayload s d = synchronize s d := by
  rw [hp_of_find s d 2 "synchronize" (by rw [ht]; rfl)]; rfl
theorem hp_firm (s : State) (d : Array Nat) (ht : u8at d 0 = 3) : handlePayload s d = firmInfo s d := by
  rw [hp_of_find s d 3 "firm_info" (by rw [ht]; rfl)]; rfl
theorem hp_mod (s : State) (d : Array Nat) (ht : u8at d 0 = 16) : handlePayload s d = writeMod s d := by
  rw [hp_of_find s d 16 "write_mod" (by rw [ht]; rfl)]; rfl
theorem hp_modSwap (s : State) (d : Array Nat) (ht : u8at d 0 = 17) : handlePayload s d = changeModSegment s d := by
  rw [hp_of_find s d 17 "change_mod_segment" (by rw [ht]; rfl)]; rfl
theorem hp_silencer (s : State) (d : Array Nat) (ht : u8at d 0 = 33) : handlePayload s d = configSilencer s d := by
  rw [hp_of_find s d 33 "config_silencer" (by rw [ht]; rfl)]; rfl
theorem hp_gain (s : State) (d : Array Nat) (ht : u8at d 0 = 48) : handlePayload s d = writeGain s d := by
  rw [hp_of_find s d 48 "write_gain" (by rw [ht]; rfl)]; rfl
theorem hp_gainSwap (s : State) (d : Array Nat) (ht : u8at d 0 = 49) : handlePayload s d = changeGainSegment s d := by
  rw [hp_of_find s d 49 "change_gain_segment" (by rw [ht]; rfl)]; rfl
theorem hp_gainStmSwap (s : State) (d : Array Nat) (ht : u8at d 0 = 67) : handlePayload s d = changeGainStmSegment s d := by
  rw [hp_of_find s d 67 "change_gain_stm_segment" (by rw [ht]; rfl)]; rfl
theorem hp_foci (s : State) (d : Array Nat) (ht : u8at d 0 = 66) : handlePayload s d = writeFociStm s d := by
  rw [hp_of_find s d 66 "write_foci_stm" (by rw [ht]; rfl)]; rfl
theorem hp_fociSwap (s : State) (d : Array Nat) (ht : u8at d 0 = 68) : handlePayload s d = changeFociStmSegment s d := by
  rw [hp_of_find s d 68 "change_foci_stm_segment" (by rw [ht]; rfl)]; rfl
theorem hp_gainStm (s : State) (d : Array Nat) (ht : u8at d 0 = 65) : handlePayload s d = writeGainStm s d := by
  rw [hp_of_find s d 65 "write_gain_stm" (by rw [ht]; rfl)]; rfl
theorem hp_fan (s : State) (d : Array Nat) (ht : u8at d 0 = 96) : handlePayload s d = configureForceFan s d := by
  rw [hp_of_find s d 96 "configure_force_fan" (by rw [ht]; rfl)]; rfl
theorem hp_reads (s : State) (d : Array Nat) (ht : u8at d 0 = 97) : handlePayload s d = configureReadsFpgaState s d := by
  rw [hp_of_find s d 97 "configure_reads_fpga_state" (by rw [ht]; rfl)]; rfl
theorem hp_pwe (s : State) (d : Array Nat) (ht : u8at d 0 = 114) : handlePayload s d = configPwe s d := by
  rw [hp_of_find s d 114 "config_pwe" (by rw [ht]; rfl)]; rfl
theorem hp_debug (s : State) (d : Array Nat) (ht : u8at d 0 = 240) : handlePayload s d = configDebug s d := by
  rw [hp_of_find s d 240 "config_debug" (by rw [ht]; rfl)]; rfl
theorem hp_gpioIn (s : State) (d : Array Nat) (ht : u8at d 0 = 241) : handlePayload s d = emulateGpioIn s d := by
  rw [hp_of_find s d 241 "emulate_gpio_in" (by rw [ht]; rfl)]; rfl
theorem hp_gpioOut (s : State) (d : Array Nat) (ht : u8at d 0 = 242) : handlePayload s d = cpuGpioOut s d := by
  rw [hp_of_find s d 242 "cpu_gpio_out" (by rw [ht]; rfl)]; rfl
theorem hp_phaseCorr (s : State) (d : Array Nat) (ht : u8at d 0 = 128) : handlePayload s d = phaseCorrOp s d := by
  rw [hp_of_find s d 128 "phase_corr" (by rw [ht]; rfl)]; rfl

theorem hp_unknown (s : State) (d : Array Nat)
    (ht : u8at d 0 ∉ [1, 2, 3, 16, 17, 33, 48, 49, 67, 66, 68, 65, 96, 97, 114, 240, 241, 242, 128]) :
    handlePayload s d = .ok (s, ERR_NOT_SUPPORTED_TAG) := by
  have hlt := u8at_lt d 0
  have := dispatch_table ⟨u8at d 0, hlt⟩
  simp only [List.mem_cons, List.mem_nil_iff, or_false, not_or] at ht
  simp only [ht, if_false] at this
  unfold handlePayload
  cases hf : Autd3.Gen.Dispatch.arms.find? (fun a => a.1 = u8at d 0) with
  | none => rfl
  | some p => rw [hf] at this; cases this

/-- the tag byte does not belong to an operation that touches the swap chains or segment beliefs -/
def IsCfg (d : Array Nat) : Prop := u8at d 0 ∉ [1, 16, 17, 48, 49, 65, 66, 67, 68]

theorem payload_cfg_safe (s : State) (d : Array Nat) (hc : IsCfg d) (h : FwWF s) :
    ∃ s' ack, handlePayload s d = .ok (s', ack) ∧ FwWF s' ∧ SameCore s s' := by
  unfold IsCfg at hc
  simp only [List.mem_cons, List.mem_nil_iff, or_false, not_or] at hc
  by_cases h2 : u8at d 0 = 2
  · rw [hp_sync s d h2]; exact cfg_synchronize s d h
  by_cases h3 : u8at d 0 = 3
  · rw [hp_firm s d h3]; exact cfg_firmInfo s d h
  by_cases h33 : u8at d 0 = 33
  · rw [hp_silencer s d h33]; exact cfg_silencer s d h
  by_cases h96 : u8at d 0 = 96
  · rw [hp_fan s d h96]; exact cfg_forceFan s d h
  by_cases h97 : u8at d 0 = 97
  · rw [hp_reads s d h97]; exact cfg_reads s d h
  by_cases h114 : u8at d 0 = 114
  · rw [hp_pwe s d h114]; exact cfg_pwe s d h
  by_cases h240 : u8at d 0 = 240
  · rw [hp_debug s d h240]; exact cfg_debug s d h
  by_cases h241 : u8at d 0 = 241
  · rw [hp_gpioIn s d h241]; exact cfg_gpioIn s d h
  by_cases h242 : u8at d 0 = 242
  · rw [hp_gpioOut s d h242]; exact cfg_cpuGpioOut s d h
  by_cases h128 : u8at d 0 = 128
  · rw [hp_phaseCorr s d h128]; exact cfg_phaseCorr s d h
  rw [hp_unknown s d (by simp only [List.mem_cons, List.mem_nil_iff, or_false, not_or]; omega)]
  exact ⟨_, _, rfl, h, SameCore.rfl' rfl rfl rfl rfl rfl rfl rfl⟩

/-- header fields of the swap-type operations as the SDK's packers produce them -/
structure SwapPayloadOK (d : Array Nat) : Prop where
  gain : u8at d 0 = 48 → u8at d FwLayout.Gain_segment_off ≤ 1
  gainSwap : u8at d 0 = 49 → u8at d FwLayout.GainUpdate_segment_off ≤ 1
  modSwap : u8at d 0 = 17 → u8at d FwLayout.ModulationUpdate_segment_off ≤ 1 ∧
    ModeOK (u8at d FwLayout.ModulationUpdate_transition_mode_off) (u64at d FwLayout.ModulationUpdate_transition_value_off)
  fociSwap : u8at d 0 = 68 → u8at d FwLayout.FociSTMUpdate_segment_off ≤ 1 ∧
    ModeOK (u8at d FwLayout.FociSTMUpdate_transition_mode_off) (u64at d FwLayout.FociSTMUpdate_transition_value_off)
  gainStmSwap : u8at d 0 = 67 → u8at d FwLayout.GainSTMUpdate_segment_off ≤ 1 ∧
    ModeOK (u8at d FwLayout.GainSTMUpdate_transition_mode_off) (u64at d FwLayout.GainSTMUpdate_transition_value_off)
  /-- data-carrying operations: complete (BEGIN ∧ END) single frames -/
  mod : u8at d 0 = 16 → ModFrameOK d
  foci : u8at d 0 = 66 → FociFrameOK d
  gainStm : u8at d 0 = 65 → GainStmFrameOK d

theorem payload_swap_safe (s : State) (d : Array Nat) (hp : SwapPayloadOK d) (h : FwWF s) (hst : Settled s) :
    ∃ s' ack, handlePayload s d = .ok (s', ack) ∧ FwWF s' := by
  by_cases hc : IsCfg d
  · obtain ⟨s', ack, e, wf, _⟩ := payload_cfg_safe s d hc h
    exact ⟨s', ack, e, wf⟩
  unfold IsCfg at hc
  simp only [List.mem_cons, List.mem_nil_iff, or_false, not_or, not_and, Classical.not_not] at hc
  by_cases h48 : u8at d 0 = 48
  · rw [hp_gain s d h48]; exact writeGain_safe s d h hst (hp.gain h48)
  by_cases h49 : u8at d 0 = 49
  · rw [hp_gainSwap s d h49]; exact changeGainSegment_safe s d h hst (hp.gainSwap h49)
  by_cases h17 : u8at d 0 = 17
  · rw [hp_modSwap s d h17]; exact changeModSegment_safe s d h hst (hp.modSwap h17).1 (hp.modSwap h17).2
  by_cases h68 : u8at d 0 = 68
  · rw [hp_fociSwap s d h68]; exact changeFociStmSegment_safe s d h hst (hp.fociSwap h68).1 (hp.fociSwap h68).2
  by_cases h67 : u8at d 0 = 67
  · rw [hp_gainStmSwap s d h67]; exact changeGainStmSegment_safe s d h hst (hp.gainStmSwap h67).1 (hp.gainStmSwap h67).2
  by_cases h1 : u8at d 0 = 1
  · rw [hp_clear s d h1]
    obtain ⟨s', ack, e, wf, _⟩ := clear_safe s d h hst
    exact ⟨s', ack, e, wf⟩
  by_cases h16 : u8at d 0 = 16
  · rw [hp_mod s d h16]; exact writeMod_safe s d h hst (hp.mod h16)
  by_cases h66 : u8at d 0 = 66
  · rw [hp_foci s d h66]; exact writeFociStm_safe s d h hst (hp.foci h66)
  by_cases h65 : u8at d 0 = 65
  · rw [hp_gainStm s d h65]; exact writeGainStm_safe s d h hst (hp.gainStm h65)
  exfalso
  have := hc
  omega

theorem FwWF.of_ack {s : State} (h : FwWF s) (a : Nat) : FwWF { s with ack := a } :=
  h.transfer' ⟨fun _ _ => rfl, rfl, rfl, rfl, rfl⟩ (h.shape.transfer rfl rfl rfl rfl rfl rfl rfl rfl) h.flags

theorem FwWF.pre_handle {s : State} (h : FwWF s) (m : Nat) :
    FwWF (readFpgaState { s with lastMsgId := m }) := by
  rw [readFpgaState_core]
  exact h.transfer' ⟨fun _ _ => rfl, rfl, rfl, rfl, rfl⟩ (h.shape.transfer rfl rfl rfl rfl rfl rfl rfl rfl) h.flags

theorem Settled.pre_handle {s : State} (h : Settled s) (m : Nat) :
    Settled (readFpgaState { s with lastMsgId := m }) := by
  rw [readFpgaState_core]
  exact ⟨h.modBelief, h.stmBelief, h.modIdle, h.stmIdle⟩

/-- the end of `ecat_recv`: rewrite `CTL_FLAG`, acknowledge -/
theorem ecat_tail_safe (s : State) (m : Nat) (h : FwWF s) :
    ∃ s', (do
      let s ← ctlWrite s ADDR_CTL_FLAG s.flagsInternal
      pure { s with ack := m } : M State) = .ok s' ∧ FwWF s' := by
  simp only [ADDR_CTL_FLAG, ctlWrite_main _ _ _ (by decide : 0 < 256), ok_bind, pure_eq_ok]
  refine ⟨_, rfl, ?_⟩
  have sc := sameCore_setReg s 0 (s.flagsInternal % 65536) (by decide)
  have h1 := h.transfer sc (shape_setReg h.shape _ _) h.flags
  exact h1.of_ack m

/-- well-formedness of a frame w.r.t. the two-slot rule -/
structure FrameOK (frame : Array Nat) : Prop where
  /-- the second-slot offset stays inside the frame -/
  slot2_in : DrvLayout.Header_size + u16at frame DrvLayout.Header_slot_2_offset_off ≤ frame.size
  slot1 : SwapPayloadOK (frame.extract DrvLayout.Header_size frame.size)
  slot2 : u16at frame DrvLayout.Header_slot_2_offset_off ≠ 0 →
    SwapPayloadOK (frame.extract (DrvLayout.Header_size + u16at frame DrvLayout.Header_slot_2_offset_off) frame.size)
  /-- at most one of the two slots carries a swap-type operation -/
  one_swap : u16at frame DrvLayout.Header_slot_2_offset_off ≠ 0 →
    IsCfg (frame.extract DrvLayout.Header_size frame.size) ∨
    IsCfg (frame.extract (DrvLayout.Header_size + u16at frame DrvLayout.Header_slot_2_offset_off) frame.size)

theorem ecatRecv_safe (s : State) (frame : Array Nat) (h : FwWF s) (hst : Settled s) (hf : FrameOK frame) :
    ∃ s', ecatRecv s frame = .ok s' ∧ FwWF s' := by
  unfold ecatRecv
  simp only []
  generalize hm : u8at frame DrvLayout.Header_msg_id_off = msgId
  generalize hs2 : u16at frame DrvLayout.Header_slot_2_offset_off = slot2
  have hf1 := hf.slot1
  have hf2 := hf.slot2
  have hone := hf.one_swap
  have hin := hf.slot2_in
  rw [hs2] at hf2 hone hin
  split
  · exact ⟨_, rfl, h⟩
  split
  · exact ⟨_, rfl, (h.pre_handle msgId).of_ack _⟩
  have h0 := h.pre_handle msgId
  have st0 := hst.pre_handle msgId
  generalize readFpgaState { s with lastMsgId := msgId } = s0 at h0 st0
  obtain ⟨s1, ack1, e1, wf1⟩ := payload_swap_safe s0 _ hf1 h0 st0
  rw [e1, ok_bind]
  simp only []
  split
  · exact ⟨_, rfl, wf1.of_ack _⟩
  by_cases hz : slot2 = 0
  · simp only [hz, ne_eq, not_true_eq_false, if_false]
    have := ecat_tail_safe { s1 with ack := ack1 } msgId (wf1.of_ack _)
    obtain ⟨s', e, wf⟩ := this
    exact ⟨s', e, wf⟩
  · simp only [hz, ne_eq, not_false_eq_true, if_true]
    rw [if_neg (by omega)]
    -- the state before the second slot is well formed; it is settled if the first slot was a configuration op
    have wfa := wf1.of_ack ack1
    have second : ∃ s2 ack2, handlePayload { s1 with ack := ack1 }
        (frame.extract (DrvLayout.Header_size + slot2) frame.size) = .ok (s2, ack2) ∧ FwWF s2 := by
      rcases hone hz with c1 | c2
      · obtain ⟨s1', ack1', e1', _, sc⟩ := payload_cfg_safe s0 _ c1 h0
        rw [e1] at e1'
        cases e1'
        have st1 : Settled { s1 with ack := ack1 } := by
          have := st0.transfer sc
          exact ⟨this.modBelief, this.stmBelief, this.modIdle, this.stmIdle⟩
        exact payload_swap_safe _ _ (hf2 hz) wfa st1
      · obtain ⟨s2, ack2, e2, wf2, _⟩ := payload_cfg_safe { s1 with ack := ack1 } _ c2 wfa
        exact ⟨s2, ack2, e2, wf2⟩
    obtain ⟨s2, ack2, e2, wf2⟩ := second
    rw [e2, ok_bind]
    simp only []
    split
    · exact ⟨_, rfl, wf2.of_ack _⟩
    · exact ecat_tail_safe { s2 with ack := ack2 } msgId (wf2.of_ack _)

/-- a frame both of whose slots carry configuration operations (or unknown tags) -/
structure CfgFrame (frame : Array Nat) : Prop where
  slot2_in : DrvLayout.Header_size + u16at frame DrvLayout.Header_slot_2_offset_off ≤ frame.size
  slot1 : IsCfg (frame.extract DrvLayout.Header_size frame.size)
  slot2 : u16at frame DrvLayout.Header_slot_2_offset_off ≠ 0 →
    IsCfg (frame.extract (DrvLayout.Header_size + u16at frame DrvLayout.Header_slot_2_offset_off) frame.size)

theorem IsCfg.swapOK {d : Array Nat} (h : IsCfg d) : SwapPayloadOK d := by
  unfold IsCfg at h
  simp only [List.mem_cons, List.mem_nil_iff, or_false, not_or] at h
  exact ⟨fun e => absurd e h.2.2.2.1, fun e => absurd e h.2.2.2.2.1, fun e => absurd e h.2.2.1,
    fun e => absurd e h.2.2.2.2.2.2.2.2, fun e => absurd e h.2.2.2.2.2.2.2.1,
    fun e => absurd e h.2.1, fun e => absurd e h.2.2.2.2.2.2.1, fun e => absurd e h.2.2.2.2.2.1⟩

/-- configuration frames need no `Settled`, and keep the swap-chain core (hence `Settled` if it held) -/
theorem ecatRecv_cfg_safe (s : State) (frame : Array Nat) (h : FwWF s) (hf : CfgFrame frame) :
    ∃ s', ecatRecv s frame = .ok s' ∧ FwWF s' ∧ (Settled s → Settled s') := by
  unfold ecatRecv
  simp only []
  generalize hm : u8at frame DrvLayout.Header_msg_id_off = msgId
  generalize hs2 : u16at frame DrvLayout.Header_slot_2_offset_off = slot2
  have hf1 := hf.slot1
  have hf2 := hf.slot2
  have hin := hf.slot2_in
  rw [hs2] at hf2 hin
  have keep : ∀ {a b : State}, SameCore a b → ∀ x, Settled a → Settled { b with ack := x } := by
    intro a b sc x st
    have := st.transfer sc
    exact ⟨this.modBelief, this.stmBelief, this.modIdle, this.stmIdle⟩
  have tail : ∀ (z : State), FwWF z → ∃ s', (do
      let s ← ctlWrite z ADDR_CTL_FLAG z.flagsInternal
      pure { s with ack := msgId } : M State) = .ok s' ∧ FwWF s' ∧ (Settled z → Settled s') := by
    intro z hz
    simp only [ADDR_CTL_FLAG, ctlWrite_main _ _ _ (by decide : 0 < 256), ok_bind, pure_eq_ok]
    have sc := sameCore_setReg z 0 (z.flagsInternal % 65536) (by decide)
    have h1 := hz.transfer sc (shape_setReg hz.shape _ _) hz.flags
    exact ⟨_, rfl, h1.of_ack msgId, fun st => keep sc _ st⟩
  split
  · exact ⟨_, rfl, h, id⟩
  split
  · exact ⟨_, rfl, (h.pre_handle msgId).of_ack _, fun st =>
      ⟨(st.pre_handle msgId).modBelief, (st.pre_handle msgId).stmBelief, (st.pre_handle msgId).modIdle,
       (st.pre_handle msgId).stmIdle⟩⟩
  have h0 := h.pre_handle msgId
  have st0 : Settled s → Settled (readFpgaState { s with lastMsgId := msgId }) := fun st => st.pre_handle msgId
  generalize readFpgaState { s with lastMsgId := msgId } = s0 at h0 st0
  obtain ⟨s1, ack1, e1, wf1, sc1⟩ := payload_cfg_safe s0 _ hf1 h0
  rw [e1, ok_bind]
  simp only []
  split
  · exact ⟨_, rfl, wf1.of_ack _, fun st => keep sc1 _ (st0 st)⟩
  by_cases hz : slot2 = 0
  · simp only [hz, ne_eq, not_true_eq_false, if_false]
    obtain ⟨s', e, wf, k⟩ := tail { s1 with ack := ack1 } (wf1.of_ack _)
    exact ⟨s', e, wf, fun st => k (keep sc1 _ (st0 st))⟩
  · simp only [hz, ne_eq, not_false_eq_true, if_true]
    rw [if_neg (by omega)]
    obtain ⟨s2, ack2, e2, wf2, sc2⟩ := payload_cfg_safe { s1 with ack := ack1 } _ (hf2 hz) (wf1.of_ack ack1)
    rw [e2, ok_bind]
    simp only []
    split
    · exact ⟨_, rfl, wf2.of_ack _, fun st => keep sc2 _ (keep sc1 _ (st0 st))⟩
    · obtain ⟨s', e, wf, k⟩ := tail { s2 with ack := ack2 } (wf2.of_ack _)
      exact ⟨s', e, wf, fun st => k (keep sc2 _ (keep sc1 _ (st0 st)))⟩

/-- events of a device history: a received frame, or a clock update -/
inductive Ev where
  | frame (f : Array Nat)
  | tick (t : Nat)

def runEv (s : State) : Ev → M State
  | .frame f => ecatRecv s f
  | .tick t => updateWithSysTime s t

/-- **unbounded trace theorem for the configuration sub-alphabet**: any sequence of configuration frames
(Silencer, PWE, phase correction, GPIO outputs, force fan, reads-FPGA-state, CPU GPIO, emulate GPIO-in,
Synchronize, firmware-info, unknown tags; one or two slots) interleaved with clock updates at arbitrary
(not necessarily monotone) times never panics from a well-formed state -/
theorem cfg_trace_safe (evs : List Ev) (s : State) (h : FwWF s)
    (hall : ∀ f, Ev.frame f ∈ evs → CfgFrame f) : ∃ s', evs.foldlM runEv s = .ok s' ∧ FwWF s' := by
  induction evs generalizing s with
  | nil => exact ⟨s, rfl, h⟩
  | cons e evs ih =>
    have step : ∃ s1, runEv s e = .ok s1 ∧ FwWF s1 := by
      cases e with
      | frame f =>
        obtain ⟨s1, e1, wf1, _⟩ := ecatRecv_cfg_safe s f h (hall f (List.mem_cons_self))
        exact ⟨s1, e1, wf1⟩
      | tick t =>
        obtain ⟨s1, e1, wf1, _⟩ := updateWithSysTime_safe s t h
        exact ⟨s1, e1, wf1⟩
    obtain ⟨s1, e1, wf1⟩ := step
    obtain ⟨s2, e2, wf2⟩ := ih s1 wf1 (fun f hf => hall f (List.mem_cons_of_mem _ hf))
    refine ⟨s2, ?_, wf2⟩
    rw [List.foldlM_cons, e1, ok_bind]
    exact e2

end Autd3.Fw
