import Autd3.Model.Fw
/-!
Swap-chain invariant `SwapWF` (C19): `Swapchain::update` never panics from a well-formed swap chain and
keeps it well formed; `Swapchain::set` keeps it under the side conditions `SetOK`; characterisation of the
panics without the invariant; link to the CPU's `validate_transition_mode`.
-/
namespace Autd3.Fw

/-- the transition modes `Swapchain::update` can wait for -/
def TMode.waitable : TMode → Bool
  | .syncIdx | .sysTime _ | .gpio _ => true
  | _ => false

/-- well-formedness of a swap chain -/
structure SwapWF (w : Swap) : Prop where
  cur_le : w.cur ≤ 1
  req_le : w.req ≤ 1
  fd0 : 1 ≤ w.freqDiv.1
  fd1 : 1 ≤ w.freqDiv.2
  cy0 : 1 ≤ w.cycle.1
  cy1 : 1 ≤ w.cycle.2
  /-- a pending transition waits for something `update` can detect -/
  wait_mode : w.state = .waitStart → w.mode.waitable = true
  /-- … and goes to the other segment -/
  wait_req : w.state = .waitStart → w.req ≠ w.cur
  /-- the start offset of a segment is below its cycle, except for the target of a pending transition
  (its offset is stale until the transition happens) -/
  tic : ∀ seg, seg ≤ 1 → (w.state = .waitStart ∧ seg = w.req) ∨ sel w.ticOff seg ≤ sel w.cycle seg

theorem sel_ge_one {p : Nat × Nat} (h0 : 1 ≤ p.1) (h1 : 1 ≤ p.2) (seg : Nat) : 1 ≤ sel p seg := by
  unfold sel; split <;> assumption

theorem sel_setSel (p : Nat × Nat) (a b v : Nat) (ha : a ≤ 1) (hb : b ≤ 1) :
    sel (setSel p a v) b = if b = a then v else sel p b := by
  unfold sel setSel
  by_cases h1 : a = 0 <;> by_cases h2 : b = 0 <;> simp [h1, h2] <;> omega

theorem setSel_fst_ge {p : Nat × Nat} {a v : Nat} (h : 1 ≤ p.1) (hv : 1 ≤ v) : 1 ≤ (setSel p a v).1 := by
  unfold setSel; split <;> simp <;> assumption
theorem setSel_snd_ge {p : Nat × Nat} {a v : Nat} (h : 1 ≤ p.2) (hv : 1 ≤ v) : 1 ≤ (setSel p a v).2 := by
  unfold setSel; split <;> simp <;> assumption

theorem lapAndIdx_ok (w : Swap) (seg t : Nat) (hf : 1 ≤ sel w.freqDiv seg) (hc : 1 ≤ sel w.cycle seg) :
    ∃ lap idx, w.lapAndIdx seg t = .ok (lap, idx) ∧ idx < sel w.cycle seg := by
  unfold Swap.lapAndIdx
  simp only []
  rw [if_neg (by omega), if_neg (by omega)]
  exact ⟨_, _, rfl, Nat.mod_lt _ (by omega)⟩

/-- `lap_and_idx` reads only `freq_div` and `cycle` -/
theorem lapAndIdx_congr (w w' : Swap) (seg t : Nat) (h1 : w'.freqDiv = w.freqDiv) (h2 : w'.cycle = w.cycle) :
    w'.lapAndIdx seg t = w.lapAndIdx seg t := by
  unfold Swap.lapAndIdx; rw [h1, h2]

/-- the state-machine part of `Swapchain::update` (between the two `lap_and_idx` calls) -/
def Swap.phase1 (w : Swap) (gpioIn : Nat → Bool) (t lastLap lap idx : Nat) : M Swap :=
  match w.state with
    | .waitStart =>
      match w.mode with
      | .syncIdx =>
        if lastLap < lap then
          pure { w with stop := false, startLap := setSel w.startLap w.req lap,
                        ticOff := setSel w.ticOff w.req 0, cur := w.req, state := .finiteLoop }
        else pure w
      | .sysTime v =>
        if v ≤ t then
          pure { w with stop := false, startLap := setSel w.startLap w.req lap, cur := w.req,
                        ticOff := setSel w.ticOff w.req idx, state := .finiteLoop }
        else pure w
      | .gpio g =>
        if gpioIn g then
          pure { w with stop := false, startLap := setSel w.startLap w.req lap, cur := w.req,
                        ticOff := setSel w.ticOff w.req idx, state := .finiteLoop }
        else pure w
      | _ => .error (.unreachable "Swapchain::update: WaitStart with Ext/Immediate")
    | .finiteLoop =>
      let sl := sel w.startLap w.cur
      let w := if sl + w.rep + 1 < lap then { w with stop := true } else w
      let w := if sl + w.rep < lap ∧ sel w.ticOff w.cur ≤ idx then { w with stop := true } else w
      pure w
    | .infiniteLoop =>
      if w.extMode ∧ w.extLastLap < lap ∧ w.extLastLap % 2 ≠ lap % 2 then
        pure { w with extLastLap := lap, cur := if w.cur = 0 then 1 else 0 }
      else pure w

/-- the index part of `Swapchain::update` -/
def Swap.phase2 (w : Swap) (t : Nat) : M Swap := do
  let (_, idx) ← w.lapAndIdx w.cur t
  let c := sel w.cycle w.cur
  if w.stop then
    if c = 0 then .error (.overflow "Swapchain::update: cycle - 1") else pure { w with curIdx := c - 1 }
  else
    let off := sel w.ticOff w.cur
    if idx + c < off then .error (.overflow "Swapchain::update: idx + cycle - tic_idx_offset")
    else if c = 0 then .error (.divZero "Swapchain::update: % cycle")
    else pure { w with curIdx := (idx + c - off) % c }

theorem update_eq (w : Swap) (g : Nat → Bool) (t : Nat) :
    w.update g t = (do
      let (lastLap, _) ← w.lapAndIdx w.req w.sysTime
      let (lap, idx) ← w.lapAndIdx w.req t
      let w ← w.phase1 g t lastLap lap idx
      w.phase2 t) := by
  unfold Swap.update Swap.phase1 Swap.phase2
  cases w.lapAndIdx w.req w.sysTime with
  | error e => rfl
  | ok r1 =>
    cases w.lapAndIdx w.req t with
    | error e => rfl
    | ok r2 =>
      obtain ⟨a, b⟩ := r1; obtain ⟨c, d⟩ := r2
      simp only [bind, Except.bind]
      rcases w with ⟨sysTime, rep, startLap, freqDiv, cycle, ticOff, cur, req, curIdx, mode, stop, extMode, extLastLap, state⟩
      cases state
      · cases mode <;> simp only [] <;> (try split) <;> rfl
      · simp only []
      · simp only []; split <;> rfl

theorem phase1_ok (w : Swap) (g : Nat → Bool) (t lastLap lap idx : Nat) (h : SwapWF w)
    (hidx : idx < sel w.cycle w.req) :
    ∃ w', w.phase1 g t lastLap lap idx = .ok w' ∧ SwapWF w' ∧ w'.freqDiv = w.freqDiv ∧ w'.cycle = w.cycle := by
  rcases w with ⟨sysTime, rep, startLap, freqDiv, cycle, ticOff, cur, req, curIdx, mode, stop, extMode, extLastLap, state⟩
  have hwf := h
  obtain ⟨cur_le, req_le, fd0, fd1, cy0, cy1, wait_mode, wait_req, tic⟩ := h
  simp only at cur_le req_le fd0 fd1 cy0 cy1 wait_mode wait_req tic hidx
  -- the state reached when a pending transition fires with offset `o < cycle[req]`
  have fire : ∀ (o : Nat) (sl : Nat × Nat), state = .waitStart → o < sel cycle req →
      SwapWF { sysTime := sysTime, rep := rep, startLap := sl, freqDiv := freqDiv, cycle := cycle,
               ticOff := setSel ticOff req o, cur := req, req := req, curIdx := curIdx, mode := mode,
               stop := false, extMode := extMode, extLastLap := extLastLap, state := .finiteLoop } := by
    intro o sl hst ho
    refine ⟨req_le, req_le, fd0, fd1, cy0, cy1, (nomatch ·), (nomatch ·), ?_⟩
    intro seg hseg
    right
    simp only [sel_setSel _ _ _ _ req_le hseg]
    split
    · rename_i e; subst e; omega
    · rename_i e
      rcases tic seg hseg with ⟨_, h2⟩ | h2
      · exact absurd h2 e
      · exact h2
  unfold Swap.phase1
  cases state
  · -- waitStart
    have hm := wait_mode rfl
    cases mode <;> simp only [TMode.waitable] at hm <;> simp only []
    · split
      · exact ⟨_, rfl, fire 0 _ rfl (by omega), rfl, rfl⟩
      · exact ⟨_, rfl, hwf, rfl, rfl⟩
    · split
      · exact ⟨_, rfl, fire idx _ rfl hidx, rfl, rfl⟩
      · exact ⟨_, rfl, hwf, rfl, rfl⟩
    · split
      · exact ⟨_, rfl, fire idx _ rfl hidx, rfl, rfl⟩
      · exact ⟨_, rfl, hwf, rfl, rfl⟩
    · cases hm
    · cases hm
  · -- finiteLoop: only `stop` changes
    simp only []
    refine ⟨_, rfl, ?_, ?_, ?_⟩
    · split <;> split <;>
        exact ⟨cur_le, req_le, fd0, fd1, cy0, cy1, (nomatch ·), (nomatch ·),
          fun seg hseg => (tic seg hseg).imp (fun h => nomatch h.1) id⟩
    · split <;> split <;> rfl
    · split <;> split <;> rfl
  · -- infiniteLoop: the current segment may flip
    simp only []
    split
    · refine ⟨_, rfl, ⟨by simp only; split <;> omega, req_le, fd0, fd1, cy0, cy1, (nomatch ·),
        (nomatch ·), fun seg hseg => (tic seg hseg).imp (fun h => nomatch h.1) id⟩, rfl, rfl⟩
    · exact ⟨_, rfl, hwf, rfl, rfl⟩

theorem phase2_ok (w : Swap) (t : Nat) (h : SwapWF w) :
    ∃ w', w.phase2 t = .ok w' ∧ SwapWF w' ∧ w'.curIdx < sel w'.cycle w'.cur ∧
      w' = { w with curIdx := w'.curIdx } := by
  obtain ⟨lap, idx, hl, hidx⟩ := lapAndIdx_ok w w.cur t (sel_ge_one h.fd0 h.fd1 _) (sel_ge_one h.cy0 h.cy1 _)
  have hc := sel_ge_one h.cy0 h.cy1 w.cur
  have htic : sel w.ticOff w.cur ≤ sel w.cycle w.cur := by
    rcases h.tic w.cur h.cur_le with ⟨h1, h2⟩ | h2
    · exact absurd h2.symm (h.wait_req h1)
    · exact h2
  unfold Swap.phase2
  simp only [hl, bind, Except.bind]
  have wf' : ∀ c, SwapWF { w with curIdx := c } := fun c =>
    ⟨h.cur_le, h.req_le, h.fd0, h.fd1, h.cy0, h.cy1, h.wait_mode, h.wait_req, h.tic⟩
  split
  · rw [if_neg (by omega)]
    exact ⟨_, rfl, wf' _, by simp only; omega, rfl⟩
  · rw [if_neg (by omega), if_neg (by omega)]
    exact ⟨_, rfl, wf' _, by simp only; exact Nat.mod_lt _ (by omega), rfl⟩

/-- **`Swapchain::update` never panics from a well-formed swap chain and keeps it well formed** (for every
GPIO input and every time, monotone or not) -/
theorem update_ok (w : Swap) (g : Nat → Bool) (t : Nat) (h : SwapWF w) :
    ∃ w', w.update g t = .ok w' ∧ SwapWF w' ∧ w'.curIdx < sel w'.cycle w'.cur ∧
      w'.freqDiv = w.freqDiv ∧ w'.cycle = w.cycle := by
  obtain ⟨l0, i0, hl0, _⟩ := lapAndIdx_ok w w.req w.sysTime (sel_ge_one h.fd0 h.fd1 _) (sel_ge_one h.cy0 h.cy1 _)
  obtain ⟨l1, i1, hl1, hi1⟩ := lapAndIdx_ok w w.req t (sel_ge_one h.fd0 h.fd1 _) (sel_ge_one h.cy0 h.cy1 _)
  obtain ⟨w1, h1, wf1, e1, e2⟩ := phase1_ok w g t l0 l1 i1 h hi1
  obtain ⟨w2, h2, wf2, hlt, e3⟩ := phase2_ok w1 t wf1
  rw [update_eq]
  simp only [hl0, hl1, h1, h2, bind, Except.bind]
  refine ⟨w2, rfl, wf2, hlt, ?_, ?_⟩
  · rw [e3]; exact e1
  · rw [e3]; exact e2

/-- the side conditions under which `Swapchain::set` keeps the swap chain well formed -/
structure SetOK (w : Swap) (rep fd cyc req : Nat) (m : TMode) : Prop where
  req_le : req ≤ 1
  fd : 1 ≤ fd
  cyc : 1 ≤ cyc
  /-- Immediate/Ext only to the current segment or with an infinite loop (what `validate_transition_mode`
  guarantees when the CPU's belief is the swap chain's current segment) -/
  mode : m.waitable = false → w.cur = req ∨ rep = 0xFFFF
  /-- no request for the current segment while a transition to the other one is pending -/
  pending : w.state = .waitStart → w.cur ≠ req

theorem set_ok (w : Swap) (t rep fd cyc req : Nat) (m : TMode) (h : SwapWF w) (hs : SetOK w rep fd cyc req m) :
    ∃ w', w.set t rep fd cyc req m = .ok w' ∧ SwapWF w' ∧ w'.mode = m ∧
      sel w'.freqDiv req = fd ∧ sel w'.cycle req = cyc ∧
      (w'.state = .waitStart ↔ (w.cur ≠ req ∧ rep ≠ 0xFFFF)) ∧
      (w'.cur = if w.cur ≠ req ∧ rep ≠ 0xFFFF then w.cur else req) := by
  rcases w with ⟨sysTime, rep0, startLap, freqDiv, cycle, ticOff, cur, req0, curIdx, mode, stop, extMode, extLastLap, state⟩
  obtain ⟨cur_le, req_le, fd0, fd1, cy0, cy1, wait_mode, wait_req, tic⟩ := h
  obtain ⟨hreq, hfd, hcyc, hmode, hpend⟩ := hs
  simp only at cur_le req_le fd0 fd1 cy0 cy1 wait_mode wait_req tic hmode hpend
  unfold Swap.set
  by_cases h1 : cur = req
  · subst h1
    obtain ⟨lap, idx, hl, _⟩ := lapAndIdx_ok
      { sysTime := sysTime, rep := rep0, startLap := startLap, freqDiv := freqDiv, cycle := cycle, ticOff := ticOff,
        cur := cur, req := req0, curIdx := curIdx, mode := mode, stop := false, extMode := m == TMode.ext,
        extLastLap := extLastLap, state := state } cur t (sel_ge_one fd0 fd1 _) (sel_ge_one cy0 cy1 _)
    simp only [if_true, hl, bind, Except.bind, pure, Except.pure]
    refine ⟨_, rfl, ⟨cur_le, req_le, setSel_fst_ge fd0 hfd, setSel_snd_ge fd1 hfd, setSel_fst_ge cy0 hcyc,
      setSel_snd_ge cy1 hcyc, (nomatch ·), (nomatch ·), ?_⟩, rfl, ?_, ?_, ?_, ?_⟩
    · intro seg hseg
      right
      simp only [sel_setSel _ _ _ _ cur_le hseg]
      split
      · omega
      · rename_i e
        rcases tic seg hseg with ⟨h1, _⟩ | h2
        · exact absurd rfl (hpend h1)
        · exact h2
    · simp only [sel_setSel _ _ _ _ cur_le cur_le, if_true]
    · simp only [sel_setSel _ _ _ _ cur_le cur_le, if_true]
    · simp
    · simp
  · by_cases h2 : rep = 0xFFFF
    · obtain ⟨lap, idx, hl, _⟩ := lapAndIdx_ok
        { sysTime := sysTime, rep := rep0, startLap := startLap, freqDiv := freqDiv, cycle := cycle, ticOff := ticOff,
          cur := req, req := req0, curIdx := curIdx, mode := mode, stop := false, extMode := m == TMode.ext,
          extLastLap := extLastLap, state := state } req t (sel_ge_one fd0 fd1 _) (sel_ge_one cy0 cy1 _)
      simp only [h1, h2, if_true, if_false, hl, bind, Except.bind, pure, Except.pure]
      refine ⟨_, rfl, ⟨hreq, req_le, setSel_fst_ge fd0 hfd, setSel_snd_ge fd1 hfd, setSel_fst_ge cy0 hcyc,
        setSel_snd_ge cy1 hcyc, (nomatch ·), (nomatch ·), ?_⟩, rfl, ?_, ?_, ?_, ?_⟩
      · intro seg hseg
        right
        simp only [sel_setSel _ _ _ _ hreq hseg]
        split
        · omega
        · rename_i e
          rcases tic seg hseg with ⟨h1', h2'⟩ | h2'
          · -- seg = req0 ≠ cur, and seg ≠ req, all ≤ 1: impossible
            have := wait_req h1'
            omega
          · exact h2'
      · simp only [sel_setSel _ _ _ _ hreq hreq, if_true]
      · simp only [sel_setSel _ _ _ _ hreq hreq, if_true]
      · simp
      · simp
    · simp only [h1, h2, if_false, bind, Except.bind, pure, Except.pure]
      have hw : m.waitable = true := by
        cases hm : m.waitable with
        | true => rfl
        | false => rcases hmode hm with h | h <;> contradiction
      refine ⟨_, rfl, ⟨cur_le, hreq, setSel_fst_ge fd0 hfd, setSel_snd_ge fd1 hfd, setSel_fst_ge cy0 hcyc,
        setSel_snd_ge cy1 hcyc, fun _ => hw, fun _ => fun e => h1 e.symm, ?_⟩, rfl, ?_, ?_, ?_, ?_⟩
      · intro seg hseg
        by_cases e : seg = req
        · exact Or.inl ⟨rfl, e⟩
        · right
          simp only [sel_setSel _ _ _ _ hreq hseg, e, if_false]
          rcases tic seg hseg with ⟨h1', h2'⟩ | h2'
          · have := wait_req h1'
            have := hpend h1'
            omega
          · exact h2'
      · simp only [sel_setSel _ _ _ _ hreq hreq, if_true]
      · simp only [sel_setSel _ _ _ _ hreq hreq, if_true]
      · simp [h1, h2]
      · simp [h1, h2]

/-! ### what can go wrong without well-formedness -/

theorem phase1_cases (w : Swap) (g : Nat → Bool) (t lastLap lap idx : Nat) :
    (∃ w', w.phase1 g t lastLap lap idx = .ok w' ∧ w'.freqDiv = w.freqDiv ∧ w'.cycle = w.cycle) ∨
    (w.phase1 g t lastLap lap idx = .error (.unreachable "Swapchain::update: WaitStart with Ext/Immediate") ∧
      w.state = .waitStart ∧ w.mode.waitable = false) := by
  rcases w with ⟨sysTime, rep, startLap, freqDiv, cycle, ticOff, cur, req, curIdx, mode, stop, extMode, extLastLap, state⟩
  unfold Swap.phase1
  cases state
  · cases mode <;> simp only []
    · left; split <;> exact ⟨_, rfl, rfl, rfl⟩
    · left; split <;> exact ⟨_, rfl, rfl, rfl⟩
    · left; split <;> exact ⟨_, rfl, rfl, rfl⟩
    · right; simp [TMode.waitable]
    · right; simp [TMode.waitable]
  · left; simp only []
    refine ⟨_, rfl, ?_, ?_⟩ <;> split <;> split <;> rfl
  · left; simp only []
    split <;> exact ⟨_, rfl, rfl, rfl⟩

/-- **characterisation of the panics of `Swapchain::update`**: with non-zero divisions and cycles the only
panics are the `unreachable!()` of a pending transition whose mode is Ext/Immediate (F15) and the
underflow of `idx + cycle - tic_idx_offset` (a start offset that is stale w.r.t. the cycle, F17/F18) -/
theorem update_error_cases (w : Swap) (g : Nat → Bool) (t : Nat) (e : Panic)
    (fd0 : 1 ≤ w.freqDiv.1) (fd1 : 1 ≤ w.freqDiv.2) (cy0 : 1 ≤ w.cycle.1) (cy1 : 1 ≤ w.cycle.2)
    (h : w.update g t = .error e) :
    (e = .unreachable "Swapchain::update: WaitStart with Ext/Immediate" ∧ w.state = .waitStart ∧
      w.mode.waitable = false) ∨
    e = .overflow "Swapchain::update: idx + cycle - tic_idx_offset" := by
  obtain ⟨l0, i0, hl0, _⟩ := lapAndIdx_ok w w.req w.sysTime (sel_ge_one fd0 fd1 _) (sel_ge_one cy0 cy1 _)
  obtain ⟨l1, i1, hl1, hi1⟩ := lapAndIdx_ok w w.req t (sel_ge_one fd0 fd1 _) (sel_ge_one cy0 cy1 _)
  rw [update_eq] at h
  simp only [hl0, hl1, bind, Except.bind] at h
  rcases phase1_cases w g t l0 l1 i1 with ⟨w1, h1, e1, e2⟩ | ⟨h1, hs, hm⟩
  · simp only [h1] at h
    right
    obtain ⟨l2, i2, hl2, _⟩ := lapAndIdx_ok w1 w1.cur t (by rw [e1]; exact sel_ge_one fd0 fd1 _)
      (by rw [e2]; exact sel_ge_one cy0 cy1 _)
    have hc : 1 ≤ sel w1.cycle w1.cur := by rw [e2]; exact sel_ge_one cy0 cy1 _
    unfold Swap.phase2 at h
    simp only [hl2, bind, Except.bind] at h
    split at h
    · rw [if_neg (by omega)] at h; cases h
    · split at h
      · cases h; rfl
      · rw [if_neg (by omega)] at h; cases h
  · simp only [h1] at h
    cases h
    exact Or.inl ⟨rfl, hs, hm⟩

/-! ### the CPU's `validate_transition_mode` gives the `mode` side condition of `SetOK` -/

theorem validate_gives_mode (belief seg rep modeByte value : Nat) (site : String) (m : TMode) (cur : Nat)
    (hb : modeByte < 256) (hne : modeByte ≠ Autd3.Gen.Cpu.TRANSITION_MODE_NONE)
    (hv : validateTransitionMode belief seg rep modeByte = false)
    (hd : decodeTMode modeByte value site = .ok m) (hbel : belief = cur) :
    m.waitable = false → cur = seg ∨ rep = 0xFFFF := by
  intro hw
  subst hbel
  unfold validateTransitionMode at hv
  unfold decodeTMode at hd
  simp only [Nat.mod_eq_of_lt hb] at hd
  rw [if_neg hne] at hv
  by_cases h1 : belief = seg
  · exact Or.inl h1
  · by_cases h2 : rep = 0xFFFF
    · exact Or.inr h2
    · exfalso
      simp only [h1, h2, if_false, decide_eq_false_iff_not, not_or] at hv
      split at hd
      · cases hd; cases hw
      split at hd
      · cases hd; cases hw
      split at hd
      · split at hd
        · cases hd; cases hw
        · cases hd
      split at hd
      · exact hv.2 (by assumption)
      split at hd
      · exact hv.1 (by assumption)
      · cases hd

end Autd3.Fw

namespace Autd3.Fw

/-- F15 at the level of the swap chain: power-on `set` (infinite, S0), finite-loop request to S1 with SyncIdx
(pending), then a finite-loop request to S1 with Immediate (which the CPU lets through because it already
believes S1 is current), then `update` -/
def f15SwapTrace : M Swap := do
  let w ← ({} : Swap).set 0 0xFFFF 10 1 0 .syncIdx
  let w ← w.set 0 5 10 2 1 .syncIdx
  let w ← w.set 0 5 10 2 1 .immediate
  w.update (fun _ => false) 0

/-- stale start offset (new, "F18"): a finite-loop GPIO transition to S1 fires in the middle of a
1000-pattern cycle (offset 500); an infinite-loop Immediate request goes back to S0; a finite-loop SyncIdx request
for a 10-pattern STM in S1 is pending (S1's offset 500 is now stale); an infinite-loop **Ext** request for the
current segment S0 (accepted by the CPU, whose belief is S1) puts the chain into Ext mode; when Ext flips to
S1 `idx + cycle - tic_idx_offset` underflows -/
def f18SwapTrace : M Swap := do
  let w ← ({} : Swap).set 0 0xFFFF 10 1 0 .syncIdx
  let w ← w.set 0 5 10 1000 1 (.gpio 0)
  let w ← w.update (fun _ => true) 125000000
  let w ← w.set 125000000 0xFFFF 10 1 0 .immediate
  let w ← w.set 125000000 5 10 10 1 .syncIdx
  let w ← w.set 125000000 0xFFFF 10 2 0 .ext
  w.update (fun _ => false) 1252500000

/-- the swap chain right after power-on (`Swapchain::new` + the `set` issued by `clear`) -/
def powerOnSwap (now : Nat) : Swap :=
  { sysTime := now, extLastLap := (((fpgaSysTime now) >>> 9) / 10) / 1, state := .infiniteLoop,
    mode := .syncIdx, freqDiv := (0xFFFF, 10), cycle := (2, 1) }

end Autd3.Fw
