import Autd3.Model.HoloFill
/-! Helper lemmas for the raw-pointer fill of C10. -/
namespace Autd3.HoloFill

/-- lay a list of values out contiguously from address `p` -/
def place (p : Nat) (L : List Tag) : List (Nat × Tag) := (L.zipIdx p).map fun x => (x.2, x.1)

theorem place_append (p : Nat) (A B : List Tag) : place p (A ++ B) = place p A ++ place (p + A.length) B := by
  simp [place, List.zipIdx_append]

theorem place_length (p : Nat) (L : List Tag) : (place p L).length = L.length := by simp [place]

theorem place_addrs (p : Nat) (L : List Tag) : (place p L).map (·.1) = List.range' p L.length := by
  induction L generalizing p with
  | nil => simp [place]
  | cons x L ih =>
    have := ih (p + 1)
    simp only [place, List.zipIdx_cons, List.map_cons, List.length_cons, List.range'_succ] at this ⊢
    rw [this]

theorem place_tags (p : Nat) (L : List Tag) : (place p L).map (·.2) = L := by
  induction L generalizing p with
  | nil => simp [place]
  | cons x L ih =>
    have := ih (p + 1)
    simp only [place, List.zipIdx_cons, List.map_cons] at this ⊢
    rw [this]

theorem trWrites_eq (ptr m dev tr : Nat) :
    trWrites ptr m dev tr = place ptr ((List.range m).map fun i => (dev, tr, i)) := by
  unfold trWrites place
  apply List.ext_getElem?
  intro k
  simp [List.getElem?_zipIdx]
  cases h : (List.range m)[k]? <;> simp
  obtain ⟨hk, hv⟩ := List.getElem?_eq_some_iff.mp h
  simp at hv
  omega

/-- tags of the transducers `trs` of device `dev` selected by `b`, in storage order -/
def tagsOf (m dev : Nat) (b : Nat → Bool) (trs : List Nat) : List Tag :=
  (trs.filter b).flatMap fun tr => (List.range m).map fun i => (dev, tr, i)

theorem trLoop_spec (m dev : Nat) (sel : Nat → Except Panic Bool) (b : Nat → Bool) (trs : List Nat) (ptr : Nat)
    (h : ∀ tr ∈ trs, sel tr = .ok (b tr)) :
    trLoop m dev sel trs ptr = .ok (place ptr (tagsOf m dev b trs)) := by
  induction trs generalizing ptr with
  | nil => simp [trLoop, tagsOf, place]
  | cons tr trs ih =>
    have h1 := h tr List.mem_cons_self
    have h2 : ∀ t ∈ trs, sel t = .ok (b t) := fun t ht => h t (List.mem_cons_of_mem _ ht)
    unfold trLoop
    rw [h1]
    cases hb : b tr with
    | false => simp only []; rw [ih ptr h2]; simp [tagsOf, hb]
    | true =>
      simp only []
      rw [ih (ptr + m) h2, trWrites_eq]
      simp [tagsOf, hb, place_append]

theorem tagsOf_length (m dev : Nat) (b : Nat → Bool) (trs : List Nat) :
    (tagsOf m dev b trs).length = m * (trs.filter b).length := by
  unfold tagsOf
  induction trs.filter b with
  | nil => simp
  | cons x l ih => simp [List.flatMap_cons, ih, Nat.mul_succ, Nat.add_comm]

private theorem count_aux (pre f : List Bool) :
    ((List.range' pre.length f.length).filter fun tr => (pre ++ f)[tr]? == some true).length = f.count true := by
  induction f generalizing pre with
  | nil => simp
  | cons b f ih =>
    have h := ih (pre ++ [b])
    simp only [List.length_append, List.length_singleton, List.append_assoc, List.singleton_append] at h
    simp only [List.length_cons, List.range'_succ, List.filter_cons, List.count_cons]
    have hb : (pre ++ b :: f)[pre.length]? = some b := by simp
    rw [hb]
    cases b <;> simp [h]

/-- number of set bits of a bit vector = number of indices at which it reads `true` -/
theorem count_eq_filter_range (f : List Bool) :
    ((List.range f.length).filter fun tr => f[tr]? == some true).length = f.count true := by
  have := count_aux [] f
  simpa [List.range_eq_range'] using this

/-- the hypothesis `WF` for one device -/
def WFd (hf : Bool) (d : HDev) : Prop := d.enable = true → hf = true → ∀ f, d.filter = some f → f.length = d.numTr

theorem WF_iff (hf : Bool) (devs : List HDev) : WF hf devs = true ↔ ∀ d ∈ devs, WFd hf d := by
  unfold WF WFd
  simp only [List.all_eq_true]
  constructor
  · intro h d hd he hh f hf'
    have := h d hd
    simp [he, hh, hf'] at this
    exact this
  · intro h d hd
    have := h d hd
    cases he : d.enable <;> cases hh : hf <;> simp
    cases hf' : d.filter with
    | none => simp
    | some f => simpa using this he hh f hf'

/-- the column tags of one device in storage order (empty when disabled) -/
def devTags (hf : Bool) (m i : Nat) (d : HDev) : List Tag :=
  if d.enable then
    if hf then
      match d.filter with
      | none => []
      | some f => tagsOf m i (fun tr => f[tr]? == some true) (List.range d.numTr)
    else tagsOf m i (fun _ => true) (List.range d.numTr)
  else []

theorem devWrites_spec (hf : Bool) (m : Nat) (P : List Nat) (i p : Nat) (d : HDev)
    (hw : WFd hf d) (he : d.enable = true) (hp : P[i]? = some p) :
    devWrites hf m P i d = .ok (place (m * p) (devTags hf m i d)) := by
  unfold devWrites devTags
  rw [hp]
  simp only [he, if_true]
  cases hf with
  | false => simp only [Bool.false_eq_true, if_false]; exact trLoop_spec _ _ _ _ _ _ (fun _ _ => rfl)
  | true =>
    simp only [if_true]
    cases hfl : d.filter with
    | none => simp [place]
    | some f =>
      simp only []
      apply trLoop_spec
      intro tr htr
      rw [List.mem_range] at htr
      have hl := hw he rfl f hfl
      have : tr < f.length := by omega
      simp [bitAt, List.getElem?_eq_getElem this]

theorem devTags_length (hf : Bool) (m i : Nat) (d : HDev) (hw : WFd hf d) :
    (devTags hf m i d).length = m * countOf hf d := by
  unfold devTags countOf
  cases he : d.enable with
  | false => simp
  | true =>
    simp only [if_true]
    cases hf with
    | false =>
      have : (List.range d.numTr).filter (fun _ => true) = List.range d.numTr :=
        List.filter_eq_self.mpr (by simp)
      simp [tagsOf_length, this]
    | true =>
      simp only [if_true]
      cases hfl : d.filter with
      | none => simp
      | some f =>
        simp only [tagsOf_length]
        have hl := hw he rfl f hfl
        rw [← hl, count_eq_filter_range]

def sumCount (hf : Bool) (l : List HDev) : Nat := (l.map (countOf hf)).sum

theorem scan_get (hf : Bool) (devs : List HDev) (acc j : Nat) (hj : j ≤ devs.length) :
    (acc :: scanFrom hf acc devs)[j]? = some (acc + sumCount hf (devs.take j)) := by
  induction devs generalizing acc j with
  | nil => simp at hj; subst hj; simp [sumCount]
  | cons d ds ih =>
    cases j with
    | zero => simp [sumCount]
    | succ j =>
      simp only [List.length_cons, Nat.add_le_add_iff_right] at hj
      simp only [scanFrom, List.getElem?_cons_succ, List.take_succ_cons]
      rw [ih (acc + countOf hf d) j hj]
      simp [sumCount, Nat.add_assoc]

theorem prefix_get (hf : Bool) (devs : List HDev) (j : Nat) (hj : j ≤ devs.length) :
    (prefixSums hf devs)[j]? = some (sumCount hf (devs.take j)) := by
  have := scan_get hf devs 0 j hj
  simpa [prefixSums] using this

theorem scan_last (hf : Bool) (devs : List HDev) (acc : Nat) :
    (scanFrom hf acc devs).getLastD acc = acc + sumCount hf devs := by
  induction devs generalizing acc with
  | nil => simp [scanFrom, sumCount]
  | cons d ds ih =>
    simp only [scanFrom, List.getLastD_cons]
    rw [ih]
    simp [sumCount, Nat.add_assoc]

theorem totalCols_eq (hf : Bool) (devs : List HDev) : totalCols hf devs = sumCount hf devs := by
  unfold totalCols
  simpa using scan_last hf devs 0

theorem flatMap_congr' {α γ : Type} {l : List α} {f g : α → List γ} (h : ∀ x ∈ l, f x = g x) :
    l.flatMap f = l.flatMap g := by
  induction l with
  | nil => rfl
  | cons x l ih =>
    simp only [List.flatMap_cons]
    rw [h x List.mem_cons_self, ih (fun y hy => h y (List.mem_cons_of_mem _ hy))]

/-- all column tags of the devices `devs` (numbered from `s`) in storage order -/
def allTags (hf : Bool) (m : Nat) (devs : List HDev) (s : Nat) : List Tag :=
  (devs.zipIdx s).flatMap fun p => devTags hf m p.2 p.1

theorem allTags_length (hf : Bool) (m : Nat) (devs : List HDev) (s : Nat) (hw : ∀ d ∈ devs, WFd hf d) :
    (allTags hf m devs s).length = m * sumCount hf devs := by
  induction devs generalizing s with
  | nil => simp [allTags, sumCount]
  | cons d ds ih =>
    have h1 := ih (s + 1) (fun x hx => hw x (List.mem_cons_of_mem _ hx))
    unfold allTags at h1 ⊢
    simp only [List.zipIdx_cons, List.flatMap_cons, List.length_append, h1,
      devTags_length hf m s d (hw d List.mem_cons_self)]
    simp [sumCount, Nat.mul_add]

theorem enabledDevsFrom_cons (d : HDev) (ds : List HDev) (s : Nat) :
    enabledDevsFrom (d :: ds) s = if d.enable then (s, d) :: enabledDevsFrom ds (s + 1) else enabledDevsFrom ds (s + 1) := by
  unfold enabledDevsFrom
  cases h : d.enable <;> simp [List.zipIdx_cons, h]

/-- **the fill, serially**: the tasks of the devices `suf` (which follow `pre` in the geometry)
append exactly the column tags of `suf`, laid out contiguously from where `pre` ended -/
theorem writesFrom_spec (hf : Bool) (m : Nat) (pre suf : List HDev) (acc : List (Nat × Tag))
    (hw : ∀ d ∈ suf, WFd hf d) :
    writesFrom hf m (prefixSums hf (pre ++ suf)) (enabledDevsFrom suf pre.length) acc
      = .ok (acc ++ place (m * sumCount hf pre) (allTags hf m suf pre.length)) := by
  induction suf generalizing pre acc with
  | nil => simp [enabledDevsFrom, writesFrom, allTags, place]
  | cons d ds ih =>
    have hw' : ∀ x ∈ ds, WFd hf x := fun x hx => hw x (List.mem_cons_of_mem _ hx)
    have ih' := ih (pre ++ [d])
    have happ : pre ++ [d] ++ ds = pre ++ d :: ds := by simp
    have hlen : (pre ++ [d]).length = pre.length + 1 := by simp
    rw [happ, hlen] at ih'
    have hsum : sumCount hf (pre ++ [d]) = sumCount hf pre + countOf hf d := by simp [sumCount]
    rw [enabledDevsFrom_cons]
    have hall : allTags hf m (d :: ds) pre.length = devTags hf m pre.length d ++ allTags hf m ds (pre.length + 1) := by
      simp [allTags, List.zipIdx_cons]
    cases he : d.enable with
    | false =>
      simp only [Bool.false_eq_true, if_false]
      rw [ih' acc hw', hsum, hall]
      have : devTags hf m pre.length d = [] := by simp [devTags, he]
      have hc : countOf hf d = 0 := by simp [countOf, he]
      rw [this, hc]; simp
    | true =>
      simp only [if_true]
      unfold writesFrom
      have hp : (prefixSums hf (pre ++ d :: ds))[pre.length]? = some (sumCount hf pre) := by
        have := prefix_get hf (pre ++ d :: ds) pre.length (by simp)
        simpa using this
      rw [devWrites_spec hf m _ pre.length _ d (hw d List.mem_cons_self) he hp]
      simp only []
      rw [ih' _ hw', hsum, hall, place_append, devTags_length hf m pre.length d (hw d List.mem_cons_self)]
      simp [Nat.mul_add, List.append_assoc]

theorem serialWrites_spec (hf : Bool) (m : Nat) (devs : List HDev) (hw : WF hf devs = true) :
    serialWrites hf m devs = .ok (place 0 (allTags hf m devs 0)) := by
  have := writesFrom_spec hf m [] devs [] ((WF_iff hf devs).mp hw)
  simpa [serialWrites, writesIn, enabledDevs, sumCount] using this

theorem flatMap_enabledDevsFrom {γ : Type} (g : Nat × HDev → List γ) (devs : List HDev) (s : Nat) :
    (enabledDevsFrom devs s).flatMap g = (devs.zipIdx s).flatMap fun p => if p.1.enable then g (p.2, p.1) else [] := by
  induction devs generalizing s with
  | nil => simp [enabledDevsFrom]
  | cons d ds ih =>
    rw [enabledDevsFrom_cons]
    cases h : d.enable <;> simp [List.zipIdx_cons, h, ih]

theorem safeMatrix_eq (hf : Bool) (m : Nat) (devs : List HDev) : safeMatrix hf m devs = allTags hf m devs 0 := by
  unfold safeMatrix selected enabledDevs allTags
  rw [flatMap_enabledDevsFrom, List.flatMap_assoc]
  apply flatMap_congr'
  intro p _
  unfold devTags tagsOf
  cases he : p.1.enable with
  | false => simp
  | true =>
    simp only [if_true]
    cases hf with
    | false =>
      have : (List.range p.1.numTr).filter (fun _ => true) = List.range p.1.numTr :=
        List.filter_eq_self.mpr (by simp)
      simp [List.flatMap_map, this]
    | true =>
      simp only [if_true]
      cases p.1.filter with
      | none => simp
      | some f => simp [List.flatMap_map]

/-! ### any order of the device tasks -/

theorem mem_enabledDevsFrom (devs : List HDev) (s : Nat) (t : Nat × HDev) (ht : t ∈ enabledDevsFrom devs s) :
    s ≤ t.1 ∧ devs[t.1 - s]? = some t.2 ∧ t.2.enable = true := by
  induction devs generalizing s with
  | nil => simp [enabledDevsFrom] at ht
  | cons d ds ih =>
    rw [enabledDevsFrom_cons] at ht
    have hrest : t ∈ enabledDevsFrom ds (s + 1) → s ≤ t.1 ∧ (d :: ds)[t.1 - s]? = some t.2 ∧ t.2.enable = true := by
      intro h
      obtain ⟨h1, h2, h3⟩ := ih (s + 1) h
      refine ⟨by omega, ?_, h3⟩
      have : t.1 - s = (t.1 - (s + 1)) + 1 := by omega
      rw [this, List.getElem?_cons_succ]; exact h2
    cases he : d.enable with
    | false => rw [he] at ht; exact hrest (by simpa using ht)
    | true =>
      rw [he] at ht
      simp only [if_true, List.mem_cons] at ht
      rcases ht with rfl | ht
      · simp [he]
      · exact hrest ht

/-- where device task `t` puts its column block -/
def blockOf (hf : Bool) (m : Nat) (devs : List HDev) (t : Nat × HDev) : List (Nat × Tag) :=
  place (m * sumCount hf (devs.take t.1)) (devTags hf m t.1 t.2)

theorem writesFrom_any (hf : Bool) (m : Nat) (devs : List HDev) (tasks : List (Nat × HDev)) (acc : List (Nat × Tag))
    (hw : ∀ d ∈ devs, WFd hf d) (ht : ∀ t ∈ tasks, t ∈ enabledDevs devs) :
    writesFrom hf m (prefixSums hf devs) tasks acc = .ok (acc ++ tasks.flatMap (blockOf hf m devs)) := by
  induction tasks generalizing acc with
  | nil => simp [writesFrom]
  | cons t ts ih =>
    obtain ⟨_, h2, h3⟩ := mem_enabledDevsFrom devs 0 t (ht t List.mem_cons_self)
    simp only [Nat.sub_zero] at h2
    have hlt : t.1 < devs.length := by
      rcases Nat.lt_or_ge t.1 devs.length with h | h
      · exact h
      · rw [List.getElem?_eq_none h] at h2; simp at h2
    have hmem : t.2 ∈ devs := List.mem_of_getElem? h2
    unfold writesFrom
    rw [devWrites_spec hf m _ t.1 _ t.2 (hw _ hmem) h3 (prefix_get hf devs t.1 (Nat.le_of_lt hlt))]
    simp only []
    rw [ih _ (fun x hx => ht x (List.mem_cons_of_mem _ hx))]
    simp [blockOf, List.append_assoc]

/-- applying writes with pairwise different in-range addresses: the result is determined by the *set*
of writes -/
theorem applyWrites_spec (buf : Array (Option Tag)) (ws : List (Nat × Tag))
    (hnd : (ws.map (·.1)).Nodup) (hin : ∀ w ∈ ws, w.1 < buf.size) :
    ∃ r, applyWrites buf ws = .ok r ∧ r.size = buf.size ∧
      (∀ w ∈ ws, r[w.1]? = some (some w.2)) ∧ (∀ a, a ∉ ws.map (·.1) → r[a]? = buf[a]?) := by
  induction ws generalizing buf with
  | nil => exact ⟨buf, rfl, rfl, by simp, by simp⟩
  | cons w ws ih =>
    obtain ⟨a, t⟩ := w
    simp only [List.map_cons, List.nodup_cons] at hnd
    have ha : a < buf.size := hin (a, t) List.mem_cons_self
    have hin' : ∀ w ∈ ws, w.1 < (buf.setIfInBounds a (some t)).size := by
      intro w hw; simpa using hin w (List.mem_cons_of_mem _ hw)
    obtain ⟨r, hr, hs, h1, h2⟩ := ih (buf.setIfInBounds a (some t)) hnd.2 hin'
    refine ⟨r, by simp [applyWrites, ha, hr], by simpa using hs, ?_, ?_⟩
    · intro w hw
      rcases List.mem_cons.mp hw with rfl | hw
      · rw [h2 a hnd.1]; simp [ha]
      · exact h1 w hw
    · intro b hb
      simp only [List.map_cons, List.mem_cons, not_or] at hb
      rw [h2 b hb.2, Array.getElem?_setIfInBounds_ne (Ne.symm hb.1)]

theorem applyWrites_perm (buf : Array (Option Tag)) (ws ws' : List (Nat × Tag)) (hp : ws.Perm ws')
    (hnd : (ws.map (·.1)).Nodup) (hin : ∀ w ∈ ws, w.1 < buf.size) :
    applyWrites buf ws' = applyWrites buf ws := by
  have hnd' : (ws'.map (·.1)).Nodup := (hp.map (·.1)).nodup hnd
  have hin' : ∀ w ∈ ws', w.1 < buf.size := fun w hw => hin w (hp.symm.subset hw)
  obtain ⟨r, hr, hs, h1, h2⟩ := applyWrites_spec buf ws hnd hin
  obtain ⟨r', hr', hs', h1', h2'⟩ := applyWrites_spec buf ws' hnd' hin'
  rw [hr, hr']
  congr 1
  apply Array.ext_getElem?
  intro a
  by_cases ha : a ∈ ws.map (·.1)
  · obtain ⟨w, hw, rfl⟩ := List.mem_map.mp ha
    rw [h1 w hw, h1' w (hp.subset hw)]
  · have ha' : a ∉ ws'.map (·.1) := fun h => ha ((hp.map (·.1)).symm.subset h)
    rw [h2 a ha, h2' a ha']

/-- writing a full contiguous layout into a fresh buffer gives exactly that layout -/
theorem applyWrites_place (L : List Tag) :
    applyWrites (Array.replicate L.length none) (place 0 L) = .ok (L.map some).toArray := by
  have hnd : ((place 0 L).map (·.1)).Nodup := by rw [place_addrs]; exact List.nodup_range' 1
  have hin : ∀ w ∈ place 0 L, w.1 < (Array.replicate L.length (none : Option Tag)).size := by
    intro w hw
    have : w.1 ∈ (place 0 L).map (·.1) := List.mem_map_of_mem hw
    rw [place_addrs, List.mem_range'_1] at this
    simpa using this.2
  obtain ⟨r, hr, hs, h1, _⟩ := applyWrites_spec _ _ hnd hin
  rw [hr]
  congr 1
  apply Array.ext_getElem?
  intro a
  by_cases ha : a < L.length
  · have hmem : (a, L[a]) ∈ place 0 L := by
      unfold place
      rw [List.mem_map]
      exact ⟨(L[a], a), by simp [List.mem_zipIdx_iff_getElem?, ha], rfl⟩
    rw [h1 _ hmem]; simp [ha]
  · have h1 : r.size ≤ a := by simp at hs; omega
    have h2 : (L.map some).toArray.size ≤ a := by simp; omega
    rw [Array.getElem?_eq_none h1, Array.getElem?_eq_none h2]

end Autd3.HoloFill
