import Autd3.Model.Fw
/-!
# A small weakest-precondition calculus for the firmware model (`Except Panic`)

`Post m Q` : every successful result of `m` satisfies `Q` (panics are vacuous).  All structural rules
are equivalences, so `simp only [post]`-style rewriting symbolically executes a handler.
Used by the C08 proofs (`Lemmas/SilGuard*.lean`).
-/
namespace Autd3.SilGuard
open Autd3.Fw

def Post {α : Type} (m : M α) (Q : α → Prop) : Prop := ∀ a, m = .ok a → Q a

theorem Post_def {α : Type} (m : M α) (Q : α → Prop) : Post m Q ↔ ∀ a, m = .ok a → Q a := Iff.rfl

@[simp] theorem Post_ok {α : Type} (a : α) (Q : α → Prop) : Post (Except.ok a : M α) Q ↔ Q a := by
  constructor
  · intro h; exact h a rfl
  · intro h b hb; cases hb; exact h

@[simp] theorem Post_pure {α : Type} (a : α) (Q : α → Prop) : Post (pure a : M α) Q ↔ Q a := Post_ok a Q

@[simp] theorem Post_error {α : Type} (e : Panic) (Q : α → Prop) : Post (Except.error e : M α) Q ↔ True := by
  constructor
  · intro _; trivial
  · intro _ b hb; cases hb

@[simp] theorem Post_bind {α β : Type} (m : M α) (f : α → M β) (Q : β → Prop) :
    Post (m >>= f) Q ↔ Post m (fun a => Post (f a) Q) := by
  constructor
  · intro h a ha b hb
    apply h b
    show Except.bind m f = _
    rw [ha]; exact hb
  · intro h b hb
    cases hm : m with
    | error e => rw [hm] at hb; cases hb
    | ok a => rw [hm] at hb; exact h a hm b hb

@[simp] theorem Post_ite {α : Type} (c : Prop) [Decidable c] (a b : M α) (Q : α → Prop) :
    Post (if c then a else b) Q ↔ (c → Post a Q) ∧ (¬ c → Post b Q) := by
  by_cases hc : c <;> simp [hc]

@[simp] theorem Post_true {α : Type} (m : M α) : Post m (fun _ => True) ↔ True := by
  constructor
  · intro _; trivial
  · intro _ _ _; trivial

theorem Post_mono {α : Type} {m : M α} {Q R : α → Prop} (h : Post m Q) (hqr : ∀ a, Q a → R a) : Post m R :=
  fun a ha => hqr a (h a ha)

theorem Post_and {α : Type} {m : M α} {Q R : α → Prop} (h1 : Post m Q) (h2 : Post m R) :
    Post m (fun a => Q a ∧ R a) := fun a ha => ⟨h1 a ha, h2 a ha⟩

/-- Hoare cut: use an already proved postcondition of `m` to continue with the rest -/
theorem Post_bind_of {α β : Type} {m : M α} {f : α → M β} {R : α → Prop} {Q : β → Prop}
    (h : Post m R) (hf : ∀ a, R a → Post (f a) Q) : Post (m >>= f) Q :=
  (Post_bind m f Q).2 (fun a ha => hf a (h a ha))

theorem Post_elim {α : Type} {m : M α} {Q : α → Prop} (h : Post m Q) {a : α} (ha : m = .ok a) : Q a := h a ha

/-- result of a computation with a default for the panic case (used to name the pieces of state an
opaque primitive changes) -/
def res {α : Type} (m : M α) (d : α) : α := match m with | .ok a => a | .error _ => d

def okP {α : Type} (m : M α) : Prop := ∃ a, m = .ok a

theorem Post_res {α : Type} (m : M α) (d : α) (Q : α → Prop) : Post m Q ↔ (okP m → Q (res m d)) := by
  constructor
  · rintro h ⟨a, ha⟩; rw [ha]; exact h a ha
  · intro h a ha; have := h ⟨a, ha⟩; rw [ha] at this; exact this

/-! ### array reads -/

theorem rd_set (a : Array Nat) (i v j : Nat) :
    rd (a.setIfInBounds i v) j = if j = i ∧ i < a.size then v else rd a j := by
  unfold rd; grind

theorem rd_set_ne (a : Array Nat) (i v j : Nat) (h : j ≠ i) : rd (a.setIfInBounds i v) j = rd a j := by
  rw [rd_set]; simp [h]

theorem rd_set_eq (a : Array Nat) (i v : Nat) (h : i < a.size) : rd (a.setIfInBounds i v) i = v := by
  rw [rd_set]; simp [h]

end Autd3.SilGuard
