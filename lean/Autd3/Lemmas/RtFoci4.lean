import Autd3.Lemmas.RtFoci3
/-!
FociSTM, part 4: the driver side — `FociSTM::pack` for the first and the following frames and what
`u8at/u16at/u64at` read from the packed payloads.
-/
set_option linter.unusedSimpArgs false
open Autd3 Autd3.Fw Autd3.Wire Autd3.Gen.Cpu Autd3.Gen
namespace Autd3.Rt

/-- the record loop of `FociSTM::pack`: `cnt` 64-bit records from `records[from_ …]` to `b[off …]` -/
def fociData (b records : Array Nat) (off from_ cnt : Nat) : Array Nat :=
  iter (fun b k => put64 b (off + 8 * k) (rd records (from_ + k))) b cnt

@[simp] theorem size_fociData (b records : Array Nat) (off from_ cnt : Nat) : (fociData b records off from_ cnt).size = b.size :=
  iter_inv (fun x : Array Nat => x.size = b.size) _ _ rfl (fun _ _ h => by simpa using h) cnt

theorem u64at_congr (a b : Array Nat) (j : Nat) (h : ∀ i, i < 8 → u8at a (j + i) = u8at b (j + i)) : u64at a j = u64at b j := by
  unfold u64at u16at
  have h0 := h 0 (by omega); rw [Nat.add_zero] at h0
  rw [h0, h 1 (by omega), show j + 2 + 1 = j + 3 from rfl, show j + 4 + 1 = j + 5 from rfl, show j + 6 + 1 = j + 7 from rfl,
    h 2 (by omega), h 3 (by omega), h 4 (by omega), h 5 (by omega), h 6 (by omega), h 7 (by omega)]

theorem u64at_put8_other (b : Array Nat) (i v j : Nat) (h : i < j ∨ j + 7 < i) : u64at (put8 b i v) j = u64at b j :=
  u64at_congr _ _ _ (fun k hk => by rw [u8at_put8, if_neg (by omega)])
theorem u64at_put16_other (b : Array Nat) (i v j : Nat) (h : i + 1 < j ∨ j + 7 < i) : u64at (put16 b i v) j = u64at b j :=
  u64at_congr _ _ _ (fun k hk => by rw [u8at_put16, if_neg (by omega), if_neg (by omega)])
theorem u64at_putZeros_other (b : Array Nat) (i n j : Nat) (h : i + n ≤ j ∨ j + 7 < i) : u64at (putZeros b i n) j = u64at b j :=
  u64at_congr _ _ _ (fun k hk => by rw [u8at_putZeros, if_neg (by omega)])

theorem u8at_fociData_low (b records : Array Nat) (off from_ cnt j : Nat) (hj : j < off) :
    u8at (fociData b records off from_ cnt) j = u8at b j := by
  unfold fociData
  induction cnt with
  | zero => rfl
  | succ n ih => simp only [iter]; rw [u8at_put64_other _ _ _ _ (by omega), ih]

/-- record `k` written by the loop is read back by `u64at` -/
theorem u64at_fociData (b records : Array Nat) (off from_ cnt k : Nat) (hk : k < cnt) (hb : off + 8 * cnt ≤ b.size) :
    u64at (fociData b records off from_ cnt) (off + 8 * k) = rd records (from_ + k) % 18446744073709551616 := by
  unfold fociData
  induction cnt with
  | zero => omega
  | succ n ih =>
    simp only [iter]
    by_cases h : k = n
    · subst h
      rw [u64at_put64_same _ _ _ (by rw [← fociData, size_fociData]; omega)]
    · rw [u64at_put64_other _ _ _ _ (by omega), ih (by omega) (by omega)]

/-- the control-flag byte of a FociSTM frame -/
def fociFlagByte (first last hasTr : Bool) : Nat :=
  (if first then 1 else 0) + (if last then 2 + (if hasTr then 4 else 0) else 0)

theorem fociFlagByte_lt (first last hasTr : Bool) : fociFlagByte first last hasTr < 256 := by
  unfold fociFlagByte; repeat' split
  all_goals omega

theorem fociFlagByte_bits (first last hasTr : Bool) :
    hasFlag (fociFlagByte first last hasTr) FOCI_STM_FLAG_BEGIN = first ∧
    hasFlag (fociFlagByte first last hasTr) FOCI_STM_FLAG_END = last ∧
    hasFlag (fociFlagByte first last hasTr) FOCI_STM_FLAG_UPDATE = (last && hasTr) := by
  cases first <;> cases last <;> cases hasTr <;> decide

def fociFirstPayload (b records : Array Nat) (n sn flag seg tm div rep tv ss : Nat) : Array Nat :=
  put64 (put16 (put16 (put16 (put8 (put8 (put8 (put8 (put8 (put8 (putZeros (fociData b records 24 0 (sn * n)) 0 24)
    0 Drv.TAG_FociSTM) 1 flag) 2 sn) 3 seg) 4 tm) 5 n) 6 ss) 8 div) 10 rep) 16 tv

def fociNextPayload (b records : Array Nat) (n c sn flag seg : Nat) : Array Nat :=
  put8 (put8 (put8 (put8 (fociData b records 4 (c * n) (sn * n)) 0 Drv.TAG_FociSTM) 1 flag) 2 sn) 3 seg

theorem pack_foci_first (n seg : Nat) (tr : Tr) (rep div ss : Nat) (records : Array Nat) (P nt : Nat) (b : Array Nat)
    (hb : b.size = 622) (hn : 1 ≤ n ∧ n ≤ 8) (hP : records.size = P * n) (ht : 2 ≤ P * n ∧ P * n ≤ 65536) :
    ({ dg := .fociStm n seg tr rep div ss records, sent := 0, done := false } : Op).pack nt b 0 =
      .ok ({ dg := .fociStm n seg tr rep div ss records, sent := min P (598 / (8 * n)),
             done := decide (P = min P (598 / (8 * n))) },
        fociFirstPayload b records n (min P (598 / (8 * n)))
          (fociFlagByte true (decide (P = min P (598 / (8 * n)))) tr.isSome) seg (trMode tr) div rep (trValue tr) ss,
        24 + 8 * min P (598 / (8 * n)) * n) := by
  unfold Op.pack fociFirstPayload fociData
  have hn0 : ¬ (n = 0 ∨ n > Drv.FOCI_STM_FOCI_NUM_MAX) := by simp only [Drv.FOCI_STM_FOCI_NUM_MAX]; omega
  have hsz : records.size / n = P := by rw [hP]; exact Nat.mul_div_cancel _ (by omega)
  have ht0 : ¬ (P * n < Drv.STM_BUF_SIZE_MIN ∨ P * n > Drv.FOCI_STM_BUF_SIZE_MAX) := by
    simp only [Drv.STM_BUF_SIZE_MIN, Drv.FOCI_STM_BUF_SIZE_MAX]; omega
  simp only [hn0, if_false, hsz, ht0, hb, DrvLayout.FociSTMHead_size, Nat.sub_zero, Nat.zero_add, if_true,
    show 622 - 24 = 598 from rfl, Nat.zero_mul]
  by_cases hl : P = min P (598 / (8 * n))
  · simp only [← hl, decide_true, if_true]
    cases tr <;>
      simp [fociFlagByte, foldl_range', Drv.FociSTMControlFlags_END, Drv.FociSTMControlFlags_TRANSITION,
        Drv.FociSTMControlFlags_NONE, Drv.FociSTMControlFlags_BEGIN, DrvLayout.FociSTMHead_tag_off,
        DrvLayout.FociSTMHead_flag_off, DrvLayout.FociSTMHead_send_num_off, DrvLayout.FociSTMHead_segment_off,
        DrvLayout.FociSTMHead_transition_mode_off, DrvLayout.FociSTMHead_num_foci_off,
        DrvLayout.FociSTMHead_sound_speed_off, DrvLayout.FociSTMHead_freq_div_off, DrvLayout.FociSTMHead_rep_off,
        DrvLayout.FociSTMHead_transition_value_off]
  · simp only [hl, decide_false, if_false]
    simp [fociFlagByte, foldl_range', Drv.FociSTMControlFlags_NONE, Drv.FociSTMControlFlags_BEGIN,
      DrvLayout.FociSTMHead_tag_off,
      DrvLayout.FociSTMHead_flag_off, DrvLayout.FociSTMHead_send_num_off, DrvLayout.FociSTMHead_segment_off,
      DrvLayout.FociSTMHead_transition_mode_off, DrvLayout.FociSTMHead_num_foci_off,
      DrvLayout.FociSTMHead_sound_speed_off, DrvLayout.FociSTMHead_freq_div_off, DrvLayout.FociSTMHead_rep_off,
      DrvLayout.FociSTMHead_transition_value_off]

theorem pack_foci_next (n seg : Nat) (tr : Tr) (rep div ss : Nat) (records : Array Nat) (P nt : Nat) (b : Array Nat) (c : Nat)
    (hb : b.size = 622) (hn : 1 ≤ n ∧ n ≤ 8) (hP : records.size = P * n) (ht : 2 ≤ P * n ∧ P * n ≤ 65536)
    (hc0 : 0 < c) :
    ({ dg := .fociStm n seg tr rep div ss records, sent := c, done := false } : Op).pack nt b 0 =
      .ok ({ dg := .fociStm n seg tr rep div ss records, sent := c + min (P - c) (618 / (8 * n)),
             done := decide (P = c + min (P - c) (618 / (8 * n))) },
        fociNextPayload b records n c (min (P - c) (618 / (8 * n)))
          (fociFlagByte false (decide (P = c + min (P - c) (618 / (8 * n)))) tr.isSome) seg,
        4 + 8 * min (P - c) (618 / (8 * n)) * n) := by
  unfold Op.pack fociNextPayload fociData
  have hn0 : ¬ (n = 0 ∨ n > Drv.FOCI_STM_FOCI_NUM_MAX) := by simp only [Drv.FOCI_STM_FOCI_NUM_MAX]; omega
  have hsz : records.size / n = P := by rw [hP]; exact Nat.mul_div_cancel _ (by omega)
  have ht0 : ¬ (P * n < Drv.STM_BUF_SIZE_MIN ∨ P * n > Drv.FOCI_STM_BUF_SIZE_MAX) := by
    simp only [Drv.STM_BUF_SIZE_MIN, Drv.FOCI_STM_BUF_SIZE_MAX]; omega
  have hc' : ¬ c = 0 := by omega
  simp only [hn0, if_false, hsz, ht0, hb, DrvLayout.FociSTMSubseq_size, Nat.sub_zero, Nat.zero_add, hc',
    show 622 - 4 = 618 from rfl]
  by_cases hl : P = c + min (P - c) (618 / (8 * n))
  · simp only [← hl, decide_true, if_true]
    cases tr <;>
      simp [fociFlagByte, foldl_range', Drv.FociSTMControlFlags_END, Drv.FociSTMControlFlags_TRANSITION,
        Drv.FociSTMControlFlags_NONE, DrvLayout.FociSTMSubseq_tag_off,
        DrvLayout.FociSTMSubseq_flag_off, DrvLayout.FociSTMSubseq_send_num_off, DrvLayout.FociSTMSubseq_segment_off]
  · simp only [hl, decide_false, if_false]
    simp [fociFlagByte, foldl_range', Drv.FociSTMControlFlags_NONE, DrvLayout.FociSTMSubseq_tag_off,
      DrvLayout.FociSTMSubseq_flag_off, DrvLayout.FociSTMSubseq_send_num_off, DrvLayout.FociSTMSubseq_segment_off]

theorem fociFirst_payload (b records : Array Nat) (n sn flag seg tm div rep tv ss : Nat) (hb : b.size = 622)
    (hfit : 24 + 8 * (sn * n) ≤ 622) (hf : flag < 256) :
    let d := fociFirstPayload b records n sn flag seg tm div rep tv ss
    u8at d 0 = 66 ∧ u8at d 1 = flag ∧ u8at d 2 = sn % 256 ∧ u8at d 3 = seg % 256 ∧ u8at d 4 = tm % 256 ∧
      u8at d 5 = n % 256 ∧ u16at d 6 = ss % 65536 ∧ u16at d 8 = div % 65536 ∧ u16at d 10 = rep % 65536 ∧
      u64at d 16 = tv % 18446744073709551616 ∧
      (∀ k, k < sn * n → u64at d (24 + 8 * k) = rd records k % 18446744073709551616) ∧ d.size = 622 := by
  simp only [fociFirstPayload]
  have hsz : (fociData b records 24 0 (sn * n)).size = 622 := by simpa using hb
  refine ⟨?_, ?_, ?_, ?_, ?_, ?_, ?_, ?_, ?_, ?_, ?_, by simpa using hb⟩
  · rw [u8at_put64_other _ _ _ _ (by omega), u8at_put16, if_neg (by omega), if_neg (by omega), u8at_put16, if_neg (by omega),
      if_neg (by omega), u8at_put16, if_neg (by omega), if_neg (by omega), u8at_put8, if_neg (by omega), u8at_put8,
      if_neg (by omega), u8at_put8, if_neg (by omega), u8at_put8, if_neg (by omega), u8at_put8, if_neg (by omega),
      u8at_put8, if_pos ⟨rfl, by simp; omega⟩]; rfl
  · rw [u8at_put64_other _ _ _ _ (by omega), u8at_put16, if_neg (by omega), if_neg (by omega), u8at_put16, if_neg (by omega),
      if_neg (by omega), u8at_put16, if_neg (by omega), if_neg (by omega), u8at_put8, if_neg (by omega), u8at_put8,
      if_neg (by omega), u8at_put8, if_neg (by omega), u8at_put8, if_neg (by omega), u8at_put8,
      if_pos ⟨rfl, by simp; omega⟩]; omega
  · rw [u8at_put64_other _ _ _ _ (by omega), u8at_put16, if_neg (by omega), if_neg (by omega), u8at_put16, if_neg (by omega),
      if_neg (by omega), u8at_put16, if_neg (by omega), if_neg (by omega), u8at_put8, if_neg (by omega), u8at_put8,
      if_neg (by omega), u8at_put8, if_neg (by omega), u8at_put8, if_pos ⟨rfl, by simp; omega⟩]
  · rw [u8at_put64_other _ _ _ _ (by omega), u8at_put16, if_neg (by omega), if_neg (by omega), u8at_put16, if_neg (by omega),
      if_neg (by omega), u8at_put16, if_neg (by omega), if_neg (by omega), u8at_put8, if_neg (by omega), u8at_put8,
      if_neg (by omega), u8at_put8, if_pos ⟨rfl, by simp; omega⟩]
  · rw [u8at_put64_other _ _ _ _ (by omega), u8at_put16, if_neg (by omega), if_neg (by omega), u8at_put16, if_neg (by omega),
      if_neg (by omega), u8at_put16, if_neg (by omega), if_neg (by omega), u8at_put8, if_neg (by omega), u8at_put8,
      if_pos ⟨rfl, by simp; omega⟩]
  · rw [u8at_put64_other _ _ _ _ (by omega), u8at_put16, if_neg (by omega), if_neg (by omega), u8at_put16, if_neg (by omega),
      if_neg (by omega), u8at_put16, if_neg (by omega), if_neg (by omega), u8at_put8, if_pos ⟨rfl, by simp; omega⟩]
  · rw [u16at_put64_other _ _ _ _ (by omega), u16at_put16_other _ _ _ _ (by omega), u16at_put16_other _ _ _ _ (by omega),
      u16at_put16_same _ _ _ (by simp; omega)]
  · rw [u16at_put64_other _ _ _ _ (by omega), u16at_put16_other _ _ _ _ (by omega), u16at_put16_same _ _ _ (by simp; omega)]
  · rw [u16at_put64_other _ _ _ _ (by omega), u16at_put16_same _ _ _ (by simp; omega)]
  · rw [u64at_put64_same _ _ _ (by simp; omega)]
  · intro k hk
    rw [u64at_put64_other _ _ _ _ (by omega), u64at_put16_other _ _ _ _ (by omega), u64at_put16_other _ _ _ _ (by omega),
      u64at_put16_other _ _ _ _ (by omega), u64at_put8_other _ _ _ _ (by omega), u64at_put8_other _ _ _ _ (by omega),
      u64at_put8_other _ _ _ _ (by omega), u64at_put8_other _ _ _ _ (by omega), u64at_put8_other _ _ _ _ (by omega),
      u64at_put8_other _ _ _ _ (by omega), u64at_putZeros_other _ _ _ _ (by omega),
      u64at_fociData _ _ _ _ _ _ hk (by omega), Nat.zero_add]

theorem fociNext_payload (b records : Array Nat) (n c sn flag seg : Nat) (hb : b.size = 622)
    (hfit : 4 + 8 * (sn * n) ≤ 622) (hf : flag < 256) :
    let d := fociNextPayload b records n c sn flag seg
    u8at d 0 = 66 ∧ u8at d 1 = flag ∧ u8at d 2 = sn % 256 ∧ u8at d 3 = seg % 256 ∧
      (∀ k, k < sn * n → u64at d (4 + 8 * k) = rd records (c * n + k) % 18446744073709551616) ∧ d.size = 622 := by
  simp only [fociNextPayload]
  have hsz : (fociData b records 4 (c * n) (sn * n)).size = 622 := by simpa using hb
  refine ⟨?_, ?_, ?_, ?_, ?_, by simpa using hb⟩
  · rw [u8at_put8, if_neg (by omega), u8at_put8, if_neg (by omega), u8at_put8, if_neg (by omega), u8at_put8,
      if_pos ⟨rfl, by omega⟩]; rfl
  · rw [u8at_put8, if_neg (by omega), u8at_put8, if_neg (by omega), u8at_put8, if_pos ⟨rfl, by simp; omega⟩]; omega
  · rw [u8at_put8, if_neg (by omega), u8at_put8, if_pos ⟨rfl, by simp; omega⟩]
  · rw [u8at_put8, if_pos ⟨rfl, by simp; omega⟩]
  · intro k hk
    rw [u64at_put8_other _ _ _ _ (by omega), u64at_put8_other _ _ _ _ (by omega), u64at_put8_other _ _ _ _ (by omega),
      u64at_put8_other _ _ _ _ (by omega), u64at_fociData _ _ _ _ _ _ hk (by omega)]

end Autd3.Rt
