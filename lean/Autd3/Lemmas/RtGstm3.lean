import Autd3.Lemmas.RtGstm2
/-!
GainSTM, part 3: the patterns of one frame (`gstmWriteList`) in closed form, and the three mode
branches of `write_gain_stm` as such lists.
-/
set_option linter.unusedSimpArgs false
open Autd3 Autd3.Fw Autd3.Wire Autd3.Gen.Cpu Autd3.Gen
namespace Autd3.Rt

def nthF (fs : List (Nat → Nat)) (j : Nat) : Nat → Nat := (fs[j]?).getD id
@[simp] theorem nthF_zero (f : Nat → Nat) (fs : List (Nat → Nat)) : nthF (f :: fs) 0 = f := rfl
@[simp] theorem nthF_succ (f : Nat → Nat) (fs : List (Nat → Nat)) (j : Nat) : nthF (f :: fs) (j + 1) = nthF fs j := by
  simp [nthF]

def gstmWriteList (seg srcOff : Nat) (d : Array Nat) : State → List (Nat → Nat) → M State
  | s, [] => .ok s
  | s, f :: fs => gainStmWritePattern s seg srcOff d f >>= fun s1 => gstmWriteList seg srcOff d s1 fs

/-- the patterns of one frame: rows `c … c+len-1` := the frame's words through the mode's functions -/
structure GstmRows (s s' : State) (seg c : Nat) (fs : List (Nat → Nat)) (d : Array Nat) (off : Nat) : Prop where
  cyc : sel s'.stmCycle seg = c + fs.length
  cycOther : sel s'.stmCycle (1 - seg) = sel s.stmCycle (1 - seg)
  rows : ∀ j, j < fs.length → ∀ i, i < s.numTr →
    rd (Obs.stmMem s' seg) (256 * (c + j) + i) = nthF fs j (u16at d (off + 2 * i)) % 65536
  rest : ∀ idx, (∀ j, j < fs.length → ¬(256 * (c + j) ≤ idx ∧ idx < 256 * (c + j) + s.numTr)) →
    rd (Obs.stmMem s' seg) idx = rd (Obs.stmMem s seg) idx
  other : ∀ g, (g = 0) ≠ (seg = 0) → Obs.stmMem s' g = Obs.stmMem s g
  regs : ∀ a, reg s' a = reg s a
  frame : GFrame s s'
  mode : s'.stmMode = s.stmMode
  wf : WF s'

theorem gstmWriteList_ok (seg srcOff : Nat) (d : Array Nat) (hseg : seg ≤ 1) (p : Nat) :
    ∀ (fs : List (Nat → Nat)) (s : State) (c : Nat), WF s → sel s.stmCycle seg = c → c + fs.length ≤ 1024 →
      reg s ADDR_STM_MEM_WR_SEGMENT = seg → reg s ADDR_STM_MEM_WR_PAGE = p → (∀ j, j < fs.length → (c + j) / 64 = p) →
      ∃ s', gstmWriteList seg srcOff d s fs = .ok s' ∧ GstmRows s s' seg c fs d srcOff := by
  intro fs
  induction fs with
  | nil =>
    intro s c hW hc _ _ _ _
    exact ⟨s, rfl, ⟨by simpa using hc, rfl, fun j hj => by simp at hj, fun _ _ => rfl, fun _ _ => rfl, fun _ => rfl,
      GFrame.refl s, rfl, hW⟩⟩
  | cons f fs ih =>
    intro s c hW hc hlen hsr hpg hpage
    have hl : (f :: fs).length = fs.length + 1 := rfl
    obtain ⟨s1, h1, R1⟩ := gainStmWritePattern_ok s hW seg srcOff c d f hseg hc (by omega) hsr
      (by rw [hpg]; exact (hpage 0 (by omega)).symm)
    obtain ⟨s2, h2, R2⟩ := ih s1 (c + 1) R1.wf R1.cyc (by omega) (by rw [R1.regs]; exact hsr) (by rw [R1.regs]; exact hpg)
      (fun j hj => by rw [show c + 1 + j = c + (j + 1) from by omega]; exact hpage (j + 1) (by omega))
    have hnt : s1.numTr = s.numTr := R1.frame.numTr
    have hn249 := hW.numTr
    refine ⟨s2, by show (gainStmWritePattern s seg srcOff d f >>= _) = _; rw [h1, ok_bind, h2], ?_⟩
    refine ⟨by rw [R2.cyc, hl]; omega, by rw [R2.cycOther, R1.cycOther], ?_, ?_, ?_, ?_, R1.frame.trans R2.frame,
      by rw [R2.mode, R1.mode], R2.wf⟩
    · intro j hj i hi
      cases j with
      | zero =>
        rw [nthF_zero, Nat.add_zero, R2.rest _ (fun j' hj' => by rw [hnt]; omega), R1.row i hi]
      | succ j' =>
        rw [nthF_succ, show c + (j' + 1) = c + 1 + j' from by omega]
        exact R2.rows j' (by omega) i (by rw [hnt]; exact hi)
    · intro idx hidx
      rw [R2.rest idx (fun j' hj' => by
        rw [hnt, show c + 1 + j' = c + (j' + 1) from by omega]; exact hidx (j' + 1) (by omega))]
      exact R1.rest idx (by have := hidx 0 (by omega); simpa using this)
    · intro g hg; rw [R2.other g hg, R1.other g hg]
    · intro a; rw [R2.regs, R1.regs]

/-! ### the mode branches -/

def fPhaseLo : Nat → Nat := fun w => 0xFF00 ||| (w &&& 0x00FF)
def fPhaseHi : Nat → Nat := fun w => 0xFF00 ||| ((w >>> 8) &&& 0x00FF)
def fNib (k : Nat) : Nat → Nat := fun w => let p := (w >>> (4 * k)) &&& 0x000F; 0xFF00 ||| (p <<< 4) ||| p

/-- the functions `write_gain_stm` applies to the frame's words, by mode and number of patterns sent -/
def gstmFns (mode send : Nat) : List (Nat → Nat) :=
  if mode = 0 then [id]
  else if mode = 1 then (if send > 1 then [fPhaseLo, fPhaseHi] else [fPhaseLo])
  else (if send > 3 then [fNib 0, fNib 1, fNib 2, fNib 3] else if send > 2 then [fNib 0, fNib 1, fNib 2]
    else if send > 1 then [fNib 0, fNib 1] else [fNib 0])

/-- the part of `gstmTail` after the patterns: page update and END -/
def gstmEndPart (s : State) (flag segment : Nat) : M (State × Nat) := do
  let mut s := s
  let c16 := (sel s.stmCycle segment) % 65536
  if c16 &&& GAIN_STM_BUF_PAGE_SIZE_MASK = 0 then
    s ← ctlWrite s ADDR_STM_MEM_WR_PAGE ((c16 &&& (65535 - GAIN_STM_BUF_PAGE_SIZE_MASK)) >>> GAIN_STM_BUF_PAGE_SIZE_WIDTH)
  if hasFlag flag GAIN_STM_FLAG_END then
    s := { s with stmMode := setSel s.stmMode segment STM_MODE_GAIN }
    s ← ctlWrite s (ADDR_STM_CYCLE0 + segment) ((max (sel s.stmCycle segment) 1 - 1) % 65536)
    if hasFlag flag GAIN_STM_FLAG_UPDATE then
      return ← stmSegmentUpdate s segment s.stmTrMode s.stmTrValue
  return (s, NO_ERR)

theorem gstmTail_eq (s : State) (d : Array Nat) (srcOff flag seg : Nat) (hm : s.gainStmMode ≤ 2) :
    gstmTail s d srcOff flag seg =
      gstmWriteList seg srcOff d s (gstmFns s.gainStmMode ((flag >>> 6) + 1)) >>= fun s1 => gstmEndPart s1 flag seg := by
  unfold gstmTail gstmEndPart gstmFns
  simp only [GAIN_STM_MODE_INTENSITY_PHASE_FULL, GAIN_STM_MODE_PHASE_FULL, GAIN_STM_MODE_PHASE_HALF]
  rcases (show s.gainStmMode = 0 ∨ s.gainStmMode = 1 ∨ s.gainStmMode = 2 by omega) with h | h | h
  · simp only [h, if_true, gstmWriteList, bind_assoc, pure_bind]
    rfl
  · simp only [h, if_true, show ¬ (1 : Nat) = 0 from by decide, if_false]
    by_cases h1 : (flag >>> 6) + 1 > 1
    · simp only [h1, if_true, gstmWriteList, bind_assoc, pure_bind]; rfl
    · simp only [h1, if_false, gstmWriteList, bind_assoc, pure_bind]; rfl
  · simp only [h, if_true, show ¬ (2 : Nat) = 0 from by decide, show ¬ (2 : Nat) = 1 from by decide, if_false]
    by_cases h3 : (flag >>> 6) + 1 > 3
    · have h2 : (flag >>> 6) + 1 > 2 := by omega
      have h1 : (flag >>> 6) + 1 > 1 := by omega
      simp only [h1, h2, h3, if_true, gstmWriteList, bind_assoc, pure_bind]; rfl
    · by_cases h2 : (flag >>> 6) + 1 > 2
      · have h1 : (flag >>> 6) + 1 > 1 := by omega
        simp only [h1, h2, h3, if_true, if_false, gstmWriteList, bind_assoc, pure_bind]; rfl
      · by_cases h1 : (flag >>> 6) + 1 > 1
        · simp only [h1, h2, h3, if_true, if_false, gstmWriteList, bind_assoc, pure_bind]; rfl
        · simp only [h1, h2, h3, if_false, gstmWriteList, bind_assoc, pure_bind]; rfl

end Autd3.Rt
