import Autd3.Lemmas.HistTrace2
/-!
History independence (C02), trace level, part 3: a legal datagram is always accepted (`legal_sends`), so a history
can be extended by any datagram that is legal on the device it reaches (`run_extend`); the concrete dirty history of
the non-vacuity example.
-/
open Autd3 Autd3.Fw Autd3.Wire Autd3.Gen.Cpu Autd3.Gen Autd3.Rt
namespace Autd3.Hist

/-- a legal datagram is accepted: the send loop delivers every frame and each is acknowledged -/
theorem legal_sends (s : State) (t : Tx) (hW : WF s) (hT : TxOK t) (hF : Fresh s t) (dg : Dg) (hL : Legal s dg) :
    ∃ t' s', Sends dg s t t' s' := by
  cases dg with
  | clear => obtain ⟨t0, s0, hS, _⟩ := clear_roundtrip s t hW hT hF; exact ⟨t0, s0, hS⟩
  | sync => obtain ⟨t0, s0, hS, _⟩ := sync_roundtrip s t hW hT hF; exact ⟨t0, s0, hS⟩
  | null => exact ⟨t, s, 1, rfl⟩
  | forceFan v => obtain ⟨t0, s0, hS, _⟩ := forceFan_roundtrip' s t v hW hT hF; exact ⟨t0, s0, hS⟩
  | readsFpgaState v => obtain ⟨t0, s0, hS, _⟩ := readsFpgaState_roundtrip' s t hW hT hF v; exact ⟨t0, s0, hS⟩
  | cpuGpioOut v => obtain ⟨t0, s0, hS, _⟩ := cpuGpioOut_roundtrip' s t hW hT hF v hL; exact ⟨t0, s0, hS⟩
  | gpioIn f => obtain ⟨t0, s0, hS, _⟩ := gpioIn_roundtrip' s t hW hT hF f hL; exact ⟨t0, s0, hS⟩
  | debug vals => obtain ⟨t0, s0, hS, _⟩ := debug_roundtrip' s t hW hT hF vals hL; exact ⟨t0, s0, hS⟩
  | phaseCorr bytes => obtain ⟨t0, s0, hS, _⟩ := phaseCorr_roundtrip' s t hW hT hF bytes hL.1 hL.2; exact ⟨t0, s0, hS⟩
  | pwe table => obtain ⟨t0, s0, hS, _⟩ := pwe_roundtrip' s t hW hT hF table hL.1 hL.2; exact ⟨t0, s0, hS⟩
  | silencerSteps i p strict =>
    obtain ⟨t0, s0, hS, _⟩ := silencerSteps_roundtrip' s t hW hT hF i p strict hL.1 hL.2.1 hL.2.2; exact ⟨t0, s0, hS⟩
  | silencerRate i p => obtain ⟨t0, s0, hS, _⟩ := silencerRate_roundtrip' s t hW hT hF i p hL.1 hL.2; exact ⟨t0, s0, hS⟩
  | gain seg tr drives => exact (gain_sends s t hW hT hF seg hL.1 tr hL.2.1 drives hL.2.2).1
  | modulation seg tr rep div samples => exact (mod_sends s t hW hT hF seg tr rep div samples hL.1 hL.2.1 hL.2.2).1
  | fociStm n seg tr rep div ss records => exact (foci_sends s t hW hT hF n seg tr rep div ss records _ hL.1 hL.2.1 hL.2.2).1
  | gainStm mode seg tr rep div patterns => exact (gstm_sends s t hW hT hF mode seg tr rep div patterns hL.1 hL.2.1 hL.2.2).1
  | swapGain seg mode value =>
    obtain ⟨rfl, hseg, g0, g2⟩ := hL
    obtain ⟨t0, s0, hS, _⟩ := swapGain_roundtrip' s t hW hT hF seg value hseg g0 g2; exact ⟨t0, s0, hS⟩
  | swapMod seg mode value =>
    obtain ⟨hseg, hv, hval, g1, g2, hm⟩ := hL
    obtain ⟨t0, s0, hS, _⟩ := swapMod_roundtrip' s t hW hT hF seg mode value hseg hv hval g1 g2 hm; exact ⟨t0, s0, hS⟩
  | swapFoci seg mode value =>
    obtain ⟨hseg, hv, hval, g0, g1, g2, hm⟩ := hL
    obtain ⟨t0, s0, hS, _⟩ := swapFoci_roundtrip' s t hW hT hF seg mode value hseg hv hval g0 g1 g2 hm; exact ⟨t0, s0, hS⟩
  | swapGainStm seg mode value =>
    obtain ⟨hseg, hv, hval, g0, g1, g2, hm⟩ := hL
    obtain ⟨t0, s0, hS, _⟩ := swapGainStm_roundtrip' s t hW hT hF seg mode value hseg hv hval g0 g1 g2 hm; exact ⟨t0, s0, hS⟩
  | firmInfo ty => exact hL.elim

/-- a history from power-on can be extended by any datagram that is legal on every well-formed device with that
transducer count -/
theorem run_extend (numTr now : Nat) (hn : numTr ≤ 249) (p0 : State) (hp0 : Fw.new numTr now = .ok p0) (t0 : Tx)
    (ht0 : TxOK t0) {h : List Dg} {s : State} {t : Tx} (hr : Run p0 t0 h s t) (dg : Dg)
    (hL : ∀ x, WF x → x.numTr = numTr → Legal x dg) : ∃ s' t', Run p0 t0 (h ++ [dg]) s' t' := by
  obtain ⟨hW0, hn0, hpc0, hF0⟩ := new_facts numTr now hn p0 hp0
  have hpc0' : Obs.phaseCorrection p0 = pcArr p0.numTr none := by rw [hpc0, hn0]; rfl
  obtain ⟨a, b, c, n, _, _⟩ := run_inv hr none hW0 ht0 (hF0 t0) hpc0' trivial
  have l := hL s a (n.trans hn0)
  obtain ⟨t', s', hS⟩ := legal_sends s t a b c dg l
  exact ⟨s', t', hr.snoc l hS⟩

/-- the dirty history of the non-vacuity example: a phase correction, a Gain to segment 1 with an Immediate
transition, fan on, a fixed-update-rate silencer, Clear, emulated GPIO inputs, a second phase correction, a Gain to
segment 0 without transition -/
def dirtyHist : List Dg :=
  [.phaseCorr (Array.replicate 249 7), .gain 1 (some (Drv.TRANSITION_MODE_IMMEDIATE, 0)) (Array.replicate 249 0x80FF),
   .forceFan true, .silencerRate 3 5, .clear, .gpioIn 5, .phaseCorr (Array.replicate 249 9),
   .gain 0 none (Array.replicate 249 0x1234)]

theorem rd_replicate_lt (n v b i : Nat) (hv : v < b) : rd (Array.replicate n v) i < b := by
  unfold rd
  by_cases h : i < n <;> simp [h] <;> omega

/-- the dirty history runs from the 249-transducer power-on device (any clock, any fresh transmit buffer) -/
theorem dirtyHist_runs (now : Nat) (p0 : State) (hp0 : Fw.new 249 now = .ok p0) (t0 : Tx) (ht0 : TxOK t0) :
    ∃ s t, Run p0 t0 dirtyHist s t := by
  have E := fun {h : List Dg} {s : State} {t : Tx} (hr : Run p0 t0 h s t) (dg : Dg)
    (hL : ∀ x, WF x → x.numTr = 249 → Legal x dg) => run_extend 249 now (by decide) p0 hp0 t0 ht0 hr dg hL
  obtain ⟨s1, t1, r1⟩ := E (Run.nil p0 t0) (.phaseCorr (Array.replicate 249 7))
    (fun x _ hx => ⟨by rw [hx]; simp, fun i => rd_replicate_lt _ _ _ _ (by decide)⟩)
  obtain ⟨s2, t2, r2⟩ := E r1 (.gain 1 (some (Drv.TRANSITION_MODE_IMMEDIATE, 0)) (Array.replicate 249 0x80FF))
    (fun x _ _ => ⟨by decide, Or.inr ⟨0, rfl⟩, fun i => rd_replicate_lt _ _ _ _ (by decide)⟩)
  obtain ⟨s3, t3, r3⟩ := E r2 (.forceFan true) (fun _ _ _ => trivial)
  obtain ⟨s4, t4, r4⟩ := E r3 (.silencerRate 3 5) (fun _ _ _ => ⟨by decide, by decide⟩)
  obtain ⟨s5, t5, r5⟩ := E r4 .clear (fun _ _ _ => trivial)
  obtain ⟨s6, t6, r6⟩ := E r5 (.gpioIn 5) (fun _ _ _ => (by decide : 5 < 256))
  obtain ⟨s7, t7, r7⟩ := E r6 (.phaseCorr (Array.replicate 249 9))
    (fun x _ hx => ⟨by rw [hx]; simp, fun i => rd_replicate_lt _ _ _ _ (by decide)⟩)
  obtain ⟨s8, t8, r8⟩ := E r7 (.gain 0 none (Array.replicate 249 0x1234))
    (fun x _ _ => ⟨by decide, Or.inl rfl, fun i => rd_replicate_lt _ _ _ _ (by decide)⟩)
  exact ⟨s8, t8, r8⟩

theorem lastPc_dirtyHist : lastPc none dirtyHist = some (Array.replicate 249 9) := rfl

end Autd3.Hist
