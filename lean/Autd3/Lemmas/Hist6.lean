import Autd3.Lemmas.Hist5
/-!
History independence / frame conditions (C02), part 6: the per-resource observations and the combination of the
C01 round trips (what the addressed resource holds), the determinism of the send loop and the side relations (what
everything else holds) into the statements used by `Props/C02.lean`.
-/
open Autd3 Autd3.Fw Autd3.Wire Autd3.Gen.Cpu Autd3.Gen Autd3.Rt
namespace Autd3.Hist

/-! ### per-resource observations (all through `Obs.lean`) -/

/-- the modulation resource of one segment as a user reads it back: buffer, division, loop count, size -/
def modObs (s : State) (seg : Nat) : M (Array Nat) × Nat × Nat × Nat :=
  (Obs.modBuffer s seg, Obs.modDiv s seg, Obs.modRep s seg, Obs.modCycle s seg)

/-- the header of the STM / gain resource of one segment: gain-or-focus mode, number of patterns, division, loop count -/
def stmHdr (s : State) (seg : Nat) : Bool × Nat × Nat × Nat :=
  (Obs.isStmGainMode s seg, Obs.stmCycle s seg, Obs.stmDiv s seg, Obs.stmRep s seg)

/-- the two devices have the same transducer count and the same stored phase correction (a different resource,
which `drives_at` adds to every phase it returns) -/
def PhaseSame (s1 s2 : State) : Prop := s1.numTr = s2.numTr ∧ Obs.phaseCorrection s1 = Obs.phaseCorrection s2

theorem map_range_congr {β : Type} (n : Nat) (f g : Nat → β) (h : ∀ i, i < n → f i = g i) :
    (Array.range n).map f = (Array.range n).map g := by
  apply Array.ext
  · simp
  · intro i h1 h2
    simp at h1
    simp [h i h1]

theorem phaseCorrAt_of_same {s1 s2 : State} (h : PhaseSame s1 s2) (i : Nat) (hi : i < s1.numTr) :
    Obs.phaseCorrAt s1 i = Obs.phaseCorrAt s2 i := by
  obtain ⟨hn, hp⟩ := h
  unfold Obs.phaseCorrection at hp
  rw [← hn] at hp
  have := congrArg (fun a => a[i]?) hp
  simpa [hi] using this

theorem modBuffer_congr (s s' : State) (g : Nat) (hm : Obs.modMem s' g = Obs.modMem s g)
    (hc : Obs.modCycle s' g = Obs.modCycle s g) : Obs.modBuffer s' g = Obs.modBuffer s g := by
  unfold Obs.modBuffer
  rw [hc]
  have : Obs.modAt s' g = Obs.modAt s g := by funext idx; unfold Obs.modAt; simp only [hm]
  rw [this]

theorem gainDrives_congr (a b : State) (seg idx : Nat) (hn : a.numTr = b.numTr)
    (hsz : (Obs.stmMem a seg).size = (Obs.stmMem b seg).size)
    (hrow : ∀ i, i < a.numTr → rd (Obs.stmMem a seg) (256 * idx + i) = rd (Obs.stmMem b seg) (256 * idx + i))
    (hpc : ∀ i, i < a.numTr → Obs.phaseCorrAt a i = Obs.phaseCorrAt b i) :
    Obs.gainDrives a seg idx = Obs.gainDrives b seg idx := by
  unfold Obs.gainDrives
  simp only []
  rw [← hn]
  apply map_range_congr
  intro i hi
  rw [hsz, hrow i hi, hpc i hi]

/-- `drives_at` of a segment whose memory, mode flag, and (if it is a focus segment) sound speed / foci count are
unchanged -/
theorem drivesAt_seg_congr (s s' : State) (g : Nat) (hm : Obs.stmMem s' g = Obs.stmMem s g)
    (hg : Obs.isStmGainMode s' g = Obs.isStmGainMode s g) (hpc : s'.phaseCorr = s.phaseCorr) (hn : s'.numTr = s.numTr)
    (hf : Obs.isStmGainMode s g = false → Obs.soundSpeed s' g = Obs.soundSpeed s g ∧ Obs.numFoci s' g = Obs.numFoci s g)
    (idx : Nat) : Obs.drivesAt s' g idx = Obs.drivesAt s g idx := by
  have pc : ∀ i, Obs.phaseCorrAt s' i = Obs.phaseCorrAt s i := by intro i; unfold Obs.phaseCorrAt; rw [hpc]
  unfold Obs.drivesAt
  rw [hg]
  cases hgm : Obs.isStmGainMode s g
  · obtain ⟨e2, e3⟩ := hf hgm
    have fd : Obs.fociDrive s' g idx = Obs.fociDrive s g idx := by
      funext tr
      unfold Obs.fociDrive
      simp only [hm, e2, e3, pc]
    simp only [Bool.false_eq_true, if_false]
    unfold Obs.fociDrives
    rw [hn, fd]
  · simp only [if_true]
    unfold Obs.gainDrives
    simp only [hm, hn, pc]

/-! ### what a complete send leaves, for EVERY run (round trip + determinism) -/

theorem mod_sends (s : State) (t : Tx) (hWF : WF s) (ht : TxOK t) (hf : Fresh s t)
    (seg : Nat) (tr : Tr) (rep div : Nat) (samples : Array Nat) (H : ModOK s seg tr rep div samples)
    (g1 : validateTransitionMode s.modSegment seg rep (trMode tr) = false)
    (g2 : validateSilencerSettings s (sel s.stmDiv s.stmSegment) div = false) :
    (∃ t' s', Sends (.modulation seg tr rep div samples) s t t' s') ∧
    ∀ t' s', Sends (.modulation seg tr rep div samples) s t t' s' →
      WF s' ∧ TxOK t' ∧ Fresh s' t' ∧ ModHeld s s' seg tr rep div samples ∧ ModSide s s' ∧ (Settled s → Settled s') := by
  obtain ⟨t0, s0, hS, a, b, c, d⟩ := mod_roundtrip' s t hWF ht hf seg tr rep div samples H g1 g2
  refine ⟨⟨t0, s0, hS⟩, ?_⟩
  intro t' s' hS'
  obtain ⟨rfl, rfl⟩ := Sends_unique _ _ _ _ _ _ _ hS hS'
  obtain ⟨e, f⟩ := sends_mod_side s t _ _ seg tr rep div samples (Pre_of_WF hWF) ht hS
  exact ⟨a, b, c, d, e, f⟩

theorem gain_sends (s : State) (t : Tx) (hWF : WF s) (ht : TxOK t) (hf : Fresh s t)
    (seg : Nat) (hseg : seg ≤ 1) (tr : Tr) (htr : tr = none ∨ ∃ v, tr = some (Drv.TRANSITION_MODE_IMMEDIATE, v))
    (drives : Array Nat) (hdr : ∀ i, rd drives i < 65536) :
    (∃ t' s', Sends (.gain seg tr drives) s t t' s') ∧
    ∀ t' s', Sends (.gain seg tr drives) s t t' s' →
      WF s' ∧ TxOK t' ∧ Fresh s' t' ∧ GainHeld s s' seg drives ∧ StmSide s s' ∧ (Settled s → Settled s') ∧
      (tr = none → s'.stmSwap = s.stmSwap ∧ Obs.reqStmSeg s' = Obs.reqStmSeg s ∧
        Obs.stmTransition s' = Obs.stmTransition s) ∧
      (tr.isSome = true → Obs.reqStmSeg s' = .ok seg ∧ Obs.stmTransition s' = .ok .syncIdx ∧
        SwapSet s.stmSwap s'.stmSwap s.dcSysTime 0xFFFF 0xFFFF 1 seg .syncIdx) := by
  rcases htr with h | ⟨v, h⟩
  · subst h
    obtain ⟨t0, s0, hS, a, b, c, d, a1, a2, a3, _⟩ := gain_roundtrip_noupd s t hWF ht hf seg hseg drives hdr
    refine ⟨⟨t0, s0, hS⟩, ?_⟩
    intro t' s' hS'
    obtain ⟨rfl, rfl⟩ := Sends_unique _ _ _ _ _ _ _ hS hS'
    obtain ⟨e, f⟩ := sends_gain_side s t _ _ seg none drives (Pre_of_WF hWF) ht hS
    exact ⟨a, b, c, d, e, f, fun _ => ⟨a1, a2, a3⟩, fun h => by simp at h⟩
  · subst h
    obtain ⟨t0, s0, hS, a, b, c, d, a1, a2, _, _, a5, _⟩ := gain_roundtrip_upd s t hWF ht hf seg v hseg drives hdr
    refine ⟨⟨t0, s0, hS⟩, ?_⟩
    intro t' s' hS'
    obtain ⟨rfl, rfl⟩ := Sends_unique _ _ _ _ _ _ _ hS hS'
    obtain ⟨e, f⟩ := sends_gain_side s t _ _ seg _ drives (Pre_of_WF hWF) ht hS
    exact ⟨a, b, c, d, e, f, fun h => by simp at h, fun _ => ⟨a1, a2, a5⟩⟩

theorem foci_sends (s : State) (t : Tx) (hWF : WF s) (ht : TxOK t) (hf : Fresh s t)
    (n seg : Nat) (tr : Tr) (rep div ss : Nat) (records : Array Nat) (P : Nat)
    (H : FociOK s n seg tr rep div ss records P)
    (g1 : validateTransitionMode s.stmSegment seg rep (trMode tr) = false)
    (g2 : validateSilencerSettings s div (sel s.modDiv s.modSegment) = false) :
    (∃ t' s', Sends (.fociStm n seg tr rep div ss records) s t t' s') ∧
    ∀ t' s', Sends (.fociStm n seg tr rep div ss records) s t t' s' →
      WF s' ∧ TxOK t' ∧ Fresh s' t' ∧ FociHeld s s' seg tr rep div ss n records P ∧ StmSide s s' ∧
      (Settled s → Settled s') := by
  obtain ⟨t0, s0, hS, a, b, c, d⟩ := fociStm_roundtrip' s t hWF ht hf n seg tr rep div ss records P H g1 g2
  refine ⟨⟨t0, s0, hS⟩, ?_⟩
  intro t' s' hS'
  obtain ⟨rfl, rfl⟩ := Sends_unique _ _ _ _ _ _ _ hS hS'
  obtain ⟨e, f⟩ := sends_foci_side s t _ _ n seg tr rep div ss records (Pre_of_WF hWF) ht hS
  exact ⟨a, b, c, d, e, f⟩

theorem gstm_sends (s : State) (t : Tx) (hWF : WF s) (ht : TxOK t) (hf : Fresh s t)
    (mode seg : Nat) (tr : Tr) (rep div : Nat) (patterns : Array (Array Nat)) (H : GOK s mode seg tr rep div patterns)
    (g1 : validateTransitionMode s.stmSegment seg rep (trMode tr) = false)
    (g2 : validateSilencerSettings s div (sel s.modDiv s.modSegment) = false) :
    (∃ t' s', Sends (.gainStm mode seg tr rep div patterns) s t t' s') ∧
    ∀ t' s', Sends (.gainStm mode seg tr rep div patterns) s t t' s' →
      WF s' ∧ TxOK t' ∧ Fresh s' t' ∧ GHeld s s' seg tr rep div mode patterns ∧ StmSide s s' ∧
      (Settled s → Settled s') := by
  obtain ⟨t0, s0, hS, a, b, c, d⟩ := gainStm_roundtrip' s t hWF ht hf mode seg tr rep div patterns H g1 g2
  refine ⟨⟨t0, s0, hS⟩, ?_⟩
  intro t' s' hS'
  obtain ⟨rfl, rfl⟩ := Sends_unique _ _ _ _ _ _ _ hS hS'
  obtain ⟨e, f⟩ := sends_gstm_side s t _ _ mode seg tr rep div patterns (Pre_of_WF hWF) ht hS
  exact ⟨a, b, c, d, e, f⟩

/-! ### read-back of the addressed resource as a function of the datagram -/

theorem modObs_of_held {s0 s' : State} {seg : Nat} {tr : Tr} {rep div : Nat} {samples : Array Nat}
    (h : ModHeld s0 s' seg tr rep div samples) : modObs s' seg = (.ok samples, div, rep, samples.size) := by
  unfold modObs; rw [h.buffer, h.hdiv, h.hrep, h.hcycle]

theorem gainObs_of_held {s s' : State} {seg : Nat} {drives : Array Nat} (h : GainHeld s s' seg drives) :
    Obs.drivesAt s' seg 0 = .ok ((Array.range s.numTr).map fun i => driveWithCorr (rd drives i) (Obs.phaseCorrAt s i)) ∧
    stmHdr s' seg = (true, 1, 0xFFFF, 0xFFFF) := by
  refine ⟨?_, by unfold stmHdr; rw [h.gainMode, h.cycle, h.div, h.rep]⟩
  unfold Obs.drivesAt
  rw [h.gainMode, if_pos rfl, h.drives]

end Autd3.Hist
