import Autd3.Lemmas.Hist9d
/-!
C17, history level, part 1: both swap chains stay on a real segment (`cur ≤ 1`, `req ≤ 1`).

`SegLe w` is kept by every output of `Swapchain::set` whose requested segment is a real one (the FPGA reads it
through `req_*_segment()`, which is `unreachable!()` for anything else) and by `Swapchain::update`.  `SQ s s'` =
each of the two swap chains of `s'` satisfies `SegLe` if that of `s` did.  EVERY handler, for EVERY payload and from
EVERY state, is walked through exactly as for `Hist.PQ` (`Hist9d.lean`): the only writer of a swap chain is
`FPGAEmulator::set_and_wait_update`.
-/
set_option linter.unusedSimpArgs false
set_option linter.unusedVariables false
open Autd3 Autd3.Fw Autd3.Wire Autd3.Gen.Cpu Autd3.Gen Autd3.Rt Autd3.Hist
namespace Autd3.SB

/-- the swap chain is on a real segment and its pending request goes to a real segment -/
def SegLe (w : Swap) : Prop := w.cur ≤ 1 ∧ w.req ≤ 1

theorem set_segLe (w w' : Swap) (t rep fd cyc seg : Nat) (mode : TMode) (hseg : seg ≤ 1) (hw : SegLe w)
    (h : w.set t rep fd cyc seg mode = .ok w') : SegLe w' := by
  unfold Swap.set at h
  by_cases hc : w.cur = seg
  · simp only [hc, if_true] at h
    obtain ⟨x, hx, h⟩ := bind_eq_ok h
    obtain ⟨lap, i⟩ := x
    cases h
    exact ⟨hc ▸ hw.1, hw.2⟩
  · by_cases hr : rep = 0xFFFF
    · simp only [hc, hr, if_true, if_false] at h
      obtain ⟨x, hx, h⟩ := bind_eq_ok h
      obtain ⟨lap, i⟩ := x
      cases h
      exact ⟨hseg, hw.2⟩
    · simp only [hc, hr, if_false] at h
      obtain ⟨x, hx, h⟩ := bind_eq_ok h
      cases hx; cases h
      exact ⟨hw.1, hseg⟩

theorem segReg_le (s : State) (a : Nat) (site : String) (v : Nat) (h : segReg s a site = .ok v) : v ≤ 1 := by
  unfold segReg at h
  simp only [] at h
  split at h
  · cases h; assumption
  · cases h

/-- both swap chains keep the property `SegLe` -/
def SQ (s0 s : State) : Prop :=
  (SegLe s0.stmSwap → SegLe s.stmSwap) ∧ (SegLe s0.modSwap → SegLe s.modSwap)

theorem SQ.refl (s : State) : SQ s s := ⟨id, id⟩
theorem SQ.trans {a b c : State} (h1 : SQ a b) (h2 : SQ b c) : SQ a c := ⟨fun h => h2.1 (h1.1 h), fun h => h2.2 (h1.2 h)⟩
theorem SQ.of_eq {s0 s1 s : State} (h : SQ s0 s1) (e1 : s.stmSwap = s1.stmSwap) (e2 : s.modSwap = s1.modSwap) : SQ s0 s :=
  ⟨fun x => by rw [e1]; exact h.1 x, fun x => by rw [e2]; exact h.2 x⟩

/-- `FPGAEmulator::set_and_wait_update`: each swap chain is left alone or replaced by an output of `set` with a real
requested segment -/
theorem fpgaSaw_sq (s s' : State) (t : Nat) (h : fpgaSetAndWaitUpdate s t = .ok s') : SQ s s' := by
  unfold fpgaSetAndWaitUpdate at h
  simp only [] at h
  split at h
  · obtain ⟨a, ha, h⟩ := bind_eq_ok h
    obtain ⟨b, _, h⟩ := bind_eq_ok h
    obtain ⟨c, hc, h⟩ := bind_eq_ok h
    have pc := fun hw => set_segLe _ _ _ _ _ _ _ _ (segReg_le _ _ _ _ ha) hw hc
    simp only [pure_bind] at h
    split at h
    · obtain ⟨a', ha', h⟩ := bind_eq_ok h
      obtain ⟨b', _, h⟩ := bind_eq_ok h
      obtain ⟨c', hc', h⟩ := bind_eq_ok h
      have pc' := fun hw => set_segLe _ _ _ _ _ _ _ _ (segReg_le _ _ _ _ ha') hw hc'
      cases h; exact ⟨pc', pc⟩
    · cases h; exact ⟨id, pc⟩
  · simp only [pure_bind] at h
    split at h
    · obtain ⟨a', ha', h⟩ := bind_eq_ok h
      obtain ⟨b', _, h⟩ := bind_eq_ok h
      obtain ⟨c', hc', h⟩ := bind_eq_ok h
      have pc' := fun hw => set_segLe _ _ _ _ _ _ _ _ (segReg_le _ _ _ _ ha') hw hc'
      cases h; exact ⟨pc', id⟩
    · cases h; exact ⟨id, id⟩

theorem saw_sq (s s' : State) (flag : Nat) (h : setAndWaitUpdate s flag = .ok s') : SQ s s' := by
  unfold setAndWaitUpdate at h
  obtain ⟨s1, h1, h⟩ := bind_eq_ok h
  obtain ⟨s2, h2, h3⟩ := bind_eq_ok h
  have e1 := ctlWrite_sw _ _ _ _ h1
  have e3 := ctlWrite_sw _ _ _ _ h3
  have p := fpgaSaw_sq _ _ _ h2
  exact ((SQ.refl s).of_eq e1.1 e1.2 |>.trans p).of_eq e3.1 e3.2

/-! ### stepping rules -/

theorem LS.eq {s0 s1 : State} {m : M State} {f : State → M (State × Nat)} (h1 : SQ s0 s1)
    (hm : ∀ x, m = .ok x → SwEq s1 x) (h : ∀ s2, SQ s0 s2 → Leaves SQ s0 (f s2)) : Leaves SQ s0 (m >>= f) :=
  Leaves.bind (fun x => SQ s0 x) (fun x hx => h1.of_eq (hm x hx).1 (hm x hx).2) h

theorem LS.cw {s0 s1 : State} {a v : Nat} {f : State → M (State × Nat)} (h1 : SQ s0 s1)
    (h : ∀ s2, SQ s0 s2 → Leaves SQ s0 (f s2)) : Leaves SQ s0 (ctlWrite s1 a v >>= f) :=
  LS.eq h1 (fun x hx => ctlWrite_sw _ _ _ _ hx) h
theorem LS.cww {s0 s1 : State} {a : Nat} {ws : Array Nat} {f : State → M (State × Nat)} (h1 : SQ s0 s1)
    (h : ∀ s2, SQ s0 s2 → Leaves SQ s0 (f s2)) : Leaves SQ s0 (ctlWriteWords s1 a ws >>= f) :=
  LS.eq h1 (fun x hx => ctlWriteWords_sw _ _ _ _ hx) h
theorem LS.sw {s0 s1 : State} {a : Nat} {ws : Array Nat} {f : State → M (State × Nat)} (h1 : SQ s0 s1)
    (h : ∀ s2, SQ s0 s2 → Leaves SQ s0 (f s2)) : Leaves SQ s0 (stmWriteWords s1 a ws >>= f) :=
  LS.eq h1 (fun x hx => stmWriteWords_sw _ _ _ _ hx) h
theorem LS.mw {s0 s1 : State} {a : Nat} {ws : Array Nat} {f : State → M (State × Nat)} (h1 : SQ s0 s1)
    (h : ∀ s2, SQ s0 s2 → Leaves SQ s0 (f s2)) : Leaves SQ s0 (modWriteWords s1 a ws >>= f) :=
  LS.eq h1 (fun x hx => modWriteWords_sw _ _ _ _ hx) h
theorem LS.pw {s0 s1 : State} {a : Nat} {ws : Array Nat} {f : State → M (State × Nat)} (h1 : SQ s0 s1)
    (h : ∀ s2, SQ s0 s2 → Leaves SQ s0 (f s2)) : Leaves SQ s0 (pweWriteWords s1 a ws >>= f) :=
  LS.eq h1 (fun x hx => pweWriteWords_sw _ _ _ _ hx) h
theorem LS.saw {s0 s1 : State} {flag : Nat} {f : State → M (State × Nat)} (h1 : SQ s0 s1)
    (h : ∀ s2, SQ s0 s2 → Leaves SQ s0 (f s2)) : Leaves SQ s0 (setAndWaitUpdate s1 flag >>= f) :=
  Leaves.bind (fun x => SQ s0 x) (fun x hx => h1.trans (saw_sq _ _ _ hx)) h

/-- the `SQ` side goal of a step -/
macro "sq_tac" : tactic =>
  `(tactic| first
    | assumption
    | exact SQ.refl _
    | (apply SQ.of_eq <;> first | assumption | rfl)
    | exact SQ.of_eq (SQ.refl _) rfl rfl)

macro "walkS" : tactic =>
  `(tactic| repeat' (first
    | exact Leaves.error _
    | exact Leaves.error_bind _ _
    | exact Leaves.pure (by sq_tac)
    | exact Leaves.ok (by sq_tac)
    | (refine LS.cw (by sq_tac) ?_; intro _ _)
    | (refine LS.cww (by sq_tac) ?_; intro _ _)
    | (refine LS.sw (by sq_tac) ?_; intro _ _)
    | (refine LS.mw (by sq_tac) ?_; intro _ _)
    | (refine LS.pw (by sq_tac) ?_; intro _ _)
    | (refine LS.saw (by sq_tac) ?_; intro _ _)
    | (apply Leaves.ite <;> intro _)))

theorem stmSegmentUpdate_sq {s0 s1 : State} (h1 : SQ s0 s1) (seg mode value : Nat) :
    Leaves SQ s0 (stmSegmentUpdate s1 seg mode value) := by
  unfold stmSegmentUpdate
  walkS
theorem modSegmentUpdate_sq {s0 s1 : State} (h1 : SQ s0 s1) (seg mode value : Nat) :
    Leaves SQ s0 (modSegmentUpdate s1 seg mode value) := by
  unfold modSegmentUpdate
  walkS

theorem synchronize_sq (s : State) (d : Array Nat) : Leaves SQ s (synchronize s d) := by
  unfold synchronize; simp only []; walkS
theorem configDebug_sq (s : State) (d : Array Nat) : Leaves SQ s (configDebug s d) := by
  unfold configDebug; walkS
theorem configSilencer_sq (s : State) (d : Array Nat) : Leaves SQ s (configSilencer s d) := by
  unfold configSilencer; simp only []; walkS
theorem configureForceFan_sq (s : State) (d : Array Nat) : Leaves SQ s (configureForceFan s d) := by
  unfold configureForceFan; simp only []; walkS
theorem configureReadsFpgaState_sq (s : State) (d : Array Nat) : Leaves SQ s (configureReadsFpgaState s d) :=
  Leaves.ok ⟨id, id⟩
theorem emulateGpioIn_sq (s : State) (d : Array Nat) : Leaves SQ s (emulateGpioIn s d) := Leaves.ok ⟨id, id⟩
theorem cpuGpioOut_sq (s : State) (d : Array Nat) : Leaves SQ s (cpuGpioOut s d) := Leaves.ok ⟨id, id⟩
theorem configPwe_sq (s : State) (d : Array Nat) : Leaves SQ s (configPwe s d) := by
  unfold configPwe; walkS
theorem phaseCorrOp_sq (s : State) (d : Array Nat) : Leaves SQ s (phaseCorrOp s d) := by
  unfold phaseCorrOp; walkS
theorem firmInfo_sq (s : State) (d : Array Nat) : Leaves SQ s (firmInfo s d) := by
  unfold firmInfo; simp only []; walkS
theorem writeGain_sq (s : State) (d : Array Nat) : Leaves SQ s (writeGain s d) := by
  unfold writeGain; simp only []; walkS
theorem changeGainSegment_sq (s : State) (d : Array Nat) : Leaves SQ s (changeGainSegment s d) := by
  unfold changeGainSegment; simp only []; walkS

theorem LS.gp {s0 s1 : State} {seg off : Nat} {d : Array Nat} {f : Nat → Nat} {g : State → M (State × Nat)}
    (h1 : SQ s0 s1) (h : ∀ s2, SQ s0 s2 → Leaves SQ s0 (g s2)) :
    Leaves SQ s0 (gainStmWritePattern s1 seg off d f >>= g) := by
  apply Leaves.bind (fun x => SQ s0 x) _ h
  intro x hx
  unfold gainStmWritePattern at hx
  obtain ⟨y, hy, hx⟩ := bind_eq_ok hx
  have e := stmWriteWords_sw _ _ _ _ hy
  cases hx
  exact h1.of_eq e.1 e.2

macro "walkS2" : tactic =>
  `(tactic| repeat' (first
    | exact Leaves.error _
    | exact Leaves.error_bind _ _
    | exact Leaves.pure (by sq_tac)
    | exact Leaves.ok (by sq_tac)
    | exact stmSegmentUpdate_sq (by sq_tac) _ _ _
    | exact modSegmentUpdate_sq (by sq_tac) _ _ _
    | (refine LS.cw (by sq_tac) ?_; intro _ _)
    | (refine LS.cww (by sq_tac) ?_; intro _ _)
    | (refine LS.sw (by sq_tac) ?_; intro _ _)
    | (refine LS.mw (by sq_tac) ?_; intro _ _)
    | (refine LS.pw (by sq_tac) ?_; intro _ _)
    | (refine LS.gp (by sq_tac) ?_; intro _ _)
    | (refine LS.saw (by sq_tac) ?_; intro _ _)
    | (apply Leaves.ite <;> intro _)))

theorem changeModSegment_sq (s : State) (d : Array Nat) : Leaves SQ s (changeModSegment s d) := by
  unfold changeModSegment; simp only []; walkS2
theorem changeFociStmSegment_sq (s : State) (d : Array Nat) : Leaves SQ s (changeFociStmSegment s d) := by
  unfold changeFociStmSegment; simp only []; walkS2
theorem changeGainStmSegment_sq (s : State) (d : Array Nat) : Leaves SQ s (changeGainStmSegment s d) := by
  unfold changeGainStmSegment; simp only []; walkS2

macro "walkS3" : tactic =>
  `(tactic| repeat' (first
    | (refine LS.cw (by assumption) ?_; intro _ _)
    | (refine LS.cww (by assumption) ?_; intro _ _)
    | (refine LS.sw (by assumption) ?_; intro _ _)
    | (refine LS.mw (by assumption) ?_; intro _ _)
    | (refine LS.pw (by assumption) ?_; intro _ _)
    | (refine LS.saw (by assumption) ?_; intro _ _)
    | exact Leaves.pure (by assumption)))

set_option maxRecDepth 8192 in
set_option maxHeartbeats 1000000 in
theorem clear_sq (s : State) (d : Array Nat) : Leaves SQ s (clear s d) := by
  unfold clear
  simp only []
  refine LS.cw (s1 := { s with portA := 0, readsFpgaState := false, flagsInternal := 0 }) ⟨id, id⟩ ?_; intro s1 h1
  refine LS.cw h1 ?_; intro s2 h2
  refine LS.cw h2 ?_; intro s3 h3
  refine LS.cw h3 ?_; intro s4 h4
  refine LS.cw h4 ?_; intro s5 h5
  refine LS.cw (s1 := { s5 with strict := true, minDivI := 10, minDivP := 40, modDiv := (0xFFFF, 0xFFFF), modRep := (0xFFFF, 0xFFFF), modCycle := 2, modSegment := 0 }) (h5.of_eq rfl rfl) ?_; intro s6 h6
  refine LS.cww h6 ?_; intro s7 h7
  refine LS.cw h7 ?_; intro s8 h8
  refine LS.cw h8 ?_; intro s9 h9
  refine LS.cw h9 ?_; intro s10 h10
  refine LS.cw h10 ?_; intro s11 h11
  refine LS.cw h11 ?_; intro s12 h12
  refine LS.cw h12 ?_; intro s13 h13
  refine LS.cw h13 ?_; intro s14 h14
  refine LS.cw h14 ?_; intro s15 h15
  refine LS.cw h15 ?_; intro s16 h16
  refine LS.mw h16 ?_; intro s17 h17
  refine LS.cw h17 ?_; intro s18 h18
  refine LS.mw h18 ?_; intro s19 h19
  refine LS.cw (s1 := { s19 with stmCycle := (1, 1), stmMode := (STM_MODE_GAIN, STM_MODE_GAIN), stmDiv := (0xFFFF, 0xFFFF), stmRep := (0xFFFF, 0xFFFF), stmSegment := 0 }) (h19.of_eq rfl rfl) ?_; intro s20 h20
  walkS3

/-! ### the three multi-frame handlers -/

theorem fociTail_sq {s0 s1 : State} (d : Array Nat) (off sn flag seg : Nat) (h1 : SQ s0 s1) :
    Leaves SQ s0 (fociDataPart s1 d off sn >>= fun s2 => fociEndPart s2 flag seg) := by
  have endp : ∀ s2, SQ s0 s2 → Leaves SQ s0 (fociEndPart s2 flag seg) := by
    intro s2 h2
    unfold fociEndPart
    simp only []
    walkS2
  unfold fociDataPart
  simp only []
  by_cases h0 : sn * s1.numFoci ≥ 65536
  · simp only [h0, if_true, error_bind]; exact Leaves.error _
  by_cases h : sn * s1.numFoci < FOCI_STM_BUF_PAGE_SIZE - (s1.stmWrite % 65536 &&& FOCI_STM_BUF_PAGE_SIZE_MASK)
  · simp only [h0, h, if_true, if_false, bind_assoc, pure_bind]
    refine LS.sw (by sq_tac) ?_; intro _ _
    exact endp _ (by sq_tac)
  · simp only [h0, h, if_false, bind_assoc, pure_bind]
    refine LS.sw (by sq_tac) ?_; intro _ _
    refine LS.cw (by sq_tac) ?_; intro _ _
    refine LS.sw (by sq_tac) ?_; intro _ _
    exact endp _ (by sq_tac)

theorem writeFociStm_sq (s : State) (d : Array Nat) : Leaves SQ s (writeFociStm s d) := by
  by_cases hb : hasFlag (u8at d FwLayout.FociSTMSubseq_flag_off) FOCI_STM_FLAG_BEGIN = true
  · by_cases g1 : validateTransitionMode s.stmSegment (u8at d FwLayout.FociSTMSubseq_segment_off)
        (u16at d FwLayout.FociSTMHead_rep_off) (u8at d FwLayout.FociSTMHead_transition_mode_off) = true
    · unfold writeFociStm; simp only [hb, g1, if_true]; exact Leaves.pure (SQ.refl _)
    by_cases g2 : validateSilencerSettings s (u16at d FwLayout.FociSTMHead_freq_div_off) (sel s.modDiv s.modSegment) = true
    · unfold writeFociStm; simp only [hb, g1, g2, if_true, if_false]; exact Leaves.pure (SQ.refl _)
    by_cases hseg : u8at d FwLayout.FociSTMSubseq_segment_off > 1
    · unfold writeFociStm; simp only [hb, g1, g2, hseg, if_true, if_false, error_bind]; exact Leaves.error _
    rw [writeFoci_begin s d _ rfl (by omega) hb (by simpa using g1) (by simpa using g2)]
    apply fociTail_sq d _ _ _ _
    refine SQ.of_eq (SQ.refl s) ?_ ?_ <;> (unfold fociHead; simp only [wr_stmSwap, wr_modSwap]; rfl)
  · rw [writeFoci_subseq s d (by simpa using hb)]
    exact fociTail_sq d _ _ _ _ (SQ.refl _)

theorem gstmTail_sq {s0 s1 : State} (d : Array Nat) (off flag seg : Nat) (h1 : SQ s0 s1) :
    Leaves SQ s0 (gstmTail s1 d off flag seg) := by
  unfold gstmTail
  simp only []
  walkS2

theorem writeGainStm_sq (s : State) (d : Array Nat) : Leaves SQ s (writeGainStm s d) := by
  by_cases hb : hasFlag (u8at d FwLayout.GainSTMSubseq_flag_off) GAIN_STM_FLAG_BEGIN = true
  · by_cases g1 : validateTransitionMode s.stmSegment
        (if u8at d FwLayout.GainSTMSubseq_flag_off &&& GAIN_STM_FLAG_SEGMENT ≠ 0 then 1 else 0)
        (u16at d FwLayout.GainSTMHead_rep_off) (u8at d FwLayout.GainSTMHead_transition_mode_off) = true
    · unfold writeGainStm; simp only [hb, g1, if_true]; exact Leaves.pure (SQ.of_eq (SQ.refl _) rfl rfl)
    by_cases g2 : validateSilencerSettings s (u16at d FwLayout.GainSTMHead_freq_div_off) (sel s.modDiv s.modSegment) = true
    · have g2' : validateSilencerSettings { s with gainStmMode := u8at d FwLayout.GainSTMHead_mode_off }
          (u16at d FwLayout.GainSTMHead_freq_div_off)
          (sel ({ s with gainStmMode := u8at d FwLayout.GainSTMHead_mode_off } : State).modDiv
            ({ s with gainStmMode := u8at d FwLayout.GainSTMHead_mode_off } : State).modSegment) = true := g2
      unfold writeGainStm; simp only [hb, g1, g2', if_true, if_false]
      exact Leaves.pure (SQ.of_eq (SQ.refl _) rfl rfl)
    rw [writeGainStm_begin s d _ rfl hb (by simpa using g1) (by simpa using g2)]
    apply gstmTail_sq d _ _ _
    refine SQ.of_eq (SQ.refl s) ?_ ?_ <;> (unfold gstmHead; simp only [wr_stmSwap, wr_modSwap]; rfl)
  · rw [writeGainStm_subseq s d (by simpa using hb)]
    exact gstmTail_sq d _ _ _ (SQ.refl _)

theorem modTail_sq {s0 s1 : State} (d : Array Nat) (off w flag seg : Nat) (h1 : SQ s0 s1) :
    Leaves SQ s0 (modDataPart s1 d off w >>= fun s2 => modEndPart s2 flag seg) := by
  have endp : ∀ s2, SQ s0 s2 → Leaves SQ s0 (modEndPart s2 flag seg) := by
    intro s2 h2
    unfold modEndPart
    simp only []
    walkS2
  unfold modDataPart
  simp only []
  by_cases h : w < MOD_BUF_PAGE_SIZE - (s1.modCycle % 65536 &&& MOD_BUF_PAGE_SIZE_MASK)
  · simp only [h, if_true, bind_assoc, pure_bind]
    refine LS.mw (by sq_tac) ?_; intro _ _
    exact endp _ (by sq_tac)
  · simp only [h, if_false, bind_assoc, pure_bind]
    refine LS.mw (by sq_tac) ?_; intro _ _
    refine LS.cw (by sq_tac) ?_; intro _ _
    refine LS.mw (by sq_tac) ?_; intro _ _
    exact endp _ (by sq_tac)

theorem writeMod_sq (s : State) (d : Array Nat) : Leaves SQ s (writeMod s d) := by
  by_cases hb : hasFlag (u8at d FwLayout.ModulationHead_flag_off) MODULATION_FLAG_BEGIN = true
  · by_cases g1 : validateTransitionMode s.modSegment
        (if u8at d FwLayout.ModulationHead_flag_off &&& MODULATION_FLAG_SEGMENT ≠ 0 then 1 else 0)
        (u16at d FwLayout.ModulationHead_rep_off) (u8at d FwLayout.ModulationHead_transition_mode_off) = true
    · unfold writeMod; simp only [hb, g1, if_true]; exact Leaves.pure (SQ.of_eq (SQ.refl _) rfl rfl)
    by_cases g2 : validateSilencerSettings s (sel s.stmDiv s.stmSegment) (u16at d FwLayout.ModulationHead_freq_div_off) = true
    · have g2' : validateSilencerSettings { s with modCycle := 0 } (sel s.stmDiv s.stmSegment)
          (u16at d FwLayout.ModulationHead_freq_div_off) = true := g2
      unfold writeMod; simp only [hb, g1, g2', if_true, if_false]
      exact Leaves.pure (SQ.of_eq (SQ.refl _) rfl rfl)
    rw [writeMod_begin s d _ rfl hb (by simpa using g1) (by simpa using g2)]
    apply modTail_sq d _ _ _ _
    refine SQ.of_eq (SQ.refl s) ?_ ?_ <;> (unfold modHead; simp only [wr_stmSwap, wr_modSwap]; rfl)
  · rw [writeMod_subseq s d (by simpa using hb)]
    exact modTail_sq d _ _ _ _ (SQ.refl _)

/-! ### every handler, one frame, a whole send, a whole history -/

theorem handlerOf_sq (name : String) (h : State → Array Nat → M (State × Nat)) (e : handlerOf name = some h)
    (s : State) (d : Array Nat) : Leaves SQ s (h s d) := by
  unfold handlerOf at e
  split at e <;> first
    | (cases e; first
        | exact clear_sq s d | exact synchronize_sq s d | exact firmInfo_sq s d | exact writeMod_sq s d
        | exact changeModSegment_sq s d | exact configSilencer_sq s d | exact writeGain_sq s d
        | exact changeGainSegment_sq s d | exact changeGainStmSegment_sq s d | exact writeFociStm_sq s d
        | exact changeFociStmSegment_sq s d | exact writeGainStm_sq s d | exact configureForceFan_sq s d
        | exact configureReadsFpgaState_sq s d | exact configPwe_sq s d | exact configDebug_sq s d
        | exact emulateGpioIn_sq s d | exact cpuGpioOut_sq s d | exact phaseCorrOp_sq s d)
    | cases e

/-- **every handler, every payload**: a swap chain that satisfies `SegLe` still does afterwards -/
theorem handlePayload_sq (s : State) (d : Array Nat) : Leaves SQ s (handlePayload s d) := by
  unfold handlePayload
  split
  · split
    · rename_i h e; exact handlerOf_sq _ h e s d
    · exact Leaves.error _
  · exact Leaves.ok (SQ.refl s)

theorem SQ_pre (s : State) (mid : Nat) : SQ s (pre s mid) := by
  obtain ⟨r, hr⟩ := pre_eq s mid
  rw [hr]; exact ⟨id, id⟩

theorem ecatRecv_sq (s s' : State) (frame : Array Nat) (hslot : u16at frame DrvLayout.Header_slot_2_offset_off = 0)
    (h : ecatRecv s frame = .ok s') : SQ s s' := by
  rw [ecatRecv_slot1_eq s frame hslot] at h
  split at h
  · cases h; exact SQ.refl s
  · split at h
    · cases h; exact (SQ_pre s _).of_eq rfl rfl
    · obtain ⟨x, hx, h⟩ := bind_eq_ok h
      obtain ⟨x1, x2⟩ := x
      have p := (SQ_pre s _).trans (handlePayload_sq _ _ x1 x2 hx)
      simp only [] at h
      split at h
      · cases h; exact p.of_eq rfl rfl
      · obtain ⟨s2, h2, h⟩ := bind_eq_ok h
        cases h
        have e := ctlWrite_sw _ _ _ _ h2
        exact p.of_eq e.1 e.2

theorem sendLoop_sq : ∀ fuel (o : Op) (s : State) (t t' : Tx) (s' : State),
    sendLoop fuel o s t = some (t', s') → SQ s s' := by
  intro fuel
  induction fuel with
  | zero => intro o s t t' s' h; cases h
  | succ fuel ih =>
    intro o s t t' s' h
    unfold sendLoop at h
    split at h
    · cases h; exact SQ.refl s
    · split at h
      · cases h
      · rename_i o1 t1 sz hp
        obtain ⟨b, _, rfl⟩ := packOp_inv _ _ _ _ _ _ hp
        split at h
        · cases h
        · rename_i s1 hr
          split at h
          · exact (ecatRecv_sq s s1 _ (by rw [frame_slot2]; rfl) hr).trans (ih _ _ _ _ _ h)
          · cases h

/-- **a whole send of ANY datagram from ANY state** keeps `SegLe` of both swap chains -/
theorem sends_sq (dg : Dg) (s : State) (t t' : Tx) (s' : State) (h : Sends dg s t t' s') : SQ s s' := by
  obtain ⟨fuel, h⟩ := h
  exact sendLoop_sq fuel _ s t t' s' h

/-- both swap chains of the power-on device satisfy `SegLe` -/
theorem new_segLe (numTr now : Nat) (p0 : State) (hp0 : Fw.new numTr now = .ok p0) :
    SegLe p0.stmSwap ∧ SegLe p0.modSwap := by
  unfold Fw.new at hp0
  simp only [] at hp0
  obtain ⟨x, hx, h⟩ := bind_eq_ok hp0
  obtain ⟨x1, x2⟩ := x
  cases h
  have p := clear_sq _ _ x1 x2 hx
  exact ⟨p.1 ⟨Nat.zero_le _, Nat.zero_le _⟩, p.2 ⟨Nat.zero_le _, Nat.zero_le _⟩⟩

/-! ### one clock update -/

/-- what `Swapchain::update` can change: the request (`req`, `mode`, `rep`, `sys_time`) and the latched divisions and
cycles stay; `cur` stays, becomes `req`, or flips between 0 and 1 -/
theorem phase1_shape (w w' : Swap) (g : Nat → Bool) (t lastLap lap idx : Nat) (h : w.phase1 g t lastLap lap idx = .ok w') :
    w'.freqDiv = w.freqDiv ∧ w'.cycle = w.cycle ∧ w'.req = w.req ∧ w'.mode = w.mode ∧ w'.rep = w.rep ∧
    w'.sysTime = w.sysTime ∧ (w'.cur = w.cur ∨ w'.cur = w.req ∨ w'.cur = if w.cur = 0 then 1 else 0) := by
  rcases w with ⟨sysTime, rep, startLap, freqDiv, cycle, ticOff, cur, req, curIdx, mode, stop, extMode, extLastLap, state⟩
  unfold Swap.phase1 at h
  cases state
  · cases mode <;> simp only [] at h
    · split at h <;> cases h <;> simp
    · split at h <;> cases h <;> simp
    · split at h <;> cases h <;> simp
    · cases h
    · cases h
  · simp only [] at h
    cases h
    refine ⟨?_, ?_, ?_, ?_, ?_, ?_, Or.inl ?_⟩ <;> split <;> split <;> rfl
  · simp only [] at h
    split at h <;> cases h <;> simp

theorem phase2_shape (w w' : Swap) (t : Nat) (h : w.phase2 t = .ok w') : ∃ i, w' = { w with curIdx := i } := by
  unfold Swap.phase2 at h
  obtain ⟨x, _, h⟩ := bind_eq_ok h
  obtain ⟨l, i⟩ := x
  simp only [] at h
  split at h
  · split at h
    · cases h
    · cases h; exact ⟨_, rfl⟩
  · split at h
    · cases h
    · split at h
      · cases h
      · cases h; exact ⟨_, rfl⟩

theorem update_shape (w w' : Swap) (g : Nat → Bool) (t : Nat) (h : w.update g t = .ok w') :
    w'.freqDiv = w.freqDiv ∧ w'.cycle = w.cycle ∧ w'.req = w.req ∧ w'.mode = w.mode ∧ w'.rep = w.rep ∧
    w'.sysTime = w.sysTime ∧ (w'.cur = w.cur ∨ w'.cur = w.req ∨ w'.cur = if w.cur = 0 then 1 else 0) := by
  rw [Fw.update_eq] at h
  obtain ⟨x, _, h⟩ := bind_eq_ok h
  obtain ⟨x1, x2⟩ := x
  obtain ⟨y, _, h⟩ := bind_eq_ok h
  obtain ⟨y1, y2⟩ := y
  simp only [] at h
  obtain ⟨w1, h1, h⟩ := bind_eq_ok h
  obtain ⟨i, rfl⟩ := phase2_shape _ _ _ h
  exact phase1_shape w w1 _ _ _ _ _ h1

theorem update_segLe (w w' : Swap) (g : Nat → Bool) (t : Nat) (h : w.update g t = .ok w') (hw : SegLe w) : SegLe w' := by
  obtain ⟨_, _, e3, _, _, _, e7⟩ := update_shape w w' g t h
  refine ⟨?_, e3 ▸ hw.2⟩
  rcases e7 with e | e | e
  · rw [e]; exact hw.1
  · rw [e]; exact hw.2
  · rw [e]; split <;> omega

end Autd3.SB
