import Autd3.Lemmas.WireBuf
/-!
`Op.next`: the buffer-free part of `Op.pack` (new operation state and reported size as a function of
the operation state, the number of transducers and the bytes available), proved equal to the
projection of `Op.pack`; and `pack_keeps`: `pack` at offset `off` keeps the buffer size and never
touches a byte below `off`.
-/
namespace Autd3.Wire
open Autd3.Fw (rd)
open Autd3.Gen.Drv
open Autd3.Gen

/-- proof-friendly reformulation of the op-state / size part of `Op.pack` -/
def Op.next (o : Op) (numTr avail : Nat) : Except Err (Op × Nat) :=
  match o.dg with
  | .null => .ok (o, 0)
  | .clear => .ok ({ o with done := true }, DrvLayout.Clear_size)
  | .sync => .ok ({ o with done := true }, DrvLayout.Sync_size)
  | .forceFan _ => .ok ({ o with done := true }, DrvLayout.ForceFan_size)
  | .readsFpgaState _ => .ok ({ o with done := true }, DrvLayout.ReadsFPGAState_size)
  | .cpuGpioOut _ => .ok ({ o with done := true }, DrvLayout.CpuGPIOOut_size)
  | .gpioIn _ => .ok ({ o with done := true }, DrvLayout.EmulateGPIOIn_size)
  | .firmInfo _ => .ok ({ o with done := true }, DrvLayout.FirmInfo_size)
  | .debug _ => .ok ({ o with done := true }, DrvLayout.DebugSetting_size)
  | .phaseCorr _ => .ok ({ o with done := true }, DrvLayout.PhaseCorr_size + ((numTr + 1) / 2) * 2)
  | .pwe _ => .ok ({ o with done := true }, DrvLayout.Pwe_size + PWE_BUF_SIZE * 2)
  | .silencerSteps .. => .ok ({ o with done := true }, DrvLayout.SilencerFixedCompletionSteps_size)
  | .silencerRate .. => .ok ({ o with done := true }, DrvLayout.SilencerFixedUpdateRate_size)
  | .gain _ tr _ =>
    match tr with
    | some (m, _) => if m ≠ TRANSITION_MODE_IMMEDIATE then .error .invalidTransitionMode
                     else .ok ({ o with done := true }, DrvLayout.Gain_size + numTr * 2)
    | none => .ok ({ o with done := true }, DrvLayout.Gain_size + numTr * 2)
  | .swapGain _ mode _ =>
    if mode ≠ TRANSITION_MODE_IMMEDIATE then .error .invalidTransitionMode
    else .ok ({ o with done := true }, DrvLayout.SwapSegmentT_size)
  | .swapMod .. | .swapFoci .. | .swapGainStm .. =>
    .ok ({ o with done := true }, DrvLayout.SwapSegmentTWithTransition_size)
  | .modulation _ _ _ _ samples =>
    if samples.size < MOD_BUF_SIZE_MIN ∨ samples.size > MOD_BUF_SIZE_MAX then .error (.modulationSizeOutOfRange samples.size) else
    let isFirst := o.sent = 0
    let hoff := if isFirst then DrvLayout.ModulationHead_size else DrvLayout.ModulationSubseq_size
    let maxMod := if isFirst then min (avail - hoff) 254 else avail - hoff
    let sendNum := min (samples.size - o.sent) maxMod
    let sent := o.sent + sendNum
    let last := samples.size = sent
    let o' : Op := { o with sent := sent, done := o.done || last }
    if isFirst then .ok (o', DrvLayout.ModulationHead_size + ((sendNum + 1) / 2) * 2)
    else .ok (o', DrvLayout.ModulationSubseq_size + ((sendNum + 1) / 2) * 2)
  | .fociStm n _ _ _ _ _ records =>
    if n = 0 ∨ n > FOCI_STM_FOCI_NUM_MAX then .error (.fociStmNumFociOutOfRange n) else
    let size := records.size / n
    let total := size * n
    if total < STM_BUF_SIZE_MIN ∨ total > FOCI_STM_BUF_SIZE_MAX then .error (.fociStmTotalSizeOutOfRange total) else
    let isFirst := o.sent = 0
    let hoff := if isFirst then DrvLayout.FociSTMHead_size else DrvLayout.FociSTMSubseq_size
    let maxSend := (avail - hoff) / (8 * n)
    let sendNum := min (size - o.sent) maxSend
    let sent := o.sent + sendNum
    let last := size = sent
    let o' : Op := { o with sent := sent, done := last }
    if isFirst then .ok (o', DrvLayout.FociSTMHead_size + 8 * sendNum * n)
    else .ok (o', DrvLayout.FociSTMSubseq_size + 8 * sendNum * n)
  | .gainStm mode _ _ _ _ patterns =>
    let size := patterns.size
    if size < STM_BUF_SIZE_MIN ∨ size > GAIN_STM_BUF_SIZE_MAX then .error (.gainStmSizeOutOfRange size) else
    let isFirst := o.sent = 0
    let perFrame := if mode = GainSTMMode_PhaseIntensityFull then 1 else if mode = GainSTMMode_PhaseFull then 2 else 4
    let send := min perFrame (size - o.sent)
    let sent := o.sent + send
    let last := sent = size
    let o' : Op := { o with sent := sent, done := last }
    if isFirst then .ok (o', DrvLayout.GainSTMHead_size + numTr * 2)
    else .ok (o', DrvLayout.GainSTMSubseq_size + numTr * 2)

/-- projection of a `pack` result to (operation state, reported size) -/
def projPack (r : Except Err (Op × Array Nat × Nat)) : Except Err (Op × Nat) :=
  match r with
  | .error e => .error e
  | .ok (o, _, sz) => .ok (o, sz)

theorem projPack_ite (c : Prop) [Decidable c] (a b : Except Err (Op × Array Nat × Nat)) :
    projPack (if c then a else b) = if c then projPack a else projPack b := by
  split <;> rfl
theorem projPack_ok (o : Op) (b : Array Nat) (sz : Nat) : projPack (.ok (o, b, sz)) = .ok (o, sz) := rfl
theorem projPack_error (e : Err) : projPack (.error e) = .error e := rfl

/-- the op-state and size computed by `pack` are those of `next` (they depend on the buffer only
through the number of bytes available) -/
theorem pack_next (o : Op) (n : Nat) (b : Array Nat) (off : Nat) :
    projPack (o.pack n b off) = o.next n (b.size - off) := by
  obtain ⟨dg, sent, done⟩ := o
  cases dg <;> simp only [Op.pack, Op.next]
  all_goals try rfl
  case gain seg tr drives =>
    rcases tr with _ | ⟨m, v⟩
    · rfl
    · simp only [projPack_ite]; rfl
  all_goals simp only [projPack_ite, projPack_ok, projPack_error]

theorem pack_ok_next {o : Op} {n : Nat} {b : Array Nat} {off : Nat} {o' : Op} {b' : Array Nat} {sz : Nat}
    (h : o.pack n b off = .ok (o', b', sz)) : o.next n (b.size - off) = .ok (o', sz) := by
  rw [← pack_next, h]; rfl

theorem pack_error_next {o : Op} {n : Nat} {b : Array Nat} {off : Nat} {e : Err}
    (h : o.pack n b off = .error e) : o.next n (b.size - off) = .error e := by
  rw [← pack_next, h]; rfl

theorem next_ok_pack {o : Op} {n : Nat} {b : Array Nat} {off : Nat} {o' : Op} {sz : Nat}
    (h : o.next n (b.size - off) = .ok (o', sz)) : ∃ b', o.pack n b off = .ok (o', b', sz) := by
  rw [← pack_next] at h
  cases hp : o.pack n b off with
  | error e => rw [hp] at h; cases h
  | ok r => obtain ⟨o'', b', sz'⟩ := r; rw [hp] at h; cases h; exact ⟨b', rfl⟩

def KeepsRes (off : Nat) (b : Array Nat) (r : Except Err (Op × Array Nat × Nat)) : Prop :=
  match r with
  | .error _ => True
  | .ok (_, b', _) => Keeps off b b'

theorem keepsRes_ite (off : Nat) (b : Array Nat) (c : Prop) [Decidable c] (x y : Except Err (Op × Array Nat × Nat)) :
    KeepsRes off b (if c then x else y) ↔ ((c → KeepsRes off b x) ∧ (¬c → KeepsRes off b y)) := by
  split <;> simp_all
theorem keepsRes_ok (off : Nat) (b : Array Nat) (o : Op) (b' : Array Nat) (sz : Nat) :
    KeepsRes off b (.ok (o, b', sz)) ↔ Keeps off b b' := Iff.rfl
theorem keepsRes_error (off : Nat) (b : Array Nat) (e : Err) : KeepsRes off b (.error e) ↔ True := Iff.rfl

theorem keeps_forIn {off : Nat} {b c : Array Nat} (r : Std.Legacy.Range) (f : Nat → Array Nat → Id (ForInStep (Array Nat)))
    (h : Keeps off b c) (hs : ∀ k b', Keeps off b b' → Keeps off b (f k b').run.value) :
    Keeps off b (forIn r c f).run := range_forIn_inv (Keeps off b) r c f h hs

/-- `pack` at offset `off` keeps the buffer size and every byte below `off` -/
theorem pack_keepsRes (o : Op) (n : Nat) (b : Array Nat) (off : Nat) : KeepsRes off b (o.pack n b off) := by
  obtain ⟨dg, sent, done⟩ := o
  cases dg <;> simp only [Op.pack]
  case gain seg tr drives =>
    rcases tr with _ | ⟨m, v⟩ <;> simp only [keepsRes_ite, keepsRes_ok, keepsRes_error]
    · keeps_tac
    · refine ⟨fun _ => trivial, fun _ => ?_⟩; keeps_tac
  all_goals simp only [keepsRes_ite, keepsRes_ok, keepsRes_error]
  all_goals try keeps_tac
  case debug vals =>
    simp only [bind_pure]
    apply keeps_forIn
    · keeps_tac
    · intro k b' hb; simp only [ForInStep.value, Id.run_pure]; keeps_tac
  case swapGain => exact ⟨fun _ => trivial, fun _ => by keeps_tac⟩
  case modulation =>
    refine ⟨fun _ => trivial, fun _ => ⟨fun _ => ?_, fun _ => ?_⟩⟩
    · keeps_tac
    · keeps_tac
  case fociStm =>
    refine ⟨fun _ => trivial, fun _ => ⟨fun _ => trivial, fun _ => ⟨fun _ => ?_, fun _ => ?_⟩⟩⟩
    all_goals
      keeps_tac
      simp only [bind_pure]
      apply keeps_forIn
      · keeps_tac
      · intro k b' hb; simp only [ForInStep.value, Id.run_pure]; keeps_tac
  case gainStm =>
    refine ⟨fun _ => trivial, fun _ => ⟨fun _ => ?_, fun _ => ?_⟩⟩
    all_goals
      keeps_tac
      simp only [bind_pure]
      apply keeps_forIn
      · keeps_tac
      · intro j b' hb
        simp only [Id.run_bind, Id.run_pure, ForInStep.value]
        apply keeps_forIn
        · exact hb
        · intro t b'' hb'
          split
          · simp only [ForInStep.value, Id.run_pure]; keeps_tac
          · split <;> (simp only [ForInStep.value, Id.run_pure]; keeps_tac)

theorem pack_keeps {o : Op} {n : Nat} {b : Array Nat} {off : Nat} {o' : Op} {b' : Array Nat} {sz : Nat}
    (h : o.pack n b off = .ok (o', b', sz)) : Keeps off b b' := by
  have := pack_keepsRes o n b off
  rw [h] at this; exact this

end Autd3.Wire
