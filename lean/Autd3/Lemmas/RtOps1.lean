import Autd3.Lemmas.RtSend
/-!
Round trips of the one-frame datagrams, part 1: glue lemma, ForceFan.
-/
open Autd3 Autd3.Fw Autd3.Wire Autd3.Gen.Cpu Autd3.Gen
namespace Autd3.Rt

theorem u8at_tagValue_0 (b : Array Nat) (tag v : Nat) (hb : 2 ≤ b.size) (ht : tag < 256) :
    u8at (tagValue b 0 tag v) 0 = tag := by
  unfold tagValue; rw [u8at_put8, if_neg (by omega), u8at_put8, if_pos ⟨rfl, by omega⟩]; omega
theorem u8at_tagValue_1 (b : Array Nat) (tag v : Nat) (hb : 2 ≤ b.size) :
    u8at (tagValue b 0 tag v) 1 = v % 256 := by
  unfold tagValue; rw [u8at_put8, if_pos ⟨rfl, by simp; omega⟩]
@[simp] theorem size_tagValue (b : Array Nat) (o tag v : Nat) : (tagValue b o tag v).size = b.size := by
  simp [tagValue]

theorem shr_mod2 (x i : Nat) : (x >>> i) % 2 = 1 ↔ x.testBit i = true := by
  rw [Nat.shiftRight_eq_div_pow, Nat.testBit_eq_decide_div_mod_eq]; simp

theorem pre_lastMsgId (s : State) (id : Nat) : (pre s id).lastMsgId = id := by
  obtain ⟨r, hr⟩ := pre_eq s id; rw [hr]

theorem Fresh_after (s1 : State) (t : Tx) (b : Array Nat) (h : s1.lastMsgId = nextId t) :
    Fresh (fin s1 (nextId t)) { msgId := nextId t, slot2 := 0, payload := b } := by
  show s1.lastMsgId ≠ nextId _
  rw [h]; exact (nextId_ne { msgId := nextId t, slot2 := 0, payload := b } (nextId_lt t)).symm

/-- glue for one-frame datagrams: a packed frame whose handler answers `NO_ERR` with a well-formed
state `s1` is a complete send ending in `fin s1 id` -/
theorem single_glue (dg : Dg) (s : State) (t : Tx) (hf : Fresh s t) (o' : Op) (b : Array Nat) (sz : Nat)
    (hnd : (Op.ofDg dg).done = false)
    (hp : (Op.ofDg dg).pack s.numTr t.payload 0 = .ok (o', b, sz)) (hd : o'.done = true) (s1 : State)
    (hh : handlePayload (pre s (nextId t)) b = .ok (s1, NO_ERR)) (hb : b.size = 622) (hW1 : WF s1)
    (hl : s1.lastMsgId = nextId t) :
    ∃ t' s', Sends dg s t t' s' ∧ WF s' ∧ TxOK t' ∧ Fresh s' t' ∧ s' = fin s1 (nextId t) ∧ t'.payload = b :=
  ⟨_, _, sends_single dg s t hf o' b sz hnd hp hd s1 hh, WF_fin hW1 _, hb, Fresh_after s1 t b hl, rfl, rfl⟩

/-- `WF` only looks at these fields -/
theorem WF_congr {s : State} (h : WF s) (s' : State) (h1 : s'.ctl = s.ctl) (h2 : s'.phaseCorr.size = s.phaseCorr.size)
    (h3 : s'.pwe.size = s.pwe.size) (h4 : s'.modMem0.size = s.modMem0.size) (h5 : s'.modMem1.size = s.modMem1.size)
    (h6 : s'.stmMem0.size = s.stmMem0.size) (h7 : s'.stmMem1.size = s.stmMem1.size) (h8 : s'.numTr = s.numTr)
    (h9 : s'.flagsInternal = s.flagsInternal) (h10 : s'.modSwap = s.modSwap) (h11 : s'.stmSwap = s.stmSwap) :
    WF s' := by
  have hr : ∀ a, reg s' a = reg s a := by intro a; unfold reg; rw [h1]
  exact ⟨by rw [h1]; exact h.ctl, by rw [h2]; exact h.phaseCorr, by rw [h3]; exact h.pwe,
    by rw [h4]; exact h.modMem0, by rw [h5]; exact h.modMem1, by rw [h6]; exact h.stmMem0,
    by rw [h7]; exact h.stmMem1, by rw [h8]; exact h.numTr, by rw [h9]; exact h.flags,
    by rw [h10]; exact h.modSwap, by rw [h11]; exact h.stmSwap,
    by rw [hr]; exact h.modDiv0, by rw [hr]; exact h.modDiv1, by rw [hr]; exact h.stmDiv0, by rw [hr]; exact h.stmDiv1⟩

/-- a register write keeps `WF` unless it zeroes a sampling-division register -/
theorem WF_wr {s : State} (h : WF s) (a v : Nat)
    (ha : (a ≠ ADDR_MOD_FREQ_DIV0 ∧ a ≠ ADDR_MOD_FREQ_DIV1 ∧ a ≠ ADDR_STM_FREQ_DIV0 ∧ a ≠ ADDR_STM_FREQ_DIV1) ∨
      1 ≤ v % 65536) : WF (wr s a v) := by
  have hr : ∀ b, reg (wr s a v) b = if b = a ∧ a < 256 then v % 65536 else reg s b := by
    intro b; rw [reg_wr, h.ctl]
  refine ⟨by simpa using h.ctl, h.phaseCorr, h.pwe, h.modMem0, h.modMem1, h.stmMem0, h.stmMem1, h.numTr,
    h.flags, h.modSwap, h.stmSwap, ?_, ?_, ?_, ?_⟩
  · rw [hr]; have := h.modDiv0; split <;> omega
  · rw [hr]; have := h.modDiv1; split <;> omega
  · rw [hr]; have := h.stmDiv0; split <;> omega
  · rw [hr]; have := h.stmDiv1; split <;> omega

/-- registers after a bulk write into the main bank -/
theorem reg_wrWords (s : State) (base : Nat) (ws : Array Nat) (a : Nat) (hctl : s.ctl.size = 256) :
    reg { s with ctl := wrWords s.ctl base ws } a =
      if base ≤ a ∧ a < base + ws.size ∧ a < 256 then rd ws (a - base) % 65536 else reg s a := by
  unfold reg; simp only [rd_wrWords, hctl]

theorem WF_wrWords {s : State} (h : WF s) (base : Nat) (ws : Array Nat)
    (hb : ADDR_STM_FREQ_DIV1 < base ∨ base + ws.size ≤ ADDR_MOD_FREQ_DIV0 ∨
      (ADDR_MOD_FREQ_DIV1 < base ∧ base + ws.size ≤ ADDR_STM_FREQ_DIV0)) :
    WF { s with ctl := wrWords s.ctl base ws } := by
  have hr := fun a => reg_wrWords s base ws a h.ctl
  simp only [ADDR_STM_FREQ_DIV1, ADDR_MOD_FREQ_DIV0, ADDR_MOD_FREQ_DIV1, ADDR_STM_FREQ_DIV0] at hb
  refine ⟨by simpa using h.ctl, h.phaseCorr, h.pwe, h.modMem0, h.modMem1, h.stmMem0, h.stmMem1, h.numTr,
    h.flags, h.modSwap, h.stmSwap, ?_, ?_, ?_, ?_⟩
  · rw [hr, if_neg (by simp only [ADDR_MOD_FREQ_DIV0]; omega)]; exact h.modDiv0
  · rw [hr, if_neg (by simp only [ADDR_MOD_FREQ_DIV1]; omega)]; exact h.modDiv1
  · rw [hr, if_neg (by simp only [ADDR_STM_FREQ_DIV0]; omega)]; exact h.stmDiv0
  · rw [hr, if_neg (by simp only [ADDR_STM_FREQ_DIV1]; omega)]; exact h.stmDiv1

/-- `mapM` of an everywhere-successful function over `Array.range n` -/
theorem mapM_range_ok {α : Type} (n : Nat) (g : Nat → M α) (h : Nat → α) (hg : ∀ i, i < n → g i = .ok (h i)) :
    (Array.range n).mapM g = .ok ((Array.range n).map h) := by
  rw [Array.mapM_eq_mapM_toList]
  have : ∀ (l : List Nat), (∀ i ∈ l, i < n) → l.mapM g = .ok (l.map h) := by
    intro l; induction l with
    | nil => intro _; rfl
    | cons x xs ih =>
      intro hl
      rw [List.mapM_cons, hg x (hl x (by simp)), ih (fun i hi => hl i (by simp [hi]))]; rfl
  rw [this _ (by intro i hi; simpa using hi)]
  simp [Functor.map, Except.map]
  apply Array.ext'
  simp

/-! ### ForceFan -/

theorem forceFan_handler (s0 : State) (d : Array Nat) (v : Bool) (h0 : u8at d 0 = 0x60)
    (h1 : u8at d 1 = if v then 1 else 0) :
    handlePayload s0 d = .ok ({ s0 with flagsInternal :=
        if v then s0.flagsInternal ||| CTL_FLAG_FORCE_FAN
        else s0.flagsInternal &&& (65535 - CTL_FLAG_FORCE_FAN) }, NO_ERR) := by
  unfold handlePayload; rw [h0]
  show configureForceFan _ _ = _
  unfold configureForceFan
  simp only [FwLayout.ForceFan_value_off, h1]
  cases v <;> simp

theorem forceFan_roundtrip' (s : State) (t : Tx) (v : Bool) (hWF : WF s) (ht : TxOK t) (hf : Fresh s t) :
    ∃ t' s', Sends (.forceFan v) s t t' s' ∧ WF s' ∧ TxOK t' ∧ Fresh s' t' ∧
      Obs.isForceFan s' = v := by
  have hW := WF_pre hWF (nextId t)
  have hl := pre_lastMsgId s (nextId t)
  have ht' : t.payload.size = 622 := ht
  have hh := forceFan_handler (pre s (nextId t)) (tagValue t.payload 0 Drv.TAG_ForceFan (if v then 1 else 0)) v
    (u8at_tagValue_0 _ _ _ (by rw [ht']; decide) (by decide))
    (by rw [u8at_tagValue_1 _ _ _ (by rw [ht']; decide)]; cases v <;> rfl)
  have hfl : (if v then (pre s (nextId t)).flagsInternal ||| CTL_FLAG_FORCE_FAN
        else (pre s (nextId t)).flagsInternal &&& (65535 - CTL_FLAG_FORCE_FAN)) % 256 = 0 := by
    have := hW.flags
    cases v
    · simp only [Bool.false_eq_true, if_false, show 256 = 2 ^ 8 from rfl, Nat.and_mod_two_pow] at *
      rw [this]; simp
    · simp only [if_true, show 256 = 2 ^ 8 from rfl, Nat.or_mod_two_pow] at *
      rw [this]; rfl
  obtain ⟨t', s', hS, hW', hT', hF', rfl, -⟩ := single_glue (.forceFan v) s t hf _ _ _ rfl rfl rfl _ hh
    (by simpa using ht')
    ⟨hW.ctl, hW.phaseCorr, hW.pwe, hW.modMem0, hW.modMem1, hW.stmMem0, hW.stmMem1, hW.numTr, hfl,
      hW.modSwap, hW.stmSwap, hW.modDiv0, hW.modDiv1, hW.stmDiv0, hW.stmDiv1⟩ hl
  refine ⟨t', _, hS, hW', hT', hF', ?_⟩
  unfold Obs.isForceFan
  rw [reg_fin_zero]
  case h => exact hW.ctl
  simp only [CTL_FLAG_FORCE_FAN_BIT, CTL_FLAG_FORCE_FAN]
  cases v
  · simp only [Bool.false_eq_true, if_false]
    rw [decide_eq_false_iff_not, shr_mod2, show 65536 = 2 ^ 16 from rfl, Nat.testBit_mod_two_pow, Nat.testBit_and]
    simp [(by decide : Nat.testBit 57343 13 = false)]
  · simp only [if_true]
    rw [decide_eq_true_iff, shr_mod2, show 65536 = 2 ^ 16 from rfl, Nat.testBit_mod_two_pow, Nat.testBit_or]
    simp [(by decide : Nat.testBit 8192 13 = true)]
/-- `WF` of a state that differs from a well-formed one only in fields `WF` does not mention -/
macro "wf_same " h:term : tactic =>
  `(tactic| exact ⟨($h).ctl, ($h).phaseCorr, ($h).pwe, ($h).modMem0, ($h).modMem1, ($h).stmMem0, ($h).stmMem1,
    ($h).numTr, ($h).flags, ($h).modSwap, ($h).stmSwap, ($h).modDiv0, ($h).modDiv1, ($h).stmDiv0, ($h).stmDiv1⟩)

theorem silSteps_handler (s0 : State) (hW : WF s0) (d : Array Nat) (strict : Bool) (i p : Nat)
    (h0 : u8at d 0 = 33) (h1 : u8at d 1 = if strict then 4 else 0) (h2 : u16at d 2 = i) (h4 : u16at d 4 = p)
    (hg : validateSilencerSettings { s0 with strict := strict, minDivI := i, minDivP := p }
      (sel s0.stmDiv s0.stmSegment) (sel s0.modDiv s0.modSegment) = false) :
    handlePayload s0 d = .ok
      (wr (wr (wr (wr (wr { s0 with strict := strict, minDivI := i, minDivP := p }
        ADDR_SILENCER_COMPLETION_STEPS_INTENSITY i) ADDR_SILENCER_COMPLETION_STEPS_PHASE p)
        ADDR_SILENCER_FLAG (if strict then 4 else 0)) ADDR_CTL_FLAG (s0.flagsInternal ||| CTL_FLAG_SILENCER_SET))
        ADDR_CTL_FLAG s0.flagsInternal, NO_ERR) := by
  unfold handlePayload; rw [h0]
  show configSilencer _ _ = _
  unfold configSilencer
  simp only [FwLayout.ConfigSilencer_flag_off, FwLayout.ConfigSilencer_value_intensity_off,
    FwLayout.ConfigSilencer_value_phase_off, h1, h2, h4]
  have hf1 : hasFlag (if strict then 4 else 0) SILENCER_FLAG_FIXED_UPDATE_RATE_MODE = false := by
    cases strict <;> rfl
  have hf4 : hasFlag (if strict then 4 else 0) SILENCER_FLAG_STRICT_MODE = strict := by
    cases strict <;> rfl
  simp only [hf1, hf4, Bool.false_eq_true, if_false, hg]
  simp only [ctlWrite_main _ ADDR_SILENCER_COMPLETION_STEPS_INTENSITY _ (by decide),
    ctlWrite_main _ ADDR_SILENCER_COMPLETION_STEPS_PHASE _ (by decide),
    ctlWrite_main _ ADDR_SILENCER_FLAG _ (by decide), ok_bind]
  rw [saw_plain]
  · rfl
  · simpa using hW.ctl
  · exact hW.flags
  · decide
  · decide

/-- `single_glue` with the pre-state made explicit: `s` with the message id latched and some `rxData` -/
theorem single_glue' (dg : Dg) (s : State) (t : Tx) (hWF : WF s) (hf : Fresh s t) (o' : Op) (b : Array Nat) (sz : Nat)
    (hnd : (Op.ofDg dg).done = false)
    (hp : (Op.ofDg dg).pack s.numTr t.payload 0 = .ok (o', b, sz)) (hd : o'.done = true) (hb : b.size = 622)
    (P : Tx → State → Prop)
    (H : ∀ r, WF { s with lastMsgId := nextId t, rxData := r } →
      ∃ s1, handlePayload { s with lastMsgId := nextId t, rxData := r } b = .ok (s1, NO_ERR) ∧ WF s1 ∧
        s1.lastMsgId = nextId t ∧ P { msgId := nextId t, slot2 := 0, payload := b } (fin s1 (nextId t))) :
    ∃ t' s', Sends dg s t t' s' ∧ WF s' ∧ TxOK t' ∧ Fresh s' t' ∧ P t' s' := by
  obtain ⟨r, hr⟩ := pre_eq s (nextId t)
  have hW := WF_pre hWF (nextId t)
  rw [hr] at hW
  obtain ⟨s1, hh, hW1, hl, hP⟩ := H r hW
  rw [← hr] at hh
  exact ⟨_, _, sends_single dg s t hf o' b sz hnd hp hd s1 hh, WF_fin hW1 _, hb, Fresh_after s1 t b hl, hP⟩

/-! ### Silencer -/

theorem silSteps_payload (b : Array Nat) (flag i p : Nat) (hb : 6 ≤ b.size) (hfl : flag < 256) :
    let d := put16 (put16 (tagValue b 0 Drv.TAG_Silencer flag) 2 i) 4 p
    u8at d 0 = 33 ∧ u8at d 1 = flag ∧ u16at d 2 = i % 65536 ∧ u16at d 4 = p % 65536 ∧ d.size = b.size := by
  refine ⟨?_, ?_, ?_, ?_, by simp⟩
  · rw [u8at_put16, if_neg (by omega), if_neg (by omega), u8at_put16, if_neg (by omega), if_neg (by omega),
      u8at_tagValue_0 _ _ _ (by omega) (by decide)]; rfl
  · rw [u8at_put16, if_neg (by omega), if_neg (by omega), u8at_put16, if_neg (by omega), if_neg (by omega),
      u8at_tagValue_1 _ _ _ (by omega)]; omega
  · rw [u16at_put16_other _ _ _ _ (by omega), u16at_put16_same _ _ _ (by simp; omega)]
  · rw [u16at_put16_same _ _ _ (by simp; omega)]

theorem silencerSteps_roundtrip' (s : State) (t : Tx) (hWF : WF s) (ht : TxOK t) (hf : Fresh s t)
    (i p : Nat) (strict : Bool) (hi : 0 < i ∧ i < 65536) (hp : 0 < p ∧ p < 65536)
    (hg : validateSilencerSettings { s with strict := strict, minDivI := i, minDivP := p }
      (sel s.stmDiv s.stmSegment) (sel s.modDiv s.modSegment) = false) :
    ∃ t' s', Sends (.silencerSteps i p strict) s t t' s' ∧ WF s' ∧ TxOK t' ∧ Fresh s' t' ∧
      Obs.silencerCompletionSteps s' = .ok (i, p) ∧ Obs.silencerFixedUpdateRateMode s' = false ∧
      s'.strict = strict := by
  have ht' : t.payload.size = 622 := ht
  obtain ⟨p0, p1, p2, p4, psz⟩ := silSteps_payload t.payload (if strict then 4 else 0) i p (by omega)
    (by cases strict <;> decide)
  rw [Nat.mod_eq_of_lt hi.2] at p2
  rw [Nat.mod_eq_of_lt hp.2] at p4
  refine single_glue' _ s t hWF hf _ _ _ rfl rfl rfl (by simpa using ht') _ ?_
  intro r hW
  refine ⟨_, silSteps_handler _ hW _ strict i p p0 p1 p2 p4 hg, ?_, rfl, ?_, ?_, rfl⟩
  · have hW0 : WF { s with lastMsgId := nextId t, rxData := r, strict := strict, minDivI := i, minDivP := p } := by
      wf_same hW
    exact WF_wr (WF_wr (WF_wr (WF_wr (WF_wr hW0 _ _
      (Or.inl (by decide))) _ _ (Or.inl (by decide))) _ _ (Or.inl (by decide))) _ _ (Or.inl (by decide))) _ _
      (Or.inl (by decide))
  · have hc : s.ctl.size = 256 := hW.ctl
    simp [Obs.silencerCompletionSteps, reg_fin, reg_wr, hc, ADDR_SILENCER_COMPLETION_STEPS_INTENSITY,
      ADDR_SILENCER_COMPLETION_STEPS_PHASE, ADDR_SILENCER_FLAG, ADDR_CTL_FLAG, Nat.mod_eq_of_lt hi.2,
      Nat.mod_eq_of_lt hp.2]
    omega
  · have hc : s.ctl.size = 256 := hW.ctl
    simp [Obs.silencerFixedUpdateRateMode, reg_fin, reg_wr, hc, ADDR_SILENCER_COMPLETION_STEPS_INTENSITY,
      ADDR_SILENCER_COMPLETION_STEPS_PHASE, ADDR_SILENCER_FLAG, ADDR_CTL_FLAG]
    cases strict <;> rfl

end Autd3.Rt
