import Autd3.Lemmas.Tuple2Kinds
import Autd3.Lemmas.Tuple2Inv
/-!
General tuples, part 5: Modulation × {Gain, FociSTM, GainSTM}, both orders, stated on acceptance
(`Sends A` then `Sends B`) — the readiness of the protocols is derived from acceptance (`Tuple2Inv.lean`).
-/
open Autd3 Autd3.Fw Autd3.Wire Autd3.Gen.Cpu Autd3.Gen Autd3.Rt
namespace Autd3.Tuple2

/-- the integer-level side conditions of an STM-side datagram (value ranges the SDK's types guarantee, sizes the
driver checks, a transition the firmware can decode and — for a SysTime transition — a time that is not missed),
relative to a state `s` (only its clock is used) -/
def StmOK (s : State) : Dg → Prop
  | .gain seg tr drives =>
    seg ≤ 1 ∧ (tr = none ∨ ∃ v, tr = some (Drv.TRANSITION_MODE_IMMEDIATE, v)) ∧ ∀ i, rd drives i < 65536
  | .fociStm n seg tr rep div ss records => ∃ P, FociOK s n seg tr rep div ss records P
  | .gainStm mode seg tr rep div patterns => GOK s mode seg tr rep div patterns
  | _ => False

theorem ModOK_time {s s' : State} {seg : Nat} {tr : Tr} {rep div : Nat} {samples : Array Nat}
    (H : ModOK s seg tr rep div samples) (h : s'.dcSysTime = s.dcSysTime) : ModOK s' seg tr rep div samples :=
  ⟨H.seg, H.n2, H.n3, H.bytes, H.rep, H.div, fun m v e => by rw [h]; exact H.tr m v e⟩
theorem FociOK_time {s s' : State} {n seg : Nat} {tr : Tr} {rep div ss : Nat} {records : Array Nat} {P : Nat}
    (H : FociOK s n seg tr rep div ss records P) (h : s'.dcSysTime = s.dcSysTime) : FociOK s' n seg tr rep div ss records P :=
  ⟨H.hseg, H.hn, H.size, H.total, H.recs, H.hrep, H.hdiv, H.hss, fun m v e => by rw [h]; exact H.htr m v e⟩
theorem GOK_time {s s' : State} {mode seg : Nat} {tr : Tr} {rep div : Nat} {patterns : Array (Array Nat)}
    (H : GOK s mode seg tr rep div patterns) (h : s'.dcSysTime = s.dcSysTime) : GOK s' mode seg tr rep div patterns :=
  ⟨H.hseg, H.hmode, H.size, H.drives, H.hrep, H.hdiv, fun m v e => by rw [h]; exact H.htr m v e⟩

/-! ### accepted ⇒ the protocol was ready -/

theorem mod_ready_of_sends (s : State) (t : Tx) (hW : WF s) (ht : TxOK t) (hf : Fresh s t)
    (seg : Nat) (tr : Tr) (rep div : Nat) (samples : Array Nat) (H : ModOK s seg tr rep div samples)
    (t' : Tx) (s' : State) (h : Sends (.modulation seg tr rep div samples) s t t' s') :
    (modProto seg tr rep div samples).Ready (pre s (nextId t)) := by
  obtain ⟨g1, g2⟩ := mod_accept_guards s t hW ht hf seg tr rep div samples H t' s' h
  obtain ⟨p1, p2, p3, _, p5, p6, p7, p8, _, _⟩ := pre_fields s (nextId t)
  rw [modProto_ready]
  refine ⟨WF_pre hW _, ModOK_time H p8, by rw [p3]; exact g1, ?_⟩
  unfold validateSilencerSettings at g2 ⊢
  rw [p1, p2, p5, p6, p7]; exact g2

theorem foci_ready_of_sends (s : State) (t : Tx) (hW : WF s) (ht : TxOK t) (hf : Fresh s t)
    (n seg : Nat) (tr : Tr) (rep div ss : Nat) (records : Array Nat) (P : Nat)
    (H : FociOK s n seg tr rep div ss records P)
    (t' : Tx) (s' : State) (h : Sends (.fociStm n seg tr rep div ss records) s t t' s') :
    (fociProto n seg tr rep div ss records P).Ready (pre s (nextId t)) := by
  obtain ⟨g1, g2⟩ := foci_accept_guards s t hW ht hf n seg tr rep div ss records P H t' s' h
  obtain ⟨p1, _, p3, p4, p5, p6, p7, p8, _, _⟩ := pre_fields s (nextId t)
  rw [fociProto_ready]
  refine ⟨WF_pre hW _, FociOK_time H p8, by rw [p1]; exact g1, ?_⟩
  unfold validateSilencerSettings at g2 ⊢
  rw [p3, p4, p5, p6, p7]; exact g2

theorem gstm_ready_of_sends (s : State) (t : Tx) (hW : WF s) (ht : TxOK t) (hf : Fresh s t)
    (mode seg : Nat) (tr : Tr) (rep div : Nat) (patterns : Array (Array Nat))
    (H : GOK s mode seg tr rep div patterns)
    (t' : Tx) (s' : State) (h : Sends (.gainStm mode seg tr rep div patterns) s t t' s') :
    (gstmProto mode seg tr rep div patterns).Ready (pre s (nextId t)) := by
  obtain ⟨g1, g2⟩ := gstm_accept_guards s t hW ht hf mode seg tr rep div patterns H t' s' h
  obtain ⟨p1, _, p3, p4, p5, p6, p7, p8, _, _⟩ := pre_fields s (nextId t)
  rw [gstmProto_ready]
  refine ⟨WF_pre hW _, GOK_time H p8, by rw [p1]; exact g1, ?_⟩
  unfold validateSilencerSettings at g2 ⊢
  rw [p3, p4, p5, p6, p7]; exact g2

theorem gain_ready (s : State) (t : Tx) (hW : WF s) (seg : Nat) (tr : Tr) (drives : Array Nat) (hseg : seg ≤ 1)
    (htr : tr = none ∨ ∃ v, tr = some (Drv.TRANSITION_MODE_IMMEDIATE, v)) (hdr : ∀ i, rd drives i < 65536) :
    (gainProto seg tr drives).Ready (pre s (nextId t)) := by
  rw [gainProto_ready]; exact ⟨WF_pre hW _, hseg, htr, hdr⟩

/-- what acceptance of a datagram through its protocol tells about the end of the send -/
theorem sends_facts {P : Proto} (L : P.Laws) (s : State) (t : Tx) (hW : WF s) (ht : TxOK t) (hf : Fresh s t)
    (hR : P.Ready (pre s (nextId t))) (t' : Tx) (s' : State) (h : Sends P.dg s t t' s') :
    WF s' ∧ TxOK t' ∧ Fresh s' t' ∧ P.OwnT s s' := by
  obtain ⟨t1, s1, hS, a, b, c, d, _⟩ := single_roundtrip L s t hW ht hf hR
  obtain ⟨e1, e2⟩ := Sends_unique h hS
  subst e1 e2
  exact ⟨a, b, c, d⟩

/-- "accepted ⇒ ready", for every state with the clock of `s` -/
def RdyOf (P : Proto) (s : State) : Prop :=
  ∀ x tx, WF x → TxOK tx → Fresh x tx → x.dcSysTime = s.dcSysTime → ∀ t' s', Sends P.dg x tx t' s' →
    P.Ready (pre x (nextId tx))

theorem rdyOf_mod (s : State) (seg : Nat) (tr : Tr) (rep div : Nat) (samples : Array Nat)
    (H : ModOK s seg tr rep div samples) : RdyOf (modProto seg tr rep div samples) s :=
  fun x tx hW ht hf htime t' s' h => mod_ready_of_sends x tx hW ht hf seg tr rep div samples (ModOK_time H htime) t' s' h

theorem rdyOf_foci (s : State) (n seg : Nat) (tr : Tr) (rep div ss : Nat) (records : Array Nat) (P : Nat)
    (H : FociOK s n seg tr rep div ss records P) : RdyOf (fociProto n seg tr rep div ss records P) s :=
  fun x tx hW ht hf htime t' s' h =>
    foci_ready_of_sends x tx hW ht hf n seg tr rep div ss records P (FociOK_time H htime) t' s' h

theorem rdyOf_gstm (s : State) (mode seg : Nat) (tr : Tr) (rep div : Nat) (patterns : Array (Array Nat))
    (H : GOK s mode seg tr rep div patterns) : RdyOf (gstmProto mode seg tr rep div patterns) s :=
  fun x tx hW ht hf htime t' s' h =>
    gstm_ready_of_sends x tx hW ht hf mode seg tr rep div patterns (GOK_time H htime) t' s' h

theorem rdyOf_gain (s : State) (seg : Nat) (tr : Tr) (drives : Array Nat) (hseg : seg ≤ 1)
    (htr : tr = none ∨ ∃ v, tr = some (Drv.TRANSITION_MODE_IMMEDIATE, v)) (hdr : ∀ i, rd drives i < 65536) :
    RdyOf (gainProto seg tr drives) s :=
  fun x tx hW _ _ _ _ _ _ => gain_ready x tx hW seg tr drives hseg htr hdr

/-- (Modulation, X) on acceptance -/
theorem tuple_mod_kind {PS : Proto} {Ld : State → Nat × Nat} {Ls : State → Nat} (K : SKind PS Ld Ls)
    (s : State) (t : Tx) (hW : WF s) (ht : TxOK t) (hf : Fresh s t)
    (seg : Nat) (tr : Tr) (rep div : Nat) (samples : Array Nat) (HA : ModOK s seg tr rep div samples)
    (hRdy : RdyOf PS s) (tA : Tx) (sA : State) (tB : Tx) (sB : State)
    (hA : Sends (.modulation seg tr rep div samples) s t tA sA) (hB : Sends PS.dg sA tA tB sB) :
    ∃ t2 s2, Sends2 (.modulation seg tr rep div samples) PS.dg s t t2 s2 ∧ WF s2 ∧ TxOK t2 ∧ Fresh s2 t2 ∧
      TupleObsEq sB s2 := by
  have LM := modProto_laws seg tr rep div samples HA.n2 HA.n3
  have hRA := mod_ready_of_sends s t hW ht hf seg tr rep div samples HA tA sA hA
  obtain ⟨hWA, hTA, hFA, hOA⟩ := sends_facts LM s t hW ht hf hRA tA sA hA
  have hOA' : Foot eraseMI TM s sA := hOA
  have hRB := hRdy sA tA hWA hTA hFA (KeepR_of_footM hOA').time tB sB hB
  obtain ⟨tB', sB', t2, s2, hSB, hS2, h1, h2, h3, hObs⟩ :=
    tuple_mod_S K seg tr rep div samples HA.n2 HA.n3 s t hW ht hf hRA tA sA hA hRB
  obtain ⟨e1, e2⟩ := Sends_unique hB hSB
  subst e1 e2
  exact ⟨t2, s2, hS2, h1, h2, h3, hObs⟩

/-- (X, Modulation) on acceptance -/
theorem tuple_kind_mod {PS : Proto} {Ld : State → Nat × Nat} {Ls : State → Nat} (K : SKind PS Ld Ls)
    (s : State) (t : Tx) (hW : WF s) (ht : TxOK t) (hf : Fresh s t)
    (seg : Nat) (tr : Tr) (rep div : Nat) (samples : Array Nat) (HB : ModOK s seg tr rep div samples)
    (hRdy : RdyOf PS s) (tA : Tx) (sA : State) (tB : Tx) (sB : State)
    (hA : Sends PS.dg s t tA sA) (hB : Sends (.modulation seg tr rep div samples) sA tA tB sB) :
    ∃ t2 s2, Sends2 PS.dg (.modulation seg tr rep div samples) s t t2 s2 ∧ WF s2 ∧ TxOK t2 ∧ Fresh s2 t2 ∧
      TupleObsEq sB s2 := by
  have hRA := hRdy s t hW ht hf rfl tA sA hA
  obtain ⟨hWA, hTA, hFA, hOA⟩ := sends_facts K.laws s t hW ht hf hRA tA sA hA
  have hOA' := K.ownT _ _ hOA
  have hRB := mod_ready_of_sends sA tA hWA hTA hFA seg tr rep div samples (ModOK_time HB (KeepR_of_footS hOA').time) tB sB hB
  obtain ⟨tB', sB', t2, s2, hSB, hS2, h1, h2, h3, hObs⟩ :=
    tuple_S_mod K seg tr rep div samples HB.n2 HB.n3 s t hW ht hf hRA tA sA hA hRB
  obtain ⟨e1, e2⟩ := Sends_unique hB hSB
  subst e1 e2
  exact ⟨t2, s2, hS2, h1, h2, h3, hObs⟩

/-- **Modulation × STM-side datagram, the tuple `(Modulation, B)`** -/
theorem tuple_mod_stm (s : State) (t : Tx) (hW : WF s) (ht : TxOK t) (hf : Fresh s t)
    (seg : Nat) (tr : Tr) (rep div : Nat) (samples : Array Nat) (HA : ModOK s seg tr rep div samples)
    (B : Dg) (HB : StmOK s B) (tA : Tx) (sA : State) (tB : Tx) (sB : State)
    (hA : Sends (.modulation seg tr rep div samples) s t tA sA) (hB : Sends B sA tA tB sB) :
    ∃ t2 s2, Sends2 (.modulation seg tr rep div samples) B s t t2 s2 ∧ WF s2 ∧ TxOK t2 ∧ Fresh s2 t2 ∧
      TupleObsEq sB s2 := by
  cases B with
  | gain segB trB drives =>
    obtain ⟨h1, h2, h3⟩ := HB
    exact tuple_mod_kind (gainKind segB trB drives h1 h2) s t hW ht hf seg tr rep div samples HA
      (rdyOf_gain s segB trB drives h1 h2 h3) tA sA tB sB hA hB
  | fociStm n segB trB repB divB ss records =>
    obtain ⟨P, H⟩ := HB
    exact tuple_mod_kind (fociKind n segB trB repB divB ss records P H.hn H.size H.total) s t hW ht hf seg tr rep div
      samples HA (rdyOf_foci s n segB trB repB divB ss records P H) tA sA tB sB hA hB
  | gainStm mode segB trB repB divB patterns =>
    have H : GOK s mode segB trB repB divB patterns := HB
    exact tuple_mod_kind (gstmKind mode segB trB repB divB patterns H.hmode H.size) s t hW ht hf seg tr rep div
      samples HA (rdyOf_gstm s mode segB trB repB divB patterns H) tA sA tB sB hA hB
  | _ => exact absurd HB (by simp [StmOK])

/-- **STM-side datagram × Modulation, the tuple `(B, Modulation)`** -/
theorem tuple_stm_mod (s : State) (t : Tx) (hW : WF s) (ht : TxOK t) (hf : Fresh s t)
    (seg : Nat) (tr : Tr) (rep div : Nat) (samples : Array Nat) (HA : ModOK s seg tr rep div samples)
    (B : Dg) (HB : StmOK s B) (tB : Tx) (sB : State) (tA : Tx) (sA : State)
    (hB : Sends B s t tB sB) (hA : Sends (.modulation seg tr rep div samples) sB tB tA sA) :
    ∃ t2 s2, Sends2 B (.modulation seg tr rep div samples) s t t2 s2 ∧ WF s2 ∧ TxOK t2 ∧ Fresh s2 t2 ∧
      TupleObsEq sA s2 := by
  cases B with
  | gain segB trB drives =>
    obtain ⟨h1, h2, h3⟩ := HB
    exact tuple_kind_mod (gainKind segB trB drives h1 h2) s t hW ht hf seg tr rep div samples HA
      (rdyOf_gain s segB trB drives h1 h2 h3) tB sB tA sA hB hA
  | fociStm n segB trB repB divB ss records =>
    obtain ⟨P, H⟩ := HB
    exact tuple_kind_mod (fociKind n segB trB repB divB ss records P H.hn H.size H.total) s t hW ht hf seg tr rep div
      samples HA (rdyOf_foci s n segB trB repB divB ss records P H) tB sB tA sA hB hA
  | gainStm mode segB trB repB divB patterns =>
    have H : GOK s mode segB trB repB divB patterns := HB
    exact tuple_kind_mod (gstmKind mode segB trB repB divB patterns H.hmode H.size) s t hW ht hf seg tr rep div
      samples HA (rdyOf_gstm s mode segB trB repB divB patterns H) tB sB tA sA hB hA
  | _ => exact absurd HB (by simp [StmOK])

/-! ### existence of the sequential runs (for non-vacuity) -/

/-- a ready Modulation is accepted; the end state keeps everything outside the modulation side and has the latches -/
theorem sends_of_ready_mod (s : State) (t : Tx) (hW : WF s) (ht : TxOK t) (hf : Fresh s t)
    (seg : Nat) (tr : Tr) (rep div : Nat) (samples : Array Nat) (hn2 : 2 ≤ samples.size) (hn3 : samples.size ≤ 65536)
    (hR : (modProto seg tr rep div samples).Ready (pre s (nextId t))) :
    ∃ tA sA, Sends (.modulation seg tr rep div samples) s t tA sA ∧ WF sA ∧ TxOK tA ∧ Fresh sA tA ∧ KeepR s sA ∧
      KeepS s sA ∧ sA.modDiv = setSel s.modDiv seg div ∧
      sA.modSegment = (if trMode tr = TRANSITION_MODE_NONE then s.modSegment else seg) := by
  obtain ⟨tA, sA, hS, a, b, c, d, e⟩ := single_roundtrip (modProto_laws seg tr rep div samples hn2 hn3) s t hW ht hf hR
  have d' : Foot eraseMI TM s sA := d
  obtain ⟨_, _, l1, l2⟩ := modProto_done seg tr rep div samples e
  obtain ⟨_, _, p3, p4, _⟩ := pre_fields s (nextId t)
  exact ⟨tA, sA, hS, a, b, c, KeepR_of_footM d', KeepS_of_footMI d', by rw [l1, p4], by rw [l2, p3]⟩

/-- a ready STM-side datagram is accepted; the end state keeps everything outside the STM side and has the latches -/
theorem sends_of_ready_kind {PS : Proto} {Ld : State → Nat × Nat} {Ls : State → Nat} (K : SKind PS Ld Ls)
    (s : State) (t : Tx) (hW : WF s) (ht : TxOK t) (hf : Fresh s t) (hR : PS.Ready (pre s (nextId t))) :
    ∃ tB sB, Sends PS.dg s t tB sB ∧ WF sB ∧ TxOK tB ∧ Fresh sB tB ∧ KeepR s sB ∧ KeepM s sB ∧
      sB.stmDiv = Ld s ∧ sB.stmSegment = Ls s := by
  obtain ⟨tB, sB, hS, a, b, c, d, e⟩ := single_roundtrip K.laws s t hW ht hf hR
  have d' := K.ownT _ _ d
  have hp : PS.Post (pre s (nextId t)) sB PS.total := by
    unfold Proto.Post; rw [if_neg (Nat.lt_irrefl _)]; exact e
  obtain ⟨l1, l2⟩ := K.latch _ _ _ K.laws.total_pos hp
  obtain ⟨c1, c2⟩ := K.latchCongr s (pre s (nextId t)) (KeepS_pre s _)
  exact ⟨tB, sB, hS, a, b, c, KeepR_of_footS d', KeepM_of_footSI d', by rw [l1, c1], by rw [l2, c2]⟩

/-- (acknowledgement byte, word `i` of the modulation memory of segment 0) after a frame -/
def mmOf (x : M State) (i : Nat) : Option (Nat × Nat) :=
  match x with | .ok s => some (s.ack, rd s.modMem0 i) | .error _ => none

end Autd3.Tuple2
