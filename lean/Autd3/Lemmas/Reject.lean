import Autd3.Model.Reject
/-!
Helper lemmas for C05 (`Props/C05.lean`): the scan over focal points, one iteration of the send
loop, the FociSTM frame loop, the operations that refuse at their first `pack`.
-/
namespace Autd3.Reject
open Autd3.Gen.Drv Autd3.Gen

instance : DecidableEq (Except ErrKind Unit) := fun a b =>
  match a, b with
  | .ok _, .ok _ => isTrue rfl
  | .error x, .error y => if h : x = y then isTrue (by rw [h]) else isFalse (by intro e; cases e; exact h rfl)
  | .ok _, .error _ => isFalse (by intro e; cases e)
  | .error _, .ok _ => isFalse (by intro e; cases e)

/-- the defect of one completion time, in the property's words: not a multiple of 25 µs, or a
multiple outside 1..=65535 periods -/
def completionTimeDefect (ns : Nat) : Option ErrKind :=
  if ns % 25000 ≠ 0 then some .invalidSilencerCompletionTime
  else if ns / 25000 = 0 ∨ ns / 25000 > 65535 then some .silencerCompletionTimeOutOfRange
  else none

-- ------------------------------------------------------------------------------------------------
-- scanning focal points

theorem patternBad_iff (pts : Points) (i n : Nat) :
    patternBad pts i n = true ↔ ∃ j, j < n ∧ focusBad (pts i j) = true := by
  induction n with
  | zero => simp [patternBad]
  | succ n ih =>
    simp only [patternBad, Bool.or_eq_true, ih]
    constructor
    · rintro (⟨j, hj, hb⟩ | h)
      · exact ⟨j, by omega, hb⟩
      · exact ⟨n, by omega, h⟩
    · rintro ⟨j, hj, hb⟩
      by_cases hjn : j = n
      · subst hjn; right; exact hb
      · left; exact ⟨j, by omega, hb⟩

theorem scanBad_false (pts : Points) (n : Nat) : ∀ (cnt from_ : Nat), scanBad pts n from_ cnt = false →
    ∀ i, from_ ≤ i → i < from_ + cnt → patternBad pts i n = false := by
  intro cnt
  induction cnt with
  | zero => intro f _ i h1 h2; omega
  | succ c ih =>
    intro f h i h1 h2
    simp only [scanBad, Bool.or_eq_false_iff] at h
    by_cases hi : i = f
    · subst hi; exact h.1
    · exact ih (f + 1) h.2 i (by omega) (by omega)

theorem focusBad_iff (p : P3) : focusBad p = true ↔ createFocus p = .error .fociStmPointOutOfRange := by
  unfold focusBad createFocus
  obtain ⟨x, y, z⟩ := p
  simp only []
  split <;> rename_i h <;> revert h <;> (repeat' split) <;> simp

-- ------------------------------------------------------------------------------------------------
-- the send loop for a single datagram

@[simp] theorem isDone_null : Op.null.isDone = true := rfl
@[simp] theorem isDone_foci (n size sent : Nat) (cfg : SCfg) (pts : Points) :
    (Op.foci n size sent cfg pts).isDone = (size == sent) := rfl
@[simp] theorem isDone_gstm (m size sent : Nat) (cfg : SCfg) :
    (Op.gstm m size sent cfg).isDone = (sent == size) := rfl
@[simp] theorem isDone_mod (len sent : Nat) (d : Bool) (cfg : SCfg) : (Op.mod len sent d cfg).isDone = d := rfl
@[simp] theorem isDone_gain (tr : Option Nat) (d : Bool) : (Op.gain tr d).isDone = d := rfl
@[simp] theorem isDone_swapGain (m : Nat) (d : Bool) : (Op.swapGain m d).isDone = d := rfl
@[simp] theorem isDone_swapOther (d : Bool) : (Op.swapOther d).isDone = d := rfl
@[simp] theorem isDone_silTime (i p : Nat) (d : Bool) : (Op.silTime i p d).isDone = d := rfl
@[simp] theorem isDone_simple (sz : Nat) (d : Bool) : (Op.simple sz d).isDone = d := rfl

/-- one iteration of the send loop for a single datagram (`O2 = NullOp`) -/
theorem sendLoop_single_step (numTr fuel : Nat) (o1 : Op) (frames : Nat) (hd : o1.isDone = false) :
    sendLoop numTr (fuel + 1) o1 .null frames =
      match o1.pack numTr payloadSize with
      | .err e => (.err e, frames)
      | .panic s => (.panic s, frames)
      | .ok (o1', _) =>
        if o1'.isDone then (.ok (), frames + 1) else sendLoop numTr fuel o1' .null (frames + 1) := by
  rw [sendLoop, packOp2, hd, isDone_null]
  cases o1.pack numTr payloadSize with
  | ok a => simp [Res.bind]
  | err k => simp [Res.bind]
  | panic s => simp [Res.bind]

/-- a first `pack` that refuses ends the send of a tuple with no frame, whatever the other member is -/
theorem sendLoop_first_refuses (numTr fuel : Nat) (o1 o2 : Op) (k : ErrKind) (hd : o1.isDone = false)
    (hp : o1.pack numTr payloadSize = .err k) :
    sendLoop numTr (fuel + 1) o1 o2 0 = (.err k, 0) := by
  rw [sendLoop, packOp2, hd]
  cases o2.isDone <;> simp [hp, Res.bind]

/-- the second member refuses inside the first frame when it fits behind the first member -/
theorem sendLoop_second_refuses (numTr fuel : Nat) (o1 o1' o2 : Op) (s1 : Nat) (k : ErrKind)
    (hd1 : o1.isDone = false) (hd2 : o2.isDone = false)
    (hp1 : o1.pack numTr payloadSize = .ok (o1', s1)) (hs : s1 ≤ payloadSize)
    (hfit : payloadSize - s1 ≥ o2.required numTr)
    (hp2 : o2.pack numTr (payloadSize - s1) = .err k) :
    sendLoop numTr (fuel + 1) o1 o2 0 = (.err k, 0) := by
  rw [sendLoop, packOp2, hd1, hd2]
  have h1 : ¬ payloadSize < s1 := by omega
  simp [hp1, Res.bind, h1, hfit, hp2]

-- ------------------------------------------------------------------------------------------------
-- FociSTM frame loop

/-- patterns the next frame of a `FociSTM` operation carries -/
def fociSendNum (n size sent : Nat) : Nat :=
  min (size - sent)
    ((payloadSize - if sent = 0 then DrvLayout.FociSTMHead_size else DrvLayout.FociSTMSubseq_size) / (8 * n))

theorem fociSendNum_pos (n size sent : Nat) (hn : 1 ≤ n ∧ n ≤ 8) (hs : sent < size) :
    1 ≤ fociSendNum n size sent ∧ fociSendNum n size sent ≤ size - sent := by
  unfold fociSendNum
  have h8 : 0 < 8 * n := by omega
  have hd : 1 ≤ (payloadSize - if sent = 0 then DrvLayout.FociSTMHead_size else DrvLayout.FociSTMSubseq_size) / (8 * n) := by
    rw [Nat.le_div_iff_mul_le h8]
    simp only [payloadSize, EC_OUTPUT_FRAME_SIZE, DrvLayout.Header_size, DrvLayout.FociSTMHead_size, DrvLayout.FociSTMSubseq_size]
    split <;> omega
  refine ⟨?_, Nat.min_le_left _ _⟩
  rw [Nat.le_min]; omega

/-- bytes the next frame of a `FociSTM` operation occupies -/
def fociFrameSize (n size sent : Nat) : Nat :=
  (if sent = 0 then DrvLayout.FociSTMHead_size else DrvLayout.FociSTMSubseq_size) + 8 * fociSendNum n size sent * n

theorem foci_pack (numTr n size sent : Nat) (cfg : SCfg) (pts : Points)
    (hn : 1 ≤ n ∧ n ≤ FOCI_STM_FOCI_NUM_MAX)
    (ht : STM_BUF_SIZE_MIN ≤ size * n ∧ size * n ≤ FOCI_STM_BUF_SIZE_MAX)
    (hc : cfg.validate = .ok ()) :
    Op.pack numTr payloadSize (.foci n size sent cfg pts) =
      if scanBad pts n sent (fociSendNum n size sent) then .err .fociStmPointOutOfRange
      else .ok (.foci n size (sent + fociSendNum n size sent) cfg pts, fociFrameSize n size sent) := by
  have hn' : ¬ (n = 0 ∨ n > FOCI_STM_FOCI_NUM_MAX) := by omega
  have ht' : ¬ (size * n < STM_BUF_SIZE_MIN ∨ size * n > FOCI_STM_BUF_SIZE_MAX) := by omega
  have hav : ¬ (payloadSize < if sent = 0 then DrvLayout.FociSTMHead_size else DrvLayout.FociSTMSubseq_size) := by
    simp only [payloadSize, EC_OUTPUT_FRAME_SIZE, DrvLayout.Header_size, DrvLayout.FociSTMHead_size, DrvLayout.FociSTMSubseq_size]
    split <;> omega
  simp only [Op.pack, hn', ht', hav, if_false, hc, fociSendNum, fociFrameSize]
  by_cases hb : scanBad pts n sent (min (size - sent)
      ((payloadSize - if sent = 0 then DrvLayout.FociSTMHead_size else DrvLayout.FociSTMSubseq_size) / (8 * n))) = true
  · simp [hb]
  · simp only [hb]
    by_cases h0 : sent = 0
    · simp [h0]
    · simp [h0]

/-- the first frame of a FociSTM never uses the last 6 bytes of the payload (598 = 8·74 + 6) -/
theorem fociFrameSize_first_le (n size : Nat) (hn : 1 ≤ n) : fociFrameSize n size 0 + 6 ≤ payloadSize := by
  unfold fociFrameSize fociSendNum
  simp only [if_true]
  have h8 : 0 < 8 * n := by omega
  generalize hq : (payloadSize - DrvLayout.FociSTMHead_size) / (8 * n) = q
  have hq2 : q * (8 * n) ≤ payloadSize - DrvLayout.FociSTMHead_size := by
    rw [← hq]; exact Nat.div_mul_le_self _ _
  have hm : min (size - 0) q ≤ q := Nat.min_le_right _ _
  have hmul : min (size - 0) q * n ≤ q * n := Nat.mul_le_mul_right _ hm
  have e1 : 8 * min (size - 0) q * n = 8 * (min (size - 0) q * n) := by rw [Nat.mul_assoc]
  have e2 : q * (8 * n) = 8 * (q * n) := by rw [Nat.mul_left_comm]
  rw [e1]; rw [e2] at hq2
  generalize min (size - 0) q * n = a at *
  generalize q * n = b at *
  simp only [payloadSize, EC_OUTPUT_FRAME_SIZE, DrvLayout.Header_size, DrvLayout.FociSTMHead_size] at *
  omega

/-- a FociSTM operation with a refused point somewhere ahead ends in `FociSTMPointOutOfRange` -/
theorem foci_loop_bad (numTr n size : Nat) (cfg : SCfg) (pts : Points)
    (hn : 1 ≤ n ∧ n ≤ FOCI_STM_FOCI_NUM_MAX)
    (ht : STM_BUF_SIZE_MIN ≤ size * n ∧ size * n ≤ FOCI_STM_BUF_SIZE_MAX)
    (hc : cfg.validate = .ok ()) :
    ∀ (fuel sent frames : Nat), sent < size → (∃ i, sent ≤ i ∧ i < size ∧ patternBad pts i n = true) →
      size - sent ≤ fuel →
      (sendLoop numTr fuel (.foci n size sent cfg pts) .null frames).1 = .err .fociStmPointOutOfRange := by
  intro fuel
  induction fuel with
  | zero => intro sent frames h1 _ h3; omega
  | succ fuel ih =>
    intro sent frames h1 ⟨i, hi1, hi2, hib⟩ h3
    have hne : (size == sent) = false := by simp; omega
    have hp := foci_pack numTr n size sent cfg pts hn ht hc
    have hpos := fociSendNum_pos n size sent (by simpa [FOCI_STM_FOCI_NUM_MAX] using hn) h1
    rw [sendLoop_single_step _ _ _ _ (by simpa using hne), hp]
    by_cases hb : scanBad pts n sent (fociSendNum n size sent) = true
    · simp [hb]
    · simp only [hb]
      have hnb := scanBad_false pts n _ _ (by simpa using hb) i hi1
      have hi3 : sent + fociSendNum n size sent ≤ i := by
        refine Nat.le_of_not_lt fun hlt => ?_
        have := hnb hlt
        rw [this] at hib; cases hib
      have hne' : (size == sent + fociSendNum n size sent) = false := by simp; omega
      simp only [Bool.false_eq_true, if_false, isDone_foci, hne']
      exact ih _ _ (by omega) ⟨i, hi3, hi2, hib⟩ (by omega)

-- ------------------------------------------------------------------------------------------------
-- datagrams that are refused by the first `pack` of their operation (validated lazily)

/-- the error with which the first `pack` of the datagram's operation refuses, if it does -/
def Dg1.lazyErr : Dg1 → Option ErrKind
  | .modulation len cfg =>
    if len < MOD_BUF_SIZE_MIN ∨ len > MOD_BUF_SIZE_MAX then some .modulationSizeOutOfRange
    else match cfg.validate with
      | .error k => some k
      | .ok _ => none
  | .gain (some m) => if m ≠ TRANSITION_MODE_IMMEDIATE then some .invalidTransitionMode else none
  | .swapGain m => if m ≠ TRANSITION_MODE_IMMEDIATE then some .invalidTransitionMode else none
  | .silencerTime i p =>
    match silencerSteps i with
    | .error e => some e
    | .ok _ => match silencerSteps p with
      | .error e => some e
      | .ok _ => none
  | _ => none

/-- such a datagram yields an operation that is not done and refuses in any slot it is packed into -/
theorem lazyErr_pack (numTr : Nat) (d : Dg1) (k : ErrKind) (h : d.lazyErr = some k) :
    ∃ o, d.generate = .ok o ∧ o.isDone = false ∧
      ∀ avail, (DrvLayout.ModulationHead_size ≤ avail ∨ o.required numTr ≤ avail) →
        o.pack numTr avail = .err k := by
  cases d with
  | modulation len cfg =>
    refine ⟨_, rfl, rfl, ?_⟩
    intro avail hav
    simp only [Op.required, if_true, DrvLayout.ModulationHead_size] at hav
    have hav : 16 ≤ avail := by omega
    simp only [Dg1.lazyErr] at h
    by_cases hl : len < MOD_BUF_SIZE_MIN ∨ len > MOD_BUF_SIZE_MAX
    · simp only [hl, if_true, Option.some.injEq] at h
      simp [Op.pack, hl, h]
    · simp only [hl, if_false] at h
      have h16 : ¬ avail < 16 := by omega
      cases hv : cfg.validate with
      | error e =>
        rw [hv] at h
        simp only [Option.some.injEq] at h
        simp [Op.pack, hl, hv, h, DrvLayout.ModulationHead_size, h16]
      | ok u => rw [hv] at h; cases h
  | gain tr =>
    cases tr with
    | none => simp [Dg1.lazyErr] at h
    | some m =>
      refine ⟨_, rfl, rfl, ?_⟩
      intro avail _
      simp only [Dg1.lazyErr] at h
      by_cases hm : m ≠ TRANSITION_MODE_IMMEDIATE
      · rw [if_pos hm] at h
        simp only [Option.some.injEq] at h
        simp [Op.pack, hm, h]
      · rw [if_neg hm] at h; cases h
  | swapGain m =>
    refine ⟨_, rfl, rfl, ?_⟩
    intro avail _
    simp only [Dg1.lazyErr] at h
    by_cases hm : m ≠ TRANSITION_MODE_IMMEDIATE
    · rw [if_pos hm] at h
      simp only [Option.some.injEq] at h
      simp [Op.pack, hm, h]
    · rw [if_neg hm] at h; cases h
  | silencerTime i p =>
    refine ⟨_, rfl, rfl, ?_⟩
    intro avail _
    simp only [Dg1.lazyErr] at h
    cases hi : silencerSteps i with
    | error e =>
      rw [hi] at h; simp only [Option.some.injEq] at h
      simp [Op.pack, hi, h]
    | ok v =>
      rw [hi] at h
      cases hp : silencerSteps p with
      | error e =>
        rw [hp] at h; simp only [Option.some.injEq] at h
        simp [Op.pack, hi, hp, h]
      | ok w => rw [hp] at h; cases h
  | fociStm n size cfg pts => simp [Dg1.lazyErr] at h
  | gainStm m size cfg => simp [Dg1.lazyErr] at h
  | swapOther => simp [Dg1.lazyErr] at h
  | simple sz => simp [Dg1.lazyErr] at h

/-- `Op.work` is positive for every operation a datagram generates -/
theorem work_pos_of_generate (d : Dg1) (o : Op) (h : d.generate = .ok o) : 1 ≤ o.work := by
  cases d with
  | modulation len cfg => simp [Dg1.generate] at h; subst h; simp [Op.work]
  | fociStm n size cfg pts =>
    simp only [Dg1.generate] at h
    split at h
    · cases h
    · split at h
      · cases h
      · cases hc : cfg.intoSamplingConfig size with
        | ok sc =>
          simp only [hc, Res.bind] at h
          split at h
          · cases h
          · simp only [Res.ok.injEq] at h; subst h; simp [Op.work]
        | err k => simp [hc, Res.bind] at h
        | panic s => simp [hc, Res.bind] at h
  | gainStm m size cfg =>
    simp only [Dg1.generate] at h
    split at h
    · cases h
    · cases hc : cfg.intoSamplingConfig size with
      | ok sc =>
        simp only [hc, Res.bind] at h
        split at h
        · cases h
        · simp only [Res.ok.injEq] at h; subst h; simp [Op.work]
      | err k => simp [hc, Res.bind] at h
      | panic s => simp [hc, Res.bind] at h
  | gain tr => simp [Dg1.generate] at h; subst h; simp [Op.work]
  | swapGain m => simp [Dg1.generate] at h; subst h; simp [Op.work]
  | swapOther => simp [Dg1.generate] at h; subst h; simp [Op.work]
  | silencerTime i p => simp [Dg1.generate] at h; subst h; simp [Op.work]
  | simple sz => simp [Dg1.generate] at h; subst h; simp [Op.work]

/-- what `generate` returns for a FociSTM: the checks it has passed -/
theorem generate_foci (n size : Nat) (cfg : StmCfg) (pts : Points) (o : Op)
    (h : (Dg1.fociStm n size cfg pts).generate = .ok o) :
    ∃ sc, o = .foci n size 0 sc pts ∧ (1 ≤ n ∧ n ≤ FOCI_STM_FOCI_NUM_MAX) ∧
      (STM_BUF_SIZE_MIN ≤ size * n ∧ size * n ≤ FOCI_STM_BUF_SIZE_MAX) ∧ sc.validate = .ok () := by
  simp only [Dg1.generate] at h
  split at h
  · cases h
  · rename_i hn
    split at h
    · cases h
    · rename_i ht
      cases hc : cfg.intoSamplingConfig size with
      | ok sc =>
        simp only [hc, Res.bind] at h
        split at h
        · cases h
        · rename_i u hv
          simp only [Res.ok.injEq] at h
          exact ⟨sc, h.symm, by omega, by omega, by cases u; exact hv⟩
      | err k => simp [hc, Res.bind] at h
      | panic s => simp [hc, Res.bind] at h

theorem generate_gstm (mode size : Nat) (cfg : StmCfg) (o : Op)
    (h : (Dg1.gainStm mode size cfg).generate = .ok o) :
    ∃ sc, o = .gstm mode size 0 sc ∧ (STM_BUF_SIZE_MIN ≤ size ∧ size ≤ GAIN_STM_BUF_SIZE_MAX) ∧
      sc.validate = .ok () := by
  simp only [Dg1.generate] at h
  split at h
  · cases h
  · rename_i ht
    cases hc : cfg.intoSamplingConfig size with
    | ok sc =>
      simp only [hc, Res.bind] at h
      split at h
      · cases h
      · rename_i u hv
        simp only [Res.ok.injEq] at h
        exact ⟨sc, h.symm, by omega, by cases u; exact hv⟩
    | err k => simp [hc, Res.bind] at h
    | panic s => simp [hc, Res.bind] at h

/-- a freshly generated operation is never already done (this is what fix-1 establishes for empty STMs) -/
theorem generate_not_done (d : Dg1) (o : Op) (h : d.generate = .ok o) : o.isDone = false := by
  cases d with
  | fociStm n size cfg pts =>
    obtain ⟨sc, rfl, hn, ht, _⟩ := generate_foci n size cfg pts o h
    simp only [isDone_foci, STM_BUF_SIZE_MIN] at *
    rcases Nat.eq_zero_or_pos size with h0 | h0
    · subst h0; omega
    · simp; omega
  | gainStm m size cfg =>
    obtain ⟨sc, rfl, ht, _⟩ := generate_gstm m size cfg o h
    simp only [isDone_gstm, STM_BUF_SIZE_MIN] at *
    simp; omega
  | modulation len cfg => simp [Dg1.generate] at h; subst h; rfl
  | gain tr => simp [Dg1.generate] at h; subst h; rfl
  | swapGain m => simp [Dg1.generate] at h; subst h; rfl
  | swapOther => simp [Dg1.generate] at h; subst h; rfl
  | silencerTime i p => simp [Dg1.generate] at h; subst h; rfl
  | simple sz => simp [Dg1.generate] at h; subst h; rfl

theorem gstm_pack_size (numTr avail m size sent : Nat) (cfg : SCfg) (o' : Op) (s : Nat)
    (hp : Op.pack numTr avail (.gstm m size sent cfg) = .ok (o', s)) :
    s = (if sent = 0 then DrvLayout.GainSTMHead_size else DrvLayout.GainSTMSubseq_size) + numTr * 2 := by
  simp only [Op.pack] at hp
  repeat' (split at hp)
  all_goals cases hp
  all_goals simp_all

theorem mod_pack_size (numTr avail len : Nat) (d : Bool) (cfg : SCfg) (o' : Op) (s : Nat)
    (hp : Op.pack numTr avail (.mod len 0 d cfg) = .ok (o', s)) :
    s ≤ DrvLayout.ModulationHead_size + 254 := by
  simp only [Op.pack, if_true] at hp
  repeat' (split at hp)
  all_goals cases hp
  all_goals omega

theorem gain_pack_size (numTr avail : Nat) (tr : Option Nat) (d : Bool) (o' : Op) (s : Nat)
    (hp : Op.pack numTr avail (.gain tr d) = .ok (o', s)) : s = DrvLayout.Gain_size + numTr * 2 := by
  cases tr <;> simp only [Op.pack] at hp <;> repeat' (split at hp)
  all_goals cases hp
  all_goals rfl

theorem small_pack_size (numTr avail : Nat) (o o' : Op) (s : Nat)
    (ho : (∃ m d, o = .swapGain m d) ∨ (∃ d, o = .swapOther d) ∨ (∃ i p d, o = .silTime i p d))
    (hp : Op.pack numTr avail o = .ok (o', s)) : s ≤ 16 := by
  rcases ho with ⟨m, d, rfl⟩ | ⟨d, rfl⟩ | ⟨i, p, d, rfl⟩ <;> simp only [Op.pack] at hp <;> repeat' (split at hp)
  all_goals cases hp
  all_goals simp [DrvLayout.SwapSegmentT_size, DrvLayout.SwapSegmentTWithTransition_size, SilencerFixedCompletionTime_size]
/-- the first frame of any generated operation leaves room for the 6 bytes of a silencer
configuration (devices have at most 249 transducers; `simple` stands for the fixed-size datagrams,
the largest of which — the pulse-width table — takes 514 bytes) -/
theorem first_pack_leaves_room (numTr : Nat) (a : Dg1) (oa oa' : Op) (s1 : Nat) (hnt : numTr ≤ 249)
    (hsz : ∀ sz, a = .simple sz → sz + 6 ≤ payloadSize)
    (ha : a.generate = .ok oa) (hp : oa.pack numTr payloadSize = .ok (oa', s1)) :
    s1 + 6 ≤ payloadSize := by
  have hP : payloadSize = 622 := rfl
  cases a with
  | fociStm n size cfg pts =>
    obtain ⟨sc, rfl, hn, ht, hv⟩ := generate_foci n size cfg pts oa ha
    rw [foci_pack numTr n size 0 sc pts hn ht hv] at hp
    split at hp
    · cases hp
    · simp only [Res.ok.injEq, Prod.mk.injEq] at hp
      rw [← hp.2]
      exact fociFrameSize_first_le n size hn.1
  | gainStm m size cfg =>
    obtain ⟨sc, rfl, ht, hv⟩ := generate_gstm m size cfg oa ha
    have := gstm_pack_size _ _ _ _ _ _ _ _ hp
    simp only [if_true, DrvLayout.GainSTMHead_size] at this
    omega
  | modulation len cfg =>
    simp [Dg1.generate] at ha; subst ha
    have := mod_pack_size _ _ _ _ _ _ _ hp
    simp only [DrvLayout.ModulationHead_size] at this
    omega
  | gain tr =>
    simp [Dg1.generate] at ha; subst ha
    have := gain_pack_size _ _ _ _ _ _ hp
    simp only [DrvLayout.Gain_size] at this
    omega
  | swapGain m =>
    simp [Dg1.generate] at ha; subst ha
    have := small_pack_size _ _ _ _ _ (Or.inl ⟨_, _, rfl⟩) hp
    omega
  | swapOther =>
    simp [Dg1.generate] at ha; subst ha
    have := small_pack_size _ _ _ _ _ (Or.inr (Or.inl ⟨_, rfl⟩)) hp
    omega
  | silencerTime i p =>
    simp [Dg1.generate] at ha; subst ha
    have := small_pack_size _ _ _ _ _ (Or.inr (Or.inr ⟨_, _, _, rfl⟩)) hp
    omega
  | simple sz =>
    have := hsz sz rfl
    simp [Dg1.generate] at ha; subst ha
    simp only [Op.pack, Res.ok.injEq, Prod.mk.injEq] at hp
    omega

end Autd3.Reject
