import Autd3.Lemmas.P02Mod
/-!
# `write_foci_stm`: frame of `stm_segment_update`, closed form of an accepted BEGIN frame, cursor reset
-/
namespace Autd3.P02
open Autd3 Autd3.Fw Autd3.Gen.Cpu Autd3.Gen

theorem fpga_frame_stm (s s' : State) (t : Nat)
    (h1 : hasFlag (reg s ADDR_CTL_FLAG) CTL_FLAG_MOD_SET = false)
    (h2 : hasFlag (reg s ADDR_CTL_FLAG) CTL_FLAG_STM_SET = true)
    (hr : fpgaSetAndWaitUpdate s t = .ok s') : s' = { s with stmSwap := s'.stmSwap } := by
  unfold fpgaSetAndWaitUpdate at hr
  simp only [h1, h2, if_true, Bool.false_eq_true, if_false] at hr
  cases hseg : segReg s ADDR_STM_REQ_RD_SEGMENT "req_stm_segment" with
  | error e => simp [hseg, bind, Except.bind, pure, Except.pure] at hr
  | ok seg =>
    cases hmode : decodeTMode (reg s ADDR_STM_TRANSITION_MODE) (reg64 s ADDR_STM_TRANSITION_VALUE_0) "stm_transition_mode" with
    | error e => simp [hseg, hmode, bind, Except.bind, pure, Except.pure] at hr
    | ok mode =>
      cases hset : s.stmSwap.set t (reg s (ADDR_STM_REP0 + seg)) (reg s (ADDR_STM_FREQ_DIV0 + seg))
                (reg s (ADDR_STM_CYCLE0 + seg) + 1) seg mode with
      | error e => simp [hseg, hmode, hset, bind, Except.bind, pure, Except.pure] at hr
      | ok w =>
        simp [hseg, hmode, hset, bind, Except.bind, pure, Except.pure] at hr
        subst hr
        rfl

theorem saw_frame_stm (s s' : State) (flag : Nat) (hsz : s.ctl.size = 256)
    (h1 : hasFlag ((s.flagsInternal ||| flag) % 65536) CTL_FLAG_MOD_SET = false)
    (h2 : hasFlag ((s.flagsInternal ||| flag) % 65536) CTL_FLAG_STM_SET = true)
    (hr : setAndWaitUpdate s flag = .ok s') :
    s' = { s with ctl := s.ctl.setIfInBounds 0 (s.flagsInternal % 65536), stmSwap := s'.stmSwap } := by
  rw [setAndWaitUpdate_eq] at hr
  obtain ⟨s2, hf, h3⟩ := bind_eq_ok hr
  have := fpga_frame_stm _ _ _ (by simp [reg, ADDR_CTL_FLAG, rd_set, hsz, h1]) (by simp [reg, ADDR_CTL_FLAG, rd_set, hsz, h2]) hf
  simp only [Except.ok.injEq] at h3
  rw [← h3, this]
  simp

/-- frame of `stm_segment_update`: only CTL_FLAG, STM_REQ_RD_SEGMENT, the STM transition registers and the
STM swap chain can change -/
theorem stmSegmentUpdate_frame (s s' : State) (seg mode value a : Nat) (h : WF s)
    (hr : stmSegmentUpdate s seg mode value = .ok (s', a)) :
    s' = { s with ctl := s'.ctl, stmSwap := s'.stmSwap } ∧ s'.ctl.size = 256 ∧
      ∀ j, j ≠ 0 → j ≠ 82 → ¬(95 ≤ j ∧ j ≤ 99) → rd s'.ctl j = rd s.ctl j := by
  unfold stmSegmentUpdate at hr
  simp only [ctlWrite_main _ ADDR_STM_REQ_RD_SEGMENT _ (by decide), ok_bind] at hr
  split at hr
  · simp only [pure, Except.pure, Except.ok.injEq, Prod.mk.injEq] at hr
    obtain ⟨hr, _⟩ := hr
    subst hr
    refine ⟨rfl, by simp [h.ctl], ?_⟩
    intro j h0 h82 _
    simp [rd_set, ADDR_STM_REQ_RD_SEGMENT, h82]
  · simp only [ctlWrite_main _ ADDR_STM_TRANSITION_MODE _ (by decide), ok_bind,
      ctlWriteWords_main _ ADDR_STM_TRANSITION_VALUE_0 (u64Words value) (by rw [size_u64Words]; decide),
      size_u64Words] at hr
    obtain ⟨s4, h4, h5⟩ := bind_eq_ok hr
    simp only [pure, Except.pure, Except.ok.injEq, Prod.mk.injEq] at h5
    obtain ⟨h5, _⟩ := h5
    subst h5
    have hf := flags_stm_req s.flagsInternal h.flags
    have := saw_frame_stm _ _ _ (by simp [h.ctl]) (by exact hf.1) (by exact hf.2) h4
    rw [this]
    refine ⟨rfl, by simp [h.ctl], ?_⟩
    intro j h0 h82 h95
    simp only [rd_set, rd_writeLoop, ADDR_STM_REQ_RD_SEGMENT, ADDR_STM_TRANSITION_MODE, ADDR_STM_TRANSITION_VALUE_0]
    have e1 : ¬ (j = 95) := by omega
    simp [h0, h82, e1]
    omega

/-- `write_foci_stm`, END / UPDATE handling -/
def fociTail (s : State) (d : Array Nat) : M (State × Nat) := do
  let flag := u8at d FwLayout.FociSTMSubseq_flag_off
  let segment := u8at d FwLayout.FociSTMSubseq_segment_off
  if hasFlag flag FOCI_STM_FLAG_END then
    if segment > 1 then .error (.index "write_foci_stm: stm_mode[segment]") else
    if s.numFoci = 0 then .error (.divZero "write_foci_stm: stm_write / num_foci") else
    let s := { s with stmMode := setSel s.stmMode segment STM_MODE_FOCUS,
                      stmCycle := setSel s.stmCycle segment (s.stmWrite / s.numFoci) }
    let s ← ctlWrite s (ADDR_STM_CYCLE0 + segment) ((max (sel s.stmCycle segment) 1 - 1) % 65536)
    if hasFlag flag FOCI_STM_FLAG_UPDATE then
      stmSegmentUpdate s segment s.stmTrMode s.stmTrValue
    else pure (s, NO_ERR)
  else pure (s, NO_ERR)

/-- the words of a BEGIN FociSTM frame -/
def fociBeginWords (d : Array Nat) : Array Nat :=
  wordsAt d FwLayout.FociSTMHead_size
    (u8at d FwLayout.FociSTMSubseq_send_num_off * u8at d FwLayout.FociSTMHead_num_foci_off * 4)

/-- state after the header and the data copy of an accepted BEGIN FociSTM frame (all points in page 0) -/
def fociBeginRes (s : State) (d : Array Nat) : State :=
  let seg := u8at d FwLayout.FociSTMSubseq_segment_off
  let ws := fociBeginWords d
  { s with stmSegment := if u8at d FwLayout.FociSTMHead_transition_mode_off ≠ TRANSITION_MODE_NONE then seg else s.stmSegment,
           stmWrite := u8at d FwLayout.FociSTMSubseq_send_num_off * u8at d FwLayout.FociSTMHead_num_foci_off,
           stmRep := setSel s.stmRep seg (u16at d FwLayout.FociSTMHead_rep_off),
           stmTrMode := u8at d FwLayout.FociSTMHead_transition_mode_off,
           stmTrValue := u64at d FwLayout.FociSTMHead_transition_value_off,
           stmDiv := setSel s.stmDiv seg (u16at d FwLayout.FociSTMHead_freq_div_off),
           numFoci := u8at d FwLayout.FociSTMHead_num_foci_off,
           ctl := ((((((s.ctl.setIfInBounds (ADDR_STM_FREQ_DIV0 + seg) (u16at d FwLayout.FociSTMHead_freq_div_off % 65536)).setIfInBounds
                      (ADDR_STM_MODE0 + seg) (STM_MODE_FOCUS % 65536)).setIfInBounds
                      (ADDR_STM_SOUND_SPEED0 + seg) (u16at d FwLayout.FociSTMHead_sound_speed_off % 65536)).setIfInBounds
                      (ADDR_STM_REP0 + seg) (u16at d FwLayout.FociSTMHead_rep_off % 65536)).setIfInBounds
                      (ADDR_STM_NUM_FOCI0 + seg) (u8at d FwLayout.FociSTMHead_num_foci_off % 65536)).setIfInBounds
                      ADDR_STM_MEM_WR_SEGMENT (seg % 65536)).setIfInBounds ADDR_STM_MEM_WR_PAGE 0,
           stmMem0 := if seg = 0 then writeLoop s.stmMem0 0 (fun i => rd ws i % 65536) ws.size else s.stmMem0,
           stmMem1 := if seg = 0 then s.stmMem1 else writeLoop s.stmMem1 0 (fun i => rd ws i % 65536) ws.size }

theorem writeFociStm_begin (s : State) (d : Array Nat) (hs : Sized s)
    (hB : hasFlag (u8at d FwLayout.FociSTMSubseq_flag_off) FOCI_STM_FLAG_BEGIN = true)
    (hv1 : validateTransitionMode s.stmSegment (u8at d FwLayout.FociSTMSubseq_segment_off) (u16at d FwLayout.FociSTMHead_rep_off)
        (u8at d FwLayout.FociSTMHead_transition_mode_off) = false)
    (hv2 : validateSilencerSettings s (u16at d FwLayout.FociSTMHead_freq_div_off) (sel s.modDiv s.modSegment) = false)
    (hseg : u8at d FwLayout.FociSTMSubseq_segment_off ≤ 1)
    (hsize : u8at d FwLayout.FociSTMSubseq_send_num_off * u8at d FwLayout.FociSTMHead_num_foci_off < 4096) :
    writeFociStm s d = fociTail (fociBeginRes s d) d := by
  unfold writeFociStm
  have hseg' : ¬ (u8at d FwLayout.FociSTMSubseq_segment_off > 1) := by omega
  simp only [hB, ↓reduceIte, hv1, hv2, Bool.false_eq_true, hseg']
  unfold fociTail fociBeginRes fociBeginWords
  simp only [hseg', ↓reduceIte]
  generalize u8at d FwLayout.FociSTMSubseq_segment_off = seg at *
  have a1 : ADDR_STM_FREQ_DIV0 + seg < 256 := by simp only [ADDR_STM_FREQ_DIV0]; omega
  have a2 : ADDR_STM_MODE0 + seg < 256 := by simp only [ADDR_STM_MODE0]; omega
  have a3 : ADDR_STM_SOUND_SPEED0 + seg < 256 := by simp only [ADDR_STM_SOUND_SPEED0]; omega
  have a4 : ADDR_STM_REP0 + seg < 256 := by simp only [ADDR_STM_REP0]; omega
  have a5 : ADDR_STM_NUM_FOCI0 + seg < 256 := by simp only [ADDR_STM_NUM_FOCI0]; omega
  have hcap : FOCI_STM_BUF_PAGE_SIZE - (0 % 65536 &&& FOCI_STM_BUF_PAGE_SIZE_MASK) = 4096 := by decide
  have hb0 : (0 % 65536 &&& FOCI_STM_BUF_PAGE_SIZE_MASK) <<< 2 % 65536 = 0 := by decide
  have hov : ¬ (u8at d FwLayout.FociSTMSubseq_send_num_off * u8at d FwLayout.FociSTMHead_num_foci_off ≥ 65536) := by omega
  by_cases htm : u8at d FwLayout.FociSTMHead_transition_mode_off ≠ TRANSITION_MODE_NONE
  · simp only [if_pos htm, ctlWrite_main _ _ _ a1, ctlWrite_main _ _ _ a2, ctlWrite_main _ _ _ a3, ctlWrite_main _ _ _ a4,
      ctlWrite_main _ _ _ a5,
      ctlWrite_main _ ADDR_STM_MEM_WR_SEGMENT _ (by decide), ctlWrite_main _ ADDR_STM_MEM_WR_PAGE _ (by decide), ok_bind,
      hcap, hb0, hov, hsize, if_true, if_false]
    rw [stmWriteWords_at _ _ _ seg 0 ?_ ?_ hseg (by rw [size_wordsAt]; omega) (by rw [size_wordsAt]; omega)]
    · simp only [ok_bind, Nat.zero_mul, Nat.zero_mod, Nat.zero_add, Nat.mod_eq_of_lt (show seg < 65536 by omega)]
      rfl
    · simp [reg, rd_set, hs.ctl, ADDR_STM_MEM_WR_SEGMENT, ADDR_STM_MEM_WR_PAGE]; omega
    · simp [reg, rd_set, hs.ctl, ADDR_STM_MEM_WR_SEGMENT, ADDR_STM_MEM_WR_PAGE]
  · simp only [if_neg htm, ctlWrite_main _ _ _ a1, ctlWrite_main _ _ _ a2, ctlWrite_main _ _ _ a3, ctlWrite_main _ _ _ a4,
      ctlWrite_main _ _ _ a5,
      ctlWrite_main _ ADDR_STM_MEM_WR_SEGMENT _ (by decide), ctlWrite_main _ ADDR_STM_MEM_WR_PAGE _ (by decide), ok_bind,
      hcap, hb0, hov, hsize, if_true, if_false]
    rw [stmWriteWords_at _ _ _ seg 0 ?_ ?_ hseg (by rw [size_wordsAt]; omega) (by rw [size_wordsAt]; omega)]
    · simp only [ok_bind, Nat.zero_mul, Nat.zero_mod, Nat.zero_add, Nat.mod_eq_of_lt (show seg < 65536 by omega)]
      rfl
    · simp [reg, rd_set, hs.ctl, ADDR_STM_MEM_WR_SEGMENT, ADDR_STM_MEM_WR_PAGE]; omega
    · simp [reg, rd_set, hs.ctl, ADDR_STM_MEM_WR_SEGMENT, ADDR_STM_MEM_WR_PAGE]

/-- the state after the END frame of a FociSTM write recorded mode / cycle -/
def fociTailState (s : State) (seg : Nat) : State :=
  { s with stmMode := setSel s.stmMode seg STM_MODE_FOCUS,
           stmCycle := setSel s.stmCycle seg (s.stmWrite / s.numFoci),
           ctl := s.ctl.setIfInBounds (ADDR_STM_CYCLE0 + seg)
                    ((max (sel (setSel s.stmCycle seg (s.stmWrite / s.numFoci)) seg) 1 - 1) % 65536) }

theorem wf_fociTailState (s : State) (seg : Nat) (h : WF s) : WF (fociTailState s seg) :=
  { ctl := by simp [fociTailState, h.ctl], phaseCorr := h.phaseCorr, pwe := h.pwe, modMem0 := h.modMem0,
    modMem1 := h.modMem1, stmMem0 := h.stmMem0, stmMem1 := h.stmMem1, numTr := h.numTr, modSwap := h.modSwap,
    stmSwap := h.stmSwap, flags := h.flags }

theorem fociTail_eq (s : State) (d : Array Nat) (hseg : u8at d FwLayout.FociSTMSubseq_segment_off ≤ 1) :
    fociTail s d =
      if hasFlag (u8at d FwLayout.FociSTMSubseq_flag_off) FOCI_STM_FLAG_END then
        if s.numFoci = 0 then .error (.divZero "write_foci_stm: stm_write / num_foci")
        else if hasFlag (u8at d FwLayout.FociSTMSubseq_flag_off) FOCI_STM_FLAG_UPDATE then
          stmSegmentUpdate (fociTailState s (u8at d FwLayout.FociSTMSubseq_segment_off))
            (u8at d FwLayout.FociSTMSubseq_segment_off) s.stmTrMode s.stmTrValue
        else .ok (fociTailState s (u8at d FwLayout.FociSTMSubseq_segment_off), NO_ERR)
      else .ok (s, NO_ERR) := by
  have hseg' : ¬ (u8at d FwLayout.FociSTMSubseq_segment_off > 1) := by omega
  have a1 : ADDR_STM_CYCLE0 + u8at d FwLayout.FociSTMSubseq_segment_off < 256 := by simp only [ADDR_STM_CYCLE0]; omega
  unfold fociTail fociTailState
  simp only [hseg', ↓reduceIte, ctlWrite_main _ _ _ a1, ok_bind, Nat.mod_mod]
  split
  · split
    · rfl
    · rfl
  · rfl

/-- frame of the END/UPDATE part of a FociSTM write: the write cursor and the write page / segment registers
are not touched -/
theorem fociTail_frame (s s' : State) (d : Array Nat) (a : Nat) (h : WF s)
    (hseg : u8at d FwLayout.FociSTMSubseq_segment_off ≤ 1) (hr : fociTail s d = .ok (s', a)) :
    s'.stmWrite = s.stmWrite ∧ rd s'.ctl 80 = rd s.ctl 80 ∧ rd s'.ctl 81 = rd s.ctl 81 ∧ s'.numFoci = s.numFoci := by
  rw [fociTail_eq s d hseg] at hr
  have hts : ∀ j, j = 80 ∨ j = 81 → rd (fociTailState s (u8at d FwLayout.FociSTMSubseq_segment_off)).ctl j = rd s.ctl j := by
    intro j hj
    have : j ≠ ADDR_STM_CYCLE0 + u8at d FwLayout.FociSTMSubseq_segment_off := by simp only [ADDR_STM_CYCLE0]; omega
    simp [fociTailState, rd_set, this]
  by_cases hE : hasFlag (u8at d FwLayout.FociSTMSubseq_flag_off) FOCI_STM_FLAG_END = true
  · simp only [hE, if_true] at hr
    by_cases hnf : s.numFoci = 0
    · simp [hnf] at hr
    · simp only [hnf, if_false] at hr
      by_cases hU : hasFlag (u8at d FwLayout.FociSTMSubseq_flag_off) FOCI_STM_FLAG_UPDATE = true
      · simp only [hU, if_true] at hr
        obtain ⟨e1, e2, e3⟩ := stmSegmentUpdate_frame _ s' _ _ _ a (wf_fociTailState s _ h) hr
        refine ⟨by rw [e1]; rfl, ?_, ?_, by rw [e1]; rfl⟩
        · rw [e3 80 (by decide) (by decide) (by decide), hts 80 (Or.inl rfl)]
        · rw [e3 81 (by decide) (by decide) (by decide), hts 81 (Or.inr rfl)]
      · simp only [hU, Bool.false_eq_true, if_false, Except.ok.injEq, Prod.mk.injEq] at hr
        obtain ⟨hr, _⟩ := hr
        subst hr
        exact ⟨rfl, hts 80 (Or.inl rfl), hts 81 (Or.inr rfl), rfl⟩
  · simp only [hE, Bool.false_eq_true, if_false, Except.ok.injEq, Prod.mk.injEq] at hr
    obtain ⟨hr, _⟩ := hr
    subst hr
    exact ⟨rfl, rfl, rfl, rfl⟩

theorem wf_fociBeginRes (s : State) (d : Array Nat) (h : WF s) : WF (fociBeginRes s d) := by
  unfold fociBeginRes
  simp only []
  refine { ctl := ?_, phaseCorr := h.phaseCorr, pwe := h.pwe, modMem0 := h.modMem0, modMem1 := h.modMem1, stmMem0 := ?_,
           stmMem1 := ?_, numTr := h.numTr, modSwap := h.modSwap, stmSwap := h.stmSwap, flags := h.flags }
  · simp [h.ctl]
  · show (if _ then _ else _ : Array Nat).size = _
    split <;> simp [h.stmMem0]
  · show (if _ then _ else _ : Array Nat).size = _
    split <;> simp [h.stmMem1]

theorem writeFociStm_rej1 (s : State) (d : Array Nat)
    (hB : hasFlag (u8at d FwLayout.FociSTMSubseq_flag_off) FOCI_STM_FLAG_BEGIN = true)
    (hv1 : validateTransitionMode s.stmSegment (u8at d FwLayout.FociSTMSubseq_segment_off) (u16at d FwLayout.FociSTMHead_rep_off)
        (u8at d FwLayout.FociSTMHead_transition_mode_off) = true) :
    writeFociStm s d = .ok (s, ERR_INVALID_TRANSITION_MODE) := by
  unfold writeFociStm
  simp only [hB, ↓reduceIte, hv1]
  rfl

theorem writeFociStm_rej2 (s : State) (d : Array Nat)
    (hB : hasFlag (u8at d FwLayout.FociSTMSubseq_flag_off) FOCI_STM_FLAG_BEGIN = true)
    (hv1 : validateTransitionMode s.stmSegment (u8at d FwLayout.FociSTMSubseq_segment_off) (u16at d FwLayout.FociSTMHead_rep_off)
        (u8at d FwLayout.FociSTMHead_transition_mode_off) = false)
    (hv2 : validateSilencerSettings s (u16at d FwLayout.FociSTMHead_freq_div_off) (sel s.modDiv s.modSegment) = true) :
    writeFociStm s d = .ok (s, ERR_INVALID_SILENCER_SETTING) := by
  unfold writeFociStm
  simp only [hB, ↓reduceIte, hv1, hv2, Bool.false_eq_true]
  rfl

/-- BEGIN of a FociSTM write: rejected (state untouched), or the cursor / page / segment registers are those
of this frame alone -/
theorem foci_begin_cursor (s s' : State) (d : Array Nat) (a : Nat) (h : WF s)
    (hB : hasFlag (u8at d FwLayout.FociSTMSubseq_flag_off) FOCI_STM_FLAG_BEGIN = true)
    (hseg : u8at d FwLayout.FociSTMSubseq_segment_off ≤ 1)
    (hsize : u8at d FwLayout.FociSTMSubseq_send_num_off * u8at d FwLayout.FociSTMHead_num_foci_off < 4096)
    (hr : writeFociStm s d = .ok (s', a)) :
    (a ≠ NO_ERR ∧ s' = s) ∨
    (s'.stmWrite = u8at d FwLayout.FociSTMSubseq_send_num_off * u8at d FwLayout.FociSTMHead_num_foci_off ∧
      s'.numFoci = u8at d FwLayout.FociSTMHead_num_foci_off ∧
      reg s' ADDR_STM_MEM_WR_PAGE = 0 ∧ reg s' ADDR_STM_MEM_WR_SEGMENT = u8at d FwLayout.FociSTMSubseq_segment_off) := by
  cases hv1 : validateTransitionMode s.stmSegment (u8at d FwLayout.FociSTMSubseq_segment_off) (u16at d FwLayout.FociSTMHead_rep_off)
        (u8at d FwLayout.FociSTMHead_transition_mode_off)
  · cases hv2 : validateSilencerSettings s (u16at d FwLayout.FociSTMHead_freq_div_off) (sel s.modDiv s.modSegment)
    · right
      rw [writeFociStm_begin s d h.toSized hB hv1 hv2 hseg hsize] at hr
      obtain ⟨e1, e2, e3, e4⟩ := fociTail_frame _ _ _ _ (wf_fociBeginRes s d h) hseg hr
      refine ⟨by rw [e1]; rfl, by rw [e4]; rfl, ?_, ?_⟩
      · show rd s'.ctl 81 = 0
        rw [e3]
        simp [fociBeginRes, rd_set, h.ctl, ADDR_STM_MEM_WR_PAGE]
      · show rd s'.ctl 80 = _
        rw [e2]
        simp [fociBeginRes, rd_set, h.ctl, ADDR_STM_MEM_WR_PAGE, ADDR_STM_MEM_WR_SEGMENT]
        omega
    · left
      rw [writeFociStm_rej2 s d hB hv1 hv2] at hr
      simp only [Except.ok.injEq, Prod.mk.injEq] at hr
      exact ⟨by rw [← hr.2]; decide, hr.1.symm⟩
  · left
    rw [writeFociStm_rej1 s d hB hv1] at hr
    simp only [Except.ok.injEq, Prod.mk.injEq] at hr
    exact ⟨by rw [← hr.2]; decide, hr.1.symm⟩

end Autd3.P02
