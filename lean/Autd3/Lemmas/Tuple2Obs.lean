import Autd3.Lemmas.Tuple2Proto
/-!
General tuples: the STM-side read-back comparison shared by the Gain / FociSTM / GainSTM protocol instances.
-/
open Autd3 Autd3.Fw Autd3.Wire Autd3.Gen.Cpu Autd3.Gen Autd3.Rt
namespace Autd3.Tuple2

/-- STM-side read-back of `s'` equals that of `s` (every accessor of Model/Obs.lean that belongs to the STM resource;
drives for the indices below the cycle) -/
structure StmObsEq (s s' : State) : Prop where
  hdr : ∀ g, g ≤ 1 → Obs.isStmGainMode s' g = Obs.isStmGainMode s g ∧ Obs.stmCycle s' g = Obs.stmCycle s g ∧
    Obs.stmDiv s' g = Obs.stmDiv s g ∧ Obs.stmRep s' g = Obs.stmRep s g
  foci : ∀ g, g ≤ 1 → Obs.soundSpeed s' g = Obs.soundSpeed s g ∧ Obs.numFoci s' g = Obs.numFoci s g
  drives : ∀ g, g ≤ 1 → ∀ idx, idx < Obs.stmCycle s g → Obs.drivesAt s' g idx = Obs.drivesAt s g idx
  req : Obs.reqStmSeg s' = Obs.reqStmSeg s
  transition : Obs.stmTransition s' = Obs.stmTransition s
  swap : s'.stmSwap = s.stmSwap

end Autd3.Tuple2
