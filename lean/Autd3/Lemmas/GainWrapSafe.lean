import Autd3.Lemmas.GainWrapTree
namespace Autd3.GainWrap

/-! ### never a panic: any keys, any reachable cache contents -/

/-- rows stored under a device index have that device's length -/
def ShapedStore (geo : Geo) (store : List (Nat × List Drive)) : Prop :=
  ∀ d ∈ geo, ∀ row, store.lookup d.idx = some row → row.length = d.numTr

/-- what every reachable state satisfies (whatever enable masks the caches were filled under) -/
def Shape (geo : Geo) (σ : St) : Prop :=
  ∀ id, ShapedStore geo (σ.caches id).store ∧ ((σ.caches id).taken = false → (σ.caches id).store = [])

/-- every enabled device gets a calculator that answers for each of its transducers -/
def OkGen (geo : Geo) (gen : Gen) : Prop :=
  ∀ d ∈ geo.devices, ∃ c, gen d = .ok c ∧ ∀ t, t < d.numTr → ∃ x, c t = .ok x

/-- a gain that has been taken out of its cache stays taken -/
def Mono (σ σ' : St) : Prop := ∀ id, (σ.caches id).taken = true → (σ'.caches id).taken = true

theorem Mono.refl (σ : St) : Mono σ σ := fun _ h => h
theorem Mono.trans {a b c : St} (h1 : Mono a b) (h2 : Mono b c) : Mono a c := fun id h => h2 id (h1 id h)

/-- `i` never panics: it returns calculators for all enabled devices, or an `Err` -/
def NoPanic (geo : Geo) (i : InitFn) : Prop :=
  ∀ filter par σ, Shape geo σ →
    match i geo filter par σ with
    | (.ok gen, σ') => (Shape geo σ' ∧ Mono σ σ') ∧ OkGen geo gen
    | (.error (.err _), σ') => Shape geo σ' ∧ Mono σ σ'
    | (.error (.panic _), _) => False

/-- a user gain that does not panic itself -/
def LeafSafe (l : LeafGain) (geo : Geo) : Prop :=
  ∀ filter par,
    match l.impl geo filter par with
    | .ok gen => OkGen geo gen
    | .error (.err _) => True
    | .error (.panic _) => False

theorem leaf_noPanic {geo} (l : LeafGain) (h : LeafSafe l geo) : NoPanic geo (leafInit l) := by
  intro filter par σ hS
  have hl := h filter par
  have hS' : Shape geo (match l.tag with
      | some s => { σ with log := σ.log ++ [(s, par, filter)] }
      | none => σ) ∧ Mono σ (match l.tag with
      | some s => { σ with log := σ.log ++ [(s, par, filter)] }
      | none => σ) := by cases l.tag <;> exact ⟨hS, Mono.refl _⟩
  unfold leafInit
  simp only []
  cases hi : l.impl geo filter par with
  | ok gen => rw [hi] at hl; exact ⟨hS', hl⟩
  | error e =>
    rw [hi] at hl
    cases e with
    | err e' => exact hS'
    | panic p => exact hl

theorem boxed_noPanic {geo i} (h : NoPanic geo i) : NoPanic geo (boxedInit i) := by
  intro filter par σ hS
  have hi := h filter par σ hS
  unfold boxedInit
  cases hr : i geo filter par σ with
  | mk res σ' =>
    rw [hr] at hi
    cases res with
    | error e => cases e <;> exact hi
    | ok gen =>
      simp only [] at hi ⊢
      refine ⟨hi.1, ?_⟩
      intro d hd
      obtain ⟨c, hc, hg⟩ := hi.2 d hd
      exact ⟨fun t => c t, by simp [boxGen, hc], hg⟩

theorem mapE_length {α β ε : Type} {f : α → Except ε β} (l : List α) (bs : List β)
    (h : mapE f l = .ok bs) : bs.length = l.length := (mapE_ok_inv l bs h).1

theorem cacheFill_shaped {geo : Geo} (hw : geo.WF) (gen : Gen) :
    ∀ (devs : List Dev) (store : List (Nat × List Drive)),
      (∀ d ∈ devs, d ∈ geo) → (∀ d ∈ devs, ∃ c, gen d = .ok c ∧ ∀ t, t < d.numTr → ∃ x, c t = .ok x) →
      ShapedStore geo store → ∃ store', cacheFill gen devs store = .ok store' ∧ ShapedStore geo store'
  | [], store, _, _, hs => ⟨store, by simp [cacheFill], hs⟩
  | dev :: rest, store, hg, h, hs => by
    unfold cacheFill
    by_cases hk : hasKey store dev.idx = true
    · simp only [hk, if_true]
      exact cacheFill_shaped hw gen rest store (fun d hd => hg d (by simp [hd])) (fun d hd => h d (by simp [hd])) hs
    · simp only [hk, if_false]
      obtain ⟨c, hc, hx⟩ := h dev (by simp)
      rw [hc]
      simp only []
      cases hm : mapE c (List.range dev.numTr) with
      | error p =>
        exfalso
        obtain ⟨t, ht, he⟩ := mapE_error_inv _ _ hm
        obtain ⟨x, hx'⟩ := hx t (List.mem_range.mp ht)
        rw [hx'] at he; cases he
      | ok row =>
        simp only []
        apply cacheFill_shaped hw gen rest _ (fun d hd => hg d (by simp [hd])) (fun d hd => h d (by simp [hd]))
        intro d hd r hl
        rw [lookup_append_single] at hl
        cases hs' : store.lookup d.idx with
        | some y => rw [hs'] at hl; simp at hl; subst hl; exact hs d hd y hs'
        | none =>
          rw [hs'] at hl
          by_cases e : d.idx = dev.idx
          · simp [e] at hl; subst hl
            have : d = dev := Geo.eq_of_idx hw hd (hg dev (by simp)) e
            subst this
            simpa using mapE_length _ _ hm
          · simp [e] at hl

theorem cache_noPanic {geo i} (id : Nat) (hw : geo.WF) (h : NoPanic geo i) : NoPanic geo (cacheInit id i) := by
  -- the final check and the generator, from any shaped state
  have final : ∀ (σ σ1 : St), Shape geo σ1 → Mono σ σ1 →
      match (if cacheMismatch (σ1.caches id).store geo then
          ((.error (.err .cacheGeometry) : Except Fail Gen), σ1)
        else (.ok (cacheGen (σ1.caches id).store), σ1)) with
      | (.ok gen, σ') => (Shape geo σ' ∧ Mono σ σ') ∧ OkGen geo gen
      | (.error (.err _), σ') => Shape geo σ' ∧ Mono σ σ'
      | (.error (.panic _), _) => False := by
    intro σ σ1 hS hM
    by_cases hm : cacheMismatch (σ1.caches id).store geo = true
    · simp only [hm, if_true]; exact ⟨hS, hM⟩
    · simp only [hm, if_false]
      refine ⟨⟨hS, hM⟩, ?_⟩
      intro d hd
      have hm' : cacheMismatch (σ1.caches id).store geo = false := by simpa using hm
      unfold cacheMismatch at hm'
      simp only [Bool.or_eq_false_iff] at hm'
      have hk := (List.any_eq_false.mp hm'.2) d hd
      simp only [Bool.not_eq_true', Bool.not_eq_false] at hk
      rw [hasKey_iff_lookup] at hk
      cases hl : (σ1.caches id).store.lookup d.idx with
      | none => rw [hl] at hk; simp at hk
      | some row =>
        refine ⟨vecCalc row, by simp [cacheGen, hl], ?_⟩
        intro t ht
        have hlen := (hS id).1 d (Geo.mem_devices.mp hd).1 row hl
        have : t < row.length := by omega
        exact ⟨row[t], by simp [vecCalc, List.getElem?_eq_getElem this]⟩
  intro filter par σ hS
  unfold cacheInit
  cases ht : (σ.caches id).taken with
  | true =>
    simp only [ht, if_true]
    exact final σ σ hS (Mono.refl _)
  | false =>
    simp only [ht, Bool.false_eq_true, if_false]
    have hs := (hS id).2 ht
    generalize hσ0 : σ.setCache id { taken := true, store := (σ.caches id).store } = σ0
    have hS0 : Shape geo σ0 := by
      intro j
      subst hσ0
      by_cases e : j = id
      · subst e; simp only [St.setCache, if_true]
        exact ⟨(hS j).1, fun h => by simp at h⟩
      · simp only [St.setCache, e, if_false]; exact hS j
    have hM0 : Mono σ σ0 := by
      intro j hj
      subst hσ0
      by_cases e : j = id
      · subst e; simp [St.setCache]
      · simp only [St.setCache, e, if_false]; exact hj
    have hid0 : (σ0.caches id).taken = true := by subst hσ0; simp [St.setCache]
    have hi := h filter par σ0 hS0
    cases hr : i geo filter par σ0 with
    | mk res σ' =>
      rw [hr] at hi
      cases res with
      | error e =>
        cases e with
        | err e' => exact ⟨hi.1, hM0.trans hi.2⟩
        | panic p => exact hi
      | ok gen =>
        simp only [] at hi ⊢
        obtain ⟨⟨hiS, hiM⟩, hiG⟩ := hi
        obtain ⟨store', hf, hsh⟩ := cacheFill_shaped hw gen geo.devices (σ'.caches id).store
          (fun d hd => (Geo.mem_devices.mp hd).1) hiG (hiS id).1
        rw [hf]
        simp only []
        have hid' : (σ'.caches id).taken = true := hiM id hid0
        apply final
        · intro j
          by_cases e : j = id
          · subst e; simp only [St.setCache, if_true]
            exact ⟨hsh, fun h => by rw [hid'] at h; cases h⟩
          · simp only [St.setCache, e, if_false]; exact hiS j
        · intro j hj
          by_cases e : j = id
          · subst e; simp only [St.setCache, if_true]; exact hid'
          · simp only [St.setCache, e, if_false]; exact hiM j (hM0 j hj)


/-- the row `Group` computes for a device (junk if a calculator panicked) -/
def rowOr (x : Except Panic (List Drive)) : List Drive :=
  match x with
  | .ok r => r
  | .error _ => []

theorem group_noPanic {geo : Geo} (km : Nat → Nat → Option Nat) (gm : List (Nat × InitFn)) (hw : geo.WF)
    (fl : List (Nat × Filter)) (hp : fl.Perm (getFilters km geo)) (hgn : (gm.map (·.1)).Nodup)
    (hin : ∀ k i, gm.lookup k = some i → NoPanic geo i) :
    ∀ (par : Bool) (σ : St), Shape geo σ →
      match groupInitWith fl km gm geo par σ with
      | (.ok gen, σ') => (Shape geo σ' ∧ Mono σ σ') ∧ OkGen geo gen ∧ (∀ k, k ∈ gm.map (·.1) ↔ usedKey km geo k)
      | (.error (.err _), σ') => Shape geo σ' ∧ Mono σ σ'
      | (.error (.panic _), _) => False := by
  intro par σ hS
  obtain ⟨hfn, hfm⟩ := perm_filters hw hp
  have hdn := Geo.devices_idx_nodup hw
  have hloop := groupLoop_spec geo par (fun σ' => Shape geo σ' ∧ Mono σ σ') True
    (fun _ _ cs => ∀ d ∈ geo.devices, ∃ c, cs.lookup d.idx = some c ∧ ∀ t, t < d.numTr → ∃ x, c t = .ok x)
    fl gm [] σ hfn hgn
    (fun k f i σ1 _ hl hI1 => by
      have h1 := hin k i hl (some f) par σ1 hI1.1
      cases hr : i geo (some f) par σ1 with
      | mk res σ2 =>
        rw [hr] at h1
        cases res with
        | error e =>
          cases e with
          | err e' => exact ⟨⟨h1.1, hI1.2.trans h1.2⟩, trivial⟩
          | panic p => exact h1
        | ok gen =>
          simp only [] at h1 ⊢
          refine ⟨⟨h1.1.1, hI1.2.trans h1.1.2⟩, _, genAll_ok gen geo.devices
            (fun d hd => by obtain ⟨c, hc, _⟩ := h1.2 d hd; exact ⟨c, hc⟩), ?_⟩
          intro d hd
          obtain ⟨c, hc, hg⟩ := h1.2 d hd
          refine ⟨c, ?_, hg⟩
          have := lookup_map_of_mem (·.idx) (fun d => okOr (gen d)) geo.devices d hd hdn
          simp only [hc, okOr] at this
          exact this)
    ⟨hS, Mono.refl _⟩ (by simp)
  unfold groupInitWith
  cases hg : groupLoop geo par fl gm [] σ with
  | mk res σ' =>
    rw [hg] at hloop
    cases res with
    | error e =>
      cases e with
      | err e' => simp only [] at hloop ⊢; exact hloop.1
      | panic p => simp only [] at hloop
    | ok pr =>
      obtain ⟨gmRest, calcs⟩ := pr
      simp only [] at hloop ⊢
      obtain ⟨j1, j2, j3, _, j5⟩ := hloop
      cases gmRest with
      | cons p ps => simp only [List.isEmpty_cons, Bool.not_false, if_true]; exact j1
      | nil =>
        simp only [List.isEmpty_nil, Bool.not_true, Bool.false_eq_true, if_false]
        -- keys of the gain map = keys used on enabled devices
        have hkeys : ∀ k, k ∈ gm.map (·.1) ↔ usedKey km geo k := by
          intro k
          constructor
          · intro hk
            have : k ∈ fl.map (·.1) := by
              apply Classical.byContradiction
              intro hc
              have := (j3 k).mpr ⟨hk, hc⟩
              simp at this
            obtain ⟨kf, hkf, rfl⟩ := List.mem_map.mp this
            exact (getFilters_isSome km hw kf.1).mp (by rw [(hfm kf.1 kf.2).mp hkf]; rfl)
          · intro hu
            have hs := (getFilters_isSome km hw k).mpr hu
            cases hl : (getFilters km geo).lookup k with
            | none => rw [hl] at hs; simp at hs
            | some f => exact j2 (k, f) ((hfm k f).mpr hl)
        -- every row is computed
        have hrow : ∀ d ∈ geo.devices, ∃ r, groupRow km calcs d = .ok r ∧ r.length = d.numTr := by
          intro d hd
          cases hr : groupRow km calcs d with
          | ok r =>
            refine ⟨r, rfl, ?_⟩
            unfold groupRow at hr
            simpa using mapE_length _ _ hr
          | error p =>
            exfalso
            unfold groupRow at hr
            obtain ⟨t, ht, he⟩ := mapE_error_inv _ _ hr
            have ht' := List.mem_range.mp ht
            cases hk : km d.idx t with
            | none => simp [hk] at he
            | some key =>
              have hs := (getFilters_isSome km hw key).mpr ⟨d, hd, t, ht', hk⟩
              cases hl : (getFilters km geo).lookup key with
              | none => rw [hl] at hs; simp at hs
              | some f =>
                obtain ⟨cs, hcs, hq⟩ := j5 (key, f) ((hfm key f).mpr hl)
                obtain ⟨c, hc, hx⟩ := hq d hd
                obtain ⟨x, hx'⟩ := hx t ht'
                simp only [] at hcs
                simp [hk, hcs, hc, hx'] at he
        have htable : groupTable km calcs geo.devices =
            .ok (geo.devices.map fun d => (d.idx, rowOr (groupRow km calcs d))) := by
          unfold groupTable
          apply mapE_ok_of_forall (fun d => (d.idx, rowOr (groupRow km calcs d)))
          intro d hd
          obtain ⟨r, hr, _⟩ := hrow d hd
          simp [hr, rowOr]
        rw [htable]
        simp only []
        refine ⟨j1, ?_, hkeys⟩
        intro d hd
        obtain ⟨r, hr, hlen⟩ := hrow d hd
        have hl := lookup_map_of_mem (·.idx) (fun d => rowOr (groupRow km calcs d)) geo.devices d hd hdn
        have hrr : rowOr (groupRow km calcs d) = r := by simp [hr, rowOr]
        rw [hrr] at hl
        refine ⟨vecCalc r, by simp [groupGen, hl], ?_⟩
        intro t ht
        have : t < r.length := by omega
        exact ⟨r[t], by simp [vecCalc, List.getElem?_eq_getElem this]⟩

mutual
  /-- nothing in the tree panics by itself: leaves are safe, gain maps have distinct keys -/
  def Tree.Safe (geo : Geo) : Tree → Prop
    | .leaf l => LeafSafe l geo
    | .boxed g => g.Safe geo
    | .cache _ g => g.Safe geo
    | .group _ gm => gm.Safe geo ∧ gm.keys.Nodup
  def GMap.Safe (geo : Geo) : GMap → Prop
    | .nil => True
    | .cons _ g rest => g.Safe geo ∧ rest.Safe geo
end

mutual
  theorem Tree.noPanic {geo : Geo} (hw : geo.WF) : ∀ (T : Tree), T.Safe geo → NoPanic geo T.init
    | .leaf l, h => by simpa [Tree.init] using leaf_noPanic l (by simpa [Tree.Safe] using h)
    | .boxed g, h => by
      simp only [Tree.init]
      exact boxed_noPanic (Tree.noPanic hw g (by simpa [Tree.Safe] using h))
    | .cache id g, h => by
      simp only [Tree.init]
      exact cache_noPanic id hw (Tree.noPanic hw g (by simpa [Tree.Safe] using h))
    | .group km gm, h => by
      simp only [Tree.Safe] at h
      simp only [Tree.init]
      intro filter par σ hS
      have := group_noPanic km gm.inits hw (getFilters km geo) (List.Perm.refl _)
        (by rw [GMap.inits_keys]; exact h.2) (GMap.noPanic hw gm h.1) par σ hS
      show match groupInitWith (getFilters km geo) km gm.inits geo par σ with
        | (.ok gen, σ') => (Shape geo σ' ∧ Mono σ σ') ∧ OkGen geo gen
        | (.error (.err _), σ') => Shape geo σ' ∧ Mono σ σ'
        | (.error (.panic _), _) => False
      cases hr : groupInitWith (getFilters km geo) km gm.inits geo par σ with
      | mk res σ' =>
        rw [hr] at this
        cases res with
        | error e => cases e <;> exact this
        | ok gen => exact ⟨this.1, this.2.1⟩
  theorem GMap.noPanic {geo : Geo} (hw : geo.WF) : ∀ (gm : GMap), gm.Safe geo →
      ∀ k i, gm.inits.lookup k = some i → NoPanic geo i
    | .nil, _, k, i, hl => by simp [GMap.inits] at hl
    | .cons k' g rest, h, k, i, hl => by
      simp only [GMap.Safe] at h
      simp only [GMap.inits, List.lookup_cons] at hl
      by_cases e : k = k'
      · subst e; simp at hl; subst hl; exact Tree.noPanic hw g h.1
      · have : (k == k') = false := by simp [e]
        simp only [this] at hl
        exact GMap.noPanic hw rest h.2 k i hl
end

end Autd3.GainWrap
