import Autd3.Lemmas.SilGuardReject
import Autd3.Lemmas.SilGuardBulk
import Autd3.Model.Obs
/-!
# C08: the invariant on the read-back accessors, decidability of the frame conditions, and the
concrete traces used as non-vacuity witnesses and as counterexamples (F8b, F8c)
-/
set_option linter.unusedSimpArgs false
set_option linter.unusedVariables false
namespace Autd3.SilGuard
open Autd3.Fw Autd3.Gen Autd3.Gen.Cpu

/-- the invariant read through the public read-back accessors: the requested segments are the believed
ones, and whenever the CPU is in strict mode the requested segments respect the completion steps -/
theorem Core.obs {s : State} (h : Core s) :
    Obs.reqStmSeg s = .ok s.stmSegment ∧ Obs.reqModSeg s = .ok s.modSegment ∧
    Obs.stmDiv s s.stmSegment = sel s.stmDiv s.stmSegment ∧
    Obs.modDiv s s.modSegment = sel s.modDiv s.modSegment := by
  have h1 := h.stmBelief; have h2 := h.modBelief
  have l1 := h.stmSegLe; have l2 := h.modSegLe
  refine ⟨?_, ?_, ?_, ?_⟩
  · unfold Obs.reqStmSeg segReg; simp only [← h1, l1, ↓reduceIte]
  · unfold Obs.reqModSeg segReg; simp only [← h2, l2, ↓reduceIte]
  · unfold Obs.stmDiv sel
    rcases (by omega : s.stmSegment = 0 ∨ s.stmSegment = 1) with e | e
    · rw [e]; simp only [↓reduceIte]; exact h.stmDiv0.symm
    · rw [e]; simp only [Nat.reduceEqDiff, ↓reduceIte]; exact h.stmDiv1.symm
  · unfold Obs.modDiv sel
    rcases (by omega : s.modSegment = 0 ∨ s.modSegment = 1) with e | e
    · rw [e]; simp only [↓reduceIte]; exact h.modDiv0.symm
    · rw [e]; simp only [Nat.reduceEqDiff, ↓reduceIte]; exact h.modDiv1.symm

/-- **the property's statement** on the read-back accessors, for any state satisfying the invariant -/
theorem Core.guard_obs {s : State} (h : Core s) :
    ∃ rs rm, Obs.reqStmSeg s = .ok rs ∧ Obs.reqModSeg s = .ok rm ∧
      ((s.strict = true ∨ (Obs.silencerFixedUpdateRateMode s = false ∧ strictBit s = true)) →
        ∀ i p, Obs.silencerCompletionSteps s = .ok (i, p) →
          max i p ≤ Obs.stmDiv s rs ∧ i ≤ Obs.modDiv s rm) := by
  obtain ⟨e1, e2, e3, e4⟩ := h.obs
  refine ⟨s.stmSegment, s.modSegment, e1, e2, ?_⟩
  intro hst i p hip
  have hstrict : s.strict = true := by
    rcases hst with hs | ⟨hf, hb⟩
    · exact hs
    · exact h.strictOf hf hb
  have hg := h.guard hstrict
  unfold Obs.silencerCompletionSteps at hip
  simp only [] at hip
  split at hip
  · cases hip
  · cases hip
    rw [e3, e4, ← h.stepsI, ← h.stepsP]
    omega

/-! ### decidability of the frame conditions (so that concrete frames can be checked by `decide`) -/

instance (flag tm b e u : Nat) : Decidable (FlagsOk flag tm b e u) := by unfold FlagsOk; infer_instance
instance (d : Array Nat) : Decidable (ModOk d) := by unfold ModOk; infer_instance
instance (d : Array Nat) : Decidable (FociOk d) := by unfold FociOk; infer_instance
instance (d : Array Nat) : Decidable (GainStmOk d) := by unfold GainStmOk; infer_instance
instance (d : Array Nat) : Decidable (FociComplete d) := by unfold FociComplete; infer_instance
instance (d : Array Nat) : Decidable (GainStmComplete d) := by unfold GainStmComplete; infer_instance
instance (d : Array Nat) : Decidable (PayloadOk d) := by unfold PayloadOk; infer_instance
instance (d : Array Nat) : Decidable (PayloadComplete d) := by unfold PayloadComplete; infer_instance
instance (f : Array Nat) : Decidable (FrameOk f) := by unfold FrameOk; infer_instance
instance (a : Action) : Decidable (ActionOk a) := by cases a <;> (unfold ActionOk; infer_instance)

/-! ### concrete frames -/

/-- a frame with message id `msgId` and one payload `p` (reads past the end give 0, like the zero padding) -/
def mkFrame (msgId : Nat) (p : List Nat) : Array Nat := #[msgId, 0, 0, 0] ++ p.toArray

/-- FociSTM head frame: one focus per pattern, two patterns, sound speed 0x140, loop forever -/
def fociFrame (flag seg tm div : Nat) : List Nat :=
  [66, flag, 2, seg, tm, 1, 0x40, 0x01, div % 256, div / 256, 0xFF, 0xFF, 0, 0, 0, 0, 0, 0, 0, 0, 0, 0, 0, 0] ++
    List.replicate 16 0

/-- GainSTM head frame in `PhaseFull` packing with two patterns (send count 2: bit 6 set) -/
def gainStmFrame (flag tm div : Nat) : List Nat :=
  [65, flag ||| 64, 1, tm, div % 256, div / 256, 0xFF, 0xFF, 0, 0, 0, 0, 0, 0, 0, 0] ++ List.replicate 498 0

/-- Modulation head frame with two samples -/
def modFrame (flag tm div : Nat) : List Nat :=
  [16, flag, 2, tm, div % 256, div / 256, 0xFF, 0xFF, 0, 0, 0, 0, 0, 0, 0, 0, 0xFF, 0x80]

def silencerStepsFrame (i p : Nat) (strict : Bool) : List Nat :=
  [33, if strict then 4 else 0, i % 256, i / 256, p % 256, p / 256]

def silencerRateFrame (i p : Nat) : List Nat := [33, 1, i % 256, i / 256, p % 256, p / 256]

/-- the registers and CPU copies the property talks about, as a list (for `decide +kernel` checks):
ack, requested STM segment register, CPU's believed STM segment, STM division registers 0/1, requested
modulation segment register, modulation division registers 0/1, completion steps intensity/phase
registers, silencer flag register, CPU strict copy -/
def summary (r : M State) : List Nat :=
  match r with
  | .ok s => [s.ack, reg s ADDR_STM_REQ_RD_SEGMENT, s.stmSegment, reg s ADDR_STM_FREQ_DIV0, reg s ADDR_STM_FREQ_DIV1,
              reg s ADDR_MOD_REQ_RD_SEGMENT, reg s ADDR_MOD_FREQ_DIV0, reg s ADDR_MOD_FREQ_DIV1,
              reg s ADDR_SILENCER_COMPLETION_STEPS_INTENSITY, reg s ADDR_SILENCER_COMPLETION_STEPS_PHASE,
              reg s ADDR_SILENCER_FLAG, if s.strict then 1 else 0]
  | .error _ => []

def summaryS (s : State) : List Nat := summary (.ok s)

/-- the summaries after each action of a history (a panic ends the trail with `[]`) -/
def trail (s : State) : List Action → List (List Nat)
  | [] => []
  | a :: as => match stepA s a with
    | .ok s' => summaryS s' :: trail s' as
    | .error _ => [[]]

def trailFromNew (as : List Action) : List (List Nat) :=
  match Fw.new 249 0 with
  | .ok s => trail s as
  | .error _ => [[]]

/-- history from a freshly constructed 249-transducer device -/
def fromNew (as : List Action) : M State := Fw.new 249 0 >>= fun s => run s as

/-- a legal history: FociSTM (div 40) with Immediate transition, a silencer request that must be
refused (phase steps 80 > 40), a GainSTM (div 100, two patterns) to segment 1 with Immediate transition,
a clock tick, now the silencer request is accepted, a modulation to segment 1 without transition,
update-rate mode, back to strict fixed steps -/
def legalTrace : List Action :=
  [.frame (mkFrame 1 (fociFrame 7 0 0xFF 40)),
   .frame (mkFrame 2 (silencerStepsFrame 10 80 true)),
   .frame (mkFrame 3 (gainStmFrame 15 0xFF 100)),
   .tick 1000000,
   .frame (mkFrame 4 (silencerStepsFrame 10 80 true)),
   .frame (mkFrame 5 (modFrame 11 0xFE 10)),
   .frame (mkFrame 6 (silencerRateFrame 256 256)),
   .frame (mkFrame 7 (silencerStepsFrame 10 80 true))]

/-- F8b: complete FociSTM (div 40) to segment 0 with Immediate transition; BEGIN-only FociSTM
(div 0xFFFF) to segment 1 *carrying an Immediate transition* (send cut after its first frame);
silencer steps (10, 80) strict -/
def f8bTrace : List Action :=
  [.frame (mkFrame 1 (fociFrame 7 0 0xFF 40)),
   .frame (mkFrame 2 (fociFrame 1 1 0xFF 0xFFFF)),
   .frame (mkFrame 3 (silencerStepsFrame 10 80 true))]

/-- F8c (repaired in the firmware; the trace is kept as a regression witness): BEGIN-only FociSTM (div 40) to segment 1 *without* transition (send cut after its first
frame; segment 1 still counts as a plain Gain for the CPU: mode GAIN, one pattern); silencer steps
(10, 80) strict (validated against segment 0 only); `GainSwapSegment` to segment 1, which
`change_gain_segment` accepts without consulting the silencer guard -/
def f8cTrace : List Action :=
  [.frame (mkFrame 1 (fociFrame 1 1 0xFE 40)),
   .frame (mkFrame 2 (silencerStepsFrame 10 80 true)),
   .frame (mkFrame 3 [49, 1])]

/-! ### the `Core`-only action condition is decidable too -/

instance (f : Array Nat) : Decidable (FrameOkCore f) := by unfold FrameOkCore; infer_instance
instance (a : Action) : Decidable (ActionOkCore a) := by cases a <;> (unfold ActionOkCore; infer_instance)

/-- a multi-frame FociSTM write to segment 1 without transition (BEGIN frame, END frame), a strict
silencer request, then a FociSTM swap to segment 1 with Immediate transition -/
def multiTrace : List Action :=
  [.frame (mkFrame 1 (fociFrame 1 1 0xFE 50)),
   .frame (mkFrame 2 ([66, 2, 2, 1] ++ List.replicate 16 0)),
   .frame (mkFrame 3 (silencerStepsFrame 10 45 true)),
   .frame (mkFrame 4 ([68, 1, 0xFF] ++ List.replicate 13 0))]

/-- multi-frame writes without transition interleaved with every kind of swap, including a
`GainSwapSegment` to the segment whose write was cut (the former F8c pattern) -/
def swapsTrace : List Action :=
  [.frame (mkFrame 1 (fociFrame 1 1 0xFE 40)),
   .frame (mkFrame 2 [49, 1]),
   .frame (mkFrame 3 (silencerStepsFrame 10 80 true)),
   .frame (mkFrame 4 [49, 1]),
   .frame (mkFrame 5 ([68, 1, 0xFF] ++ List.replicate 13 0)),
   .frame (mkFrame 6 ([67, 1, 0xFF] ++ List.replicate 13 0)),
   .frame (mkFrame 7 ([17, 1, 0xFF] ++ List.replicate 13 0)),
   .frame (mkFrame 8 [49, 0])]

end Autd3.SilGuard
