import Autd3.Lemmas.P02ClearObs
import Autd3.Lemmas.P02Mod
import Autd3.Lemmas.P02Wire
/-!
# The SDK's default datagrams leave the power-on observables unchanged (C02, `defaults_are_fixpoint`)

`Dflt` is the invariant of a device that has only received default datagrams since power-on / `Clear`; it
holds after `Clear`, is preserved by each of the five default datagrams (handler level: `dflt_*`; frame
level through `ecat_recv` and the driver's `pack_op`: `P02DefaultsWire.lean`), and implies every observable
of `PowerOnObs` except that the modulation transition-mode register may read Immediate.
-/
namespace Autd3.P02
open Autd3 Autd3.Fw Autd3.Gen.Cpu Autd3.Gen

variable {n : Nat}

/-- registers that hold their power-on value in every state reachable from power-on by the SDK's default
datagrams (`clearedRegs` minus the private write-segment/page registers 32, 33, 80, 81, the modulation
transition-mode register 41 and the silencer flag register 64) -/
def dfltRegs : List (Nat × Nat) :=
  [(34, 0), (35, 1), (36, 1), (37, 65535), (38, 65535), (39, 65535), (40, 65535),
   (42, 0), (43, 0), (44, 0), (45, 0), (65, 256), (66, 256), (67, 10), (68, 40),
   (82, 0), (83, 0), (84, 0), (85, 65535), (86, 65535), (87, 65535), (88, 65535), (89, 1), (90, 1),
   (95, 0), (96, 0), (97, 0), (98, 0), (99, 0),
   (240, 0), (241, 0), (242, 0), (243, 0), (244, 0), (245, 0), (246, 0), (247, 0), (248, 0), (249, 0), (250, 0),
   (251, 0), (252, 0), (253, 0), (254, 0), (255, 0)]

structure SwapDflt (w : Swap) (cyc : Nat) : Prop where
  cur : w.cur = 0
  state : w.state = .infiniteLoop
  stop : w.stop = false
  extMode : w.extMode = false
  freqDiv0 : w.freqDiv.1 = 0xFFFF
  cycle0 : w.cycle.1 = cyc
  ticOff0 : w.ticOff.1 = 0

/-- the invariant of "a device that has only ever been sent the SDK's defaults since power-on / Clear" -/
structure Dflt (n : Nat) (s' : State) : Prop where
  sized : Sized s'
  regs : ∀ p ∈ dfltRegs, rd s'.ctl p.1 = p.2
  sil64 : rd s'.ctl 64 = 0 ∨ rd s'.ctl 64 = 4
  mode41 : rd s'.ctl 41 = 0 ∨ rd s'.ctl 41 = 255
  flag0 : rd s'.ctl 0 = 0
  portA : s'.portA = 0
  reads : s'.readsFpgaState = false
  flagsInternal : s'.flagsInternal = 0
  strict : s'.strict = true
  minDivI : s'.minDivI = 10
  minDivP : s'.minDivP = 40
  modDiv : s'.modDiv = (0xFFFF, 0xFFFF)
  modSegment : s'.modSegment = 0
  stmDiv : s'.stmDiv = (0xFFFF, 0xFFFF)
  stmSegment : s'.stmSegment = 0
  mod0 : rd s'.modMem0 0 = 0xFFFF
  mod1 : rd s'.modMem1 0 = 0xFFFF
  stm0 : ∀ i, i < 249 → rd s'.stmMem0 i = 0
  stm1 : ∀ i, i < 249 → rd s'.stmMem1 i = 0
  pc : ∀ i, i < 125 → rd s'.phaseCorr i = 0
  pwe : ∀ i, i < 256 → rd s'.pwe i = Tables.drvAsin i
  modSwap : SwapDflt s'.modSwap 2
  stmSwap : SwapDflt s'.stmSwap 1
  numTr : s'.numTr ≤ 249
  numTrEq : s'.numTr = n
  modSwapWF : SwapWF s'.modSwap
  stmSwapWF : SwapWF s'.stmSwap

theorem dflt_of_cleared {s' : State} (c : Cleared s') (w : WF s') : Dflt s'.numTr s' := by
  have hn := w.numTr
  have hr := c.regs
  exact { sized := c.sized, regs := fun p hp => hr p (by revert p; decide),
          sil64 := Or.inl (hr (64, 0) (by decide)), mode41 := Or.inl (hr (41, 0) (by decide)), flag0 := c.flag0,
          portA := c.portA, reads := c.reads, flagsInternal := c.flagsInternal, strict := c.strict,
          minDivI := c.minDivI, minDivP := c.minDivP, modDiv := c.modDiv, modSegment := c.modSegment,
          stmDiv := c.stmDiv, stmSegment := c.stmSegment, mod0 := c.mod0, mod1 := c.mod1, stm0 := c.stm0,
          stm1 := c.stm1, pc := c.pc, pwe := c.pwe,
          modSwap := ⟨c.modSwap.cur, c.modSwap.state, c.modSwap.stop, c.modSwap.extMode, c.modSwap.freqDiv0, c.modSwap.cycle0, c.modSwap.ticOff0⟩,
          stmSwap := ⟨c.stmSwap.cur, c.stmSwap.state, c.stmSwap.stop, c.stmSwap.extMode, c.stmSwap.freqDiv0, c.stmSwap.cycle0, c.stmSwap.ticOff0⟩,
          numTr := hn, numTrEq := rfl, modSwapWF := w.modSwap, stmSwapWF := w.stmSwap }

/-- `PowerOnObs` with the one concession of `defaults_are_fixpoint`: the modulation transition-mode request
register may record the Immediate request of the default modulation instead of SyncIdx -/
structure PowerOnObsQ (s' : State) : Prop where
  modBuffer : ∀ seg, seg ≤ 1 → Obs.modBuffer s' seg = .ok #[0xFF, 0xFF]
  modDiv : ∀ seg, seg ≤ 1 → Obs.modDiv s' seg = 0xFFFF
  modCycle : ∀ seg, seg ≤ 1 → Obs.modCycle s' seg = 2
  modRep : ∀ seg, seg ≤ 1 → Obs.modRep s' seg = 0xFFFF
  reqModSeg : Obs.reqModSeg s' = .ok 0
  modTransition : Obs.modTransition s' = .ok .syncIdx ∨ Obs.modTransition s' = .ok .immediate
  stmGain : ∀ seg, seg ≤ 1 → Obs.isStmGainMode s' seg = true
  stmDiv : ∀ seg, seg ≤ 1 → Obs.stmDiv s' seg = 0xFFFF
  stmCycle : ∀ seg, seg ≤ 1 → Obs.stmCycle s' seg = 1
  stmRep : ∀ seg, seg ≤ 1 → Obs.stmRep s' seg = 0xFFFF
  reqStmSeg : Obs.reqStmSeg s' = .ok 0
  stmTransition : Obs.stmTransition s' = .ok .syncIdx
  drives : ∀ seg, seg ≤ 1 → Obs.drivesAt s' seg 0 = .ok (Array.replicate s'.numTr 0)
  silRate : Obs.silencerUpdateRate s' = (256, 256)
  silSteps : Obs.silencerCompletionSteps s' = .ok (10, 40)
  silFixed : Obs.silencerFixedUpdateRateMode s' = false
  strict : s'.strict = true
  pwe : Obs.pweTable s' = .ok ((Array.range 256).map Tables.drvAsin)
  phaseCorr : Obs.phaseCorrection s' = Array.replicate s'.numTr 0
  debugTypes : Obs.debugTypes s' = #[0, 0, 0, 0]
  debugValues : Obs.debugValues s' = #[0, 0, 0, 0]
  forceFan : Obs.isForceFan s' = false
  reads : s'.readsFpgaState = false
  portA : s'.portA = 0
  curMod : Obs.currentModSeg s' = 0
  curStm : Obs.currentStmSeg s' = 0
  modLoop : s'.modSwap.state = .infiniteLoop ∧ s'.modSwap.stop = false
  stmLoop : s'.stmSwap.state = .infiniteLoop ∧ s'.stmSwap.stop = false

theorem powerOnObsQ_of_dflt {s' : State} (c : Dflt n s') : PowerOnObsQ s' := by
  have hn := c.numTr
  have hr := c.regs
  simp [dfltRegs] at hr
  have h0 := c.flag0
  have hsz := c.sized
  have hpc : ∀ i, i < s'.numTr → Obs.phaseCorrAt s' i = 0 := by
    intro i hi
    have := c.pc (i / 2) (by omega)
    simp [Obs.phaseCorrAt, this]
  refine { modBuffer := ?_, modDiv := ?_, modCycle := ?_, modRep := ?_, reqModSeg := ?_, modTransition := ?_,
           stmGain := ?_, stmDiv := ?_, stmCycle := ?_, stmRep := ?_, reqStmSeg := ?_, stmTransition := ?_,
           drives := ?_, silRate := ?_, silSteps := ?_, silFixed := ?_, strict := c.strict, pwe := ?_,
           phaseCorr := ?_, debugTypes := ?_, debugValues := ?_, forceFan := ?_, reads := c.reads,
           portA := c.portA, curMod := c.modSwap.cur, curStm := c.stmSwap.cur,
           modLoop := ⟨c.modSwap.state, c.modSwap.stop⟩, stmLoop := ⟨c.stmSwap.state, c.stmSwap.stop⟩ }
  · intro seg hseg
    have hc : Obs.modCycle s' seg = 2 := by
      rcases seg_cases hseg with h | h <;> subst h <;> simp [Obs.modCycle, reg, ADDR_MOD_CYCLE0, hr]
    unfold Obs.modBuffer
    rw [hc, mapM_range_ok 2 _ (fun _ => 0xFF)]
    · rw [map_range_const]; rfl
    · intro i hi
      have hi2 : i / 2 = 0 := by omega
      rcases seg_cases hseg with h | h <;> subst h
      · have : i = 0 ∨ i = 1 := by omega
        rcases this with h | h <;> subst h <;> simp [Obs.modAt, Obs.modMem, hsz.modMem0, c.mod0]
      · have : i = 0 ∨ i = 1 := by omega
        rcases this with h | h <;> subst h <;> simp [Obs.modAt, Obs.modMem, hsz.modMem1, c.mod1]
  · intro seg hseg
    rcases seg_cases hseg with h | h <;> subst h <;> simp [Obs.modDiv, reg, ADDR_MOD_FREQ_DIV0, hr]
  · intro seg hseg
    rcases seg_cases hseg with h | h <;> subst h <;> simp [Obs.modCycle, reg, ADDR_MOD_CYCLE0, hr]
  · intro seg hseg
    rcases seg_cases hseg with h | h <;> subst h <;> simp [Obs.modRep, reg, ADDR_MOD_REP0, hr]
  · simp [Obs.reqModSeg, segReg, reg, ADDR_MOD_REQ_RD_SEGMENT, hr]
  · rcases c.mode41 with h41 | h41
    · left; simp [Obs.modTransition, decodeTMode, reg, ADDR_MOD_TRANSITION_MODE, TRANSITION_MODE_SYNC_IDX, h41]
    · right; simp [Obs.modTransition, decodeTMode, reg, ADDR_MOD_TRANSITION_MODE, TRANSITION_MODE_SYNC_IDX, TRANSITION_MODE_SYS_TIME, TRANSITION_MODE_GPIO, TRANSITION_MODE_EXT, TRANSITION_MODE_IMMEDIATE, h41]
  · intro seg hseg
    rcases seg_cases hseg with h | h <;> subst h <;> simp [Obs.isStmGainMode, reg, ADDR_STM_MODE0, STM_MODE_GAIN, hr]
  · intro seg hseg
    rcases seg_cases hseg with h | h <;> subst h <;> simp [Obs.stmDiv, reg, ADDR_STM_FREQ_DIV0, hr]
  · intro seg hseg
    rcases seg_cases hseg with h | h <;> subst h <;> simp [Obs.stmCycle, reg, ADDR_STM_CYCLE0, hr]
  · intro seg hseg
    rcases seg_cases hseg with h | h <;> subst h <;> simp [Obs.stmRep, reg, ADDR_STM_REP0, hr]
  · simp [Obs.reqStmSeg, segReg, reg, ADDR_STM_REQ_RD_SEGMENT, hr]
  · simp [Obs.stmTransition, decodeTMode, reg, ADDR_STM_TRANSITION_MODE, TRANSITION_MODE_SYNC_IDX, hr]
  · intro seg hseg
    have hg : Obs.isStmGainMode s' seg = true := by
      rcases seg_cases hseg with h | h <;> subst h <;> simp [Obs.isStmGainMode, reg, ADDR_STM_MODE0, STM_MODE_GAIN, hr]
    unfold Obs.drivesAt
    rw [hg]
    simp only [if_true]
    congr 1
    unfold Obs.gainDrives
    rw [← map_range_const]
    apply map_range_congr
    intro i hi
    rcases seg_cases hseg with h | h <;> subst h
    · simp [Obs.stmMem, hsz.stmMem0, c.stm0 i (by omega), hpc i hi]
    · simp [Obs.stmMem, hsz.stmMem1, c.stm1 i (by omega), hpc i hi]
  · simp [Obs.silencerUpdateRate, reg, ADDR_SILENCER_UPDATE_RATE_INTENSITY, ADDR_SILENCER_UPDATE_RATE_PHASE, hr]
  · simp [Obs.silencerCompletionSteps, reg, ADDR_SILENCER_COMPLETION_STEPS_INTENSITY, ADDR_SILENCER_COMPLETION_STEPS_PHASE, hr]
  · rcases c.sil64 with h64 | h64 <;> simp [Obs.silencerFixedUpdateRateMode, reg, ADDR_SILENCER_FLAG, hasFlag, SILENCER_FLAG_FIXED_UPDATE_RATE_MODE, h64]
  · unfold Obs.pweTable
    apply mapM_range_ok
    intro i hi
    have := c.pwe i hi
    have hb : Tables.drvAsin i < 512 := by
      have : ∀ i : Fin 256, Tables.drvAsin i.val < 512 := by decide +kernel
      exact this ⟨i, hi⟩
    simp [this, hb]
  · unfold Obs.phaseCorrection
    rw [← map_range_const]
    exact map_range_congr _ _ _ hpc
  · simp [Obs.debugTypes, reg, ADDR_DEBUG_VALUE0_3, ADDR_DEBUG_VALUE1_3, ADDR_DEBUG_VALUE2_3, ADDR_DEBUG_VALUE3_3, hr]
  · simp [Obs.debugValues, reg64, reg, ADDR_DEBUG_VALUE0_0, ADDR_DEBUG_VALUE1_0, ADDR_DEBUG_VALUE2_0, ADDR_DEBUG_VALUE3_0, hr]
  · simp [Obs.isForceFan, reg, ADDR_CTL_FLAG, h0]


theorem wf_of_dflt {s : State} (c : Dflt n s) : WF s :=
  { toSized := c.sized, numTr := c.numTr, modSwap := c.modSwapWF, stmSwap := c.stmSwapWF,
    flags := by rw [c.flagsInternal]; exact ⟨by decide, by decide⟩ }

/-- registers of `dfltRegs` are untouched by a write elsewhere -/
theorem dflt_regs_of_frame {c c' : Array Nat} (h : ∀ p ∈ dfltRegs, rd c p.1 = p.2)
    (hf : ∀ p ∈ dfltRegs, rd c' p.1 = rd c p.1) : ∀ p ∈ dfltRegs, rd c' p.1 = p.2 :=
  fun p hp => by rw [hf p hp, h p hp]

/-! ### the five default datagrams, at handler level -/

theorem dflt_configSilencer (s : State) (d : Array Nat) (c : Dflt n s)
    (h1 : u8at d 1 = 4) (h2 : u16at d 2 = 10) (h4 : u16at d 4 = 40) :
    ∃ s', configSilencer s d = .ok (s', NO_ERR) ∧ Dflt n s' := by
  have w := wf_of_dflt c
  have hr := c.regs
  simp [dfltRegs] at hr
  rw [configSilencer_eq s d w, h1, h2, h4]
  have e1 : hasFlag 4 SILENCER_FLAG_FIXED_UPDATE_RATE_MODE = false := by decide
  have e2 : hasFlag 4 SILENCER_FLAG_STRICT_MODE = true := by decide
  have e3 : validateSilencerSettings { s with strict := true, minDivI := 10, minDivP := 40 }
      (sel s.stmDiv s.stmSegment) (sel s.modDiv s.modSegment) = false := by
    simp [validateSilencerSettings, c.stmDiv, c.modDiv, c.stmSegment, c.modSegment, sel]
  simp only [e1, e2, e3, Bool.false_eq_true, if_false]
  refine ⟨_, rfl, ?_⟩
  have hsz : ((((s.ctl.setIfInBounds 67 (10 % 65536)).setIfInBounds 68 (40 % 65536)).setIfInBounds 64 (4 % 65536)).setIfInBounds 0
      (s.flagsInternal % 65536)).size = 256 := by simp [c.sized.ctl]
  exact { c with
    sized := { c.sized with ctl := hsz }
    regs := by simp [dfltRegs, rd_set, hr, c.sized.ctl]
    sil64 := by right; simp [rd_set, c.sized.ctl]
    mode41 := by simpa [rd_set] using c.mode41
    flag0 := by simp [rd_set, c.sized.ctl, c.flagsInternal]
    strict := rfl, minDivI := rfl, minDivP := rfl }

theorem dflt_configPwe (s : State) (d : Array Nat) (c : Dflt n s)
    (hd : ∀ i, i < 256 → u16at d (2 + 2 * i) = Tables.drvAsin i) :
    ∃ s', configPwe s d = .ok (s', NO_ERR) ∧ Dflt n s' := by
  have w := wf_of_dflt c
  rw [configPwe_eq s d w]
  refine ⟨_, rfl, ?_⟩
  exact { c with
    sized := { c.sized with pwe := by simp [c.sized.pwe] }
    pwe := by
      intro i hi
      simp only [rd_writeLoop, rd_wordsAt, c.sized.pwe]
      simp [hi, hd i hi]
      rw [← hd i hi]; exact u16at_lt _ _ }

theorem dflt_phaseCorrOp (s : State) (d : Array Nat) (c : Dflt n s)
    (hd : ∀ i, i < 125 → u16at d (2 + 2 * i) = 0) :
    ∃ s', phaseCorrOp s d = .ok (s', NO_ERR) ∧ Dflt n s' := by
  have w := wf_of_dflt c
  rw [phaseCorrOp_eq s d w]
  refine ⟨_, rfl, ?_⟩
  exact { c with
    sized := { c.sized with phaseCorr := by simp [c.sized.phaseCorr] }
    pc := by
      intro i hi
      simp only [rd_writeLoop, rd_wordsAt, c.sized.phaseCorr]
      have : i < 128 := by omega
      simp [hi, this, hd i hi] }

/-- registers written by `mod_segment_update` before it raises MOD_SET -/
def msuState (s : State) (seg mode value : Nat) : State :=
  { s with ctl := writeLoop ((s.ctl.setIfInBounds 34 (seg % 65536)).setIfInBounds 41 (mode % 65536)) 42
                    (fun i => rd (u64Words value) i % 65536) 4 }

theorem modSegmentUpdate_eq (s : State) (seg mode value : Nat) :
    modSegmentUpdate s seg mode value =
      if mode = TRANSITION_MODE_SYS_TIME ∧ value < s.dcSysTime + SYS_TIME_TRANSITION_MARGIN then
        .ok ({ s with ctl := s.ctl.setIfInBounds 34 (seg % 65536) }, ERR_MISS_TRANSITION_TIME)
      else setAndWaitUpdate (msuState s seg mode value) CTL_FLAG_MOD_SET >>= fun s' => .ok (s', NO_ERR) := by
  unfold modSegmentUpdate msuState
  simp only [ctlWrite_main _ ADDR_MOD_REQ_RD_SEGMENT _ (by decide), ok_bind,
    ctlWrite_main _ ADDR_MOD_TRANSITION_MODE _ (by decide),
    ctlWriteWords_main _ ADDR_MOD_TRANSITION_VALUE_0 (u64Words value) (by rw [size_u64Words]; decide), size_u64Words]
  split <;> rfl

/-- `mod_segment_update` with an Immediate request for the segment that is already playing -/
theorem modSegmentUpdate_imm (s : State) (seg : Nat) (w : WF s) (hseg : seg ≤ 1) (hcur : s.modSwap.cur = seg)
    (hfd : sel s.modSwap.freqDiv seg ≠ 0) (hc : sel s.modSwap.cycle seg ≠ 0) :
    modSegmentUpdate s seg TRANSITION_MODE_IMMEDIATE 0 =
      .ok ({ msuState s seg TRANSITION_MODE_IMMEDIATE 0 with
              ctl := (msuState s seg TRANSITION_MODE_IMMEDIATE 0).ctl.setIfInBounds 0 (s.flagsInternal % 65536),
              modSwap := { s.modSwap with sysTime := s.dcSysTime, freqDiv := setSel s.modSwap.freqDiv seg (rd s.ctl (37 + seg)),
                                          cycle := setSel s.modSwap.cycle seg (rd s.ctl (35 + seg) + 1),
                                          mode := .immediate, stop := false, cur := seg, extMode := false,
                                          extLastLap := ((fpgaSysTime s.dcSysTime >>> 9) / sel s.modSwap.freqDiv seg) / sel s.modSwap.cycle seg,
                                          ticOff := setSel s.modSwap.ticOff seg 0, state := .infiniteLoop } }, NO_ERR) := by
  rw [modSegmentUpdate_eq]
  have e0 : ¬ (TRANSITION_MODE_IMMEDIATE = TRANSITION_MODE_SYS_TIME ∧ 0 < s.dcSysTime + SYS_TIME_TRANSITION_MARGIN) := by
    intro h; exact absurd h.1 (by decide)
  simp only [e0, if_false]
  have hf := flags_mod_req s.flagsInternal w.flags
  have hsz : (msuState s seg TRANSITION_MODE_IMMEDIATE 0).ctl.size = 256 := by simp [msuState, w.ctl]
  have hm : seg % 65536 = seg := by omega
  rw [saw_mod (msuState s seg TRANSITION_MODE_IMMEDIATE 0) CTL_FLAG_MOD_SET seg .immediate _ hsz hf.1 hf.2]
  · rfl
  · simp [msuState, rd_set, rd_writeLoop, w.ctl, hm]
  · exact hseg
  · simp [msuState, decodeTMode, reg64, reg, rd_set, rd_writeLoop, w.ctl,
      TRANSITION_MODE_IMMEDIATE, TRANSITION_MODE_SYNC_IDX, TRANSITION_MODE_SYS_TIME, TRANSITION_MODE_GPIO, TRANSITION_MODE_EXT]
  · show (msuState s seg TRANSITION_MODE_IMMEDIATE 0).modSwap.set _ _ _ _ _ _ = _
    have e : (msuState s seg TRANSITION_MODE_IMMEDIATE 0).modSwap = s.modSwap := rfl
    rw [e, set_inf _ _ _ _ _ _ _ (Or.inl hcur) hfd hc]
    have a1 : ¬ (37 + seg = 41) := by omega
    have a2 : ¬ (35 + seg = 41) := by omega
    have a3 : ¬ (37 + seg = 34) := by omega
    have a4 : ¬ (35 + seg = 34) := by omega
    have b1 : ¬ (42 ≤ 37 + seg) := by omega
    have b2 : ¬ (42 ≤ 35 + seg) := by omega
    simp [msuState, rd_set, rd_writeLoop, a1, a2, a3, a4, b1, b2]

/-- the state after the default modulation (two samples 0xFF, divider 0xFFFF, infinite loop, segment 0,
Immediate) was received by a `Dflt` device -/
def dfltModRes (s : State) (d : Array Nat) : State :=
  { s with modCycle := 2, modSegment := 0, modRep := setSel s.modRep 0 65535, modDiv := setSel s.modDiv 0 65535,
           modTrMode := 255, modTrValue := 0,
           ctl := (writeLoop (((((((s.ctl.setIfInBounds 37 65535).setIfInBounds 39 65535).setIfInBounds 32 0).setIfInBounds 33 0).setIfInBounds
                      35 1).setIfInBounds 34 0).setIfInBounds 41 255) 42 (fun i => rd (u64Words 0) i % 65536) 4).setIfInBounds 0 0,
           modMem0 := writeLoop s.modMem0 0 (fun i => rd (modBeginWords d) i % 65536) (modBeginWords d).size,
           modSwap := { s.modSwap with sysTime := s.dcSysTime, freqDiv := setSel s.modSwap.freqDiv 0 65535,
                                       cycle := setSel s.modSwap.cycle 0 2, mode := .immediate, stop := false, cur := 0,
                                       extMode := false,
                                       extLastLap := ((fpgaSysTime s.dcSysTime >>> 9) / sel s.modSwap.freqDiv 0) / sel s.modSwap.cycle 0,
                                       ticOff := setSel s.modSwap.ticOff 0 0, state := .infiniteLoop } }

theorem dflt_writeMod_eq (s : State) (d : Array Nat) (c : Dflt n s)
    (hflag : u8at d FwLayout.ModulationHead_flag_off = 7) (hsize : u8at d FwLayout.ModulationHead_size_off = 2)
    (htm : u8at d FwLayout.ModulationHead_transition_mode_off = 255)
    (hfd : u16at d FwLayout.ModulationHead_freq_div_off = 0xFFFF) (hrep : u16at d FwLayout.ModulationHead_rep_off = 0xFFFF)
    (htv : u64at d FwLayout.ModulationHead_transition_value_off = 0) :
    writeMod s d = .ok (dfltModRes s d, NO_ERR) := by
  have w := wf_of_dflt c
  have hseg : modSegOf d = 0 := by unfold modSegOf; rw [hflag]; decide
  have hB : hasFlag (u8at d FwLayout.ModulationHead_flag_off) MODULATION_FLAG_BEGIN = true := by rw [hflag]; decide
  have hE : hasFlag (u8at d FwLayout.ModulationHead_flag_off) MODULATION_FLAG_END = true := by rw [hflag]; decide
  have hU : hasFlag (u8at d FwLayout.ModulationHead_flag_off) MODULATION_FLAG_UPDATE = true := by rw [hflag]; decide
  have hv1 : validateTransitionMode s.modSegment (modSegOf d) (u16at d FwLayout.ModulationHead_rep_off)
      (u8at d FwLayout.ModulationHead_transition_mode_off) = false := by
    rw [hseg, c.modSegment, hrep, htm]; decide
  have hv2 : validateSilencerSettings s (sel s.stmDiv s.stmSegment) (u16at d FwLayout.ModulationHead_freq_div_off) = false := by
    simp [validateSilencerSettings, c.stmDiv, c.stmSegment, sel, hfd, c.minDivI, c.minDivP]
  rw [writeMod_begin s d w.toSized hB hv1 hv2, modTail_eq]
  simp only [hE, hU, if_true]
  have wb := wf_modBeginRes s d w
  have wt := wf_modTailState _ d wb
  have hmt : (modBeginRes s d).modTrMode = TRANSITION_MODE_IMMEDIATE := by
    show u8at d FwLayout.ModulationHead_transition_mode_off = _; rw [htm]; rfl
  have hmv : (modBeginRes s d).modTrValue = 0 := htv
  rw [hmt, hmv, hseg]
  have hsw : (modTailState (modBeginRes s d) d).modSwap = s.modSwap := rfl
  rw [modSegmentUpdate_imm _ 0 wt (by decide) (by rw [hsw]; exact c.modSwap.cur)
    (by rw [hsw]; simp [sel, c.modSwap.freqDiv0]) (by rw [hsw]; simp [sel, c.modSwap.cycle0])]
  have z1 := c.sized.ctl
  simp [dfltModRes, msuState, modTailState, modBeginRes, hseg, hsize, hfd, hrep, htm, htv, ADDR_MOD_CYCLE0, ADDR_MOD_FREQ_DIV0,
    ADDR_MOD_REP0, ADDR_MOD_MEM_WR_SEGMENT, ADDR_MOD_MEM_WR_PAGE, c.flagsInternal, TRANSITION_MODE_IMMEDIATE,
    TRANSITION_MODE_NONE, rd_set, z1, NO_ERR]

theorem dflt_dfltModRes (s : State) (d : Array Nat) (c : Dflt n s)
    (hsize : u8at d FwLayout.ModulationHead_size_off = 2) (hw0 : u16at d FwLayout.ModulationHead_size = 0xFFFF) :
    Dflt n (dfltModRes s d) := by
  have hr := c.regs
  simp [dfltRegs] at hr
  have hwsz : (modBeginWords d).size = 1 := by simp [modBeginWords, size_wordsAt, hsize]
  have hw0' : rd (modBeginWords d) 0 = 0xFFFF := by
    unfold modBeginWords; rw [rd_wordsAt, hsize]; simpa using hw0
  obtain ⟨z1, z2, z3, z4, z5, z6, z7⟩ := c.sized
  unfold dfltModRes
  exact {
    sized := by constructor <;> simp [*]
    regs := by
      simp [dfltRegs, rd_set, rd_writeLoop, z1, hr, u64Words]
      simp [rd]
    sil64 := by simpa [rd_set, rd_writeLoop] using c.sil64
    mode41 := by right; simp [rd_set, rd_writeLoop, z1]
    flag0 := by simp [rd_set, rd_writeLoop, z1]
    portA := c.portA, reads := c.reads, flagsInternal := c.flagsInternal, strict := c.strict,
    minDivI := c.minDivI, minDivP := c.minDivP
    modDiv := by simp [c.modDiv, setSel]
    modSegment := rfl
    stmDiv := c.stmDiv, stmSegment := c.stmSegment
    mod0 := by simp [rd_writeLoop, hwsz, z4, hw0']
    mod1 := c.mod1
    stm0 := c.stm0, stm1 := c.stm1, pc := c.pc, pwe := c.pwe
    modSwap := by
      refine ⟨rfl, rfl, rfl, rfl, ?_, ?_, ?_⟩ <;> simp [setSel]
    stmSwap := c.stmSwap
    numTr := c.numTr
    numTrEq := c.numTrEq
    modSwapWF := by
      obtain ⟨a1, a2, a3, a4⟩ := c.modSwapWF
      refine ⟨?_, a2, ?_, a4⟩ <;> simp [setSel]
    stmSwapWF := c.stmSwapWF }

/-- the state after the null gain (all drives zero, segment 0, with the SDK's Immediate → `GAIN_FLAG_UPDATE`)
was received by a `Dflt` device -/
def dfltGainRes (s : State) (d : Array Nat) : State :=
  { s with stmSegment := 0, stmCycle := setSel s.stmCycle 0 1, stmRep := setSel s.stmRep 0 0xFFFF,
           stmDiv := setSel s.stmDiv 0 0xFFFF, stmMode := setSel s.stmMode 0 1,
           ctl := ((((((((s.ctl.setIfInBounds 85 65535).setIfInBounds 87 65535).setIfInBounds 83 0).setIfInBounds 89 1).setIfInBounds
                      80 0).setIfInBounds 81 0).setIfInBounds 82 0).setIfInBounds 95 0).setIfInBounds 0 0,
           stmMem0 := writeLoop s.stmMem0 0 (fun i => rd (wordsAt d FwLayout.Gain_size s.numTr) i % 65536) s.numTr,
           stmSwap := { s.stmSwap with sysTime := s.dcSysTime, freqDiv := setSel s.stmSwap.freqDiv 0 65535,
                                       cycle := setSel s.stmSwap.cycle 0 1, mode := .syncIdx, stop := false, cur := 0,
                                       extMode := false,
                                       extLastLap := ((fpgaSysTime s.dcSysTime >>> 9) / sel s.stmSwap.freqDiv 0) / sel s.stmSwap.cycle 0,
                                       ticOff := setSel s.stmSwap.ticOff 0 0, state := .infiniteLoop } }

theorem dflt_writeGain_eq (s : State) (d : Array Nat) (c : Dflt n s)
    (hseg : u8at d FwLayout.Gain_segment_off = 0) (hflag : u8at d FwLayout.Gain_flag_off = 1) :
    writeGain s d = .ok (dfltGainRes s d, NO_ERR) := by
  have w := wf_of_dflt c
  have z1 := c.sized.ctl
  have hU : hasFlag 1 GAIN_FLAG_UPDATE = true := by decide
  unfold writeGain
  simp only [hseg, hflag, hU, if_true, Nat.not_lt_zero, Nat.lt_irrefl, if_false, gt_iff_lt, ADDR_STM_FREQ_DIV0, ADDR_STM_REP0,
    ADDR_STM_CYCLE0, ADDR_STM_MODE0, ADDR_STM_MEM_WR_SEGMENT, ADDR_STM_MEM_WR_PAGE, ADDR_STM_REQ_RD_SEGMENT,
    ADDR_STM_TRANSITION_MODE, Nat.add_zero, ctlWrite_main, Nat.reduceLT, ok_bind, STM_MODE_GAIN, TRANSITION_MODE_SYNC_IDX]
  rw [stmWriteWords_at _ _ _ 0 0 (by simp [reg, rd_set, z1, ADDR_STM_MEM_WR_SEGMENT, ADDR_STM_MEM_WR_PAGE])
    (by simp [reg, rd_set, z1, ADDR_STM_MEM_WR_SEGMENT, ADDR_STM_MEM_WR_PAGE]) (by decide)
    (by rw [size_wordsAt]; have := c.numTr; omega) (by rw [size_wordsAt]; have := c.numTr; omega)]
  simp only [ok_bind, if_true, size_wordsAt, Nat.zero_mul, Nat.zero_mod, Nat.zero_add, ctlWrite_main, Nat.reduceLT]
  have hf := flags_stm_req s.flagsInternal w.flags
  rw [saw_stm _ CTL_FLAG_STM_SET 0 .syncIdx
    { s.stmSwap with sysTime := s.dcSysTime, freqDiv := setSel s.stmSwap.freqDiv 0 65535,
                     cycle := setSel s.stmSwap.cycle 0 1, mode := .syncIdx, stop := false, cur := 0,
                     extMode := false,
                     extLastLap := ((fpgaSysTime s.dcSysTime >>> 9) / sel s.stmSwap.freqDiv 0) / sel s.stmSwap.cycle 0,
                     ticOff := setSel s.stmSwap.ticOff 0 0, state := .infiniteLoop }
    (by simp [z1]) (by exact hf.1) (by exact hf.2) (by simp [rd_set, z1]) (by decide)
    (by simp [decodeTMode, rd_set, z1, TRANSITION_MODE_SYNC_IDX]) ?_]
  · simp [dfltGainRes, c.flagsInternal, NO_ERR]
    rfl
  · show s.stmSwap.set _ _ _ _ _ _ = _
    rw [set_inf _ _ _ _ _ _ _ (Or.inl c.stmSwap.cur) (by simp [sel, c.stmSwap.freqDiv0]) (by simp [sel, c.stmSwap.cycle0])]
    simp [rd_set, z1]

theorem dflt_dfltGainRes (s : State) (d : Array Nat) (c : Dflt n s)
    (hz : ∀ i, i < s.numTr → u16at d (FwLayout.Gain_size + 2 * i) = 0) : Dflt n (dfltGainRes s d) := by
  have hr := c.regs
  simp [dfltRegs] at hr
  obtain ⟨z1, z2, z3, z4, z5, z6, z7⟩ := c.sized
  have hn := c.numTr
  unfold dfltGainRes
  exact {
    sized := by constructor <;> simp [*]
    regs := by simp [dfltRegs, rd_set, z1, hr]
    sil64 := by simpa [rd_set] using c.sil64
    mode41 := by simpa [rd_set] using c.mode41
    flag0 := by simp [rd_set, z1]
    portA := c.portA, reads := c.reads, flagsInternal := c.flagsInternal, strict := c.strict,
    minDivI := c.minDivI, minDivP := c.minDivP, modDiv := c.modDiv, modSegment := c.modSegment
    stmDiv := by simp [c.stmDiv, setSel]
    stmSegment := rfl
    mod0 := c.mod0, mod1 := c.mod1
    stm0 := by
      intro i hi
      simp only [rd_writeLoop, rd_wordsAt, z6]
      by_cases h1 : i < s.numTr
      · have : i < 262144 := by omega
        simp [h1, this, hz i h1]
      · have : ¬ (0 ≤ i ∧ i < 0 + s.numTr ∧ i < 262144) := by omega
        simp only [this, if_false]
        exact c.stm0 i hi
    stm1 := c.stm1, pc := c.pc, pwe := c.pwe, modSwap := c.modSwap
    stmSwap := by
      refine ⟨rfl, rfl, rfl, rfl, ?_, ?_, ?_⟩ <;> simp [setSel]
    numTr := c.numTr
    numTrEq := c.numTrEq
    modSwapWF := c.modSwapWF
    stmSwapWF := by
      obtain ⟨a1, a2, a3, a4⟩ := c.stmSwapWF
      refine ⟨?_, a2, ?_, a4⟩ <;> simp [setSel] }

end Autd3.P02
