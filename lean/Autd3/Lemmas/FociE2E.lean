import Autd3.Lemmas.Foci
/-!
End-to-end chain for C07: from the **executable** tests of the stream (`recOk`, `ssOk`, `trOk`,
membership in `focusBytes`) and decidable range conditions to the hypotheses of the error budget.
-/
namespace Autd3.Foci
open Autd3.Gen Autd3.Gen.Foci

/-- the executable transducer-position test gives the real inequality it encodes (scaled by `σ`) -/
theorem trOk1_real (t pos rl n2 : ℤ) (hn : 0 < n2) (h : trOk1 t pos rl n2 = true) :
    |(t : ℝ) - pos - sigma * (rl : ℝ) / (TRANS_SPACING_DEN * n2)| ≤ (|(pos : ℝ)| + 250 * sigma) / 262144 := by
  have hnr : (0 : ℝ) < n2 := by exact_mod_cast hn
  simp only [trOk1, decide_eq_true_eq] at h
  have hr : |(t : ℝ) * TRANS_SPACING_DEN * n2 - pos * TRANS_SPACING_DEN * n2 - sigma * rl| * 262144
      ≤ (|(pos : ℝ)| + 250 * sigma) * TRANS_SPACING_DEN * n2 := by
    rw [Int.natCast_natAbs, Int.natCast_natAbs] at h
    have := (Int.cast_le (R := ℝ)).mpr h
    push_cast at this
    exact this
  have hD : (0 : ℝ) < (TRANS_SPACING_DEN : ℝ) := by norm_num [TRANS_SPACING_DEN]
  have hden : (0 : ℝ) < TRANS_SPACING_DEN * n2 := by positivity
  have key : (t : ℝ) - pos - sigma * (rl : ℝ) / (TRANS_SPACING_DEN * n2)
      = ((t : ℝ) * TRANS_SPACING_DEN * n2 - pos * TRANS_SPACING_DEN * n2 - sigma * rl) / (TRANS_SPACING_DEN * n2) := by
    field_simp
  rw [key, abs_div, abs_of_pos hden, div_le_iff₀ hden, div_mul_eq_mul_div, le_div_iff₀ (by norm_num)]
  linarith

/-- isometry of the rotation in real coordinates: `‖Mᵀv/n − g‖ = ‖v − Mg/n‖` for `M = |q|²R(q)`, `n = |q|²` -/
theorem rot_iso_real (w x y z v1 v2 v3 g1 g2 g3 n m11 m12 m13 m21 m22 m23 m31 m32 m33 : ℝ)
    (hn0 : n ≠ 0) (hn : n = w * w + x * x + y * y + z * z)
    (h11 : m11 = w * w + x * x - y * y - z * z) (h12 : m12 = 2 * (x * y - z * w)) (h13 : m13 = 2 * (x * z + y * w))
    (h21 : m21 = 2 * (x * y + z * w)) (h22 : m22 = w * w - x * x + y * y - z * z) (h23 : m23 = 2 * (y * z - x * w))
    (h31 : m31 = 2 * (x * z - y * w)) (h32 : m32 = 2 * (y * z + x * w)) (h33 : m33 = w * w - x * x - y * y + z * z) :
    norm3 ((m11 * v1 + m21 * v2 + m31 * v3) / n - g1) ((m12 * v1 + m22 * v2 + m32 * v3) / n - g2)
          ((m13 * v1 + m23 * v2 + m33 * v3) / n - g3)
      = norm3 (v1 - (m11 * g1 + m12 * g2 + m13 * g3) / n) (v2 - (m21 * g1 + m22 * g2 + m23 * g3) / n)
          (v3 - (m31 * g1 + m32 * g2 + m33 * g3) / n) := by
  unfold norm3
  congr 1
  field_simp
  subst h11 h12 h13 h21 h22 h23 h31 h32 h33
  rw [hn]
  ring

theorem norm3_smul (k a b c : ℝ) (hk : 0 ≤ k) : norm3 (k * a) (k * b) (k * c) = k * norm3 a b c := by
  unfold norm3
  rw [show k * a * (k * a) + k * b * (k * b) + k * c * (k * c) = k * k * (a * a + b * b + c * c) by ring,
    Real.sqrt_mul (mul_self_nonneg k), Real.sqrt_mul_self hk]

theorem norm3_int (a b c : ℤ) : Real.sqrt (((a * a + b * b + c * c : ℤ)) : ℝ) = norm3 a b c := by
  unfold norm3; push_cast; rfl

/-- casts of the integer rotation to real polynomials -/
theorem mulT_cast (q : Quat) (v : V3) :
    ((q.mulT v).x : ℝ) = ((q.row 0).x : ℝ) * v.x + ((q.row 1).x : ℝ) * v.y + ((q.row 2).x : ℝ) * v.z ∧
    ((q.mulT v).y : ℝ) = ((q.row 0).y : ℝ) * v.x + ((q.row 1).y : ℝ) * v.y + ((q.row 2).y : ℝ) * v.z ∧
    ((q.mulT v).z : ℝ) = ((q.row 0).z : ℝ) * v.x + ((q.row 1).z : ℝ) * v.y + ((q.row 2).z : ℝ) * v.z := by
  simp only [Quat.mulT]; push_cast; exact ⟨rfl, rfl, rfl⟩

theorem mul_cast (q : Quat) (v : V3) :
    ((q.mul v).x : ℝ) = ((q.row 0).x : ℝ) * v.x + ((q.row 0).y : ℝ) * v.y + ((q.row 0).z : ℝ) * v.z ∧
    ((q.mul v).y : ℝ) = ((q.row 1).x : ℝ) * v.x + ((q.row 1).y : ℝ) * v.y + ((q.row 1).z : ℝ) * v.z ∧
    ((q.mul v).z : ℝ) = ((q.row 2).x : ℝ) * v.x + ((q.row 2).y : ℝ) * v.y + ((q.row 2).z : ℝ) * v.z := by
  simp only [Quat.mul, dot]; push_cast; exact ⟨rfl, rfl, rfl⟩

/-- the real isometry identity instantiated at an integer quaternion -/
theorem rot_iso_quat (q : Quat) (hq : 0 < q.n2) (v g : V3) (s : ℝ) :
    norm3 (((q.mulT v).x : ℝ) / q.n2 - s * g.x) (((q.mulT v).y : ℝ) / q.n2 - s * g.y) (((q.mulT v).z : ℝ) / q.n2 - s * g.z)
      = norm3 ((v.x : ℝ) - s * (q.mul g).x / q.n2) ((v.y : ℝ) - s * (q.mul g).y / q.n2) ((v.z : ℝ) - s * (q.mul g).z / q.n2) := by
  have hn0 : ((q.n2 : ℤ) : ℝ) ≠ 0 := by
    have : (0 : ℝ) < q.n2 := by exact_mod_cast hq
    exact ne_of_gt this
  obtain ⟨a1, a2, a3⟩ := mulT_cast q v
  obtain ⟨b1, b2, b3⟩ := mul_cast q g
  rw [a1, a2, a3, b1, b2, b3]
  have := rot_iso_real q.w q.x q.y q.z v.x v.y v.z (s * g.x) (s * g.y) (s * g.z) (q.n2 : ℝ)
    ((q.row 0).x) ((q.row 0).y) ((q.row 0).z) ((q.row 1).x) ((q.row 1).y) ((q.row 1).z)
    ((q.row 2).x) ((q.row 2).y) ((q.row 2).z) hn0
    (by simp only [Quat.n2]; push_cast; ring)
    (by simp [Quat.row]) (by simp [Quat.row]) (by simp [Quat.row])
    (by simp [Quat.row]) (by simp [Quat.row]) (by simp [Quat.row])
    (by simp [Quat.row]) (by simp [Quat.row]) (by simp [Quat.row])
  rw [this]
  congr 1 <;> ring

theorem gridId_zero : gridId 0 = (0, 0) := by decide

/-- ideal local transducer position in fixed-point units -/
noncomputable def gridU (i : ℕ) : ℝ × ℝ := (((gridId i).1 * TRANS_SPACING_NUM * UNITS_PER_MM : ℕ) / (TRANS_SPACING_DEN : ℝ),
  ((gridId i).2 * TRANS_SPACING_NUM * UNITS_PER_MM : ℕ) / (TRANS_SPACING_DEN : ℝ))

theorem trpos_close_real (i : ℕ) (hi : i < NUM_TRANS_IN_UNIT) :
    |(trX i : ℝ) - (gridU i).1| ≤ 2 / 5 ∧ |(trY i : ℝ) - (gridU i).2| ≤ 2 / 5 ∧ |(trZ i : ℝ) - 0| ≤ 2 / 5 := by
  obtain ⟨h1, h2, h3⟩ := trpos_close i hi
  have hD : (0 : ℝ) < (TRANS_SPACING_DEN : ℝ) := by norm_num [TRANS_SPACING_DEN]
  have conv : ∀ (t : ℤ) (g : ℕ), 5 * (t * TRANS_SPACING_DEN - (g : ℤ)).natAbs ≤ 2 * TRANS_SPACING_DEN →
      |(t : ℝ) - (g : ℝ) / (TRANS_SPACING_DEN : ℝ)| ≤ 2 / 5 := by
    intro t g h
    have h' : (5 : ℤ) * |t * TRANS_SPACING_DEN - (g : ℤ)| ≤ 2 * TRANS_SPACING_DEN := by
      rw [← Int.natCast_natAbs]; exact_mod_cast h
    have hr : (5 : ℝ) * |(t : ℝ) * TRANS_SPACING_DEN - g| ≤ 2 * TRANS_SPACING_DEN := by
      have := (Int.cast_le (R := ℝ)).mpr h'
      push_cast at this
      exact this
    have key : (t : ℝ) - (g : ℝ) / (TRANS_SPACING_DEN : ℝ) = ((t : ℝ) * TRANS_SPACING_DEN - g) / TRANS_SPACING_DEN := by
      field_simp
    rw [key, abs_div, abs_of_pos hD, div_le_iff₀ hD]
    linarith
  refine ⟨conv _ _ h1, conv _ _ h2, ?_⟩
  rw [h3]; norm_num

/-- `|x| ≤ k·σ` for an integer whose `natAbs` is bounded -/
theorem abs_cast_le (x : ℤ) (k : ℕ) (h : x.natAbs ≤ k * sigma) : |(x : ℝ)| ≤ k * sigma := by
  have h' : |x| ≤ ((k * sigma : ℕ) : ℤ) := by rw [← Int.natCast_natAbs]; exact_mod_cast h
  have := (Int.cast_le (R := ℝ)).mpr h'
  push_cast at this
  exact this


theorem fw_vs_focus_far_aux
    (r : Rec) (tr cw : ℕ) (px py pz ux uy uz lam Dg : ℝ) (b : ℕ)
    (hx : |(r.x : ℝ) - px| ≤ 4 / 5) (hy : |(r.y : ℝ) - py| ≤ 4 / 5) (hz : |(r.z : ℝ) - pz| ≤ 4 / 5)
    (htx : |(trX tr : ℝ) - ux| ≤ 2 / 5) (hty : |(trY tr : ℝ) - uy| ≤ 2 / 5) (htz : |(trZ tr : ℝ) - uz| ≤ 2 / 5)
    (hlam : 300 ≤ lam) (hc : |(cw : ℝ) - 64 * lam| ≤ 33 / 64)
    (hL : norm3 (px - ux) (py - uy) (pz - uz) ≤ 50000)
    (hDg : |Dg - norm3 (px - ux) (py - uy) (pz - uz)| ≤ 7 / 10)
    (hb : ∃ m : ℤ, |(b : ℝ) + 256 * Dg / lam - 256 * m| ≤ 1 / 2 + 1 / 8) :
    ∃ φ, fwDrive cw [r] tr = .ok (φ, r.io) ∧ ∃ k j : ℤ, (φ : ℤ) - b = k + 256 * j ∧ -5 ≤ k ∧ k ≤ 7 := by
  have comb : ∀ (a t p u : ℝ), |a - p| ≤ 4 / 5 → |t - u| ≤ 2 / 5 → |(a - t) - (p - u)| ≤ 6 / 5 := by
    intro a t p u h1 h2
    have a1 := abs_le.mp h1; have a2 := abs_le.mp h2
    rw [abs_le]; constructor <;> linarith
  apply fw_vs_focus_numeric r tr cw px py pz ux uy uz lam Dg (6 / 5) (7 / 10) b (-5) 7
    (by push_cast; exact comb _ _ _ _ hx htx) (by push_cast; exact comb _ _ _ _ hy hty)
    (by push_cast; exact comb _ _ _ _ hz htz) hlam hc hL hDg hb
  · norm_num
  · norm_num

/-- records: the three executable tests give `|record − ideal local coordinate| ≤ 4/5` under the magnitude bounds -/
theorem rec_within (q : Quat) (t0 p : V3) (r : Rec) (hq : 0 < q.n2) (hrec : recOk q t0 p r = true)
    (hA : (p.abs1 + t0.abs1).natAbs ≤ 8000 * sigma) (hB : ((p.sub t0).abs1).natAbs ≤ 2200 * sigma) :
    |(r.x : ℝ) - UNITS_PER_MM * ((localNum q t0 p).x : ℝ) / (q.n2 * sigma)| ≤ 4 / 5 ∧
    |(r.y : ℝ) - UNITS_PER_MM * ((localNum q t0 p).y : ℝ) / (q.n2 * sigma)| ≤ 4 / 5 ∧
    |(r.z : ℝ) - UNITS_PER_MM * ((localNum q t0 p).z : ℝ) / (q.n2 * sigma)| ≤ 4 / 5 := by
  have hs := sigma_pos
  have hU : (UNITS_PER_MM : ℝ) = 40 := by norm_num [UNITS_PER_MM]
  simp only [recOk, Bool.and_eq_true] at hrec
  obtain ⟨⟨hrx, hry⟩, hrz⟩ := hrec
  have hAr := abs_cast_le _ _ hA
  have hBr := abs_cast_le _ _ hB
  have a1 := (abs_le.mp hAr).2
  have b1 := (abs_le.mp hBr).2
  simp only [Nat.cast_ofNat] at a1 b1
  have e1 : (UNITS_PER_MM : ℝ) * ((p.abs1 + t0.abs1 : ℤ) : ℝ) / (sigma * 4194304) ≤ 40 * 8000 / 4194304 := by
    rw [hU, div_le_div_iff₀ (by positivity) (by norm_num)]
    nlinarith
  have e2 : (UNITS_PER_MM : ℝ) * (((p.sub t0).abs1 : ℤ) : ℝ) / (sigma * 524288) ≤ 40 * 2200 / 524288 := by
    rw [hU, div_le_div_iff₀ (by positivity) (by norm_num)]
    nlinarith
  have e3 : (1 : ℝ) / 2 + 40 * 8000 / 4194304 + 40 * 2200 / 524288 ≤ 4 / 5 := by norm_num
  have tol : ∀ (X num : ℤ), recOk1 X num q.n2 (p.abs1 + t0.abs1) ((p.sub t0).abs1) = true →
      |(X : ℝ) - UNITS_PER_MM * (num : ℝ) / (q.n2 * sigma)| ≤ 4 / 5 := by
    intro X num h
    have h1 := recOk1_real X num q.n2 _ _ hq h
    linarith
  exact ⟨tol _ _ hrx, tol _ _ hry, tol _ _ hrz⟩

/-- one coordinate of (stored transducer 0 + rotated grid offset − stored transducer i) -/
theorem tr_coord (n2 t0a tia posa rl : ℤ) (hq : 0 < n2) (hp : posa.natAbs ≤ 1000 * sigma)
    (h0 : trOk1 t0a posa 0 n2 = true) (h1 : trOk1 tia posa rl n2 = true) :
    |((t0a : ℝ) + (sigma : ℝ) / TRANS_SPACING_DEN * rl / n2) - tia| ≤ 2500 * sigma / 262144 := by
  have hnr : (0 : ℝ) < (n2 : ℝ) := by exact_mod_cast hq
  have hDEN : (0 : ℝ) < (TRANS_SPACING_DEN : ℝ) := by norm_num [TRANS_SPACING_DEN]
  have r0 := trOk1_real t0a posa 0 n2 hq h0
  have r1 := trOk1_real tia posa rl n2 hq h1
  have hpa := abs_cast_le posa 1000 hp
  simp only [Nat.cast_ofNat] at hpa
  have e : (sigma : ℝ) * (rl : ℝ) / (TRANS_SPACING_DEN * n2) = (sigma : ℝ) / TRANS_SPACING_DEN * rl / n2 := by
    field_simp
  rw [e] at r1
  simp only [Int.cast_zero, mul_zero, zero_div, sub_zero] at r0
  have a0 := abs_le.mp r0; have a1 := abs_le.mp r1
  rw [abs_le]; constructor <;> linarith

/-- the ideal local distance (focus ↔ grid position) against the physical distance to the stored
transducer: they differ by at most 7/10 unit when both stored positions pass the executable test -/
theorem dist_within (q : Quat) (pos t0 ti p : V3) (i : ℕ) (hq : 0 < q.n2)
    (ht0 : trOk q pos 0 t0 = true) (hti : trOk q pos i ti = true)
    (hpos : pos.x.natAbs ≤ 1000 * sigma ∧ pos.y.natAbs ≤ 1000 * sigma ∧ pos.z.natAbs ≤ 1000 * sigma) :
    |40 / (sigma : ℝ) * norm3 ((p.x : ℝ) - ti.x) ((p.y : ℝ) - ti.y) ((p.z : ℝ) - ti.z)
      - norm3 (UNITS_PER_MM * ((localNum q t0 p).x : ℝ) / (q.n2 * sigma) - (gridU i).1)
          (UNITS_PER_MM * ((localNum q t0 p).y : ℝ) / (q.n2 * sigma) - (gridU i).2)
          (UNITS_PER_MM * ((localNum q t0 p).z : ℝ) / (q.n2 * sigma) - 0)| ≤ 7 / 10 := by
  have hs := sigma_pos
  have hnr : (0 : ℝ) < (q.n2 : ℝ) := by exact_mod_cast hq
  have hU : (UNITS_PER_MM : ℝ) = 40 := by norm_num [UNITS_PER_MM]
  have hDEN : (0 : ℝ) < (TRANS_SPACING_DEN : ℝ) := by norm_num [TRANS_SPACING_DEN]
  set g : V3 := gridNum i with hg
  set w : V3 := p.sub t0 with hw
  set s : ℝ := (sigma : ℝ) / TRANS_SPACING_DEN with hsdef
  have hk : (0 : ℝ) ≤ 40 / (sigma : ℝ) := by positivity
  have hgz : g.z = 0 := rfl
  have hloc : localNum q t0 p = q.mulT w := rfl
  have hDeq : norm3 (UNITS_PER_MM * ((localNum q t0 p).x : ℝ) / (q.n2 * sigma) - (gridU i).1)
        (UNITS_PER_MM * ((localNum q t0 p).y : ℝ) / (q.n2 * sigma) - (gridU i).2)
        (UNITS_PER_MM * ((localNum q t0 p).z : ℝ) / (q.n2 * sigma) - 0)
      = 40 / (sigma : ℝ) * norm3 ((w.x : ℝ) - s * (q.mul g).x / q.n2) ((w.y : ℝ) - s * (q.mul g).y / q.n2)
          ((w.z : ℝ) - s * (q.mul g).z / q.n2) := by
    rw [← rot_iso_quat q hq w g s, ← norm3_smul _ _ _ _ hk, hloc, hU]
    have gx : (g.x : ℝ) = ((gridId i).1 * TRANS_SPACING_NUM : ℕ) := by simp [hg, gridNum]
    have gy : (g.y : ℝ) = ((gridId i).2 * TRANS_SPACING_NUM : ℕ) := by simp [hg, gridNum]
    congr 1
    · simp only [gridU, gx, hsdef]; push_cast; field_simp; rw [hU]; ring
    · simp only [gridU, gy, hsdef]; push_cast; field_simp; rw [hU]; ring
    · rw [hgz]; simp only [hsdef]; push_cast; field_simp; ring
  simp only [trOk, Bool.and_eq_true] at ht0 hti
  obtain ⟨⟨h0x, h0y⟩, h0z⟩ := ht0
  obtain ⟨⟨hix, hiy⟩, hiz⟩ := hti
  have g0 : q.mul (gridNum 0) = ⟨0, 0, 0⟩ := by
    simp [gridNum, gridId_zero, Quat.mul, dot]
  rw [g0] at h0x h0y h0z
  have cx := tr_coord q.n2 t0.x ti.x pos.x _ hq hpos.1 h0x hix
  have cy := tr_coord q.n2 t0.y ti.y pos.y _ hq hpos.2.1 h0y hiy
  have cz := tr_coord q.n2 t0.z ti.z pos.z _ hq hpos.2.2 h0z hiz
  have wx : (w.x : ℝ) = p.x - t0.x := by simp [hw, V3.sub]
  have wy : (w.y : ℝ) = p.y - t0.y := by simp [hw, V3.sub]
  have wz : (w.z : ℝ) = p.z - t0.z := by simp [hw, V3.sub]
  rw [hDeq, ← mul_sub, abs_mul, abs_of_nonneg hk]
  have tri := norm3_sub_le ((p.x : ℝ) - ti.x) ((p.y : ℝ) - ti.y) ((p.z : ℝ) - ti.z)
    ((w.x : ℝ) - s * (q.mul g).x / q.n2) ((w.y : ℝ) - s * (q.mul g).y / q.n2) ((w.z : ℝ) - s * (q.mul g).z / q.n2)
  have small := norm3_le_of_abs_le
    (((p.x : ℝ) - ti.x) - ((w.x : ℝ) - s * (q.mul g).x / q.n2))
    (((p.y : ℝ) - ti.y) - ((w.y : ℝ) - s * (q.mul g).y / q.n2))
    (((p.z : ℝ) - ti.z) - ((w.z : ℝ) - s * (q.mul g).z / q.n2)) (2500 * sigma / 262144)
    (by rw [wx]; convert cx using 2; ring) (by rw [wy]; convert cy using 2; ring) (by rw [wz]; convert cz using 2; ring)
  have hchain := le_trans tri small
  calc 40 / (sigma : ℝ) * |norm3 ((p.x : ℝ) - ti.x) ((p.y : ℝ) - ti.y) ((p.z : ℝ) - ti.z)
          - norm3 ((w.x : ℝ) - s * (q.mul g).x / q.n2) ((w.y : ℝ) - s * (q.mul g).y / q.n2) ((w.z : ℝ) - s * (q.mul g).z / q.n2)|
      ≤ 40 / (sigma : ℝ) * (7 / 4 * (2500 * sigma / 262144)) := mul_le_mul_of_nonneg_left hchain hk
    _ = 175000 / 262144 := by field_simp; ring
    _ ≤ 7 / 10 := by norm_num

/-- the Focus byte: membership in the admissible set, in the units of the error budget -/
theorem focus_within (p ti : V3) (C : ℤ) (b : ℕ) (hC : 300000 * (sigma : ℤ) ≤ C)
    (hb : b ∈ focusBytes (p.sub ti).norm2 C 0)
    (hD : (p.sub ti).norm2 * (UNITS_PER_MM * UNITS_PER_MM) ≤ (49999 * sigma : ℕ) * (49999 * sigma : ℕ)) :
    let Dg := 40 / (sigma : ℝ) * norm3 ((p.x : ℝ) - ti.x) ((p.y : ℝ) - ti.y) ((p.z : ℝ) - ti.z)
    Dg ≤ 49999 ∧ 300 ≤ (C : ℝ) / sigma / METER ∧
      ∃ m : ℤ, |(b : ℝ) + 256 * Dg / ((C : ℝ) / sigma / METER) - 256 * m| ≤ 1 / 2 + 1 / 8 := by
  intro Dg
  have hs := sigma_pos
  have hU : (UNITS_PER_MM : ℝ) = 40 := by norm_num [UNITS_PER_MM]
  have hM : (METER : ℝ) = 1000 := by norm_num [METER]
  have hk : (0 : ℝ) ≤ 40 / (sigma : ℝ) := by positivity
  have hCr : 300000 * (sigma : ℝ) ≤ (C : ℝ) := by exact_mod_cast hC
  have hCpos : 0 < C := by
    have : (0 : ℤ) < (sigma : ℤ) := by exact_mod_cast (by unfold sigma; positivity : 0 < sigma)
    omega
  have hlam : (300 : ℝ) ≤ (C : ℝ) / sigma / METER := by
    rw [hM, div_div, le_div_iff₀ (by positivity)]
    linarith
  have hN : Real.sqrt (((p.sub ti).norm2 : ℤ) : ℝ) = norm3 ((p.x : ℝ) - ti.x) ((p.y : ℝ) - ti.y) ((p.z : ℝ) - ti.z) := by
    have := norm3_int (p.x - ti.x) (p.y - ti.y) (p.z - ti.z)
    simp only [V3.norm2, V3.sub]
    rw [this]; push_cast; rfl
  have hDg' : Dg = 40 / (sigma : ℝ) * Real.sqrt (((p.sub ti).norm2 : ℤ) : ℝ) := by rw [hN]
  have hDgle : Dg ≤ 49999 := by
    rw [hDg']
    have hDr : (((p.sub ti).norm2 : ℤ) : ℝ) * (40 * 40) ≤ (49999 * sigma) * (49999 * sigma) := by
      have := (Int.cast_le (R := ℝ)).mpr hD
      push_cast at this
      rw [hU] at this
      exact this
    have : Real.sqrt (((p.sub ti).norm2 : ℤ) : ℝ) ≤ 49999 * sigma / 40 := by
      rw [Real.sqrt_le_iff]
      constructor
      · positivity
      · nlinarith
    calc 40 / (sigma : ℝ) * Real.sqrt (((p.sub ti).norm2 : ℤ) : ℝ) ≤ 40 / (sigma : ℝ) * (49999 * sigma / 40) :=
          mul_le_mul_of_nonneg_left this hk
      _ = 49999 := by field_simp
  refine ⟨hDgle, hlam, ?_⟩
  obtain ⟨n, hn, hbn⟩ := focusBytes_sound _ C 0 b hb
  have hS := focus_test_real _ C n hCpos hn
  have hlam0 : (0 : ℝ) < (C : ℝ) / sigma / METER := by linarith
  have hSeq : (stepsK : ℝ) * Real.sqrt (((p.sub ti).norm2 : ℤ) : ℝ) / C = 256 * Dg / ((C : ℝ) / sigma / METER) := by
    have hCr0 : (C : ℝ) ≠ 0 := by
      have : (0 : ℝ) < C := by exact_mod_cast hCpos
      exact ne_of_gt this
    rw [hDg', hM]
    simp only [stepsK, ULTRASOUND_FREQ]
    push_cast
    field_simp
    ring
  rw [hSeq] at hS
  have hSle : 256 * Dg / ((C : ℝ) / sigma / METER) ≤ 131072 := by
    rw [div_le_iff₀ hlam0]
    linarith
  obtain ⟨mm, hm⟩ : ∃ mm : ℕ, b + n = 256 * mm := ⟨(b + n) / 256, by omega⟩
  refine ⟨(mm : ℤ), ?_⟩
  have hmr : (b : ℝ) + n = 256 * (mm : ℝ) := by exact_mod_cast hm
  have e : (b : ℝ) + 256 * Dg / ((C : ℝ) / sigma / METER) - 256 * ((mm : ℤ) : ℝ)
      = 256 * Dg / ((C : ℝ) / sigma / METER) - n := by
    rw [Int.cast_natCast]; linarith
  rw [e]
  have : 256 * Dg / ((C : ℝ) / sigma / METER) / 1048576 ≤ 1 / 8 := by
    rw [div_le_iff₀ (by norm_num)]; linarith
  simp only [Int.cast_natCast] at hS
  linarith

theorem fw_vs_focus_e2e
    (q : Quat) (pos t0 ti p : V3) (C : ℤ) (cw i b : ℕ) (r : Rec)
    (hi : i < NUM_TRANS_IN_UNIT) (hq : 0 < q.n2)
    (hrec : recOk q t0 p r = true) (hss : ssOk cw C = true)
    (ht0 : trOk q pos 0 t0 = true) (hti : trOk q pos i ti = true)
    (hb : b ∈ focusBytes (p.sub ti).norm2 C 0)
    (hC : 300000 * (sigma : ℤ) ≤ C)
    (hpos : pos.x.natAbs ≤ 1000 * sigma ∧ pos.y.natAbs ≤ 1000 * sigma ∧ pos.z.natAbs ≤ 1000 * sigma)
    (hA : (p.abs1 + t0.abs1).natAbs ≤ 8000 * sigma) (hB : ((p.sub t0).abs1).natAbs ≤ 2200 * sigma)
    (hD : (p.sub ti).norm2 * (UNITS_PER_MM * UNITS_PER_MM) ≤ (49999 * sigma : ℕ) * (49999 * sigma : ℕ)) :
    ∃ φ, fwDrive cw [r] i = .ok (φ, r.io) ∧ ∃ k j : ℤ, (φ : ℤ) - b = k + 256 * j ∧ -5 ≤ k ∧ k ≤ 7 := by
  obtain ⟨hx, hy, hz⟩ := rec_within q t0 p r hq hrec hA hB
  obtain ⟨htx, hty, htz⟩ := trpos_close_real i hi
  have hc : |(cw : ℝ) - 64 * ((C : ℝ) / sigma / METER)| ≤ 33 / 64 := by
    have := ssOk_real cw C hss
    simpa [SOUND_SPEED_SCALE] using this
  have hdiff := dist_within q pos t0 ti p i hq ht0 hti hpos
  obtain ⟨hDgle, hlam, hb'⟩ := focus_within p ti C b hC hb hD
  have hL : norm3 (UNITS_PER_MM * ((localNum q t0 p).x : ℝ) / (q.n2 * sigma) - (gridU i).1)
        (UNITS_PER_MM * ((localNum q t0 p).y : ℝ) / (q.n2 * sigma) - (gridU i).2)
        (UNITS_PER_MM * ((localNum q t0 p).z : ℝ) / (q.n2 * sigma) - 0) ≤ 50000 := by
    have := (abs_le.mp hdiff).1
    linarith
  exact fw_vs_focus_far_aux r i cw _ _ _ _ _ 0 _ _ b hx hy hz htx hty htz hlam hc hL hdiff hb'
end Autd3.Foci
