import Autd3.Lemmas.P02Defaults
/-!
# `defaults_are_fixpoint`, frame level: `ecat_recv` of the frames `pack_op` emits for the five default datagrams
-/
namespace Autd3.P02
open Autd3 Autd3.Fw Autd3.Gen.Cpu Autd3.Gen

variable {n : Nat}

/-- `Dflt` does not speak about the acknowledgement byte, the message id, the rx byte -/
theorem dflt_bookkeeping {s : State} (c : Dflt n s) (a l r : Nat) :
    Dflt n { s with ack := a, lastMsgId := l, rxData := r } :=
  { sized := ⟨c.sized.ctl, c.sized.phaseCorr, c.sized.pwe, c.sized.modMem0, c.sized.modMem1, c.sized.stmMem0, c.sized.stmMem1⟩,
    regs := c.regs, sil64 := c.sil64, mode41 := c.mode41, flag0 := c.flag0, portA := c.portA,
    reads := c.reads, flagsInternal := c.flagsInternal, strict := c.strict, minDivI := c.minDivI, minDivP := c.minDivP,
    modDiv := c.modDiv, modSegment := c.modSegment, stmDiv := c.stmDiv, stmSegment := c.stmSegment, mod0 := c.mod0,
    mod1 := c.mod1, stm0 := c.stm0, stm1 := c.stm1, pc := c.pc, pwe := c.pwe, modSwap := ⟨c.modSwap.cur, c.modSwap.state, c.modSwap.stop, c.modSwap.extMode, c.modSwap.freqDiv0, c.modSwap.cycle0, c.modSwap.ticOff0⟩,
    stmSwap := ⟨c.stmSwap.cur, c.stmSwap.state, c.stmSwap.stop, c.stmSwap.extMode, c.stmSwap.freqDiv0, c.stmSwap.cycle0, c.stmSwap.ticOff0⟩,
    numTr := c.numTr, numTrEq := c.numTrEq, modSwapWF := c.modSwapWF, stmSwapWF := c.stmSwapWF }

/-- … nor does the final `CTL_FLAG := flags_internal` write of `ecat_recv` disturb it -/
theorem dflt_ack {s : State} (c : Dflt n s) (a : Nat) :
    Dflt n { s with ack := a, ctl := s.ctl.setIfInBounds 0 (s.flagsInternal % 65536) } := by
  have hr := c.regs
  have hne : ∀ p ∈ dfltRegs, p.1 ≠ 0 := by decide
  exact { sized := ⟨by simp [c.sized.ctl], c.sized.phaseCorr, c.sized.pwe, c.sized.modMem0, c.sized.modMem1, c.sized.stmMem0, c.sized.stmMem1⟩
          regs := fun p hp => by simp [rd_set, hne p hp, hr p hp]
          sil64 := by simpa [rd_set] using c.sil64
          mode41 := by simpa [rd_set] using c.mode41
          flag0 := by simp [rd_set, c.sized.ctl, c.flagsInternal]
          portA := c.portA, reads := c.reads, flagsInternal := c.flagsInternal, strict := c.strict,
          minDivI := c.minDivI, minDivP := c.minDivP, modDiv := c.modDiv, modSegment := c.modSegment,
          stmDiv := c.stmDiv, stmSegment := c.stmSegment, mod0 := c.mod0, mod1 := c.mod1, stm0 := c.stm0,
          stm1 := c.stm1, pc := c.pc, pwe := c.pwe, modSwap := c.modSwap, stmSwap := c.stmSwap, numTr := c.numTr,
          numTrEq := c.numTrEq, modSwapWF := c.modSwapWF, stmSwapWF := c.stmSwapWF }

theorem dflt_readFpga {s : State} (c : Dflt n s) (l : Nat) : Dflt n (readFpgaState { s with lastMsgId := l }) := by
  rw [readFpgaState_frame]
  exact dflt_bookkeeping c s.ack l _

/-- a default datagram through `ecat_recv`: if its handler keeps `Dflt` and acknowledges, so does the frame -/
theorem dflt_ecatRecv (s : State) (frame : Array Nat) (c : Dflt n s)
    (hid : s.lastMsgId ≠ u8at frame DrvLayout.Header_msg_id_off)
    (hlt : u8at frame DrvLayout.Header_msg_id_off &&& 0x80 = 0)
    (hslot : u16at frame DrvLayout.Header_slot_2_offset_off = 0)
    (Q : Nat → Prop)
    (hh : ∀ s0, Dflt n s0 → ∃ s1, handlePayload s0 (frame.extract DrvLayout.Header_size frame.size) = .ok (s1, NO_ERR) ∧
      Dflt n s1 ∧ Q (rd s1.ctl 41)) :
    ∃ s', ecatRecv s frame = .ok s' ∧ Dflt n s' ∧ s'.ack = u8at frame DrvLayout.Header_msg_id_off ∧ Q (rd s'.ctl 41) := by
  obtain ⟨s1, e1, c1, q1⟩ := hh _ (dflt_readFpga c (u8at frame DrvLayout.Header_msg_id_off))
  rw [ecatRecv_slot1 s frame s1 NO_ERR hid hlt hslot e1]
  have : ¬ (NO_ERR &&& ERR_BIT ≠ 0) := by decide
  simp only [this, if_false]
  exact ⟨_, rfl, dflt_ack c1 _, rfl, by simpa [rd_set] using q1⟩

theorem handlePayload_silencer (s : State) (d : Array Nat) (ht : u8at d 0 = TAG_SILENCER) :
    handlePayload s d = configSilencer s d := by
  unfold handlePayload; simp [ht, TAG_SILENCER, Dispatch.arms, List.find?, handlerOf]
theorem handlePayload_pwe (s : State) (d : Array Nat) (ht : u8at d 0 = TAG_CONFIG_PULSE_WIDTH_ENCODER) :
    handlePayload s d = configPwe s d := by
  unfold handlePayload; simp [ht, TAG_CONFIG_PULSE_WIDTH_ENCODER, Dispatch.arms, List.find?, handlerOf]
theorem handlePayload_phaseCorr (s : State) (d : Array Nat) (ht : u8at d 0 = TAG_PHASE_CORRECTION) :
    handlePayload s d = phaseCorrOp s d := by
  unfold handlePayload; simp [ht, TAG_PHASE_CORRECTION, Dispatch.arms, List.find?, handlerOf]
theorem handlePayload_mod (s : State) (d : Array Nat) (ht : u8at d 0 = TAG_MODULATION) :
    handlePayload s d = writeMod s d := by
  unfold handlePayload; simp [ht, TAG_MODULATION, Dispatch.arms, List.find?, handlerOf]
theorem handlePayload_gain (s : State) (d : Array Nat) (ht : u8at d 0 = TAG_GAIN) :
    handlePayload s d = writeGain s d := by
  unfold handlePayload; simp [ht, TAG_GAIN, Dispatch.arms, List.find?, handlerOf]

/-! ### frames of the driver model -/

theorem frame_msgId (t : Wire.Tx) : u8at t.frame DrvLayout.Header_msg_id_off = t.msgId % 256 := by
  unfold Wire.Tx.frame u8at
  rw [show DrvLayout.Header_msg_id_off = 0 from rfl, rd_append_left _ _ _ (by simp)]
  simp [rd]

theorem frame_slot2 (t : Wire.Tx) (h : t.slot2 = 0) : u16at t.frame DrvLayout.Header_slot_2_offset_off = 0 := by
  unfold Wire.Tx.frame u16at u8at
  rw [show DrvLayout.Header_slot_2_offset_off = 2 from rfl, rd_append_left _ _ _ (by simp), rd_append_left _ _ _ (by simp)]
  simp [rd, h]

theorem frame_payload (t : Wire.Tx) : t.frame.extract DrvLayout.Header_size t.frame.size = t.payload := by
  apply ext_rd
  · simp [Wire.Tx.frame, DrvLayout.Header_size]
  · intro i _
    rw [rd_extract]
    unfold Wire.Tx.frame
    rw [rd_append_right _ _ _ (by simp [DrvLayout.Header_size])]
    simp [DrvLayout.Header_size]

/-- the zeroed transmit buffer -/
theorem tx0_payload_size : ({} : Wire.Tx).payload.size = 622 := by
  simp [Drv.EC_OUTPUT_FRAME_SIZE, DrvLayout.Header_size]

def checkPack (r : Except Wire.Err (Wire.Op × Wire.Tx × Nat)) (p : Wire.Op → Wire.Tx → Bool) : Bool :=
  match r with | .ok (op, t, _) => p op t | .error _ => false

theorem checkPack_sound {r p} (h : checkPack r p = true) : ∃ op t sz, r = .ok (op, t, sz) ∧ p op t = true := by
  unfold checkPack at h
  split at h
  · exact ⟨_, _, _, rfl, h⟩
  · simp at h

theorem pack_silencer_default (numTr : Nat) :
    ∃ op t sz, Wire.packOp (Wire.Op.ofDg (.silencerSteps 10 40 true)) numTr {} = .ok (op, t, sz) ∧
      t.msgId = 1 ∧ t.slot2 = 0 ∧ u8at t.payload 0 = TAG_SILENCER ∧ u8at t.payload 1 = 4 ∧
      u16at t.payload 2 = 10 ∧ u16at t.payload 4 = 40 ∧ op.done = true := by
  have e : Wire.packOp (Wire.Op.ofDg (.silencerSteps 10 40 true)) numTr {} =
      Wire.packOp (Wire.Op.ofDg (.silencerSteps 10 40 true)) 0 {} := rfl
  rw [e]
  have h : checkPack (Wire.packOp (Wire.Op.ofDg (.silencerSteps 10 40 true)) 0 {})
      (fun op t => decide (t.msgId = 1) && decide (t.slot2 = 0) && decide (u8at t.payload 0 = TAG_SILENCER) &&
        decide (u8at t.payload 1 = 4) && decide (u16at t.payload 2 = 10) && decide (u16at t.payload 4 = 40) && op.done) = true := by
    decide +kernel
  obtain ⟨op, t, sz, e1, e2⟩ := checkPack_sound h
  simp only [Bool.and_eq_true, decide_eq_true_eq] at e2
  exact ⟨op, t, sz, e1, e2.1.1.1.1.1.1, e2.1.1.1.1.1.2, e2.1.1.1.1.2, e2.1.1.1.2, e2.1.1.2, e2.1.2, e2.2⟩

theorem pack_mod_default (numTr : Nat) :
    ∃ op t sz, Wire.packOp (Wire.Op.ofDg (.modulation 0 (some (255, 0)) 0xFFFF 0xFFFF #[0xFF, 0xFF])) numTr {} = .ok (op, t, sz) ∧
      t.msgId = 1 ∧ t.slot2 = 0 ∧ u8at t.payload 0 = TAG_MODULATION ∧
      u8at t.payload FwLayout.ModulationHead_flag_off = 7 ∧ u8at t.payload FwLayout.ModulationHead_size_off = 2 ∧
      u8at t.payload FwLayout.ModulationHead_transition_mode_off = 255 ∧
      u16at t.payload FwLayout.ModulationHead_freq_div_off = 0xFFFF ∧ u16at t.payload FwLayout.ModulationHead_rep_off = 0xFFFF ∧
      u64at t.payload FwLayout.ModulationHead_transition_value_off = 0 ∧
      u16at t.payload FwLayout.ModulationHead_size = 0xFFFF ∧ op.done = true := by
  have e : Wire.packOp (Wire.Op.ofDg (.modulation 0 (some (255, 0)) 0xFFFF 0xFFFF #[0xFF, 0xFF])) numTr {} =
      Wire.packOp (Wire.Op.ofDg (.modulation 0 (some (255, 0)) 0xFFFF 0xFFFF #[0xFF, 0xFF])) 0 {} := by
    simp only [Wire.packOp, Wire.Op.pack, Wire.Op.ofDg]
  rw [e]
  have h : checkPack (Wire.packOp (Wire.Op.ofDg (.modulation 0 (some (255, 0)) 0xFFFF 0xFFFF #[0xFF, 0xFF])) 0 {})
      (fun op t => decide (t.msgId = 1) && decide (t.slot2 = 0) && decide (u8at t.payload 0 = TAG_MODULATION) &&
        decide (u8at t.payload FwLayout.ModulationHead_flag_off = 7) && decide (u8at t.payload FwLayout.ModulationHead_size_off = 2) &&
        decide (u8at t.payload FwLayout.ModulationHead_transition_mode_off = 255) &&
        decide (u16at t.payload FwLayout.ModulationHead_freq_div_off = 0xFFFF) &&
        decide (u16at t.payload FwLayout.ModulationHead_rep_off = 0xFFFF) &&
        decide (u64at t.payload FwLayout.ModulationHead_transition_value_off = 0) &&
        decide (u16at t.payload FwLayout.ModulationHead_size = 0xFFFF) && op.done) = true := by
    decide +kernel
  obtain ⟨op, t, sz, e1, e2⟩ := checkPack_sound h
  simp only [Bool.and_eq_true, decide_eq_true_eq] at e2
  obtain ⟨⟨⟨⟨⟨⟨⟨⟨⟨⟨a1, a2⟩, a3⟩, a4⟩, a5⟩, a6⟩, a7⟩, a8⟩, a9⟩, a10⟩, a11⟩ := e2
  exact ⟨op, t, sz, e1, a1, a2, a3, a4, a5, a6, a7, a8, a9, a10, a11⟩

open Autd3.Wire (put8 put16 putBytes putWords tagValue) in
theorem pwe_payload_bytes (P0 table : Array Nat) (tag : Nat) (hs : P0.size = 622) :
    u8at (putWords (tagValue P0 0 tag 0) 2 table 256) 0 = tag % 256 ∧
    ∀ i, i < 256 → u16at (putWords (tagValue P0 0 tag 0) 2 table 256) (2 + 2 * i) = rd table i % 65536 := by
  have hfit : 2 + 2 * 256 ≤ (tagValue P0 0 tag 0).size := by simp [tagValue, hs]
  constructor
  · unfold u8at
    rw [putWords_eq, rd_putWordsRec _ _ _ _ _ hfit]
    simp [tagValue, rd_put8, hs]
  · intro i hi
    unfold u16at u8at
    rw [putWords_eq, rd_putWordsRec _ _ _ _ _ hfit, rd_putWordsRec _ _ _ _ _ hfit]
    have e1 : (2 ≤ 2 + 2 * i ∧ 2 + 2 * i < 2 + 2 * 256) := by omega
    have e2 : (2 ≤ 2 + 2 * i + 1 ∧ 2 + 2 * i + 1 < 2 + 2 * 256) := by omega
    have e3 : (2 + 2 * i - 2) % 2 = 0 := by omega
    have e4 : (2 + 2 * i + 1 - 2) % 2 = 1 := by omega
    have e5 : (2 + 2 * i - 2) / 2 = i := by omega
    have e6 : (2 + 2 * i + 1 - 2) / 2 = i := by omega
    simp only [e1, e2, e3, e4, e5, e6, and_self, if_true]
    generalize rd table i = v
    simp
    omega

open Autd3.Wire (put8 put16 putBytes putWords tagValue) in
theorem pack_pwe_default (numTr : Nat) :
    ∃ op t sz, Wire.packOp (Wire.Op.ofDg (.pwe ((Array.range 256).map Tables.drvAsin))) numTr {} = .ok (op, t, sz) ∧
      t.msgId = 1 ∧ t.slot2 = 0 ∧ u8at t.payload 0 = TAG_CONFIG_PULSE_WIDTH_ENCODER ∧
      (∀ i, i < 256 → u16at t.payload (2 + 2 * i) = Tables.drvAsin i) ∧ op.done = true := by
  have hn : min Drv.PWE_BUF_SIZE ((({} : Wire.Tx).payload.size - 0 - DrvLayout.Pwe_size + 1) / 2) = 256 := by
    rw [tx0_payload_size]; decide
  have e : Wire.packOp (Wire.Op.ofDg (.pwe ((Array.range 256).map Tables.drvAsin))) numTr {} =
      .ok ({ dg := .pwe ((Array.range 256).map Tables.drvAsin), done := true },
           { msgId := 1, slot2 := 0,
             payload := putWords (tagValue ({} : Wire.Tx).payload 0 Drv.TAG_ConfigPulseWidthEncoder 0) 2
               ((Array.range 256).map Tables.drvAsin) 256 }, DrvLayout.Pwe_size + Drv.PWE_BUF_SIZE * 2) := by
    simp only [Wire.packOp, Wire.Op.pack, Wire.Op.ofDg, hn]
    rfl
  obtain ⟨b0, b1⟩ := pwe_payload_bytes ({} : Wire.Tx).payload ((Array.range 256).map Tables.drvAsin)
    Drv.TAG_ConfigPulseWidthEncoder tx0_payload_size
  refine ⟨_, _, _, e, rfl, rfl, b0, ?_, rfl⟩
  intro i hi
  rw [b1 i hi, rd_map_range]
  have hb : Tables.drvAsin i < 65536 := by unfold Tables.drvAsin; omega
  simp only [hi, if_true]
  omega

theorem rd_tx0 (j : Nat) : rd ({} : Wire.Tx).payload j = 0 := by
  show rd (Array.replicate _ 0) j = 0
  rw [rd_replicate]; split <;> rfl

open Autd3.Wire (put8 put16 putBytes putWords tagValue) in
theorem pack_phaseCorr_default (numTr : Nat) :
    ∃ op t sz, Wire.packOp (Wire.Op.ofDg (.phaseCorr (Array.replicate numTr 0))) numTr {} = .ok (op, t, sz) ∧
      t.msgId = 1 ∧ t.slot2 = 0 ∧ u8at t.payload 0 = TAG_PHASE_CORRECTION ∧
      (∀ i, u16at t.payload (2 + 2 * i) = 0) ∧ op.done = true := by
  have e : Wire.packOp (Wire.Op.ofDg (.phaseCorr (Array.replicate numTr 0))) numTr {} =
      .ok ({ dg := .phaseCorr (Array.replicate numTr 0), done := true },
           { msgId := 1, slot2 := 0,
             payload := putBytes (tagValue ({} : Wire.Tx).payload 0 Drv.TAG_PhaseCorrection 0) 2
               (Array.replicate numTr 0) 0 (min numTr (({} : Wire.Tx).payload.size - 0 - DrvLayout.PhaseCorr_size)) },
           DrvLayout.PhaseCorr_size + ((numTr + 1) / 2) * 2) := by
    simp only [Wire.packOp, Wire.Op.pack, Wire.Op.ofDg]
    rfl
  have hsz : (tagValue ({} : Wire.Tx).payload 0 Drv.TAG_PhaseCorrection 0).size = 622 := by
    simp [tagValue, Drv.EC_OUTPUT_FRAME_SIZE, DrvLayout.Header_size]
  have hfit : 2 + min numTr (({} : Wire.Tx).payload.size - 0 - DrvLayout.PhaseCorr_size) ≤
      (tagValue ({} : Wire.Tx).payload 0 Drv.TAG_PhaseCorrection 0).size := by
    rw [hsz, tx0_payload_size]; simp only [DrvLayout.PhaseCorr_size]; omega
  have hbyte : ∀ j, 2 ≤ j → rd (putBytes (tagValue ({} : Wire.Tx).payload 0 Drv.TAG_PhaseCorrection 0) 2
               (Array.replicate numTr 0) 0 (min numTr (({} : Wire.Tx).payload.size - 0 - DrvLayout.PhaseCorr_size))) j % 256 = 0 := by
    intro j hj
    rw [putBytes_eq, rd_putBytesRec _ _ _ _ _ _ hfit]
    split
    · rw [rd_replicate]; split <;> rfl
    · have h0 : j ≠ 0 := by omega
      have h1 : j ≠ 1 := by omega
      simp only [tagValue, rd_put8, h0, h1, false_and, if_false, rd_tx0, Nat.add_eq, Nat.zero_add]
      rw [rd_replicate]; split <;> rfl
  refine ⟨_, _, _, e, rfl, rfl, ?_, ?_, rfl⟩
  · unfold u8at
    rw [putBytes_eq, rd_putBytesRec _ _ _ _ _ _ hfit]
    have : ¬ (2 ≤ 0 ∧ 0 < 2 + min numTr (({} : Wire.Tx).payload.size - 0 - DrvLayout.PhaseCorr_size)) := by omega
    rw [if_neg this]
    simp [tagValue, rd_put8, Drv.EC_OUTPUT_FRAME_SIZE, DrvLayout.Header_size, Drv.TAG_PhaseCorrection, TAG_PHASE_CORRECTION]
  · intro i
    unfold u16at u8at
    rw [hbyte _ (by omega), hbyte _ (by omega)]

open Autd3.Wire (put8 put16 putBytes putWords tagValue) in
theorem gain_payload_bytes (P0 ws : Array Nat) (n : Nat) (hs : P0.size = 622) (hz : ∀ j, rd P0 j = 0)
    (hws : ∀ k, rd ws k = 0) (hn : 4 + 2 * n ≤ 622) (j : Nat) :
    rd (putWords (put8 (put8 (put8 (put8 P0 0 Drv.TAG_Gain) 1 0) 2 Drv.GainControlFlags_UPDATE) 3 0) 4 ws n) j % 256 =
      if j = 0 then Drv.TAG_Gain % 256 else if j = 2 then Drv.GainControlFlags_UPDATE % 256 else 0 := by
  rw [putWords_eq, rd_putWordsRec _ _ _ _ _ (by simp [hs]; omega)]
  split
  · rename_i hin
    have h0 : j ≠ 0 := by omega
    have h2 : j ≠ 2 := by omega
    simp only [h0, h2, if_false, hws]
    split <;> rfl
  · simp only [rd_put8, size_put8, hs, hz]
    by_cases h0 : j = 0
    · subst h0; simp
    · by_cases h2 : j = 2
      · subst h2; simp
      · by_cases h3 : j = 3
        · subst h3; simp
        · by_cases h1 : j = 1
          · subst h1; simp
          · simp [h0, h1, h2, h3]

open Autd3.Wire (put8 put16 putBytes putWords tagValue) in
theorem pack_gain_default (numTr : Nat) :
    ∃ op t sz, Wire.packOp (Wire.Op.ofDg (.gain 0 (some (255, 0)) (Array.replicate numTr 0))) numTr {} = .ok (op, t, sz) ∧
      t.msgId = 1 ∧ t.slot2 = 0 ∧ u8at t.payload 0 = TAG_GAIN ∧
      u8at t.payload FwLayout.Gain_segment_off = 0 ∧ u8at t.payload FwLayout.Gain_flag_off = 1 ∧
      (∀ i, u16at t.payload (FwLayout.Gain_size + 2 * i) = 0) ∧ op.done = true := by
  have e : Wire.packOp (Wire.Op.ofDg (.gain 0 (some (255, 0)) (Array.replicate numTr 0))) numTr {} =
      .ok ({ dg := .gain 0 (some (255, 0)) (Array.replicate numTr 0), done := true },
           { msgId := 1, slot2 := 0,
             payload := putWords (put8 (put8 (put8 (put8 ({} : Wire.Tx).payload 0 Drv.TAG_Gain) 1 0) 2 Drv.GainControlFlags_UPDATE) 3 0) 4
               (Array.replicate numTr 0) (min numTr ((({} : Wire.Tx).payload.size - 0 - DrvLayout.Gain_size + 1) / 2)) },
           DrvLayout.Gain_size + numTr * 2) := by
    simp only [Wire.packOp, Wire.Op.pack, Wire.Op.ofDg]
    rfl
  have hn : 4 + 2 * min numTr ((({} : Wire.Tx).payload.size - 0 - DrvLayout.Gain_size + 1) / 2) ≤ 622 := by
    rw [tx0_payload_size]; simp only [DrvLayout.Gain_size]; omega
  have hws : ∀ k, rd (Array.replicate numTr 0) k = 0 := by
    intro k; rw [rd_replicate]; split <;> rfl
  have hhead := gain_payload_bytes ({} : Wire.Tx).payload (Array.replicate numTr 0) _ tx0_payload_size rd_tx0 hws hn
  refine ⟨_, _, _, e, rfl, rfl, ?_, ?_, ?_, ?_, rfl⟩
  · unfold u8at; rw [hhead]; decide
  · unfold u8at; rw [hhead]; decide
  · unfold u8at; rw [hhead]; decide
  · intro i
    unfold u16at u8at
    rw [hhead, hhead]
    have a1 : FwLayout.Gain_size + 2 * i ≠ 0 := by simp only [FwLayout.Gain_size]; omega
    have a2 : FwLayout.Gain_size + 2 * i ≠ 2 := by simp only [FwLayout.Gain_size]; omega
    have a4 : FwLayout.Gain_size + 2 * i + 1 ≠ 2 := by simp only [FwLayout.Gain_size]; omega
    simp only [a1, a2, a4, if_false, Nat.add_eq_zero_iff, Nat.succ_ne_zero, and_false, Nat.mul_zero, Nat.add_zero]

/-! ### the five frames -/

/-- shared last step: a frame from a transmit buffer with message id 1, empty slot 2, whose handler keeps
`Dflt`, keeps `Dflt` through `ecat_recv` -/
theorem dflt_frame_q (s : State) (t : Wire.Tx) (c : Dflt n s) (hid : s.lastMsgId ≠ 1) (hm : t.msgId = 1) (hs : t.slot2 = 0)
    (Q : Nat → Prop)
    (hh : ∀ s0, Dflt n s0 → ∃ s1, handlePayload s0 t.payload = .ok (s1, NO_ERR) ∧ Dflt n s1 ∧ Q (rd s1.ctl 41)) :
    ∃ s', ecatRecv s t.frame = .ok s' ∧ Dflt n s' ∧ s'.ack = 1 ∧ Q (rd s'.ctl 41) := by
  have e1 : u8at t.frame DrvLayout.Header_msg_id_off = 1 := by rw [frame_msgId, hm]
  obtain ⟨s', r1, r2, r3, r4⟩ := dflt_ecatRecv s t.frame c (by rw [e1]; exact hid) (by rw [e1]; decide) (frame_slot2 t hs) Q
    (by rw [frame_payload]; exact hh)
  exact ⟨s', r1, r2, by rw [r3, e1], r4⟩

theorem dflt_frame (s : State) (t : Wire.Tx) (c : Dflt n s) (hid : s.lastMsgId ≠ 1) (hm : t.msgId = 1) (hs : t.slot2 = 0)
    (hh : ∀ s0, Dflt n s0 → ∃ s1, handlePayload s0 t.payload = .ok (s1, NO_ERR) ∧ Dflt n s1) :
    ∃ s', ecatRecv s t.frame = .ok s' ∧ Dflt n s' ∧ s'.ack = 1 := by
  obtain ⟨s', r1, r2, r3, _⟩ := dflt_frame_q s t c hid hm hs (fun _ => True) (fun s0 c0 => by
    obtain ⟨s1, a, b⟩ := hh s0 c0; exact ⟨s1, a, b, trivial⟩)
  exact ⟨s', r1, r2, r3⟩

theorem dflt_frame_silencer (s : State) (numTr : Nat) (c : Dflt n s) (hid : s.lastMsgId ≠ 1) :
    ∃ op t sz s', Wire.packOp (Wire.Op.ofDg (.silencerSteps 10 40 true)) numTr {} = .ok (op, t, sz) ∧ op.done = true ∧
      ecatRecv s t.frame = .ok s' ∧ Dflt n s' ∧ s'.ack = 1 := by
  obtain ⟨op, t, sz, e, h1, h2, h3, h4, h5, h6, h7⟩ := pack_silencer_default numTr
  obtain ⟨s', r⟩ := dflt_frame s t c hid h1 h2 (fun s0 c0 => by
    rw [handlePayload_silencer _ _ h3]; exact dflt_configSilencer s0 _ c0 h4 h5 h6)
  exact ⟨op, t, sz, s', e, h7, r⟩

theorem dflt_frame_pwe (s : State) (numTr : Nat) (c : Dflt n s) (hid : s.lastMsgId ≠ 1) :
    ∃ op t sz s', Wire.packOp (Wire.Op.ofDg (.pwe ((Array.range 256).map Tables.drvAsin))) numTr {} = .ok (op, t, sz) ∧
      op.done = true ∧ ecatRecv s t.frame = .ok s' ∧ Dflt n s' ∧ s'.ack = 1 := by
  obtain ⟨op, t, sz, e, h1, h2, h3, h4, h5⟩ := pack_pwe_default numTr
  obtain ⟨s', r⟩ := dflt_frame s t c hid h1 h2 (fun s0 c0 => by
    rw [handlePayload_pwe _ _ h3]; exact dflt_configPwe s0 _ c0 h4)
  exact ⟨op, t, sz, s', e, h5, r⟩

theorem dflt_frame_phaseCorr (s : State) (numTr : Nat) (c : Dflt n s) (hid : s.lastMsgId ≠ 1) :
    ∃ op t sz s', Wire.packOp (Wire.Op.ofDg (.phaseCorr (Array.replicate numTr 0))) numTr {} = .ok (op, t, sz) ∧
      op.done = true ∧ ecatRecv s t.frame = .ok s' ∧ Dflt n s' ∧ s'.ack = 1 := by
  obtain ⟨op, t, sz, e, h1, h2, h3, h4, h5⟩ := pack_phaseCorr_default numTr
  obtain ⟨s', r⟩ := dflt_frame s t c hid h1 h2 (fun s0 c0 => by
    rw [handlePayload_phaseCorr _ _ h3]; exact dflt_phaseCorrOp s0 _ c0 (fun i _ => h4 i))
  exact ⟨op, t, sz, s', e, h5, r⟩

theorem dflt_frame_mod (s : State) (numTr : Nat) (c : Dflt n s) (hid : s.lastMsgId ≠ 1) :
    ∃ op t sz s', Wire.packOp (Wire.Op.ofDg (.modulation 0 (some (255, 0)) 0xFFFF 0xFFFF #[0xFF, 0xFF])) numTr {} = .ok (op, t, sz) ∧
      op.done = true ∧ ecatRecv s t.frame = .ok s' ∧ Dflt n s' ∧ s'.ack = 1 ∧ Obs.modTransition s' = .ok .immediate := by
  obtain ⟨op, t, sz, e, h1, h2, h3, g1, g2, g3, g4, g5, g6, g7, h5⟩ := pack_mod_default numTr
  obtain ⟨s', r1, r2, r3, r4⟩ := dflt_frame_q s t c hid h1 h2 (fun v => v = 255) (fun s0 c0 => by
    rw [handlePayload_mod _ _ h3]
    refine ⟨_, dflt_writeMod_eq s0 _ c0 g1 g2 g3 g4 g5 g6, dflt_dfltModRes s0 _ c0 g2 g7, ?_⟩
    simp [dfltModRes, rd_set, rd_writeLoop, c0.sized.ctl])
  refine ⟨op, t, sz, s', e, h5, r1, r2, r3, ?_⟩
  simp [Obs.modTransition, decodeTMode, reg, ADDR_MOD_TRANSITION_MODE, r4, TRANSITION_MODE_SYNC_IDX, TRANSITION_MODE_SYS_TIME,
    TRANSITION_MODE_GPIO, TRANSITION_MODE_EXT, TRANSITION_MODE_IMMEDIATE]

/-- the null gain is sent for the device's own number of transducers -/
theorem dflt_frame_gain (s : State) (c : Dflt n s) (hid : s.lastMsgId ≠ 1) :
    ∃ op t sz s', Wire.packOp (Wire.Op.ofDg (.gain 0 (some (255, 0)) (Array.replicate s.numTr 0))) s.numTr {} = .ok (op, t, sz) ∧
      op.done = true ∧ ecatRecv s t.frame = .ok s' ∧ Dflt n s' ∧ s'.ack = 1 := by
  obtain ⟨op, t, sz, e, h1, h2, h3, g1, g2, g3, h5⟩ := pack_gain_default s.numTr
  obtain ⟨s', r⟩ := dflt_frame s t c hid h1 h2 (fun s0 c0 => by
    rw [handlePayload_gain _ _ h3]
    exact ⟨_, dflt_writeGain_eq s0 _ c0 g1 g2, dflt_dfltGainRes s0 _ c0 (fun i _ => g3 i)⟩)
  exact ⟨op, t, sz, s', e, h5, r⟩

end Autd3.P02
