import Autd3.Model.F32
import Mathlib.Tactic.Linarith
import Mathlib.Tactic.Ring
import Mathlib.Tactic.FieldSimp
import Mathlib.Tactic.Positivity
import Mathlib.Tactic.NormNum
import Mathlib.Algebra.Order.Field.Power
import Mathlib.Data.Rat.Cast.Order
/-!
Semantics of `Model/F32.lean` in ℚ: the value of a float, and what each modelled operation does to
it (rounding error of `round`, hence of `div`, `mul`, `ofNat`; comparisons; `isInteger`;
`roundHalfAway` followed by the `u16` cast).  Used by `Props/C06.lean`.
-/
namespace Autd3.F32

/-- the rational value (0 for NaN and ±∞, which the users of this function exclude) -/
def toRat : F32 → ℚ
  | fin s m e => (if s then -1 else 1) * (m : ℚ) * (2 : ℚ) ^ e
  | _ => 0

theorem two_zpow_pos (e : ℤ) : (0 : ℚ) < (2 : ℚ) ^ e := by positivity

/-! ### nearest integer -/

theorem rne_err_int (n d : ℕ) (hd : 0 < d) :
    2 * ((rne n d : ℤ) * d - n) ≤ d ∧ -(d : ℤ) ≤ 2 * ((rne n d : ℤ) * d - n) := by
  have h1 : d * (n / d) + n % d = n := Nat.div_add_mod n d
  have h2 : n % d < d := Nat.mod_lt _ hd
  unfold rne
  simp only []
  generalize hq : n / d = q at *
  generalize hr : n % d = r at *
  have e1 : ((q : ℤ) + 1) * d = (d : ℤ) * q + d := by ring
  have e0 : (q : ℤ) * d = (d : ℤ) * q := by ring
  have h1' : (d : ℤ) * q + r = n := by exact_mod_cast h1
  split
  · rw [e0]; constructor <;> omega
  · split
    · push_cast; rw [e1]; constructor <;> omega
    · split
      · rw [e0]; constructor <;> omega
      · push_cast; rw [e1]; constructor <;> omega

theorem rne_err (n d : ℕ) (hd : 0 < d) : |(rne n d : ℚ) - (n : ℚ) / d| ≤ 1 / 2 := by
  obtain ⟨h1, h2⟩ := rne_err_int n d hd
  have hd' : (0 : ℚ) < d := by exact_mod_cast hd
  have h1' : 2 * ((rne n d : ℚ) * d - n) ≤ d := by exact_mod_cast h1
  have h2' : -(d : ℚ) ≤ 2 * ((rne n d : ℚ) * d - n) := by exact_mod_cast h2
  have hy : (n : ℚ) = (n : ℚ) / d * d := by field_simp
  rw [hy] at h1' h2'
  generalize (n : ℚ) / d = y at *
  rw [abs_le]
  constructor <;> by_contra h <;> rw [not_le] at h <;> nlinarith

/-! ### scaling by a power of two -/

theorem scaleDiv_pos (n d : ℕ) (e : ℤ) (hd : 0 < d) : 0 < (scaleDiv n d e).2 := by
  unfold scaleDiv; split
  · exact Nat.mul_pos hd (Nat.pow_pos (by norm_num))
  · exact hd

theorem scaleDiv_eq (n d : ℕ) (e : ℤ) (hd : 0 < d) :
    ((scaleDiv n d e).1 : ℚ) / (scaleDiv n d e).2 = (n : ℚ) / d / (2 : ℚ) ^ e := by
  have hd' : (d : ℚ) ≠ 0 := by exact_mod_cast hd.ne'
  unfold scaleDiv; split
  · rename_i h
    obtain ⟨k, rfl⟩ := Int.eq_ofNat_of_zero_le h
    simp only [Int.toNat_natCast, zpow_natCast]
    push_cast
    field_simp
  · rename_i h
    obtain ⟨k, hk⟩ := Int.eq_ofNat_of_zero_le (show 0 ≤ -e by omega)
    have he : e = -(k : ℤ) := by omega
    subst he
    simp only [neg_neg, Int.toNat_natCast, zpow_neg, zpow_natCast]
    push_cast
    field_simp

theorem geTwoPow_iff (n d : ℕ) (k : ℤ) (hd : 0 < d) :
    geTwoPow n d k = true ↔ (2 : ℚ) ^ k ≤ (n : ℚ) / d := by
  have hb := scaleDiv_pos n d k hd
  have he := scaleDiv_eq n d k hd
  have hb' : (0 : ℚ) < (scaleDiv n d k).2 := by exact_mod_cast hb
  unfold geTwoPow
  rw [decide_eq_true_iff]
  have h2 := two_zpow_pos k
  constructor
  · intro h
    have h' : ((scaleDiv n d k).2 : ℚ) ≤ (scaleDiv n d k).1 := by exact_mod_cast h
    have : (1 : ℚ) ≤ ((scaleDiv n d k).1 : ℚ) / (scaleDiv n d k).2 := by
      rw [le_div_iff₀ hb']; linarith
    rw [he, le_div_iff₀ h2] at this
    linarith
  · intro h
    have : (1 : ℚ) ≤ ((scaleDiv n d k).1 : ℚ) / (scaleDiv n d k).2 := by
      rw [he, le_div_iff₀ h2]; linarith
    rw [le_div_iff₀ hb'] at this
    have : ((scaleDiv n d k).2 : ℚ) ≤ (scaleDiv n d k).1 := by linarith
    exact_mod_cast this

/-- `floorLog2Q n d` is `⌊log₂ (n/d)⌋` -/
theorem floorLog2Q_spec (n d : ℕ) (hn : 0 < n) (hd : 0 < d) :
    (2 : ℚ) ^ (floorLog2Q n d) ≤ (n : ℚ) / d ∧ (n : ℚ) / d < (2 : ℚ) ^ (floorLog2Q n d + 1) := by
  have hd' : (0 : ℚ) < d := by exact_mod_cast hd
  have hn1 : (2 : ℚ) ^ (Nat.log2 n) ≤ n := by exact_mod_cast Nat.log2_self_le hn.ne'
  have hn2 : (n : ℚ) < (2 : ℚ) ^ (Nat.log2 n + 1) := by exact_mod_cast (Nat.lt_log2_self (n := n))
  have hd1 : (2 : ℚ) ^ (Nat.log2 d) ≤ d := by exact_mod_cast Nat.log2_self_le hd.ne'
  have hd2 : (d : ℚ) < (2 : ℚ) ^ (Nat.log2 d + 1) := by exact_mod_cast (Nat.lt_log2_self (n := d))
  have two_ne : (2 : ℚ) ≠ 0 := by norm_num
  -- 2^(k-1) < n/d < 2^(k+1)
  have hlo : (2 : ℚ) ^ ((Nat.log2 n : ℤ) - (Nat.log2 d : ℤ) - 1) < (n : ℚ) / d := by
    rw [lt_div_iff₀ hd']
    have : (2 : ℚ) ^ ((Nat.log2 n : ℤ) - (Nat.log2 d : ℤ) - 1) * (2 : ℚ) ^ (Nat.log2 d + 1) = (2 : ℚ) ^ (Nat.log2 n) := by
      rw [← zpow_natCast, ← zpow_natCast, ← zpow_add₀ two_ne]; congr 1; push_cast; ring
    have hp := two_zpow_pos ((Nat.log2 n : ℤ) - (Nat.log2 d : ℤ) - 1)
    calc (2 : ℚ) ^ ((Nat.log2 n : ℤ) - (Nat.log2 d : ℤ) - 1) * d
        < (2 : ℚ) ^ ((Nat.log2 n : ℤ) - (Nat.log2 d : ℤ) - 1) * (2 : ℚ) ^ (Nat.log2 d + 1) :=
          mul_lt_mul_of_pos_left hd2 hp
      _ = (2 : ℚ) ^ (Nat.log2 n) := this
      _ ≤ n := hn1
  have hhi : (n : ℚ) / d < (2 : ℚ) ^ ((Nat.log2 n : ℤ) - (Nat.log2 d : ℤ) + 1) := by
    rw [div_lt_iff₀ hd']
    have : (2 : ℚ) ^ ((Nat.log2 n : ℤ) - (Nat.log2 d : ℤ) + 1) * (2 : ℚ) ^ (Nat.log2 d) = (2 : ℚ) ^ (Nat.log2 n + 1) := by
      rw [← zpow_natCast, ← zpow_natCast, ← zpow_add₀ two_ne]; congr 1; push_cast; ring
    have hp := two_zpow_pos ((Nat.log2 n : ℤ) - (Nat.log2 d : ℤ) + 1)
    calc (n : ℚ) < (2 : ℚ) ^ (Nat.log2 n + 1) := hn2
      _ = (2 : ℚ) ^ ((Nat.log2 n : ℤ) - (Nat.log2 d : ℤ) + 1) * (2 : ℚ) ^ (Nat.log2 d) := this.symm
      _ ≤ (2 : ℚ) ^ ((Nat.log2 n : ℤ) - (Nat.log2 d : ℤ) + 1) * d :=
          mul_le_mul_of_nonneg_left hd1 hp.le
  unfold floorLog2Q
  simp only []
  split
  · rename_i h
    exact ⟨(geTwoPow_iff n d _ hd).1 h, hhi⟩
  · rename_i h
    have h' : ¬ (2 : ℚ) ^ ((Nat.log2 n : ℤ) - (Nat.log2 d : ℤ)) ≤ (n : ℚ) / d := fun hh => h ((geTwoPow_iff n d _ hd).2 hh)
    rw [not_le] at h'
    refine ⟨hlo.le, ?_⟩
    have : (Nat.log2 n : ℤ) - (Nat.log2 d : ℤ) - 1 + 1 = (Nat.log2 n : ℤ) - (Nat.log2 d : ℤ) := by ring
    rw [this]; exact h'

/-! ### rounding to binary32 -/

/-- the value `round` produces for `n/d` (before the overflow test) -/
def roundVal (n d : ℕ) : ℚ :=
  (rne (scaleDiv n d (ulpExp n d)).1 (scaleDiv n d (ulpExp n d)).2 : ℚ) * (2 : ℚ) ^ (ulpExp n d)

/-- half an ulp -/
theorem roundVal_err (n d : ℕ) (hd : 0 < d) :
    |roundVal n d - (n : ℚ) / d| ≤ (2 : ℚ) ^ (ulpExp n d) / 2 := by
  have h1 := rne_err (scaleDiv n d (ulpExp n d)).1 (scaleDiv n d (ulpExp n d)).2 (scaleDiv_pos n d _ hd)
  rw [scaleDiv_eq n d _ hd] at h1
  have hp := two_zpow_pos (ulpExp n d)
  unfold roundVal
  generalize (rne (scaleDiv n d (ulpExp n d)).1 (scaleDiv n d (ulpExp n d)).2 : ℚ) = R at *
  generalize (n : ℚ) / d = x at *
  generalize (2 : ℚ) ^ (ulpExp n d) = u at *
  have hx : x = x / u * u := by field_simp
  rw [abs_le] at h1 ⊢
  obtain ⟨h1, h2⟩ := h1
  constructor
  · have := mul_le_mul_of_nonneg_right h1 hp.le
    nlinarith
  · have := mul_le_mul_of_nonneg_right h2 hp.le
    nlinarith

theorem roundVal_nonneg (n d : ℕ) : 0 ≤ roundVal n d := by
  unfold roundVal; positivity

theorem roundPos_some (n d m : ℕ) (e : ℤ) (h : roundPos n d = some (m, e)) :
    (m : ℚ) * (2 : ℚ) ^ e = roundVal n d := by
  unfold roundPos at h
  simp only [] at h
  unfold roundVal
  by_cases hm : rne (scaleDiv n d (ulpExp n d)).1 (scaleDiv n d (ulpExp n d)).2 = 2 ^ 24
  · rw [if_pos hm] at h
    split at h
    · cases h
    · injection h with h
      injection h with h1 h2
      subst h1; subst h2
      rw [hm, zpow_add₀ (by norm_num : (2 : ℚ) ≠ 0)]
      push_cast; ring
  · rw [if_neg hm] at h
    split at h
    · cases h
    · injection h with h
      injection h with h1 h2
      subst h1; subst h2; rfl

/-- `round` gives ±∞ (overflow) or a finite value equal to `± roundVal` -/
theorem round_spec (neg : Bool) (n d : ℕ) (hn : 0 < n) :
    round neg n d = inf neg ∨
    ∃ m e, round neg n d = fin neg m e ∧ (m : ℚ) * (2 : ℚ) ^ e = roundVal n d := by
  unfold round
  rw [if_neg hn.ne']
  cases h : roundPos n d with
  | none => left; rfl
  | some me =>
    obtain ⟨m, e⟩ := me
    right; exact ⟨m, e, rfl, roundPos_some n d m e h⟩

theorem ulpExp_le (n d : ℕ) (hn : 0 < n) (hd : 0 < d) (K : ℤ) (hx : (n : ℚ) / d < (2 : ℚ) ^ K)
    (hK : -125 ≤ K) : ulpExp n d ≤ K - 24 := by
  obtain ⟨h1, _⟩ := floorLog2Q_spec n d hn hd
  have : (2 : ℚ) ^ (floorLog2Q n d) < (2 : ℚ) ^ K := lt_of_le_of_lt h1 hx
  rw [zpow_lt_zpow_iff_right₀ (by norm_num : (1 : ℚ) < 2)] at this
  unfold ulpExp; omega

/-- in the normal range the half-ulp is at most `2^-24` of the value -/
theorem ulpExp_rel (n d : ℕ) (hn : 0 < n) (hd : 0 < d) (hx : (2 : ℚ) ^ (-126 : ℤ) ≤ (n : ℚ) / d) :
    (2 : ℚ) ^ (ulpExp n d) / 2 ≤ (n : ℚ) / d * (2 : ℚ) ^ (-24 : ℤ) := by
  obtain ⟨h1, h2⟩ := floorLog2Q_spec n d hn hd
  have : (2 : ℚ) ^ (-126 : ℤ) < (2 : ℚ) ^ (floorLog2Q n d + 1) := lt_of_le_of_lt hx h2
  rw [zpow_lt_zpow_iff_right₀ (by norm_num : (1 : ℚ) < 2)] at this
  have he : ulpExp n d = floorLog2Q n d + (-23) := by unfold ulpExp; omega
  rw [he, zpow_add₀ (by norm_num : (2 : ℚ) ≠ 0)]
  have h24 : (2 : ℚ) ^ (-23 : ℤ) / 2 = (2 : ℚ) ^ (-24 : ℤ) := by norm_num
  calc (2 : ℚ) ^ (floorLog2Q n d) * (2 : ℚ) ^ (-23 : ℤ) / 2
      = (2 : ℚ) ^ (floorLog2Q n d) * ((2 : ℚ) ^ (-23 : ℤ) / 2) := by ring
    _ = (2 : ℚ) ^ (floorLog2Q n d) * (2 : ℚ) ^ (-24 : ℤ) := by rw [h24]
    _ ≤ (n : ℚ) / d * (2 : ℚ) ^ (-24 : ℤ) := mul_le_mul_of_nonneg_right h1 (two_zpow_pos _).le

/-- below the normal range the result is tiny -/
theorem roundVal_tiny (n d : ℕ) (hn : 0 < n) (hd : 0 < d) (hx : (n : ℚ) / d < (2 : ℚ) ^ (-126 : ℤ)) :
    roundVal n d ≤ (2 : ℚ) ^ (-125 : ℤ) := by
  have h1 := roundVal_err n d hd
  have h2 := ulpExp_le n d hn hd (-125) (lt_trans hx (by norm_num)) (by norm_num)
  have h3 : (2 : ℚ) ^ (ulpExp n d) ≤ (2 : ℚ) ^ (-149 : ℤ) :=
    zpow_le_zpow_right₀ (by norm_num) (by omega)
  rw [abs_le] at h1
  have : (2 : ℚ) ^ (-126 : ℤ) + (2 : ℚ) ^ (-149 : ℤ) / 2 ≤ (2 : ℚ) ^ (-125 : ℤ) := by norm_num
  obtain ⟨_, h1⟩ := h1
  generalize (2 : ℚ) ^ (-126 : ℤ) = a at *
  generalize (2 : ℚ) ^ (-149 : ℤ) = b at *
  generalize (2 : ℚ) ^ (-125 : ℤ) = c at *
  linarith

/-- `round` with the error relative to the exact value: overflow, or within `2^-24` of the value,
or (below the normal range) a tiny result -/
theorem round_rel (neg : Bool) (n d : ℕ) (hn : 0 < n) (hd : 0 < d) :
    round neg n d = inf neg ∨
    ∃ m e, round neg n d = fin neg m e ∧
      (|(m : ℚ) * (2 : ℚ) ^ e - (n : ℚ) / d| ≤ (n : ℚ) / d * (2 : ℚ) ^ (-24 : ℤ) ∨
        (m : ℚ) * (2 : ℚ) ^ e ≤ (2 : ℚ) ^ (-125 : ℤ)) := by
  rcases round_spec neg n d hn with h | ⟨m, e, h, hv⟩
  · left; exact h
  · right
    refine ⟨m, e, h, ?_⟩
    rw [hv]
    rcases le_or_gt ((2 : ℚ) ^ (-126 : ℤ)) ((n : ℚ) / d) with hx | hx
    · left; exact le_trans (roundVal_err n d hd) (ulpExp_rel n d hn hd hx)
    · right; exact roundVal_tiny n d hn hd hx

theorem roundPos_ne_none (n d : ℕ) (hu : ulpExp n d ≤ 103) : roundPos n d ≠ none := by
  unfold roundPos
  dsimp only []
  by_cases hm : rne (scaleDiv n d (ulpExp n d)).1 (scaleDiv n d (ulpExp n d)).2 = 2 ^ 24
  · rw [if_pos hm, if_neg (by show ¬ (104 < ulpExp n d + 1); omega)]; exact Option.some_ne_none _
  · rw [if_neg hm, if_neg (by show ¬ (104 < ulpExp n d); omega)]; exact Option.some_ne_none _

/-- no overflow below `2^127` -/
theorem round_finite (neg : Bool) (n d : ℕ) (hn : 0 < n) (hd : 0 < d)
    (hx : (n : ℚ) / d < (2 : ℚ) ^ (127 : ℤ)) :
    ∃ m e, round neg n d = fin neg m e ∧ (m : ℚ) * (2 : ℚ) ^ e = roundVal n d := by
  have hu := ulpExp_le n d hn hd 127 hx (by norm_num)
  have hne := roundPos_ne_none n d (by omega)
  unfold round
  rw [if_neg hn.ne']
  cases h : roundPos n d with
  | none => exact absurd h hne
  | some me =>
    obtain ⟨m, e⟩ := me
    exact ⟨m, e, rfl, roundPos_some n d m e h⟩

/-! ### the results have 24-bit mantissas -/

/-- a float whose mantissa fits in 24 bits (every decoded bit pattern, every result of an operation) -/
def Is32 : F32 → Prop
  | fin _ m _ => m < 2 ^ 24
  | _ => True

instance (f : F32) : Decidable (Is32 f) := by
  cases f <;> unfold Is32 <;> infer_instance

theorem rne_le_of_lt (a b K : ℕ) (hb : 0 < b) (h : a < K * b) : rne a b ≤ K := by
  obtain ⟨h1, _⟩ := rne_err_int a b hb
  by_contra hc
  rw [not_le] at hc
  have h2 : (K + 1) * b ≤ rne a b * b := Nat.mul_le_mul_right b hc
  have h2' : ((K : ℤ) + 1) * b ≤ (rne a b : ℤ) * b := by exact_mod_cast h2
  have h' : (a : ℤ) < (K : ℤ) * b := by exact_mod_cast h
  have hb' : (0 : ℤ) < b := by exact_mod_cast hb
  have e1 : ((K : ℤ) + 1) * b = (K : ℤ) * b + b := by ring
  rw [e1] at h2'
  omega

theorem roundPos_mantissa (n d m : ℕ) (e : ℤ) (hn : 0 < n) (hd : 0 < d)
    (h : roundPos n d = some (m, e)) : m < 2 ^ 24 := by
  have two_ne : (2 : ℚ) ≠ 0 := by norm_num
  -- the scaled value is below 2^24
  have hb := scaleDiv_pos n d (ulpExp n d) hd
  have hlt : (scaleDiv n d (ulpExp n d)).1 < 2 ^ 24 * (scaleDiv n d (ulpExp n d)).2 := by
    have he := scaleDiv_eq n d (ulpExp n d) hd
    obtain ⟨_, h2⟩ := floorLog2Q_spec n d hn hd
    have hb' : (0 : ℚ) < (scaleDiv n d (ulpExp n d)).2 := by exact_mod_cast hb
    have hu : floorLog2Q n d + 1 ≤ ulpExp n d + 24 := by unfold ulpExp; omega
    have h3 : (2 : ℚ) ^ (floorLog2Q n d + 1) ≤ (2 : ℚ) ^ (ulpExp n d + 24) :=
      zpow_le_zpow_right₀ (by norm_num) hu
    have hp := two_zpow_pos (ulpExp n d)
    have : ((scaleDiv n d (ulpExp n d)).1 : ℚ) / (scaleDiv n d (ulpExp n d)).2 < 2 ^ 24 := by
      rw [he, div_lt_iff₀ hp]
      calc (n : ℚ) / d < (2 : ℚ) ^ (floorLog2Q n d + 1) := h2
        _ ≤ (2 : ℚ) ^ (ulpExp n d + 24) := h3
        _ = 2 ^ 24 * (2 : ℚ) ^ (ulpExp n d) := by rw [zpow_add₀ two_ne]; norm_num; ring
    rw [div_lt_iff₀ hb'] at this
    exact_mod_cast this
  have hr := rne_le_of_lt _ _ (2 ^ 24) hb hlt
  unfold roundPos at h
  dsimp only [] at h
  by_cases hm : rne (scaleDiv n d (ulpExp n d)).1 (scaleDiv n d (ulpExp n d)).2 = 2 ^ 24
  · rw [if_pos hm] at h
    split at h
    · cases h
    · injection h with h; injection h with h1 _; omega
  · rw [if_neg hm] at h
    split at h
    · cases h
    · injection h with h; injection h with h1 _; omega

theorem is32_round (neg : Bool) (n d : ℕ) (hd : 0 < d) : Is32 (round neg n d) := by
  unfold round
  split
  · show (0 : ℕ) < 2 ^ 24; norm_num
  · rename_i hn
    cases h : roundPos n d with
    | none => trivial
    | some me =>
      obtain ⟨m, e⟩ := me
      exact roundPos_mantissa n d m e (Nat.pos_of_ne_zero hn) hd h

theorem is32_ofNat (n : ℕ) : Is32 (ofNat n) := is32_round _ _ _ Nat.one_pos

theorem is32_mul (a b : F32) : Is32 (mul a b) := by
  cases a with
  | nan => cases b <;> trivial
  | inf s =>
    cases b with
    | nan => trivial
    | inf t => trivial
    | fin t m e => show Is32 (if m = 0 then nan else inf (s != t)); split <;> trivial
  | fin s m1 e1 =>
    cases b with
    | nan => trivial
    | inf t => show Is32 (if m1 = 0 then nan else inf (s != t)); split <;> trivial
    | fin t m2 e2 =>
      unfold mul
      dsimp only []
      split
      · exact is32_round _ _ _ Nat.one_pos
      · exact is32_round _ _ _ (Nat.pow_pos (by norm_num))

theorem is32_ofBits (b : ℕ) : Is32 (ofBits b) := by
  unfold ofBits
  dsimp only []
  split
  · split <;> trivial
  · split
    · show _ < 2 ^ 24; omega
    · show _ < 2 ^ 24; omega

/-! ### operations -/

theorem pow_toNat (e : ℤ) (h : 0 ≤ e) : ((2 ^ e.toNat : ℕ) : ℚ) = (2 : ℚ) ^ e := by
  obtain ⟨k, rfl⟩ := Int.eq_ofNat_of_zero_le h
  simp

theorem div_fin (s t : Bool) (m1 m2 : ℕ) (e1 e2 : ℤ) (h1 : 0 < m1) (h2 : 0 < m2) :
    ∃ n d : ℕ, 0 < n ∧ 0 < d ∧ div (fin s m1 e1) (fin t m2 e2) = round (s != t) n d ∧
      (n : ℚ) / d = ((m1 : ℚ) * (2 : ℚ) ^ e1) / ((m2 : ℚ) * (2 : ℚ) ^ e2) := by
  have two_ne : (2 : ℚ) ≠ 0 := by norm_num
  have hm2 : (m2 : ℚ) ≠ 0 := by exact_mod_cast h2.ne'
  unfold div
  simp only [h2.ne', if_false]
  by_cases h : e2 ≤ e1
  · refine ⟨m1 * 2 ^ (e1 - e2).toNat, m2, Nat.mul_pos h1 (Nat.pow_pos (by norm_num)), h2, by simp [h], ?_⟩
    rw [Nat.cast_mul, pow_toNat _ (by omega), zpow_sub₀ two_ne]
    field_simp
  · refine ⟨m1, m2 * 2 ^ (e2 - e1).toNat, h1, Nat.mul_pos h2 (Nat.pow_pos (by norm_num)), by simp [h], ?_⟩
    rw [Nat.cast_mul, pow_toNat _ (by omega), zpow_sub₀ two_ne]
    field_simp

theorem mul_fin (s t : Bool) (m1 m2 : ℕ) (e1 e2 : ℤ) (h1 : 0 < m1) (h2 : 0 < m2) :
    ∃ n d : ℕ, 0 < n ∧ 0 < d ∧ mul (fin s m1 e1) (fin t m2 e2) = round (s != t) n d ∧
      (n : ℚ) / d = ((m1 : ℚ) * (2 : ℚ) ^ e1) * ((m2 : ℚ) * (2 : ℚ) ^ e2) := by
  have two_ne : (2 : ℚ) ≠ 0 := by norm_num
  unfold mul
  simp only []
  by_cases h : 0 ≤ e1 + e2
  · refine ⟨m1 * m2 * 2 ^ (e1 + e2).toNat, 1, Nat.mul_pos (Nat.mul_pos h1 h2) (Nat.pow_pos (by norm_num)), Nat.one_pos, by simp [h], ?_⟩
    rw [Nat.cast_mul, Nat.cast_mul, pow_toNat _ h, zpow_add₀ two_ne]
    push_cast; ring
  · refine ⟨m1 * m2, 2 ^ (-(e1 + e2)).toNat, Nat.mul_pos h1 h2, Nat.pow_pos (by norm_num), by simp [h], ?_⟩
    rw [Nat.cast_mul, pow_toNat _ (by omega), zpow_neg, zpow_add₀ two_ne]
    field_simp

/-- IEEE `<=` on finite values is `≤` on their rational values -/
theorem le_fin (s t : Bool) (m1 m2 : ℕ) (e1 e2 : ℤ) :
    le (fin s m1 e1) (fin t m2 e2) = true ↔ toRat (fin s m1 e1) ≤ toRat (fin t m2 e2) := by
  have two_ne : (2 : ℚ) ≠ 0 := by norm_num
  unfold le toRat
  simp only [decide_eq_true_iff]
  have hp := two_zpow_pos (min e1 e2)
  have k1 : (2 : ℚ) ^ e1 = ((2 ^ (e1 - min e1 e2).toNat : ℕ) : ℚ) * (2 : ℚ) ^ (min e1 e2) := by
    rw [pow_toNat _ (by omega), ← zpow_add₀ two_ne]; congr 1; ring
  have k2 : (2 : ℚ) ^ e2 = ((2 ^ (e2 - min e1 e2).toNat : ℕ) : ℚ) * (2 : ℚ) ^ (min e1 e2) := by
    rw [pow_toNat _ (by omega), ← zpow_add₀ two_ne]; congr 1; ring
  have hs : ∀ (b : Bool) (m : ℕ), ((sval b m : ℤ) : ℚ) = (if b then -1 else 1) * (m : ℚ) := by
    intro b m; unfold sval; cases b <;> simp
  rw [k1, k2]
  generalize (2 : ℚ) ^ (min e1 e2) = u at *
  constructor
  · intro h
    have h' : ((sval s m1 * 2 ^ (e1 - min e1 e2).toNat : ℤ) : ℚ) ≤ ((sval t m2 * 2 ^ (e2 - min e1 e2).toNat : ℤ) : ℚ) := by
      exact_mod_cast h
    push_cast at h'
    rw [hs, hs] at h'
    have := mul_le_mul_of_nonneg_right h' hp.le
    push_cast
    linarith
  · intro h
    have h' : ((sval s m1 * 2 ^ (e1 - min e1 e2).toNat : ℤ) : ℚ) ≤ ((sval t m2 * 2 ^ (e2 - min e1 e2).toNat : ℤ) : ℚ) := by
      push_cast
      rw [hs, hs]
      push_cast at h
      by_contra hc
      rw [not_le] at hc
      have := mul_lt_mul_of_pos_right hc hp
      linarith
    exact_mod_cast h'

/-- the `f64` nearest to `1e-6` -/
def eps : ℚ := (epsNum : ℚ) / 2 ^ 72

/-- the integer core of the `Freq` arm: if `is_integer` accepts a non-negative quotient, then
`quotient.round() as u16` is (the saturation of) an integer within `eps` of the quotient -/
theorem accept_core (m : ℕ) (e : ℤ) (h : isInteger (fin false m e) = true) :
    ∃ k : ℕ, toU16 (roundHalfAway (fin false m e)) = min k 65535 ∧
      |toRat (fin false m e) - k| < eps := by
  have heps : (0 : ℚ) < eps := by unfold eps epsNum; norm_num
  unfold toRat
  simp only [Bool.false_eq_true, if_false, one_mul]
  by_cases he : 0 ≤ e
  · refine ⟨m * 2 ^ e.toNat, ?_, ?_⟩
    · unfold roundHalfAway; simp only [he, if_true]
      unfold toU16 toUnsigned floorScaled; simp only [he, if_true]
    · rw [Nat.cast_mul, pow_toNat _ he, sub_self, abs_zero]; exact heps
  · unfold isInteger at h
    simp only [he, if_false, decide_eq_true_iff] at h
    have hden : (0 : ℚ) < ((2 ^ (-e).toNat : ℕ) : ℚ) := by positivity
    have hq : (2 : ℚ) ^ e = 1 / ((2 ^ (-e).toNat : ℕ) : ℚ) := by
      rw [pow_toNat _ (by omega), zpow_neg]; simp
    have hdm : 2 ^ (-e).toNat * (m / 2 ^ (-e).toNat) + m % 2 ^ (-e).toNat = m := Nat.div_add_mod m _
    have hr : m % 2 ^ (-e).toNat < 2 ^ (-e).toNat := Nat.mod_lt _ (Nat.pow_pos (by norm_num))
    unfold roundHalfAway; simp only [he, if_false]
    unfold toU16 toUnsigned floorScaled
    simp only [le_refl, if_true, Int.toNat_zero, pow_zero, mul_one]
    rw [hq]
    generalize 2 ^ (-e).toNat = den at *
    generalize hqq : m / den = q at *
    generalize hrr : m % den = r at *
    have hm : (m : ℚ) = (den : ℚ) * q + r := by exact_mod_cast hdm.symm
    by_cases hc : den ≤ 2 * r
    · refine ⟨q + 1, by simp [hc], ?_⟩
      have hmin : min r (den - r) = den - r := by omega
      rw [hmin] at h
      have h72 : (((den - r) * 2 ^ 72 : ℕ) : ℚ) < ((epsNum * den : ℕ) : ℚ) := by exact_mod_cast h
      rw [Nat.cast_mul, Nat.cast_sub hr.le] at h72
      push_cast at h72
      have : (m : ℚ) * (1 / den) - ((q + 1 : ℕ) : ℚ) = -(((den : ℚ) - r) / den) := by
        rw [hm]; push_cast; field_simp; ring
      rw [this, abs_neg, abs_of_nonneg (by
        apply div_nonneg _ hden.le
        have : (r : ℚ) ≤ den := by exact_mod_cast hr.le
        linarith)]
      unfold eps
      rw [div_lt_div_iff₀ hden (by norm_num)]
      linarith
    · refine ⟨q, by simp [hc], ?_⟩
      have hmin : min r (den - r) = r := by omega
      rw [hmin] at h
      have h72 : ((r * 2 ^ 72 : ℕ) : ℚ) < ((epsNum * den : ℕ) : ℚ) := by exact_mod_cast h
      push_cast at h72
      have : (m : ℚ) * (1 / den) - (q : ℚ) = (r : ℚ) / den := by
        rw [hm]; field_simp; ring
      rw [this, abs_of_nonneg (by positivity)]
      unfold eps
      rw [div_lt_div_iff₀ hden (by norm_num)]
      linarith

end Autd3.F32
