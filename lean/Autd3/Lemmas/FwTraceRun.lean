import Autd3.Lemmas.FwTraceSwap
/-!
C19 trace layer: clock updates and read-back of the current output from `Safe` states.
-/
set_option linter.unusedSimpArgs false
set_option linter.unusedVariables false
namespace Autd3.Fw
open Autd3.Gen.Cpu
open Autd3.Gen
open Autd3.Obs

/-- the STM index is inside the cycle of the current segment: what a clock update establishes and an accepted
segment swap may destroy until the next clock update (`Swapchain::set` moves `cur`/`cycle` but not `cur_idx`) -/
def Fresh (s : State) : Prop := s.stmSwap.curIdx < sel s.stmSwap.cycle s.stmSwap.cur

instance (s : State) : Decidable (Fresh s) := by unfold Fresh; infer_instance

theorem sel_le {p : Nat × Nat} {n : Nat} (h0 : p.1 ≤ n) (h1 : p.2 ≤ n) (seg : Nat) : sel p seg ≤ n := by
  unfold sel; split <;> assumption

/-- **a clock update never panics from a `Safe` state** (any time, monotone or not), keeps `Safe`, and makes
the STM index `Fresh` -/
theorem updateWithSysTime_step (s : State) (t : Nat) (h : Safe s) :
    ∃ s', updateWithSysTime s t = .ok s' ∧ Safe s' ∧ Fresh s' := by
  obtain ⟨hB, hC⟩ := h
  unfold updateWithSysTime
  obtain ⟨mw, e1, wf1, i1, _, cy1⟩ := update_ok s.modSwap (gpioIn s) t hC.modSwap
  obtain ⟨sw, e2, wf2, i2, _, cy2⟩ := update_ok s.stmSwap (gpioIn s) t hC.stmSwap
  rw [e1, ok_bind, e2, ok_bind]
  simp only [pure_eq_ok]
  rw [readFpgaState_core]
  generalize hX : State.mk _ _ _ _ _ _ _ _ _ _ _ _ _ _ _ _ _ _ _ _ _ _ _ _ _ _ _ _ _ _ _ _ _ _ _ _ _ _ _ = X
  have mb : SwapBase mw := wf1.base (cy1 ▸ hB.modSwap.cyle0) (cy1 ▸ hB.modSwap.cyle1)
    (Nat.lt_of_lt_of_le i1 (sel_le (cy1 ▸ hB.modSwap.cyle0) (cy1 ▸ hB.modSwap.cyle1) _))
  have sb : SwapBase sw := wf2.base (cy2 ▸ hB.stmSwap.cyle0) (cy2 ▸ hB.stmSwap.cyle1)
    (Nat.lt_of_lt_of_le i2 (sel_le (cy2 ▸ hB.stmSwap.cyle0) (cy2 ▸ hB.stmSwap.cyle1) _))
  have hsz := hB.shape.ctl
  have hctl : ∀ a, a ∈ coreRegs → rd X.ctl a = rd s.ctl a := by
    intro a ha
    subst hX
    simp only [coreRegs, List.mem_cons, List.mem_nil_iff, or_false] at ha
    rcases ha with rfl | rfl | rfl | rfl | rfl | rfl | rfl | rfl | rfl | rfl | rfl | rfl | rfl | rfl | rfl <;>
      simp [rd_set, ADDR_FPGA_STATE]
  have r33 := hctl 33 (by simp [coreRegs]); have r35 := hctl 35 (by simp [coreRegs])
  have r36 := hctl 36 (by simp [coreRegs]); have r37 := hctl 37 (by simp [coreRegs])
  have r38 := hctl 38 (by simp [coreRegs]); have r83 := hctl 83 (by simp [coreRegs])
  have r84 := hctl 84 (by simp [coreRegs]); have r85 := hctl 85 (by simp [coreRegs])
  have r86 := hctl 86 (by simp [coreRegs]); have r89 := hctl 89 (by simp [coreRegs])
  have r90 := hctl 90 (by simp [coreRegs]); have r91 := hctl 91 (by simp [coreRegs])
  have r92 := hctl 92 (by simp [coreRegs]); have r93 := hctl 93 (by simp [coreRegs])
  have r94 := hctl 94 (by simp [coreRegs])
  have eM : X.modSwap = mw := by subst hX; rfl
  have eS : X.stmSwap = sw := by subst hX; rfl
  have eN : X.numFoci = s.numFoci := by subst hX; rfl
  have eF : X.flagsInternal = s.flagsInternal := by subst hX; rfl
  have shX : Shape X := by subst hX; exact hB.shape.transfer (by simp) rfl rfl rfl rfl rfl rfl rfl
  refine ⟨X, rfl, ⟨?_, ?_⟩, ?_⟩
  · exact ⟨shX, eF ▸ hB.flags, r37 ▸ hB.mfd0, r38 ▸ hB.mfd1, r85 ▸ hB.sfd0, r86 ▸ hB.sfd1, r33 ▸ hB.mpage,
      r35 ▸ hB.mcy0, r36 ▸ hB.mcy1, r83 ▸ hB.scy0, r84 ▸ hB.scy1, eN ▸ hB.nf1, eN ▸ hB.nf8, r93 ▸ hB.nfr0,
      r94 ▸ hB.nfr1, by rw [r89, r91, r93]; exact hB.foc0, by rw [r90, r92, r94]; exact hB.foc1,
      eM ▸ mb, eS ▸ sb⟩
  · exact ⟨eM ▸ wf1, eS ▸ wf2, by rw [r83, r93]; exact hC.fcr0, by rw [r84, r94]; exact hC.fcr1,
      by rw [eS, cy2, r93]; exact hC.fcs0, by rw [eS, cy2, r94]; exact hC.fcs1⟩
  · unfold Fresh; rw [eS]; exact i2

/-! ### read-back -/

theorem range_forIn_ok {ε β : Type} (n : Nat) (init : β) (f : Nat → β → Except ε (ForInStep β))
    (hs : ∀ i, i < n → ∀ b, ∃ b', f i b = .ok (.yield b')) : ∃ b', forIn [:n] init f = .ok b' := by
  obtain ⟨b', e, _⟩ := range_forIn'_ok (ε := ε) (fun _ => True) [:n] init (fun i _ b => f i b) trivial
    (fun k hk b _ => by
      obtain ⟨b', e⟩ := hs k hk.2.1 b
      exact ⟨b', e, trivial⟩)
  exact ⟨b', e⟩

/-- `foci_stm_drives_inplace` for one transducer: no slice index outside the BRAM, no division by zero -/
theorem fociDrive_ok (s : State) (seg idx tr : Nat)
    (hm : (stmMem s seg).size = 262144) (hc : 1 ≤ soundSpeed s seg) (hn : 1 ≤ numFoci s seg)
    (hb : 4 * (idx * numFoci s seg + numFoci s seg) ≤ 262144) :
    ∃ v, fociDrive s seg idx tr = .ok v := by
  unfold fociDrive
  simp only []
  generalize stmMem s seg = m at hm
  generalize soundSpeed s seg = c at hc
  generalize numFoci s seg = nf at hn hb
  have hloop := range_forIn_ok (ε := Panic) nf ((0 : Nat), (0 : Nat), (0 : Nat))
  generalize hf : (fun (i : Nat) (__s : Nat × Nat × Nat) => (_ : Except Panic (ForInStep (Nat × Nat × Nat)))) = f
  obtain ⟨b, eb⟩ := hloop f (by
    intro i hi b
    subst hf
    simp only []
    have h1 : ¬ (4 * (idx * nf + i) + 4 > m.size) := by rw [hm]; omega
    have h2 : ¬ (c = 0) := by omega
    simp only [h1, h2, if_false]
    split <;> exact ⟨_, rfl⟩)
  rw [eb]
  simp only [bind, Except.bind]
  rw [if_neg (by omega)]
  exact ⟨_, rfl⟩

theorem list_mapM_ok {ε α β : Type} (f : α → Except ε β) (l : List α) (h : ∀ x, ∃ v, f x = .ok v) :
    ∃ r, l.mapM f = .ok r := by
  induction l with
  | nil => exact ⟨[], rfl⟩
  | cons a l ih =>
    obtain ⟨v, hv⟩ := h a
    obtain ⟨r, hr⟩ := ih
    exact ⟨v :: r, by simp [List.mapM_cons, hv, hr, bind, Except.bind, pure, Except.pure]⟩

theorem array_mapM_ok {ε α β : Type} (f : α → Except ε β) (a : Array α) (h : ∀ x, ∃ v, f x = .ok v) :
    ∃ r, a.mapM f = .ok r := by
  obtain ⟨r, hr⟩ := list_mapM_ok f a.toList h
  rw [Array.mapM_eq_mapM_toList, hr]
  exact ⟨_, rfl⟩

/-- **`drives()` never panics from a `Safe` state whose STM index is `Fresh`** (gain mode: iterator based,
never; focus mode: every focus record lies inside the STM BRAM, sound speed and foci count are non-zero) -/
theorem drives_ok (s : State) (h : Safe s) (hf : Fresh s) : ∃ v, Obs.drives s = .ok v := by
  obtain ⟨hB, hC⟩ := h
  unfold Obs.drives drivesAt currentStmSeg currentStmIdx
  split
  · exact ⟨_, rfl⟩
  rename_i hg
  unfold fociDrives
  apply array_mapM_ok
  intro tr
  have hcur := hB.stmSwap.cur_le
  unfold Fresh at hf
  have hs01 : s.stmSwap.cur = 0 ∨ s.stmSwap.cur = 1 := by omega
  unfold isStmGainMode at hg
  simp only [reg, ADDR_STM_MODE0, STM_MODE_GAIN, decide_eq_true_eq] at hg
  apply fociDrive_ok
  · unfold stmMem; split
    · exact hB.shape.stmMem0
    · exact hB.shape.stmMem1
  · unfold soundSpeed
    simp only [reg, ADDR_STM_SOUND_SPEED0]
    rcases hs01 with e | e <;> rw [e] at hg ⊢ <;> simp only [Nat.add_zero, Nat.reduceAdd] at hg ⊢
    · exact (hB.foc0 (by intro hh; simp [hh] at hg)).1
    · exact (hB.foc1 (by intro hh; simp [hh] at hg)).1
  · unfold numFoci
    simp only [reg, ADDR_STM_NUM_FOCI0]
    rcases hs01 with e | e <;> rw [e] at hg ⊢ <;> simp only [Nat.add_zero, Nat.reduceAdd] at hg ⊢
    · have := (hB.foc0 (by intro hh; simp [hh] at hg)).2; have := hB.nfr0; omega
    · have := (hB.foc1 (by intro hh; simp [hh] at hg)).2; have := hB.nfr1; omega
  · unfold numFoci
    simp only [reg, ADDR_STM_NUM_FOCI0]
    rcases hs01 with e | e <;> rw [e] at hf ⊢ <;> simp only [Nat.add_zero, Nat.reduceAdd] at hf ⊢
    · have h8 := hB.nfr0
      have hm : rd s.ctl 93 % 256 = rd s.ctl 93 := by omega
      rw [hm]
      have hfc := hC.fcs0
      simp only [sel, if_true] at hf
      have : (s.stmSwap.curIdx + 1) * rd s.ctl 93 ≤ s.stmSwap.cycle.1 * rd s.ctl 93 :=
        Nat.mul_le_mul_right _ hf
      rw [Nat.add_mul] at this
      generalize s.stmSwap.curIdx * rd s.ctl 93 = p at this
      generalize s.stmSwap.cycle.1 * rd s.ctl 93 = q at this hfc
      omega
    · have h8 := hB.nfr1
      have hm : rd s.ctl 94 % 256 = rd s.ctl 94 := by omega
      rw [hm]
      have hfc := hC.fcs1
      simp only [sel] at hf
      have hf' : s.stmSwap.curIdx + 1 ≤ s.stmSwap.cycle.2 := by simp at hf; omega
      have : (s.stmSwap.curIdx + 1) * rd s.ctl 94 ≤ s.stmSwap.cycle.2 * rd s.ctl 94 :=
        Nat.mul_le_mul_right _ hf'
      rw [Nat.add_mul] at this
      generalize s.stmSwap.curIdx * rd s.ctl 94 = p at this
      generalize s.stmSwap.cycle.2 * rd s.ctl 94 = q at this hfc
      omega

/-- **`modulation()` never panics from a `Base` state** -/
theorem modulation_ok (s : State) (hB : Base s) : ∃ v, Obs.modulation s = .ok v := by
  unfold Obs.modulation modAt currentModSeg currentModIdx
  simp only []
  have hi := hB.modSwap.idx
  have : (modMem s s.modSwap.cur).size = 32768 := by
    unfold modMem; split
    · exact hB.shape.modMem0
    · exact hB.shape.modMem1
  rw [if_pos (by rw [this]; omega)]
  exact ⟨_, rfl⟩

end Autd3.Fw
