import Autd3.Lemmas.RtOps5
/-!
Modulation, part 1: `write_mod` = header ∘ copy (`modDataPart`) ∘ end (`modEndPart`), for BEGIN frames
(`writeMod_begin`) and subsequent frames (`writeMod_subseq`).
-/
open Autd3 Autd3.Fw Autd3.Wire Autd3.Gen.Cpu Autd3.Gen
namespace Autd3.Rt

/-- the copy part of `write_mod` (with the page split) -/
def modDataPart (s : State) (d : Array Nat) (dataOff write : Nat) : M State := do
  let mut s := s
  let cur16 := s.modCycle % 65536
  let pageCapacity := MOD_BUF_PAGE_SIZE - (cur16 &&& MOD_BUF_PAGE_SIZE_MASK)
  if write < pageCapacity then
    s ← modWriteWords s ((cur16 &&& MOD_BUF_PAGE_SIZE_MASK) >>> 1) (wordsAt d dataOff ((write + 1) >>> 1))
    s := { s with modCycle := s.modCycle + write }
  else
    s ← modWriteWords s ((cur16 &&& MOD_BUF_PAGE_SIZE_MASK) >>> 1) (wordsAt d dataOff (pageCapacity >>> 1))
    s := { s with modCycle := s.modCycle + pageCapacity }
    s ← ctlWrite s ADDR_MOD_MEM_WR_PAGE (((s.modCycle % 65536) &&& (65535 - MOD_BUF_PAGE_SIZE_MASK)) >>> MOD_BUF_PAGE_SIZE_WIDTH)
    s ← modWriteWords s 0 (wordsAt d (dataOff + 2 * (pageCapacity >>> 1)) ((write - pageCapacity + 1) >>> 1))
    s := { s with modCycle := s.modCycle + (write - pageCapacity) }
  return s

/-- the END part of `write_mod` -/
def modEndPart (s : State) (flag segment : Nat) : M (State × Nat) := do
  let mut s := s
  if hasFlag flag MODULATION_FLAG_END then
    s ← ctlWrite s (ADDR_MOD_CYCLE0 + segment) ((max s.modCycle 1 - 1) % 65536)
    if hasFlag flag MODULATION_FLAG_UPDATE then
      return ← modSegmentUpdate s segment s.modTrMode s.modTrValue
  return (s, NO_ERR)

theorem writeMod_subseq (s : State) (d : Array Nat)
    (hb : hasFlag (u8at d FwLayout.ModulationHead_flag_off) MODULATION_FLAG_BEGIN = false) :
    writeMod s d = (do
      let s2 ← modDataPart s d FwLayout.ModulationSubseq_size (u16at d FwLayout.ModulationSubseq_size_off)
      modEndPart s2 (u8at d FwLayout.ModulationHead_flag_off)
        (if u8at d FwLayout.ModulationHead_flag_off &&& MODULATION_FLAG_SEGMENT ≠ 0 then 1 else 0)) := by
  unfold writeMod modDataPart modEndPart
  simp only [hb, Bool.false_eq_true, if_false]
  by_cases h : u16at d FwLayout.ModulationSubseq_size_off < MOD_BUF_PAGE_SIZE - (s.modCycle % 65536 &&& MOD_BUF_PAGE_SIZE_MASK)
  · simp only [h, if_true, bind_assoc, pure_bind]
  · simp only [h, if_false, bind_assoc, pure_bind]

/-- `write_mod` BEGIN: the CPU-side latches -/
def modHeadCpu (s : State) (seg rep div tm tv : Nat) : State :=
  { s with modCycle := 0, modSegment := if tm ≠ TRANSITION_MODE_NONE then seg else s.modSegment,
           modRep := setSel s.modRep seg rep, modDiv := setSel s.modDiv seg div, modTrMode := tm, modTrValue := tv }
@[simp] theorem modHeadCpu_ack (s : State) (seg rep div tm tv : Nat) : (modHeadCpu s seg rep div tm tv).ack = s.ack := rfl
@[simp] theorem modHeadCpu_lastMsgId (s : State) (seg rep div tm tv : Nat) : (modHeadCpu s seg rep div tm tv).lastMsgId = s.lastMsgId := rfl
@[simp] theorem modHeadCpu_rxData (s : State) (seg rep div tm tv : Nat) : (modHeadCpu s seg rep div tm tv).rxData = s.rxData := rfl
@[simp] theorem modHeadCpu_readsFpgaState (s : State) (seg rep div tm tv : Nat) : (modHeadCpu s seg rep div tm tv).readsFpgaState = s.readsFpgaState := rfl
@[simp] theorem modHeadCpu_readsStore (s : State) (seg rep div tm tv : Nat) : (modHeadCpu s seg rep div tm tv).readsStore = s.readsStore := rfl
@[simp] theorem modHeadCpu_isRxDataUsed (s : State) (seg rep div tm tv : Nat) : (modHeadCpu s seg rep div tm tv).isRxDataUsed = s.isRxDataUsed := rfl
@[simp] theorem modHeadCpu_synchronized (s : State) (seg rep div tm tv : Nat) : (modHeadCpu s seg rep div tm tv).synchronized = s.synchronized := rfl
@[simp] theorem modHeadCpu_modCycle (s : State) (seg rep div tm tv : Nat) : (modHeadCpu s seg rep div tm tv).modCycle = 0 := rfl
@[simp] theorem modHeadCpu_stmWrite (s : State) (seg rep div tm tv : Nat) : (modHeadCpu s seg rep div tm tv).stmWrite = s.stmWrite := rfl
@[simp] theorem modHeadCpu_stmCycle (s : State) (seg rep div tm tv : Nat) : (modHeadCpu s seg rep div tm tv).stmCycle = s.stmCycle := rfl
@[simp] theorem modHeadCpu_stmMode (s : State) (seg rep div tm tv : Nat) : (modHeadCpu s seg rep div tm tv).stmMode = s.stmMode := rfl
@[simp] theorem modHeadCpu_stmRep (s : State) (seg rep div tm tv : Nat) : (modHeadCpu s seg rep div tm tv).stmRep = s.stmRep := rfl
@[simp] theorem modHeadCpu_stmDiv (s : State) (seg rep div tm tv : Nat) : (modHeadCpu s seg rep div tm tv).stmDiv = s.stmDiv := rfl
@[simp] theorem modHeadCpu_modDiv (s : State) (seg rep div tm tv : Nat) : (modHeadCpu s seg rep div tm tv).modDiv = setSel s.modDiv seg div := rfl
@[simp] theorem modHeadCpu_modRep (s : State) (seg rep div tm tv : Nat) : (modHeadCpu s seg rep div tm tv).modRep = setSel s.modRep seg rep := rfl
@[simp] theorem modHeadCpu_stmSegment (s : State) (seg rep div tm tv : Nat) : (modHeadCpu s seg rep div tm tv).stmSegment = s.stmSegment := rfl
@[simp] theorem modHeadCpu_modSegment (s : State) (seg rep div tm tv : Nat) : (modHeadCpu s seg rep div tm tv).modSegment = if tm ≠ TRANSITION_MODE_NONE then seg else s.modSegment := rfl
@[simp] theorem modHeadCpu_stmTrMode (s : State) (seg rep div tm tv : Nat) : (modHeadCpu s seg rep div tm tv).stmTrMode = s.stmTrMode := rfl
@[simp] theorem modHeadCpu_stmTrValue (s : State) (seg rep div tm tv : Nat) : (modHeadCpu s seg rep div tm tv).stmTrValue = s.stmTrValue := rfl
@[simp] theorem modHeadCpu_modTrMode (s : State) (seg rep div tm tv : Nat) : (modHeadCpu s seg rep div tm tv).modTrMode = tm := rfl
@[simp] theorem modHeadCpu_modTrValue (s : State) (seg rep div tm tv : Nat) : (modHeadCpu s seg rep div tm tv).modTrValue = tv := rfl
@[simp] theorem modHeadCpu_gainStmMode (s : State) (seg rep div tm tv : Nat) : (modHeadCpu s seg rep div tm tv).gainStmMode = s.gainStmMode := rfl
@[simp] theorem modHeadCpu_numFoci (s : State) (seg rep div tm tv : Nat) : (modHeadCpu s seg rep div tm tv).numFoci = s.numFoci := rfl
@[simp] theorem modHeadCpu_strict (s : State) (seg rep div tm tv : Nat) : (modHeadCpu s seg rep div tm tv).strict = s.strict := rfl
@[simp] theorem modHeadCpu_minDivI (s : State) (seg rep div tm tv : Nat) : (modHeadCpu s seg rep div tm tv).minDivI = s.minDivI := rfl
@[simp] theorem modHeadCpu_minDivP (s : State) (seg rep div tm tv : Nat) : (modHeadCpu s seg rep div tm tv).minDivP = s.minDivP := rfl
@[simp] theorem modHeadCpu_flagsInternal (s : State) (seg rep div tm tv : Nat) : (modHeadCpu s seg rep div tm tv).flagsInternal = s.flagsInternal := rfl
@[simp] theorem modHeadCpu_portA (s : State) (seg rep div tm tv : Nat) : (modHeadCpu s seg rep div tm tv).portA = s.portA := rfl
@[simp] theorem modHeadCpu_dcSysTime (s : State) (seg rep div tm tv : Nat) : (modHeadCpu s seg rep div tm tv).dcSysTime = s.dcSysTime := rfl
@[simp] theorem modHeadCpu_numTr (s : State) (seg rep div tm tv : Nat) : (modHeadCpu s seg rep div tm tv).numTr = s.numTr := rfl
@[simp] theorem modHeadCpu_ctl (s : State) (seg rep div tm tv : Nat) : (modHeadCpu s seg rep div tm tv).ctl = s.ctl := rfl
@[simp] theorem modHeadCpu_phaseCorr (s : State) (seg rep div tm tv : Nat) : (modHeadCpu s seg rep div tm tv).phaseCorr = s.phaseCorr := rfl
@[simp] theorem modHeadCpu_pwe (s : State) (seg rep div tm tv : Nat) : (modHeadCpu s seg rep div tm tv).pwe = s.pwe := rfl
@[simp] theorem modHeadCpu_modMem0 (s : State) (seg rep div tm tv : Nat) : (modHeadCpu s seg rep div tm tv).modMem0 = s.modMem0 := rfl
@[simp] theorem modHeadCpu_modMem1 (s : State) (seg rep div tm tv : Nat) : (modHeadCpu s seg rep div tm tv).modMem1 = s.modMem1 := rfl
@[simp] theorem modHeadCpu_stmMem0 (s : State) (seg rep div tm tv : Nat) : (modHeadCpu s seg rep div tm tv).stmMem0 = s.stmMem0 := rfl
@[simp] theorem modHeadCpu_stmMem1 (s : State) (seg rep div tm tv : Nat) : (modHeadCpu s seg rep div tm tv).stmMem1 = s.stmMem1 := rfl
@[simp] theorem modHeadCpu_modSwap (s : State) (seg rep div tm tv : Nat) : (modHeadCpu s seg rep div tm tv).modSwap = s.modSwap := rfl
@[simp] theorem modHeadCpu_stmSwap (s : State) (seg rep div tm tv : Nat) : (modHeadCpu s seg rep div tm tv).stmSwap = s.stmSwap := rfl
@[simp] theorem reg_modHeadCpu (s : State) (seg rep div tm tv a : Nat) : reg (modHeadCpu s seg rep div tm tv) a = reg s a := rfl

/-- `write_mod` BEGIN: latches, division/loop registers, write segment and page 0 -/
def modHead (s : State) (seg rep div tm tv : Nat) : State :=
  wr (wr (wr (wr (modHeadCpu s seg rep div tm tv) (ADDR_MOD_FREQ_DIV0 + seg) div) (ADDR_MOD_REP0 + seg) rep)
    ADDR_MOD_MEM_WR_SEGMENT seg) ADDR_MOD_MEM_WR_PAGE 0

theorem writeMod_begin (s : State) (d : Array Nat) (seg : Nat)
    (hseg : seg = if u8at d FwLayout.ModulationHead_flag_off &&& MODULATION_FLAG_SEGMENT ≠ 0 then 1 else 0)
    (hb : hasFlag (u8at d FwLayout.ModulationHead_flag_off) MODULATION_FLAG_BEGIN = true)
    (g1 : validateTransitionMode s.modSegment seg (u16at d FwLayout.ModulationHead_rep_off)
      (u8at d FwLayout.ModulationHead_transition_mode_off) = false)
    (g2 : validateSilencerSettings s (sel s.stmDiv s.stmSegment) (u16at d FwLayout.ModulationHead_freq_div_off) = false) :
    writeMod s d = (do
      let s2 ← modDataPart (modHead s seg (u16at d FwLayout.ModulationHead_rep_off)
        (u16at d FwLayout.ModulationHead_freq_div_off) (u8at d FwLayout.ModulationHead_transition_mode_off)
        (u64at d FwLayout.ModulationHead_transition_value_off)) d FwLayout.ModulationHead_size
        (u8at d FwLayout.ModulationHead_size_off)
      modEndPart s2 (u8at d FwLayout.ModulationHead_flag_off) seg) := by
  have hs1 : seg ≤ 1 := by rw [hseg]; split <;> omega
  unfold writeMod
  simp only []
  generalize hsg : (if u8at d FwLayout.ModulationHead_flag_off &&& MODULATION_FLAG_SEGMENT ≠ 0 then 1 else 0) = sg
  have : sg = seg := by rw [hseg, ← hsg]
  subst this
  clear hsg hseg
  simp only [hb, if_true]
  have g2' : validateSilencerSettings { s with modCycle := 0 } (sel s.stmDiv s.stmSegment)
      (u16at d FwLayout.ModulationHead_freq_div_off) = false := g2
  simp only [g1, g2', Bool.false_eq_true, if_false]
  have a1 : ADDR_MOD_FREQ_DIV0 + sg < 256 := by simp only [ADDR_MOD_FREQ_DIV0]; omega
  have a2 : ADDR_MOD_REP0 + sg < 256 := by simp only [ADDR_MOD_REP0]; omega
  unfold modDataPart modEndPart modHead modHeadCpu
  by_cases ht : u8at d FwLayout.ModulationHead_transition_mode_off ≠ TRANSITION_MODE_NONE
  · rw [if_pos ht]
    rw [ctlWrite_main _ _ _ a1, ok_bind, ctlWrite_main _ _ _ a2, ok_bind,
      ctlWrite_main _ ADDR_MOD_MEM_WR_SEGMENT _ (by decide), ok_bind, ctlWrite_main _ ADDR_MOD_MEM_WR_PAGE _ (by decide), ok_bind]
    rw [if_pos ht]
    by_cases h : u8at d FwLayout.ModulationHead_size_off < MOD_BUF_PAGE_SIZE - (0 % 65536 &&& MOD_BUF_PAGE_SIZE_MASK)
    · simp only [wr_modCycle, h, if_true, bind_assoc, pure_bind]
    · simp only [wr_modCycle, h, if_false, bind_assoc, pure_bind]
  · rw [if_neg ht]
    rw [ctlWrite_main _ _ _ a1, ok_bind, ctlWrite_main _ _ _ a2, ok_bind,
      ctlWrite_main _ ADDR_MOD_MEM_WR_SEGMENT _ (by decide), ok_bind, ctlWrite_main _ ADDR_MOD_MEM_WR_PAGE _ (by decide), ok_bind]
    rw [if_neg ht]
    by_cases h : u8at d FwLayout.ModulationHead_size_off < MOD_BUF_PAGE_SIZE - (0 % 65536 &&& MOD_BUF_PAGE_SIZE_MASK)
    · simp only [wr_modCycle, h, if_true, bind_assoc, pure_bind]
    · simp only [wr_modCycle, h, if_false, bind_assoc, pure_bind]

end Autd3.Rt
