import Autd3.Lemmas.FwRecv
import Autd3.Model.Obs
/-!
C19 trace layer, core: the inductive invariant `Safe = Base ∧ Chain`, the per-request guard `SetGuard`
(exactly the F15 / F18 exclusions), `Swapchain::set` without `Settled`, request / segment-update steps,
bulk-write steps.

* `Base s`  — kept by EVERY handler for every SDK frame, with no restriction on transitions (memory shapes,
  divisions ≥ 1, cycle registers are `u16`, write page of the modulation BRAM, foci count 1..8, register facts
  the focus read-back needs, `SwapBase` of both swap chains).
* `Chain s` — the part that the recorded findings break: `SwapWF` of both swap chains (F15, F18) and
  `cycle × foci-per-pattern ≤ 65536` for the STM registers and the STM swap chain (F17).
-/
set_option linter.unusedSimpArgs false
set_option linter.unusedVariables false
namespace Autd3.Fw
open Autd3.Gen.Cpu
open Autd3.Gen

/-! ### swap chain -/

/-- facts about a swap chain that `Swapchain::set` keeps for ANY request (no side condition) -/
structure SwapBase (w : Swap) : Prop where
  cur_le : w.cur ≤ 1
  req_le : w.req ≤ 1
  fd0 : 1 ≤ w.freqDiv.1
  fd1 : 1 ≤ w.freqDiv.2
  cy0 : 1 ≤ w.cycle.1
  cy1 : 1 ≤ w.cycle.2
  cyle0 : w.cycle.1 ≤ 65536
  cyle1 : w.cycle.2 ≤ 65536
  idx : w.curIdx < 65536

/-- the condition on one `Swapchain::set` request under which `SwapWF` is kept (`mode` is the mode byte):
* **F15 exclusion**: an Ext/Immediate request goes to the swap chain's *actual* current segment or carries an
  infinite loop (the CPU checks this against its *belief*, which is ahead of the swap chain while a transition
  is pending, after an Ext flip, after a cut send, after a missed SysTime);
* **F18 exclusion**: the current segment is not re-requested while a transition is pending whose target has
  a stale start offset (`tic_idx_offset[req] > cycle[req]`) -/
structure SetGuard (w : Swap) (seg rep mode : Nat) : Prop where
  f15 : mode = TRANSITION_MODE_EXT ∨ mode = TRANSITION_MODE_IMMEDIATE → w.cur = seg ∨ rep = 0xFFFF
  f18 : w.state = .waitStart → w.cur = seg → sel w.ticOff w.req ≤ sel w.cycle w.req

instance (w : Swap) (seg rep mode : Nat) : Decidable (SetGuard w seg rep mode) :=
  decidable_of_iff ((mode = TRANSITION_MODE_EXT ∨ mode = TRANSITION_MODE_IMMEDIATE → w.cur = seg ∨ rep = 0xFFFF) ∧
    (w.state = .waitStart → w.cur = seg → sel w.ticOff w.req ≤ sel w.cycle w.req))
    ⟨fun h => ⟨h.1, h.2⟩, fun h => ⟨h.f15, h.f18⟩⟩

theorem SwapWF.base {w : Swap} (h : SwapWF w) (c0 : w.cycle.1 ≤ 65536) (c1 : w.cycle.2 ≤ 65536)
    (hi : w.curIdx < 65536) : SwapBase w :=
  ⟨h.cur_le, h.req_le, h.fd0, h.fd1, h.cy0, h.cy1, c0, c1, hi⟩

theorem setSel_fst_le {p : Nat × Nat} {a v n : Nat} (h : p.1 ≤ n) (hv : v ≤ n) : (setSel p a v).1 ≤ n := by
  unfold setSel; split <;> simp <;> assumption
theorem setSel_snd_le {p : Nat × Nat} {a v n : Nat} (h : p.2 ≤ n) (hv : v ≤ n) : (setSel p a v).2 ≤ n := by
  unfold setSel; split <;> simp <;> assumption

/-- **`Swapchain::set` never panics** whenever the divisions and cycles are non-zero — whatever is requested —
and keeps `SwapBase`; it keeps `SwapWF` under `SetGuard` (weaker than `SetOK`: the pending case only needs the
target's start offset not to be stale) -/
theorem set_step (w : Swap) (t rep fd cyc req : Nat) (m : TMode) (mode : Nat) (hb : SwapBase w)
    (hreq : req ≤ 1) (hfd : 1 ≤ fd) (hc1 : 1 ≤ cyc) (hc2 : cyc ≤ 65536)
    (hm : m.waitable = false → mode = TRANSITION_MODE_EXT ∨ mode = TRANSITION_MODE_IMMEDIATE) :
    ∃ w', w.set t rep fd cyc req m = .ok w' ∧ SwapBase w' ∧ w'.curIdx = w.curIdx ∧
      w'.cycle = setSel w.cycle req cyc ∧
      (SwapWF w → SetGuard w req rep mode → SwapWF w') := by
  rcases w with ⟨sysTime, rep0, startLap, freqDiv, cycle, ticOff, cur, req0, curIdx, mode0, stop, extMode, extLastLap, state⟩
  obtain ⟨cur_le, req_le, fd0, fd1, cy0, cy1, cyle0, cyle1, hidx⟩ := hb
  simp only at cur_le req_le fd0 fd1 cy0 cy1 cyle0 cyle1 hidx
  unfold Swap.set
  by_cases h1 : cur = req
  · subst h1
    obtain ⟨lap, idx, hl, _⟩ := lapAndIdx_ok
      { sysTime := sysTime, rep := rep0, startLap := startLap, freqDiv := freqDiv, cycle := cycle, ticOff := ticOff,
        cur := cur, req := req0, curIdx := curIdx, mode := mode0, stop := false, extMode := m == TMode.ext,
        extLastLap := extLastLap, state := state } cur t (sel_ge_one fd0 fd1 _) (sel_ge_one cy0 cy1 _)
    simp only [if_true, hl, bind, Except.bind, pure, Except.pure]
    refine ⟨_, rfl, ⟨cur_le, req_le, setSel_fst_ge fd0 hfd, setSel_snd_ge fd1 hfd, setSel_fst_ge cy0 hc1,
      setSel_snd_ge cy1 hc1, setSel_fst_le cyle0 hc2, setSel_snd_le cyle1 hc2, hidx⟩, rfl, rfl, ?_⟩
    intro wf g
    obtain ⟨_, _, _, _, _, _, wait_mode, wait_req, tic⟩ := wf
    simp only at wait_mode wait_req tic
    have g18 := g.f18
    simp only at g18
    refine ⟨cur_le, req_le, setSel_fst_ge fd0 hfd, setSel_snd_ge fd1 hfd, setSel_fst_ge cy0 hc1,
      setSel_snd_ge cy1 hc1, (nomatch ·), (nomatch ·), ?_⟩
    intro seg hseg
    right
    simp only [sel_setSel _ _ _ _ cur_le hseg]
    split
    · omega
    · rename_i e
      rcases tic seg hseg with ⟨h1, h2⟩ | h2
      · subst h2; exact g18 h1 trivial
      · exact h2
  · by_cases h2 : rep = 0xFFFF
    · obtain ⟨lap, idx, hl, _⟩ := lapAndIdx_ok
        { sysTime := sysTime, rep := rep0, startLap := startLap, freqDiv := freqDiv, cycle := cycle, ticOff := ticOff,
          cur := req, req := req0, curIdx := curIdx, mode := mode0, stop := false, extMode := m == TMode.ext,
          extLastLap := extLastLap, state := state } req t (sel_ge_one fd0 fd1 _) (sel_ge_one cy0 cy1 _)
      simp only [h1, h2, if_true, if_false, hl, bind, Except.bind, pure, Except.pure]
      refine ⟨_, rfl, ⟨hreq, req_le, setSel_fst_ge fd0 hfd, setSel_snd_ge fd1 hfd, setSel_fst_ge cy0 hc1,
        setSel_snd_ge cy1 hc1, setSel_fst_le cyle0 hc2, setSel_snd_le cyle1 hc2, hidx⟩, rfl, rfl, ?_⟩
      intro wf g
      obtain ⟨_, _, _, _, _, _, wait_mode, wait_req, tic⟩ := wf
      simp only at wait_mode wait_req tic
      refine ⟨hreq, req_le, setSel_fst_ge fd0 hfd, setSel_snd_ge fd1 hfd, setSel_fst_ge cy0 hc1,
        setSel_snd_ge cy1 hc1, (nomatch ·), (nomatch ·), ?_⟩
      intro seg hseg
      right
      simp only [sel_setSel _ _ _ _ hreq hseg]
      split
      · omega
      · rename_i e
        rcases tic seg hseg with ⟨h1', h2'⟩ | h2'
        · have := wait_req h1'
          omega
        · exact h2'
    · simp only [h1, h2, if_false, bind, Except.bind, pure, Except.pure]
      refine ⟨_, rfl, ⟨cur_le, hreq, setSel_fst_ge fd0 hfd, setSel_snd_ge fd1 hfd, setSel_fst_ge cy0 hc1,
        setSel_snd_ge cy1 hc1, setSel_fst_le cyle0 hc2, setSel_snd_le cyle1 hc2, hidx⟩, rfl, rfl, ?_⟩
      intro wf g
      obtain ⟨_, _, _, _, _, _, wait_mode, wait_req, tic⟩ := wf
      simp only at wait_mode wait_req tic
      have g15 := g.f15
      have g18 := g.f18
      simp only at g15 g18
      have hw : m.waitable = true := by
        cases hmw : m.waitable with
        | true => rfl
        | false => rcases g15 (hm hmw) with h | h <;> contradiction
      refine ⟨cur_le, hreq, setSel_fst_ge fd0 hfd, setSel_snd_ge fd1 hfd, setSel_fst_ge cy0 hc1,
        setSel_snd_ge cy1 hc1, fun _ => hw, fun _ => fun e => h1 e.symm, ?_⟩
      intro seg hseg
      by_cases e : seg = req
      · exact Or.inl ⟨rfl, e⟩
      · right
        simp only [sel_setSel _ _ _ _ hreq hseg, e, if_false]
        rcases tic seg hseg with ⟨h1', h2'⟩ | h2'
        · have := wait_req h1'
          omega
        · exact h2'

/-! ### the invariant -/

/-- kept by every handler for every SDK frame, whatever transitions are requested -/
structure Base (s : State) : Prop where
  shape : Shape s
  flags : s.flagsInternal % 4 = 0
  mfd0 : 1 ≤ rd s.ctl 37
  mfd1 : 1 ≤ rd s.ctl 38
  sfd0 : 1 ≤ rd s.ctl 85
  sfd1 : 1 ≤ rd s.ctl 86
  /-- the modulation write page stays inside the BRAM (two pages) -/
  mpage : rd s.ctl 33 ≤ 1
  /-- the four cycle registers hold 16-bit values -/
  mcy0 : rd s.ctl 35 < 65536
  mcy1 : rd s.ctl 36 < 65536
  scy0 : rd s.ctl 83 < 65536
  scy1 : rd s.ctl 84 < 65536
  /-- the CPU's foci-per-pattern count -/
  nf1 : 1 ≤ s.numFoci
  nf8 : s.numFoci ≤ 8
  /-- the foci-per-pattern registers -/
  nfr0 : rd s.ctl 93 ≤ 8
  nfr1 : rd s.ctl 94 ≤ 8
  /-- a segment in focus mode (`STM_MODE ≠ GAIN`) has a non-zero sound speed and foci count -/
  foc0 : rd s.ctl 89 ≠ 1 → 1 ≤ rd s.ctl 91 ∧ 1 ≤ rd s.ctl 93
  foc1 : rd s.ctl 90 ≠ 1 → 1 ≤ rd s.ctl 92 ∧ 1 ≤ rd s.ctl 94
  modSwap : SwapBase s.modSwap
  stmSwap : SwapBase s.stmSwap

/-- the part of the invariant that F15 / F17 / F18 break -/
structure Chain (s : State) : Prop where
  modSwap : SwapWF s.modSwap
  stmSwap : SwapWF s.stmSwap
  /-- (cycle register + 1) × foci per pattern fits the STM BRAM (65536 foci) -/
  fcr0 : (rd s.ctl 83 + 1) * rd s.ctl 93 ≤ 65536
  fcr1 : (rd s.ctl 84 + 1) * rd s.ctl 94 ≤ 65536
  /-- the same for the cycle the swap chain plays -/
  fcs0 : s.stmSwap.cycle.1 * rd s.ctl 93 ≤ 65536
  fcs1 : s.stmSwap.cycle.2 * rd s.ctl 94 ≤ 65536

/-- **the inductive invariant of the trace theorems** -/
structure Safe (s : State) : Prop where
  base : Base s
  chain : Chain s

/-- the registers `Base`/`Chain` read -/
def coreRegs : List Nat := [33, 35, 36, 37, 38, 83, 84, 85, 86, 89, 90, 91, 92, 93, 94]

/-- `s'` agrees with `s` on everything `Base`/`Chain` read besides `Shape` and the flag word -/
structure SameB (s s' : State) : Prop where
  regs : ∀ a, a ∈ coreRegs → rd s'.ctl a = rd s.ctl a
  numFoci : s'.numFoci = s.numFoci
  modSwap : s'.modSwap = s.modSwap
  stmSwap : s'.stmSwap = s.stmSwap

theorem SameB.refl' {s s' : State} (e0 : s'.ctl = s.ctl) (e1 : s'.numFoci = s.numFoci)
    (e2 : s'.modSwap = s.modSwap) (e3 : s'.stmSwap = s.stmSwap) : SameB s s' :=
  ⟨fun _ _ => by rw [e0], e1, e2, e3⟩

theorem SameB.trans {a b c : State} (h1 : SameB a b) (h2 : SameB b c) : SameB a c :=
  ⟨fun x hx => (h2.regs x hx).trans (h1.regs x hx), h2.numFoci.trans h1.numFoci,
   h2.modSwap.trans h1.modSwap, h2.stmSwap.trans h1.stmSwap⟩

theorem Base.transfer {s s' : State} (h : Base s) (c : SameB s s') (hs : Shape s')
    (hf : s'.flagsInternal % 4 = 0) : Base s' := by
  have r := c.regs
  simp only [coreRegs, List.mem_cons, List.mem_nil_iff, or_false] at r
  have r33 := r 33 (by simp); have r35 := r 35 (by simp); have r36 := r 36 (by simp)
  have r37 := r 37 (by simp); have r38 := r 38 (by simp); have r83 := r 83 (by simp)
  have r84 := r 84 (by simp); have r85 := r 85 (by simp); have r86 := r 86 (by simp)
  have r89 := r 89 (by simp); have r90 := r 90 (by simp); have r91 := r 91 (by simp)
  have r92 := r 92 (by simp); have r93 := r 93 (by simp); have r94 := r 94 (by simp)
  exact ⟨hs, hf, r37 ▸ h.mfd0, r38 ▸ h.mfd1, r85 ▸ h.sfd0, r86 ▸ h.sfd1, r33 ▸ h.mpage, r35 ▸ h.mcy0,
    r36 ▸ h.mcy1, r83 ▸ h.scy0, r84 ▸ h.scy1, c.numFoci ▸ h.nf1, c.numFoci ▸ h.nf8, r93 ▸ h.nfr0, r94 ▸ h.nfr1,
    by rw [r89, r91, r93]; exact h.foc0, by rw [r90, r92, r94]; exact h.foc1,
    c.modSwap ▸ h.modSwap, c.stmSwap ▸ h.stmSwap⟩

theorem Chain.transfer {s s' : State} (h : Chain s) (c : SameB s s') : Chain s' := by
  have r := c.regs
  simp only [coreRegs, List.mem_cons, List.mem_nil_iff, or_false] at r
  have r83 := r 83 (by simp); have r84 := r 84 (by simp)
  have r93 := r 93 (by simp); have r94 := r 94 (by simp)
  exact ⟨c.modSwap ▸ h.modSwap, c.stmSwap ▸ h.stmSwap, by rw [r83, r93]; exact h.fcr0,
    by rw [r84, r94]; exact h.fcr1, by rw [c.stmSwap, r93]; exact h.fcs0, by rw [c.stmSwap, r94]; exact h.fcs1⟩

theorem Safe.transfer {s s' : State} (h : Safe s) (c : SameB s s') (hs : Shape s')
    (hf : s'.flagsInternal % 4 = 0) : Safe s' :=
  ⟨h.base.transfer c hs hf, h.chain.transfer c⟩

/-- closes `SameB s X` for an explicit `X` built from `s` by register writes at literal addresses outside
`coreRegs` and updates of CPU fields other than `numFoci` and the swap chains -/
macro "same_b_tac" : tactic => `(tactic|
  (refine ⟨fun x hx => ?_, rfl, rfl, rfl⟩
   simp only [coreRegs, List.mem_cons, List.mem_nil_iff, or_false] at hx
   rcases hx with hx | hx | hx | hx | hx | hx | hx | hx | hx | hx | hx | hx | hx | hx | hx <;> subst hx <;>
     simp [rd_set]))

/-- `Base X` for an explicit `X` built from `s` (`h : Base s`) by register writes at literal addresses and
CPU-field updates that leave the swap chains alone; extra simp facts after `with` -/
macro "base_tac" h:ident "with" ts:Lean.Parser.Tactic.simpLemma,* : tactic => `(tactic|
  (have hsz := ($h).shape.ctl
   have b1 := ($h).mfd0; have b2 := ($h).mfd1; have b3 := ($h).sfd0; have b4 := ($h).sfd1
   have b5 := ($h).mpage; have b6 := ($h).mcy0; have b7 := ($h).mcy1; have b8 := ($h).scy0; have b9 := ($h).scy1
   have b10 := ($h).nf1; have b11 := ($h).nf8; have b12 := ($h).nfr0; have b13 := ($h).nfr1
   have b14 := ($h).foc0; have b15 := ($h).foc1
   refine ⟨($h).shape.transfer (by simp) rfl rfl rfl rfl rfl rfl rfl, ($h).flags, ?_, ?_, ?_, ?_, ?_, ?_, ?_, ?_, ?_,
     ?_, ?_, ?_, ?_, ?_, ?_, ($h).modSwap, ($h).stmSwap⟩ <;>
   (simp [rd_set, setSel, hsz, $ts,*] <;> (try omega) <;> (try assumption))))

/-- `Chain X` for such an `X` that moreover leaves registers 83, 84, 93, 94 alone -/
theorem Chain.of_regs {s X : State} (h : Chain s) (e1 : X.modSwap = s.modSwap) (e2 : X.stmSwap = s.stmSwap)
    (r83 : rd X.ctl 83 = rd s.ctl 83) (r84 : rd X.ctl 84 = rd s.ctl 84)
    (r93 : rd X.ctl 93 = rd s.ctl 93) (r94 : rd X.ctl 94 = rd s.ctl 94) : Chain X :=
  ⟨e1 ▸ h.modSwap, e2 ▸ h.stmSwap, by rw [r83, r93]; exact h.fcr0, by rw [r84, r94]; exact h.fcr1,
   by rw [e2, r93]; exact h.fcs0, by rw [e2, r94]; exact h.fcs1⟩

/-! ### bulk writes -/

theorem stmWriteWords_step (X : State) (base : Nat) (words : Array Nat) (hB : Base X)
    (hseg : rd X.ctl 80 ≤ 1)
    (h1 : base % 16384 + words.size ≤ 16384)
    (h2 : rd X.ctl 81 * 16384 + base % 16384 + words.size ≤ 262144) :
    ∃ Z, stmWriteWords X base words = .ok Z ∧ Base Z ∧ SameB X Z ∧ (Chain X → Chain Z) ∧
      Z = { X with stmMem0 := Z.stmMem0, stmMem1 := Z.stmMem1 } := by
  obtain ⟨m0, m1, e, z0, z1⟩ := stmWriteWords_ok X base words hB.shape hseg h1 h2
  have c : SameB X { X with stmMem0 := m0, stmMem1 := m1 } := SameB.refl' rfl rfl rfl rfl
  exact ⟨_, e, hB.transfer c
    (hB.shape.transfer rfl rfl rfl rfl rfl (by simp [z0, hB.shape.stmMem0]) (by simp [z1, hB.shape.stmMem1]) rfl)
    hB.flags, c, fun hc => hc.transfer c, rfl⟩

theorem modWriteWords_step (X : State) (base : Nat) (words : Array Nat) (hB : Base X)
    (hseg : rd X.ctl 32 ≤ 1)
    (h1 : base % 16384 + words.size ≤ 16384)
    (h2 : rd X.ctl 33 * 16384 + base % 16384 + words.size ≤ 32768) :
    ∃ Z, modWriteWords X base words = .ok Z ∧ Base Z ∧ SameB X Z ∧ (Chain X → Chain Z) ∧
      Z = { X with modMem0 := Z.modMem0, modMem1 := Z.modMem1 } := by
  obtain ⟨m0, m1, e, z0, z1⟩ := modWriteWords_ok X base words hB.shape hseg h1 h2
  have c : SameB X { X with modMem0 := m0, modMem1 := m1 } := SameB.refl' rfl rfl rfl rfl
  exact ⟨_, e, hB.transfer c
    (hB.shape.transfer rfl rfl rfl (by simp [z0, hB.shape.modMem0]) (by simp [z1, hB.shape.modMem1]) rfl rfl rfl)
    hB.flags, c, fun hc => hc.transfer c, rfl⟩

/-! ### swap requests -/

theorem sel_pair_rd (c : Array Nat) (a seg : Nat) (hseg : seg ≤ 1) :
    rd c (a + seg) = sel (rd c a, rd c (a + 1)) seg := by
  unfold sel
  have : seg = 0 ∨ seg = 1 := by omega
  rcases this with rfl | rfl <;> simp

/-- an `STM_SET` request from a `Base` state whose request registers are valid: never panics, keeps `Base`,
keeps `Chain` under `SetGuard` -/
theorem stm_request_step (s : State) (hB : Base s) (seg mode : Nat) (m : TMode)
    (hseg : rd s.ctl 82 = seg) (hle : seg ≤ 1)
    (hdec : decodeTMode (rd s.ctl 95) (reg64 s 96) "stm_transition_mode" = .ok m)
    (hm : m.waitable = false → mode = TRANSITION_MODE_EXT ∨ mode = TRANSITION_MODE_IMMEDIATE) :
    ∃ s', setAndWaitUpdate s CTL_FLAG_STM_SET = .ok s' ∧ Base s' ∧
      (Chain s → SetGuard s.stmSwap seg (rd s.ctl (87 + seg)) mode → Chain s') := by
  have hs01 : seg = 0 ∨ seg = 1 := by omega
  have hfd : 1 ≤ rd s.ctl (85 + seg) := by
    rcases hs01 with rfl | rfl
    · exact hB.sfd0
    · exact hB.sfd1
  have hcy : rd s.ctl (83 + seg) < 65536 := by
    rcases hs01 with rfl | rfl
    · exact hB.scy0
    · exact hB.scy1
  obtain ⟨w, hw, wb, hidx, hcyc, hwf⟩ := set_step s.stmSwap s.dcSysTime (rd s.ctl (87 + seg)) (rd s.ctl (85 + seg))
    (rd s.ctl (83 + seg) + 1) seg m mode hB.stmSwap hle hfd (by omega) (by omega) hm
  rw [setAndWaitUpdate_stm s hB.shape.ctl hB.flags]
  unfold stmSetReq segReg
  simp only [reg, ADDR_STM_REQ_RD_SEGMENT, ADDR_STM_TRANSITION_MODE, ADDR_STM_TRANSITION_VALUE_0, ADDR_STM_REP0,
    ADDR_STM_FREQ_DIV0, ADDR_STM_CYCLE0] at hw hdec ⊢
  simp only [hseg, hle, if_true, hdec, hw, bind, Except.bind, pure, Except.pure]
  have c : SameB s { s with ctl := s.ctl.setIfInBounds 0 (s.flagsInternal % 65536) } := by same_b_tac
  have hB1 : Base { s with ctl := s.ctl.setIfInBounds 0 (s.flagsInternal % 65536) } :=
    hB.transfer c (hB.shape.transfer (by simp) rfl rfl rfl rfl rfl rfl rfl) hB.flags
  refine ⟨_, rfl, ?_, ?_⟩
  · exact ⟨hB1.shape.transfer rfl rfl rfl rfl rfl rfl rfl rfl, hB1.flags, hB1.mfd0, hB1.mfd1, hB1.sfd0, hB1.sfd1,
      hB1.mpage, hB1.mcy0, hB1.mcy1, hB1.scy0, hB1.scy1, hB1.nf1, hB1.nf8, hB1.nfr0, hB1.nfr1, hB1.foc0, hB1.foc1,
      hB1.modSwap, wb⟩
  · intro hc g
    have hc1 := hc.transfer c
    have r83 : rd (s.ctl.setIfInBounds 0 (s.flagsInternal % 65536)) 83 = rd s.ctl 83 := by simp [rd_set]
    have r84 : rd (s.ctl.setIfInBounds 0 (s.flagsInternal % 65536)) 84 = rd s.ctl 84 := by simp [rd_set]
    have r93 : rd (s.ctl.setIfInBounds 0 (s.flagsInternal % 65536)) 93 = rd s.ctl 93 := by simp [rd_set]
    have r94 : rd (s.ctl.setIfInBounds 0 (s.flagsInternal % 65536)) 94 = rd s.ctl 94 := by simp [rd_set]
    refine ⟨hc1.modSwap, hwf hc.stmSwap g, hc1.fcr0, hc1.fcr1, ?_, ?_⟩
    · show w.cycle.1 * rd (s.ctl.setIfInBounds 0 (s.flagsInternal % 65536)) 93 ≤ 65536
      rw [hcyc, r93]
      rcases hs01 with rfl | rfl
      · simpa [setSel] using hc.fcr0
      · simpa [setSel] using hc.fcs0
    · show w.cycle.2 * rd (s.ctl.setIfInBounds 0 (s.flagsInternal % 65536)) 94 ≤ 65536
      rw [hcyc, r94]
      rcases hs01 with rfl | rfl
      · simpa [setSel] using hc.fcs1
      · simpa [setSel] using hc.fcr1

/-- the same for a `MOD_SET` request -/
theorem mod_request_step (s : State) (hB : Base s) (seg mode : Nat) (m : TMode)
    (hseg : rd s.ctl 34 = seg) (hle : seg ≤ 1)
    (hdec : decodeTMode (rd s.ctl 41) (reg64 s 42) "modulation_transition_mode" = .ok m)
    (hm : m.waitable = false → mode = TRANSITION_MODE_EXT ∨ mode = TRANSITION_MODE_IMMEDIATE) :
    ∃ s', setAndWaitUpdate s CTL_FLAG_MOD_SET = .ok s' ∧ Base s' ∧
      (Chain s → SetGuard s.modSwap seg (rd s.ctl (39 + seg)) mode → Chain s') := by
  have hs01 : seg = 0 ∨ seg = 1 := by omega
  have hfd : 1 ≤ rd s.ctl (37 + seg) := by
    rcases hs01 with rfl | rfl
    · exact hB.mfd0
    · exact hB.mfd1
  have hcy : rd s.ctl (35 + seg) < 65536 := by
    rcases hs01 with rfl | rfl
    · exact hB.mcy0
    · exact hB.mcy1
  obtain ⟨w, hw, wb, hidx, hcyc, hwf⟩ := set_step s.modSwap s.dcSysTime (rd s.ctl (39 + seg)) (rd s.ctl (37 + seg))
    (rd s.ctl (35 + seg) + 1) seg m mode hB.modSwap hle hfd (by omega) (by omega) hm
  rw [setAndWaitUpdate_mod s hB.shape.ctl hB.flags]
  unfold modSetReq segReg
  simp only [reg, ADDR_MOD_REQ_RD_SEGMENT, ADDR_MOD_TRANSITION_MODE, ADDR_MOD_TRANSITION_VALUE_0, ADDR_MOD_REP0,
    ADDR_MOD_FREQ_DIV0, ADDR_MOD_CYCLE0] at hw hdec ⊢
  simp only [hseg, hle, if_true, hdec, hw, bind, Except.bind, pure, Except.pure]
  have c : SameB s { s with ctl := s.ctl.setIfInBounds 0 (s.flagsInternal % 65536) } := by same_b_tac
  have hB1 : Base { s with ctl := s.ctl.setIfInBounds 0 (s.flagsInternal % 65536) } :=
    hB.transfer c (hB.shape.transfer (by simp) rfl rfl rfl rfl rfl rfl rfl) hB.flags
  refine ⟨_, rfl, ?_, ?_⟩
  · exact ⟨hB1.shape.transfer rfl rfl rfl rfl rfl rfl rfl rfl, hB1.flags, hB1.mfd0, hB1.mfd1, hB1.sfd0, hB1.sfd1,
      hB1.mpage, hB1.mcy0, hB1.mcy1, hB1.scy0, hB1.scy1, hB1.nf1, hB1.nf8, hB1.nfr0, hB1.nfr1, hB1.foc0, hB1.foc1,
      wb, hB1.stmSwap⟩
  · intro hc g
    have hc1 := hc.transfer c
    exact ⟨hwf hc.modSwap g, hc1.stmSwap, hc1.fcr0, hc1.fcr1, hc1.fcs0, hc1.fcs1⟩

/-- `stm_segment_update` (`REQ_RD_SEGMENT`, SysTime margin test, mode/value registers, `STM_SET`) -/
theorem stmSegmentUpdate_step (s : State) (seg mode value : Nat) (hB : Base s) (hseg : seg ≤ 1)
    (hm : ModeOK mode value) :
    ∃ s' ack, stmSegmentUpdate s seg mode value = .ok (s', ack) ∧ Base s' ∧
      (Chain s → SetGuard s.stmSwap seg (rd s.ctl (87 + seg)) mode → Chain s') := by
  unfold stmSegmentUpdate
  have hsz := hB.shape.ctl
  simp only [ADDR_STM_REQ_RD_SEGMENT, ctlWrite_main _ _ _ (by decide : 82 < 256), bind, Except.bind, pure, Except.pure]
  split
  · refine ⟨_, _, rfl, hB.transfer (by same_b_tac) (hB.shape.transfer (by simp) rfl rfl rfl rfl rfl rfl rfl) hB.flags,
      fun hc _ => hc.transfer (by same_b_tac)⟩
  simp only [ADDR_STM_TRANSITION_MODE, ADDR_STM_TRANSITION_VALUE_0, u64Words, ctlWriteWords_four,
    ctlWrite_main _ _ _ (by decide : 95 < 256), ctlWrite_main _ _ _ (by decide : 96 + 0 < 256),
    ctlWrite_main _ _ _ (by decide : 96 + 1 < 256), ctlWrite_main _ _ _ (by decide : 96 + 2 < 256),
    ctlWrite_main _ _ _ (by decide : 96 + 3 < 256), bind, Except.bind, pure, Except.pure]
  generalize hX : State.mk _ _ _ _ _ _ _ _ _ _ _ _ _ _ _ _ _ _ _ _ _ _ _ _ _ _ _ _ _ _ _ _ _ _ _ _ _ _ _ = X
  have c0 : SameB s X := by subst hX; same_b_tac
  have h0 : Base X := hB.transfer c0 (by subst hX; exact hB.shape.transfer (by simp) rfl rfl rfl rfl rfl rfl rfl)
    (by subst hX; exact hB.flags)
  obtain ⟨m, hdec, hwait⟩ := hm.decode "stm_transition_mode"
  have hlt := hm.lt
  have hreg64 : reg64 X 96 = value := by
    subst hX
    simp [reg64, reg, rd_set, hsz]
    have := hm.value_lt
    omega
  have hregm : rd X.ctl 95 = mode := by
    subst hX
    simp [rd_set, hsz]
    omega
  have hrep : rd X.ctl (87 + seg) = rd s.ctl (87 + seg) := by
    have : seg = 0 ∨ seg = 1 := by omega
    subst hX
    rcases this with rfl | rfl <;> simp [rd_set]
  have hswap : X.stmSwap = s.stmSwap := by subst hX; rfl
  obtain ⟨s', e, hB', hC'⟩ := stm_request_step X h0 seg mode m
    (by subst hX; simp [rd_set, hsz]; omega) hseg
    (by rw [hreg64, hregm]; exact hdec) hwait
  simp only [e]
  refine ⟨_, _, rfl, hB', fun hc g => hC' (hc.transfer c0) ?_⟩
  rw [hswap, hrep]; exact g

theorem modSegmentUpdate_step (s : State) (seg mode value : Nat) (hB : Base s) (hseg : seg ≤ 1)
    (hm : ModeOK mode value) :
    ∃ s' ack, modSegmentUpdate s seg mode value = .ok (s', ack) ∧ Base s' ∧
      (Chain s → SetGuard s.modSwap seg (rd s.ctl (39 + seg)) mode → Chain s') := by
  unfold modSegmentUpdate
  have hsz := hB.shape.ctl
  simp only [ADDR_MOD_REQ_RD_SEGMENT, ctlWrite_main _ _ _ (by decide : 34 < 256), bind, Except.bind, pure, Except.pure]
  split
  · refine ⟨_, _, rfl, hB.transfer (by same_b_tac) (hB.shape.transfer (by simp) rfl rfl rfl rfl rfl rfl rfl) hB.flags,
      fun hc _ => hc.transfer (by same_b_tac)⟩
  simp only [ADDR_MOD_TRANSITION_MODE, ADDR_MOD_TRANSITION_VALUE_0, u64Words, ctlWriteWords_four,
    ctlWrite_main _ _ _ (by decide : 41 < 256), ctlWrite_main _ _ _ (by decide : 42 + 0 < 256),
    ctlWrite_main _ _ _ (by decide : 42 + 1 < 256), ctlWrite_main _ _ _ (by decide : 42 + 2 < 256),
    ctlWrite_main _ _ _ (by decide : 42 + 3 < 256), bind, Except.bind, pure, Except.pure]
  generalize hX : State.mk _ _ _ _ _ _ _ _ _ _ _ _ _ _ _ _ _ _ _ _ _ _ _ _ _ _ _ _ _ _ _ _ _ _ _ _ _ _ _ = X
  have c0 : SameB s X := by subst hX; same_b_tac
  have h0 : Base X := hB.transfer c0 (by subst hX; exact hB.shape.transfer (by simp) rfl rfl rfl rfl rfl rfl rfl)
    (by subst hX; exact hB.flags)
  obtain ⟨m, hdec, hwait⟩ := hm.decode "modulation_transition_mode"
  have hlt := hm.lt
  have hreg64 : reg64 X 42 = value := by
    subst hX
    simp [reg64, reg, rd_set, hsz]
    have := hm.value_lt
    omega
  have hregm : rd X.ctl 41 = mode := by
    subst hX
    simp [rd_set, hsz]
    omega
  have hrep : rd X.ctl (39 + seg) = rd s.ctl (39 + seg) := by
    have : seg = 0 ∨ seg = 1 := by omega
    subst hX
    rcases this with rfl | rfl <;> simp [rd_set]
  have hswap : X.modSwap = s.modSwap := by subst hX; rfl
  obtain ⟨s', e, hB', hC'⟩ := mod_request_step X h0 seg mode m
    (by subst hX; simp [rd_set, hsz]; omega) hseg
    (by rw [hreg64, hregm]; exact hdec) hwait
  simp only [e]
  refine ⟨_, _, rfl, hB', fun hc g => hC' (hc.transfer c0) ?_⟩
  rw [hswap, hrep]; exact g

end Autd3.Fw
