import Autd3.Model.Ctl
/-!
Specification predicates (stated on what the link observes: the `Call` trace and the returned
result) and helper lemmas for `Props/C04.lean`.  Core only.
-/
namespace Autd3.Ctl

theorem and_7f (n : Nat) : n &&& 0x7F = n % 128 := Nat.and_two_pow_sub_one_eq_mod n 7


def ids (tx : List Tx) : List Nat := tx.map (·.msgId)
def acks (rx : List Rx) : List Nat := rx.map (·.ack)

theorem recvInto_length (rx new : List Rx) : (recvInto rx new).length = rx.length := by
  induction rx generalizing new with
  | nil => simp [recvInto]
  | cons o os ih => cases new <;> simp [recvInto, ih]

theorem processed_iff (tx : List Tx) (rx : List Rx) (h : tx.length = rx.length) :
    (checkIfMsgIsProcessed tx rx).all id = true ↔ ids tx = acks rx := by
  induction tx generalizing rx with
  | nil => cases rx <;> simp_all [checkIfMsgIsProcessed, acks, ids]
  | cons t ts ih =>
    cases rx with
    | nil => simp at h
    | cons r rs =>
      simp only [List.length_cons, Nat.add_right_cancel_iff] at h
      have := ih rs h
      simp only [acks, ids] at this
      simp [checkIfMsgIsProcessed, acks, ids, this]

theorem pack_length (tag : Nat) (tx : List Tx) (ops : List Nat) : (pack tag tx ops).1.length = tx.length := by
  induction tx generalizing ops with
  | nil => cases ops <;> simp [pack]
  | cons t ts ih => cases ops <;> simp [pack, ih]

/-! ### spec 1: acknowledged before the next frame -/

def ackStep (p : Option (List Nat)) : Call → Option (Option (List Nat))
  | .send tx true => if p.isNone then some (some (ids tx)) else none
  | .recv (some rx) =>
    some (match p with
      | some i => if acks rx = i then none else some i
      | none => none)
  | _ => some p

def ackedBeforeNext : Option (List Nat) → List Call → Bool
  | p, [] => p.isNone
  | p, c :: t =>
    match ackStep p c with
    | some p' => ackedBeforeNext p' t
    | none => false

theorem wait_acked (tx : List Tx) (polls : List Poll) (rx : List Rx) (h : tx.length = rx.length)
    (hok : (waitMsgProcessed false tx rx polls).1 = .ok) (rest : List Call) :
    ackedBeforeNext (some (ids tx)) ((waitMsgProcessed false tx rx polls).2.2 ++ rest) = ackedBeforeNext none rest := by
  induction polls generalizing rx with
  | nil => simp [waitMsgProcessed] at hok
  | cons p ps ih =>
    cases hopen : p.isOpen
    · simp [waitMsgProcessed, hopen] at hok
    · cases hrecv : p.recv with
      | none => simp [waitMsgProcessed, hopen, hrecv] at hok
      | some new =>
        have hl : tx.length = (recvInto rx new).length := by rw [recvInto_length]; exact h
        by_cases hp : (checkIfMsgIsProcessed tx (recvInto rx new)).all id = true
        · have := (processed_iff tx _ hl).1 hp
          simp [waitMsgProcessed, hopen, hrecv, hp, ackedBeforeNext, ackStep, this]
        · have hne : ¬ acks (recvInto rx new) = ids tx := fun e => hp ((processed_iff tx _ hl).2 e.symm)
          cases hlate : p.late
          · simp only [waitMsgProcessed, hopen, hrecv, hp, hlate] at hok ⊢
            simp at hok
            have := ih (recvInto rx new) hl hok
            simp [ackedBeforeNext, ackStep, hne, this]
          · simp [waitMsgProcessed, hopen, hrecv, hp, hlate, afterLoop] at hok
            split at hok <;> simp at hok

theorem wait_length (tz : Bool) (tx : List Tx) (polls : List Poll) (rx : List Rx) :
    (waitMsgProcessed tz tx rx polls).2.1.length = rx.length := by
  induction polls generalizing rx with
  | nil => simp [waitMsgProcessed]
  | cons p ps ih =>
    simp only [waitMsgProcessed]
    split
    · rfl
    · split
      · rfl
      · split
        · simp [recvInto_length]
        · split
          · simp [recvInto_length]
          · simp [ih, recvInto_length]

/-- controller state invariant: one `RxMessage` per `TxMessage` -/
def St.wf (st : St) : Bool := st.tx.length == st.rx.length

theorem sendReceive_wf (tz : Bool) (st : St) (f : FrameScript) (h : st.wf = true) :
    (sendReceive tz st f).2.1.wf = true ∧ (sendReceive tz st f).2.1.tx = st.tx := by
  simp only [St.wf, beq_iff_eq] at h ⊢
  unfold sendReceive
  split
  · exact ⟨h, rfl⟩
  · split
    · exact ⟨h, rfl⟩
    · simp [wait_length, h]

theorem sendReceive_acked (st : St) (f : FrameScript) (h : st.wf = true)
    (hok : (sendReceive false st f).1 = .ok) (rest : List Call) :
    ackedBeforeNext none ((sendReceive false st f).2.2 ++ rest) = ackedBeforeNext none rest := by
  simp only [St.wf, beq_iff_eq] at h
  unfold sendReceive at hok ⊢
  split
  · rename_i h1; simp [h1] at hok
  · rename_i h1
    split
    · rename_i h2; simp [h1, h2] at hok
    · rename_i h2
      simp only [h1, h2] at hok
      simp at hok
      have := wait_acked st.tx f.polls st.rx h hok rest
      simp [ackedBeforeNext, ackStep, this]

theorem sendLoop_wf (tz : Bool) (tag : Nat) (frames : List (List Tx → FrameScript)) (st : St) (ops : List Nat)
    (h : st.wf = true) : (sendLoop tz tag st ops frames).2.1.wf = true := by
  induction frames generalizing st ops with
  | nil => simpa [sendLoop] using h
  | cons f fs ih =>
    have hwf1 : ({ st with tx := (pack tag st.tx ops).1 } : St).wf = true := by
      simp only [St.wf, beq_iff_eq] at h ⊢; simp [pack_length, h]
    have h2 := (sendReceive_wf tz _ (f (pack tag st.tx ops).1) hwf1).1
    simp only [sendLoop]
    split
    · split
      · exact h2
      · exact ih _ _ h2
    · exact h2

theorem sendLoop_acked (tag : Nat) (frames : List (List Tx → FrameScript)) (st : St) (ops : List Nat)
    (h : st.wf = true) (hok : (sendLoop false tag st ops frames).1 = .ok) (rest : List Call) :
    ackedBeforeNext none ((sendLoop false tag st ops frames).2.2 ++ rest) = ackedBeforeNext none rest := by
  induction frames generalizing st ops with
  | nil => simp [sendLoop] at hok
  | cons f fs ih =>
    have hwf1 : ({ st with tx := (pack tag st.tx ops).1 } : St).wf = true := by
      simp only [St.wf, beq_iff_eq] at h ⊢; simp [pack_length, h]
    have h2 := (sendReceive_wf false _ (f (pack tag st.tx ops).1) hwf1).1
    have hres : ∀ r, (sendReceive false { st with tx := (pack tag st.tx ops).1 } (f (pack tag st.tx ops).1)).1 = r →
        r ≠ .ok → (sendLoop false tag st ops (f :: fs)).1 = r := by
      intro r hr hne
      cases r <;> simp_all [sendLoop]
    cases hs : (sendReceive false { st with tx := (pack tag st.tx ops).1 } (f (pack tag st.tx ops).1)).1 with
    | ok =>
      have ha := sendReceive_acked _ (f (pack tag st.tx ops).1) hwf1 hs
      simp only [sendLoop, hs] at hok ⊢
      by_cases hd : isDone (pack tag st.tx ops).2 = true
      · simp only [hd, if_true]; exact ha rest
      · simp only [hd] at hok ⊢
        simp only [Bool.false_eq_true, if_false] at hok ⊢
        rw [List.append_assoc, ha]
        exact ih _ _ h2 hok
    | err e => rw [hres _ hs (by simp)] at hok; simp at hok
    | stuck => rw [hres _ hs (by simp)] at hok; simp at hok

/-! ### spec 2: the result is decided by the last thing the link said -/

/-- what the property says about a frame that was given up on after a receive returned `rx` -/
def specAfter (tz : Bool) (rx : List Rx) : Res :=
  match rx.find? (fun r => r.ack &&& 0x80 ≠ 0) with
  | some r => .err (firmwareErr r.ack)
  | none => if tz then .ok else .err .confirmResponseFailed

/-- the result the property prescribes if `c` is the last call the link sees, `cur` being the last
frame that was transmitted -/
def callVerdict (tz : Bool) (cur : Option (List Tx)) : Call → Res
  | .update false => .err (.link "update")
  | .isOpen false => .err .linkClosed
  | .send _ false => .err (.link "send")
  | .recv none => .err (.link "receive")
  | .recv (some rx) =>
    match cur with
    | some tx => if acks rx = ids tx then .ok else specAfter tz rx
    | none => .stuck
  | _ => .stuck

structure Walk where
  cur : Option (List Tx)
  verdict : Res

def walkStep (tz : Bool) (w : Walk) (c : Call) : Walk :=
  let cur := match c with
    | .send tx true => some tx
    | _ => w.cur
  ⟨cur, callVerdict tz cur c⟩

def walk (tz : Bool) (w : Walk) (tr : List Call) : Walk := tr.foldl (walkStep tz) w

theorem walk_append (tz : Bool) (w : Walk) (a b : List Call) : walk tz w (a ++ b) = walk tz (walk tz w a) b := by
  simp [walk, List.foldl_append]

theorem afterLoop_eq_spec (tz : Bool) (rx : List Rx) : afterLoop tz rx = specAfter tz rx := by
  have h : firstFirmwareErr rx = (rx.find? (fun r => r.ack &&& 0x80 ≠ 0)).map (fun r => firmwareErr r.ack) := by
    induction rx with
    | nil => rfl
    | cons r rs ih =>
      simp only [firstFirmwareErr, checkFirmwareErr, List.find?]
      by_cases hb : r.ack &&& 0x80 ≠ 0
      · simp [hb]
      · simp only [hb, if_false, ih]; simp
  unfold afterLoop specAfter
  rw [h]
  cases rx.find? (fun r => r.ack &&& 0x80 ≠ 0) <;> rfl

theorem wait_walk (tz : Bool) (tx : List Tx) (polls : List Poll) (rx : List Rx) (h : tx.length = rx.length)
    (w0 : Walk) (hcur : w0.cur = some tx) (hns : (waitMsgProcessed tz tx rx polls).1 ≠ .stuck) :
    walk tz w0 (waitMsgProcessed tz tx rx polls).2.2 = ⟨some tx, (waitMsgProcessed tz tx rx polls).1⟩ := by
  induction polls generalizing rx w0 with
  | nil => simp [waitMsgProcessed] at hns
  | cons p ps ih =>
    cases hopen : p.isOpen
    · simp [waitMsgProcessed, hopen, walk, walkStep, callVerdict, hcur]
    · cases hrecv : p.recv with
      | none => simp [waitMsgProcessed, hopen, hrecv, walk, walkStep, callVerdict, hcur]
      | some new =>
        have hl : tx.length = (recvInto rx new).length := by rw [recvInto_length]; exact h
        by_cases hp : (checkIfMsgIsProcessed tx (recvInto rx new)).all id = true
        · have := (processed_iff tx _ hl).1 hp
          simp [waitMsgProcessed, hopen, hrecv, hp, walk, walkStep, callVerdict, hcur, this]
        · have hne : ¬ acks (recvInto rx new) = ids tx := fun e => hp ((processed_iff tx _ hl).2 e.symm)
          cases hlate : p.late
          · simp only [waitMsgProcessed, hopen, hrecv, hp, hlate] at hns ⊢
            simp at hns
            have := ih (recvInto rx new) hl ⟨some tx, callVerdict tz (some tx) (.recv (some (recvInto rx new)))⟩ rfl hns
            simp [walk, walkStep, hcur] at this ⊢
            exact this
          · simp [waitMsgProcessed, hopen, hrecv, hp, hlate, walk, walkStep, callVerdict, hcur, hne, afterLoop_eq_spec]

theorem sendReceive_walk (tz : Bool) (st : St) (f : FrameScript) (h : st.wf = true) (w0 : Walk)
    (hns : (sendReceive tz st f).1 ≠ .stuck) :
    (walk tz w0 (sendReceive tz st f).2.2).verdict = (sendReceive tz st f).1 := by
  simp only [St.wf, beq_iff_eq] at h
  cases ho : f.isOpen
  · simp [sendReceive, ho, walk, walkStep, callVerdict]
  · cases hs : f.sendOk
    · simp [sendReceive, ho, hs, walk, walkStep, callVerdict]
    · simp only [sendReceive, ho, hs] at hns ⊢
      simp at hns
      have := wait_walk tz st.tx f.polls st.rx h ⟨some st.tx, .stuck⟩ rfl hns
      simp [walk, walkStep, callVerdict] at this ⊢
      rw [this]

theorem sendLoop_walk (tz : Bool) (tag : Nat) (frames : List (List Tx → FrameScript)) (st : St) (ops : List Nat)
    (h : st.wf = true) (w0 : Walk) (hns : (sendLoop tz tag st ops frames).1 ≠ .stuck) :
    (walk tz w0 (sendLoop tz tag st ops frames).2.2).verdict = (sendLoop tz tag st ops frames).1 := by
  induction frames generalizing st ops w0 with
  | nil => simp [sendLoop] at hns
  | cons f fs ih =>
    have hwf1 : ({ st with tx := (pack tag st.tx ops).1 } : St).wf = true := by
      simp only [St.wf, beq_iff_eq] at h ⊢; simp [pack_length, h]
    have h2 := (sendReceive_wf tz _ (f (pack tag st.tx ops).1) hwf1).1
    cases hs : (sendReceive tz { st with tx := (pack tag st.tx ops).1 } (f (pack tag st.tx ops).1)).1 with
    | ok =>
      have ha := sendReceive_walk tz _ (f (pack tag st.tx ops).1) hwf1 w0 (by rw [hs]; simp)
      simp only [sendLoop, hs] at hns ⊢
      by_cases hd : isDone (pack tag st.tx ops).2 = true
      · simp only [hd, if_true]; rw [ha, hs]
      · simp only [hd] at hns ⊢
        simp only [Bool.false_eq_true, if_false] at hns ⊢
        rw [walk_append]
        exact ih _ _ h2 _ hns
    | err e =>
      have ha := sendReceive_walk tz _ (f (pack tag st.tx ops).1) hwf1 w0 (by rw [hs]; simp)
      simp only [sendLoop, hs]; rw [ha, hs]
    | stuck => simp [sendLoop, hs] at hns


theorem sendReceive_tx (tz : Bool) (st : St) (f : FrameScript) : (sendReceive tz st f).2.1.tx = st.tx := by
  unfold sendReceive; split
  · rfl
  · split <;> rfl

/-! ### termination -/


/-- frames a set of operations still needs -/
def maxOp : List Nat → Nat
  | [] => 0
  | a :: as => max a (maxOp as)

theorem pack_ops (tag : Nat) (tx : List Tx) (ops : List Nat) (h : ops.length ≤ tx.length) :
    (pack tag tx ops).2 = ops.map (· - 1) := by
  induction tx generalizing ops with
  | nil => cases ops <;> simp_all [pack]
  | cons t ts ih =>
    cases ops with
    | nil => simp [pack]
    | cons r rs =>
      simp only [List.length_cons, Nat.add_le_add_iff_right] at h
      simp only [pack, ih rs h, List.map_cons, packOp]
      split <;> simp_all

theorem maxOp_pred (ops : List Nat) : maxOp (ops.map (· - 1)) = maxOp ops - 1 := by
  induction ops with
  | nil => rfl
  | cons a as ih => simp only [List.map_cons, maxOp, ih]; omega

theorem isDone_iff (ops : List Nat) : isDone ops = true ↔ maxOp ops = 0 := by
  induction ops with
  | nil => simp [isDone, maxOp]
  | cons a as ih =>
    simp only [isDone, List.all_cons, Bool.and_eq_true, beq_iff_eq, maxOp] at ih ⊢
    rw [ih]; omega

theorem wait_not_stuck (tz : Bool) (tx : List Tx) (polls : List Poll) (rx : List Rx)
    (hfair : polls.any (·.late) = true) : (waitMsgProcessed tz tx rx polls).1 ≠ .stuck := by
  induction polls generalizing rx with
  | nil => simp at hfair
  | cons p ps ih =>
    simp only [waitMsgProcessed]
    split
    · simp
    · split
      · simp
      · split
        · simp
        · split
          · simp only [afterLoop]; split <;> (try split) <;> simp
          · rename_i hl
            simp only [List.any_cons, hl, Bool.false_or] at hfair
            exact ih _ hfair

/-- polls consumed: never beyond the first late one -/
theorem wait_polls_bound (tz : Bool) (tx : List Tx) (polls : List Poll) (rx : List Rx) :
    (waitMsgProcessed tz tx rx polls).2.2.length ≤ 2 * (polls.findIdx (·.late) + 1) := by
  induction polls generalizing rx with
  | nil => simp [waitMsgProcessed]
  | cons p ps ih =>
    simp only [waitMsgProcessed, List.findIdx_cons]
    split
    · simp; omega
    · split
      · simp; omega
      · split
        · simp; omega
        · split
          · simp; omega
          · rename_i hl
            simp only [hl]
            have := ih (recvInto rx ‹List Rx›)
            simp only [List.length_cons, cond_false]
            omega

def isSend : Call → Bool
  | .send _ _ => true
  | _ => false

theorem wait_no_send (tz : Bool) (tx : List Tx) (polls : List Poll) (rx : List Rx) :
    (waitMsgProcessed tz tx rx polls).2.2.countP isSend = 0 := by
  induction polls generalizing rx with
  | nil => simp [waitMsgProcessed]
  | cons p ps ih =>
    simp only [waitMsgProcessed]
    split
    · simp [isSend]
    · split
      · simp [isSend]
      · split
        · simp [isSend]
        · split
          · simp [isSend]
          · simp [isSend, ih]

theorem sendReceive_sends (tz : Bool) (st : St) (f : FrameScript) :
    (sendReceive tz st f).2.2.countP isSend ≤ 1 := by
  unfold sendReceive; split
  · simp [isSend]
  · split
    · simp [isSend]
    · simp only [List.countP_cons, isSend, wait_no_send]; simp

theorem sendReceive_not_stuck (tz : Bool) (st : St) (f : FrameScript) (hfair : f.polls.any (·.late) = true) :
    (sendReceive tz st f).1 ≠ .stuck := by
  unfold sendReceive; split
  · simp
  · split
    · simp
    · exact wait_not_stuck tz _ _ _ hfair

theorem sendLoop_terminates (tz : Bool) (tag : Nat) (frames : List (List Tx → FrameScript)) (st : St) (ops : List Nat)
    (hlen : ops.length = st.tx.length) (hn : max 1 (maxOp ops) ≤ frames.length)
    (hfair : ∀ f ∈ frames, ∀ tx, (f tx).polls.any (·.late) = true) :
    (sendLoop tz tag st ops frames).1 ≠ .stuck ∧
    (sendLoop tz tag st ops frames).2.2.countP isSend ≤ max 1 (maxOp ops) := by
  induction frames generalizing st ops with
  | nil => simp at hn
  | cons f fs ih =>
    have hf := hfair f (by simp) (pack tag st.tx ops).1
    have hns := sendReceive_not_stuck tz { st with tx := (pack tag st.tx ops).1 } _ hf
    have hcnt := sendReceive_sends tz { st with tx := (pack tag st.tx ops).1 } (f (pack tag st.tx ops).1)
    have hops : (pack tag st.tx ops).2 = ops.map (· - 1) := pack_ops tag st.tx ops (by omega)
    cases hs : (sendReceive tz { st with tx := (pack tag st.tx ops).1 } (f (pack tag st.tx ops).1)).1 with
    | ok =>
      simp only [sendLoop, hs]
      by_cases hd : isDone (pack tag st.tx ops).2 = true
      · simp only [hd, if_true]; refine ⟨by simp, ?_⟩; omega
      · simp only [hd]
        simp only [Bool.false_eq_true, if_false]
        have hm : maxOp (pack tag st.tx ops).2 ≠ 0 := fun e => hd ((isDone_iff _).2 e)
        have hm2 : maxOp (pack tag st.tx ops).2 = maxOp ops - 1 := by rw [hops, maxOp_pred]
        have := ih (sendReceive tz { st with tx := (pack tag st.tx ops).1 } (f (pack tag st.tx ops).1)).2.1
          (pack tag st.tx ops).2
          (by rw [sendReceive_tx, hops]; simp [pack_length, hlen])
          (by simp only [List.length_cons] at hn; omega)
          (fun g hg => hfair g (by simp [hg]))
        refine ⟨this.1, ?_⟩
        rw [List.countP_append]
        omega
    | err e => simp only [sendLoop, hs]; refine ⟨by simp, ?_⟩; omega
    | stuck => exact absurd hs hns


/-! ### zero timeout; message ids -/


def isRecv : Call → Bool
  | .recv _ => true
  | _ => false

/-- after a late poll nothing more is asked -/
theorem wait_late_once (tz : Bool) (tx : List Tx) (rx : List Rx) (p : Poll) (ps : List Poll) (hl : p.late = true) :
    waitMsgProcessed tz tx rx (p :: ps) = waitMsgProcessed tz tx rx [p] ∧
    (waitMsgProcessed tz tx rx (p :: ps)).2.2.countP isRecv ≤ 1 := by
  simp only [waitMsgProcessed, hl, if_true]
  split
  · simp [isRecv]
  · split
    · simp [isRecv]
    · split <;> simp [isRecv]

theorem firstFirmwareErr_none (rx : List Rx) (h : ∀ r ∈ rx, r.ack &&& 0x80 = 0) : firstFirmwareErr rx = none := by
  induction rx with
  | nil => rfl
  | cons r rs ih =>
    have h1 := h r (by simp)
    simp only [firstFirmwareErr, checkFirmwareErr, h1]
    simp only [ne_eq, not_true_eq_false, if_false]
    exact ih (fun x hx => h x (by simp [hx]))

theorem wait_zero_not_required (tx : List Tx) (rx new : List Rx) (p : Poll) (ps : List Poll)
    (hl : p.late = true) (ho : p.isOpen = true) (hr : p.recv = some new)
    (hne : ∀ r ∈ recvInto rx new, r.ack &&& 0x80 = 0) :
    (waitMsgProcessed true tx rx (p :: ps)).1 = .ok := by
  simp only [waitMsgProcessed, hl, ho, hr, if_true]
  simp only [Bool.not_true, Bool.false_eq_true, if_false]
  split
  · rfl
  · simp [afterLoop, firstFirmwareErr_none _ hne]

/-! ### device side -/

/-- a packed frame never repeats the id of the frame before it -/
theorem msg_id_fresh (tag : Nat) (t : Tx) (rem : Nat) (h : rem ≠ 0) :
    (packOp tag t rem).1.msgId ≠ t.msgId ∧ (packOp tag t rem).1.msgId < 128 := by
  simp only [packOp, h, if_false, MSG_ID_MAX, and_7f]
  omega


/-! ### devices with a left-over id -/



theorem and_80_of_lt (n : Nat) (h : n < 128) : n &&& 0x80 = 0 := by
  apply Nat.eq_of_testBit_eq
  intro i
  simp only [Nat.testBit_and, Nat.zero_testBit]
  by_cases hi : i = 7
  · subst hi; simp [Nat.testBit_lt_two_pow (show n < 2^7 from h)]
  · have : Nat.testBit 0x80 i = false := by
      have : (0x80 : Nat) = 2 ^ 7 := by decide
      rw [this, Nat.testBit_two_pow]; simp; omega
    simp [this]

theorem pack_replicate (tag n : Nat) (t : Tx) :
    pack tag (List.replicate n t) (List.replicate n 1) =
      (List.replicate n ⟨(t.msgId + 1) &&& MSG_ID_MAX, tag⟩, List.replicate n 0) := by
  induction n with
  | zero => simp [pack]
  | succ n ih => simp [List.replicate_succ, pack, packOp, ih]

theorem recvInto_eq (rx new : List Rx) (h : new.length = rx.length) : recvInto rx new = new := by
  induction rx generalizing new with
  | nil => cases new <;> simp_all [recvInto]
  | cons o os ih =>
    cases new with
    | nil => simp at h
    | cons a as => simp only [List.length_cons, Nat.add_right_cancel_iff] at h; simp [recvInto, ih as h]

theorem deliver_fresh (ds : List Dev) (i tag : Nat) (hi : i < 128) (hd : ∀ d ∈ ds, d.lastMsgId ≠ i) :
    deliver ds (List.replicate ds.length ⟨i, tag⟩) = List.replicate ds.length (⟨i, i⟩, true) := by
  induction ds with
  | nil => simp [deliver]
  | cons d ds ih =>
    have h1 := hd d (by simp)
    have h2 := and_80_of_lt i hi
    simp only [List.length_cons, List.replicate_succ, deliver, ecatRecv, h1, if_false, h2]
    simp [ih (fun x hx => hd x (by simp [hx]))]

theorem processed_replicate (n i tag dat : Nat) :
    (checkIfMsgIsProcessed (List.replicate n ⟨i, tag⟩) (List.replicate n ⟨dat, i⟩)).all id = true := by
  induction n with
  | zero => simp [checkIfMsgIsProcessed]
  | succ n ih => simp [List.replicate_succ, checkIfMsgIsProcessed, ih]

theorem isDone_zero (n : Nat) : isDone (List.replicate n 0) = true := by
  simp [isDone]

/-- a one-frame datagram through a delivering link, all devices' last id different from the new id -/
theorem devSend_fresh (opt : Option Nat) (n tag i t0 : Nat) (rx : List Rx) (ds : List Dev)
    (hn : ds.length = n) (hrx : rx.length = n)
    (hd : ∀ d ∈ ds, d.lastMsgId ≠ (i + 1) % 128) :
    let r := devSend opt (oneFrame n tag) { tx := List.replicate n ⟨i, t0⟩, rx := rx } ds
    r.res = .ok ∧ r.processed = List.replicate n true ∧
    r.st.tx = List.replicate n ⟨(i + 1) % 128, tag⟩ ∧ r.st.rx.length = n ∧
    r.ds = List.replicate n ⟨(i + 1) % 128, (i + 1) % 128⟩ := by
  subst hn
  have hlt : (i + 1) % 128 < 128 := Nat.mod_lt _ (by decide)
  have hdel := deliver_fresh ds ((i + 1) % 128) tag hlt hd
  simp only [devSend, oneFrame, send, sendImpl, sendLoop, pack_replicate, and_7f, MSG_ID_MAX, sendReceive, devFrame,
    waitMsgProcessed, hdel]
  simp only [List.map_replicate]
  rw [recvInto_eq _ _ (by simp [hrx])]
  simp [processed_replicate, isDone_zero]

theorem sendReceive_rx_length (tz : Bool) (st : St) (f : FrameScript) :
    (sendReceive tz st f).2.1.rx.length = st.rx.length := by
  unfold sendReceive; split
  · rfl
  · split
    · rfl
    · simp [wait_length]

/-- one turn of the loop: whatever the link does, the buffers afterwards hold the packed frame -/
theorem send_one_frame_st (opt : Option Nat) (d : Datagram) (st : St) (f : List Tx → FrameScript) (hg : d.genFail = false) :
    (send opt d st { updateOk := true, frames := [f] }).2.1.tx = (pack d.tag st.tx d.frames).1 ∧
    (send opt d st { updateOk := true, frames := [f] }).2.1.rx.length = st.rx.length := by
  simp only [send, hg, sendImpl, sendLoop]
  simp only [Bool.false_eq_true, if_false, Bool.not_true]
  split
  · split
    · simp [sendReceive_tx, sendReceive_rx_length]
    · simp [sendReceive_tx, sendReceive_rx_length]
  · simp [sendReceive_tx, sendReceive_rx_length]

theorem deliver_last (ds : List Dev) (i tag : Nat) :
    ∀ d ∈ (deliver ds (List.replicate ds.length ⟨i, tag⟩)).map (·.1), d.lastMsgId = i := by
  induction ds with
  | nil => simp [deliver]
  | cons d ds ih =>
    intro x hx
    simp only [List.length_cons, List.replicate_succ, deliver, List.map_cons, List.mem_cons] at hx
    rcases hx with hx | hx
    · subst hx
      simp only [ecatRecv]
      split
      · assumption
      · split
        · rfl
        · split <;> rfl
    · exact ih x hx

theorem deliver_length (ds : List Dev) (tx : List Tx) (h : ds.length = tx.length) : (deliver ds tx).length = ds.length := by
  induction ds generalizing tx with
  | nil => simp [deliver]
  | cons d ds ih =>
    cases tx with
    | nil => simp at h
    | cons t ts => simp only [List.length_cons, Nat.add_right_cancel_iff] at h; simp [deliver, ih ts h]

theorem open_on_devices (opt : Option Nat) (ds : List Dev) :
    let n := ds.length
    let b := (openOnDevices opt ds).2
    b.res = .ok ∧ b.processed = List.replicate n true ∧
    b.st.tx = List.replicate n ⟨2, TAG_CLEAR⟩ ∧ b.st.rx.length = n ∧ b.ds = List.replicate n ⟨2, 2⟩ := by
  simp only [openOnDevices]
  have hst := send_one_frame_st opt (oneFrame ds.length TAG_FORCE_FAN)
    { tx := List.replicate ds.length ⟨0, 0⟩, rx := List.replicate ds.length ⟨0, 0⟩ } (devFrame ds) rfl
  simp only [oneFrame, pack_replicate, and_7f, MSG_ID_MAX, List.length_replicate] at hst
  have hds := deliver_last ds 1 TAG_FORCE_FAN
  have hlen : ((deliver ds (List.replicate ds.length ⟨1, TAG_FORCE_FAN⟩)).map (·.1)).length = ds.length := by
    simp [deliver_length]
  generalize hA : devSend opt (oneFrame ds.length TAG_FORCE_FAN)
    { tx := List.replicate ds.length ⟨0, 0⟩, rx := List.replicate ds.length ⟨0, 0⟩ } ds = A
  have hAtx : A.st.tx = List.replicate ds.length ⟨1, TAG_FORCE_FAN⟩ := by
    rw [← hA]; simpa [devSend, oneFrame] using hst.1
  have hArx : A.st.rx.length = ds.length := by
    rw [← hA]; simpa [devSend, oneFrame] using hst.2
  have hAds : A.ds = (deliver ds (List.replicate ds.length ⟨1, TAG_FORCE_FAN⟩)).map (·.1) := by
    rw [← hA]; simp [devSend, oneFrame, pack_replicate, and_7f, MSG_ID_MAX]
  have key := devSend_fresh opt ds.length TAG_CLEAR 1 TAG_FORCE_FAN A.st.rx A.ds (by rw [hAds, hlen]) hArx
    (by intro d hd; rw [hAds] at hd; rw [hds d hd]; decide)
  have hAst : A.st = { tx := List.replicate ds.length ⟨1, TAG_FORCE_FAN⟩, rx := A.st.rx } := by
    cases hAs : A.st; simp [hAs] at hAtx ⊢; exact hAtx
  rw [hAst]
  simpa using key


/-! ### scripts used by the statements and their non-vacuity witnesses -/

/-- a script that does not look at the frame (what a link does is a function of the turn only,
because the frames are determined by the state and the operations) -/
def constScript (updateOk : Bool) (fs : List FrameScript) : SendScript :=
  { updateOk := updateOk, frames := fs.map fun f _ => f }

/-- two devices, state after `open` -/
def st2 : St := { tx := [⟨2, 1⟩, ⟨2, 1⟩], rx := [⟨0, 2⟩, ⟨0, 2⟩] }

/-- acknowledgement on the third poll (first both stale, then one device, then both): `Ok`, and the
trace satisfies `ackedBeforeNext` -/
def lateAck : List FrameScript :=
  [{ isOpen := true, sendOk := true, polls :=
      [⟨true, some [⟨0, 2⟩, ⟨0, 2⟩], false⟩, ⟨true, some [⟨0, 3⟩, ⟨0, 2⟩], false⟩, ⟨true, some [⟨0, 3⟩, ⟨0, 3⟩], true⟩] }]

end Autd3.Ctl
