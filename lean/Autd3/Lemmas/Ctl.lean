import Autd3.Model.Ctl
/-!
Specification predicates (stated on what the link observes: the `Call` trace and the returned
result, **restricted to the enabled devices**) and helper lemmas for `Props/C04.lean`.  Core only.
-/
namespace Autd3.Ctl

theorem and_7f (n : Nat) : n &&& 0x7F = n % 128 := Nat.and_two_pow_sub_one_eq_mod n 7


def ids (tx : List Tx) : List Nat := tx.map (·.msgId)
def acks (rx : List Rx) : List Nat := rx.map (·.ack)

/-! ### `masked`: the sub-list of the enabled devices -/

theorem masked_nil_right {α : Type} (en : List Bool) : masked en ([] : List α) = [] := by
  cases en with
  | nil => rfl
  | cons e es => cases e <;> rfl

theorem masked_length_eq {α β : Type} (en : List Bool) (xs : List α) (ys : List β) (h : xs.length = ys.length) :
    (masked en xs).length = (masked en ys).length := by
  induction en generalizing xs ys with
  | nil => rfl
  | cons e es ih =>
    cases xs with
    | nil => cases ys with
      | nil => simp [masked_nil_right]
      | cons y ys => simp at h
    | cons x xs => cases ys with
      | nil => simp at h
      | cons y ys =>
        simp only [List.length_cons, Nat.add_right_cancel_iff] at h
        cases e <;> simp [masked, ih xs ys h]

theorem masked_all_true {α : Type} (xs : List α) : masked (List.replicate xs.length true) xs = xs := by
  induction xs with
  | nil => rfl
  | cons x xs ih => simp [List.replicate_succ, masked, ih]

theorem recvInto_length (rx new : List Rx) : (recvInto rx new).length = rx.length := by
  induction rx generalizing new with
  | nil => simp [recvInto]
  | cons o os ih => cases new <;> simp [recvInto, ih]

/-- the loop condition of `wait_msg_processed`, said on the enabled devices' sub-lists -/
theorem processed_iff (en : List Bool) (tx : List Tx) (rx : List Rx) (h : tx.length = rx.length) :
    allProcessed en (checkIfMsgIsProcessed tx rx) = true ↔ masked en (ids tx) = masked en (acks rx) := by
  induction en generalizing tx rx with
  | nil => simp [allProcessed, masked]
  | cons e es ih =>
    cases tx with
    | nil =>
      cases rx with
      | nil => simp [allProcessed, checkIfMsgIsProcessed, masked_nil_right, ids, acks]
      | cons r rs => simp at h
    | cons t ts =>
      cases rx with
      | nil => simp at h
      | cons r rs =>
        simp only [List.length_cons, Nat.add_right_cancel_iff] at h
        have := ih ts rs h
        simp only [allProcessed, acks, ids] at this
        cases e <;> simp [allProcessed, checkIfMsgIsProcessed, masked, acks, ids, this]

theorem pack_length (tag : Nat) (en : List Bool) (tx : List Tx) (ops : List Nat) :
    (pack tag en tx ops).1.length = tx.length := by
  induction en generalizing tx ops with
  | nil => simp [pack]
  | cons e es ih =>
    cases tx with
    | nil => cases e <;> cases ops <;> simp [pack]
    | cons t ts =>
      cases e with
      | false => simp [pack, ih]
      | true => cases ops <;> simp [pack, ih]

/-! ### spec 1: acknowledged (by every enabled device) before the next frame -/

/-- `p` = the enabled devices' ids of the frame that is still unacknowledged -/
def ackStep (en : List Bool) (p : Option (List Nat)) : Call → Option (Option (List Nat))
  | .send tx true => if p.isNone then some (some (masked en (ids tx))) else none
  | .recv (some rx) =>
    some (match p with
      | some i => if masked en (acks rx) = i then none else some i
      | none => none)
  | _ => some p

def ackedBeforeNext (en : List Bool) : Option (List Nat) → List Call → Bool
  | p, [] => p.isNone
  | p, c :: t =>
    match ackStep en p c with
    | some p' => ackedBeforeNext en p' t
    | none => false

theorem wait_acked (en : List Bool) (tx : List Tx) (polls : List Poll) (rx : List Rx) (h : tx.length = rx.length)
    (hok : (waitMsgProcessed false en tx rx polls).1 = .ok) (rest : List Call) :
    ackedBeforeNext en (some (masked en (ids tx))) ((waitMsgProcessed false en tx rx polls).2.2 ++ rest) =
      ackedBeforeNext en none rest := by
  induction polls generalizing rx with
  | nil => simp [waitMsgProcessed] at hok
  | cons p ps ih =>
    cases hopen : p.isOpen
    · simp [waitMsgProcessed, hopen] at hok
    · cases hrecv : p.recv with
      | none => simp [waitMsgProcessed, hopen, hrecv] at hok
      | some new =>
        have hl : tx.length = (recvInto rx new).length := by rw [recvInto_length]; exact h
        by_cases hp : allProcessed en (checkIfMsgIsProcessed tx (recvInto rx new)) = true
        · have := (processed_iff en tx _ hl).1 hp
          simp [waitMsgProcessed, hopen, hrecv, hp, ackedBeforeNext, ackStep, this]
        · have hne : ¬ masked en (acks (recvInto rx new)) = masked en (ids tx) :=
            fun e => hp ((processed_iff en tx _ hl).2 e.symm)
          cases hlate : p.late
          · simp only [waitMsgProcessed, hopen, hrecv, hp, hlate] at hok ⊢
            simp at hok
            have := ih (recvInto rx new) hl hok
            simp [ackedBeforeNext, ackStep, hne, this]
          · simp [waitMsgProcessed, hopen, hrecv, hp, hlate, afterLoop] at hok
            split at hok <;> simp at hok

theorem wait_length (tz : Bool) (en : List Bool) (tx : List Tx) (polls : List Poll) (rx : List Rx) :
    (waitMsgProcessed tz en tx rx polls).2.1.length = rx.length := by
  induction polls generalizing rx with
  | nil => simp [waitMsgProcessed]
  | cons p ps ih =>
    simp only [waitMsgProcessed]
    split
    · rfl
    · split
      · rfl
      · split
        · simp [recvInto_length]
        · split
          · simp [recvInto_length]
          · simp [ih, recvInto_length]

/-- controller state invariant: one `RxMessage` and one `Device` per `TxMessage` -/
def St.wf (st : St) : Bool := st.tx.length == st.rx.length && st.enable.length == st.tx.length

theorem St.wf_iff (st : St) : st.wf = true ↔ st.tx.length = st.rx.length ∧ st.enable.length = st.tx.length := by
  simp [St.wf]

theorem sendReceive_tx (tz : Bool) (st : St) (f : FrameScript) : (sendReceive tz st f).2.1.tx = st.tx := by
  unfold sendReceive; split
  · rfl
  · split <;> rfl

theorem sendReceive_enable (tz : Bool) (st : St) (f : FrameScript) : (sendReceive tz st f).2.1.enable = st.enable := by
  unfold sendReceive; split
  · rfl
  · split <;> rfl

theorem sendReceive_rx_length (tz : Bool) (st : St) (f : FrameScript) :
    (sendReceive tz st f).2.1.rx.length = st.rx.length := by
  unfold sendReceive; split
  · rfl
  · split
    · rfl
    · simp [wait_length]

theorem sendReceive_wf (tz : Bool) (st : St) (f : FrameScript) (h : st.wf = true) :
    (sendReceive tz st f).2.1.wf = true ∧ (sendReceive tz st f).2.1.tx = st.tx := by
  rw [St.wf_iff] at h ⊢
  rw [sendReceive_tx, sendReceive_enable, sendReceive_rx_length]
  exact ⟨h, rfl⟩

theorem sendReceive_acked (st : St) (f : FrameScript) (h : st.wf = true)
    (hok : (sendReceive false st f).1 = .ok) (rest : List Call) :
    ackedBeforeNext st.enable none ((sendReceive false st f).2.2 ++ rest) = ackedBeforeNext st.enable none rest := by
  rw [St.wf_iff] at h
  unfold sendReceive at hok ⊢
  split
  · rename_i h1; simp [h1] at hok
  · rename_i h1
    split
    · rename_i h2; simp [h1, h2] at hok
    · rename_i h2
      simp only [h1, h2] at hok
      simp at hok
      have := wait_acked st.enable st.tx f.polls st.rx h.1 hok rest
      simp [ackedBeforeNext, ackStep, this]

/-- the state handed to `send_receive` in one turn of the loop -/
theorem packed_wf (tag : Nat) (st : St) (ops : List Nat) (h : st.wf = true) :
    ({ st with tx := (pack tag st.enable st.tx ops).1 } : St).wf = true := by
  rw [St.wf_iff] at h ⊢
  simp [pack_length, h]

theorem sendLoop_enable (tz : Bool) (tag : Nat) (frames : List (List Tx → FrameScript)) (st : St) (ops : List Nat) :
    (sendLoop tz tag st ops frames).2.1.enable = st.enable := by
  induction frames generalizing st ops with
  | nil => simp [sendLoop]
  | cons f fs ih =>
    have h2 := sendReceive_enable tz ({ st with tx := (pack tag st.enable st.tx ops).1 } : St) (f (pack tag st.enable st.tx ops).1)
    simp only [sendLoop]
    split
    · split
      · exact h2
      · rw [ih]; exact h2
    · exact h2

theorem sendLoop_wf (tz : Bool) (tag : Nat) (frames : List (List Tx → FrameScript)) (st : St) (ops : List Nat)
    (h : st.wf = true) : (sendLoop tz tag st ops frames).2.1.wf = true := by
  induction frames generalizing st ops with
  | nil => simpa [sendLoop] using h
  | cons f fs ih =>
    have h2 := (sendReceive_wf tz _ (f (pack tag st.enable st.tx ops).1) (packed_wf tag st ops h)).1
    simp only [sendLoop]
    split
    · split
      · exact h2
      · exact ih _ _ h2
    · exact h2

theorem sendLoop_acked (tag : Nat) (frames : List (List Tx → FrameScript)) (st : St) (ops : List Nat)
    (h : st.wf = true) (hok : (sendLoop false tag st ops frames).1 = .ok) (rest : List Call) :
    ackedBeforeNext st.enable none ((sendLoop false tag st ops frames).2.2 ++ rest) =
      ackedBeforeNext st.enable none rest := by
  induction frames generalizing st ops with
  | nil => simp [sendLoop] at hok
  | cons f fs ih =>
    have hwf1 := packed_wf tag st ops h
    have h2 := (sendReceive_wf false _ (f (pack tag st.enable st.tx ops).1) hwf1).1
    have hen := sendReceive_enable false ({ st with tx := (pack tag st.enable st.tx ops).1 } : St) (f (pack tag st.enable st.tx ops).1)
    have hres : ∀ r, (sendReceive false ({ st with tx := (pack tag st.enable st.tx ops).1 } : St) (f (pack tag st.enable st.tx ops).1)).1 = r →
        r ≠ .ok → (sendLoop false tag st ops (f :: fs)).1 = r := by
      intro r hr hne
      cases r <;> simp_all [sendLoop]
    cases hs : (sendReceive false ({ st with tx := (pack tag st.enable st.tx ops).1 } : St) (f (pack tag st.enable st.tx ops).1)).1 with
    | ok =>
      have ha := sendReceive_acked _ (f (pack tag st.enable st.tx ops).1) hwf1 hs
      simp only [sendLoop, hs] at hok ⊢
      by_cases hd : isDone (pack tag st.enable st.tx ops).2 = true
      · simp only [hd, if_true]; exact ha rest
      · simp only [hd] at hok ⊢
        simp only [Bool.false_eq_true, if_false] at hok ⊢
        rw [List.append_assoc, ha]
        have := ih _ _ h2 hok
        rw [hen] at this
        exact this
    | err e => rw [hres _ hs (by simp)] at hok; simp at hok
    | stuck => rw [hres _ hs (by simp)] at hok; simp at hok

/-! ### spec 2: the result is decided by the last thing the link said -/

/-- what the property says about a frame that was given up on after a receive returned `rx`: the
first **enabled** device (in device order) whose acknowledgement carries the error bit decides -/
def specAfter (tz : Bool) (en : List Bool) (rx : List Rx) : Res :=
  match (masked en rx).find? (fun r => r.ack &&& 0x80 ≠ 0) with
  | some r => .err (firmwareErr r.ack)
  | none => if tz then .ok else .err .confirmResponseFailed

/-- the result the property prescribes if `c` is the last call the link sees, `cur` being the last
frame that was transmitted -/
def callVerdict (tz : Bool) (en : List Bool) (cur : Option (List Tx)) : Call → Res
  | .update false => .err (.link "update")
  | .isOpen false => .err .linkClosed
  | .send _ false => .err (.link "send")
  | .recv none => .err (.link "receive")
  | .recv (some rx) =>
    match cur with
    | some tx => if masked en (acks rx) = masked en (ids tx) then .ok else specAfter tz en rx
    | none => .stuck
  | _ => .stuck

structure Walk where
  cur : Option (List Tx)
  verdict : Res

def walkStep (tz : Bool) (en : List Bool) (w : Walk) (c : Call) : Walk :=
  let cur := match c with
    | .send tx true => some tx
    | _ => w.cur
  ⟨cur, callVerdict tz en cur c⟩

def walk (tz : Bool) (en : List Bool) (w : Walk) (tr : List Call) : Walk := tr.foldl (walkStep tz en) w

theorem walk_append (tz : Bool) (en : List Bool) (w : Walk) (a b : List Call) :
    walk tz en w (a ++ b) = walk tz en (walk tz en w a) b := by
  simp [walk, List.foldl_append]

theorem firstFirmwareErr_eq_find (en : List Bool) (rx : List Rx) :
    firstFirmwareErr en rx = ((masked en rx).find? (fun r => r.ack &&& 0x80 ≠ 0)).map (fun r => firmwareErr r.ack) := by
  induction en generalizing rx with
  | nil => cases rx <;> simp [firstFirmwareErr, masked]
  | cons e es ih =>
    cases rx with
    | nil => cases e <;> simp [firstFirmwareErr, masked]
    | cons r rs =>
      cases e with
      | false => simp [firstFirmwareErr, masked, ih]
      | true =>
        simp only [firstFirmwareErr, checkFirmwareErr, masked, List.find?, if_true]
        by_cases hb : r.ack &&& 0x80 ≠ 0
        · simp [hb]
        · simp only [hb, if_false, ih]; simp

theorem afterLoop_eq_spec (tz : Bool) (en : List Bool) (rx : List Rx) : afterLoop tz en rx = specAfter tz en rx := by
  unfold afterLoop specAfter
  rw [firstFirmwareErr_eq_find]
  cases (masked en rx).find? (fun r => r.ack &&& 0x80 ≠ 0) <;> rfl

theorem wait_walk (tz : Bool) (en : List Bool) (tx : List Tx) (polls : List Poll) (rx : List Rx) (h : tx.length = rx.length)
    (w0 : Walk) (hcur : w0.cur = some tx) (hns : (waitMsgProcessed tz en tx rx polls).1 ≠ .stuck) :
    walk tz en w0 (waitMsgProcessed tz en tx rx polls).2.2 = ⟨some tx, (waitMsgProcessed tz en tx rx polls).1⟩ := by
  induction polls generalizing rx w0 with
  | nil => simp [waitMsgProcessed] at hns
  | cons p ps ih =>
    cases hopen : p.isOpen
    · simp [waitMsgProcessed, hopen, walk, walkStep, callVerdict, hcur]
    · cases hrecv : p.recv with
      | none => simp [waitMsgProcessed, hopen, hrecv, walk, walkStep, callVerdict, hcur]
      | some new =>
        have hl : tx.length = (recvInto rx new).length := by rw [recvInto_length]; exact h
        by_cases hp : allProcessed en (checkIfMsgIsProcessed tx (recvInto rx new)) = true
        · have := (processed_iff en tx _ hl).1 hp
          simp [waitMsgProcessed, hopen, hrecv, hp, walk, walkStep, callVerdict, hcur, this]
        · have hne : ¬ masked en (acks (recvInto rx new)) = masked en (ids tx) :=
            fun e => hp ((processed_iff en tx _ hl).2 e.symm)
          cases hlate : p.late
          · simp only [waitMsgProcessed, hopen, hrecv, hp, hlate] at hns ⊢
            simp at hns
            have := ih (recvInto rx new) hl ⟨some tx, callVerdict tz en (some tx) (.recv (some (recvInto rx new)))⟩ rfl hns
            simp [walk, walkStep, hcur] at this ⊢
            exact this
          · simp [waitMsgProcessed, hopen, hrecv, hp, hlate, walk, walkStep, callVerdict, hcur, hne, afterLoop_eq_spec]

theorem sendReceive_walk (tz : Bool) (st : St) (f : FrameScript) (h : st.wf = true) (w0 : Walk)
    (hns : (sendReceive tz st f).1 ≠ .stuck) :
    (walk tz st.enable w0 (sendReceive tz st f).2.2).verdict = (sendReceive tz st f).1 := by
  rw [St.wf_iff] at h
  cases ho : f.isOpen
  · simp [sendReceive, ho, walk, walkStep, callVerdict]
  · cases hs : f.sendOk
    · simp [sendReceive, ho, hs, walk, walkStep, callVerdict]
    · simp only [sendReceive, ho, hs] at hns ⊢
      simp at hns
      have := wait_walk tz st.enable st.tx f.polls st.rx h.1 ⟨some st.tx, .stuck⟩ rfl hns
      simp [walk, walkStep, callVerdict] at this ⊢
      rw [this]

theorem sendLoop_walk (tz : Bool) (tag : Nat) (frames : List (List Tx → FrameScript)) (st : St) (ops : List Nat)
    (h : st.wf = true) (w0 : Walk) (hns : (sendLoop tz tag st ops frames).1 ≠ .stuck) :
    (walk tz st.enable w0 (sendLoop tz tag st ops frames).2.2).verdict = (sendLoop tz tag st ops frames).1 := by
  induction frames generalizing st ops w0 with
  | nil => simp [sendLoop] at hns
  | cons f fs ih =>
    have hwf1 := packed_wf tag st ops h
    have h2 := (sendReceive_wf tz _ (f (pack tag st.enable st.tx ops).1) hwf1).1
    have hen := sendReceive_enable tz ({ st with tx := (pack tag st.enable st.tx ops).1 } : St) (f (pack tag st.enable st.tx ops).1)
    cases hs : (sendReceive tz ({ st with tx := (pack tag st.enable st.tx ops).1 } : St) (f (pack tag st.enable st.tx ops).1)).1 with
    | ok =>
      have ha := sendReceive_walk tz _ (f (pack tag st.enable st.tx ops).1) hwf1 w0 (by rw [hs]; simp)
      simp only [sendLoop, hs] at hns ⊢
      by_cases hd : isDone (pack tag st.enable st.tx ops).2 = true
      · simp only [hd, if_true]; rw [ha, hs]
      · simp only [hd] at hns ⊢
        simp only [Bool.false_eq_true, if_false] at hns ⊢
        rw [walk_append]
        have := ih _ _ h2 (walk tz st.enable w0 (sendReceive tz ({ st with tx := (pack tag st.enable st.tx ops).1 } : St) (f (pack tag st.enable st.tx ops).1)).2.2) hns
        rw [hen] at this
        exact this
    | err e =>
      have ha := sendReceive_walk tz _ (f (pack tag st.enable st.tx ops).1) hwf1 w0 (by rw [hs]; simp)
      simp only [sendLoop, hs]; rw [ha, hs]
    | stuck => simp [sendLoop, hs] at hns

/-! ### termination -/


/-- frames a set of operations still needs -/
def maxOp : List Nat → Nat
  | [] => 0
  | a :: as => max a (maxOp as)

/-- every operation (one per enabled device) is packed in every turn -/
theorem pack_ops (tag : Nat) (en : List Bool) (tx : List Tx) (ops : List Nat) (h : ops.length ≤ (masked en tx).length) :
    (pack tag en tx ops).2 = ops.map (· - 1) := by
  induction en generalizing tx ops with
  | nil => cases ops <;> simp_all [pack, masked]
  | cons e es ih =>
    cases tx with
    | nil =>
      rw [masked_nil_right] at h
      cases ops with
      | nil => cases e <;> simp [pack]
      | cons r rs => simp at h
    | cons t ts =>
      cases e with
      | false =>
        simp only [masked] at h
        simp [pack, ih ts ops h]
      | true =>
        cases ops with
        | nil => simp [pack]
        | cons r rs =>
          simp only [masked, List.length_cons, Nat.add_le_add_iff_right] at h
          simp only [pack, ih ts rs h, List.map_cons, packOp]
          split <;> simp_all

theorem maxOp_pred (ops : List Nat) : maxOp (ops.map (· - 1)) = maxOp ops - 1 := by
  induction ops with
  | nil => rfl
  | cons a as ih => simp only [List.map_cons, maxOp, ih]; omega

theorem isDone_iff (ops : List Nat) : isDone ops = true ↔ maxOp ops = 0 := by
  induction ops with
  | nil => simp [isDone, maxOp]
  | cons a as ih =>
    simp only [isDone, List.all_cons, Bool.and_eq_true, beq_iff_eq, maxOp] at ih ⊢
    rw [ih]; omega

theorem wait_not_stuck (tz : Bool) (en : List Bool) (tx : List Tx) (polls : List Poll) (rx : List Rx)
    (hfair : polls.any (·.late) = true) : (waitMsgProcessed tz en tx rx polls).1 ≠ .stuck := by
  induction polls generalizing rx with
  | nil => simp at hfair
  | cons p ps ih =>
    simp only [waitMsgProcessed]
    split
    · simp
    · split
      · simp
      · split
        · simp
        · split
          · simp only [afterLoop]; split <;> (try split) <;> simp
          · rename_i hl
            simp only [List.any_cons, hl, Bool.false_or] at hfair
            exact ih _ hfair

/-- polls consumed: never beyond the first late one -/
theorem wait_polls_bound (tz : Bool) (en : List Bool) (tx : List Tx) (polls : List Poll) (rx : List Rx) :
    (waitMsgProcessed tz en tx rx polls).2.2.length ≤ 2 * (polls.findIdx (·.late) + 1) := by
  induction polls generalizing rx with
  | nil => simp [waitMsgProcessed]
  | cons p ps ih =>
    simp only [waitMsgProcessed, List.findIdx_cons]
    split
    · simp; omega
    · split
      · simp; omega
      · split
        · simp; omega
        · split
          · simp; omega
          · rename_i hl
            simp only [hl]
            have := ih (recvInto rx ‹List Rx›)
            simp only [List.length_cons, cond_false]
            omega

def isSend : Call → Bool
  | .send _ _ => true
  | _ => false

theorem wait_no_send (tz : Bool) (en : List Bool) (tx : List Tx) (polls : List Poll) (rx : List Rx) :
    (waitMsgProcessed tz en tx rx polls).2.2.countP isSend = 0 := by
  induction polls generalizing rx with
  | nil => simp [waitMsgProcessed]
  | cons p ps ih =>
    simp only [waitMsgProcessed]
    split
    · simp [isSend]
    · split
      · simp [isSend]
      · split
        · simp [isSend]
        · split
          · simp [isSend]
          · simp [isSend, ih]

theorem sendReceive_sends (tz : Bool) (st : St) (f : FrameScript) :
    (sendReceive tz st f).2.2.countP isSend ≤ 1 := by
  unfold sendReceive; split
  · simp [isSend]
  · split
    · simp [isSend]
    · simp only [List.countP_cons, isSend, wait_no_send]; simp

theorem sendReceive_not_stuck (tz : Bool) (st : St) (f : FrameScript) (hfair : f.polls.any (·.late) = true) :
    (sendReceive tz st f).1 ≠ .stuck := by
  unfold sendReceive; split
  · simp
  · split
    · simp
    · exact wait_not_stuck tz _ _ _ _ hfair

theorem sendLoop_terminates (tz : Bool) (tag : Nat) (frames : List (List Tx → FrameScript)) (st : St) (ops : List Nat)
    (hlen : ops.length ≤ (masked st.enable st.tx).length) (hn : max 1 (maxOp ops) ≤ frames.length)
    (hfair : ∀ f ∈ frames, ∀ tx, (f tx).polls.any (·.late) = true) :
    (sendLoop tz tag st ops frames).1 ≠ .stuck ∧
    (sendLoop tz tag st ops frames).2.2.countP isSend ≤ max 1 (maxOp ops) := by
  induction frames generalizing st ops with
  | nil => simp at hn
  | cons f fs ih =>
    have hf := hfair f (by simp) (pack tag st.enable st.tx ops).1
    have hns := sendReceive_not_stuck tz ({ st with tx := (pack tag st.enable st.tx ops).1 } : St) _ hf
    have hcnt := sendReceive_sends tz ({ st with tx := (pack tag st.enable st.tx ops).1 } : St) (f (pack tag st.enable st.tx ops).1)
    have hops : (pack tag st.enable st.tx ops).2 = ops.map (· - 1) := pack_ops tag st.enable st.tx ops hlen
    cases hs : (sendReceive tz ({ st with tx := (pack tag st.enable st.tx ops).1 } : St) (f (pack tag st.enable st.tx ops).1)).1 with
    | ok =>
      simp only [sendLoop, hs]
      by_cases hd : isDone (pack tag st.enable st.tx ops).2 = true
      · simp only [hd, if_true]; refine ⟨by simp, ?_⟩; omega
      · simp only [hd]
        simp only [Bool.false_eq_true, if_false]
        have hm : maxOp (pack tag st.enable st.tx ops).2 ≠ 0 := fun e => hd ((isDone_iff _).2 e)
        have hm2 : maxOp (pack tag st.enable st.tx ops).2 = maxOp ops - 1 := by rw [hops, maxOp_pred]
        have := ih (sendReceive tz ({ st with tx := (pack tag st.enable st.tx ops).1 } : St) (f (pack tag st.enable st.tx ops).1)).2.1
          (pack tag st.enable st.tx ops).2
          (by
            simp only [sendReceive_tx, sendReceive_enable, hops, List.length_map]
            have := masked_length_eq st.enable (pack tag st.enable st.tx ops).1 st.tx (pack_length _ _ _ _)
            omega)
          (by simp only [List.length_cons] at hn; omega)
          (fun g hg => hfair g (by simp [hg]))
        refine ⟨this.1, ?_⟩
        rw [List.countP_append]
        omega
    | err e => simp only [sendLoop, hs]; refine ⟨by simp, ?_⟩; omega
    | stuck => exact absurd hs hns


/-! ### zero timeout; message ids -/


def isRecv : Call → Bool
  | .recv _ => true
  | _ => false

/-- after a late poll nothing more is asked -/
theorem wait_late_once (tz : Bool) (en : List Bool) (tx : List Tx) (rx : List Rx) (p : Poll) (ps : List Poll) (hl : p.late = true) :
    waitMsgProcessed tz en tx rx (p :: ps) = waitMsgProcessed tz en tx rx [p] ∧
    (waitMsgProcessed tz en tx rx (p :: ps)).2.2.countP isRecv ≤ 1 := by
  simp only [waitMsgProcessed, hl, if_true]
  split
  · simp [isRecv]
  · split
    · simp [isRecv]
    · split <;> simp [isRecv]

theorem firstFirmwareErr_none (en : List Bool) (rx : List Rx) (h : ∀ r ∈ masked en rx, r.ack &&& 0x80 = 0) :
    firstFirmwareErr en rx = none := by
  rw [firstFirmwareErr_eq_find]
  have : (masked en rx).find? (fun r => r.ack &&& 0x80 ≠ 0) = none := by
    rw [List.find?_eq_none]
    intro r hr
    simp [h r hr]
  rw [this]; rfl

theorem wait_zero_not_required (en : List Bool) (tx : List Tx) (rx new : List Rx) (p : Poll) (ps : List Poll)
    (hl : p.late = true) (ho : p.isOpen = true) (hr : p.recv = some new)
    (hne : ∀ r ∈ masked en (recvInto rx new), r.ack &&& 0x80 = 0) :
    (waitMsgProcessed true en tx rx (p :: ps)).1 = .ok := by
  simp only [waitMsgProcessed, hl, ho, hr, if_true]
  simp only [Bool.not_true, Bool.false_eq_true, if_false]
  split
  · rfl
  · simp [afterLoop, firstFirmwareErr_none _ _ hne]

/-! ### a disabled device's frame is never touched -/

theorem pack_disabled (tag : Nat) (en : List Bool) (tx : List Tx) (ops : List Nat) (i : Nat) (h : en[i]? = some false) :
    (pack tag en tx ops).1[i]? = tx[i]? := by
  induction en generalizing tx ops i with
  | nil => simp at h
  | cons e es ih =>
    cases tx with
    | nil => cases e <;> cases ops <;> simp [pack]
    | cons t ts =>
      cases i with
      | zero =>
        simp only [List.getElem?_cons_zero, Option.some.injEq] at h
        subst h
        simp [pack]
      | succ j =>
        simp only [List.getElem?_cons_succ] at h
        cases e with
        | false => simp [pack, ih ts ops j h]
        | true =>
          cases ops with
          | nil => simp [pack]
          | cons r rs => simp [pack, ih ts rs j h]

theorem sendLoop_disabled (tz : Bool) (tag : Nat) (frames : List (List Tx → FrameScript)) (st : St) (ops : List Nat)
    (i : Nat) (h : st.enable[i]? = some false) :
    (sendLoop tz tag st ops frames).2.1.tx[i]? = st.tx[i]? := by
  induction frames generalizing st ops with
  | nil => simp [sendLoop]
  | cons f fs ih =>
    have h2 := sendReceive_tx tz ({ st with tx := (pack tag st.enable st.tx ops).1 } : St) (f (pack tag st.enable st.tx ops).1)
    have hen := sendReceive_enable tz ({ st with tx := (pack tag st.enable st.tx ops).1 } : St) (f (pack tag st.enable st.tx ops).1)
    have hp := pack_disabled tag st.enable st.tx ops i h
    simp only [sendLoop]
    split
    · split
      · rw [h2]; exact hp
      · rw [ih _ _ (by rw [hen]; exact h), h2]; exact hp
    · rw [h2]; exact hp

/-! ### what a disabled device says is never looked at -/

/-- a receive buffer with the entries of the disabled devices wiped -/
def blank : List Bool → List Rx → List Rx
  | false :: es, _ :: rs => ⟨0, 0⟩ :: blank es rs
  | true :: es, r :: rs => r :: blank es rs
  | _, rs => rs

def blankPoll (en : List Bool) (p : Poll) : Poll := { p with recv := p.recv.map (blank en) }
def blankFrame (en : List Bool) (f : FrameScript) : FrameScript := { f with polls := f.polls.map (blankPoll en) }
def blankScript (en : List Bool) (sc : SendScript) : SendScript :=
  { sc with frames := sc.frames.map fun f tx => blankFrame en (f tx) }
def blankSt (st : St) : St := { st with rx := blank st.enable st.rx }
def blankCall (en : List Bool) : Call → Call
  | .recv (some rx) => .recv (some (blank en rx))
  | c => c

theorem blank_nil_right (en : List Bool) : blank en [] = [] := by
  cases en with
  | nil => rfl
  | cons e es => cases e <;> rfl

theorem recvInto_blank (en : List Bool) (rx new : List Rx) :
    recvInto (blank en rx) (blank en new) = blank en (recvInto rx new) := by
  induction en generalizing rx new with
  | nil => simp [blank]
  | cons e es ih =>
    cases rx with
    | nil => simp [blank_nil_right, recvInto]
    | cons o os =>
      cases new with
      | nil => cases e <;> simp [blank, recvInto]
      | cons n ns => cases e <;> simp [blank, recvInto, ih]

theorem allProcessed_blank (en : List Bool) (tx : List Tx) (rx : List Rx) :
    allProcessed en (checkIfMsgIsProcessed tx (blank en rx)) = allProcessed en (checkIfMsgIsProcessed tx rx) := by
  induction en generalizing tx rx with
  | nil => simp [blank]
  | cons e es ih =>
    cases rx with
    | nil => simp [blank_nil_right]
    | cons r rs =>
      cases tx with
      | nil => simp [checkIfMsgIsProcessed]
      | cons t ts =>
        have := ih ts rs
        simp only [allProcessed] at this
        cases e <;> simp [blank, checkIfMsgIsProcessed, allProcessed, this]

theorem firstFirmwareErr_blank (en : List Bool) (rx : List Rx) :
    firstFirmwareErr en (blank en rx) = firstFirmwareErr en rx := by
  induction en generalizing rx with
  | nil => simp [blank]
  | cons e es ih =>
    cases rx with
    | nil => simp [blank_nil_right]
    | cons r rs => cases e <;> simp [blank, firstFirmwareErr, ih]

theorem wait_blank (tz : Bool) (en : List Bool) (tx : List Tx) (polls : List Poll) (rx : List Rx) :
    (waitMsgProcessed tz en tx (blank en rx) (polls.map (blankPoll en))).1 = (waitMsgProcessed tz en tx rx polls).1 ∧
    (waitMsgProcessed tz en tx (blank en rx) (polls.map (blankPoll en))).2.1 =
      blank en (waitMsgProcessed tz en tx rx polls).2.1 ∧
    (waitMsgProcessed tz en tx (blank en rx) (polls.map (blankPoll en))).2.2 =
      (waitMsgProcessed tz en tx rx polls).2.2.map (blankCall en) := by
  induction polls generalizing rx with
  | nil => simp [waitMsgProcessed]
  | cons p ps ih =>
    cases hopen : p.isOpen
    · simp [waitMsgProcessed, blankPoll, hopen, blankCall]
    · cases hrecv : p.recv with
      | none => simp [waitMsgProcessed, blankPoll, hopen, hrecv, blankCall]
      | some new =>
        have ih' := ih (recvInto rx new)
        simp only [List.map_cons, waitMsgProcessed, blankPoll, hopen, hrecv, Option.map_some, recvInto_blank,
          allProcessed_blank, afterLoop, firstFirmwareErr_blank]
        by_cases hp : allProcessed en (checkIfMsgIsProcessed tx (recvInto rx new)) = true
        · simp [hp, blankCall]
        · cases hlate : p.late
          · simp only [hp]
            simp only [Bool.not_true, Bool.false_eq_true, if_false]
            refine ⟨ih'.1, ih'.2.1, ?_⟩
            simp [ih'.2.2, blankCall]
          · simp [hp, blankCall]

theorem sendReceive_blank (tz : Bool) (st : St) (f : FrameScript) :
    (sendReceive tz (blankSt st) (blankFrame st.enable f)).1 = (sendReceive tz st f).1 ∧
    (sendReceive tz (blankSt st) (blankFrame st.enable f)).2.1 = blankSt (sendReceive tz st f).2.1 ∧
    (sendReceive tz (blankSt st) (blankFrame st.enable f)).2.2 = (sendReceive tz st f).2.2.map (blankCall st.enable) := by
  have hw := wait_blank tz st.enable st.tx f.polls st.rx
  cases ho : f.isOpen
  · simp [sendReceive, blankFrame, blankSt, ho, blankCall]
  · cases hs : f.sendOk
    · simp [sendReceive, blankFrame, blankSt, ho, hs, blankCall]
    · simp only [sendReceive, blankFrame, blankSt, ho, hs]
      simp only [Bool.not_true, Bool.false_eq_true, if_false]
      refine ⟨hw.1, ?_, ?_⟩
      · simp [hw.2.1]
      · simp [hw.2.2, blankCall]

theorem sendLoop_blank (tz : Bool) (tag : Nat) (frames : List (List Tx → FrameScript)) (st : St) (ops : List Nat) :
    (sendLoop tz tag (blankSt st) ops (frames.map fun f tx => blankFrame st.enable (f tx))).1 = (sendLoop tz tag st ops frames).1 ∧
    (sendLoop tz tag (blankSt st) ops (frames.map fun f tx => blankFrame st.enable (f tx))).2.1 =
      blankSt (sendLoop tz tag st ops frames).2.1 ∧
    (sendLoop tz tag (blankSt st) ops (frames.map fun f tx => blankFrame st.enable (f tx))).2.2 =
      (sendLoop tz tag st ops frames).2.2.map (blankCall st.enable) := by
  induction frames generalizing st ops with
  | nil => simp [sendLoop]
  | cons f fs ih =>
    have hb := sendReceive_blank tz ({ st with tx := (pack tag st.enable st.tx ops).1 } : St) (f (pack tag st.enable st.tx ops).1)
    have hen := sendReceive_enable tz ({ st with tx := (pack tag st.enable st.tx ops).1 } : St) (f (pack tag st.enable st.tx ops).1)
    have hst : ∀ X, ({ tx := X, rx := (blankSt st).rx, enable := st.enable } : St) =
        blankSt { tx := X, rx := st.rx, enable := st.enable } := fun _ => rfl
    simp only [List.map_cons, sendLoop]
    have e1 : (blankSt st).enable = st.enable := rfl
    have e2 : (blankSt st).tx = st.tx := rfl
    simp only [e1, e2, hst]
    have e3 : ({ st with tx := (pack tag st.enable st.tx ops).1 } : St).enable = st.enable := rfl
    rw [e3] at hb
    rw [hb.1]
    cases hs : (sendReceive tz ({ st with tx := (pack tag st.enable st.tx ops).1 } : St) (f (pack tag st.enable st.tx ops).1)).1 with
    | ok =>
      by_cases hd : isDone (pack tag st.enable st.tx ops).2 = true
      · simp only [hd, if_true]
        exact ⟨trivial, hb.2.1, hb.2.2⟩
      · simp only [hd, Bool.false_eq_true, if_false]
        have := ih (sendReceive tz ({ st with tx := (pack tag st.enable st.tx ops).1 } : St) (f (pack tag st.enable st.tx ops).1)).2.1 (pack tag st.enable st.tx ops).2
        rw [hen, e3] at this
        rw [hb.2.1, hb.2.2]
        refine ⟨this.1, this.2.1, ?_⟩
        rw [this.2.2, List.map_append]
    | err e => exact ⟨rfl, hb.2.1, hb.2.2⟩
    | stuck => exact ⟨rfl, hb.2.1, hb.2.2⟩

theorem send_blank (opt : Option Nat) (d : Datagram) (st : St) (sc : SendScript) :
    (send opt d (blankSt st) (blankScript st.enable sc)).1 = (send opt d st sc).1 ∧
    (send opt d (blankSt st) (blankScript st.enable sc)).2.1 = blankSt (send opt d st sc).2.1 ∧
    (send opt d (blankSt st) (blankScript st.enable sc)).2.2 = (send opt d st sc).2.2.map (blankCall st.enable) := by
  have hl := sendLoop_blank (opt.getD d.timeoutMs == 0) d.tag sc.frames st (generate st.enable d.frames)
  have e1 : (blankSt st).enable = st.enable := rfl
  simp only [send, sendImpl, blankScript, e1]
  cases hg : d.genFail
  · cases hu : sc.updateOk
    · simp [blankCall]
    · simp only [Bool.false_eq_true, if_false, Bool.not_true]
      refine ⟨hl.1, hl.2.1, ?_⟩
      simp [hl.2.2, blankCall]
  · simp

/-! ### device side -/

/-- a packed frame never repeats the id of the frame before it -/
theorem msg_id_fresh (tag : Nat) (t : Tx) (rem : Nat) (h : rem ≠ 0) :
    (packOp tag t rem).1.msgId ≠ t.msgId ∧ (packOp tag t rem).1.msgId < 128 := by
  simp only [packOp, h, if_false, MSG_ID_MAX, and_7f]
  omega


/-! ### devices with a left-over id -/



theorem and_80_of_lt (n : Nat) (h : n < 128) : n &&& 0x80 = 0 := by
  apply Nat.eq_of_testBit_eq
  intro i
  simp only [Nat.testBit_and, Nat.zero_testBit]
  by_cases hi : i = 7
  · subst hi; simp [Nat.testBit_lt_two_pow (show n < 2^7 from h)]
  · have : Nat.testBit 0x80 i = false := by
      have : (0x80 : Nat) = 2 ^ 7 := by decide
      rw [this, Nat.testBit_two_pow]; simp; omega
    simp [this]

theorem masked_replicate_true {α : Type} (n : Nat) (x : α) :
    masked (List.replicate n true) (List.replicate n x) = List.replicate n x := by
  have := masked_all_true (List.replicate n x)
  simpa using this

theorem pack_replicate (tag n : Nat) (t : Tx) :
    pack tag (List.replicate n true) (List.replicate n t) (List.replicate n 1) =
      (List.replicate n ⟨(t.msgId + 1) &&& MSG_ID_MAX, tag⟩, List.replicate n 0) := by
  induction n with
  | zero => simp [pack]
  | succ n ih => simp [List.replicate_succ, pack, packOp, ih]

theorem recvInto_eq (rx new : List Rx) (h : new.length = rx.length) : recvInto rx new = new := by
  induction rx generalizing new with
  | nil => cases new <;> simp_all [recvInto]
  | cons o os ih =>
    cases new with
    | nil => simp at h
    | cons a as => simp only [List.length_cons, Nat.add_right_cancel_iff] at h; simp [recvInto, ih as h]

theorem deliver_fresh (ds : List Dev) (i tag : Nat) (hi : i < 128) (hd : ∀ d ∈ ds, d.lastMsgId ≠ i) :
    deliver ds (List.replicate ds.length ⟨i, tag⟩) = List.replicate ds.length (⟨i, i⟩, true) := by
  induction ds with
  | nil => simp [deliver]
  | cons d ds ih =>
    have h1 := hd d (by simp)
    have h2 := and_80_of_lt i hi
    simp only [List.length_cons, List.replicate_succ, deliver, ecatRecv, h1, if_false, h2]
    simp [ih (fun x hx => hd x (by simp [hx]))]

theorem processed_replicate (n i tag dat : Nat) :
    allProcessed (List.replicate n true) (checkIfMsgIsProcessed (List.replicate n ⟨i, tag⟩) (List.replicate n ⟨dat, i⟩)) = true := by
  induction n with
  | zero => simp [checkIfMsgIsProcessed, allProcessed]
  | succ n ih =>
    simp only [allProcessed] at ih
    simp [List.replicate_succ, checkIfMsgIsProcessed, allProcessed, ih]

theorem isDone_zero (n : Nat) : isDone (List.replicate n 0) = true := by
  simp [isDone]

/-- a one-frame datagram through a delivering link, every device enabled, all devices' last id
different from the new id -/
theorem devSend_fresh (opt : Option Nat) (n tag i t0 : Nat) (rx : List Rx) (ds : List Dev)
    (hn : ds.length = n) (hrx : rx.length = n)
    (hd : ∀ d ∈ ds, d.lastMsgId ≠ (i + 1) % 128) :
    let r := devSend opt (oneFrame n tag) { tx := List.replicate n ⟨i, t0⟩, rx := rx, enable := List.replicate n true } ds
    r.res = .ok ∧ r.processed = List.replicate n true ∧
    r.st.tx = List.replicate n ⟨(i + 1) % 128, tag⟩ ∧ r.st.rx.length = n ∧
    r.ds = List.replicate n ⟨(i + 1) % 128, (i + 1) % 128⟩ ∧ r.st.enable = List.replicate n true := by
  subst hn
  have hlt : (i + 1) % 128 < 128 := Nat.mod_lt _ (by decide)
  have hdel := deliver_fresh ds ((i + 1) % 128) tag hlt hd
  simp only [devSend, oneFrame, send, sendImpl, sendLoop, generate, masked_replicate_true, pack_replicate, and_7f,
    MSG_ID_MAX, sendReceive, devFrame, waitMsgProcessed, hdel]
  simp only [List.map_replicate]
  rw [recvInto_eq _ _ (by simp [hrx])]
  simp [processed_replicate, isDone_zero]

/-- one turn of the loop: whatever the link does, the buffers afterwards hold the packed frame -/
theorem send_one_frame_st (opt : Option Nat) (d : Datagram) (st : St) (f : List Tx → FrameScript) (hg : d.genFail = false) :
    (send opt d st { updateOk := true, frames := [f] }).2.1.tx = (pack d.tag st.enable st.tx (generate st.enable d.frames)).1 ∧
    (send opt d st { updateOk := true, frames := [f] }).2.1.rx.length = st.rx.length ∧
    (send opt d st { updateOk := true, frames := [f] }).2.1.enable = st.enable := by
  simp only [send, hg, sendImpl, sendLoop]
  simp only [Bool.false_eq_true, if_false, Bool.not_true]
  split
  · split
    · simp [sendReceive_tx, sendReceive_rx_length, sendReceive_enable]
    · simp [sendReceive_tx, sendReceive_rx_length, sendReceive_enable]
  · simp [sendReceive_tx, sendReceive_rx_length, sendReceive_enable]

theorem deliver_last (ds : List Dev) (i tag : Nat) :
    ∀ d ∈ (deliver ds (List.replicate ds.length ⟨i, tag⟩)).map (·.1), d.lastMsgId = i := by
  induction ds with
  | nil => simp [deliver]
  | cons d ds ih =>
    intro x hx
    simp only [List.length_cons, List.replicate_succ, deliver, List.map_cons, List.mem_cons] at hx
    rcases hx with hx | hx
    · subst hx
      simp only [ecatRecv]
      split
      · assumption
      · split
        · rfl
        · split <;> rfl
    · exact ih x hx

theorem deliver_length (ds : List Dev) (tx : List Tx) (h : ds.length = tx.length) : (deliver ds tx).length = ds.length := by
  induction ds generalizing tx with
  | nil => simp [deliver]
  | cons d ds ih =>
    cases tx with
    | nil => simp at h
    | cons t ts => simp only [List.length_cons, Nat.add_right_cancel_iff] at h; simp [deliver, ih ts h]

theorem deliver_getElem (ds : List Dev) (tx : List Tx) (i : Nat) (d : Dev) (t : Tx)
    (hd : ds[i]? = some d) (ht : tx[i]? = some t) : (deliver ds tx)[i]? = some (ecatRecv d t.msgId 0) := by
  induction ds generalizing tx i with
  | nil => simp at hd
  | cons a as ih =>
    cases tx with
    | nil => simp at ht
    | cons b bs =>
      cases i with
      | zero =>
        simp only [List.getElem?_cons_zero, Option.some.injEq] at hd ht
        subst hd; subst ht
        simp [deliver]
      | succ j =>
        simp only [List.getElem?_cons_succ] at hd ht
        simp [deliver, ih bs j hd ht]

theorem open_on_devices (opt : Option Nat) (ds : List Dev) :
    let n := ds.length
    let b := (openOnDevices opt ds).2
    b.res = .ok ∧ b.processed = List.replicate n true ∧
    b.st.tx = List.replicate n ⟨2, TAG_CLEAR⟩ ∧ b.st.rx.length = n ∧ b.ds = List.replicate n ⟨2, 2⟩ := by
  simp only [openOnDevices]
  have hst := send_one_frame_st opt (oneFrame ds.length TAG_FORCE_FAN)
    { tx := List.replicate ds.length ⟨0, 0⟩, rx := List.replicate ds.length ⟨0, 0⟩, enable := List.replicate ds.length true }
    (devFrame ds) rfl
  simp only [oneFrame, generate, masked_replicate_true, pack_replicate, and_7f, MSG_ID_MAX, List.length_replicate] at hst
  have hds := deliver_last ds 1 TAG_FORCE_FAN
  have hlen : ((deliver ds (List.replicate ds.length ⟨1, TAG_FORCE_FAN⟩)).map (·.1)).length = ds.length := by
    simp [deliver_length]
  generalize hA : devSend opt (oneFrame ds.length TAG_FORCE_FAN)
    { tx := List.replicate ds.length ⟨0, 0⟩, rx := List.replicate ds.length ⟨0, 0⟩, enable := List.replicate ds.length true } ds = A
  have hAtx : A.st.tx = List.replicate ds.length ⟨1, TAG_FORCE_FAN⟩ := by
    rw [← hA]; simpa [devSend, oneFrame] using hst.1
  have hArx : A.st.rx.length = ds.length := by
    rw [← hA]; simpa [devSend, oneFrame] using hst.2.1
  have hAen : A.st.enable = List.replicate ds.length true := by
    rw [← hA]; simpa [devSend, oneFrame] using hst.2.2
  have hAds : A.ds = (deliver ds (List.replicate ds.length ⟨1, TAG_FORCE_FAN⟩)).map (·.1) := by
    rw [← hA]; simp [devSend, oneFrame, generate, masked_replicate_true, pack_replicate, and_7f, MSG_ID_MAX]
  have key := devSend_fresh opt ds.length TAG_CLEAR 1 TAG_FORCE_FAN A.st.rx A.ds (by rw [hAds, hlen]) hArx
    (by intro d hd; rw [hAds] at hd; rw [hds d hd]; decide)
  have hAst : A.st = { tx := List.replicate ds.length ⟨1, TAG_FORCE_FAN⟩, rx := A.st.rx, enable := List.replicate ds.length true } := by
    cases hAs : A.st; simp [hAs] at hAtx hAen ⊢; exact ⟨hAtx, hAen⟩
  rw [hAst]
  have := key
  simp only [] at this
  exact ⟨this.1, this.2.1, this.2.2.1, this.2.2.2.1, this.2.2.2.2.1⟩


/-! ### scripts used by the statements and their non-vacuity witnesses -/

/-- a script that does not look at the frame (what a link does is a function of the turn only,
because the frames are determined by the state and the operations) -/
def constScript (updateOk : Bool) (fs : List FrameScript) : SendScript :=
  { updateOk := updateOk, frames := fs.map fun f _ => f }

theorem blankScript_const (en : List Bool) (updateOk : Bool) (fs : List FrameScript) :
    blankScript en (constScript updateOk fs) = constScript updateOk (fs.map (blankFrame en)) := by
  simp [blankScript, constScript, List.map_map, Function.comp_def]

/-- two devices, both enabled, state after `open` -/
def st2 : St := { tx := [⟨2, 1⟩, ⟨2, 1⟩], rx := [⟨0, 2⟩, ⟨0, 2⟩], enable := [true, true] }

/-- acknowledgement on the third poll (first both stale, then one device, then both): `Ok`, and the
trace satisfies `ackedBeforeNext` -/
def lateAck : List FrameScript :=
  [{ isOpen := true, sendOk := true, polls :=
      [⟨true, some [⟨0, 2⟩, ⟨0, 2⟩], false⟩, ⟨true, some [⟨0, 3⟩, ⟨0, 2⟩], false⟩, ⟨true, some [⟨0, 3⟩, ⟨0, 3⟩], true⟩] }]

/-- three devices, the first one **disabled** (its frame still carries the id 2 it had when it was
switched off, and it still holds a stale error acknowledgement), the other two enabled at id 5 -/
def st3m : St := { tx := [⟨2, 1⟩, ⟨5, 0xEE⟩, ⟨5, 0xEE⟩], rx := [⟨0, 0x88⟩, ⟨0, 5⟩, ⟨0, 5⟩], enable := [false, true, true] }

/-- one frame; the disabled device 0 answers its stale error `0x88` throughout, device 1 acknowledges
on the second poll, device 2 on the third -/
def lateAckMasked : List FrameScript :=
  [{ isOpen := true, sendOk := true, polls :=
      [⟨true, some [⟨0, 0x88⟩, ⟨0, 5⟩, ⟨0, 5⟩], false⟩, ⟨true, some [⟨0, 0x88⟩, ⟨0, 6⟩, ⟨0, 5⟩], false⟩,
       ⟨true, some [⟨0, 0x88⟩, ⟨0, 6⟩, ⟨0, 6⟩], true⟩] }]

end Autd3.Ctl
