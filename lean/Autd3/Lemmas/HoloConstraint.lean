import Autd3.Lemmas.F32
import Autd3.Model.Holo
/-! Semantics of `EmissionConstraint::convert` (model `Holo.convert`) for C15. -/
namespace Autd3.Holo
open Autd3 Autd3.F32

/-- `x` is the finite non-negative float with the exact integer value `n` -/
def natExact (x : F32) (n : Nat) : Bool :=
  match x with
  | .fin false m e => if 0 ≤ e then m * 2 ^ e.toNat == n else m == n * 2 ^ (-e).toNat
  | _ => false

/-- `n as f32` is exact for every byte (complete table, checked by the kernel) -/
theorem ofNat_exact : ∀ n < 256, natExact (F32.ofNat n) n = true := by decide +kernel

theorem natExact_toRat {x : F32} {n : Nat} (h : natExact x n = true) :
    ∃ m e, x = .fin false m e ∧ toRat (.fin false m e) = n := by
  unfold natExact at h
  cases x with
  | nan => cases h
  | inf s => cases h
  | fin s m e =>
    cases s with
    | true => cases h
    | false =>
      refine ⟨m, e, rfl, ?_⟩
      simp only at h
      unfold toRat
      simp only [Bool.false_eq_true, if_false, one_mul]
      by_cases he : 0 ≤ e
      · rw [if_pos he] at h
        have h' : m * 2 ^ e.toNat = n := by simpa using h
        rw [← h', Nat.cast_mul, pow_toNat _ he]
      · rw [if_neg he] at h
        have h' : m = n * 2 ^ (-e).toNat := by simpa using h
        have hpos := two_zpow_pos (-e)
        rw [h', Nat.cast_mul, pow_toNat _ (by omega), mul_assoc, ← zpow_add₀ (by norm_num : (2 : ℚ) ≠ 0)]
        simp

/-- lower bound through the saturating cast -/
theorem le_toU8 (s : Bool) (m : ℕ) (e : ℤ) (a : ℕ) (ha : a ≤ 255) (h : (a : ℚ) ≤ toRat (.fin s m e)) :
    a ≤ toU8 (.fin s m e) := by
  unfold toRat at h
  cases s with
  | true =>
    simp only [if_true] at h
    have hp := two_zpow_pos e
    have : (0 : ℚ) ≤ (m : ℚ) * 2 ^ e := by positivity
    have ha0 : (a : ℚ) ≤ 0 := by nlinarith
    have : a = 0 := by exact_mod_cast le_antisymm ha0 (by positivity)
    omega
  | false =>
    simp only [Bool.false_eq_true, if_false, one_mul] at h
    unfold toU8 toUnsigned floorScaled
    simp only
    apply Nat.le_min.mpr
    refine ⟨?_, ha⟩
    by_cases he : 0 ≤ e
    · rw [if_pos he]
      rw [← pow_toNat _ he] at h
      exact_mod_cast h
    · rw [if_neg he]
      have hk : (2 : ℚ) ^ e = 1 / ((2 ^ (-e).toNat : ℕ) : ℚ) := by
        rw [pow_toNat _ (by omega), zpow_neg]; simp
      rw [hk] at h
      have hpos : (0 : ℚ) < ((2 ^ (-e).toNat : ℕ) : ℚ) := by positivity
      rw [mul_one_div, le_div_iff₀ hpos] at h
      rw [Nat.le_div_iff_mul_le (by positivity)]
      exact_mod_cast h

/-- upper bound through the saturating cast -/
theorem toU8_le (s : Bool) (m : ℕ) (e : ℤ) (b : ℕ) (h : toRat (.fin s m e) ≤ (b : ℚ)) :
    toU8 (.fin s m e) ≤ b := by
  unfold toRat at h
  cases s with
  | true => simp [toU8, toUnsigned]
  | false =>
    simp only [Bool.false_eq_true, if_false, one_mul] at h
    unfold toU8 toUnsigned floorScaled
    simp only
    apply Nat.le_trans (Nat.min_le_left _ _)
    by_cases he : 0 ≤ e
    · rw [if_pos he]
      rw [← pow_toNat _ he] at h
      exact_mod_cast h
    · rw [if_neg he]
      have hk : (2 : ℚ) ^ e = 1 / ((2 ^ (-e).toNat : ℕ) : ℚ) := by
        rw [pow_toNat _ (by omega), zpow_neg]; simp
      rw [hk] at h
      have hpos : (0 : ℚ) < ((2 ^ (-e).toNat : ℕ) : ℚ) := by positivity
      rw [mul_one_div, div_le_iff₀ hpos] at h
      apply Nat.div_le_of_le_mul
      rw [Nat.mul_comm]
      exact_mod_cast h

theorem lt_fin_fin (x y : F32) (hx : x ≠ .nan) (hy : y ≠ .nan) : F32.lt x y = !(F32.le y x) := by
  cases x <;> cases y <;> simp_all [F32.lt]

/-- `f32::clamp` between two bytes followed by `as u8`: the result is between the bytes, for every
non-NaN float (±∞ included) -/
theorem clamp_cast_between (X : F32) (a b : Nat) (hab : a ≤ b) (hb : b ≤ 255) (hX : X ≠ .nan) :
    ∃ R, clampChecked X (F32.ofNat a) (F32.ofNat b) = .ok R ∧ a ≤ toU8 R ∧ toU8 R ≤ b := by
  obtain ⟨ma, ea, hlo, ra⟩ := natExact_toRat (ofNat_exact a (by omega))
  obtain ⟨mb, eb, hhi, rb⟩ := natExact_toRat (ofNat_exact b (by omega))
  rw [hlo, hhi]
  have hle : F32.le (.fin false ma ea) (.fin false mb eb) = true := by
    rw [le_fin, ra, rb]; exact_mod_cast hab
  have hua : toU8 (.fin false ma ea) = a :=
    le_antisymm (toU8_le _ _ _ _ (by rw [ra])) (le_toU8 _ _ _ _ (by omega) (by rw [ra]))
  have hub : toU8 (.fin false mb eb) = b :=
    le_antisymm (toU8_le _ _ _ _ (by rw [rb])) (le_toU8 _ _ _ _ hb (by rw [rb]))
  unfold clampChecked
  rw [if_pos hle]
  refine ⟨_, rfl, ?_⟩
  unfold F32.clamp
  have hlt_hi_lo : F32.lt (.fin false mb eb) (.fin false ma ea) = false := by
    rw [lt_fin_fin _ _ (by simp) (by simp), hle]; rfl
  cases X with
  | nan => exact absurd rfl hX
  | inf s =>
    cases s with
    | true =>
      have h1 : F32.lt (.inf true) (.fin false ma ea) = true := by simp [F32.lt, F32.le]
      simp only [h1, if_true, hlt_hi_lo, Bool.false_eq_true, if_false, hua]
      omega
    | false =>
      have h1 : F32.lt (.inf false) (.fin false ma ea) = false := by simp [F32.lt, F32.le]
      have h2 : F32.lt (.fin false mb eb) (.inf false) = true := by simp [F32.lt, F32.le]
      simp only [h1, Bool.false_eq_true, if_false, h2, if_true, hub]
      omega
  | fin s m e =>
    by_cases h1 : F32.le (.fin false ma ea) (.fin s m e) = true
    · have l1 : F32.lt (.fin s m e) (.fin false ma ea) = false := by
        rw [lt_fin_fin _ _ (by simp) (by simp), h1]; rfl
      simp only [l1, Bool.false_eq_true, if_false]
      by_cases h2 : F32.le (.fin s m e) (.fin false mb eb) = true
      · have l2 : F32.lt (.fin false mb eb) (.fin s m e) = false := by
          rw [lt_fin_fin _ _ (by simp) (by simp), h2]; rfl
        simp only [l2, Bool.false_eq_true, if_false]
        rw [le_fin, ra] at h1
        rw [le_fin, rb] at h2
        exact ⟨le_toU8 _ _ _ _ (by omega) h1, toU8_le _ _ _ _ h2⟩
      · have l2 : F32.lt (.fin false mb eb) (.fin s m e) = true := by
          rw [lt_fin_fin _ _ (by simp) (by simp)]; simpa using h2
        simp only [l2, if_true, hub]
        omega
    · have l1 : F32.lt (.fin s m e) (.fin false ma ea) = true := by
        rw [lt_fin_fin _ _ (by simp) (by simp)]; simpa using h1
      simp only [l1, if_true, hlt_hi_lo, Bool.false_eq_true, if_false, hua]
      omega

theorem roundHalfAway_ne_nan (x : F32) (h : x ≠ .nan) : F32.roundHalfAway x ≠ .nan := by
  cases x with
  | nan => exact absurd rfl h
  | inf s => simp [F32.roundHalfAway]
  | fin s m e =>
    show (if 0 ≤ e then F32.fin s m e else _) ≠ F32.nan
    split <;> simp

theorem round_ne_nan (neg : Bool) (n d : Nat) : F32.round neg n d ≠ .nan := by
  unfold F32.round
  split
  · simp
  · split <;> simp

theorem mul_c255_ne_nan (x : F32) (h : x ≠ .nan) : F32.mul x c255 ≠ .nan := by
  cases x with
  | nan => exact absurd rfl h
  | inf s => simp [F32.mul, c255]
  | fin s m e => unfold F32.mul c255; exact round_ne_nan _ _ _

theorem toU8_le_255 (x : F32) : toU8 x ≤ 255 := by
  unfold toU8 F32.toUnsigned
  split <;> omega

/-- comparing two bytes after `as f32` is comparing the bytes -/
theorem le_ofNat_iff (a b : Nat) (ha : a ≤ 255) (hb : b ≤ 255) :
    F32.le (F32.ofNat a) (F32.ofNat b) = true ↔ a ≤ b := by
  obtain ⟨ma, ea, hlo, ra⟩ := natExact_toRat (ofNat_exact a (by omega))
  obtain ⟨mb, eb, hhi, rb⟩ := natExact_toRat (ofNat_exact b (by omega))
  rw [hlo, hhi, le_fin, ra, rb]
  exact_mod_cast Iff.rfl

theorem clampU8_between (x lo hi : Nat) (h : lo ≤ hi) :
    ∃ r, clampU8 x lo hi = .ok r ∧ lo ≤ r ∧ r ≤ hi := by
  unfold clampU8
  rw [if_pos h]
  refine ⟨_, rfl, ?_, ?_⟩ <;> (split <;> [omega; (split <;> omega)])

theorem clampU8_id (x lo hi : Nat) (h1 : lo ≤ x) (h2 : x ≤ hi) : clampU8 x lo hi = .ok x := by
  unfold clampU8
  rw [if_pos (by omega), if_neg (by omega), if_neg (by omega)]

/-! ### `Normalize` maps the largest coefficient to full scale -/

theorem div_self_eq_one (s : Bool) (m : Nat) (e : Int) (hm : 0 < m) :
    F32.div (.fin s m e) (.fin s m e) = .fin false (2 ^ 23) (-23) := by
  have hmm : m * 2 ^ 23 / m = 2 ^ 23 := by
    rw [Nat.mul_comm]; exact Nat.mul_div_cancel _ hm
  have hmod : m * 2 ^ 23 % m = 0 := Nat.mul_mod_right _ _
  unfold F32.div
  simp only [Nat.ne_of_gt hm, if_false, Int.le_refl, if_true, Int.sub_self, Int.toNat_zero, Nat.pow_zero, Nat.mul_one,
    bne_self_eq_false]
  unfold F32.round
  rw [if_neg (Nat.ne_of_gt hm)]
  have hfl : floorLog2Q m m = 0 := by
    unfold floorLog2Q geTwoPow scaleDiv
    simp
  have hu : ulpExp m m = -23 := by unfold ulpExp; rw [hfl]; decide
  have hrp : roundPos m m = some (2 ^ 23, -23) := by
    unfold roundPos
    simp only [hu]
    unfold scaleDiv
    simp only [show ¬ (0 : Int) ≤ -23 by decide, if_false, show (-(-23 : Int)).toNat = 23 by decide]
    unfold rne
    simp only [hmm, hmod]
    simp [hm]
  rw [hrp]

theorem normalize_self (s : Bool) (m : Nat) (e : Int) (hm : 0 < m) :
    convert .normalize (.fin s m e) (.fin s m e) = .ok 255 := by
  unfold convert
  simp only [div_self_eq_one s m e hm]
  have : toU8 (F32.roundHalfAway (F32.mul (.fin false (2 ^ 23) (-23)) c255)) = 255 := by decide +kernel
  rw [this]

end Autd3.Holo
