import Autd3.Lemmas.Tuple2ModA
/-!
General tuples, Modulation, part B: the `Proto` instance `modProto` of the Modulation datagram and its laws
(`modProto_laws`), with the exposure theorems `modProto_ready`, `modProto_mid`, `modProto_done`.
-/
open Autd3 Autd3.Fw Autd3.Wire Autd3.Gen.Cpu Autd3.Gen Autd3.Rt
namespace Autd3.Tuple2

/-- own-side facts relative to the base `s0` (the state the BEGIN handler was called on) that survive the
frames of the other tuple member: the other segment's memory, the modulation registers no non-final frame
writes, the swap chain, the clock -/
structure ModRel (seg : Nat) (s0 s : State) : Prop where
  omem : Obs.modMem s (1 - seg) = Obs.modMem s0 (1 - seg)
  oregs : ∀ a, 34 ≤ a → a ≤ 45 → a ≠ 37 + seg → a ≠ 39 + seg → reg s a = reg s0 a
  swap : s.modSwap = s0.modSwap
  time : s.dcSysTime = s0.dcSysTime

theorem ModRel.refl (seg : Nat) (s : State) : ModRel seg s s := ⟨rfl, fun _ _ _ _ _ => rfl, rfl, rfl⟩
theorem ModRel.trans {seg : Nat} {a b c : State} (h1 : ModRel seg a b) (h2 : ModRel seg b c) : ModRel seg a c :=
  ⟨h2.omem.trans h1.omem, fun x x1 x2 x3 x4 => (h2.oregs x x1 x2 x3 x4).trans (h1.oregs x x1 x2 x3 x4),
    h2.swap.trans h1.swap, h2.time.trans h1.time⟩

theorem ModRel.of_inv {s0 s : State} {seg : Nat} {tr : Tr} {rep div : Nat} {samples : Array Nat} {c : Nat}
    (hseg : seg ≤ 1) (h : ModInv s0 s seg tr rep div samples c) : ModRel seg s0 s := by
  refine ⟨h.other _ ?_, fun a a1 a2 a3 a4 => h.regs a (by omega) (by omega) (by omega) a3 a4, h.swap, h.time⟩
  rcases (show seg = 0 ∨ seg = 1 by omega) with e | e <;> subst e <;> simp

/-- the invariant with the state itself as base: only the base-free clauses remain -/
theorem ModInv_rebase {s0 s : State} {seg : Nat} {tr : Tr} {rep div : Nat} {samples : Array Nat} {c : Nat}
    (h : ModInv s0 s seg tr rep div samples c) : ModInv s s seg tr rep div samples c :=
  ⟨h.wf, h.cycle, h.wseg, h.page, h.bytes, fun _ _ => rfl, h.trMode, h.trValue, h.divReg, h.repReg,
    fun _ _ _ _ _ _ => rfl, rfl, rfl, rfl⟩

/-- between the frames of a modulation -/
structure ModMid (seg : Nat) (tr : Tr) (rep div : Nat) (samples : Array Nat) (s0 s : State) (c : Nat) : Prop where
  inv : ModInv s s seg tr rep div samples c
  c2 : c % 2 = 0
  ok : ModOK s0 seg tr rep div samples
  rel : ModRel seg s0 s
  ldiv : s.modDiv = setSel s0.modDiv seg div
  lseg : s.modSegment = (if trMode tr = TRANSITION_MODE_NONE then s0.modSegment else seg)

/-- after the last frame -/
structure ModDone (seg : Nat) (tr : Tr) (rep div : Nat) (samples : Array Nat) (s0 s : State) : Prop where
  wf : WF s
  ok : ModOK s0 seg tr rep div samples
  held : ModHeld s0 s seg tr rep div samples
  /-- the new swap chain is the function `Swap.set` of the base's chain (`ModHeld.req` only records `SwapSet`) -/
  swapDet : ∀ m v, tr = some (m, v) →
    s0.modSwap.set s0.dcSysTime rep div samples.size seg (tmodeOf m v) = .ok s.modSwap
  ldiv : s.modDiv = setSel s0.modDiv seg div
  lseg : s.modSegment = (if trMode tr = TRANSITION_MODE_NONE then s0.modSegment else seg)

def modProto (seg : Nat) (tr : Tr) (rep div : Nat) (samples : Array Nat) : Proto where
  dg := .modulation seg tr rep div samples
  total := samples.size
  opAt c := { dg := .modulation seg tr rep div samples, sent := c, done := decide (samples.size = c) }
  Ready sH := WF sH ∧ ModOK sH seg tr rep div samples ∧
    validateTransitionMode sH.modSegment seg rep (trMode tr) = false ∧
    validateSilencerSettings sH (sel sH.stmDiv sH.stmSegment) div = false
  Mid := ModMid seg tr rep div samples
  Done := ModDone seg tr rep div samples
  Own := Foot eraseM TM
  OwnT := Foot eraseMI TM
  Other := KeepM

/-! ### observations across a change that keeps the modulation side -/

theorem modBuffer_congr' (s s' : State) (g : Nat) (hm : Obs.modMem s' g = Obs.modMem s g)
    (hc : Obs.modCycle s' g = Obs.modCycle s g) : Obs.modBuffer s' g = Obs.modBuffer s g := by
  unfold Obs.modBuffer
  rw [hc]
  have : Obs.modAt s' g = Obs.modAt s g := by funext idx; unfold Obs.modAt; simp only [hm]
  rw [this]

/-- `ModHeld s0 ·` only looks at the modulation memories, the registers 34..45 and the swap chain -/
theorem ModHeld_congr {s0 s s' : State} {seg : Nat} {tr : Tr} {rep div : Nat} {samples : Array Nat} (hseg : seg ≤ 1)
    (hm : ∀ g, Obs.modMem s' g = Obs.modMem s g) (hr : ∀ a, 34 ≤ a → a ≤ 45 → reg s' a = reg s a)
    (hsw : s'.modSwap = s.modSwap) (h : ModHeld s0 s seg tr rep div samples) : ModHeld s0 s' seg tr rep div samples := by
  have eD : ∀ g, g ≤ 1 → Obs.modDiv s' g = Obs.modDiv s g := by
    intro g hg; unfold Obs.modDiv; simp only [ADDR_MOD_FREQ_DIV0]; exact hr _ (by omega) (by omega)
  have eR : ∀ g, g ≤ 1 → Obs.modRep s' g = Obs.modRep s g := by
    intro g hg; unfold Obs.modRep; simp only [ADDR_MOD_REP0]; exact hr _ (by omega) (by omega)
  have eC : ∀ g, g ≤ 1 → Obs.modCycle s' g = Obs.modCycle s g := by
    intro g hg; unfold Obs.modCycle; simp only [ADDR_MOD_CYCLE0]; rw [hr _ (by omega) (by omega)]
  have eQ : Obs.reqModSeg s' = Obs.reqModSeg s := by
    have e34 : reg s' ADDR_MOD_REQ_RD_SEGMENT = reg s ADDR_MOD_REQ_RD_SEGMENT := hr 34 (by omega) (by omega)
    unfold Obs.reqModSeg segReg; simp only [e34]
  have eT : Obs.modTransition s' = Obs.modTransition s := by
    unfold Obs.modTransition reg64; simp only [ADDR_MOD_TRANSITION_MODE, ADDR_MOD_TRANSITION_VALUE_0]
    rw [hr 41 (by omega) (by omega), hr 42 (by omega) (by omega), hr (42 + 1) (by omega) (by omega),
      hr (42 + 2) (by omega) (by omega), hr (42 + 3) (by omega) (by omega)]
  have h1 : 1 - seg ≤ 1 := by omega
  refine ⟨by rw [modBuffer_congr' s s' seg (hm seg) (eC seg hseg)]; exact h.buffer, by rw [eD seg hseg]; exact h.hdiv,
    by rw [eR seg hseg]; exact h.hrep, by rw [eC seg hseg]; exact h.hcycle, by rw [hm]; exact h.otherMem,
    by rw [eD _ h1, eR _ h1, eC _ h1]; exact h.otherRegs, ?_⟩
  have hq := h.req
  cases tr with
  | none => rw [hsw, eQ, eT]; exact hq
  | some mv => obtain ⟨m, v⟩ := mv; rw [hsw, eQ, eT]; exact hq

/-- `ModHeld · s` only looks at the other segment's memory, the registers 34..45 that no frame but the last
writes, the swap chain and the clock of the base -/
theorem ModHeld_rebase {s0 sH sE : State} {seg : Nat} {tr : Tr} {rep div : Nat} {samples : Array Nat} (hseg : seg ≤ 1)
    (hrel : ModRel seg s0 sH) (h : ModHeld sH sE seg tr rep div samples) : ModHeld s0 sE seg tr rep div samples := by
  have eD : Obs.modDiv sH (1 - seg) = Obs.modDiv s0 (1 - seg) := by
    unfold Obs.modDiv; simp only [ADDR_MOD_FREQ_DIV0]; exact hrel.oregs _ (by omega) (by omega) (by omega) (by omega)
  have eR : Obs.modRep sH (1 - seg) = Obs.modRep s0 (1 - seg) := by
    unfold Obs.modRep; simp only [ADDR_MOD_REP0]; exact hrel.oregs _ (by omega) (by omega) (by omega) (by omega)
  have eC : Obs.modCycle sH (1 - seg) = Obs.modCycle s0 (1 - seg) := by
    unfold Obs.modCycle; simp only [ADDR_MOD_CYCLE0]; rw [hrel.oregs _ (by omega) (by omega) (by omega) (by omega)]
  have eQ : Obs.reqModSeg sH = Obs.reqModSeg s0 := by
    have e34 : reg sH ADDR_MOD_REQ_RD_SEGMENT = reg s0 ADDR_MOD_REQ_RD_SEGMENT :=
      hrel.oregs 34 (by omega) (by omega) (by omega) (by omega)
    unfold Obs.reqModSeg segReg; simp only [e34]
  have eT : Obs.modTransition sH = Obs.modTransition s0 := by
    unfold Obs.modTransition reg64; simp only [ADDR_MOD_TRANSITION_MODE, ADDR_MOD_TRANSITION_VALUE_0]
    rw [hrel.oregs 41 (by omega) (by omega) (by omega) (by omega), hrel.oregs 42 (by omega) (by omega) (by omega) (by omega),
      hrel.oregs (42 + 1) (by omega) (by omega) (by omega) (by omega),
      hrel.oregs (42 + 2) (by omega) (by omega) (by omega) (by omega),
      hrel.oregs (42 + 3) (by omega) (by omega) (by omega) (by omega)]
  refine ⟨h.buffer, h.hdiv, h.hrep, h.hcycle, h.otherMem.trans hrel.omem, by rw [← eD, ← eR, ← eC]; exact h.otherRegs, ?_⟩
  have hq := h.req
  cases tr with
  | none => rw [← hrel.swap, ← eQ, ← eT]; exact hq
  | some mv => obtain ⟨m, v⟩ := mv; rw [← hrel.swap, ← hrel.time]; exact hq

theorem modMem_keep {s s' : State} (K : KeepM s s') (g : Nat) : Obs.modMem s' g = Obs.modMem s g := by
  unfold Obs.modMem; rw [K.mem0, K.mem1]

/-! ### one frame, firmware side -/

/-- the copy and END parts of one frame (BEGIN header already applied: `sI`), from the invariant with base `sH`,
to `Mid` / `Done` with base `s0` -/
theorem mod_frame {s0 sH sI : State} {seg : Nat} {tr : Tr} {rep div : Nat} {samples : Array Nat} {c : Nat}
    (H : ModOK s0 seg tr rep div samples) (hrel : ModRel seg s0 sH)
    (hI : ModInv sH sI seg tr rep div samples c) (hc2 : c % 2 = 0)
    (hld : sI.modDiv = setSel s0.modDiv seg div)
    (hls : sI.modSegment = (if trMode tr = TRANSITION_MODE_NONE then s0.modSegment else seg))
    (d : Array Nat) (off w c' : Nat) (first last : Bool) (hc' : c' = c + w)
    (hd : ∀ j, j < w → u8at d (off + j) = rd samples (c + j)) (hw0 : 0 < w)
    (hle : c' ≤ samples.size) (hw2 : c' < samples.size → w % 2 = 0) (hlast : last = true ↔ samples.size ≤ c') :
    ∃ s2, (modDataPart sI d off w >>= fun s2 => modEndPart s2 (modFlagByte first last seg tr.isSome) seg) = .ok (s2, NO_ERR) ∧
      (if c' < samples.size then ModMid seg tr rep div samples s0 s2 c' else ModDone seg tr rep div samples s0 s2) := by
  subst hc'
  have hseg := H.seg
  have hn3 := H.n3
  have hn2 := H.n2
  obtain ⟨_, b2, b3, _⟩ := modFlagByte_bits first last seg hseg tr.isSome
  have hlatch : ∀ s2 a, (modDataPart sI d off w >>= fun s2 => modEndPart s2 (modFlagByte first last seg tr.isSome) seg) =
      .ok (s2, a) → s2.modDiv = sI.modDiv ∧ s2.modSegment = sI.modSegment :=
    fun s2 a h => modTail_latch d off w _ seg hseg hI.wf.ctl hI.wf.flags h
  cases last with
  | false =>
    have hlt : c + w < samples.size := by
      have : ¬ samples.size ≤ c + w := fun e => absurd (hlast.mpr e) (by decide)
      omega
    obtain ⟨s2, h1, hI2, _⟩ := mod_tail_nonlast hseg hI hc2 d off w _ hd (by omega) b2
    obtain ⟨l1, l2⟩ := hlatch s2 _ h1
    refine ⟨s2, h1, ?_⟩
    rw [if_pos hlt]
    exact ⟨ModInv_rebase hI2, by have := hw2 hlt; omega, H, hrel.trans (ModRel.of_inv hseg hI2), l1.trans hld, l2.trans hls⟩
  | true =>
    have hn : c + w = samples.size := by have := hlast.mp rfl; omega
    have hfin : ∃ sE, (modDataPart sI d off w >>= fun s2 => modEndPart s2 (modFlagByte first true seg tr.isSome) seg) =
        .ok (sE, NO_ERR) ∧ WF sE ∧ ModHeld sH sE seg tr rep div samples ∧
        ∀ m v, tr = some (m, v) → sH.modSwap.set sH.dcSysTime rep div samples.size seg (tmodeOf m v) = .ok sE.modSwap := by
      cases htr : tr with
      | none =>
        subst htr
        obtain ⟨sE, h1, h2, h3, _⟩ := mod_tail_last_notr hseg hI hc2 (by omega) d off w _ hd hn (by omega) hn3 b2
          (by rw [b3]; rfl)
        exact ⟨sE, h1, h2, h3, fun _ _ e => nomatch e⟩
      | some mv =>
        obtain ⟨m, v⟩ := mv
        subst htr
        obtain ⟨hv, hv64, hmiss⟩ := H.tr m v rfl
        obtain ⟨sE, h1, h2, h3, _⟩ := mod_tail_last_tr hseg hI hc2 (by omega) d off w _ hd hn (by omega) hn3 b2
          (by rw [b3]; rfl) hv hv64 (by rw [hrel.time]; exact hmiss)
        obtain ⟨sE', h1', hdet⟩ := mod_tail_last_tr_swap hseg hI hc2 (by omega) d off w _ hn (by omega) hn3 b2
          (by rw [b3]; rfl) hv hv64 (by rw [hrel.time]; exact hmiss)
        have hE : sE' = sE := by
          have := h1'.symm.trans h1
          injection this with this
          exact (Prod.mk.inj this).1
        subst hE
        refine ⟨sE', h1, h2, h3, ?_⟩
        intro m' v' e
        injection e with e
        obtain ⟨rfl, rfl⟩ := Prod.mk.inj e
        exact hdet
    obtain ⟨sE, h1, hWE, hHeld, hdet⟩ := hfin
    obtain ⟨l1, l2⟩ := hlatch sE _ h1
    refine ⟨sE, h1, ?_⟩
    rw [if_neg (by omega)]
    exact ⟨hWE, H, ModHeld_rebase hseg hrel hHeld, fun m v e => by rw [← hrel.swap, ← hrel.time]; exact hdet m v e,
      l1.trans hld, l2.trans hls⟩

theorem modOpAt_eq (seg : Nat) (tr : Tr) (rep div : Nat) (samples : Array Nat) (c : Nat) (bd : Bool)
    (h : bd = true ↔ samples.size = c) :
    (modProto seg tr rep div samples).opAt c = { dg := .modulation seg tr rep div samples, sent := c, done := bd } := by
  show ({ dg := _, sent := c, done := decide (samples.size = c) } : Op) = _
  have : decide (samples.size = c) = bd := by
    cases bd
    · exact decide_eq_false (fun e => absurd (h.mpr e) (by decide))
    · exact decide_eq_true (h.mp rfl)
  rw [this]

/-- from the handler equation and the firmware-side frame lemma to the conclusion of `step` -/
theorem mod_finish (seg : Nat) (tr : Tr) (rep div : Nat) (samples : Array Nat) {s0 sH : State} {d : Array Nat}
    {tail : M (State × Nat)} {c' : Nat} (hW : WF sH) (p0 : u8at d 0 = 16) (heq : handlePayload sH d = tail)
    (h : ∃ s2, tail = .ok (s2, NO_ERR) ∧
      (if c' < samples.size then ModMid seg tr rep div samples s0 s2 c' else ModDone seg tr rep div samples s0 s2)) :
    ∃ s2, handlePayload sH d = .ok (s2, NO_ERR) ∧ s2.lastMsgId = sH.lastMsgId ∧
      (modProto seg tr rep div samples).Post s0 s2 c' ∧ (modProto seg tr rep div samples).Own sH s2 := by
  obtain ⟨s2, h1, h2⟩ := h
  have hh : handlePayload sH d = .ok (s2, NO_ERR) := heq.trans h1
  have hfoot : Foot eraseM TM sH s2 := writeMod_foot sH d hW.ctl hW.flags s2 NO_ERR (by rw [← dispatch_mod _ _ p0]; exact hh)
  refine ⟨s2, hh, ?_, h2, hfoot⟩
  have := congrArg State.lastMsgId hfoot.eq
  exact this

set_option maxHeartbeats 400000 in
theorem modProto_step (seg : Nat) (tr : Tr) (rep div : Nat) (samples : Array Nat)
    (hn2 : 2 ≤ samples.size) (hn3 : samples.size ≤ 65536)
    (c nt : Nat) (b : Array Nat) (k : Nat) (hc : c < (modProto seg tr rep div samples).total) (hb : b.size = 622)
    (hk2 : k % 2 = 0) (hroom : k + ((modProto seg tr rep div samples).opAt c).required nt ≤ 622) :
    ∃ c' b' sz, ((modProto seg tr rep div samples).opAt c).pack nt b k = .ok ((modProto seg tr rep div samples).opAt c', b', sz) ∧
      c < c' ∧ c' ≤ (modProto seg tr rep div samples).total ∧ Keeps k b b' ∧
      sz % 2 = 0 ∧ 0 < sz ∧ k + sz ≤ 622 ∧
      ∀ s0 sH, (modProto seg tr rep div samples).Pre s0 sH c → sH.numTr = nt → ∀ b'', b''.size = 622 →
        (∀ i, k ≤ i → i < k + sz → rd b'' i = rd b' i) →
        ∃ s2, handlePayload sH (b''.extract k 622) = .ok (s2, NO_ERR) ∧ s2.lastMsgId = sH.lastMsgId ∧
          (modProto seg tr rep div samples).Post s0 s2 c' ∧ (modProto seg tr rep div samples).Own sH s2 := by
  have hc : c < samples.size := hc
  have hroom : k + ((if c = 0 then 16 else 4) + 2) ≤ 622 := hroom
  show ∃ c' b' sz, _ ∧ c < c' ∧ c' ≤ samples.size ∧ _
  by_cases hc0 : c = 0
  · subst hc0
    rw [if_pos rfl] at hroom
    generalize hM : min (606 - k) 254 = M
    have hM2 : 2 ≤ M ∧ M ≤ 254 ∧ M % 2 = 0 ∧ k + 16 + M ≤ 622 := by omega
    have hpk := pack_mod_first_at seg tr rep div samples nt b k hb (by omega) hn2 hn3
    rw [hM] at hpk
    rw [← modOpAt_eq seg tr rep div samples 0 false (by constructor <;> intro h <;> first | exact absurd h (by decide) | omega),
      ← modOpAt_eq seg tr rep div samples (min samples.size M) (decide (samples.size ≤ M))
        (by rw [decide_eq_true_iff]; omega)] at hpk
    obtain ⟨p0, p1, p2, p3, p4, p6, p8, pd, psz⟩ := modFirstAt_payload b samples k (min samples.size M)
      (modFlagByte true (decide (samples.size ≤ M)) seg tr.isSome) (trMode tr) div rep (trValue tr) hb
      (by omega) (modFlagByte_lt _ _ _ _) (by omega)
    have hkeep := pack_keeps hpk
    generalize modFirstPayloadAt b samples k (min samples.size M)
      (modFlagByte true (decide (samples.size ≤ M)) seg tr.isSome) (trMode tr) div rep (trValue tr) = b'
      at hpk p0 p1 p2 p3 p4 p6 p8 pd psz hkeep
    generalize hw : min samples.size M = w at hpk p0 p1 p2 p3 p4 p6 p8 pd psz hkeep
    have hw' : 0 < w ∧ w ≤ samples.size ∧ w ≤ M ∧ (w < samples.size → w = M) := by omega
    refine ⟨w, b', 16 + (w + 1) / 2 * 2, hpk, by omega, by omega, hkeep, by omega, by omega, by omega, ?_⟩
    intro s0 sH hpre _ b'' hb'' hag
    unfold Proto.Pre at hpre
    rw [if_pos rfl] at hpre
    obtain ⟨rfl, hW, H, g1, g2⟩ := hpre
    obtain ⟨htm, htv⟩ := trMode_lt H
    rw [Nat.mod_eq_of_lt htm] at p3
    rw [Nat.mod_eq_of_lt H.div.2] at p4
    rw [Nat.mod_eq_of_lt H.rep] at p6
    rw [Nat.mod_eq_of_lt htv] at p8
    rw [← agree_u8 psz hb'' hag 0 (by omega)] at p0
    rw [← agree_u8 psz hb'' hag 1 (by omega)] at p1
    rw [← agree_u8 psz hb'' hag 2 (by omega)] at p2
    rw [← agree_u8 psz hb'' hag 3 (by omega)] at p3
    rw [← agree_u16 psz hb'' hag 4 (by omega)] at p4
    rw [← agree_u16 psz hb'' hag 6 (by omega)] at p6
    rw [← agree_u64 psz hb'' hag 8 (by omega)] at p8
    have pd' : ∀ j, j < w → u8at (b''.extract k 622) (16 + j) = rd samples (0 + j) := by
      intro j hj
      rw [agree_u8 psz hb'' hag (16 + j) (by omega), pd j hj, Nat.zero_add]
      exact Nat.mod_eq_of_lt (H.bytes _)
    generalize b''.extract k 622 = d at p0 p1 p2 p3 p4 p6 p8 pd'
    have heq := mod_first_handle_eq s0 d seg rep div (trMode tr) (trValue tr) w H.seg (decide (samples.size ≤ M))
      tr.isSome p0 p1 p2 p3 p4 p6 p8 g1 g2
    have hI0 : ModInv s0 (modHead s0 seg rep div (trMode tr) (trValue tr)) seg tr rep div samples 0 :=
      ModInv_head s0 hW s0.lastMsgId s0.rxData seg H.seg tr rep div samples H.rep H.div
    refine mod_finish seg tr rep div samples hW p0 heq ?_
    refine mod_frame H (ModRel.refl seg s0) hI0 (by decide) ?_ ?_ d 16 w w true _ (by omega) pd' (by omega) (by omega)
      (fun h => by omega) (by rw [decide_eq_true_iff]; omega)
    · simp [modHead]
    · simp only [modHead, wr_modSegment, modHeadCpu_modSegment]
      by_cases ht : trMode tr = TRANSITION_MODE_NONE
      · rw [if_pos ht, if_neg (by simpa using ht)]
      · rw [if_neg ht, if_pos ht]
  · rw [if_neg hc0] at hroom
    generalize hM : 618 - k = M
    have hM2 : 2 ≤ M ∧ M % 2 = 0 ∧ k + 4 + M ≤ 622 := by omega
    have hpk := pack_mod_next_at seg tr rep div samples nt b k c hb (by omega) (by omega) hc hn3 hn2
    rw [hM] at hpk
    rw [← modOpAt_eq seg tr rep div samples c false (by constructor <;> intro h <;> first | exact absurd h (by decide) | omega),
      ← modOpAt_eq seg tr rep div samples (c + min (samples.size - c) M) (decide (samples.size - c ≤ M))
        (by rw [decide_eq_true_iff]; omega)] at hpk
    obtain ⟨p0, p1, p2, pd, psz⟩ := modNextAt_payload b samples k c (min (samples.size - c) M)
      (modFlagByte false (decide (samples.size - c ≤ M)) seg tr.isSome) hb (by omega) (modFlagByte_lt _ _ _ _)
    have hkeep := pack_keeps hpk
    generalize modNextPayloadAt b samples k c (min (samples.size - c) M)
      (modFlagByte false (decide (samples.size - c ≤ M)) seg tr.isSome) = b' at hpk p0 p1 p2 pd psz hkeep
    generalize hw : min (samples.size - c) M = w at hpk p0 p1 p2 pd psz hkeep
    have hw' : 0 < w ∧ c + w ≤ samples.size ∧ w ≤ M ∧ (c + w < samples.size → w = M) := by omega
    refine ⟨c + w, b', 4 + (w + 1) / 2 * 2, hpk, by omega, by omega, hkeep, by omega, by omega, by omega, ?_⟩
    intro s0 sH hpre _ b'' hb'' hag
    unfold Proto.Pre at hpre
    rw [if_neg hc0] at hpre
    have hmid : ModMid seg tr rep div samples s0 sH c := hpre
    have H := hmid.ok
    rw [← agree_u8 psz hb'' hag 0 (by omega)] at p0
    rw [← agree_u8 psz hb'' hag 1 (by omega)] at p1
    rw [← agree_u16 psz hb'' hag 2 (by omega)] at p2
    have pd' : ∀ j, j < w → u8at (b''.extract k 622) (4 + j) = rd samples (c + j) := by
      intro j hj
      rw [agree_u8 psz hb'' hag (4 + j) (by omega), pd j hj]
      exact Nat.mod_eq_of_lt (H.bytes _)
    generalize b''.extract k 622 = d at p0 p1 p2 pd'
    have heq := mod_next_handle_eq sH d seg w H.seg (decide (samples.size - c ≤ M)) tr.isSome p0 p1 p2
    refine mod_finish seg tr rep div samples hmid.inv.wf p0 heq ?_
    exact mod_frame H hmid.rel hmid.inv hmid.c2 hmid.ldiv hmid.lseg d 4 w (c + w) false _ rfl pd' (by omega) (by omega)
      (fun h => by omega) (by rw [decide_eq_true_iff]; omega)

theorem modProto_laws (seg : Nat) (tr : Tr) (rep div : Nat) (samples : Array Nat)
    (hn2 : 2 ≤ samples.size) (hn3 : samples.size ≤ 65536) : (modProto seg tr rep div samples).Laws where
  op0 := modOpAt_eq seg tr rep div samples 0 false
    (by constructor <;> intro h <;> first | exact absurd h (by decide) | omega)
  total_pos := by show 0 < samples.size; omega
  done_iff := by
    intro c _
    show decide (samples.size = c) = true ↔ c = samples.size
    rw [decide_eq_true_iff]; omega
  fits := by
    intro c nt _ _
    show (if c = 0 then 16 else 4) + 2 ≤ 622
    split <;> omega
  step := fun c nt b k hc _ hb hk2 hroom => modProto_step seg tr rep div samples hn2 hn3 c nt b k hc hb hk2 hroom
  ready_wf := fun _ h => h.1
  mid_wf := fun _ _ _ h => h.inv.wf
  done_wf := fun _ _ h => h.wf
  mid_io := by
    intro s0 s c a l r h
    exact ⟨⟨by wf_same h.inv.wf, h.inv.cycle, h.inv.wseg, h.inv.page, h.inv.bytes, fun _ _ => rfl, h.inv.trMode,
      h.inv.trValue, h.inv.divReg, h.inv.repReg, fun _ _ _ _ _ _ => rfl, rfl, rfl, rfl⟩, h.c2, h.ok,
      ⟨h.rel.omem, h.rel.oregs, h.rel.swap, h.rel.time⟩, h.ldiv, h.lseg⟩
  done_io := by
    intro s0 s a l r h
    exact ⟨by wf_same h.wf, h.ok, ModHeld_congr (s := s) h.ok.seg (fun _ => rfl) (fun _ _ _ => rfl) rfl h.held, h.swapDet,
      h.ldiv, h.lseg⟩
  mid_fin := by
    intro s0 s c id h
    refine ⟨ModInv_rebase (ModInv_fin h.inv id), h.c2, h.ok, ⟨h.rel.omem, ?_, h.rel.swap, h.rel.time⟩, h.ldiv, h.lseg⟩
    intro a a1 a2 a3 a4
    rw [reg_fin _ _ _ (by omega)]
    exact h.rel.oregs a a1 a2 a3 a4
  done_fin := fun s0 s id h => ⟨WF_fin h.wf id, h.ok, ModHeld_fin h.held id, h.swapDet, h.ldiv, h.lseg⟩
  mid_other := by
    intro s0 s s' c h K hW'
    have hseg := h.ok.seg
    refine ⟨⟨hW', K.cycle.trans h.inv.cycle, (K.regs _ (by decide) (by decide)).trans h.inv.wseg,
      (K.regs _ (by decide) (by decide)).trans h.inv.page, ?_, fun _ _ => rfl, K.trMode.trans h.inv.trMode,
      K.trValue.trans h.inv.trValue, ?_, ?_, fun _ _ _ _ _ _ => rfl, rfl, rfl, rfl⟩, h.c2, h.ok,
      ⟨(modMem_keep K _).trans h.rel.omem, fun a a1 a2 a3 a4 => (K.regs a (by omega) a2).trans (h.rel.oregs a a1 a2 a3 a4),
        K.swap.trans h.rel.swap, K.time.trans h.rel.time⟩, K.div.trans h.ldiv, K.segment.trans h.lseg⟩
    · intro i hi; rw [modMem_keep K]; exact h.inv.bytes i hi
    · rw [K.regs _ (by simp only [ADDR_MOD_FREQ_DIV0]; omega) (by simp only [ADDR_MOD_FREQ_DIV0]; omega)]; exact h.inv.divReg
    · rw [K.regs _ (by simp only [ADDR_MOD_REP0]; omega) (by simp only [ADDR_MOD_REP0]; omega)]; exact h.inv.repReg
  done_other := by
    intro s0 s s' h K hW'
    exact ⟨hW', h.ok, ModHeld_congr (s := s) h.ok.seg (modMem_keep K) (fun a a1 a2 => K.regs a (by omega) a2) K.swap h.held,
      fun m v e => by rw [K.swap]; exact h.swapDet m v e, K.div.trans h.ldiv, K.segment.trans h.lseg⟩
  ownT_refl := fun s => Foot.refl _ _ s
  ownT_trans := fun _ _ _ h1 h2 => Foot.trans h1 h2
  own_ownT := fun _ _ h => Foot.toMI h
  io_ownT := fun s a l r => ⟨hio_MI s a l r, rfl, fun _ _ => rfl⟩
  fin_ownT := fun s id _ => Foot.tweak (Foot.reg1 ErCtl_MI (Foot.refl eraseMI TM s) ADDR_CTL_FLAG s.flagsInternal (Or.inl rfl))
    rfl rfl
  ownT_numTr := by
    intro a b h
    have := congrArg State.numTr h.eq
    exact this

theorem modProto_ready (seg : Nat) (tr : Tr) (rep div : Nat) (samples : Array Nat) (sH : State) :
    (modProto seg tr rep div samples).Ready sH ↔
      (WF sH ∧ ModOK sH seg tr rep div samples ∧ validateTransitionMode sH.modSegment seg rep (trMode tr) = false ∧
        validateSilencerSettings sH (sel sH.stmDiv sH.stmSegment) div = false) := Iff.rfl

theorem modProto_done (seg : Nat) (tr : Tr) (rep div : Nat) (samples : Array Nat) {s0 s : State}
    (h : (modProto seg tr rep div samples).Done s0 s) :
    WF s ∧ ModHeld s0 s seg tr rep div samples ∧ s.modDiv = setSel s0.modDiv seg div ∧
      s.modSegment = (if trMode tr = TRANSITION_MODE_NONE then s0.modSegment else seg) :=
  ⟨h.wf, h.held, h.ldiv, h.lseg⟩

theorem modProto_mid (seg : Nat) (tr : Tr) (rep div : Nat) (samples : Array Nat) {s0 s : State} {c : Nat}
    (h : (modProto seg tr rep div samples).Mid s0 s c) :
    WF s ∧ s.modDiv = setSel s0.modDiv seg div ∧
      s.modSegment = (if trMode tr = TRANSITION_MODE_NONE then s0.modSegment else seg) :=
  ⟨h.inv.wf, h.ldiv, h.lseg⟩

theorem modProto_done_swap (seg : Nat) (tr : Tr) (rep div : Nat) (samples : Array Nat) {s0 s : State}
    (h : (modProto seg tr rep div samples).Done s0 s) :
    ∀ m v, tr = some (m, v) → s0.modSwap.set s0.dcSysTime rep div samples.size seg (tmodeOf m v) = .ok s.modSwap :=
  h.swapDet

/-! ### two complete sends of the same Modulation from bases that agree on the modulation side -/

/-- modulation-side read-back of `s'` equals that of `s` -/
structure ModObsEq (s s' : State) : Prop where
  obs : ∀ g, g ≤ 1 → Obs.modBuffer s' g = Obs.modBuffer s g ∧ Obs.modDiv s' g = Obs.modDiv s g ∧
    Obs.modRep s' g = Obs.modRep s g ∧ Obs.modCycle s' g = Obs.modCycle s g
  req : Obs.reqModSeg s' = Obs.reqModSeg s
  transition : Obs.modTransition s' = Obs.modTransition s
  swap : s'.modSwap = s.modSwap

/-- the register-level observations are functions of the registers 34..45 -/
theorem modRegObs_congr {s s' : State} (hr : ∀ a, 34 ≤ a → a ≤ 45 → reg s' a = reg s a) :
    (∀ g, g ≤ 1 → Obs.modDiv s' g = Obs.modDiv s g ∧ Obs.modRep s' g = Obs.modRep s g ∧
      Obs.modCycle s' g = Obs.modCycle s g) ∧ Obs.reqModSeg s' = Obs.reqModSeg s ∧
      Obs.modTransition s' = Obs.modTransition s := by
  refine ⟨fun g hg => ⟨?_, ?_, ?_⟩, ?_, ?_⟩
  · unfold Obs.modDiv; simp only [ADDR_MOD_FREQ_DIV0]; exact hr _ (by omega) (by omega)
  · unfold Obs.modRep; simp only [ADDR_MOD_REP0]; exact hr _ (by omega) (by omega)
  · unfold Obs.modCycle; simp only [ADDR_MOD_CYCLE0]; rw [hr _ (by omega) (by omega)]
  · have e34 : reg s' ADDR_MOD_REQ_RD_SEGMENT = reg s ADDR_MOD_REQ_RD_SEGMENT := hr 34 (by omega) (by omega)
    unfold Obs.reqModSeg segReg; simp only [e34]
  · unfold Obs.modTransition reg64; simp only [ADDR_MOD_TRANSITION_MODE, ADDR_MOD_TRANSITION_VALUE_0]
    rw [hr 41 (by omega) (by omega), hr 42 (by omega) (by omega), hr (42 + 1) (by omega) (by omega),
      hr (42 + 2) (by omega) (by omega), hr (42 + 3) (by omega) (by omega)]

theorem modDone_obs (seg : Nat) (tr : Tr) (rep div : Nat) (samples : Array Nat) {b b' f f' : State}
    (h : (modProto seg tr rep div samples).Done b f) (h' : (modProto seg tr rep div samples).Done b' f')
    (hb : KeepM b b') : ModObsEq f f' := by
  have h : ModDone seg tr rep div samples b f := h
  have h' : ModDone seg tr rep div samples b' f' := h'
  have hseg := h.ok.seg
  have H := h.held
  have H' := h'.held
  obtain ⟨bo, bq, bt⟩ := modRegObs_congr (s := b) (s' := b') (fun a a1 a2 => hb.regs a (by omega) a2)
  have h1 : 1 - seg ≤ 1 := by omega
  obtain ⟨bD, bR, bC⟩ := bo (1 - seg) h1
  have eM : Obs.modMem f' (1 - seg) = Obs.modMem f (1 - seg) := by
    rw [H'.otherMem, H.otherMem]; exact modMem_keep hb _
  have eC : Obs.modCycle f' (1 - seg) = Obs.modCycle f (1 - seg) := by
    rw [H'.otherRegs.2.2, H.otherRegs.2.2]; exact bC
  have hobs : ∀ g, g ≤ 1 → Obs.modBuffer f' g = Obs.modBuffer f g ∧ Obs.modDiv f' g = Obs.modDiv f g ∧
      Obs.modRep f' g = Obs.modRep f g ∧ Obs.modCycle f' g = Obs.modCycle f g := by
    intro g hg
    rcases (show g = seg ∨ g = 1 - seg by omega) with e | e <;> subst e
    · exact ⟨by rw [H'.buffer, H.buffer], by rw [H'.hdiv, H.hdiv], by rw [H'.hrep, H.hrep], by rw [H'.hcycle, H.hcycle]⟩
    · exact ⟨modBuffer_congr' f f' _ eM eC, by rw [H'.otherRegs.1, H.otherRegs.1]; exact bD,
        by rw [H'.otherRegs.2.1, H.otherRegs.2.1]; exact bR, eC⟩
  have hq := H.req
  have hq' := H'.req
  have hd := h.swapDet
  have hd' := h'.swapDet
  cases tr with
  | none =>
    obtain ⟨q1, q2, q3⟩ := hq
    obtain ⟨q1', q2', q3'⟩ := hq'
    exact ⟨hobs, by rw [q2', q2]; exact bq, by rw [q3', q3]; exact bt, by rw [q1', q1]; exact hb.swap⟩
  | some mv =>
    obtain ⟨m, v⟩ := mv
    obtain ⟨q1, q2, _⟩ := hq
    obtain ⟨q1', q2', _⟩ := hq'
    refine ⟨hobs, by rw [q1', q1], by rw [q2', q2], ?_⟩
    have e := hd m v rfl
    have e' := hd' m v rfl
    rw [hb.swap, hb.time, e] at e'
    injection e' with e'
    exact e'.symm

end Autd3.Tuple2
