import Autd3.Lemmas.StateByte1
import Autd3.Lemmas.HistTrace4
/-!
C17, history level, part 2: what a complete send of a legal datagram leaves of the read-back path.

`Gate k s0 s`: the rx gate (`is_rx_data_used`), the parked copy of the reads flag (`reads_fpga_state_store`) and the
controller registers 1…3 (FPGA_STATE with the thermal bit, the two version words) of `s` are those of `s0`; with
`k = true` also `reads_fpga_state` itself.  Every single-frame handler other than `firm_info`, `clear`,
`phase_corr` is walked through for an ARBITRARY payload (`handlePayload_gate`, the same walk as `Hist.handlePayload_keeps`
with the side condition "the written register is not 1…3"); `clear` and `phase_corr` from their closed forms; the four
data datagrams from the C02 side relations (`Hist.sends_*_side`).  `sends_gate`: every complete send of a `Legal`
datagram keeps the gate closed/open as it was, keeps registers 1…3, and leaves `reads_fpga_state` as `readsStep` says.
-/
set_option linter.unusedSimpArgs false
set_option linter.unusedVariables false
open Autd3 Autd3.Fw Autd3.Wire Autd3.Gen.Cpu Autd3.Gen Autd3.Rt Autd3.Hist
namespace Autd3.SB

structure Gate (k : Bool) (s0 s : State) : Prop where
  used : s.isRxDataUsed = s0.isRxDataUsed
  store : s.readsStore = s0.readsStore
  regs : ∀ a, 1 ≤ a → a ≤ 3 → reg s a = reg s0 a
  reads : k = true → s.readsFpgaState = s0.readsFpgaState

theorem Gate.refl (k : Bool) (s : State) : Gate k s s := ⟨rfl, rfl, fun _ _ _ => rfl, fun _ => rfl⟩
theorem Gate.trans {k : Bool} {a b c : State} (h1 : Gate k a b) (h2 : Gate k b c) : Gate k a c :=
  ⟨h2.used.trans h1.used, h2.store.trans h1.store, fun x hx hy => (h2.regs x hx hy).trans (h1.regs x hx hy),
    fun hk => (h2.reads hk).trans (h1.reads hk)⟩
theorem Gate.weaken {k : Bool} {a b : State} (h : Gate true a b) : Gate k a b :=
  ⟨h.used, h.store, h.regs, fun _ => h.reads rfl⟩

/-- `s` differs from `s1` in fields the gate does not look at -/
theorem Gate.tweak {k : Bool} {s0 s1 s : State} (h : Gate k s0 s1) (e1 : s.isRxDataUsed = s1.isRxDataUsed)
    (e2 : s.readsStore = s1.readsStore) (e3 : s.ctl = s1.ctl) (e4 : s.readsFpgaState = s1.readsFpgaState) : Gate k s0 s :=
  ⟨e1.trans h.used, e2.trans h.store, fun a ha hb => by unfold reg; rw [e3]; exact h.regs a ha hb,
    fun hk => e4.trans (h.reads hk)⟩

theorem Gate.of_fields {k : Bool} {s0 s : State} (e1 : s.isRxDataUsed = s0.isRxDataUsed)
    (e2 : s.readsStore = s0.readsStore) (e3 : s.ctl = s0.ctl) (e4 : s.readsFpgaState = s0.readsFpgaState) : Gate k s0 s :=
  (Gate.refl k s0).tweak e1 e2 e3 e4

theorem Gate.wr {k : Bool} {s0 s : State} (h : Gate k s0 s) (a v : Nat) (ha : a = 0 ∨ 4 ≤ a) : Gate k s0 (wr s a v) :=
  ⟨h.used, h.store, fun x hx hy => by
    have : reg (Rt.wr s a v) x = reg s x := by
      unfold reg; rw [wr_ctl, Autd3.Rt.rd_set, if_neg (by omega)]
    rw [this]; exact h.regs x hx hy, h.reads⟩

theorem LG.cw {k : Bool} {s0 s1 : State} {a v : Nat} {f : State → M (State × Nat)} (h1 : Gate k s0 s1) (ha : a < 256)
    (ha' : a = 0 ∨ 4 ≤ a) (h : ∀ s2, Gate k s0 s2 → Leaves (Gate k) s0 (f s2)) :
    Leaves (Gate k) s0 (Fw.ctlWrite s1 a v >>= f) := by
  rw [Rt.ctlWrite_main _ _ _ ha]; exact h _ (h1.wr a v ha')

theorem LG.cww {k : Bool} {s0 s1 : State} {base : Nat} {ws : Array Nat} {f : State → M (State × Nat)} (h1 : Gate k s0 s1)
    (hb : base + ws.size ≤ 256) (hb' : 4 ≤ base) (h : ∀ s2, Gate k s0 s2 → Leaves (Gate k) s0 (f s2)) :
    Leaves (Gate k) s0 (Fw.ctlWriteWords s1 base ws >>= f) := by
  rw [Rt.ctlWriteWords_main _ _ _ hb]
  refine h _ ⟨h1.used, h1.store, fun x hx hy => ?_, h1.reads⟩
  have : reg ({ s1 with ctl := wrWords s1.ctl base ws } : State) x = reg s1 x := by
    unfold reg; show rd (wrWords s1.ctl base ws) x = _
    rw [rd_wrWords, if_neg (by omega)]
  rw [this]; exact h1.regs x hx hy

theorem saw_gate (s s' : State) (flag : Nat) (h : setAndWaitUpdate s flag = .ok s') : Gate true s s' := by
  unfold setAndWaitUpdate at h
  rw [Rt.ctlWrite_main _ ADDR_CTL_FLAG _ (by decide), Rt.ok_bind] at h
  obtain ⟨s2, h2, h3⟩ := Hist.bind_eq_ok h
  obtain ⟨mw, sw, rfl⟩ := fpgaSaw_shape _ _ _ h2
  rw [Rt.ctlWrite_main _ ADDR_CTL_FLAG _ (by decide)] at h3
  cases h3
  have g1 : Gate true s (Rt.wr s ADDR_CTL_FLAG (s.flagsInternal ||| flag)) := (Gate.refl true s).wr _ _ (Or.inl rfl)
  have g2 : Gate true s ({ Rt.wr s ADDR_CTL_FLAG (s.flagsInternal ||| flag) with modSwap := mw, stmSwap := sw } : State) :=
    g1.tweak rfl rfl rfl rfl
  exact g2.wr _ _ (Or.inl rfl)

theorem LG.saw {k : Bool} {s0 s1 : State} {flag : Nat} {f : State → M (State × Nat)} (h1 : Gate k s0 s1)
    (h : ∀ s2, Gate k s0 s2 → Leaves (Gate k) s0 (f s2)) : Leaves (Gate k) s0 (setAndWaitUpdate s1 flag >>= f) :=
  Leaves.bind (fun x => Gate k s0 x) (fun x hx => h1.trans (saw_gate _ _ _ hx).weaken) h

/-! ### the single-frame handlers, for every payload -/

theorem synchronize_gate (k : Bool) (s : State) (d : Array Nat) : Leaves (Gate k) s (synchronize s d) := by
  unfold synchronize
  simp only []
  refine LG.saw (s1 := { s with synchronized := true }) (Gate.of_fields rfl rfl rfl rfl) ?_
  intro s2 h2
  exact Leaves.pure h2

theorem configDebug_gate (k : Bool) (s : State) (d : Array Nat) : Leaves (Gate k) s (configDebug s d) := by
  unfold configDebug
  refine LG.cww (Gate.refl k s) (by simp [wordsAt, ADDR_DEBUG_VALUE0_0]) (by decide) ?_
  intro s2 h2
  refine LG.saw h2 ?_
  intro s3 h3
  exact Leaves.pure h3

theorem configSilencer_gate (k : Bool) (s : State) (d : Array Nat) : Leaves (Gate k) s (configSilencer s d) := by
  unfold configSilencer
  simp only []
  apply Leaves.ite <;> intro _
  · refine LG.cw (Gate.refl k s) (by decide) (by decide) ?_; intro s2 h2
    refine LG.cw h2 (by decide) (by decide) ?_; intro s3 h3
    refine LG.cw h3 (by decide) (by decide) ?_; intro s4 h4
    refine LG.saw h4 ?_; intro s5 h5
    exact Leaves.pure h5
  · apply Leaves.ite <;> intro _
    · exact Leaves.pure (Gate.refl k s)
    · refine LG.cw (s1 := { s with strict := _, minDivI := _, minDivP := _ }) (Gate.of_fields rfl rfl rfl rfl)
        (by decide) (by decide) ?_; intro s2 h2
      refine LG.cw h2 (by decide) (by decide) ?_; intro s3 h3
      refine LG.cw h3 (by decide) (by decide) ?_; intro s4 h4
      refine LG.saw h4 ?_; intro s5 h5
      exact Leaves.pure h5

theorem configureForceFan_gate (k : Bool) (s : State) (d : Array Nat) : Leaves (Gate k) s (configureForceFan s d) := by
  unfold configureForceFan
  simp only []
  apply Leaves.ite <;> intro _ <;> exact Leaves.ok (Gate.of_fields rfl rfl rfl rfl)

/-- `configure_reads_fpga_state` is the one handler here that writes the reads flag -/
theorem configureReadsFpgaState_gate (s : State) (d : Array Nat) : Leaves (Gate false) s (configureReadsFpgaState s d) :=
  Leaves.ok ⟨rfl, rfl, fun _ _ _ => rfl, fun h => by cases h⟩

theorem emulateGpioIn_gate (k : Bool) (s : State) (d : Array Nat) : Leaves (Gate k) s (emulateGpioIn s d) :=
  Leaves.ok (Gate.of_fields rfl rfl rfl rfl)
theorem cpuGpioOut_gate (k : Bool) (s : State) (d : Array Nat) : Leaves (Gate k) s (cpuGpioOut s d) :=
  Leaves.ok (Gate.of_fields rfl rfl rfl rfl)

theorem configPwe_gate (k : Bool) (s : State) (d : Array Nat) : Leaves (Gate k) s (configPwe s d) := by
  unfold configPwe
  refine Leaves.bind (fun x => Gate k s x) ?_ (fun x hx => Leaves.pure hx)
  intro x hx
  unfold pweWriteWords at hx
  split at hx
  · cases hx
  · cases hx; exact Gate.of_fields rfl rfl rfl rfl

theorem modSegmentUpdate_gate {k : Bool} {s0 s1 : State} (h1 : Gate k s0 s1) (seg mode value : Nat) :
    Leaves (Gate k) s0 (modSegmentUpdate s1 seg mode value) := by
  unfold modSegmentUpdate
  refine LG.cw h1 (by decide) (by decide) ?_; intro s2 h2
  apply Leaves.ite <;> intro _
  · exact Leaves.pure h2
  refine LG.cw h2 (by decide) (by decide) ?_; intro s3 h3
  refine LG.cww h3 (by show ADDR_MOD_TRANSITION_VALUE_0 + 4 ≤ 256; decide) (by decide) ?_; intro s4 h4
  refine LG.saw h4 ?_; intro s5 h5
  exact Leaves.pure h5

theorem stmSegmentUpdate_gate {k : Bool} {s0 s1 : State} (h1 : Gate k s0 s1) (seg mode value : Nat) :
    Leaves (Gate k) s0 (stmSegmentUpdate s1 seg mode value) := by
  unfold stmSegmentUpdate
  refine LG.cw h1 (by decide) (by decide) ?_; intro s2 h2
  apply Leaves.ite <;> intro _
  · exact Leaves.pure h2
  refine LG.cw h2 (by decide) (by decide) ?_; intro s3 h3
  refine LG.cww h3 (by show ADDR_STM_TRANSITION_VALUE_0 + 4 ≤ 256; decide) (by decide) ?_; intro s4 h4
  refine LG.saw h4 ?_; intro s5 h5
  exact Leaves.pure h5

theorem changeModSegment_gate (k : Bool) (s : State) (d : Array Nat) : Leaves (Gate k) s (changeModSegment s d) := by
  unfold changeModSegment
  simp only []
  apply Leaves.ite <;> intro _
  · exact Leaves.error _
  apply Leaves.ite <;> intro _
  · exact Leaves.pure (Gate.refl k s)
  apply Leaves.ite <;> intro _
  · exact Leaves.pure (Gate.refl k s)
  apply modSegmentUpdate_gate (k := k) (s0 := s)
  exact Gate.of_fields rfl rfl rfl rfl

theorem changeFociStmSegment_gate (k : Bool) (s : State) (d : Array Nat) : Leaves (Gate k) s (changeFociStmSegment s d) := by
  unfold changeFociStmSegment
  simp only []
  apply Leaves.ite <;> intro _
  · exact Leaves.error _
  apply Leaves.ite <;> intro _
  · exact Leaves.pure (Gate.refl k s)
  apply Leaves.ite <;> intro _
  · exact Leaves.pure (Gate.refl k s)
  apply Leaves.ite <;> intro _
  · exact Leaves.pure (Gate.refl k s)
  apply stmSegmentUpdate_gate (k := k) (s0 := s)
  exact Gate.of_fields rfl rfl rfl rfl

theorem changeGainStmSegment_gate (k : Bool) (s : State) (d : Array Nat) : Leaves (Gate k) s (changeGainStmSegment s d) := by
  unfold changeGainStmSegment
  simp only []
  apply Leaves.ite <;> intro _
  · exact Leaves.error _
  apply Leaves.ite <;> intro _
  · exact Leaves.pure (Gate.refl k s)
  apply Leaves.ite <;> intro _
  · exact Leaves.pure (Gate.refl k s)
  apply Leaves.ite <;> intro _
  · exact Leaves.pure (Gate.refl k s)
  apply stmSegmentUpdate_gate (k := k) (s0 := s)
  exact Gate.of_fields rfl rfl rfl rfl

theorem changeGainSegment_gate (k : Bool) (s : State) (d : Array Nat) : Leaves (Gate k) s (changeGainSegment s d) := by
  unfold changeGainSegment
  simp only []
  apply Leaves.ite <;> intro _
  · exact Leaves.error _
  apply Leaves.ite <;> intro _
  · exact Leaves.pure (Gate.refl k s)
  apply Leaves.ite <;> intro _
  · exact Leaves.pure (Gate.refl k s)
  refine LG.cw (s1 := { s with stmSegment := _ }) (Gate.of_fields rfl rfl rfl rfl) (by decide) (by decide) ?_
  intro s2 h2
  refine LG.cw h2 (by decide) (by decide) ?_; intro s3 h3
  refine LG.saw h3 ?_; intro s4 h4
  exact Leaves.pure h4

/-- tags of the single-frame datagrams other than Clear, PhaseCorrection, FirmwareVersion and ReadsFPGAState -/
def gateTags : List Nat := [2, 17, 33, 49, 67, 68, 96, 114, 240, 241, 242]

theorem handlePayload_gate (k : Bool) (s : State) (d : Array Nat) (ht : u8at d 0 ∈ gateTags) :
    Leaves (Gate k) s (handlePayload s d) := by
  simp only [gateTags, List.mem_cons, List.mem_nil_iff, or_false] at ht
  rcases ht with h | h | h | h | h | h | h | h | h | h | h
  · rw [hp_sync s d h]; exact synchronize_gate k s d
  · rw [hp_modSwap s d h]; exact changeModSegment_gate k s d
  · rw [hp_silencer s d h]; exact configSilencer_gate k s d
  · rw [hp_gainSwap s d h]; exact changeGainSegment_gate k s d
  · rw [hp_gainStmSwap s d h]; exact changeGainStmSegment_gate k s d
  · rw [hp_fociSwap s d h]; exact changeFociStmSegment_gate k s d
  · rw [hp_fan s d h]; exact configureForceFan_gate k s d
  · rw [hp_pwe s d h]; exact configPwe_gate k s d
  · rw [hp_debug s d h]; exact configDebug_gate k s d
  · rw [hp_gpioIn s d h]; exact emulateGpioIn_gate k s d
  · rw [hp_gpioOut s d h]; exact cpuGpioOut_gate k s d

theorem handlePayload_gate_reads (s : State) (d : Array Nat) (ht : u8at d 0 = 97) :
    Leaves (Gate false) s (handlePayload s d) := by
  rw [hp_reads s d ht]; exact configureReadsFpgaState_gate s d

theorem handlePayload_gate_phaseCorr (k : Bool) (s : State) (d : Array Nat) (ht : u8at d 0 = 128)
    (hpc : s.phaseCorr.size = 128) : Leaves (Gate k) s (handlePayload s d) := by
  rw [hp_phaseCorr s d ht]
  unfold phaseCorrOp
  have := ctlWriteWords_pc s 0 (wordsAt d FwLayout.PhaseCorr_size ((TRANS_NUM + 1) >>> 1)) (by simp [wordsAt, TRANS_NUM]) hpc
  rw [show BRAM_CNT_SEL_PHASE_CORR <<< 8 = 256 + 0 from rfl, this]
  exact Leaves.pure (Gate.of_fields rfl rfl rfl rfl)

/-- `clear`: gate, parked flag and registers 1…3 stay; the reads flag is reset -/
theorem handlePayload_gate_clear (s : State) (d : Array Nat) (ht : u8at d 0 = 1) (hW : P02.WF s) (s' : State) (a : Nat)
    (h : handlePayload s d = .ok (s', a)) : Gate false s s' ∧ s'.readsFpgaState = false := by
  rw [hp_clear s d ht] at h
  have e : clear s d = clear s #[] := rfl
  rw [e, P02.clear_eq s hW] at h
  cases h
  have hk := P02.clearResult_kept s
  have hr := P02.clearResult_keeps_regs s
  refine ⟨⟨hk.2.2.2.2.2.2.2.1, hk.2.2.2.2.2.2.1, ?_, fun h => by cases h⟩, (P02.cleared_clearResult s hW).reads⟩
  intro x hx hy
  unfold reg
  exact hr x (by simp; omega)

/-! ### one accepted frame, a whole single-frame send -/

theorem Gate_pre (k : Bool) (s : State) (id : Nat) : Gate k s (pre s id) := by
  obtain ⟨r, hr⟩ := pre_eq s id
  rw [hr]; exact Gate.of_fields rfl rfl rfl rfl

theorem Gate_fin (k : Bool) (s : State) (id : Nat) : Gate k s (fin s id) :=
  ((Gate.refl k s).wr ADDR_CTL_FLAG s.flagsInternal (Or.inl rfl)).tweak rfl rfl rfl rfl

/-- one accepted single-slot frame whose handler outcome is `Gate k`-related -/
theorem recv_gate {k : Bool} (s s' : State) (t' : Tx) (hid : t'.msgId < 128) (hslot : t'.slot2 = 0)
    (hh : Leaves (Gate k) (pre s t'.msgId) (handlePayload (pre s t'.msgId) t'.payload))
    (h : ecatRecv s t'.frame = .ok s') (hack : s'.ack = t'.msgId) : Gate k s s' := by
  rcases ecatRecv_accept s s' t' hid hslot h hack with h0 | ⟨s1, a, hh1, rfl⟩
  · subst h0; exact Gate.refl _ _
  · exact ((Gate_pre k s _).trans (hh s1 a hh1)).trans (Gate_fin k s1 _)

theorem sends_one_gate {k : Bool} (dg : Dg) (s : State) (t t' : Tx) (s' : State) (o' : Op) (b : Array Nat) (sz : Nat)
    (hnd : (Op.ofDg dg).done = false) (hp : (Op.ofDg dg).pack s.numTr t.payload 0 = .ok (o', b, sz))
    (hd : o'.done = true) (hh : Leaves (Gate k) (pre s (nextId t)) (handlePayload (pre s (nextId t)) b))
    (h : Sends dg s t t' s') : Gate k s s' := by
  obtain ⟨_, hr, ha⟩ := sends_one_inv dg s t t' s' o' b sz hnd hp hd h
  exact recv_gate s s' ⟨nextId t, 0, b⟩ (nextId_lt t) rfl hh hr ha

/-- the reads flag after a datagram, from the flag before -/
def readsStep (r : Bool) : Dg → Bool
  | .clear => false
  | .readsFpgaState v => v
  | _ => r

theorem side_gate_mod {s s' : State} (h : ModSide s s') : Gate true s s' :=
  ⟨h.isRxDataUsed, h.readsStore, fun a ha hb => h.regs a (by unfold modAddr; omega), fun _ => h.readsFpgaState⟩
theorem side_gate_stm {s s' : State} (h : StmSide s s') : Gate true s s' :=
  ⟨h.isRxDataUsed, h.readsStore, fun a ha hb => h.regs a (by unfold stmAddr; omega), fun _ => h.readsFpgaState⟩

/-- **every complete send of a legal datagram**: the rx gate, the parked flag and registers 1…3 (thermal bit, version
words) are untouched; the reads flag follows `readsStep` -/
theorem sends_gate (s : State) (t : Tx) (hW : WF s) (hT : TxOK t) (hF : Fresh s t) (dg : Dg) (hL : Legal s dg)
    (t' : Tx) (s' : State) (h : Sends dg s t t' s') :
    Gate false s s' ∧ s'.readsFpgaState = readsStep s.readsFpgaState dg := by
  have ht' : t.payload.size = 622 := hT
  have cfg : ∀ X, Tuple.IsCfg X = true → Tuple.cfgTag X ∈ gateTags → Sends X s t t' s' →
      Gate false s s' ∧ s'.readsFpgaState = s.readsFpgaState := by
    intro X hX htag hS
    have hfit : 0 + Tuple.cfgLen X ≤ t.payload.size := by have := Tuple.cfgLen_le X; omega
    have g : Gate true s s' := by
      refine sends_one_gate X s t t' s' _ _ _ (Tuple.cfg_pending X hX) (Tuple.cfg_pack X hX s.numTr t.payload 0 hfit) rfl
        (handlePayload_gate true _ _ ?_) hS
      rw [Tuple.cfg_tag X hX t.payload 0 hfit]; exact htag
    exact ⟨g.weaken, g.reads rfl⟩
  have swp : ∀ X b o' sz, (Op.ofDg X).done = false → (Op.ofDg X).pack s.numTr t.payload 0 = .ok (o', b, sz) →
      o'.done = true → u8at b 0 ∈ gateTags → Sends X s t t' s' →
      Gate false s s' ∧ s'.readsFpgaState = s.readsFpgaState := by
    intro X b o' sz h1 h2 h3 htag hS
    have g : Gate true s s' := sends_one_gate X s t t' s' _ _ _ h1 h2 h3 (handlePayload_gate true _ _ htag) hS
    exact ⟨g.weaken, g.reads rfl⟩
  cases dg with
  | clear =>
    have p0 := u8at_tagValue_0 t.payload Drv.TAG_Clear 0 (by omega) (by decide)
    obtain ⟨t0, s0, hS, _, _, _, hP⟩ := single_glue' .clear s t hW hF _ _ _ rfl rfl rfl (by simpa using ht')
      (fun _ x => Gate false s x ∧ x.readsFpgaState = false) (by
        intro r hWr
        generalize tagValue t.payload 0 Drv.TAG_Clear 0 = d at p0
        obtain ⟨s1, e2, hW1⟩ := clear_ok { s with lastMsgId := nextId t, rxData := r } #[]
          ⟨hWr.ctl, hWr.phaseCorr, hWr.pwe, hWr.modMem0, hWr.modMem1, hWr.stmMem0, hWr.stmMem1, hWr.numTr, rfl,
            hWr.modSwap, hWr.stmSwap⟩
        have hd : handlePayload { s with lastMsgId := nextId t, rxData := r } d = .ok (s1, NO_ERR) := by
          rw [hp_clear _ _ p0]; exact e2
        obtain ⟨g, rr⟩ := handlePayload_gate_clear _ _ p0 (p02wf_of_wf hWr) s1 _ hd
        have e1 := P02.clear_eq _ (p02wf_of_wf hWr)
        have e3 : clear { s with lastMsgId := nextId t, rxData := r } #[] = .ok (s1, NO_ERR) := e2
        rw [e1] at e3
        simp only [Except.ok.injEq, Prod.mk.injEq, and_true] at e3
        have hk := P02.clearResult_kept { s with lastMsgId := nextId t, rxData := r }
        have hl : s1.lastMsgId = nextId t := by rw [← e3]; exact hk.2.2.2.2.2.2.2.2.2.1
        refine ⟨s1, hd, hW1, hl, ?_, rr⟩
        have g0 : Gate false s ({ s with lastMsgId := nextId t, rxData := r } : State) := Gate.of_fields rfl rfl rfl rfl
        exact (g0.trans g).trans (Gate_fin false s1 _))
    obtain ⟨rfl, rfl⟩ := Rt.Sends_unique hS h
    exact hP
  | sync => exact cfg _ rfl (by simp [Tuple.cfgTag, gateTags]) h
  | null =>
    obtain ⟨rfl, rfl⟩ := sends_null s t t' s' h
    exact ⟨Gate.refl _ _, rfl⟩
  | forceFan v => exact cfg _ rfl (by simp [Tuple.cfgTag, gateTags]) h
  | readsFpgaState v =>
    have hfit : 0 + Tuple.cfgLen (.readsFpgaState v) ≤ t.payload.size := by
      have := Tuple.cfgLen_le (.readsFpgaState v); omega
    have g : Gate false s s' := by
      refine sends_one_gate _ s t t' s' _ _ _ (Tuple.cfg_pending _ rfl) (Tuple.cfg_pack _ rfl s.numTr t.payload 0 hfit) rfl
        (handlePayload_gate_reads _ _ ?_) h
      rw [Tuple.cfg_tag _ rfl t.payload 0 hfit]; rfl
    obtain ⟨t0, s0, hS, _, _, _, r⟩ := readsFpgaState_roundtrip' s t hW hT hF v
    obtain ⟨rfl, rfl⟩ := Rt.Sends_unique hS h
    exact ⟨g, r⟩
  | cpuGpioOut v => exact cfg _ rfl (by simp [Tuple.cfgTag, gateTags]) h
  | gpioIn f => exact cfg _ rfl (by simp [Tuple.cfgTag, gateTags]) h
  | debug vals => exact cfg _ rfl (by simp [Tuple.cfgTag, gateTags]) h
  | phaseCorr bytes =>
    have g : Gate true s s' := by
      refine sends_one_gate _ s t t' s' _ _ _ rfl (pack_phaseCorr bytes _ _ ht' hW.numTr) rfl ?_ h
      refine handlePayload_gate_phaseCorr true _ _ ?_ (WF_pre hW _).phaseCorr
      rw [u8at_putBytes, if_neg (by omega), u8at_tagValue_0 _ _ _ (by omega) (by decide)]; rfl
    exact ⟨g.weaken, g.reads rfl⟩
  | pwe table => exact cfg _ rfl (by simp [Tuple.cfgTag, gateTags]) h
  | silencerSteps i p strict => exact cfg _ rfl (by simp [Tuple.cfgTag, gateTags]) h
  | silencerRate i p => exact cfg _ rfl (by simp [Tuple.cfgTag, gateTags]) h
  | gain seg tr drives =>
    have g := side_gate_stm (sends_gain_side s t t' s' seg tr drives (Pre_of_WF hW) hT h).1
    exact ⟨g.weaken, g.reads rfl⟩
  | modulation seg tr rep div samples =>
    have g := side_gate_mod (sends_mod_side s t t' s' seg tr rep div samples (Pre_of_WF hW) hT h).1
    exact ⟨g.weaken, g.reads rfl⟩
  | fociStm n seg tr rep div ss records =>
    have g := side_gate_stm (sends_foci_side s t t' s' n seg tr rep div ss records (Pre_of_WF hW) hT h).1
    exact ⟨g.weaken, g.reads rfl⟩
  | gainStm mode seg tr rep div patterns =>
    have g := side_gate_stm (sends_gstm_side s t t' s' mode seg tr rep div patterns (Pre_of_WF hW) hT h).1
    exact ⟨g.weaken, g.reads rfl⟩
  | swapGain seg mode value =>
    obtain ⟨rfl, _⟩ := hL
    refine swp _ _ _ _ rfl rfl rfl ?_ h
    rw [u8at_tagValue_0 t.payload Drv.TAG_GainSwapSegment seg (by omega) (by decide)]; decide
  | swapMod seg mode value =>
    refine swp _ _ _ _ rfl rfl rfl ?_ h
    rw [(swapWT_payload t.payload Drv.TAG_ModulationSwapSegment seg mode value (by omega) (by decide)).1]; decide
  | swapFoci seg mode value =>
    refine swp _ _ _ _ rfl rfl rfl ?_ h
    rw [(swapWT_payload t.payload Drv.TAG_FociSTMSwapSegment seg mode value (by omega) (by decide)).1]; decide
  | swapGainStm seg mode value =>
    refine swp _ _ _ _ rfl rfl rfl ?_ h
    rw [(swapWT_payload t.payload Drv.TAG_GainSTMSwapSegment seg mode value (by omega) (by decide)).1]; decide
  | firmInfo ty => exact hL.elim

/-! ### every accepted frame leaves `CTL_FLAG` = the CPU's flag word -/

/-- the device after a send loop is the one before it, or the `fin` of a handler result -/
theorem sendLoop_fin : ∀ fuel (o : Op) (s : State) (t t' : Tx) (s' : State),
    sendLoop fuel o s t = some (t', s') → s' = s ∨ ∃ x id, s' = fin x id := by
  intro fuel
  induction fuel with
  | zero => intro o s t t' s' h; cases h
  | succ fuel ih =>
    intro o s t t' s' h
    unfold sendLoop at h
    split at h
    · cases h; exact Or.inl rfl
    · split at h
      · cases h
      · rename_i o1 t1 sz hp
        obtain ⟨b, _, rfl⟩ := packOp_inv _ _ _ _ _ _ hp
        split at h
        · cases h
        · rename_i s1 hr
          split at h
          · rename_i hack
            rcases ih _ _ _ _ _ h with e | ⟨x, id, e⟩
            · rcases ecatRecv_accept s s1 ⟨nextId t, 0, b⟩ (nextId_lt t) rfl hr hack with h0 | ⟨x, a, _, e1⟩
              · exact Or.inl (e.trans h0)
              · exact Or.inr ⟨x, _, e.trans e1⟩
            · exact Or.inr ⟨x, id, e⟩
          · cases h

theorem sends_settled (dg : Dg) (s : State) (t t' : Tx) (s' : State) (h : Sends dg s t t' s') (hsz : s'.ctl.size = 256)
    (hs : Hist.Settled s) : Hist.Settled s' := by
  obtain ⟨fuel, h⟩ := h
  rcases sendLoop_fin fuel _ s t t' s' h with e | ⟨x, id, e⟩
  · rw [e]; exact hs
  · subst e
    exact Hist.Settled_fin x id (by simpa [fin, Rt.wr] using hsz)

end Autd3.SB
