import Autd3.Lemmas.TupleCfg
/-!
Tuple equivalence (C03), part 3 — driver side of the nine single-frame configuration datagrams
(`IsCfg`): what `Operation::pack` writes (`cfgBuf`, `cfg_pack`), that the bytes written at offset `off` are the
same as those written at any other offset into any other buffer (`cfg_ti`: translation invariance — no
stale byte inside the operation), and the tag byte (`cfg_tag`).
-/
namespace Autd3.Tuple
open Autd3 Autd3.Fw Autd3.Wire Autd3.Gen.Cpu Autd3.Gen
open Autd3.Rt (u8at_put8 u8at_put16 u8at_put64 u8at_putZeros u8at_putWords size_put8 size_put16 size_put64 size_putZeros size_putWords)

/-- the single-frame configuration datagrams covered by `tuple_equiv_single_frame` -/
def IsCfg : Dg → Bool
  | .sync | .forceFan _ | .readsFpgaState _ | .cpuGpioOut _ | .gpioIn _ | .debug _ | .pwe _
  | .silencerSteps .. | .silencerRate .. => true
  | _ => false

/-- size of the packed operation = number of payload bytes its handler reads -/
def cfgLen : Dg → Nat
  | .debug _ => 40 | .pwe _ => 514 | .silencerSteps .. => 6 | .silencerRate .. => 6 | _ => 2

def cfgTag : Dg → Nat
  | .sync => 2 | .forceFan _ => 96 | .readsFpgaState _ => 97 | .cpuGpioOut _ => 242 | .gpioIn _ => 241
  | .debug _ => 240 | .pwe _ => 114 | .silencerSteps .. => 33 | .silencerRate .. => 33 | _ => 0

/-- the bytes `pack` leaves in the buffer -/
def cfgBuf (X : Dg) (b : Array Nat) (off : Nat) : Array Nat :=
  match X with
  | .sync => tagValue b off Drv.TAG_Sync 0
  | .forceFan v => tagValue b off Drv.TAG_ForceFan (if v then 1 else 0)
  | .readsFpgaState v => tagValue b off Drv.TAG_ReadsFPGAState (if v then 1 else 0)
  | .cpuGpioOut v => tagValue b off Drv.TAG_CpuGPIOOut v
  | .gpioIn f => tagValue b off Drv.TAG_EmulateGPIOIn f
  | .debug vals =>
    put64 (put64 (put64 (put64 (put8 (putZeros b off 8) off Drv.TAG_Debug) (off + 8) (rd vals 0)) (off + 16) (rd vals 1))
      (off + 24) (rd vals 2)) (off + 32) (rd vals 3)
  | .pwe table => putWords (tagValue b off Drv.TAG_ConfigPulseWidthEncoder 0) (off + 2) table 256
  | .silencerSteps i p strict =>
    put16 (put16 (tagValue b off Drv.TAG_Silencer (if strict then Drv.SilencerControlFlags_STRICT_MODE else Drv.SilencerControlFlags_NONE))
      (off + 2) i) (off + 4) p
  | .silencerRate i p =>
    put16 (put16 (tagValue b off Drv.TAG_Silencer Drv.SilencerControlFlags_FIXED_UPDATE_RATE) (off + 2) i) (off + 4) p
  | _ => b

theorem cfg_pack (X : Dg) (hX : IsCfg X = true) (n : Nat) (b : Array Nat) (off : Nat) (hfit : off + cfgLen X ≤ b.size) :
    (Op.ofDg X).pack n b off = .ok ({ dg := X, sent := 0, done := true }, cfgBuf X b off, cfgLen X) := by
  cases X <;> simp only [IsCfg, Bool.false_eq_true] at hX
  case debug vals =>
    unfold Op.pack
    simp [Op.ofDg, cfgBuf, cfgLen, DrvLayout.DebugSetting_value_off, DrvLayout.DebugSetting_size, Rt.foldl_range', Rt.iter]
  case pwe table =>
    simp only [cfgLen] at hfit
    unfold Op.pack
    simp only [Op.ofDg, cfgBuf, cfgLen, DrvLayout.Pwe_size, Drv.PWE_BUF_SIZE]
    rw [show min 256 ((b.size - off - 2 + 1) / 2) = 256 by omega]
  all_goals rfl


macro "buf_tac" : tactic => `(tactic| (
    simp only [tagValue, u8at_put8, u8at_put16, u8at_put64, u8at_putZeros, u8at_putWords, size_put8, size_put16,
      size_put64, size_putZeros, size_putWords, Nat.add_sub_add_left, true_and]
    repeat' split
    all_goals first | rfl | omega))

theorem ti_tagValue (b c : Array Nat) (off off' i tag v : Nat) (hb : off + 2 ≤ b.size) (hc : off' + 2 ≤ c.size) (hi : i < 2) :
    u8at (tagValue b off tag v) (off + i) = u8at (tagValue c off' tag v) (off' + i) := by
  buf_tac

theorem ti_silencer (b c : Array Nat) (off off' i tag v x y : Nat) (hb : off + 6 ≤ b.size) (hc : off' + 6 ≤ c.size)
    (hi : i < 6) :
    u8at (put16 (put16 (tagValue b off tag v) (off + 2) x) (off + 4) y) (off + i) =
      u8at (put16 (put16 (tagValue c off' tag v) (off' + 2) x) (off' + 4) y) (off' + i) := by
  buf_tac

theorem ti_pwe (b c : Array Nat) (table : Array Nat) (off off' i tag : Nat) (hb : off + 514 ≤ b.size)
    (hc : off' + 514 ≤ c.size) (hi : i < 514) :
    u8at (putWords (tagValue b off tag 0) (off + 2) table 256) (off + i) =
      u8at (putWords (tagValue c off' tag 0) (off' + 2) table 256) (off' + i) := by
  buf_tac

/-- closed form of the bytes of a debug operation -/
theorem debug_bytes (b : Array Nat) (off i v0 v1 v2 v3 : Nat) (hb : off + 40 ≤ b.size) (hi : i < 40) :
    u8at (put64 (put64 (put64 (put64 (put8 (putZeros b off 8) off Drv.TAG_Debug) (off + 8) v0) (off + 16) v1)
      (off + 24) v2) (off + 32) v3) (off + i) =
    if 32 ≤ i then (v3 / 256 ^ (i - 32)) % 256 else if 24 ≤ i then (v2 / 256 ^ (i - 24)) % 256
    else if 16 ≤ i then (v1 / 256 ^ (i - 16)) % 256 else if 8 ≤ i then (v0 / 256 ^ (i - 8)) % 256
    else if i = 0 then 240 else 0 := by
  simp only [u8at_put64, size_put64, size_put8, size_putZeros, Nat.add_sub_add_left]
  by_cases h4 : 32 ≤ i
  · rw [if_pos (by omega), if_pos h4]
  rw [if_neg (by omega), if_neg h4]
  by_cases h3 : 24 ≤ i
  · rw [if_pos (by omega), if_pos h3]
  rw [if_neg (by omega), if_neg h3]
  by_cases h2 : 16 ≤ i
  · rw [if_pos (by omega), if_pos h2]
  rw [if_neg (by omega), if_neg h2]
  by_cases h1 : 8 ≤ i
  · rw [if_pos (by omega), if_pos h1]
  rw [if_neg (by omega), if_neg h1]
  rw [u8at_put8, u8at_putZeros, size_putZeros]
  by_cases h0 : i = 0
  · rw [if_pos (by omega), if_pos h0]; rfl
  · rw [if_neg (by omega), if_neg h0, if_pos (by omega)]

/-- **translation invariance**: the `cfgLen X` bytes an `IsCfg` operation writes do not depend on the offset
or on what the buffer held before (every byte of the operation is written) -/
theorem cfg_ti (X : Dg) (hX : IsCfg X = true) (b c : Array Nat) (off off' : Nat)
    (hb : off + cfgLen X ≤ b.size) (hc : off' + cfgLen X ≤ c.size) (i : Nat) (hi : i < cfgLen X) :
    u8at (cfgBuf X b off) (off + i) = u8at (cfgBuf X c off') (off' + i) := by
  cases X <;> simp only [IsCfg, Bool.false_eq_true] at hX <;> simp only [cfgLen] at hb hc hi <;> simp only [cfgBuf]
  case debug vals => rw [debug_bytes _ _ _ _ _ _ _ hb hi, debug_bytes _ _ _ _ _ _ _ hc hi]
  case pwe table => exact ti_pwe _ _ _ _ _ _ _ hb hc hi
  case silencerSteps => exact ti_silencer _ _ _ _ _ _ _ _ _ hb hc hi
  case silencerRate => exact ti_silencer _ _ _ _ _ _ _ _ _ hb hc hi
  all_goals exact ti_tagValue _ _ _ _ _ _ _ hb hc hi

theorem cfg_tag (X : Dg) (hX : IsCfg X = true) (b : Array Nat) (off : Nat) (hb : off + cfgLen X ≤ b.size) :
    u8at (cfgBuf X b off) off = cfgTag X := by
  cases X <;> simp only [IsCfg, Bool.false_eq_true] at hX <;> simp only [cfgLen] at hb
  case debug vals =>
    have := debug_bytes b off 0 (rd vals 0) (rd vals 1) (rd vals 2) (rd vals 3) hb (by omega)
    simpa [cfgBuf, cfgTag] using this
  all_goals
    simp only [cfgBuf, cfgTag]
    buf_tac

theorem cfg_table (X : Dg) (hX : IsCfg X = true) : (cfgTag X, cfgLen X) ∈ cfgTable := by
  cases X <;> simp only [IsCfg, Bool.false_eq_true] at hX <;> simp [cfgTag, cfgLen, cfgTable]

theorem cfg_size (X : Dg) (b : Array Nat) (off : Nat) : (cfgBuf X b off).size = b.size := by
  cases X <;> simp [cfgBuf, tagValue]

theorem cfg_required (X : Dg) (hX : IsCfg X = true) (n : Nat) : (Op.ofDg X).required n = cfgLen X := by
  cases X <;> simp only [IsCfg, Bool.false_eq_true] at hX <;> rfl

theorem cfg_pending (X : Dg) (hX : IsCfg X = true) : (Op.ofDg X).done = false := by
  cases X <;> simp only [IsCfg, Bool.false_eq_true] at hX <;> rfl

theorem cfgLen_pos (X : Dg) : 2 ≤ cfgLen X := by cases X <;> simp [cfgLen]
theorem cfgLen_le (X : Dg) : cfgLen X ≤ 514 := by cases X <;> simp [cfgLen]

end Autd3.Tuple
